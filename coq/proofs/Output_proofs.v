(* Output_proofs.v — proofs about TkModel.Output (C14): a destination is complete or the
   run fails; pre-existing files are never overwritten; the size-level summary equals the
   byte-level model; the code without the explicit flush is refuted. *)
From TkModel Require Import Base Output.
From TkProofs Require Import Base_proofs.

(* ------------------------------------------------------------------ *)
(* the capacity is only ever compared, never computed with *)

Lemma cap_pos : 1 <= cap.
Proof. apply Nat.leb_le. vm_compute. reflexivity. Qed.

Lemma leb_small_cap n : n <= 4 -> Nat.leb n cap = true.
Proof.
  intros H. apply Nat.leb_le.
  assert (H4 : 4 <= cap) by (apply Nat.leb_le; vm_compute; reflexivity).
  lia.
Qed.

#[local] Opaque cap.

(* ------------------------------------------------------------------ *)
(* write(2) *)

Lemma fwrite_true limit f d f' :
  fwrite limit f d = (f', true) -> f' = f ++ d /\ length f + length d <= limit.
Proof.
  unfold fwrite. destruct (Nat.leb_spec (length f + length d) limit) as [H|H]; intros E.
  - inversion E. split; [reflexivity|exact H].
  - discriminate.
Qed.

Lemma fwrite_false limit f d f' :
  fwrite limit f d = (f', false) ->
  length f + length d > limit /\ (length f <= limit -> length f' <= limit).
Proof.
  unfold fwrite. destruct (Nat.leb_spec (length f + length d) limit) as [H|H]; intros E.
  - discriminate.
  - inversion E. split; [lia|]. intros Hf.
    rewrite app_length, firstn_length. lia.
Qed.

Lemma fwrite_len limit f d :
  length f <= limit -> length (fst (fwrite limit f d)) <= limit.
Proof.
  intros Hf. destruct (fwrite limit f d) as [f' [|]] eqn:E; cbn [fst].
  - apply fwrite_true in E. destruct E as [-> H]. rewrite app_length. lia.
  - apply fwrite_false in E. destruct E as [_ H]. auto.
Qed.

(* ------------------------------------------------------------------ *)
(* BufWriter *)

Lemma bw_flush_true limit w w' :
  bw_flush limit w = (w', true) ->
  bw_file w' = bw_file w ++ bw_buf w /\ bw_buf w' = []
  /\ length (bw_file w) + length (bw_buf w) <= limit.
Proof.
  unfold bw_flush. destruct (fwrite limit (bw_file w) (bw_buf w)) as [f ok] eqn:E.
  intros H. inversion H. subst ok. apply fwrite_true in E. destruct E as [-> Hl].
  cbn. auto.
Qed.

Lemma bw_flush_false limit w w' :
  bw_flush limit w = (w', false) ->
  length (bw_file w) + length (bw_buf w) > limit
  /\ (length (bw_file w) <= limit -> length (bw_file w') <= limit).
Proof.
  unfold bw_flush. destruct (fwrite limit (bw_file w) (bw_buf w)) as [f ok] eqn:E.
  intros H. inversion H. subst ok. apply fwrite_false in E. destruct E as [Hl Hf].
  cbn. auto.
Qed.

Lemma bw_write_all_true limit w d w' :
  bw_write_all limit w d = (w', true) ->
  length (bw_file w) <= limit ->
  bw_file w' ++ bw_buf w' = bw_file w ++ bw_buf w ++ d
  /\ length (bw_file w') <= limit.
Proof.
  unfold bw_write_all. intros H Hf.
  destruct (Nat.leb (length (bw_buf w) + length d) cap).
  - inversion H. cbn. auto.
  - destruct (bw_flush limit w) as [w1 ok] eqn:Efl. destruct ok; cbn [negb] in H.
    + apply bw_flush_true in Efl. destruct Efl as (Hfile & Hbuf & Hlen).
      destruct (Nat.leb cap (length d)).
      * destruct (fwrite limit (bw_file w1) d) as [f ok2] eqn:Efw.
        inversion H. subst ok2 w'. apply fwrite_true in Efw. destruct Efw as [-> Hl2].
        cbn. rewrite Hfile, app_nil_r, <- app_assoc. split; [reflexivity|].
        rewrite !app_length. rewrite Hfile, app_length in Hl2. lia.
      * inversion H. cbn. rewrite Hfile, <- app_assoc. split; [reflexivity|].
        rewrite app_length. lia.
    + discriminate.
Qed.

Lemma bw_write_all_false limit w d w' :
  bw_write_all limit w d = (w', false) ->
  length (bw_file w) <= limit ->
  length (bw_file w) + length (bw_buf w) + length d > limit
  /\ length (bw_file w') <= limit.
Proof.
  unfold bw_write_all. intros H Hf.
  destruct (Nat.leb (length (bw_buf w) + length d) cap).
  - discriminate.
  - destruct (bw_flush limit w) as [w1 ok] eqn:Efl. destruct ok; cbn [negb] in H.
    + apply bw_flush_true in Efl. destruct Efl as (Hfile & Hbuf & Hlen).
      destruct (Nat.leb cap (length d)).
      * destruct (fwrite limit (bw_file w1) d) as [f ok2] eqn:Efw.
        inversion H. subst ok2 w'. apply fwrite_false in Efw. destruct Efw as [Hl2 Hf2].
        cbn. rewrite Hfile, app_length in Hl2. split; [lia|].
        apply Hf2. rewrite Hfile, app_length. lia.
      * discriminate.
    + inversion H. subst w1. apply bw_flush_false in Efl. destruct Efl as [Hl Hf2].
      split; [lia|auto].
Qed.

Lemma bw_write_chunks_true limit chunks : forall w w',
  bw_write_chunks limit w chunks = (w', true) ->
  length (bw_file w) <= limit ->
  bw_file w' ++ bw_buf w' = bw_file w ++ bw_buf w ++ concat chunks
  /\ length (bw_file w') <= limit.
Proof.
  induction chunks as [|c cs IH]; intros w w' H Hf; cbn [bw_write_chunks concat] in *.
  - inversion H. subst w'. rewrite app_nil_r. auto.
  - destruct (bw_write_all limit w c) as [w1 ok] eqn:E. destruct ok.
    + apply bw_write_all_true in E; [|exact Hf]. destruct E as [E1 E2].
      apply IH in H; [|exact E2]. destruct H as [H1 H2]. split; [|exact H2].
      rewrite H1. rewrite app_assoc, E1, <- !app_assoc. reflexivity.
    + discriminate.
Qed.

Lemma bw_write_chunks_false limit chunks : forall w w',
  bw_write_chunks limit w chunks = (w', false) ->
  length (bw_file w) <= limit ->
  length (bw_file w) + length (bw_buf w) + length (concat chunks) > limit
  /\ length (bw_file w') <= limit.
Proof.
  induction chunks as [|c cs IH]; intros w w' H Hf; cbn [bw_write_chunks concat] in *.
  - discriminate.
  - destruct (bw_write_all limit w c) as [w1 ok] eqn:E. destruct ok.
    + apply bw_write_all_true in E; [|exact Hf]. destruct E as [E1 E2].
      apply IH in H; [|exact E2]. destruct H as [H1 H2]. split; [|exact H2].
      apply (f_equal (@length N)) in E1. rewrite !app_length in E1.
      rewrite app_length. lia.
    + inversion H. subst w1. apply bw_write_all_false in E; [|exact Hf].
      destruct E as [E1 E2]. split; [|exact E2]. rewrite app_length. lia.
Qed.

(* ------------------------------------------------------------------ *)
(* one destination *)

Lemma write_target_cases limit chunks disk ok :
  write_target true limit chunks = (disk, ok) ->
  (ok = true /\ disk = concat chunks /\ length (concat chunks) <= limit)
  \/ (ok = false /\ length disk <= limit /\ length (concat chunks) > limit).
Proof.
  unfold write_target.
  destruct (bw_write_chunks limit (mkBufw [] []) chunks) as [w okc] eqn:E.
  destruct okc; cbn [negb].
  - apply bw_write_chunks_true in E; [|cbn; lia]. cbn in E. destruct E as [E1 E2].
    destruct (bw_flush limit w) as [w2 okf] eqn:Ef. intros H. inversion H. subst disk ok.
    destruct okf.
    + left. apply bw_flush_true in Ef. destruct Ef as (F1 & F2 & F3).
      rewrite F1, E1. rewrite <- E1, app_length. auto.
    + right. apply bw_flush_false in Ef. destruct Ef as [F1 F2].
      split; [reflexivity|]. split; [auto|]. rewrite <- E1, app_length. lia.
  - apply bw_write_chunks_false in E; [|cbn; lia]. cbn in E. destruct E as [E1 E2].
    intros H. inversion H. right. split; [reflexivity|]. split; [|lia].
    apply fwrite_len. exact E2.
Qed.

Theorem write_target_spec : forall limit chunks disk ok,
  write_target true limit chunks = (disk, ok) ->
  (ok = true -> disk = concat chunks)
  /\ (ok = false -> length (concat chunks) > limit /\ disk <> concat chunks)
  /\ (ok = true <-> length (concat chunks) <= limit).
Proof.
  intros limit chunks disk ok H. apply write_target_cases in H.
  destruct H as [(-> & -> & Hl)|(-> & Hd & Hl)].
  - split; [reflexivity|]. split; [discriminate|]. split; auto.
  - split; [discriminate|]. split.
    + intros _. split; [exact Hl|]. intros ->. lia.
    + split; [discriminate|]. intros. lia.
Qed.

(* ------------------------------------------------------------------ *)
(* the whole run *)

Lemma run_from_ok limit targets : forall i,
  rr_ok (run_from true limit i targets) = true ->
  rr_announced (run_from true limit i targets) = seq i (length targets)
  /\ rr_disk (run_from true limit i targets) = map (fun t => Some (concat (snd t))) targets.
Proof.
  induction targets as [|[[old|] chunks] rest IH]; intros i; cbn [run_from].
  - cbn. auto.
  - cbn. discriminate.
  - destruct (write_target true limit chunks) as [disk ok] eqn:E.
    apply write_target_cases in E. destruct E as [(-> & -> & Hl)|(-> & Hd & Hl)].
    + cbn [rr_ok rr_announced rr_disk]. intros H. apply IH in H. destruct H as [H1 H2].
      rewrite H1, H2. cbn. auto.
    + cbn. discriminate.
Qed.

Lemma run_from_announced limit targets : forall i j,
  In j (rr_announced (run_from true limit i targets)) ->
  exists k t, j = i + k /\ nth_error targets k = Some t
    /\ nth_error (rr_disk (run_from true limit i targets)) k = Some (Some (concat (snd t))).
Proof.
  induction targets as [|[[old|] chunks] rest IH]; intros i j; cbn [run_from].
  - cbn. intros [].
  - cbn. intros [].
  - destruct (write_target true limit chunks) as [disk ok] eqn:E.
    apply write_target_cases in E. destruct E as [(-> & -> & Hl)|(-> & Hd & Hl)].
    + cbn [rr_ok rr_announced rr_disk]. intros [<-|H].
      * exists 0, (None, chunks). cbn. split; [lia|auto].
      * apply IH in H. destruct H as (k & t & -> & H1 & H2).
        exists (S k), t. cbn [nth_error]. split; [lia|auto].
    + cbn. intros [].
Qed.

Lemma run_from_existing limit targets : forall i k t old,
  nth_error targets k = Some t -> fst t = Some old ->
  rr_ok (run_from true limit i targets) = false
  /\ nth_error (rr_disk (run_from true limit i targets)) k = Some (Some old)
  /\ ~ In (i + k) (rr_announced (run_from true limit i targets)).
Proof.
  induction targets as [|[[old0|] chunks] rest IH]; intros i k t old Hn Hf; cbn [run_from].
  - destruct k; discriminate.
  - cbn [rr_ok rr_announced rr_disk]. split; [reflexivity|]. split; [|intros []].
    destruct k as [|k]; cbn [nth_error] in *.
    + inversion Hn. subst t. cbn in Hf. inversion Hf. reflexivity.
    + rewrite nth_error_map, Hn. cbn. rewrite Hf. reflexivity.
  - destruct k as [|k]; cbn [nth_error] in Hn.
    { inversion Hn. subst t. cbn in Hf. discriminate. }
    destruct (write_target true limit chunks) as [disk ok] eqn:E. destruct ok.
    + cbn [rr_ok rr_announced rr_disk nth_error].
      destruct (IH (S i) k t old Hn Hf) as (H1 & H2 & H3).
      split; [exact H1|]. split; [exact H2|].
      intros [H|H]; [lia|]. apply H3. replace (S i + k) with (i + S k) by lia. exact H.
    + cbn [rr_ok rr_announced rr_disk nth_error]. split; [reflexivity|].
      split; [|intros []]. rewrite nth_error_map, Hn. cbn. rewrite Hf. reflexivity.
Qed.

Theorem run_targets_spec : forall limit targets,
  let r := run_targets true limit targets in
  (rr_ok r = true ->
     rr_announced r = seq 0 (length targets)
     /\ rr_disk r = map (fun t => Some (concat (snd t))) targets)
  /\ (forall i, In i (rr_announced r) ->
        exists t, nth_error targets i = Some t /\ nth_error (rr_disk r) i = Some (Some (concat (snd t))))
  /\ (forall i t old, nth_error targets i = Some t -> fst t = Some old ->
        rr_ok r = false /\ nth_error (rr_disk r) i = Some (Some old) /\ ~ In i (rr_announced r)).
Proof.
  intros limit targets r. subst r. unfold run_targets. split; [|split].
  - apply run_from_ok.
  - intros i H. apply run_from_announced in H. destruct H as (k & t & -> & H1 & H2).
    exists t. cbn. auto.
  - intros i t old Hn Hf. apply (run_from_existing limit targets 0 i t old Hn Hf).
Qed.

(* ------------------------------------------------------------------ *)
(* the size-level summary *)

Lemma N_eqb_iff : forall x y : N, N.eqb x y = true <-> x = y.
Proof. exact N.eqb_eq. Qed.

Lemma list_eqb_N_refl (c : list N) : list_eqb N.eqb c c = true.
Proof. apply (list_eqb_eq N.eqb N_eqb_iff). reflexivity. Qed.

Lemma list_eqb_N_neq (c d : list N) : c <> d -> list_eqb N.eqb c d = false.
Proof.
  intros H. destruct (list_eqb N.eqb c d) eqn:E; [|reflexivity].
  apply (list_eqb_eq N.eqb N_eqb_iff) in E. contradiction.
Qed.

Lemma run_from_disk_length e limit targets : forall i,
  length (rr_disk (run_from e limit i targets)) = length targets.
Proof.
  induction targets as [|[[old|] chunks] rest IH]; intros i; cbn [run_from].
  - reflexivity.
  - cbn. rewrite map_length. reflexivity.
  - destruct (write_target e limit chunks) as [disk ok]. destruct ok; cbn.
    + rewrite IH. reflexivity.
    + rewrite map_length. reflexivity.
Qed.

Definition complete (p : option (list N) * (option (list N) * list (list N))) : bool :=
  let '(d, t) := p in
  match d with Some c => list_eqb N.eqb c (concat (snd t)) | None => false end.

Lemma complete_absent (rest : list (option (list N) * list (list N))) :
  Forall (fun t => fst t = None) rest ->
  map complete (combine (map fst rest) rest) = map (fun _ => false) (map (fun t => length (concat (snd t))) rest).
Proof.
  induction 1 as [|t rest Ht _ IH]; [reflexivity|].
  cbn [map combine]. rewrite IH. unfold complete at 1. rewrite Ht. reflexivity.
Qed.

Lemma outcome_from_is_run limit targets : forall i,
  Forall (fun t => fst t = None) targets ->
  outcome_from limit i (map (fun t => length (concat (snd t))) targets)
  = (rr_ok (run_from true limit i targets), rr_announced (run_from true limit i targets),
     map complete (combine (rr_disk (run_from true limit i targets)) targets)).
Proof.
  induction targets as [|[old chunks] rest IH]; intros i HF; [reflexivity|].
  inversion HF as [|? ? Hh Ht]; subst. cbn in Hh. subst old.
  cbn [map snd outcome_from run_from].
  destruct (write_target true limit chunks) as [disk ok] eqn:E.
  apply write_target_cases in E. destruct E as [(-> & -> & Hl)|(-> & Hd & Hl)].
  - apply Nat.leb_le in Hl. rewrite Hl. rewrite (IH (S i) Ht).
    cbn [rr_ok rr_announced rr_disk combine map]. unfold complete at 2. cbn [snd].
    rewrite list_eqb_N_refl. reflexivity.
  - assert (Hlb : Nat.leb (length (concat chunks)) limit = false) by (apply Nat.leb_gt; lia).
    rewrite Hlb. cbn [rr_ok rr_announced rr_disk combine map]. unfold complete at 1. cbn [snd].
    rewrite list_eqb_N_neq by (intros ->; lia).
    rewrite (complete_absent rest Ht). reflexivity.
Qed.

Theorem outcome_is_run : forall limit (targets : list (option (list N) * list (list N))),
  Forall (fun t => fst t = None) targets ->
  let r := run_targets true limit targets in
  outcome limit (map (fun t => length (concat (snd t))) targets)
  = (rr_ok r, rr_announced r,
     map (fun '(d, t) => match d with Some c => list_eqb N.eqb c (concat (snd t)) | None => false end)
         (combine (rr_disk r ++ repeat None (length targets - length (rr_disk r))) targets)).
Proof.
  intros limit targets HF r. subst r. unfold run_targets, outcome.
  rewrite run_from_disk_length, Nat.sub_diag. cbn [repeat]. rewrite app_nil_r.
  rewrite (outcome_from_is_run limit targets 0 HF). reflexivity.
Qed.

(* ------------------------------------------------------------------ *)
(* the code before the repair of F5 *)

Theorem without_flush_refuted :
  exists limit chunks disk, write_target false limit chunks = (disk, true) /\ disk <> concat chunks.
Proof.
  exists 0, [[1%N]], []. split; [|discriminate].
  unfold write_target. cbn [bw_write_chunks]. unfold bw_write_all.
  cbn [bw_buf bw_file length Nat.add]. rewrite (leb_small_cap 1) by lia.
  reflexivity.
Qed.

Lemma write_target_small limit chunks :
  length (concat chunks) <= 4 ->
  write_target true limit chunks
  = (fst (fwrite limit [] (concat chunks)), Nat.leb (length (concat chunks)) limit).
Proof.
  intros Hs. unfold write_target.
  assert (G : forall cs w, bw_file w = [] -> length (bw_buf w) + length (concat cs) <= 4 ->
            bw_write_chunks limit w cs = (mkBufw [] (bw_buf w ++ concat cs), true)).
  { induction cs as [|c cs IH]; intros [f b] Hf Hl; cbn [bw_file bw_buf concat] in *; subst f.
    - cbn. rewrite app_nil_r. reflexivity.
    - cbn [bw_write_chunks]. unfold bw_write_all. cbn [bw_file bw_buf].
      rewrite app_length in Hl. rewrite leb_small_cap by lia.
      rewrite IH; cbn [bw_file bw_buf]; [|reflexivity|rewrite app_length; lia].
      rewrite <- app_assoc. reflexivity. }
  rewrite (G chunks (mkBufw [] [])) by (cbn; auto). cbn [negb bw_buf app].
  unfold bw_flush. cbn [bw_file bw_buf]. unfold fwrite. cbn [length Nat.add].
  destruct (Nat.leb (length (concat chunks)) limit); reflexivity.
Qed.

Example output_example :
  run_targets true 3 [(None, [[1;2]%N; [3]%N]); (Some [9]%N, [[1]%N]); (None, [[5]%N])]
  = mkRun false [0] [Some [1;2;3]%N; Some [9]%N; None].
Proof.
  unfold run_targets. cbn [run_from].
  rewrite write_target_small by (cbn; lia). reflexivity.
Qed.
