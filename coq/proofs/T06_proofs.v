(* T06_proofs.v — lemmas for coq/props/T06.v: the structure of a whole run (T06_run) and the
   composition with T05 (figures), T04 (heads), C04 (layout), C06 (journal text). *)
From Coq Require Import List ZArith NArith Bool Arith Lia Permutation.
From TkModel Require Import Base Dec Acct Txn Accept Journal Balance Register Round Price Time Group.
From TkModel Require Import ReportText T05_report PriceText Regex T06_describe T06_run.
From TkModel Require Filter Equity EquityText MetaText Audit Codec Tstamp Config.
From TkSpec Require Import Balance_spec Register_spec Round_spec Price_spec ReportText_spec T05_spec T05_grp_spec T06_spec.
From TkProofs Require Import ReportText_proofs T05_proofs T05_grp_proofs Journal_layout_proofs.
From TkProofs Require Codec_jv_proofs.
Import ListNotations.
Local Open Scope Z_scope.

(* ================================================================== generic *)
Lemma mapO_Forall2 {A B} (f : A -> option B) : forall l rs,
  mapO f l = Some rs -> Forall2 (fun k r => f k = Some r) l rs.
Proof.
  induction l as [|x l IH]; intros rs H; cbn [mapO] in H.
  - inversion H. constructor.
  - destruct (f x) as [y|] eqn:E; [|discriminate].
    destruct (mapO f l) as [ys|] eqn:E2; [|discriminate].
    inversion H; subst. constructor; [exact E|apply IH; reflexivity].
Qed.

Lemma Forall2_mapO {A B} (f : A -> option B) : forall l rs,
  Forall2 (fun k r => f k = Some r) l rs -> mapO f l = Some rs.
Proof.
  induction 1 as [|x y l rs E _ IH]; cbn [mapO]; [reflexivity|].
  rewrite E, IH. reflexivity.
Qed.

Lemma Forall2_In_split {A B} (P : A -> B -> Prop) : forall l rs k,
  Forall2 P l rs -> In k l -> exists rs1 r rs2, rs = rs1 ++ r :: rs2 /\ P k r.
Proof.
  induction 1 as [|x y l rs E _ IH]; intros Hin; [destruct Hin|].
  destruct Hin as [->|Hin].
  - exists [], y, rs. split; [reflexivity|exact E].
  - destruct (IH Hin) as (rs1 & r & rs2 & -> & HP). exists (y :: rs1), r, rs2. split; [reflexivity|exact HP].
Qed.

Lemma forallb_Forall {A} (p : A -> bool) (P : A -> Prop) (l : list A) :
  (forall x, p x = true -> P x) -> forallb p l = true -> Forall P l.
Proof.
  intros HpP H. induction l as [|x l IH]; constructor; cbn [forallb] in H; apply andb_true_iff in H; destruct H as [H1 H2].
  - apply HpP. exact H1.
  - apply IH. exact H2.
Qed.

(* ================================================================== run_prepare *)
Section WithDigest.
  Variable H : list N -> list N.

  Lemma prepare_inv cfg j p st : run_prepare H cfg j p = Ok st ->
    exists js,
      price_setup cfg p = Ok (rs_file st, (rs_lk st, rs_db st))
      /\ load cfg j = Ok js
      /\ rs_sel st = run_filter cfg js
      /\ rs_sel st <> []
      /\ MetaText.make_items H (rc_audit cfg) (rc_algo cfg) None (filter_desc cfg) (map uuid_of (rs_sel st)) = Ok (rs_md st).
  Proof.
    unfold run_prepare, prepare_from, prepare_with. intros Hr. cbv zeta in Hr.
    destruct (price_setup cfg p) as [[f [lk db]]|c] eqn:Ep; cbn [res_bind] in Hr; [|discriminate].
    destruct (load cfg j) as [js|c] eqn:El; cbn [res_bind] in Hr; [|discriminate].
    destruct (MetaText.make_items H (rc_audit cfg) (rc_algo cfg) None (filter_desc cfg) (map uuid_of (run_filter cfg js)))
      as [md|c] eqn:Em; cbn [res_bind] in Hr; [|discriminate].
    destruct (run_filter cfg js) as [|t sel] eqn:Es; [discriminate|].
    inversion Hr; subst st; cbn [rs_file rs_lk rs_db rs_sel rs_md fst snd].
    exists js. split; [reflexivity|]. split; [reflexivity|]. split; [symmetry; exact Es|]. split; [discriminate|exact Em].
  Qed.

  Lemma load_inv cfg j js : load cfg j = Ok js ->
    load_journal (rc_journal cfg) j = Ok js
    /\ (rc_audit cfg = true -> Forall (fun t => h_uuid (jt_hdr t) <> None) js).
  Proof.
    unfold load. destruct (load_journal (rc_journal cfg) j) as [js0|c]; cbn [res_bind]; [|discriminate].
    unfold audit_uuids.
    destruct (rc_audit cfg && negb (forallb (fun j0 => match h_uuid (jt_hdr j0) with Some _ => true | None => false end) js0)) eqn:E;
      intros Hr; [discriminate|]. inversion Hr; subst js0. split; [reflexivity|].
    intros Ha. rewrite Ha in E. cbn [andb] in E. apply negb_false_iff in E.
    eapply forallb_Forall; [|exact E]. intros x Hx Hn. cbv beta in Hx. rewrite Hn in Hx. discriminate.
  Qed.

  (* the transactions of the state are parsed from the journal text, the price entries from the price file text *)
  Lemma state_from_texts cfg j p st : run_prepare H cfg j p = Ok st ->
    (exists js, load_journal (rc_journal cfg) j = Ok js
                /\ rs_sel st = run_filter cfg js /\ rs_txns st = map txn_of (run_filter cfg js))
    /\ ((rc_lookup cfg = LtNone /\ rs_file st = [])
        \/ (exists s, p = Some s /\ parse_pricedb (price_cfg cfg) s = Ok (rs_file st))).
  Proof.
    intros Hr. destruct (prepare_inv _ _ _ _ Hr) as (js & Hp & Hl & Hs & _ & _).
    split.
    - exists js. destruct (load_inv _ _ _ Hl) as [Hl' _]. repeat split; try assumption.
      unfold rs_txns. rewrite Hs. reflexivity.
    - unfold price_setup in Hp. destruct (rc_lookup cfg) eqn:El.
      + left. split; [reflexivity|].
        destruct (settings_price LtNone (rc_commodity cfg) (rc_before cfg) []) as [r|c]; cbn [res_map] in Hp; [|discriminate].
        inversion Hp. reflexivity.
      + right. destruct p as [s|]; [|discriminate]. exists s. split; [reflexivity|].
        destruct (parse_pricedb (price_cfg cfg) s) as [f|c]; cbn [res_bind] in Hp; [|discriminate].
        destruct (settings_price LtLastPrice (rc_commodity cfg) (rc_before cfg) f) as [r|c]; cbn [res_map] in Hp; [|discriminate].
        inversion Hp. reflexivity.
      + right. destruct p as [s|]; [|discriminate]. exists s. split; [reflexivity|].
        destruct (parse_pricedb (price_cfg cfg) s) as [f|c]; cbn [res_bind] in Hp; [|discriminate].
        destruct (settings_price LtTxnTime (rc_commodity cfg) (rc_before cfg) f) as [r|c]; cbn [res_map] in Hp; [|discriminate].
        inversion Hp. reflexivity.
      + right. destruct p as [s|]; [|discriminate]. exists s. split; [reflexivity|].
        destruct (parse_pricedb (price_cfg cfg) s) as [f|c]; cbn [res_bind] in Hp; [|discriminate].
        destruct (settings_price LtGivenTime (rc_commodity cfg) (rc_before cfg) f) as [r|c]; cbn [res_map] in Hp; [|discriminate].
        inversion Hp. reflexivity.
  Qed.
End WithDigest.

(* ================================================================== the price part of the settings *)
Lemma settings_price_inv lt rc before f lk db : settings_price lt rc before f = Ok (lk, db) ->
  db = load_db (match lt with LtNone => [] | _ => f end)
  /\ match rc with
     | None => lt = LtNone /\ lk = LkNone
     | Some _ => match lt, before with
                 | LtNone, _ => lk = LkNone
                 | LtTxnTime, _ => lk = LkTxnTime
                 | LtLastPrice, _ => lk = LkLastPrice
                 | LtGivenTime, Some t => lk = LkGivenTime t
                 | LtGivenTime, None => False
                 end
     end.
Proof.
  unfold settings_price, load_price_file.
  destruct rc as [c|], lt, before as [t|]; cbn [res_bind res_map]; try discriminate;
    try (destruct f as [|e f']; cbn [res_map]; try discriminate);
    intros Hr; inversion Hr; subst; repeat split; reflexivity.
Qed.

Lemma price_setup_inv cfg p f lk db : price_setup cfg p = Ok (f, (lk, db)) ->
  db = load_db f /\ spec_lk cfg = Some lk.
Proof.
  unfold price_setup, spec_lk. intros Hp.
  destruct (rc_lookup cfg) eqn:El.
  - destruct (settings_price LtNone (rc_commodity cfg) (rc_before cfg) []) as [[lk0 db0]|c] eqn:Es; cbn [res_map] in Hp; [|discriminate].
    inversion Hp; subst. apply settings_price_inv in Es. destruct Es as [-> Hl].
    split; [reflexivity|]. destruct (rc_commodity cfg); [subst; reflexivity|destruct Hl as [_ ->]; reflexivity].
  - destruct p as [s|]; [|discriminate].
    destruct (parse_pricedb (price_cfg cfg) s) as [f0|c]; cbn [res_bind] in Hp; [|discriminate].
    destruct (settings_price LtLastPrice (rc_commodity cfg) (rc_before cfg) f0) as [[lk0 db0]|c] eqn:Es; cbn [res_map] in Hp; [|discriminate].
    inversion Hp; subst. apply settings_price_inv in Es. destruct Es as [-> Hl].
    split; [reflexivity|]. destruct (rc_commodity cfg); [|destruct Hl as [Hx _]; discriminate Hx]. destruct (rc_before cfg); subst; reflexivity.
  - destruct p as [s|]; [|discriminate].
    destruct (parse_pricedb (price_cfg cfg) s) as [f0|c]; cbn [res_bind] in Hp; [|discriminate].
    destruct (settings_price LtTxnTime (rc_commodity cfg) (rc_before cfg) f0) as [[lk0 db0]|c] eqn:Es; cbn [res_map] in Hp; [|discriminate].
    inversion Hp; subst. apply settings_price_inv in Es. destruct Es as [-> Hl].
    split; [reflexivity|]. destruct (rc_commodity cfg); [|destruct Hl as [Hx _]; discriminate Hx]. destruct (rc_before cfg); subst; reflexivity.
  - destruct p as [s|]; [|discriminate].
    destruct (parse_pricedb (price_cfg cfg) s) as [f0|c]; cbn [res_bind] in Hp; [|discriminate].
    destruct (settings_price LtGivenTime (rc_commodity cfg) (rc_before cfg) f0) as [[lk0 db0]|c] eqn:Es; cbn [res_map] in Hp; [|discriminate].
    inversion Hp; subst. apply settings_price_inv in Es. destruct Es as [-> Hl].
    split; [reflexivity|]. destruct (rc_commodity cfg); [|destruct Hl as [Hx _]; discriminate Hx]. destruct (rc_before cfg); [subst; reflexivity|destruct Hl].
Qed.

(* ================================================================== the decided hypotheses *)
Lemma no_nlb_sound s : t6_no_nlb s = true -> no_nl s.
Proof.
  unfold t6_no_nlb, no_nl. intros Hb Hin. rewrite forallb_forall in Hb. specialize (Hb _ Hin).
  rewrite N.eqb_refl in Hb. discriminate.
Qed.

Lemma fieldb_sound s : fieldb s = true -> field s.
Proof.
  unfold fieldb, field. intros Hb. apply andb_true_iff in Hb. destruct Hb as [Hn Hf].
  rewrite forallb_forall in Hf. split; [|split].
  - intros ->. discriminate.
  - intros Hin. specialize (Hf _ Hin). rewrite N.eqb_refl in Hf. discriminate.
  - intros Hin. specialize (Hf _ Hin). rewrite N.eqb_refl, andb_false_r in Hf. discriminate.
Qed.

Lemma opt_fieldb_sound s : opt_fieldb s = true -> opt_field s.
Proof.
  unfold opt_fieldb, opt_field. destruct s as [|c s]; [left; reflexivity|]. intros Hb. right. apply fieldb_sound. exact Hb.
Qed.

Lemma comp_okb_sound c : comp_okb c = true -> comp_ok c.
Proof.
  unfold comp_okb, comp_ok. intros Hb. apply andb_true_iff in Hb. destruct Hb as [Hn Hf]. rewrite forallb_forall in Hf. split.
  - intros ->. discriminate.
  - intros Hin. specialize (Hf _ Hin). rewrite N.eqb_refl in Hf. discriminate.
Qed.

Lemma acct_okb_sound a : acct_okb a = true -> acct_wf a /\ Forall field a.
Proof.
  unfold acct_okb, acct_wf. destruct a as [|c a]; [discriminate|]. intros Hb. split; [split; [discriminate|]|].
  - eapply forallb_Forall; [|exact Hb]. intros x Hx. apply andb_true_iff in Hx. apply comp_okb_sound. apply Hx.
  - eapply forallb_Forall; [|exact Hb]. intros x Hx. apply andb_true_iff in Hx. apply fieldb_sound. apply Hx.
Qed.

Lemma distinct_keysb_sound f : distinct_keysb f = true -> distinct_keys f.
Proof.
  unfold distinct_keys. induction f as [|e f IH]; cbn [distinct_keysb map]; intros Hb; [constructor|].
  apply andb_true_iff in Hb. destruct Hb as [Hn Hr]. constructor; [|apply IH; exact Hr].
  intros Hin. apply in_map_iff in Hin. destruct Hin as (e' & Hk & Hin').
  apply negb_true_iff in Hn. assert (Hex : existsb (fun e'0 => (pe_ts e =? pe_ts e'0) && str_eqb (pe_base e) (pe_base e'0)
                                                   && str_eqb (pe_eq e) (pe_eq e'0)) f = true).
  { apply existsb_exists. exists e'. split; [exact Hin'|]. unfold pe_key in Hk. inversion Hk as [[H1 H2 H3]].
    rewrite Z.eqb_refl. cbn [andb]. rewrite !(proj2 (Base_proofs.str_eqb_eq _ _) eq_refl). reflexivity. }
  rewrite Hex in Hn. discriminate.
Qed.

Lemma header_hyp_sound ts h : header_hyp ts h = true -> header_names_ok ts h.
Proof.
  unfold header_hyp, header_names_ok. intros Hb.
  repeat (apply andb_true_iff in Hb; let Hx := fresh "Hx" in destruct Hb as [Hb Hx]).
  repeat split; try (apply no_nlb_sound; assumption).
  - eapply forallb_Forall; [|eassumption]. intros x. apply no_nlb_sound.
  - eapply forallb_Forall; [|eassumption]. intros x. apply no_nlb_sound.
Qed.

Lemma run_hyp_sound cfg st : run_hyp cfg st = true ->
  (sc_min (rc_scale cfg) <= sc_max (rc_scale cfg))%N
  /\ distinct_keys (rs_file st)
  /\ no_nl (rc_title_bal cfg) /\ no_nl (rc_title_grp cfg) /\ no_nl (rc_title_reg cfg)
  /\ Forall (txn_dom (rs_lk st) (rc_commodity cfg) (rs_file st)) (rs_txns st)
  /\ bal_names_in (rc_commodity cfg) (rs_txns st)
  /\ reg_names_in (rc_commodity cfg) (ts_text cfg) (rs_txns st).
Proof.
  unfold run_hyp. intros Hb.
  apply andb_true_iff in Hb. destruct Hb as [Hb Htx].
  apply andb_true_iff in Hb. destruct Hb as [Hb Hrc].
  apply andb_true_iff in Hb. destruct Hb as [Hb Ht3].
  apply andb_true_iff in Hb. destruct Hb as [Hb Ht2].
  apply andb_true_iff in Hb. destruct Hb as [Hb Ht1].
  apply andb_true_iff in Hb. destruct Hb as [Hsc Hdk].
  split; [apply N.leb_le; exact Hsc|]. split; [apply distinct_keysb_sound; exact Hdk|].
  split; [apply no_nlb_sound; exact Ht1|]. split; [apply no_nlb_sound; exact Ht2|]. split; [apply no_nlb_sound; exact Ht3|].
  assert (Hp : forall tx, txn_hyp cfg (rs_lk st) (rs_file st) tx = true ->
             header_names_ok (ts_text cfg (t_hdr tx)) (t_hdr tx)
             /\ Forall (fun p => post_hyp (rs_lk st) (rc_commodity cfg) (rs_file st) (h_inst (t_hdr tx)) p = true) (t_posts tx)).
  { intros tx Hx. unfold txn_hyp in Hx. apply andb_true_iff in Hx. destruct Hx as [Hh Hps]. split; [apply header_hyp_sound; exact Hh|].
    eapply forallb_Forall; [|exact Hps]. intros x Hx. exact Hx. }
  assert (Hq : forall t p, post_hyp (rs_lk st) (rc_commodity cfg) (rs_file st) t p = true ->
             dwf (p_amount p) /\ dwf (cv_amount (spec_conv (rs_lk st) (rc_commodity cfg) (rs_file st) t p))
             /\ opt_field (p_comm p) /\ acct_wf (p_acc p) /\ Forall field (p_acc p) /\ no_nl (acct_str (p_acc p))).
  { intros t p Hx. unfold post_hyp in Hx.
    apply andb_true_iff in Hx. destruct Hx as [Hx H5]. apply andb_true_iff in Hx. destruct Hx as [Hx H4].
    apply andb_true_iff in Hx. destruct Hx as [Hx H3]. apply andb_true_iff in Hx. destruct Hx as [H1 H2].
    destruct (acct_okb_sound _ H4) as [Ha Hf].
    split; [apply N.leb_le; exact H1|]. split; [apply N.leb_le; exact H2|]. split; [apply opt_fieldb_sound; exact H3|].
    split; [exact Ha|]. split; [exact Hf|apply no_nlb_sound; exact H5]. }
  split; [|split].
  - eapply forallb_Forall; [|exact Htx]. intros tx Hx. destruct (Hp _ Hx) as [_ Hps]. unfold txn_dom.
    eapply Forall_impl; [|exact Hps]. intros p Hpp. destruct (Hq _ _ Hpp) as (A & B & _). split; assumption.
  - split; [apply opt_fieldb_sound; exact Hrc|].
    eapply forallb_Forall; [|exact Htx]. intros tx Hx. destruct (Hp _ Hx) as [_ Hps].
    eapply Forall_impl; [|exact Hps]. intros p Hpp. destruct (Hq _ _ Hpp) as (_ & _ & C & D & E & _). split; [exact C|split; [exact D|exact E]].
  - split; [apply opt_fieldb_sound; exact Hrc|].
    eapply forallb_Forall; [|exact Htx]. intros tx Hx. destruct (Hp _ Hx) as [Hh Hps]. split; [exact Hh|].
    eapply Forall_impl; [|exact Hps]. intros p Hpp. destruct (Hq _ _ Hpp) as (_ & _ & C & _ & _ & F). split; assumption.
Qed.

(* ================================================================== the console text *)
Lemma combine_map_r {A B C} (h : B -> C) : forall (l : list A) (rs : list B),
  combine l (map h rs) = map (fun kr => (fst kr, h (snd kr))) (combine l rs).
Proof.
  induction l as [|x l IH]; intros [|r rs]; cbn [combine map]; try reflexivity. rewrite IH. reflexivity.
Qed.

Lemma map_fst_combine {A B C} (a : A -> C) (P : A -> B -> Prop) : forall l rs, Forall2 P l rs ->
  map (fun kr => a (fst kr)) (combine l rs) = map a l.
Proof.
  induction 1 as [|x y l rs _ _ IH]; cbn [combine map fst]; [reflexivity|]. rewrite IH. reflexivity.
Qed.

(* mapO over entries built with option_map *)
Lemma mapO_option_map {A B C} (f : A -> option B) (g : A -> B -> C) : forall l es,
  mapO (fun k => option_map (g k) (f k)) l = Some es ->
  exists cs, Forall2 (fun k c => f k = Some c) l cs /\ es = map (fun kc => g (fst kc) (snd kc)) (combine l cs).
Proof.
  induction l as [|x l IH]; intros es He; cbn [mapO] in He.
  - inversion He. exists []. split; [constructor|reflexivity].
  - destruct (f x) as [c|] eqn:E; cbn [option_map] in He; [|discriminate].
    destruct (mapO (fun k => option_map (g k) (f k)) l) as [es'|] eqn:E2; [|discriminate].
    inversion He; subst. destruct (IH _ eq_refl) as (cs & HF & ->).
    exists (c :: cs). split; [constructor; assumption|reflexivity].
Qed.

Lemma Forall2_option_map {A B C} (f : A -> option B) (h : B -> C) : forall l cs,
  Forall2 (fun k c => option_map h (f k) = Some c) l cs ->
  exists rs, Forall2 (fun k r => f k = Some r) l rs /\ cs = map h rs.
Proof.
  induction 1 as [|x c l cs E _ IH].
  - exists []. split; [constructor|reflexivity].
  - destruct IH as (rs & HF & ->). destruct (f x) as [r|] eqn:Er; cbn [option_map] in E; [|discriminate].
    inversion E; subst. exists (r :: rs). split; [constructor; assumption|reflexivity].
Qed.

Section Main.
  Variable H : list N -> list N.

  Lemma console_inv cfg j p out : run_console H cfg j p = Ok out ->
    exists st, run_prepare H cfg j p = Ok st
      /\ ((rc_targets cfg = [] /\ out = [])
          \/ (rc_targets cfg <> []
              /\ exists rs, Forall2 (fun k r => report_text H cfg st k = Some r) (rc_targets cfg) rs
                            /\ out = console_text (rs_md st) rs)).
  Proof.
    unfold run_console, console_of, console_with. destruct (run_prepare H cfg j p) as [st|c]; cbn [res_bind]; [|discriminate].
    intros Hr. exists st. split; [reflexivity|].
    destruct (rc_targets cfg) as [|k ks] eqn:Et.
    - left. inversion Hr. split; reflexivity.
    - right. split; [discriminate|].
      destruct (mapO (report_text H cfg st) (k :: ks)) as [rs|] eqn:Em; [|discriminate].
      inversion Hr. exists rs. split; [apply mapO_Forall2; exact Em|reflexivity].
  Qed.

  (* T06_console_structure *)
  Lemma console_structure cfg j p out : run_console H cfg j p = Ok out -> rc_targets cfg <> [] ->
    exists st rs,
      run_prepare H cfg j p = Ok st
      /\ MetaText.make_items H (rc_audit cfg) (rc_algo cfg) None (filter_desc cfg) (map uuid_of (rs_sel st)) = Ok (rs_md st)
      /\ Forall2 (fun k r => report_text H cfg st k = Some r) (rc_targets cfg) rs
      /\ out = match rs_md st with Some items => MetaText.meta_text items ++ [10%N] | None => [] end
               ++ concat (map (fun r => (repeat 42%N 82 ++ [10%N]) ++ r ++ (repeat 35%N 82 ++ [10%N])) rs).
  Proof.
    intros Hr Ht. destruct (console_inv _ _ _ _ Hr) as (st & Hp & [[Ht' _]|(_ & rs & HF & ->)]); [contradiction|].
    exists st, rs. destruct (prepare_inv H _ _ _ _ Hp) as (js & _ & _ & _ & _ & Hm).
    split; [exact Hp|]. split; [exact Hm|]. split; [exact HF|]. reflexivity.
  Qed.

  Lemma console_no_targets cfg j p out : run_console H cfg j p = Ok out -> rc_targets cfg = [] -> out = [].
  Proof.
    intros Hr Ht. destruct (console_inv _ _ _ _ Hr) as (st & Hp & [[_ ->]|(Hn & _)]); [reflexivity|contradiction].
  Qed.

  (* T06_reports_are_the_reports *)
  Lemma report_text_inv cfg st k r : report_text H cfg st k = Some r ->
    exists body,
      r = MetaText.report_head k (MetaText.sel_item H (rc_audit cfg) false (rc_algo cfg) (map acct_str (sel_of cfg k)))
                               (rc_zone_name cfg)
                               (MetaText.price_recs (MetaText.render_full (fun _ => rc_zone_off cfg))
                                  (report_ctx (rs_lk st) (rc_commodity cfg) (rs_db st) (rs_txns st)))
          ++ body
      /\ match k with
         | MetaText.RBalance =>
             conv_balance_text (rc_title_bal cfg) (rc_scale cfg) (rs_lk st) (rc_commodity cfg) (rs_db st)
                               (sel_of cfg k) (rs_txns st) = Some body
         | MetaText.RBalGroup =>
             conv_balgrp_text (rc_title_grp cfg) (rc_scale cfg) (rc_group_by cfg) (fun _ => rc_zone_off cfg)
                              (rs_lk st) (rc_commodity cfg) (rs_db st) (sel_of cfg k) (rs_txns st) = Some body
         | MetaText.RRegister =>
             body = conv_register_text (rc_title_reg cfg) (rc_scale cfg) (ts_text cfg)
                                       (rs_lk st) (rc_commodity cfg) (rs_db st) (sel_of cfg k) (rs_txns st)
         end.
  Proof.
    unfold report_text. destruct (conv_overflow cfg st); [discriminate|].
    destruct (report_body cfg st k) as [b|] eqn:Eb; cbn [option_map]; [|discriminate].
    intros Hr. inversion Hr. exists b. split; [reflexivity|].
    unfold report_body in Eb. destruct k; [exact Eb|exact Eb|inversion Eb; reflexivity].
  Qed.

  (* the embedded report of a target: where it sits in the console text *)
  Lemma console_embeds cfg j p out k : run_console H cfg j p = Ok out -> In k (rc_targets cfg) ->
    exists st r pre post,
      run_prepare H cfg j p = Ok st /\ report_text H cfg st k = Some r
      /\ out = pre ++ (repeat 42%N 82 ++ [10%N]) ++ r ++ (repeat 35%N 82 ++ [10%N]) ++ post.
  Proof.
    intros Hr Hin. destruct (console_inv _ _ _ _ Hr) as (st & Hp & [[Ht _]|(_ & rs & HF & ->)]).
    - rewrite Ht in Hin. destruct Hin.
    - destruct (Forall2_In_split _ _ _ _ HF Hin) as (rs1 & r & rs2 & -> & Hk).
      exists st, r, (MetaText.file_head (rs_md st) ++ concat (map frame_report rs1)), (concat (map frame_report rs2)).
      split; [exact Hp|]. split; [exact Hk|].
      unfold console_text. rewrite map_app, concat_app. cbn [map concat]. unfold frame_report at 2, star_line, hash_line, sep_len.
      rewrite <- !app_assoc. reflexivity.
  Qed.

  Lemma state_spec cfg j p st : run_prepare H cfg j p = Ok st ->
    rs_db st = load_db (rs_file st) /\ spec_lk cfg = Some (rs_lk st).
  Proof.
    intros Hp. destruct (prepare_inv H _ _ _ _ Hp) as (js & Hs & _). apply price_setup_inv in Hs. exact Hs.
  Qed.

  (* T06_balance_figures *)
  Lemma console_balance_figures cfg j p out :
    run_console H cfg j p = Ok out -> In MetaText.RBalance (rc_targets cfg) ->
    exists st, run_prepare H cfg j p = Ok st
      /\ (run_hyp cfg st = true ->
          exists pre head body post,
            out = pre ++ (repeat 42%N 82 ++ [10%N]) ++ (head ++ body) ++ (repeat 35%N 82 ++ [10%N]) ++ post
            /\ balance_text_spec (rc_title_bal cfg) (rc_scale cfg) (rs_lk st) (rc_commodity cfg) (rs_file st)
                                 (sel_of cfg MetaText.RBalance) (rs_txns st) body).
  Proof.
    intros Hr Hin. destruct (console_embeds _ _ _ _ _ Hr Hin) as (st & r & pre & post & Hp & Hk & ->).
    exists st. split; [exact Hp|]. intros Hh.
    destruct (report_text_inv _ _ _ _ Hk) as (body & -> & Hb).
    destruct (state_spec _ _ _ _ Hp) as [Hdb _]. rewrite Hdb in Hb.
    destruct (run_hyp_sound _ _ Hh) as (Hsc & Hdk & Ht1 & _ & _ & Hdom & Hbn & _).
    eexists pre, _, body, post. split; [reflexivity|].
    eapply conv_balance_text_shows; eassumption.
  Qed.

  (* T06_register_rows *)
  Lemma console_register_rows cfg j p out :
    run_console H cfg j p = Ok out -> In MetaText.RRegister (rc_targets cfg) ->
    exists st, run_prepare H cfg j p = Ok st
      /\ (run_hyp cfg st = true ->
          exists pre head body post,
            out = pre ++ (repeat 42%N 82 ++ [10%N]) ++ (head ++ body) ++ (repeat 35%N 82 ++ [10%N]) ++ post
            /\ register_text_spec (rc_title_reg cfg) (rc_scale cfg) (ts_text cfg) (rs_lk st) (rc_commodity cfg) (rs_file st)
                                  (sel_of cfg MetaText.RRegister) (rs_txns st) body).
  Proof.
    intros Hr Hin. destruct (console_embeds _ _ _ _ _ Hr Hin) as (st & r & pre & post & Hp & Hk & ->).
    exists st. split; [exact Hp|]. intros Hh.
    destruct (report_text_inv _ _ _ _ Hk) as (body & -> & Hb).
    destruct (state_spec _ _ _ _ Hp) as [Hdb _]. rewrite Hdb in Hb.
    destruct (run_hyp_sound _ _ Hh) as (Hsc & Hdk & _ & _ & Ht3 & Hdom & _ & Hrn).
    eexists pre, _, body, post. split; [reflexivity|].
    rewrite Hb. apply conv_register_text_shows; assumption.
  Qed.

  (* T06_balgrp_figures *)
  Lemma console_balgrp_figures cfg j p out :
    run_console H cfg j p = Ok out -> In MetaText.RBalGroup (rc_targets cfg) ->
    exists st, run_prepare H cfg j p = Ok st
      /\ (run_hyp cfg st = true ->
          exists pre head body post,
            out = pre ++ (repeat 42%N 82 ++ [10%N]) ++ (head ++ body) ++ (repeat 35%N 82 ++ [10%N]) ++ post
            /\ balgrp_text_spec (rc_title_grp cfg) (rc_scale cfg) (rc_group_by cfg) (rtz cfg) (rs_lk st) (rc_commodity cfg)
                                (rs_file st) (sel_of cfg MetaText.RBalGroup) (rs_txns st) body).
  Proof.
    intros Hr Hin. destruct (console_embeds _ _ _ _ _ Hr Hin) as (st & r & pre & post & Hp & Hk & ->).
    exists st. split; [exact Hp|]. intros Hh.
    destruct (report_text_inv _ _ _ _ Hk) as (body & -> & Hb).
    destruct (state_spec _ _ _ _ Hp) as [Hdb _]. rewrite Hdb in Hb.
    destruct (run_hyp_sound _ _ Hh) as (Hsc & Hdk & _ & _ & _ & Hdom & Hbn & _).
    eexists pre, _, body, post. split; [reflexivity|].
    eapply conv_balgrp_text_shows; eassumption.
  Qed.

  (* ================================================================ errors: all or nothing *)
  Lemma prepare_err_run cfg j p c : run_prepare H cfg j p = Err c ->
    run_console H cfg j p = Err c /\ run_files H cfg j p = Err c.
  Proof. intros He. unfold run_console, run_files. rewrite He. split; reflexivity. Qed.

  Lemma error_no_output cfg j p :
    (forall c, load_journal (rc_journal cfg) j = Err c ->
       exists c', run_console H cfg j p = Err c' /\ run_files H cfg j p = Err c')
    /\ (forall js, load_journal (rc_journal cfg) j = Ok js -> run_filter cfg js = [] ->
       exists c', run_console H cfg j p = Err c' /\ run_files H cfg j p = Err c')
    /\ (forall js, load_journal (rc_journal cfg) j = Ok js -> rc_audit cfg = true ->
                   (exists t, In t js /\ h_uuid (jt_hdr t) = None) ->
       exists c', run_console H cfg j p = Err c' /\ run_files H cfg j p = Err c')
    /\ (forall c, price_setup cfg p = Err c -> run_console H cfg j p = Err c /\ run_files H cfg j p = Err c)
    /\ (forall c, run_prepare H cfg j p = Err c -> run_console H cfg j p = Err c /\ run_files H cfg j p = Err c).
  Proof.
    assert (Hany : forall c, run_prepare H cfg j p = Err c ->
                   exists c', run_console H cfg j p = Err c' /\ run_files H cfg j p = Err c')
      by (intros c He; exists c; apply prepare_err_run; exact He).
    split; [|split; [|split; [|split]]].
    - intros c He. unfold run_prepare, load in *. rewrite He in *.
      destruct (price_setup cfg p) as [pr|c0]; cbn [res_bind] in *; eapply Hany; reflexivity.
    - intros js Hl He.
      destruct (run_prepare H cfg j p) as [st|c] eqn:Ep; [|eapply Hany; reflexivity].
      destruct (prepare_inv H _ _ _ _ Ep) as (js' & _ & Hl' & Hs & Hne & _).
      destruct (load_inv _ _ _ Hl') as [Hl'' _]. rewrite Hl in Hl''. inversion Hl''; subst js'.
      rewrite He in Hs. contradiction.
    - intros js Hl Ha (t & Hin & Hu).
      destruct (run_prepare H cfg j p) as [st|c] eqn:Ep; [|eapply Hany; reflexivity].
      destruct (prepare_inv H _ _ _ _ Ep) as (js' & _ & Hl' & _).
      destruct (load_inv _ _ _ Hl') as [Hl'' Hall]. rewrite Hl in Hl''. inversion Hl''; subst js'.
      specialize (Hall Ha). rewrite Forall_forall in Hall. specialize (Hall _ Hin). contradiction.
    - intros c He. apply prepare_err_run. unfold run_prepare. rewrite He. reflexivity.
    - intros c He. apply prepare_err_run. exact He.
  Qed.

  (* ================================================================ file mode *)
  Lemma files_with_structure cfg md rt xf files ann : files_with cfg md rt xf = Ok (files, ann) ->
    exists reps exps,
      Forall2 (fun k r => rt k = Some r) (rc_targets cfg) reps
      /\ Forall2 (fun x c => xf x = Some c) (rc_exports cfg) exps
      /\ files = map (fun kr => (file_name cfg (kind_name (fst kr)) ext_txt, MetaText.file_head md ++ snd kr))
                     (combine (rc_targets cfg) reps)
                 ++ map (fun xc => (file_name cfg (export_name (fst xc)) ext_txn, snd xc)) (combine (rc_exports cfg) exps)
      /\ ann = concat (map (fun k => announce (kind_label k) (file_path cfg (file_name cfg (kind_name k) ext_txt))) (rc_targets cfg))
               ++ concat (map (fun x => announce (export_label x) (file_path cfg (file_name cfg (export_name x) ext_txn)))
                              (rc_exports cfg)).
  Proof.
    unfold files_with.
    destruct (mapO (report_entry_with cfg md rt) (rc_targets cfg)) as [rs|] eqn:Er; [|discriminate].
    destruct (mapO (export_entry_with cfg xf) (rc_exports cfg)) as [xs|] eqn:Ex; [|discriminate].
    intros Hr. inversion Hr; subst files ann. clear Hr.
    pose (gr := fun (k : MetaText.report_kind) (c : list N) =>
                  (file_name cfg (kind_name k) ext_txt, c, announce (kind_label k) (file_path cfg (file_name cfg (kind_name k) ext_txt)))).
    pose (gx := fun (x : export_kind) (c : list N) =>
                  (file_name cfg (export_name x) ext_txn, c, announce (export_label x) (file_path cfg (file_name cfg (export_name x) ext_txn)))).
    change (mapO (fun k => option_map (gr k) (option_map (fun r => MetaText.file_head md ++ r) (rt k))) (rc_targets cfg) = Some rs) in Er.
    change (mapO (fun x => option_map (gx x) (xf x)) (rc_exports cfg) = Some xs) in Ex.
    destruct (mapO_option_map _ _ _ _ Er) as (cs & HFc & ->).
    destruct (mapO_option_map _ _ _ _ Ex) as (exps & HFx & ->).
    destruct (Forall2_option_map _ _ _ _ HFc) as (reps & HFr & ->).
    exists reps, exps. split; [exact HFr|]. split; [exact HFx|]. split.
    - rewrite map_app, !map_map, combine_map_r, map_map. reflexivity.
    - rewrite map_app, concat_app, !map_map. cbn [snd gr gx].
      rewrite combine_map_r, map_map. cbn [fst snd].
      rewrite (map_fst_combine (fun k => announce (kind_label k) (file_path cfg (file_name cfg (kind_name k) ext_txt))) _ _ _ HFr).
      rewrite (map_fst_combine (fun x => announce (export_label x) (file_path cfg (file_name cfg (export_name x) ext_txn))) _ _ _ HFx).
      reflexivity.
  Qed.

  Lemma files_structure cfg j p files ann : run_files H cfg j p = Ok (files, ann) ->
    exists st reps exps,
      run_prepare H cfg j p = Ok st
      /\ Forall2 (fun k r => report_text H cfg st k = Some r) (rc_targets cfg) reps
      /\ Forall2 (fun x c => export_file H cfg st x = Some c) (rc_exports cfg) exps
      /\ files = map (fun kr => (file_name cfg (kind_name (fst kr)) ext_txt, MetaText.file_head (rs_md st) ++ snd kr))
                     (combine (rc_targets cfg) reps)
                 ++ map (fun xc => (file_name cfg (export_name (fst xc)) ext_txn, snd xc)) (combine (rc_exports cfg) exps)
      /\ ann = concat (map (fun k => announce (kind_label k) (file_path cfg (file_name cfg (kind_name k) ext_txt))) (rc_targets cfg))
               ++ concat (map (fun x => announce (export_label x) (file_path cfg (file_name cfg (export_name x) ext_txn)))
                              (rc_exports cfg))
      /\ (rc_targets cfg <> [] -> run_console H cfg j p = Ok (console_text (rs_md st) reps)).
  Proof.
    unfold run_files, files_of. destruct (run_prepare H cfg j p) as [st|c] eqn:Ep; cbn [res_bind]; [|discriminate].
    intros Hr. destruct (files_with_structure _ _ _ _ _ _ Hr) as (reps & exps & HFr & HFx & Hf & Ha).
    exists st, reps, exps. split; [reflexivity|]. split; [exact HFr|]. split; [exact HFx|]. split; [exact Hf|]. split; [exact Ha|].
    intros Hne. unfold run_console, console_of, console_with. rewrite Ep. cbn [res_bind].
    destruct (rc_targets cfg) as [|k ks] eqn:Et; [contradiction|].
    rewrite (Forall2_mapO _ _ _ HFr). reflexivity.
  Qed.

  (* ================================================================ layout of the journal text *)
  Lemma run_same_parse cfg j j' p : parse_journal (rc_journal cfg) j = parse_journal (rc_journal cfg) j' ->
    run_console H cfg j p = run_console H cfg j' p /\ run_files H cfg j p = run_files H cfg j' p.
  Proof.
    intros He. assert (Hp : run_prepare H cfg j p = run_prepare H cfg j' p).
    { unfold run_prepare, load, load_journal. rewrite He. reflexivity. }
    unfold run_console, run_files. rewrite Hp. split; reflexivity.
  Qed.

  Lemma layout_invariance cfg p :
    (forall a blanks b,
       forallb (forallb (fun c => negb (c =? 10)%N)) a = true -> forallb (forallb (fun c => negb (c =? 10)%N)) b = true ->
       forallb (fun l => is_blank (strip_cr l)) blanks = true ->
       (a = [] \/ b = [] \/ (exists q x, a = q ++ [x] /\ is_blank (strip_cr x) = true)
        \/ (exists x q, b = x :: q /\ is_blank (strip_cr x) = true)) ->
       run_console H cfg (unlines (a ++ blanks ++ b)) p = run_console H cfg (unlines (a ++ b)) p
       /\ run_files H cfg (unlines (a ++ blanks ++ b)) p = run_files H cfg (unlines (a ++ b)) p)
    /\ (forall ls ls',
       forallb (forallb (fun c => negb (c =? 10)%N)) ls = true -> forallb (forallb (fun c => negb (c =? 10)%N)) ls' = true ->
       Forall2 (fun l l' => exists sp1 sp2 r, l = sp1 ++ r /\ l' = sp2 ++ r
                  /\ forallb is_sp sp1 = true /\ forallb is_sp sp2 = true /\ (sp1 = [] <-> sp2 = [])) ls ls' ->
       run_console H cfg (unlines ls) p = run_console H cfg (unlines ls') p
       /\ run_files H cfg (unlines ls) p = run_files H cfg (unlines ls') p)
    /\ (forall pre ms ms' post,
       forallb (forallb (fun c => negb (c =? 10)%N)) (pre ++ ms ++ post) = true -> Permutation ms ms' ->
       Forall (fun l => parse_meta_line (strip_cr l) <> None) ms ->
       run_console H cfg (unlines (pre ++ ms ++ post)) p = run_console H cfg (unlines (pre ++ ms' ++ post)) p
       /\ run_files H cfg (unlines (pre ++ ms ++ post)) p = run_files H cfg (unlines (pre ++ ms' ++ post)) p).
  Proof.
    split; [|split].
    - intros a bs b Ha Hb Hbs Hbd. apply run_same_parse. apply parse_journal_insert_blanks; assumption.
    - intros ls ls' H1 H2 HF. apply run_same_parse. apply parse_journal_reindent; assumption.
    - intros pre ms ms' post H1 HP HF. apply run_same_parse. apply parse_journal_meta_order; assumption.
  Qed.
End Main.

(* ================================================================== file names *)
Lemma file_names cfg :
  file_name cfg (kind_name MetaText.RBalance) ext_txt = rc_prefix cfg ++ [46; 98; 97; 108; 46; 116; 120; 116]%N
  /\ file_name cfg (kind_name MetaText.RBalGroup) ext_txt = rc_prefix cfg ++ [46; 98; 97; 108; 103; 114; 112; 46; 116; 120; 116]%N
  /\ file_name cfg (kind_name MetaText.RRegister) ext_txt = rc_prefix cfg ++ [46; 114; 101; 103; 46; 116; 120; 116]%N
  /\ file_name cfg (export_name XEquity) ext_txn = rc_prefix cfg ++ [46; 101; 113; 117; 105; 116; 121; 46; 116; 120; 110]%N
  /\ file_name cfg (export_name XIdentity) ext_txn
     = rc_prefix cfg ++ [46; 105; 100; 101; 110; 116; 105; 116; 121; 46; 116; 120; 110]%N
  /\ (forall md k sel zone prices body,
        MetaText.file_head md ++ (MetaText.report_head k sel zone prices ++ body)
        = MetaText.report_file_head md k sel zone prices ++ body)
  /\ (forall H st, export_file H cfg st XIdentity = Some (print_journal (rs_sel st))).
Proof.
  repeat split; try reflexivity.
  intros md k sel zone prices body. unfold MetaText.report_file_head. rewrite <- app_assoc. reflexivity.
Qed.

(* ================================================================== selectors: the rule of Config.v *)
Lemma selectors_are_config (f : Config.file_cfg) global per :
  Config.f_accounts f = option_map sel_pats global ->
  Config.file_sel f (option_map sel_pats per) = sel_pats (eff_sel global per).
Proof.
  intros Hf. unfold Config.file_sel, eff_sel, Config.or_else. rewrite Hf.
  destruct per as [l|]; cbn [option_map]; [reflexivity|]. destruct global as [g|]; reflexivity.
Qed.

(* ================================================================== the filter description at offset 0 is Codec's *)
Lemma ts_show_tz_utc z : ts_show_rfc3339_tz 0 z = Codec.ts_show_rfc3339_utc z.
Proof. unfold ts_show_rfc3339_tz, Codec.ts_show_rfc3339_utc. rewrite Z.mul_0_l, Z.add_0_r. reflexivity. Qed.

Lemma describe_tz_utc f : forall indent, describe_tz 0 indent f = Codec.describe indent f.
Proof.
  induction f as [f L|fs IH|fs IH|g IH] using Codec_jv_proofs.c18_cfilter_ind; intros indent.
  - destruct f; try reflexivity; try (destruct L); cbn [describe_tz Codec.describe]; rewrite ts_show_tz_utc; reflexivity.
  - cbn [describe_tz Codec.describe]. f_equal. f_equal. induction IH as [|g fs Hg _ IHfs]; cbn [map]; [reflexivity|]. rewrite Hg, IHfs. reflexivity.
  - cbn [describe_tz Codec.describe]. f_equal. f_equal. induction IH as [|g fs Hg _ IHfs]; cbn [map]; [reflexivity|]. rewrite Hg, IHfs. reflexivity.
  - cbn [describe_tz Codec.describe]. rewrite IH. reflexivity.
Qed.

Lemma describe_def_tz_utc f : describe_def_tz 0 f = Codec.describe_def f.
Proof. unfold describe_def_tz, Codec.describe_def. rewrite describe_tz_utc. reflexivity. Qed.

(* ================================================================== the oracles *)
Lemma body_oracle_sound cfg file txns k body : body_oracle cfg file txns k body = true ->
  exists lk, spec_lk cfg = Some lk
    /\ match k with
       | MetaText.RBalance =>
           balance_text_spec (rc_title_bal cfg) (rc_scale cfg) lk (rc_commodity cfg) file (sel_of cfg k) txns body
       | MetaText.RRegister =>
           register_text_spec (rc_title_reg cfg) (rc_scale cfg) (ts_text cfg) lk (rc_commodity cfg) file (sel_of cfg k) txns body
       | MetaText.RBalGroup =>
           exists gs, conv_balgrp (rc_group_by cfg) (rtz cfg) lk (rc_commodity cfg) (load_db file) (sel_of cfg k) txns = Some gs
                      /\ grp_text_spec (rc_title_grp cfg) (rc_scale cfg) (map text_group gs) body
       end.
Proof.
  unfold body_oracle. destruct (spec_lk cfg) as [lk|]; [|discriminate]. intros Hb. exists lk. split; [reflexivity|].
  destruct k.
  - apply (proj2 (text_oracles_sound _ _ (ts_text cfg) _ _ _ _ _ _)). exact Hb.
  - destruct (conv_balgrp (rc_group_by cfg) (rtz cfg) lk (rc_commodity cfg) (load_db file) (sel_of cfg MetaText.RBalGroup) txns)
      as [gs|]; [|discriminate]. exists gs. split; [reflexivity|]. apply grp_text_ok_sound. exact Hb.
  - apply (proj1 (text_oracles_sound _ _ _ _ _ _ _ _ _)). exact Hb.
Qed.

Lemma console_oracle_sound cfg file txns out : console_oracle cfg file txns out = true -> rc_targets cfg <> [] ->
  exists pre frames, read_console out = Some (pre, frames)
    /\ Forall2 (fun k ls => exists bl, from_title (title_of cfg k) ls = Some bl
                                       /\ body_oracle cfg file txns k (unlines_nl bl) = true)
               (rc_targets cfg) frames.
Proof.
  unfold console_oracle. destruct (rc_targets cfg) as [|k ks] eqn:Et; [intros _ Hn; contradiction|].
  intros Hb _. destruct (read_console out) as [[pre frames]|]; [|discriminate].
  exists pre, frames. split; [reflexivity|].
  refine (proj1 (forall2b_iff (report_oracle cfg file txns) _ _ _ _) Hb).
  intros a b. unfold report_oracle. destruct (from_title (title_of cfg a) b) as [bl|]; split.
  - intros Hx. exists bl. split; [reflexivity|exact Hx].
  - intros (bl' & Hx & Hy). inversion Hx; subst. exact Hy.
  - discriminate.
  - intros (bl' & Hx & _). discriminate.
Qed.

(* ================================================================== non-vacuity *)
(* two transactions (the second is stamped 23:30 UTC: the next day in the report zone Etc/GMT-3), one price
   line, last-price conversion into EUR, scale (2,2), targets balance and register (register restricted
   to a:b), identity export: 10.005 ACME is shown as 10.01 (half away from zero) and valued 25.0125 EUR *)
Definition ex_cfg : run_cfg :=
  mkRunCfg (mkCfg 0 0) false [83; 72; 65; 45; 50; 53; 54]%N [69; 116; 99; 47; 71; 77; 84; 45; 51]%N 10800 (mkScale 2 2) [MetaText.RBalance; MetaText.RRegister] [XIdentity]
           None None None (Some [[[97]%N; [98]%N]]) None GbMonth (Some [69; 85; 82]%N) LtLastPrice None [66; 65; 76]%N [66; 65; 76; 71; 82; 80]%N [82; 69; 71]%N TsSeconds [[69; 113; 117; 105; 116; 121]%N; [66; 97; 108; 97; 110; 99; 101]%N] None [111; 117; 116]%N [114]%N.
Definition ex_journal : list N := [50; 48; 50; 52; 45; 48; 49; 45; 48; 53; 32; 40; 99; 49; 41; 32; 39; 111; 110; 101; 10; 32; 35; 32; 117; 117; 105; 100; 58; 32; 49; 49; 49; 49; 49; 49; 49; 49; 45; 49; 49; 49; 49; 45; 52; 49; 49; 49; 45; 56; 49; 49; 49; 45; 49; 49; 49; 49; 49; 49; 49; 49; 49; 49; 49; 49; 10; 32; 97; 58; 98; 32; 32; 49; 48; 46; 48; 48; 53; 32; 65; 67; 77; 69; 10; 32; 101; 32; 32; 45; 49; 48; 46; 48; 48; 53; 32; 65; 67; 77; 69; 10; 10; 50; 48; 50; 52; 45; 48; 50; 45; 49; 48; 84; 50; 51; 58; 51; 48; 58; 48; 48; 90; 32; 39; 116; 119; 111; 10; 32; 97; 58; 98; 32; 32; 50; 46; 53; 32; 69; 85; 82; 10; 32; 120; 10]%N.
Definition ex_prices : list N := [80; 32; 50; 48; 50; 52; 45; 48; 49; 45; 48; 49; 32; 65; 67; 77; 69; 32; 50; 46; 53; 32; 69; 85; 82; 10]%N.

Definition ex_H (x : list N) : list N := [].
Definition ex_out : list N :=
  match run_console ex_H ex_cfg ex_journal (Some ex_prices) with Ok o => o | Err _ => [] end.
Definition ex_st : run_state :=
  match run_prepare ex_H ex_cfg ex_journal (Some ex_prices) with
  | Ok st => st
  | Err _ => mkRunState [] None [] LkNone []
  end.
Definition ex_bal_words : list (list (list N)) := [[[66; 65; 76]%N]; [[45; 45; 45]%N]; [[48; 46; 48; 48]%N; [50; 55; 46; 53; 49]%N; [69; 85; 82]%N; [97]%N]; [[50; 55; 46; 53; 49]%N; [50; 55; 46; 53; 49]%N; [69; 85; 82]%N; [97; 58; 98]%N]; [[45; 50; 53; 46; 48; 49]%N; [45; 50; 53; 46; 48; 49]%N; [69; 85; 82]%N; [101]%N]; [[45; 50; 46; 53; 48]%N; [45; 50; 46; 53; 48]%N; [69; 85; 82]%N; [120]%N]; [[61; 61; 61; 61; 61; 61; 61; 61; 61; 61; 61; 61; 61; 61; 61; 61; 61; 61; 61; 61; 61; 61; 61; 61; 61]%N]; [[48; 46; 48; 48]%N; [69; 85; 82]%N]].
Definition ex_reg_words : list (list (list N)) := [[[82; 69; 71]%N]; [[45; 45; 45]%N]; [[50; 48; 50; 52; 45; 48; 49; 45; 48; 53]%N; [48; 51; 58; 48; 48; 58; 48; 48]%N; [40; 99; 49; 41]%N; [39; 111; 110; 101]%N]; [[35]%N; [117; 117; 105; 100; 58]%N; [49; 49; 49; 49; 49; 49; 49; 49; 45; 49; 49; 49; 49; 45; 52; 49; 49; 49; 45; 56; 49; 49; 49; 45; 49; 49; 49; 49; 49; 49; 49; 49; 49; 49; 49; 49]%N]; [[97; 58; 98]%N; [49; 48; 46; 48; 49]%N; [65; 67; 77; 69]%N; [50; 53; 46; 48; 49]%N; [69; 85; 82]%N]; [[45; 45; 45; 45; 45; 45; 45; 45; 45; 45; 45; 45; 45; 45; 45; 45; 45; 45; 45; 45; 45; 45; 45; 45; 45; 45; 45; 45; 45; 45; 45; 45; 45; 45; 45; 45; 45; 45; 45; 45; 45; 45; 45; 45; 45; 45; 45; 45; 45; 45; 45; 45; 45; 45; 45; 45; 45; 45; 45; 45; 45; 45; 45; 45; 45; 45; 45; 45; 45; 45; 45; 45; 45; 45; 45; 45; 45; 45; 45; 45; 45; 45; 45; 45; 45; 45; 45; 45; 45; 45; 45; 45; 45; 45]%N]; [[50; 48; 50; 52; 45; 48; 50; 45; 49; 49]%N; [48; 50; 58; 51; 48; 58; 48; 48]%N; [39; 116; 119; 111]%N]; [[97; 58; 98]%N; [50; 46; 53; 48]%N; [50; 55; 46; 53; 49]%N; [69; 85; 82]%N]; [[45; 45; 45; 45; 45; 45; 45; 45; 45; 45; 45; 45; 45; 45; 45; 45; 45; 45; 45; 45; 45; 45; 45; 45; 45; 45; 45; 45; 45; 45; 45; 45; 45; 45; 45; 45; 45; 45; 45; 45; 45; 45; 45; 45; 45; 45; 45; 45; 45; 45; 45; 45; 45; 45; 45; 45; 45; 45; 45; 45; 45; 45; 45; 45; 45; 45; 45; 45; 45; 45; 45; 45; 45; 45; 45; 45; 45; 45; 45; 45; 45; 45; 45; 45; 45; 45; 45; 45; 45; 45; 45; 45; 45; 45]%N]].
Definition ex_announcements : list N := [32; 32; 32; 32; 32; 32; 32; 66; 97; 108; 97; 110; 99; 101; 32; 82; 101; 112; 111; 114; 116; 32; 58; 32; 111; 117; 116; 47; 114; 46; 98; 97; 108; 46; 116; 120; 116; 10; 32; 32; 32; 32; 32; 32; 82; 101; 103; 105; 115; 116; 101; 114; 32; 82; 101; 112; 111; 114; 116; 32; 58; 32; 111; 117; 116; 47; 114; 46; 114; 101; 103; 46; 116; 120; 116; 10; 32; 32; 32; 32; 32; 32; 73; 100; 101; 110; 116; 105; 116; 121; 32; 69; 120; 112; 111; 114; 116; 32; 58; 32; 111; 117; 116; 47; 114; 46; 105; 100; 101; 110; 116; 105; 116; 121; 46; 116; 120; 110; 10]%N.
Definition ex_identity : list N := [50; 48; 50; 52; 45; 48; 49; 45; 48; 53; 84; 48; 48; 58; 48; 48; 58; 48; 48; 43; 48; 48; 58; 48; 48; 32; 40; 99; 49; 41; 32; 39; 111; 110; 101; 10; 32; 32; 32; 35; 32; 117; 117; 105; 100; 58; 32; 49; 49; 49; 49; 49; 49; 49; 49; 45; 49; 49; 49; 49; 45; 52; 49; 49; 49; 45; 56; 49; 49; 49; 45; 49; 49; 49; 49; 49; 49; 49; 49; 49; 49; 49; 49; 10; 32; 32; 32; 97; 58; 98; 32; 32; 32; 49; 48; 46; 48; 48; 53; 32; 65; 67; 77; 69; 10; 32; 32; 32; 101; 32; 32; 45; 49; 48; 46; 48; 48; 53; 32; 65; 67; 77; 69; 10; 10; 50; 48; 50; 52; 45; 48; 50; 45; 49; 48; 84; 50; 51; 58; 51; 48; 58; 48; 48; 43; 48; 48; 58; 48; 48; 32; 39; 116; 119; 111; 10; 32; 32; 32; 97; 58; 98; 32; 32; 32; 50; 46; 53; 32; 69; 85; 82; 10; 32; 32; 32; 120; 32; 32; 45; 50; 46; 53; 32; 69; 85; 82; 10; 10]%N.

Lemma t06_example :
  run_console ex_H ex_cfg ex_journal (Some ex_prices) = Ok ex_out
  /\ run_prepare ex_H ex_cfg ex_journal (Some ex_prices) = Ok ex_st
  /\ length ex_out = 1365%nat
  /\ run_hyp ex_cfg ex_st = true /\ run_dom ex_cfg = true
  /\ console_oracle ex_cfg (rs_file ex_st) (rs_txns ex_st) ex_out = true
  /\ option_map (fun pf => (fst pf, map (fun f => option_map (map words) (from_title (rc_title_bal ex_cfg) f)) (snd pf)))
                (read_console ex_out)
     = Some ([], [Some ex_bal_words; None])
  /\ option_map (fun pf => map (fun f => option_map (map words) (from_title (rc_title_reg ex_cfg) f)) (snd pf))
                (read_console ex_out)
     = Some [None; Some ex_reg_words]
  /\ (exists cb cr, run_files ex_H ex_cfg ex_journal (Some ex_prices)
                    = Ok ([([114; 46; 98; 97; 108; 46; 116; 120; 116]%N, cb); ([114; 46; 114; 101; 103; 46; 116; 120; 116]%N, cr); ([114; 46; 105; 100; 101; 110; 116; 105; 116; 121; 46; 116; 120; 110]%N, ex_identity)], ex_announcements)).
Proof.
  split; [vm_compute; reflexivity|]. split; [vm_compute; reflexivity|]. split; [vm_compute; reflexivity|].
  split; [vm_compute; reflexivity|]. split; [vm_compute; reflexivity|]. split; [vm_compute; reflexivity|].
  split; [vm_compute; reflexivity|]. split; [vm_compute; reflexivity|].
  eexists. eexists. vm_compute. reflexivity.
Qed.
