(* T08_T07_proofs.v — the T07-dependent part of the capstone extension T08: the corollaries that need directory
   input, strict mode, regular-expression selectors or Git storage (T07_run.run7_console / run7_files).  Only one
   composition is new here (selector_rows7: T07_selector_rows placed inside the console text); the others are T07's
   lemmas, re-exported by coq/props/T08_T07.v under the names of the numbered properties they lift. *)
From Coq Require Import List ZArith NArith Bool Arith Lia Permutation Sorted.
From TkModel Require Import Base Dec Acct Txn Accept Journal Balance Register Round Price Time Group.
From TkModel Require Import ReportText T05_report PriceText Regex T06_run T07_run.
From TkModel Require MetaText Store Load Charts Select.
From TkSpec Require Import Balance_spec Register_spec Regex_spec Charts_spec T07_spec T08_spec.
From TkProofs Require T06_proofs T07_proofs.
Import ListNotations.
Local Open Scope Z_scope.

(* T06's console_with, for any report-text function: where the report of a target sits *)
Lemma console_with_embeds cfg md rt out k : console_with cfg md rt = Ok out -> In k (rc_targets cfg) ->
  exists r, rt k = Some r /\ framed r out.
Proof.
  unfold console_with. intros Hc Hin. destruct (rc_targets cfg) as [|k0 ks] eqn:Et; [destruct Hin|].
  destruct (mapO rt (k0 :: ks)) as [rs|] eqn:Em; [|discriminate]. injection Hc as <-.
  destruct (T06_proofs.Forall2_In_split _ _ _ _ (T06_proofs.mapO_Forall2 _ _ _ Em) Hin) as (rs1 & r & rs2 & -> & Hk).
  exists r. split; [exact Hk|].
  exists (MetaText.file_head md ++ concat (map frame_report rs1)), (concat (map frame_report rs2)).
  unfold console_text. rewrite map_app, concat_app. cbn [map concat]. unfold frame_report at 2, star_line, hash_line, sep_len.
  rewrite <- !app_assoc. reflexivity.
Qed.

Section Sel7.
  Variable H : list N -> list N.

  (* T08_selector_rows_regex: C11 on the printed reports of a run with regular-expression selectors *)
  Lemma selector_rows7 c files p out : run7_console H c files p = Ok out ->
    let b := r7_base c in
    exists st,
      let ps := conv_bposts (report_ctx (rs_lk st) (rc_commodity b) (rs_db st) (rs_txns st)) (sort_txns (rs_txns st)) in
      run7_prepare H c files p = Ok st
      /\ (In MetaText.RBalance (rc_targets b) ->
          exists rep,
            bal_report7 (Select.report_selector (pats_of c MetaText.RBalance)) st (rc_commodity b) = Some rep
            /\ framed (report_head7 H c st MetaText.RBalance
                       ++ bal_txt_report (rc_title_bal b) (rc_scale b) (b_rows rep) (b_deltas rep)) out
            /\ (Forall bpost_wf ps ->
                exists rows, balance (fun _ => true) ord_sorted ps = Some rows
                  /\ b_rows rep = filter (must_listb false (pats_of c MetaText.RBalance)) rows
                  /\ (forall r, In r (b_rows rep) <-> In r rows /\ name_selected (pats_of c MetaText.RBalance) (r_acc r))
                  /\ (forall r, In r (b_rows rep) -> d28 (r_own r) = spec_own ps (r_key r) /\ d28 (r_tree r) = spec_tree ps (r_key r))))
      /\ (In MetaText.RRegister (rc_targets b) ->
          framed (report_head7 H c st MetaText.RRegister
                  ++ reg_txt_report (rc_title_reg b) (rc_scale b) (filler_width (rs_lk st)) (ts_text b)
                       (map (restrict (reg_selector (pats_of c MetaText.RRegister))) (reg_report7 sel_all st (rc_commodity b)))) out
          /\ (forall e r, In r (re_rows (restrict (reg_selector (pats_of c MetaText.RRegister)) e))
                          <-> In r (re_rows e) /\ name_selected (pats_of c MetaText.RRegister) (p_acc (rr_post r)))).
  Proof.
    intros Hr. cbv zeta. unfold run7_console in Hr.
    destruct (run7_prepare H c files p) as [st|e] eqn:Ep; cbn [res_bind] in Hr; [|discriminate].
    exists st. split; [reflexivity|].
    destruct (T07_proofs.selector_rows c st) as (Sb & Sr & Si & Eb & Er). cbv zeta in *.
    split.
    - intros Hin. destruct (console_with_embeds _ _ _ _ _ Hr Hin) as (r & Hk & Hf).
      unfold report_text7 in Hk. destruct (conv_overflow (r7_base c) st); [discriminate|]. rewrite Eb in Hk.
      destruct (bal_report7 (Select.report_selector (pats_of c MetaText.RBalance)) st (rc_commodity (r7_base c))) as [rep|] eqn:Erep;
        cbn [option_map] in Hk; [|discriminate]. injection Hk as <-.
      exists rep. split; [reflexivity|]. split; [exact Hf|]. intros Hwf. exact (Sb rep Hwf eq_refl).
    - intros Hin. destruct (console_with_embeds _ _ _ _ _ Hr Hin) as (r & Hk & Hf).
      unfold report_text7 in Hk. destruct (conv_overflow (r7_base c) st); [discriminate|]. rewrite Er in Hk. cbn [option_map] in Hk. injection Hk as <-.
      rewrite Sr in Hf. split; [exact Hf|exact Si].
  Qed.
End Sel7.
