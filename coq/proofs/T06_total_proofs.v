(* T06_total_proofs.v — the reports of a run are TOTAL: once the settings, the journal and the selection are accepted
   (run_prepare = Ok) and no converted amount is out of range, every report text exists, whatever the report zone, scale,
   selectors or titles are.  The only ingredient beyond unfolding is that every posted account of a parsed journal is
   a non-empty name (the grammar's take_name), which is what Balance.bubble needs to terminate with a result. *)
From Coq Require Import List ZArith NArith Bool Arith Lia Permutation Sorted.
From TkModel Require Import Base Dec Acct Txn Accept Journal Balance Register Round Price Time Group.
From TkModel Require Import ReportText T05_report PriceText Regex T06_run.
From TkModel Require Filter MetaText Charts.
From TkSpec Require Import Journal_spec.
From TkProofs Require Import Base_proofs T06_proofs.
From TkProofs Require Journal_proofs Journal_line_proofs Journal_hdrinv_proofs Journal_image_proofs Charts_proofs Balance_proofs Group_proofs.
Import ListNotations.
Local Open Scope Z_scope.

(* ------------------------------------------------------------------ accounts of a parsed journal *)
Definition accts_ok (pt : ptxn) : Prop :=
  forallb Journal_hdrinv_proofs.rawpc_wf (pt_posts pt) = true /\ Journal_hdrinv_proofs.last_wf (pt_last pt) = true.

Lemma parse_chunk_accts cfg ls pt : forallb no_eol ls = true -> parse_chunk cfg ls = Some pt -> accts_ok pt.
Proof.
  intros Hls. unfold parse_chunk. destruct ls as [|hl body]; [discriminate|].
  cbn [forallb] in Hls. apply andb_true_iff in Hls as [Hhl Hbody].
  destruct (parse_ts cfg hl) as [[[inst off] r]|]; [|discriminate].
  destruct (parse_header_rest r) as [[code desc]|]; [|discriminate].
  destruct (parse_meta body None None None) as [[[[u g] t] body1]|] eqn:E3; [|discriminate].
  destruct (Journal_hdrinv_proofs.parse_meta_spec body None None None u g t body1 eq_refl eq_refl eq_refl E3) as (_ & _ & _ & pre & Eb).
  assert (Hb1 : forallb no_eol body1 = true).
  { rewrite Eb, forallb_app in Hbody. apply andb_true_iff in Hbody as [_ Hx]. exact Hx. }
  destruct (parse_comments body1) as [[cs body2]|] eqn:E4; [|discriminate].
  destruct (Journal_hdrinv_proofs.parse_comments_spec _ _ _ Hb1 E4) as [_ Hb2].
  destruct (parse_postings body2) as [[ps la]|] eqn:E5; [|discriminate].
  destruct (Journal_hdrinv_proofs.parse_postings_spec _ _ _ Hb2 E5) as [Hps Hla].
  destruct (is_nil ps); [discriminate|]. intro Hx. injection Hx as <-. split; assumption.
Qed.

Lemma parse_journal_accts cfg s pts : parse_journal cfg s = Ok pts -> Forall accts_ok pts.
Proof.
  unfold parse_journal. destruct (split_lines s) as [ls0 tl] eqn:Es.
  destruct (is_nil tl); [|discriminate]. cbn [negb].
  destruct (existsb (existsb (fun c => (c =? 13)%N)) (map strip_cr ls0)) eqn:Ecr; [discriminate|].
  destruct (Journal_image_proofs.split_lines_no_nl _ _ _ Es) as [Hnl _].
  assert (Hnl' : forallb Journal_proofs.no_nl (map strip_cr ls0) = true).
  { rewrite forallb_forall in *. intros x Hx. apply in_map_iff in Hx as (y & <- & Hy). apply Journal_image_proofs.strip_cr_no_nl, Hnl, Hy. }
  pose proof (Journal_image_proofs.lines_no_eol _ Hnl' Ecr) as Hls.
  destruct (chunks (map strip_cr ls0)) as [|c0 cs] eqn:Ech; [discriminate|].
  destruct (mapO (parse_chunk cfg) (c0 :: cs)) as [l|] eqn:Em; [|discriminate].
  intro Hx. injection Hx as <-. pose proof (Journal_image_proofs.mapO_Forall2 _ _ _ Em) as HF.
  assert (Hin : forall c, In c (c0 :: cs) -> forallb no_eol c = true).
  { intros c Hc. rewrite <- Ech in Hc. unfold chunks in Hc. apply filter_In in Hc as [Hc _].
    rewrite forallb_forall. intros x Hx. rewrite forallb_forall in Hls. apply Hls. exact (Journal_image_proofs.chunk_lines_in _ _ _ Hc Hx). }
  clear - HF Hin. induction HF as [|c pt cs' pts' Hc HF IH]; [constructor|].
  constructor; [exact (parse_chunk_accts cfg c pt (Hin c (or_introl eq_refl)) Hc)|].
  apply IH. intros c' Hc'. apply Hin. right. exact Hc'.
Qed.

Lemma name_ok_nonempty a : name_ok a = true -> a <> [].
Proof. intros Hn. destruct (Journal_line_proofs.name_ok_inv a Hn) as (c0 & r0 & comps0 & -> & _). discriminate. Qed.

Definition accts_nonempty (j : jtxn) : Prop := Forall (fun jp => p_acc (jp_p jp) <> []) (jt_posts j).

Lemma accept_ptxn_accts pt t : accts_ok pt -> accept_ptxn pt = Ok t -> accts_nonempty t.
Proof.
  intros [Hps Hla]. unfold accept_ptxn.
  destruct (accept_txn (ptxn_raw pt)) as [ps|e] eqn:Ea; cbn [res_bind]; [|discriminate].
  intros Hx. inversion Hx; subst t. unfold accts_nonempty. cbn [jt_posts].
  apply Forall_forall. intros jp Hjp. apply in_map_iff in Hjp. destruct Hjp as ([p c] & <- & Hpc). cbn [jp_p fst].
  apply in_combine_l in Hpc.
  destruct (Charts_proofs.accept_txn_names (Charts.mkCrawTxn [] (ptxn_raw pt)) ps p Ea Hpc) as [Hin _].
  unfold Charts_spec.txn_accounts in Hin. cbn [Charts.ct_raw ptxn_raw rt_posts rt_last] in Hin.
  apply in_app_or in Hin. destruct Hin as [Hin|Hin].
  - rewrite map_map in Hin. apply in_map_iff in Hin. destruct Hin as (x & <- & Hx').
    rewrite forallb_forall in Hps. specialize (Hps x Hx'). unfold Journal_hdrinv_proofs.rawpc_wf, Journal_hdrinv_proofs.rawpost_wf in Hps.
    repeat (apply andb_true_iff in Hps; destruct Hps as [Hps _]). apply name_ok_nonempty. exact Hps.
  - destruct (pt_last pt) as [[a0 c0]|]; cbn [option_map fst] in Hin; [|destruct Hin].
    destruct Hin as [<-|[]]. unfold Journal_hdrinv_proofs.last_wf in Hla.
    repeat (apply andb_true_iff in Hla; destruct Hla as [Hla _]). apply name_ok_nonempty. exact Hla.
Qed.

Lemma load_journal_accts cfg s js : load_journal cfg s = Ok js -> Forall accts_nonempty js.
Proof.
  unfold load_journal. destruct (parse_journal cfg s) as [pts|e] eqn:Ep; cbn [res_bind]; [|discriminate].
  pose proof (parse_journal_accts _ _ _ Ep) as Hp.
  destruct (mapM accept_ptxn pts) as [ts|e] eqn:Em; cbn [res_bind]; [|discriminate].
  intros Hx. inversion Hx; subst js.
  assert (Hts : Forall accts_nonempty ts).
  { clear Hx Ep. revert ts Em. induction Hp as [|pt pts' Hpt _ IH]; intros ts Em; cbn [mapM] in Em.
    - inversion Em. constructor.
    - destruct (accept_ptxn pt) as [t|e] eqn:Ea; [|discriminate]. destruct (mapM accept_ptxn pts') as [ts'|e] eqn:Em'; [|discriminate].
      inversion Em; subst. constructor; [exact (accept_ptxn_accts pt t Hpt Ea)|apply IH; reflexivity]. }
  apply (Permutation_Forall (Permutation_sym (sort_by_perm jtxn_leb ts))). exact Hts.
Qed.

(* ------------------------------------------------------------------ the balance of postings to named accounts exists *)
Lemma parent_length (a : list (list N)) : length (parent a) = (length a - 1)%nat.
Proof.
  unfold parent. induction a as [|x a IH]; [reflexivity|]. destruct a as [|y a]; [reflexivity|].
  change (removelast (x :: y :: a)) with (x :: removelast (y :: a)). cbn [length] in *. rewrite IH. lia.
Qed.

Lemma bubble_total_ne sums : forall fuel (me : ksum),
  (1 <= length (fst (fst me)) <= fuel)%nat -> exists res, bubble (fun _ => true) sums fuel me = Some res.
Proof.
  induction fuel as [|f IH]; intros me L; [lia|]. cbn [bubble].
  destruct (Nat.eqb (length (fst (fst me))) 1) eqn:E1; [eexists; reflexivity|].
  apply Nat.eqb_neq in E1.
  destruct (find (fun e => is_parent_of (fst e) (fst me)) sums) as [pe|] eqn:Ef.
  - apply find_some in Ef. destruct Ef as [_ Hp]. unfold is_parent_of in Hp. apply andb_true_iff in Hp. destruct Hp as [Hp _].
    apply Charts_proofs.c12_acct_eqb_eq in Hp.
    destruct (IH pe) as [r Hr]; [rewrite Hp, parent_length; lia|]. rewrite Hr. eexists; reflexivity.
  - destruct (IH ((parent (fst (fst me)), snd (fst me)), dzero)) as [r Hr]; [cbn [fst]; rewrite parent_length; lia|].
    rewrite Hr. eexists; reflexivity.
Qed.

Lemma bubble_all_total_ne sums : forall todo, (forall e : ksum, In e todo -> fst (fst e) <> []) ->
  exists flat, bubble_all (fun _ => true) sums todo = Some flat.
Proof.
  induction todo as [|e todo IH]; intros Ht; cbn [bubble_all]; [eexists; reflexivity|].
  destruct (bubble_total_ne sums (S (length (fst (fst e)))) e) as [l Hl].
  { pose proof (Ht e (or_introl eq_refl)) as Hne. destruct (fst (fst e)); [contradiction|]. cbn [length]. lia. }
  rewrite Hl. destruct IH as [r Hr]; [intros x Hx; apply Ht; right; exact Hx|]. rewrite Hr. eexists; reflexivity.
Qed.

Lemma balance_total_ne ord ps : Forall (fun p => bp_acc p <> []) ps -> exists rows, balance (fun _ => true) ord ps = Some rows.
Proof.
  intros Hne. unfold balance.
  destruct (bubble_all_total_ne (account_sums ps) (account_sums ps)) as [flat Hf].
  - intros e He. pose proof (Charts_proofs.account_sums_keys ps e He) as Hin.
    apply in_map_iff in Hin. destruct Hin as (p & E & Hp). rewrite <- E. rewrite Forall_forall in Hne. apply Hne. exact Hp.
  - rewrite Hf. eexists; reflexivity.
Qed.

Lemma balance_report_total_ne ord sel ps : Forall (fun p => bp_acc p <> []) ps ->
  exists rep, balance_report (fun _ => true) ord sel ps = Some rep.
Proof. intros Hne. unfold balance_report. destruct (balance_total_ne ord ps Hne) as [rows ->]. eexists; reflexivity. Qed.

(* price conversion keeps the account *)
Lemma convert_post_acc cache tgt t p : cv_acc (convert_post cache tgt t p) = p_acc p.
Proof.
  unfold convert_post, unconverted. destruct (p_comm p); [reflexivity|]. destruct (str_eqb _ tgt); [reflexivity|].
  destruct cache as [m|m].
  - destruct (assoc_get _ m) as [[z r]|]; reflexivity.
  - destruct (assoc_get _ m) as [cc|]; [|reflexivity]. destruct (search_le _ cc None); reflexivity.
Qed.

Lemma bal_conv_accts ctx t : Forall (fun p => p_acc p <> []) (t_posts t) -> Forall (fun b => bp_acc b <> []) (bal_conv ctx t).
Proof.
  intros Hne. unfold bal_conv, convert_prices. apply Forall_forall. intros b Hb. apply in_map_iff in Hb. destruct Hb as (c & <- & Hc).
  cbn [conv_bpost bp_acc]. rewrite Forall_forall in Hne.
  destruct (c_target ctx) as [tgt|]; apply in_map_iff in Hc; destruct Hc as (p & <- & Hp).
  - rewrite convert_post_acc. apply Hne. exact Hp.
  - cbn [unconverted cv_acc]. apply Hne. exact Hp.
Qed.

Definition txn_accts_ne (t : txn) : Prop := Forall (fun p => p_acc p <> []) (t_posts t).

Lemma flat_conv_accts ctx ts : Forall txn_accts_ne ts -> Forall (fun b => bp_acc b <> []) (flat_map (bal_conv ctx) ts).
Proof.
  intros Hts. apply Forall_forall. intros b Hb. apply in_flat_map in Hb. destruct Hb as (t & Ht & Hb).
  rewrite Forall_forall in Hts. pose proof (bal_conv_accts ctx t (Hts t Ht)) as Hf. rewrite Forall_forall in Hf. apply Hf. exact Hb.
Qed.

Lemma opt_all_total {A} (l : list (option A)) : Forall (fun o => exists x, o = Some x) l -> exists xs, opt_all l = Some xs.
Proof.
  induction 1 as [|o l [x ->] _ [xs IH]]; cbn [opt_all]; [eexists; reflexivity|]. rewrite IH. eexists; reflexivity.
Qed.

Lemma balance_groups_total ord sel conv kf txns :
  (forall t, In t txns -> Forall (fun b => bp_acc b <> []) (conv t)) ->
  exists gs, balance_groups (fun _ => true) ord sel conv kf txns = Some gs.
Proof.
  intros Hc. unfold balance_groups.
  destruct (opt_all_total (map (group_of (fun _ => true) ord sel conv) (group_members kf txns))) as [gs Hg].
  - apply Forall_forall. intros o Ho. apply in_map_iff in Ho. destruct Ho as ([k m] & <- & Hkm).
    unfold group_of. cbn [fst snd].
    destruct (balance_report_total_ne ord sel (flat_map conv m)) as [rep Hr]; [|rewrite Hr; eexists; reflexivity].
    apply Forall_forall. intros b Hb. apply in_flat_map in Hb. destruct Hb as (t & Ht & Hb).
    assert (Hin : In t txns).
    { destruct (Group_proofs.partition kf txns) as (_ & _ & P3 & _). destruct (P3 k m Hkm) as [-> _].
      unfold Group_spec.period_members in Ht. apply filter_In in Ht. apply Ht. }
    pose proof (Hc t Hin) as Hf. rewrite Forall_forall in Hf. apply Hf. exact Hb.
  - rewrite Hg. eexists; reflexivity.
Qed.

(* ------------------------------------------------------------------ the reports of a run *)
Section Total.
  Variable H : list N -> list N.

  Lemma state_accts cfg j p st : run_prepare H cfg j p = Ok st -> Forall txn_accts_ne (rs_txns st).
  Proof.
    intros Hp. destruct (prepare_inv H _ _ _ _ Hp) as (js & _ & Hl & Hs & _).
    destruct (load_inv _ _ _ Hl) as [Hl' _]. pose proof (load_journal_accts _ _ _ Hl') as Hj.
    unfold rs_txns. rewrite Hs. apply Forall_forall. intros t Ht. apply in_map_iff in Ht. destruct Ht as (jt & <- & Hjt).
    assert (Hin : In jt js).
    { unfold run_filter in Hjt. destruct (rc_filter cfg) as [[f pats]|]; [apply filter_In in Hjt; apply Hjt|exact Hjt]. }
    rewrite Forall_forall in Hj. specialize (Hj jt Hin). unfold accts_nonempty in Hj. unfold txn_accts_ne, txn_of. cbn [t_posts].
    apply Forall_forall. intros q Hq. apply in_map_iff in Hq. destruct Hq as (jp & <- & Hjp). rewrite Forall_forall in Hj. apply Hj. exact Hjp.
  Qed.

  (* every report body exists, for ANY configuration of the reports (zone, scale, selectors, titles, group-by ...) *)
  Lemma report_body_total cfg j p st (cfg' : run_cfg) k : run_prepare H cfg j p = Ok st ->
    exists body, report_body cfg' st k = Some body.
  Proof.
    intros Hp. pose proof (state_accts _ _ _ _ Hp) as Ha. unfold report_body. destruct k.
    - unfold conv_balance_text, conv_balance, balance_report_det.
      destruct (balance_report_total_ne ord_sorted (bal_sel_names (sel_of cfg' MetaText.RBalance))
                  (conv_bposts (report_ctx (rs_lk st) (rc_commodity cfg') (rs_db st) (rs_txns st)) (sort_txns (rs_txns st)))) as [rep Hr].
      + apply flat_conv_accts. apply (Permutation_Forall (Permutation_sym (sort_by_perm txn_leb (rs_txns st)))). exact Ha.
      + rewrite Hr. eexists; reflexivity.
    - unfold conv_balgrp_text, conv_balgrp, balance_group_report.
      destruct (balance_groups_total ord_sorted (bal_sel_names (sel_of cfg' MetaText.RBalGroup))
                  (bal_conv (report_ctx (rs_lk st) (rc_commodity cfg') (rs_db st) (rs_txns st)))
                  (txn_key (rc_group_by cfg') (rtz cfg')) (sort_txns (rs_txns st))) as [gs Hg].
      + intros t Ht. apply bal_conv_accts. rewrite Forall_forall in Ha. apply Ha.
        apply (Permutation_in _ (sort_by_perm txn_leb (rs_txns st))). exact Ht.
      + rewrite Hg. eexists; reflexivity.
    - eexists; reflexivity.
  Qed.

  (* T06_run_total: a run that got past its preparation fails only on a converted amount out of range *)
  Lemma console_total_run cfg j p st : run_prepare H cfg j p = Ok st -> conv_overflow cfg st = false ->
    exists out, run_console H cfg j p = Ok out.
  Proof.
    intros Hp Ho. unfold run_console, console_of, console_with. rewrite Hp. cbn [res_bind].
    assert (Hall : forall k, exists r, report_text H cfg st k = Some r).
    { intros k. unfold report_text. rewrite Ho. destruct (report_body_total cfg j p st cfg k Hp) as [b ->]. eexists; reflexivity. }
    assert (Hm : exists rs, mapO (report_text H cfg st) (rc_targets cfg) = Some rs).
    { generalize (rc_targets cfg). induction l as [|k l [rs IH]]; cbn [mapO]; [eexists; reflexivity|].
      destruct (Hall k) as [r ->]. rewrite IH. eexists; reflexivity. }
    destruct Hm as [rs Hm]. destruct (rc_targets cfg); [eexists; reflexivity|]. rewrite Hm. eexists; reflexivity.
  Qed.

  (* a successful run met no out-of-range amount (when it has a report target at all) *)
  Lemma console_ok_no_overflow cfg j p out st : run_console H cfg j p = Ok out -> run_prepare H cfg j p = Ok st ->
    rc_targets cfg <> [] -> conv_overflow cfg st = false.
  Proof.
    intros Hr Hp Ht. destruct (rc_targets cfg) as [|k ks] eqn:Et; [contradiction|].
    destruct (console_embeds H _ _ _ _ k Hr) as (st' & r & pre & post & Hp' & Hk & _); [rewrite Et; left; reflexivity|].
    rewrite Hp in Hp'. inversion Hp'; subst st'. unfold report_text in Hk. destruct (conv_overflow cfg st); [discriminate|reflexivity].
  Qed.
End Total.
