(* Journal_layout_proofs.v — C15 (text is never partially consumed) and C04 (insignificant layout)
   for the character-level journal parser of model/Journal.v.

   PART 1  lines and chunks: split_lines / unlines, chunk_lines is "cut at every blank line",
           chunks are exactly the maximal runs of non-blank lines
   PART 2  C15: inversion of an accepted text, every line of a chunk is accounted for in the parsed
           transaction, one bad chunk rejects the text, load keeps every parsed transaction
   PART 3  C04: blank lines at chunk boundaries, indentation, order of the metadata lines *)
From Coq Require Import Permutation.
From TkModel Require Import Base Dec Acct Txn Accept Journal.
From TkProofs Require Import Base_proofs Load_proofs Journal_base_proofs.
Local Open Scope Z_scope.

(* ================================================================== PART 1: lines and chunks *)
Definition no_nlb (l : list N) : bool := forallb (fun c => negb (c =? 10)%N) l.
Definition has_cr (l : list N) : bool := existsb (fun c => (c =? 13)%N) l.
Definition nonblank (l : list N) : bool := negb (is_blank l).
Definition nonnil {A} (c : list A) : bool := negb (is_nil c).

Lemma split_lines_line l rest ls tl : no_nlb l = true -> split_lines rest = (ls, tl) ->
  split_lines (l ++ 10%N :: rest) = (l :: ls, tl).
Proof.
  intros Hl Hr. induction l as [|c l IH]; cbn [app split_lines].
  - rewrite Hr. reflexivity.
  - cbn [no_nlb forallb] in Hl. apply andb_true_iff in Hl as [Hc Hl]. apply negb_true_iff in Hc.
    rewrite (IH Hl), Hc. reflexivity.
Qed.

(* a text built from newline-free lines, each followed by '\n', splits into exactly these lines *)
Lemma split_lines_unlines ls : forallb no_nlb ls = true -> split_lines (unlines ls) = (ls, []).
Proof.
  induction ls as [|l ls IH]; [reflexivity|]. cbn [forallb]. intro H. apply andb_true_iff in H as [Hl Hls].
  unfold unlines. cbn [map concat]. rewrite <- app_assoc. cbn [app].
  apply split_lines_line; [exact Hl|]. exact (IH Hls).
Qed.

(* and every text is the '\n'-terminated lines followed by the unterminated tail *)
Lemma split_lines_inv s : forall ls tl, split_lines s = (ls, tl) ->
  s = unlines ls ++ tl /\ forallb no_nlb ls = true /\ no_nlb tl = true.
Proof.
  induction s as [|c s IH]; intros ls tl H; cbn [split_lines] in H.
  - injection H as <- <-. repeat split.
  - destruct (split_lines s) as [ls0 tl0]. destruct (IH _ _ eq_refl) as (E & A & B).
    destruct (N.eqb_spec c 10) as [->|Hc].
    + injection H as <- <-. repeat split; [|cbn [forallb]; rewrite A; reflexivity|exact B].
      unfold unlines. cbn [map concat app]. f_equal. exact E.
    + apply N.eqb_neq in Hc. destruct ls0 as [|l ls'].
      * injection H as <- <-. repeat split; [cbn [unlines map concat app]; f_equal; exact E|].
        cbn [no_nlb forallb]. rewrite Hc. exact B.
      * injection H as <- <-. cbn [forallb] in A. apply andb_true_iff in A as [A1 A2].
        repeat split; [|cbn [forallb no_nlb]; rewrite Hc; cbn [negb andb]; fold (no_nlb l); rewrite A1, A2; reflexivity|exact B].
        unfold unlines in *. cbn [map concat app] in *. f_equal. exact E.
Qed.

(* ------------------------------------------------------------------ chunk_lines: cut at every blank line *)
Lemma chunk_lines_nonnil ls : chunk_lines ls <> [].
Proof. destruct ls as [|l r]; cbn [chunk_lines]; [discriminate|]. destruct (is_blank l); [discriminate|]. destruct (chunk_lines r); discriminate. Qed.

Lemma chunk_lines_cons_nonblank l r : is_blank l = false ->
  exists c0 cs, chunk_lines r = c0 :: cs /\ chunk_lines (l :: r) = (l :: c0) :: cs.
Proof.
  intro Hl. cbn [chunk_lines]. rewrite Hl. destruct (chunk_lines r) as [|c0 cs] eqn:E.
  - exfalso. exact (chunk_lines_nonnil r E).
  - exists c0, cs. split; reflexivity.
Qed.

Lemma chunk_lines_app_blank a b r : is_blank b = true ->
  chunk_lines (a ++ b :: r) = chunk_lines a ++ chunk_lines r.
Proof.
  intro Hb. induction a as [|l a IH]; cbn [app].
  - cbn [chunk_lines]. rewrite Hb. reflexivity.
  - destruct (is_blank l) eqn:El.
    + cbn [chunk_lines]. rewrite El, IH. reflexivity.
    + destruct (chunk_lines_cons_nonblank l a El) as (c0 & cs & E1 & E2).
      rewrite E2. cbn [chunk_lines]. rewrite El, IH, E1. reflexivity.
Qed.

Lemma chunk_lines_all_nonblank c : forallb nonblank c = true -> chunk_lines c = [c].
Proof.
  induction c as [|l c IH]; [reflexivity|]. cbn [forallb]. intro H. apply andb_true_iff in H as [Hl Hc].
  apply negb_true_iff in Hl. cbn [chunk_lines]. rewrite Hl, (IH Hc). reflexivity.
Qed.

Lemma chunk_lines_noblank ls : Forall (fun c => forallb nonblank c = true) (chunk_lines ls).
Proof.
  induction ls as [|l r IH]; cbn [chunk_lines]; [repeat constructor|].
  destruct (is_blank l) eqn:El; [constructor; [reflexivity|exact IH]|].
  destruct (chunk_lines r) as [|c0 cs]; [repeat constructor; cbn; unfold nonblank; rewrite El; reflexivity|].
  inversion IH as [|? ? H0 Hcs]; subst. constructor; [|exact Hcs]. cbn [forallb]. unfold nonblank at 1. rewrite El. exact H0.
Qed.

Lemma concat_filter_nonnil {A} (cs : list (list A)) : concat (filter nonnil cs) = concat cs.
Proof.
  induction cs as [|c cs IH]; [reflexivity|]. cbn [filter concat]. destruct c as [|x c]; cbn [nonnil is_nil negb]; [exact IH|].
  cbn [concat]. rewrite IH. reflexivity.
Qed.

Lemma chunk_lines_concat ls : concat (chunk_lines ls) = filter nonblank ls.
Proof.
  induction ls as [|l r IH]; [reflexivity|]. cbn [chunk_lines filter]. unfold nonblank at 1.
  destruct (is_blank l) eqn:El; cbn [negb concat app]; [exact IH|].
  destruct (chunk_lines r) as [|c0 cs]; cbn [concat app] in *; rewrite <- IH; reflexivity.
Qed.

(* where the pieces sit in the text: the first piece is a prefix, every other piece is preceded by a
   blank line; every piece is followed by a blank line or by the end of the text *)
Definition starts_blank (ls : list (list N)) : Prop := exists b q, ls = b :: q /\ is_blank b = true.
Definition ends_blank (ls : list (list N)) : Prop := exists p b, ls = p ++ [b] /\ is_blank b = true.

Lemma chunk_lines_struct ls : exists c0 cs, chunk_lines ls = c0 :: cs
  /\ (exists post, ls = c0 ++ post /\ (post = [] \/ starts_blank post))
  /\ (forall c, In c cs -> exists pre post, ls = pre ++ c ++ post /\ ends_blank pre /\ (post = [] \/ starts_blank post)).
Proof.
  induction ls as [|l r IH].
  - exists [], []. split; [reflexivity|]. split; [exists []; split; [reflexivity|left; reflexivity]|intros c []].
  - destruct IH as (c0 & cs & E & (post0 & E0 & P0) & Hcs). destruct (is_blank l) eqn:El.
    + exists [], (c0 :: cs). cbn [chunk_lines]. rewrite El, E. split; [reflexivity|]. split.
      * exists (l :: r). split; [reflexivity|]. right. exists l, r. split; [reflexivity|exact El].
      * intros c [<-|Hc].
        -- exists [l], post0. split; [cbn [app]; f_equal; exact E0|]. split; [exists [], l; split; [reflexivity|exact El]|exact P0].
        -- destruct (Hcs c Hc) as (pre & post & Er & (p & b & Ep & Hb) & P). exists (l :: pre), post.
           split; [cbn [app]; f_equal; exact Er|]. split; [|exact P]. exists (l :: p), b. split; [rewrite Ep; reflexivity|exact Hb].
    + exists (l :: c0), cs. cbn [chunk_lines]. rewrite El, E. split; [reflexivity|]. split.
      * exists post0. split; [cbn [app]; f_equal; exact E0|exact P0].
      * intros c Hc. destruct (Hcs c Hc) as (pre & post & Er & (p & b & Ep & Hb) & P). exists (l :: pre), post.
        split; [cbn [app]; f_equal; exact Er|]. split; [|exact P]. exists (l :: p), b. split; [rewrite Ep; reflexivity|exact Hb].
Qed.

(* ------------------------------------------------------------------ chunks: the maximal runs of non-blank lines *)
Lemma chunks_concat ls : concat (chunks ls) = filter nonblank ls.
Proof. unfold chunks. fold (@nonnil (list N)). rewrite concat_filter_nonnil. apply chunk_lines_concat. Qed.

Lemma chunks_wf ls : Forall (fun c => c <> [] /\ forallb nonblank c = true) (chunks ls).
Proof.
  apply Forall_forall. intros c Hc. unfold chunks in Hc. apply filter_In in Hc as [Hc Hn].
  split; [intro E; subst; discriminate|].
  pose proof (chunk_lines_noblank ls) as H. rewrite Forall_forall in H. exact (H c Hc).
Qed.

(* a chunk is a contiguous block of the text, bounded on each side by a blank line or the text's edge *)
Lemma chunks_maximal ls c : In c (chunks ls) ->
  exists pre post, ls = pre ++ c ++ post /\ (pre = [] \/ ends_blank pre) /\ (post = [] \/ starts_blank post).
Proof.
  intro Hc. unfold chunks in Hc. apply filter_In in Hc as [Hc _].
  destruct (chunk_lines_struct ls) as (c0 & cs & E & (post0 & E0 & P0) & Hcs). rewrite E in Hc. destruct Hc as [<-|Hc].
  - exists [], post0. split; [exact E0|]. split; [left; reflexivity|exact P0].
  - destruct (Hcs c Hc) as (pre & post & Er & Hp & P). exists pre, post. split; [exact Er|]. split; [right; exact Hp|exact P].
Qed.

Lemma chunks_nil : chunks [] = [].
Proof. reflexivity. Qed.

Lemma chunks_blank_cons b r : is_blank b = true -> chunks (b :: r) = chunks r.
Proof. intro Hb. unfold chunks. cbn [chunk_lines]. rewrite Hb. reflexivity. Qed.

(* a blank line cuts: what is before and what is after are chunked independently *)
Lemma chunks_app_blank a b r : is_blank b = true -> chunks (a ++ b :: r) = chunks a ++ chunks r.
Proof. intro Hb. unfold chunks. rewrite (chunk_lines_app_blank a b r Hb). apply filter_app. Qed.

(* a non-empty run of non-blank lines is one chunk *)
Lemma chunks_run c : c <> [] -> forallb nonblank c = true -> chunks c = [c].
Proof. intros Hn Hc. unfold chunks. rewrite (chunk_lines_all_nonblank c Hc). destruct c; [congruence|reflexivity]. Qed.

Lemma chunks_blanks_app bs r : forallb is_blank bs = true -> chunks (bs ++ r) = chunks r.
Proof.
  induction bs as [|b bs IH]; [reflexivity|]. cbn [forallb app]. intro H. apply andb_true_iff in H as [Hb Hbs].
  rewrite (chunks_blank_cons b _ Hb). exact (IH Hbs).
Qed.

(* any non-empty run of blank lines cuts, whatever its length *)
Lemma chunks_blank_run a bs r : bs <> [] -> forallb is_blank bs = true ->
  chunks (a ++ bs ++ r) = chunks a ++ chunks r.
Proof.
  intros Hn H. destruct bs as [|b bs]; [congruence|]. cbn [forallb] in H. apply andb_true_iff in H as [Hb Hbs].
  cbn [app]. rewrite (chunks_app_blank a b _ Hb), (chunks_blanks_app bs r Hbs). reflexivity.
Qed.

Theorem chunks_blank_run_any a bs1 bs2 r : bs1 <> [] -> bs2 <> [] ->
  forallb is_blank bs1 = true -> forallb is_blank bs2 = true ->
  chunks (a ++ bs1 ++ r) = chunks (a ++ bs2 ++ r).
Proof. intros N1 N2 H1 H2. rewrite (chunks_blank_run a bs1 r N1 H1), (chunks_blank_run a bs2 r N2 H2). reflexivity. Qed.

(* the junction of a and b is already a chunk boundary *)
Definition boundary (a b : list (list N)) : Prop := a = [] \/ b = [] \/ ends_blank a \/ starts_blank b.

Lemma chunks_app_boundary a b : boundary a b -> chunks (a ++ b) = chunks a ++ chunks b.
Proof.
  intros [->|[->|[(p & x & -> & Hx)|(x & q & -> & Hx)]]].
  - reflexivity.
  - rewrite !app_nil_r. reflexivity.
  - rewrite <- app_assoc. cbn [app]. rewrite !(chunks_app_blank p x _ Hx). rewrite chunks_nil, app_nil_r. reflexivity.
  - rewrite (chunks_app_blank a x q Hx), (chunks_blank_cons x q Hx). reflexivity.
Qed.

(* additional blank lines before, between or after transactions do not change the chunks *)
Theorem chunks_insert_blanks a bs b : forallb is_blank bs = true -> boundary a b ->
  chunks (a ++ bs ++ b) = chunks (a ++ b).
Proof.
  intros H Hb. rewrite (chunks_app_boundary a b Hb). destruct bs as [|x bs]; [cbn [app]; exact (chunks_app_boundary a b Hb)|].
  apply chunks_blank_run; [discriminate|exact H].
Qed.

(* ... and a blank line anywhere else IS significant: inside a run of non-blank lines it makes two
   chunks out of one *)
Theorem chunks_blank_inside a bs b : a <> [] -> b <> [] -> bs <> [] ->
  forallb nonblank a = true -> forallb nonblank b = true -> forallb is_blank bs = true ->
  chunks (a ++ b) = [a ++ b] /\ chunks (a ++ bs ++ b) = [a; b].
Proof.
  intros Na Nb Ns Ha Hb Hs. split.
  - apply chunks_run; [destruct a; [congruence|discriminate]|]. rewrite forallb_app, Ha, Hb. reflexivity.
  - rewrite (chunks_blank_run a bs b Ns Hs), (chunks_run a Na Ha), (chunks_run b Nb Hb). reflexivity.
Qed.

(* ================================================================== PART 2: C15 — no partial consumption *)
Lemma mapO_ok_all {A B} (f : A -> option B) l : forall ys, mapO f l = Some ys -> Forall2 (fun x y => f x = Some y) l ys.
Proof.
  induction l as [|x l IH]; intros ys H; cbn [mapO] in H.
  - injection H as <-. constructor.
  - destruct (f x) as [y|] eqn:E; [|discriminate]. destruct (mapO f l) as [ys'|]; [|discriminate].
    injection H as <-. constructor; [exact E|apply IH; reflexivity].
Qed.
Lemma mapO_all_ok {A B} (f : A -> option B) l ys : Forall2 (fun x y => f x = Some y) l ys -> mapO f l = Some ys.
Proof. induction 1 as [|x y l ys Hx _ IH]; cbn [mapO]; [reflexivity|]. rewrite Hx, IH. reflexivity. Qed.
Lemma mapO_none_any {A B} (f : A -> option B) l x : In x l -> f x = None -> mapO f l = None.
Proof.
  induction l as [|y l IH]; intros Hin Hx; [destruct Hin|]. cbn [mapO]. destruct Hin as [->|Hin].
  - rewrite Hx. reflexivity.
  - destruct (f y); [|reflexivity]. rewrite (IH Hin Hx). reflexivity.
Qed.

(* the lines the parser looks at: terminated lines, the terminator's CR removed *)
Definition text_lines (s : list N) : list (list N) := map strip_cr (fst (split_lines s)).

(* parse_journal accepts exactly: fully terminated text, no stray CR, at least one chunk, and every
   chunk — whole — is one transaction *)
Theorem parse_journal_ok_iff cfg s pts : parse_journal cfg s = Ok pts <->
  snd (split_lines s) = [] /\ existsb has_cr (text_lines s) = false
  /\ Forall2 (fun c pt => parse_chunk cfg c = Some pt) (chunks (text_lines s)) pts /\ pts <> [].
Proof.
  unfold parse_journal, text_lines. destruct (split_lines s) as [ls0 tl]. cbn [fst snd]. split.
  - destruct tl; [|discriminate]. cbn [is_nil negb].
    change (existsb (existsb (fun c => (c =? 13)%N)) (map strip_cr ls0)) with (existsb has_cr (map strip_cr ls0)).
    destruct (existsb has_cr (map strip_cr ls0)); [discriminate|].
    destruct (chunks (map strip_cr ls0)) as [|c0 cs] eqn:Ech; [discriminate|].
    destruct (mapO (parse_chunk cfg) (c0 :: cs)) as [l|] eqn:Em; [|discriminate].
    intro H. injection H as <-. pose proof (mapO_ok_all _ _ _ Em) as HF.
    repeat split; [exact HF|]. intro E. subst. inversion HF.
  - intros (-> & Hcr & HF & Hne). cbn [is_nil negb].
    change (existsb (existsb (fun c => (c =? 13)%N)) (map strip_cr ls0)) with (existsb has_cr (map strip_cr ls0)).
    rewrite Hcr. destruct (chunks (map strip_cr ls0)) as [|c0 cs]; [inversion HF; subst; congruence|].
    rewrite (mapO_all_ok _ _ _ HF). reflexivity.
Qed.

Theorem parse_journal_err_code cfg s c : parse_journal cfg s = Err c -> c = E_syntax.
Proof.
  unfold parse_journal. destruct (split_lines s) as [ls0 tl]. destruct (negb (is_nil tl)); [congruence|].
  destruct (existsb _ _); [congruence|]. destruct (chunks _); [congruence|]. destruct (mapO _ _); congruence.
Qed.

(* one chunk that is not a complete transaction — first, in the middle or last — rejects the text *)
Theorem parse_journal_bad_chunk cfg s c : In c (chunks (text_lines s)) -> parse_chunk cfg c = None ->
  parse_journal cfg s = Err E_syntax.
Proof.
  intros Hin Hc. destruct (parse_journal cfg s) as [pts|e] eqn:E; [|f_equal; exact (parse_journal_err_code _ _ _ E)].
  exfalso. apply parse_journal_ok_iff in E as (_ & _ & HF & _).
  pose proof (mapO_all_ok _ _ _ HF) as H. rewrite (mapO_none_any _ _ c Hin Hc) in H. discriminate.
Qed.

(* ------------------------------------------------------------------ a chunk is consumed line by line *)
Definition opt_cnt {A} (o : option A) : nat := match o with Some _ => 1 | None => 0 end.

Lemma parse_meta_consumes ls : forall u g t u' g' t' rest, parse_meta ls u g t = Some (u', g', t', rest) ->
  exists ms, ls = ms ++ rest
  /\ (length ms + opt_cnt u + opt_cnt g + opt_cnt t = opt_cnt u' + opt_cnt g' + opt_cnt t')%nat
  /\ Forall (fun l => exists m, parse_meta_line l = Some (Some m)) ms
  /\ match rest with [] => True | l :: _ => parse_meta_line l = None end.
Proof.
  induction ls as [|l r IH]; intros u g t u' g' t' rest H; cbn [parse_meta] in H.
  - injection H as <- <- <- <-. exists []. repeat split; constructor.
  - destruct (parse_meta_line l) as [[m|]|] eqn:El.
    + destruct m as [v|v|v]; [destruct u|destruct g|destruct t]; try discriminate;
        destruct (IH _ _ _ _ _ _ _ H) as (ms & E & Hc & Hf & Hr); exists (l :: ms);
        (split; [cbn [app]; f_equal; exact E|]); (split; [cbn [length opt_cnt] in *; lia|]);
        (split; [constructor; [eexists; exact El|exact Hf]|exact Hr]).
    + discriminate.
    + injection H as <- <- <- <-. exists []. repeat split; [constructor|exact El].
Qed.

Ltac dmatch H := match type of H with context [match ?x with _ => _ end] => destruct x eqn:? end.

Lemma tag_names_length ps : forall r, tag_names ps = Some r -> length r = length ps.
Proof.
  induction ps as [|p ps IH]; intros r H; cbn [tag_names] in H; [injection H as <-; reflexivity|].
  destruct (take_name p) as [[comps [|]]|]; try discriminate. destruct (tag_names ps) as [r'|]; [|discriminate].
  injection H as <-. cbn [length]. f_equal. apply IH. reflexivity.
Qed.
Lemma split_on_nonnil sep s : split_on sep s <> [].
Proof. destruct s as [|c s]; cbn [split_on]; [discriminate|]. destruct (c =? sep)%N; [discriminate|]. destruct (split_on sep s); discriminate. Qed.
Lemma parse_tags_nonnil s t : parse_tags s = Some t -> t <> [].
Proof.
  unfold parse_tags. destruct (tag_names _) as [names|] eqn:E; [|discriminate]. destruct (Nat.eqb _ _); [|discriminate].
  intro H. injection H as <-. apply tag_names_length in E. rewrite map_length in E. intro En. subst.
  cbn [length] in E. symmetry in E. apply length_zero_iff_nil in E. exact (split_on_nonnil _ _ E).
Qed.
Lemma parse_meta_line_tags l v : parse_meta_line l = Some (Some (M_tags v)) -> v <> [].
Proof.
  unfold parse_meta_line. intro H. repeat (dmatch H; try discriminate).
  injection H as <-. eapply parse_tags_nonnil; eassumption.
Qed.

Lemma parse_meta_tags_nonnil ls : forall u g t u' g' t' rest, parse_meta ls u g t = Some (u', g', t', rest) ->
  (forall x, t = Some x -> x <> []) -> forall x, t' = Some x -> x <> [].
Proof.
  induction ls as [|l r IH]; intros u g t u' g' t' rest H Ht; cbn [parse_meta] in H.
  - injection H as <- <- <- <-. exact Ht.
  - destruct (parse_meta_line l) as [[m|]|] eqn:El.
    + destruct m as [v|v|v]; [destruct u|destruct g|destruct t]; try discriminate.
      * exact (IH _ _ _ _ _ _ _ H Ht).
      * exact (IH _ _ _ _ _ _ _ H Ht).
      * apply (IH _ _ _ _ _ _ _ H). intros x Hx. injection Hx as <-. exact (parse_meta_line_tags l v El).
    + discriminate.
    + injection H as <- <- <- <-. exact Ht.
Qed.

Lemma parse_comments_consumes ls : forall cs rest, parse_comments ls = Some (cs, rest) ->
  exists cls, ls = cls ++ rest /\ Forall2 (fun l c => parse_comment_line l = Some (Some c)) cls cs
  /\ match rest with [] => True | l :: _ => parse_comment_line l = None end.
Proof.
  induction ls as [|l r IH]; intros cs rest H; cbn [parse_comments] in H.
  - injection H as <- <-. exists []. repeat split; constructor.
  - destruct (parse_comment_line l) as [[c|]|] eqn:El.
    + destruct (parse_comments r) as [[cs' rest']|]; [|discriminate]. injection H as <- <-.
      destruct (IH _ _ eq_refl) as (cls & E & HF & Hr). exists (l :: cls).
      split; [cbn [app]; f_equal; exact E|]. split; [constructor; [exact El|exact HF]|exact Hr].
    + discriminate.
    + injection H as <- <-. exists []. repeat split; [constructor|exact El].
Qed.

Lemma parse_postings_consumes ls : forall ps la, parse_postings ls = Some (ps, la) ->
  exists pls lls, ls = pls ++ lls
  /\ Forall2 (fun l p => parse_posting_line l = Some (PL_post (fst p) (snd p))) pls ps
  /\ match la with
     | None => lls = []
     | Some (a, cm) => exists l, lls = [l] /\ parse_posting_line l = Some (PL_last a cm)
     end.
Proof.
  induction ls as [|l r IH]; intros ps la H; cbn [parse_postings] in H.
  - injection H as <- <-. exists [], []. repeat split; constructor.
  - destruct (parse_posting_line l) as [[rp c|a c]|] eqn:El; [| |discriminate].
    + destruct (parse_postings r) as [[ps' la']|]; [|discriminate]. injection H as <- <-.
      destruct (IH _ _ eq_refl) as (pls & lls & E & HF & Hl). exists (l :: pls), lls.
      split; [cbn [app]; f_equal; exact E|]. split; [constructor; [exact El|exact HF]|exact Hl].
    + destruct r; [|discriminate]. injection H as <- <-. exists [], [l].
      split; [reflexivity|]. split; [constructor|]. exists l. split; [reflexivity|exact El].
Qed.

Definition meta_cnt (h : header) : nat :=
  (opt_cnt (h_uuid h) + opt_cnt (h_loc h) + match h_tags h with [] => 0 | _ :: _ => 1 end)%nat.

(* every line of a chunk that parses is accounted for in the transaction: the header line, then the
   metadata lines, then the comment lines, then the posting lines, then the amount-less last posting;
   nothing in between and nothing after *)
Theorem parse_chunk_consumes cfg c pt : parse_chunk cfg c = Some pt ->
  exists hl ms cls pls lls, c = hl :: ms ++ cls ++ pls ++ lls
  /\ length ms = meta_cnt (pt_hdr pt)
  /\ Forall (fun l => exists m, parse_meta_line l = Some (Some m)) ms
  /\ Forall2 (fun l cm => parse_comment_line l = Some (Some cm)) cls (h_comments (pt_hdr pt))
  /\ Forall2 (fun l p => parse_posting_line l = Some (PL_post (fst p) (snd p))) pls (pt_posts pt)
  /\ match pt_last pt with
     | None => lls = []
     | Some (a, cm) => exists l, lls = [l] /\ parse_posting_line l = Some (PL_last a cm)
     end.
Proof.
  unfold parse_chunk. destruct c as [|hl body]; [discriminate|].
  destruct (parse_ts cfg hl) as [[[inst off] r]|]; [|discriminate].
  destruct (parse_header_rest r) as [[code desc]|]; [|discriminate].
  destruct (parse_meta body None None None) as [[[[u g] t] body1]|] eqn:Em; [|discriminate].
  destruct (parse_comments body1) as [[cs body2]|] eqn:Ec; [|discriminate].
  destruct (parse_postings body2) as [[ps la]|] eqn:Ep; [|discriminate].
  destruct (is_nil ps); [discriminate|]. intro H. injection H as <-. cbn [pt_hdr pt_posts pt_last h_comments].
  destruct (parse_meta_consumes _ _ _ _ _ _ _ _ Em) as (ms & E1 & Hcnt & Hms & _).
  destruct (parse_comments_consumes _ _ _ Ec) as (cls & E2 & Hcls & _).
  destruct (parse_postings_consumes _ _ _ Ep) as (pls & lls & E3 & Hpls & Hl).
  exists hl, ms, cls, pls, lls. split; [rewrite E1, E2, E3; reflexivity|].
  split; [|split; [exact Hms|split; [exact Hcls|split; [exact Hpls|exact Hl]]]].
  unfold meta_cnt. cbn [h_uuid h_loc h_tags]. cbn [opt_cnt] in Hcnt.
  assert (Ht : (opt_cnt t = match (match t with Some x => x | None => [] end) with [] => 0 | _ :: _ => 1 end)%nat).
  { destruct t as [x|]; [|reflexivity].
    assert (x <> []) by (apply (parse_meta_tags_nonnil _ _ _ _ _ _ _ _ Em); [discriminate|reflexivity]).
    destruct x; [congruence|reflexivity]. }
  rewrite <- Ht. lia.
Qed.

Corollary parse_chunk_length cfg c pt : parse_chunk cfg c = Some pt ->
  length c = (1 + meta_cnt (pt_hdr pt) + length (h_comments (pt_hdr pt)) + length (pt_posts pt) + opt_cnt (pt_last pt))%nat.
Proof.
  intro H. destruct (parse_chunk_consumes cfg c pt H) as (hl & ms & cls & pls & lls & -> & Hm & _ & Hc & Hp & Hl).
  cbn [length]. rewrite !app_length, Hm.
  assert (A : forall {X Y} (R : X -> Y -> Prop) l l', Forall2 R l l' -> length l = length l') by (induction 1; cbn [length]; congruence).
  rewrite (A _ _ _ _ _ Hc), (A _ _ _ _ _ Hp).
  destruct (pt_last pt) as [[a cm]|]; [destruct Hl as (l & -> & _)|subst lls]; cbn [length opt_cnt]; lia.
Qed.

(* ------------------------------------------------------------------ loading keeps every parsed transaction *)
Theorem load_journal_ok cfg s ts : load_journal cfg s = Ok ts ->
  exists pts ts0, parse_journal cfg s = Ok pts
  /\ Forall2 (fun pt t => accept_ptxn pt = Ok t) pts ts0
  /\ ts = sort_by jtxn_leb ts0 /\ Permutation ts ts0 /\ length ts = length pts.
Proof.
  unfold load_journal. destruct (parse_journal cfg s) as [pts|] eqn:Ep; [|discriminate]. cbn [res_bind].
  destruct (mapM accept_ptxn pts) as [ts0|] eqn:Em; [|discriminate]. cbn [res_bind]. intro H. injection H as <-.
  pose proof (mapM_ok_all _ _ _ Em) as HF. exists pts, ts0. repeat split; try assumption.
  - apply sort_by_perm.
  - rewrite sort_by_length. symmetry. clear - HF. induction HF; cbn [length]; congruence.
Qed.

(* ... and one transaction that the semantic layer refuses rejects the whole text *)
Theorem load_journal_bad_txn cfg s pts pt e : parse_journal cfg s = Ok pts -> In pt pts -> accept_ptxn pt = Err e ->
  exists e', load_journal cfg s = Err e'.
Proof.
  intros Hp Hin He. unfold load_journal. rewrite Hp. cbn [res_bind].
  destruct (mapM_err_any accept_ptxn pts pt e Hin He) as (e' & E). rewrite E. exists e'. reflexivity.
Qed.

(* ================================================================== PART 3: C04 — insignificant layout *)
(* parse_journal after line splitting *)
Definition parse_lines (cfg : pcfg) (ls : list (list N)) : res (list ptxn) :=
  if existsb has_cr ls then Err E_syntax else
  match chunks ls with
  | [] => Err E_syntax
  | cs => match mapO (parse_chunk cfg) cs with Some l => Ok l | None => Err E_syntax end
  end.

Lemma parse_journal_lines cfg s : parse_journal cfg s =
  if negb (is_nil (snd (split_lines s))) then Err E_syntax else parse_lines cfg (text_lines s).
Proof. unfold parse_journal, text_lines. destruct (split_lines s) as [ls0 tl]. reflexivity. Qed.

Lemma parse_journal_unlines cfg ls : forallb no_nlb ls = true ->
  parse_journal cfg (unlines ls) = parse_lines cfg (map strip_cr ls).
Proof. intro H. unfold parse_journal. rewrite (split_lines_unlines ls H). reflexivity. Qed.

Lemma parse_lines_cong cfg ls ls' : existsb has_cr ls = existsb has_cr ls' ->
  Forall2 (fun c c' => parse_chunk cfg c = parse_chunk cfg c') (chunks ls) (chunks ls') ->
  parse_lines cfg ls = parse_lines cfg ls'.
Proof.
  intros Hcr HF. unfold parse_lines. rewrite Hcr. destruct (existsb has_cr ls'); [reflexivity|].
  remember (chunks ls) as cs. remember (chunks ls') as cs'. clear - HF.
  assert (E : mapO (parse_chunk cfg) cs = mapO (parse_chunk cfg) cs').
  { induction HF as [|c c' l l' Hc _ IH]; [reflexivity|]. cbn [mapO]. rewrite Hc, IH. reflexivity. }
  destruct HF; [reflexivity|]. rewrite E. reflexivity.
Qed.

(* ------------------------------------------------------------------ blank lines *)
Lemma sp_not_cr c : is_sp c = true -> (c =? 13)%N = false.
Proof. unfold is_sp. intro H. apply orb_true_iff in H as [H|H]; apply N.eqb_eq in H; subst; reflexivity. Qed.
Lemma sp_not_nl c : is_sp c = true -> negb (c =? 10)%N = true.
Proof. unfold is_sp. intro H. apply orb_true_iff in H as [H|H]; apply N.eqb_eq in H; subst; reflexivity. Qed.
Lemma sp_not_digit c : is_sp c = true -> is_digit c = false.
Proof. unfold is_sp. intro H. apply orb_true_iff in H as [H|H]; apply N.eqb_eq in H; subst; reflexivity. Qed.

Lemma blank_no_cr l : is_blank l = true -> has_cr l = false.
Proof.
  unfold is_blank, has_cr. induction l as [|c l IH]; [reflexivity|]. cbn [forallb existsb].
  intro H. apply andb_true_iff in H as [Hc Hl]. rewrite (sp_not_cr _ Hc). exact (IH Hl).
Qed.

Lemma strip_cr_blank l : is_blank l = true -> strip_cr l = l.
Proof.
  intro H. unfold strip_cr. destruct (rev l) as [|c r] eqn:E; [reflexivity|].
  assert (Hc : is_sp c = true).
  { unfold is_blank in H. rewrite <- forallb_rev, E in H. cbn [forallb] in H. apply andb_true_iff in H as [H _]. exact H. }
  rewrite (sp_not_cr _ Hc). reflexivity.
Qed.

(* a blank line of the text: blanks/TABs only, terminated by "\n" or "\r\n" *)
Definition blank_tl (l : list N) : bool := is_blank (strip_cr l).

Lemma blank_tl_no_nl l : blank_tl l = true -> no_nlb l = true.
Proof.
  unfold blank_tl, strip_cr. destruct (rev l) as [|c r] eqn:E.
  - intros _. apply (f_equal (@rev N)) in E. rewrite rev_involutive in E. subst. reflexivity.
  - assert (El : l = rev r ++ [c]) by (rewrite <- (rev_involutive l), E; reflexivity).
    destruct (N.eqb_spec c 13) as [->|Hc]; intro H.
    + rewrite El. unfold no_nlb. rewrite forallb_app. cbn [forallb]. rewrite andb_true_r.
      apply (forallb_impl is_sp); [exact sp_not_nl|exact H].
    + unfold no_nlb. apply (forallb_impl is_sp); [exact sp_not_nl|exact H].
Qed.

Lemma blank_tl_strip bs : forallb blank_tl bs = true ->
  forallb is_blank (map strip_cr bs) = true /\ existsb has_cr (map strip_cr bs) = false /\ forallb no_nlb bs = true.
Proof.
  induction bs as [|b bs IH]; [repeat split|]. cbn [forallb map existsb]. intro H. apply andb_true_iff in H as [Hb Hbs].
  destruct (IH Hbs) as (A & B & C). rewrite A, B, C, (blank_tl_no_nl b Hb), (blank_no_cr _ Hb). unfold blank_tl in Hb. rewrite Hb.
  repeat split.
Qed.

(* the junction of the text lines a and b is already a transaction boundary *)
Definition tboundary (a b : list (list N)) : Prop :=
  a = [] \/ b = [] \/ (exists p x, a = p ++ [x] /\ blank_tl x = true) \/ (exists x q, b = x :: q /\ blank_tl x = true).

Lemma tboundary_strip a b : tboundary a b -> boundary (map strip_cr a) (map strip_cr b).
Proof.
  intros [->|[->|[(p & x & -> & Hx)|(x & q & -> & Hx)]]];
    [left; reflexivity|right; left; reflexivity|right; right; left|right; right; right].
  - exists (map strip_cr p), (strip_cr x). rewrite map_app. split; [reflexivity|exact Hx].
  - exists (strip_cr x), (map strip_cr q). split; [reflexivity|exact Hx].
Qed.

(* additional blank lines before the first, between two, or after the last transaction: same result
   (same transactions or same rejection) *)
Theorem parse_journal_insert_blanks cfg a bs b :
  forallb no_nlb a = true -> forallb no_nlb b = true -> forallb blank_tl bs = true -> tboundary a b ->
  parse_journal cfg (unlines (a ++ bs ++ b)) = parse_journal cfg (unlines (a ++ b)).
Proof.
  intros Ha Hb Hbs Hbd. destruct (blank_tl_strip bs Hbs) as (B1 & B2 & B3).
  assert (H1 : forallb no_nlb (a ++ bs ++ b) = true) by (rewrite !forallb_app, Ha, B3, Hb; reflexivity).
  assert (H2 : forallb no_nlb (a ++ b) = true) by (rewrite forallb_app, Ha, Hb; reflexivity).
  rewrite (parse_journal_unlines cfg _ H1), (parse_journal_unlines cfg _ H2).
  rewrite !map_app. unfold parse_lines. rewrite !existsb_app, B2. cbn [orb].
  rewrite (chunks_insert_blanks _ _ _ B1 (tboundary_strip a b Hbd)). reflexivity.
Qed.

(* any non-empty run of blank lines, anywhere, can be replaced by any other non-empty run *)
Theorem parse_journal_blank_run_any cfg a bs1 bs2 b :
  forallb no_nlb a = true -> forallb no_nlb b = true -> bs1 <> [] -> bs2 <> [] ->
  forallb blank_tl bs1 = true -> forallb blank_tl bs2 = true ->
  parse_journal cfg (unlines (a ++ bs1 ++ b)) = parse_journal cfg (unlines (a ++ bs2 ++ b)).
Proof.
  intros Ha Hb N1 N2 H1 H2. destruct (blank_tl_strip bs1 H1) as (A1 & A2 & A3). destruct (blank_tl_strip bs2 H2) as (B1 & B2 & B3).
  assert (L1 : forallb no_nlb (a ++ bs1 ++ b) = true) by (rewrite !forallb_app, Ha, A3, Hb; reflexivity).
  assert (L2 : forallb no_nlb (a ++ bs2 ++ b) = true) by (rewrite !forallb_app, Ha, B3, Hb; reflexivity).
  rewrite (parse_journal_unlines cfg _ L1), (parse_journal_unlines cfg _ L2).
  rewrite !map_app. unfold parse_lines. rewrite !existsb_app, A2, B2.
  rewrite (chunks_blank_run_any (map strip_cr a) (map strip_cr bs1) (map strip_cr bs2) (map strip_cr b)); try assumption;
    [reflexivity|destruct bs1; [congruence|discriminate]|destruct bs2; [congruence|discriminate]].
Qed.

(* ------------------------------------------------------------------ indentation *)
Lemma span_app_all p a r : forallb p a = true -> span p (a ++ r) = (a ++ fst (span p r), snd (span p r)).
Proof.
  induction a as [|c a IH]; cbn [app forallb]; intro H.
  - destruct (span p r); reflexivity.
  - apply andb_true_iff in H as [Hc Ha]. cbn [span]. rewrite Hc, (IH Ha). reflexivity.
Qed.

Definition indent_ok (sp : list N) : Prop := sp <> [] /\ forallb is_sp sp = true.

(* sp1: the indentation is any non-empty run of blanks/TABs — only what follows it matters *)
Theorem posting_line_reindent sp1 sp2 r : indent_ok sp1 -> indent_ok sp2 ->
  parse_posting_line (sp1 ++ r) = parse_posting_line (sp2 ++ r).
Proof.
  intros [N1 H1] [N2 H2]. unfold parse_posting_line. rewrite (span_app_all _ _ r H1), (span_app_all _ _ r H2).
  destruct sp1; [congruence|]. destruct sp2; [congruence|]. reflexivity.
Qed.
Theorem meta_line_reindent sp1 sp2 r : indent_ok sp1 -> indent_ok sp2 ->
  parse_meta_line (sp1 ++ r) = parse_meta_line (sp2 ++ r).
Proof.
  intros [N1 H1] [N2 H2]. unfold parse_meta_line. rewrite (span_app_all _ _ r H1), (span_app_all _ _ r H2).
  destruct sp1; [congruence|]. destruct sp2; [congruence|]. reflexivity.
Qed.
Theorem comment_line_reindent sp1 sp2 r : indent_ok sp1 -> indent_ok sp2 ->
  parse_comment_line (sp1 ++ r) = parse_comment_line (sp2 ++ r).
Proof.
  intros [N1 H1] [N2 H2]. unfold parse_comment_line. rewrite (span_app_all _ _ r H1), (span_app_all _ _ r H2).
  destruct sp1; [congruence|]. destruct sp2; [congruence|]. reflexivity.
Qed.

(* ... but it must be there: a line that does not start with a blank/TAB is none of the three *)
Theorem line_needs_indent r : stopb is_sp r = true ->
  parse_posting_line r = None /\ parse_meta_line r = None /\ parse_comment_line r = None.
Proof.
  intro H. unfold parse_posting_line, parse_meta_line, parse_comment_line. rewrite (span_stop _ _ H).
  repeat split; destruct r; reflexivity.
Qed.

(* ... and a line that starts with one is not a header line *)
Lemma parse_ts_sp cfg c x : is_sp c = true -> parse_ts cfg (c :: x) = None.
Proof.
  intro H. unfold parse_ts, take_digits. cbn [firstn forallb]. rewrite (sp_not_digit _ H). cbn [andb].
  rewrite andb_false_r. reflexivity.
Qed.

(* two lines that differ only in their (non-empty) indentation *)
Definition same_line (l l' : list N) : Prop :=
  exists sp1 sp2 r, l = sp1 ++ r /\ l' = sp2 ++ r
    /\ forallb is_sp sp1 = true /\ forallb is_sp sp2 = true /\ (sp1 = [] <-> sp2 = []).

Lemma same_line_refl l : same_line l l.
Proof. exists [], [], l. repeat split. Qed.

Definition agree (l l' : list N) : Prop :=
  parse_meta_line l = parse_meta_line l' /\ parse_comment_line l = parse_comment_line l'
  /\ parse_posting_line l = parse_posting_line l'.

Lemma same_line_agree l l' : same_line l l' -> agree l l'.
Proof.
  intros (sp1 & sp2 & r & -> & -> & H1 & H2 & Hn). destruct sp1 as [|c sp1].
  - rewrite (proj1 Hn eq_refl). repeat split.
  - assert (I1 : indent_ok (c :: sp1)) by (split; [discriminate|exact H1]).
    assert (I2 : indent_ok sp2) by (split; [intro E; apply Hn in E; discriminate|exact H2]).
    split; [apply meta_line_reindent|split; [apply comment_line_reindent|apply posting_line_reindent]]; assumption.
Qed.

Lemma same_line_ts cfg l l' : same_line l l' -> parse_ts cfg l = parse_ts cfg l'.
Proof.
  intros (sp1 & sp2 & r & -> & -> & H1 & H2 & Hn). destruct sp1 as [|c sp1].
  - rewrite (proj1 Hn eq_refl). reflexivity.
  - destruct sp2 as [|c' sp2]; [pose proof (proj2 Hn eq_refl) as E; discriminate|].
    cbn [forallb] in H1, H2. apply andb_true_iff in H1 as [H1 _]. apply andb_true_iff in H2 as [H2 _].
    cbn [app]. rewrite (parse_ts_sp cfg c _ H1), (parse_ts_sp cfg c' _ H2). reflexivity.
Qed.

Lemma same_line_blank l l' : same_line l l' -> is_blank l = is_blank l'.
Proof. intros (sp1 & sp2 & r & -> & -> & H1 & H2 & _). unfold is_blank. rewrite !forallb_app, H1, H2. reflexivity. Qed.

Lemma same_line_cr l l' : same_line l l' -> has_cr l = has_cr l'.
Proof.
  intros (sp1 & sp2 & r & -> & -> & H1 & H2 & _). unfold has_cr. rewrite !existsb_app.
  fold (has_cr sp1) (has_cr sp2). rewrite (blank_no_cr sp1 H1), (blank_no_cr sp2 H2). reflexivity.
Qed.

Lemma strip_cr_app a r : r <> [] -> strip_cr (a ++ r) = a ++ strip_cr r.
Proof.
  intro Hr. unfold strip_cr. rewrite rev_app_distr. destruct (rev r) as [|c x] eqn:E.
  - exfalso. apply Hr. rewrite <- (rev_involutive r), E. reflexivity.
  - cbn [app]. destruct (c =? 13)%N; [|reflexivity]. rewrite rev_app_distr, rev_involutive. reflexivity.
Qed.

Lemma same_line_strip l l' : same_line l l' -> same_line (strip_cr l) (strip_cr l').
Proof.
  intros (sp1 & sp2 & r & -> & -> & H1 & H2 & Hn). destruct r as [|c r].
  - rewrite !app_nil_r. rewrite (strip_cr_blank sp1 H1), (strip_cr_blank sp2 H2).
    exists sp1, sp2, []. rewrite !app_nil_r. repeat split; try assumption; apply Hn.
  - rewrite !strip_cr_app by discriminate. exists sp1, sp2, (strip_cr (c :: r)). repeat split; try assumption; apply Hn.
Qed.

(* the three body parsers only see what the line parsers see *)
Lemma parse_meta_agree ls ls' : Forall2 agree ls ls' -> forall u g t,
  match parse_meta ls u g t, parse_meta ls' u g t with
  | Some (u1, g1, t1, r1), Some (u2, g2, t2, r2) => u1 = u2 /\ g1 = g2 /\ t1 = t2 /\ Forall2 agree r1 r2
  | None, None => True
  | _, _ => False
  end.
Proof.
  induction 1 as [|l l' ls ls' Hl HF IH]; intros u g t; cbn [parse_meta]; [repeat split; constructor|].
  pose proof Hl as (Hm & Hc & Hp). rewrite <- Hm. destruct (parse_meta_line l) as [[[v|v|v]|]|].
  - destruct u; [exact I|apply IH].
  - destruct g; [exact I|apply IH].
  - destruct t; [exact I|apply IH].
  - exact I.
  - repeat split. constructor; [exact Hl|exact HF].
Qed.

Lemma parse_comments_agree ls ls' : Forall2 agree ls ls' ->
  match parse_comments ls, parse_comments ls' with
  | Some (c1, r1), Some (c2, r2) => c1 = c2 /\ Forall2 agree r1 r2
  | None, None => True
  | _, _ => False
  end.
Proof.
  induction 1 as [|l l' ls ls' Hl HF IH]; cbn [parse_comments]; [repeat split; constructor|].
  pose proof Hl as (Hm & Hc & Hp). rewrite <- Hc. destruct (parse_comment_line l) as [[c|]|].
  - destruct (parse_comments ls) as [[c1 r1]|], (parse_comments ls') as [[c2 r2]|]; try exact IH.
    destruct IH as [-> IH]. split; [reflexivity|exact IH].
  - exact I.
  - split; [reflexivity|]. constructor; [exact Hl|exact HF].
Qed.

Lemma parse_postings_agree ls ls' : Forall2 agree ls ls' -> parse_postings ls = parse_postings ls'.
Proof.
  induction 1 as [|l l' ls ls' Hl HF IH]; cbn [parse_postings]; [reflexivity|].
  destruct Hl as (Hm & Hc & Hp). rewrite <- Hp, IH. destruct (parse_posting_line l) as [[rp c|a c]|]; try reflexivity.
  destruct HF; reflexivity.
Qed.

Lemma parse_chunk_agree cfg hl hl' body body' : parse_ts cfg hl = parse_ts cfg hl' -> Forall2 agree body body' ->
  parse_chunk cfg (hl :: body) = parse_chunk cfg (hl' :: body').
Proof.
  intros Hts HF. unfold parse_chunk. rewrite <- Hts. destruct (parse_ts cfg hl) as [[[inst off] r]|]; [|reflexivity].
  destruct (parse_header_rest r) as [[code desc]|]; [|reflexivity].
  pose proof (parse_meta_agree _ _ HF None None None) as Hm.
  destruct (parse_meta body None None None) as [[[[u g] t] b1]|], (parse_meta body' None None None) as [[[[u' g'] t'] b1']|];
    try contradiction; [|reflexivity].
  destruct Hm as (<- & <- & <- & HF1). pose proof (parse_comments_agree _ _ HF1) as Hc.
  destruct (parse_comments b1) as [[cs b2]|], (parse_comments b1') as [[cs' b2']|]; try contradiction; [|reflexivity].
  destruct Hc as (<- & HF2). rewrite (parse_postings_agree _ _ HF2). reflexivity.
Qed.

(* re-indenting lines of a chunk does not change what it parses to *)
Theorem parse_chunk_reindent cfg c c' : Forall2 same_line c c' -> parse_chunk cfg c = parse_chunk cfg c'.
Proof.
  intro HF. destruct HF as [|hl hl' body body' Hh HF]; [reflexivity|].
  apply parse_chunk_agree; [exact (same_line_ts cfg _ _ Hh)|].
  clear - HF. induction HF; constructor; [apply same_line_agree; assumption|assumption].
Qed.

Lemma chunk_lines_rel (R : list N -> list N -> Prop) : (forall l l', R l l' -> is_blank l = is_blank l') ->
  forall ls ls', Forall2 R ls ls' -> Forall2 (Forall2 R) (chunk_lines ls) (chunk_lines ls').
Proof.
  intros HR ls ls' HF. induction HF as [|l l' ls ls' Hl HF IH]; cbn [chunk_lines]; [repeat constructor|].
  rewrite <- (HR _ _ Hl). destruct (is_blank l).
  - constructor; [constructor|exact IH].
  - destruct IH as [|c c' cs cs' Hc Hcs]; [repeat constructor; exact Hl|].
    constructor; [constructor; [exact Hl|exact Hc]|exact Hcs].
Qed.

Lemma Forall2_filter_same {A} (f : A -> bool) (R : A -> A -> Prop) l l' :
  (forall x y, R x y -> f x = f y) -> Forall2 R l l' -> Forall2 R (filter f l) (filter f l').
Proof.
  intros Hf HF. induction HF as [|x y l l' Hxy _ IH]; [constructor|]. cbn [filter]. rewrite <- (Hf _ _ Hxy).
  destruct (f x); [constructor; assumption|exact IH].
Qed.

Lemma Forall2_imp {A B} (R1 R2 : A -> B -> Prop) : (forall a b, R1 a b -> R2 a b) ->
  forall l l', Forall2 R1 l l' -> Forall2 R2 l l'.
Proof. intros H l l' HF. induction HF; constructor; [apply H; assumption|assumption]. Qed.

Theorem parse_lines_reindent cfg ls ls' : Forall2 same_line ls ls' -> parse_lines cfg ls = parse_lines cfg ls'.
Proof.
  intro HF. apply parse_lines_cong.
  - clear - HF. induction HF as [|l l' ls ls' Hl _ IH]; [reflexivity|]. cbn [existsb]. rewrite (same_line_cr _ _ Hl), IH. reflexivity.
  - unfold chunks. apply (Forall2_imp _ _ (parse_chunk_reindent cfg)).
    apply Forall2_filter_same; [|exact (chunk_lines_rel same_line same_line_blank _ _ HF)].
    intros x y Hxy. destruct Hxy; reflexivity.
Qed.

(* the whole text: changing the indentation of any lines (each to another NON-EMPTY run of
   blanks/TABs; lines that are not indented stay so) gives the same result *)
Theorem parse_journal_reindent cfg ls ls' :
  forallb no_nlb ls = true -> forallb no_nlb ls' = true -> Forall2 same_line ls ls' ->
  parse_journal cfg (unlines ls) = parse_journal cfg (unlines ls').
Proof.
  intros H1 H2 HF. rewrite (parse_journal_unlines cfg _ H1), (parse_journal_unlines cfg _ H2).
  apply parse_lines_reindent. clear - HF. induction HF; cbn [map]; constructor; [apply same_line_strip; assumption|assumption].
Qed.

(* ------------------------------------------------------------------ order of the metadata lines *)
(* a '#' line: sp1 '#' ..., well-formed metadata or not *)
Definition hash_line (l : list N) : Prop := parse_meta_line l <> None.

(* the metadata parser gives the same result — the same record and the same remaining lines, or the
   same rejection — for every arrangement of a block of '#' lines *)
Theorem parse_meta_perm ms ms' : Permutation ms ms' -> Forall hash_line ms ->
  forall rest u g t, parse_meta (ms ++ rest) u g t = parse_meta (ms' ++ rest) u g t.
Proof.
  induction 1 as [|x l l' HP IH|x y l|l l' l'' HP1 IH1 HP2 IH2]; intros HF rest u g t.
  - reflexivity.
  - inversion HF as [|? ? Hx Hl]; subst. unfold hash_line in Hx. cbn [app parse_meta].
    destruct (parse_meta_line x) as [[[v|v|v]|]|]; [destruct u|destruct g|destruct t| |];
      try reflexivity; try congruence; apply IH; exact Hl.
  - inversion HF as [|? ? Hy Hl]; subst. inversion Hl as [|? ? Hx Hl']; subst. unfold hash_line in Hx, Hy.
    cbn [app parse_meta].
    destruct (parse_meta_line x) as [[[v|v|v]|]|]; destruct (parse_meta_line y) as [[[w|w|w]|]|];
      try congruence; destruct u, g, t; reflexivity.
  - rewrite (IH1 HF). apply IH2. rewrite Forall_forall in *. intros z Hz. apply HF.
    exact (Permutation_in _ (Permutation_sym HP1) Hz).
Qed.

(* what the result is when the three kinds are all there: the record holds all three, whatever the order *)
Theorem parse_meta_three ms l1 l2 l3 vu vg vt rest : Permutation ms [l1; l2; l3] ->
  parse_meta_line l1 = Some (Some (M_uuid vu)) -> parse_meta_line l2 = Some (Some (M_loc vg)) ->
  parse_meta_line l3 = Some (Some (M_tags vt)) ->
  match rest with [] => True | l :: _ => parse_meta_line l = None end ->
  parse_meta (ms ++ rest) None None None = Some (Some vu, Some vg, Some vt, rest).
Proof.
  intros HP H1 H2 H3 Hr. rewrite (parse_meta_perm ms [l1; l2; l3] HP).
  - cbn [app parse_meta]. rewrite H1, H2, H3. destruct rest as [|l r]; [reflexivity|]. cbn [parse_meta]. rewrite Hr. reflexivity.
  - rewrite Forall_forall. intros z Hz. apply (Permutation_in _ HP) in Hz. unfold hash_line.
    destruct Hz as [<-|[<-|[<-|[]]]]; congruence.
Qed.

(* '#' lines are neither header, comment nor posting lines, and are not blank *)
Lemma span_cons_inv p l c a r : span p l = (c :: a, r) -> exists x, l = c :: x /\ p c = true.
Proof.
  destruct l as [|d l]; cbn [span]; [discriminate|]. destruct (p d) eqn:E; [|discriminate].
  destruct (span p l). intro H. injection H as <- <- <-. exists l. split; [reflexivity|exact E].
Qed.

Lemma hash_line_shape l : hash_line l -> exists s sp r1, span is_sp l = (s :: sp, 35%N :: r1).
Proof.
  unfold hash_line, parse_meta_line. destruct (span is_sp l) as [sp r]. destruct r as [|c r1]; [congruence|].
  destruct sp as [|s sp]; cbn [is_nil negb andb]; [congruence|]. destruct (N.eqb_spec c 35) as [->|]; [|congruence].
  intros _. exists s, sp, r1. reflexivity.
Qed.

Lemma hash_line_other l : hash_line l ->
  parse_comment_line l = None /\ parse_posting_line l = None /\ (forall cfg, parse_ts cfg l = None) /\ is_blank l = false.
Proof.
  intro H. destruct (hash_line_shape l H) as (s & sp & r1 & E). split; [|split; [|split]].
  - unfold parse_comment_line. rewrite E. reflexivity.
  - unfold parse_posting_line. rewrite E. cbn [is_nil].
    assert (En : take_name (35%N :: r1) = None) by (vm_compute; reflexivity). rewrite En. reflexivity.
  - intro cfg. destruct (span_cons_inv _ _ _ _ _ E) as (x & -> & Hs). apply parse_ts_sp. exact Hs.
  - destruct (is_blank l) eqn:Eb; [|reflexivity]. unfold is_blank in Eb. rewrite (span_all _ _ Eb) in E. discriminate.
Qed.

(* the body of a transaction after the header line *)
Definition cp_tail (ls : list (list N)) :=
  do (cs, b2) <- parse_comments ls; do (ps, la) <- parse_postings b2; Some (cs, ps, la).
Definition chunk_tail (body : list (list N)) u g t :=
  do (u', g', t', b1) <- parse_meta body u g t; do (cs, ps, la) <- cp_tail b1; Some (u', g', t', cs, ps, la).

Lemma parse_chunk_tail cfg hl body : parse_chunk cfg (hl :: body) =
  do (inst, off, r) <- parse_ts cfg hl;
  do (code, desc) <- parse_header_rest r;
  do (u, g, t, cs, ps, la) <- chunk_tail body None None None;
  if is_nil ps then None else
  Some (mkPTxn (mkHeader inst off code desc u g (match t with Some x => x | None => [] end) cs) ps la).
Proof.
  unfold parse_chunk, chunk_tail, cp_tail. destruct (parse_ts cfg hl) as [[[inst off] r]|]; [|reflexivity].
  destruct (parse_header_rest r) as [[code desc]|]; [|reflexivity].
  destruct (parse_meta body None None None) as [[[[u g] t] b1]|]; [|reflexivity].
  destruct (parse_comments b1) as [[cs b2]|]; [|reflexivity].
  destruct (parse_postings b2) as [[ps la]|]; reflexivity.
Qed.

Lemma postings_hash q m rest : hash_line m -> parse_postings (q ++ m :: rest) = None.
Proof.
  intro Hm. destruct (hash_line_other m Hm) as (_ & Hp & _). induction q as [|l q IH]; cbn [app parse_postings].
  - rewrite Hp. reflexivity.
  - destruct (parse_posting_line l) as [[rp c|a c]|]; [rewrite IH; reflexivity| |reflexivity].
    destruct (q ++ m :: rest) eqn:E; [destruct q; discriminate|reflexivity].
Qed.

Lemma cp_tail_hash q m rest : hash_line m -> cp_tail (q ++ m :: rest) = None.
Proof.
  intro Hm. destruct (hash_line_other m Hm) as (Hc & _). unfold cp_tail. induction q as [|l q IH]; cbn [app parse_comments].
  - rewrite Hc. exact (f_equal (fun o => do (ps, la) <- o; Some ([], ps, la)) (postings_hash [] m rest Hm)).
  - destruct (parse_comment_line l) as [[c|]|]; [| reflexivity|].
    + destruct (parse_comments (q ++ m :: rest)) as [[cs b2]|]; [|reflexivity].
      destruct (parse_postings b2) as [[ps la]|]; [discriminate IH|reflexivity].
    + change (l :: q ++ m :: rest) with ((l :: q) ++ m :: rest). rewrite (postings_hash (l :: q) m rest Hm). reflexivity.
Qed.

Lemma chunk_tail_perm p ms ms' rest : Permutation ms ms' -> Forall hash_line ms ->
  forall u g t, chunk_tail (p ++ ms ++ rest) u g t = chunk_tail (p ++ ms' ++ rest) u g t.
Proof.
  intros HP HF. destruct ms as [|m ms1]; [apply Permutation_nil in HP; subst; reflexivity|].
  destruct ms' as [|m' ms1']; [apply Permutation_sym, Permutation_nil in HP; discriminate|].
  assert (Hm : hash_line m) by (inversion HF; assumption).
  assert (Hm' : hash_line m').
  { rewrite Forall_forall in HF. apply HF. apply (Permutation_in _ (Permutation_sym HP)). left. reflexivity. }
  induction p as [|l p IH]; intros u g t.
  - unfold chunk_tail. cbn [app]. change (m :: ms1 ++ rest) with ((m :: ms1) ++ rest).
    rewrite (parse_meta_perm _ _ HP HF). reflexivity.
  - unfold chunk_tail in *. cbn [app parse_meta]. destruct (parse_meta_line l) as [[[v|v|v]|]|].
    + destruct u; [reflexivity|apply IH].
    + destruct g; [reflexivity|apply IH].
    + destruct t; [reflexivity|apply IH].
    + reflexivity.
    + cbn [app]. change (l :: p ++ m :: ms1 ++ rest) with ((l :: p) ++ m :: ms1 ++ rest).
      change (l :: p ++ m' :: ms1' ++ rest) with ((l :: p) ++ m' :: ms1' ++ rest).
      rewrite (cp_tail_hash _ m _ Hm), (cp_tail_hash _ m' _ Hm'). reflexivity.
Qed.

(* a chunk with a block of '#' lines ANYWHERE in it: every arrangement of the block gives the same
   transaction or the same rejection (directly after the header line the block is the metadata) *)
Theorem parse_chunk_meta_perm cfg p ms ms' rest : Permutation ms ms' -> Forall hash_line ms ->
  parse_chunk cfg (p ++ ms ++ rest) = parse_chunk cfg (p ++ ms' ++ rest).
Proof.
  intros HP HF. destruct p as [|hl p].
  - destruct ms as [|m ms1]; [apply Permutation_nil in HP; subst; reflexivity|].
    destruct ms' as [|m' ms1']; [apply Permutation_sym, Permutation_nil in HP; discriminate|].
    assert (Hm : hash_line m) by (inversion HF; assumption).
    assert (Hm' : hash_line m').
    { rewrite Forall_forall in HF. apply HF. apply (Permutation_in _ (Permutation_sym HP)). left. reflexivity. }
    destruct (hash_line_other m Hm) as (_ & _ & T & _). destruct (hash_line_other m' Hm') as (_ & _ & T' & _).
    cbn [app]. unfold parse_chunk. rewrite T, T'. reflexivity.
  - cbn [app]. rewrite !parse_chunk_tail. rewrite (chunk_tail_perm p ms ms' rest HP HF). reflexivity.
Qed.

Corollary parse_chunk_meta_order cfg hl ms ms' rest : Permutation ms ms' -> Forall hash_line ms ->
  parse_chunk cfg (hl :: ms ++ rest) = parse_chunk cfg (hl :: ms' ++ rest).
Proof. exact (parse_chunk_meta_perm cfg [hl] ms ms' rest). Qed.

(* the six orders of three lines and the two orders of a pair, spelled out *)
Corollary parse_meta_order3 l1 l2 l3 rest u g t : hash_line l1 -> hash_line l2 -> hash_line l3 ->
  let r := parse_meta (l1 :: l2 :: l3 :: rest) u g t in
  parse_meta (l1 :: l3 :: l2 :: rest) u g t = r /\ parse_meta (l2 :: l1 :: l3 :: rest) u g t = r
  /\ parse_meta (l2 :: l3 :: l1 :: rest) u g t = r /\ parse_meta (l3 :: l1 :: l2 :: rest) u g t = r
  /\ parse_meta (l3 :: l2 :: l1 :: rest) u g t = r.
Proof.
  intros H1 H2 H3 r. subst r.
  assert (P : forall ms, Permutation ms [l1; l2; l3] ->
              parse_meta (ms ++ rest) u g t = parse_meta ([l1; l2; l3] ++ rest) u g t).
  { intros ms HP. apply parse_meta_perm; [exact HP|]. rewrite Forall_forall. intros z Hz.
    apply (Permutation_in _ HP) in Hz. destruct Hz as [<-|[<-|[<-|[]]]]; assumption. }
  repeat split.
  - apply (P [l1; l3; l2]). apply perm_skip, perm_swap.
  - apply (P [l2; l1; l3]). apply perm_swap.
  - apply (P [l2; l3; l1]). apply Permutation_sym. apply (Permutation_cons_app [l2; l3] [] l1). reflexivity.
  - apply (P [l3; l1; l2]). apply (Permutation_cons_app [l1; l2] [] l3). reflexivity.
  - apply (P [l3; l2; l1]). change [l3; l2; l1] with (rev [l1; l2; l3]). apply Permutation_sym, Permutation_rev.
Qed.

Corollary parse_meta_order2 l1 l2 rest u g t : hash_line l1 -> hash_line l2 ->
  parse_meta (l2 :: l1 :: rest) u g t = parse_meta (l1 :: l2 :: rest) u g t.
Proof.
  intros H1 H2. apply (parse_meta_perm [l2; l1] [l1; l2]); [apply perm_swap|]. constructor; [exact H2|constructor; [exact H1|constructor]].
Qed.

(* ------------------------------------------------------------------ ... lifted to the text *)
Fixpoint chunk_onto (pre : list (list N)) (cs : list (list (list N))) : list (list (list N)) :=
  match pre with
  | [] => cs
  | l :: r => let cs' := chunk_onto r cs in
              if is_blank l then [] :: cs'
              else match cs' with c :: cs'' => (l :: c) :: cs'' | [] => [[l]] end
  end.
Lemma chunk_lines_onto pre X : chunk_lines (pre ++ X) = chunk_onto pre (chunk_lines X).
Proof. induction pre as [|l r IH]; [reflexivity|]. cbn [app chunk_lines chunk_onto]. rewrite IH. reflexivity. Qed.

Lemma chunk_lines_nonblank_app ms post : forallb nonblank ms = true ->
  exists c0 cs, chunk_lines post = c0 :: cs /\ chunk_lines (ms ++ post) = (ms ++ c0) :: cs.
Proof.
  induction ms as [|m ms IH]; cbn [forallb app]; intro H.
  - destruct (chunk_lines post) as [|c0 cs] eqn:E; [exfalso; exact (chunk_lines_nonnil post E)|]. exists c0, cs. split; reflexivity.
  - apply andb_true_iff in H as [Hm Hms]. apply negb_true_iff in Hm. destruct (IH Hms) as (c0 & cs & E1 & E2).
    exists c0, cs. split; [exact E1|]. cbn [chunk_lines]. rewrite Hm, E2. reflexivity.
Qed.

Lemma chunk_onto_rel (Rc : list (list N) -> list (list N) -> Prop) :
  (forall c, Rc c c) -> (forall l c c', Rc c c' -> Rc (l :: c) (l :: c')) ->
  forall pre cs cs', Forall2 Rc cs cs' -> Forall2 Rc (chunk_onto pre cs) (chunk_onto pre cs').
Proof.
  intros Hrefl Hcons pre cs cs' HF. induction pre as [|l r IH]; [exact HF|]. cbn [chunk_onto].
  destruct (is_blank l); [constructor; [apply Hrefl|exact IH]|].
  destruct IH as [|c c' x x' Hc Hx]; [constructor; [apply Hrefl|constructor]|]. constructor; [apply Hcons; exact Hc|exact Hx].
Qed.

Lemma existsb_perm {A} (f : A -> bool) l l' : Permutation l l' -> existsb f l = existsb f l'.
Proof.
  induction 1 as [|x l l' _ IH|x y l|l l' l'' _ IH1 _ IH2]; cbn [existsb]; [reflexivity|rewrite IH; reflexivity| |congruence].
  destruct (f x), (f y); reflexivity.
Qed.
Lemma forallb_perm {A} (f : A -> bool) l l' : Permutation l l' -> forallb f l = forallb f l'.
Proof.
  induction 1 as [|x l l' _ IH|x y l|l l' l'' _ IH1 _ IH2]; cbn [forallb]; [reflexivity|rewrite IH; reflexivity| |congruence].
  destruct (f x), (f y); reflexivity.
Qed.

Theorem parse_lines_meta_order cfg pre ms ms' post : Permutation ms ms' -> Forall hash_line ms ->
  parse_lines cfg (pre ++ ms ++ post) = parse_lines cfg (pre ++ ms' ++ post).
Proof.
  intros HP HF. destruct ms as [|m ms1]; [apply Permutation_nil in HP; subst; reflexivity|].
  destruct ms' as [|m' ms1']; [apply Permutation_sym, Permutation_nil in HP; discriminate|].
  assert (HF' : Forall hash_line (m' :: ms1')).
  { rewrite Forall_forall in *. intros z Hz. apply HF. exact (Permutation_in _ (Permutation_sym HP) Hz). }
  assert (NB : forall l, Forall hash_line l -> forallb nonblank l = true).
  { intros l Hl. apply forallb_forall. intros z Hz. rewrite Forall_forall in Hl. unfold nonblank.
    destruct (hash_line_other z (Hl z Hz)) as (_ & _ & _ & ->). reflexivity. }
  apply parse_lines_cong.
  - rewrite !existsb_app. rewrite (existsb_perm _ _ _ HP). reflexivity.
  - unfold chunks. rewrite (chunk_lines_onto pre ((m :: ms1) ++ post)), (chunk_lines_onto pre ((m' :: ms1') ++ post)).
    destruct (chunk_lines_nonblank_app _ post (NB _ HF)) as (c0 & cs & E1 & E2).
    destruct (chunk_lines_nonblank_app _ post (NB _ HF')) as (c0' & cs' & E1' & E2').
    rewrite E1 in E1'. injection E1' as <- <-. rewrite E2, E2'.
    set (Rc := fun c c' : list (list N) => c = c' \/ exists p, c = p ++ (m :: ms1) ++ c0 /\ c' = p ++ (m' :: ms1') ++ c0).
    apply (Forall2_imp Rc).
    + intros c c' [<-|(p & -> & ->)]; [reflexivity|]. apply parse_chunk_meta_perm; assumption.
    + apply Forall2_filter_same.
      * intros c c' [<-|(p & -> & ->)]; [reflexivity|]. destruct p; reflexivity.
      * apply chunk_onto_rel.
        -- intro c. left. reflexivity.
        -- intros l c c' [<-|(p & -> & ->)]; [left; reflexivity|]. right. exists (l :: p). split; reflexivity.
        -- constructor; [right; exists []; split; reflexivity|].
           clear. induction cs; constructor; [left; reflexivity|assumption].
Qed.

(* the whole text: any arrangement of a block of consecutive '#' lines gives the same result *)
Theorem parse_journal_meta_order cfg pre ms ms' post :
  forallb no_nlb (pre ++ ms ++ post) = true -> Permutation ms ms' -> Forall (fun l => hash_line (strip_cr l)) ms ->
  parse_journal cfg (unlines (pre ++ ms ++ post)) = parse_journal cfg (unlines (pre ++ ms' ++ post)).
Proof.
  intros Hnl HP HF.
  assert (Hnl' : forallb no_nlb (pre ++ ms' ++ post) = true).
  { rewrite !forallb_app in *. rewrite <- (forallb_perm _ _ _ HP). exact Hnl. }
  rewrite (parse_journal_unlines cfg _ Hnl), (parse_journal_unlines cfg _ Hnl'). rewrite !map_app.
  apply parse_lines_meta_order; [apply Permutation_map; exact HP|].
  clear - HF. induction HF; cbn [map]; constructor; assumption.
Qed.

(* ================================================================== PART 4: the statements of props/C15.v, props/C04.v *)
Lemma Forall_forallb {A} (f : A -> bool) l : Forall (fun x => f x = true) l -> forallb f l = true.
Proof. intro H. apply forallb_forall. rewrite Forall_forall in H. exact H. Qed.

Theorem no_partial_consumption cfg s pts : parse_journal cfg s = Ok pts ->
  exists ls0, split_lines s = (ls0, []) /\ s = unlines ls0
  /\ (let ls := map strip_cr ls0 in
      existsb (existsb (fun c => (c =? 13)%N)) ls = false
      /\ concat (chunks ls) = filter (fun l => negb (is_blank l)) ls
      /\ Forall (fun c => c <> [] /\ forallb (fun l => negb (is_blank l)) c = true) (chunks ls)
      /\ (forall c, In c (chunks ls) -> exists pre post, ls = pre ++ c ++ post
            /\ (pre = [] \/ exists p b, pre = p ++ [b] /\ is_blank b = true)
            /\ (post = [] \/ exists b q, post = b :: q /\ is_blank b = true))
      /\ Forall2 (fun c pt => parse_chunk cfg c = Some pt) (chunks ls) pts)
  /\ pts <> [].
Proof.
  intro H. apply parse_journal_ok_iff in H as (Htl & Hcr & HF & Hne). unfold text_lines in *.
  destruct (split_lines s) as [ls0 tl] eqn:Es. cbn [fst snd] in *. subst tl. exists ls0.
  split; [reflexivity|]. split; [destruct (split_lines_inv s _ _ Es) as (E & _); rewrite app_nil_r in E; exact E|].
  split; [|exact Hne]. cbv zeta. split; [exact Hcr|]. split; [apply chunks_concat|]. split; [apply chunks_wf|].
  split; [intros c Hc; exact (chunks_maximal _ c Hc)|exact HF].
Qed.

Theorem incomplete_rejected cfg s ls0 tl c : split_lines s = (ls0, tl) ->
  In c (chunks (map strip_cr ls0)) -> parse_chunk cfg c = None -> parse_journal cfg s = Err E_syntax.
Proof. intros Es Hin Hc. apply (parse_journal_bad_chunk cfg s c); [unfold text_lines; rewrite Es; exact Hin|exact Hc]. Qed.

Theorem insert_blanks_chunks a blanks b : Forall (fun l => is_blank l = true) blanks ->
  (a = [] \/ b = [] \/ (exists p x, a = p ++ [x] /\ is_blank x = true) \/ (exists x q, b = x :: q /\ is_blank x = true)) ->
  chunks (a ++ blanks ++ b) = chunks (a ++ b).
Proof. intros H Hb. apply chunks_insert_blanks; [exact (Forall_forallb _ _ H)|exact Hb]. Qed.

Theorem blank_run_chunks a blanks1 blanks2 b : blanks1 <> [] -> blanks2 <> [] ->
  Forall (fun l => is_blank l = true) blanks1 -> Forall (fun l => is_blank l = true) blanks2 ->
  chunks (a ++ blanks1 ++ b) = chunks (a ++ blanks2 ++ b).
Proof. intros N1 N2 H1 H2. apply chunks_blank_run_any; try assumption; apply Forall_forallb; assumption. Qed.

Theorem reindent_lines sp1 sp2 r : sp1 <> [] -> sp2 <> [] -> forallb is_sp sp1 = true -> forallb is_sp sp2 = true ->
  parse_posting_line (sp1 ++ r) = parse_posting_line (sp2 ++ r)
  /\ parse_meta_line (sp1 ++ r) = parse_meta_line (sp2 ++ r)
  /\ parse_comment_line (sp1 ++ r) = parse_comment_line (sp2 ++ r).
Proof.
  intros N1 N2 H1 H2. assert (I1 : indent_ok sp1) by (split; assumption). assert (I2 : indent_ok sp2) by (split; assumption).
  split; [apply posting_line_reindent|split; [apply meta_line_reindent|apply comment_line_reindent]]; assumption.
Qed.
