(* Sha256_proofs.v — facts about the SHA-256 model (coq/model/Sha256.v), extension T09:
   words are taken mod 2^32, the digest always has 32 bytes below 256 and its text 64 lower-case
   hexadecimal digits, the padding function meets its specification (FIPS 180-4 5.1.1) and can be
   read back, the padded text is consumed block by block (no partial block), and the published test
   vectors (evaluated with vm_compute).  Stdlib only. *)
From Coq Require Import List NArith Arith Lia.
Import ListNotations.
From TkModel Require Import Sha256.
Local Open Scope N_scope.

(* ------------------------------------------------------------------ words and bytes *)
Lemma sha_w32_mod x : w32 x = x mod 2 ^ 32.
Proof. unfold w32. change mask32 with (N.ones 32). apply N.land_ones. Qed.

Lemma sha_w32_lt x : w32 x < 2 ^ 32.
Proof. rewrite sha_w32_mod. apply N.mod_lt. discriminate. Qed.

Lemma sha_add32_mod a b : add32 a b = (a + b) mod 2 ^ 32.
Proof. apply sha_w32_mod. Qed.

Lemma sha_byte_of_spec x s : byte_of x s = (x / 2 ^ s) mod 256.
Proof.
  unfold byte_of. change 255 with (N.ones 8). rewrite N.land_ones, N.shiftr_div_pow2. reflexivity.
Qed.

Lemma sha_byte_of_lt x s : byte_of x s < 256.
Proof. rewrite sha_byte_of_spec. apply N.mod_lt. discriminate. Qed.

(* ------------------------------------------------------------------ T09_length *)
Lemma sha_st_bytes_length s : length (st_bytes s) = 32%nat.
Proof. reflexivity. Qed.

Lemma sha_st_bytes_bytes s : Forall (fun b => b < 256) (st_bytes s).
Proof.
  unfold st_bytes, word_bytes. cbn [app].
  repeat (apply Forall_cons; [apply sha_byte_of_lt|]). apply Forall_nil.
Qed.

Lemma sha256_length m : length (sha256 m) = 32%nat /\ Forall (fun b => b < 256) (sha256 m).
Proof. unfold sha256. split; [apply sha_st_bytes_length|apply sha_st_bytes_bytes]. Qed.

(* ------------------------------------------------------------------ T09_hex_length *)
Definition lower_hex (c : N) : Prop := (48 <= c <= 57) \/ (97 <= c <= 102).

Lemma sha_hex_digit_lc v : v < 16 -> lower_hex (hex_digit_lc v).
Proof.
  intros Hv. unfold hex_digit_lc, lower_hex. destruct (N.ltb_spec v 10); lia.
Qed.

Lemma sha_hex_of_bytes_length d : length (hex_of_bytes d) = (2 * length d)%nat.
Proof.
  unfold hex_of_bytes. induction d as [|b d IH]; [reflexivity|].
  cbn [flat_map hex_of_byte app length]. rewrite IH. lia.
Qed.

Lemma sha_hex_of_bytes_digits d : Forall (fun b => b < 256) d -> Forall lower_hex (hex_of_bytes d).
Proof.
  unfold hex_of_bytes. induction 1 as [|b d Hb _ IH]; [apply Forall_nil|].
  cbn [flat_map hex_of_byte app].
  apply Forall_cons.
  - apply sha_hex_digit_lc. apply N.div_lt_upper_bound; [discriminate|exact Hb].
  - apply Forall_cons; [|exact IH]. apply sha_hex_digit_lc. apply N.mod_lt. discriminate.
Qed.

Lemma sha256_hex_length m : length (sha256_hex m) = 64%nat /\ Forall lower_hex (sha256_hex m).
Proof.
  unfold sha256_hex. destruct (sha256_length m) as [Hl Hb]. split.
  - rewrite sha_hex_of_bytes_length, Hl. reflexivity.
  - apply sha_hex_of_bytes_digits. exact Hb.
Qed.

(* a lower-case hexadecimal digit is neither a newline nor a blank (used for the metadata block) *)
Lemma sha_lower_hex_plain c : lower_hex c -> c <> 10 /\ c <> 13 /\ c <> 32.
Proof. unfold lower_hex. lia. Qed.

(* ------------------------------------------------------------------ padding *)
(* the specification of 5.1.1 for byte strings: the message, the byte 0x80, k zero bytes with k the
   smallest number for which the total length is a multiple of 64, and the bit length as 8 bytes *)
Definition is_padding (m p : list N) : Prop :=
  exists k : nat, (k < 64)%nat /\
    p = m ++ 128 :: repeat 0 k ++ be64 (8 * N.of_nat (length m)) /\
    exists n : nat, length p = (64 * n)%nat.

Lemma sha_pad_arith x : (x + (64 - x mod 64) mod 64) mod 64 = 0.
Proof.
  pose proof (N.mod_lt x 64 ltac:(discriminate)) as Hr.
  pose proof (N.div_mod x 64 ltac:(discriminate)) as Hd.
  remember (x mod 64) as r eqn:Er. remember (x / 64) as q eqn:Eq.
  destruct (N.eq_dec r 0) as [E|E].
  - rewrite E. change ((64 - 0) mod 64) with 0. rewrite N.add_0_r, <- Er. exact E.
  - assert (H1 : 64 - r < 64) by lia. rewrite (N.mod_small _ _ H1).
    assert (H2 : x + (64 - r) = (q + 1) * 64) by lia. rewrite H2.
    apply N.mod_mul. discriminate.
Qed.

Lemma sha_pad_zeros_lt l : pad_zeros l < 64.
Proof. unfold pad_zeros. apply N.mod_lt. discriminate. Qed.

Lemma sha_be64_length x : length (be64 x) = 8%nat.
Proof. reflexivity. Qed.

Lemma sha_pad_length m :
  N.of_nat (length (sha_pad m)) = N.of_nat (length m) + 9 + pad_zeros (N.of_nat (length m)).
Proof.
  unfold sha_pad. rewrite app_length. cbn [length]. rewrite app_length, repeat_length, sha_be64_length.
  lia.
Qed.

Lemma sha_pad_multiple m : exists n : nat, length (sha_pad m) = (64 * n)%nat.
Proof.
  pose proof (sha_pad_length m) as HL.
  set (l := N.of_nat (length m)) in *.
  pose proof (sha_pad_arith (l + 9)) as HA. fold (pad_zeros l) in HA.
  pose proof (N.div_mod (l + 9 + pad_zeros l) 64 ltac:(discriminate)) as HD.
  rewrite HA, N.add_0_r in HD.
  remember ((l + 9 + pad_zeros l) / 64) as q eqn:Eq. remember (pad_zeros l) as z eqn:Ez.
  exists (N.to_nat q). lia.
Qed.

Lemma sha_pad_is_padding m : is_padding m (sha_pad m).
Proof.
  exists (N.to_nat (pad_zeros (N.of_nat (length m)))). split; [|split].
  - pose proof (sha_pad_zeros_lt (N.of_nat (length m))). lia.
  - reflexivity.
  - apply sha_pad_multiple.
Qed.

(* the specification determines the padded text: k < 64 and "multiple of 64" leave one choice *)
Lemma sha_padding_unique m p : is_padding m p -> p = sha_pad m.
Proof.
  intros (k & Hk & -> & n & Hn). unfold sha_pad.
  destruct (sha_pad_multiple m) as (n' & Hn'). unfold sha_pad in Hn'.
  pose proof (sha_pad_zeros_lt (N.of_nat (length m))) as Hz.
  set (k' := N.to_nat (pad_zeros (N.of_nat (length m)))) in *.
  rewrite app_length in Hn, Hn'. cbn [length] in Hn, Hn'.
  rewrite app_length, repeat_length, sha_be64_length in Hn, Hn'.
  assert (k = k') as -> by lia. reflexivity.
Qed.

(* reading back *)
Lemma sha_strip_zeros z r : Forall (fun x => x = 0) z -> strip_zeros_rev (z ++ 128 :: r) = Some r.
Proof.
  induction 1 as [|x z Hx _ IH]; cbn [app strip_zeros_rev].
  - reflexivity.
  - rewrite Hx. cbn [N.eqb]. exact IH.
Qed.

Lemma sha_skipn_app_len {A} (a b : list A) n : length a = n -> skipn n (a ++ b) = b.
Proof. intros <-. rewrite skipn_app, skipn_all, Nat.sub_diag. reflexivity. Qed.

Lemma sha_firstn_app_len {A} (a b : list A) n : length a = n -> firstn n (a ++ b) = a.
Proof. intros <-. rewrite firstn_app, firstn_all, Nat.sub_diag. cbn [firstn]. apply app_nil_r. Qed.

Lemma sha_rev_pad m k x :
  rev (m ++ 128 :: repeat 0 k ++ be64 x) = rev (be64 x) ++ (rev (repeat 0 k) ++ 128 :: rev m).
Proof.
  rewrite rev_app_distr. cbn [rev]. rewrite rev_app_distr, <- !app_assoc. reflexivity.
Qed.

Lemma sha_unpad_padding m p : is_padding m p -> unpad p = Some m.
Proof.
  intros (k & _ & -> & _). unfold unpad. rewrite sha_rev_pad.
  rewrite sha_skipn_app_len by (rewrite rev_length; reflexivity).
  rewrite sha_strip_zeros.
  - rewrite rev_involutive. reflexivity.
  - apply Forall_rev. apply Forall_forall. intros y Hy. apply repeat_spec in Hy. exact Hy.
Qed.

Lemma sha_unpad_pad m : unpad (sha_pad m) = Some m.
Proof. apply sha_unpad_padding, sha_pad_is_padding. Qed.

Lemma sha_pad_injective a b : sha_pad a = sha_pad b -> a = b.
Proof.
  intros E. pose proof (sha_unpad_pad a) as Ha. rewrite E, sha_unpad_pad in Ha. congruence.
Qed.

(* the length field *)
Lemma sha_mod_split x M : M <> 0 -> x mod (M * 256) = x mod M + M * ((x / M) mod 256).
Proof. intros HM. apply N.mod_mul_r; [exact HM|discriminate]. Qed.

Lemma sha_be64_value x : be_value (be64 x) = x mod 2 ^ 64.
Proof.
  unfold be64, be_value. cbn [fold_left]. rewrite !sha_byte_of_spec.
  pose proof (sha_mod_split x (2 ^ 56) ltac:(discriminate)) as E7.
  pose proof (sha_mod_split x (2 ^ 48) ltac:(discriminate)) as E6.
  pose proof (sha_mod_split x (2 ^ 40) ltac:(discriminate)) as E5.
  pose proof (sha_mod_split x (2 ^ 32) ltac:(discriminate)) as E4.
  pose proof (sha_mod_split x (2 ^ 24) ltac:(discriminate)) as E3.
  pose proof (sha_mod_split x (2 ^ 16) ltac:(discriminate)) as E2.
  pose proof (sha_mod_split x (2 ^ 8) ltac:(discriminate)) as E1.
  pose proof (sha_mod_split x (2 ^ 0) ltac:(discriminate)) as E0.
  change (2 ^ 56 * 256) with (2 ^ 64) in E7. change (2 ^ 48 * 256) with (2 ^ 56) in E6.
  change (2 ^ 40 * 256) with (2 ^ 48) in E5. change (2 ^ 32 * 256) with (2 ^ 40) in E4.
  change (2 ^ 24 * 256) with (2 ^ 32) in E3. change (2 ^ 16 * 256) with (2 ^ 24) in E2.
  change (2 ^ 8 * 256) with (2 ^ 16) in E1. change (2 ^ 0 * 256) with (2 ^ 8) in E0.
  rewrite (N.mod_1_r x : x mod 2 ^ 0 = 0) in E0.
  rewrite E7, E6, E5, E4, E3, E2, E1, E0.
  change (2 ^ 56) with 72057594037927936. change (2 ^ 48) with 281474976710656.
  change (2 ^ 40) with 1099511627776. change (2 ^ 32) with 4294967296.
  change (2 ^ 24) with 16777216. change (2 ^ 16) with 65536. change (2 ^ 8) with 256.
  change (2 ^ 0) with 1. lia.
Qed.

Lemma sha_pad_bitlen_padding m p :
  is_padding m p -> pad_bitlen p = (8 * N.of_nat (length m)) mod 2 ^ 64.
Proof.
  intros (k & _ & -> & _). unfold pad_bitlen. rewrite sha_rev_pad.
  rewrite sha_firstn_app_len by (rewrite rev_length; reflexivity).
  rewrite rev_involutive. apply sha_be64_value.
Qed.

(* T09_padding_spec *)
Lemma sha_pad_spec m :
  is_padding m (sha_pad m) /\ unpad (sha_pad m) = Some m /\
  pad_bitlen (sha_pad m) = (8 * N.of_nat (length m)) mod 2 ^ 64.
Proof.
  split; [apply sha_pad_is_padding|]. split; [apply sha_unpad_pad|].
  apply sha_pad_bitlen_padding, sha_pad_is_padding.
Qed.

(* ------------------------------------------------------------------ blocks *)
Lemma sha_hash_words_block h blk r :
  length blk = 16%nat -> hash_words h (blk ++ r) = hash_words (compress h blk) r.
Proof.
  intros HL. do 16 (destruct blk as [|? blk]; [discriminate HL|]).
  destruct blk; [|discriminate HL]. reflexivity.
Qed.

Lemma sha_words_length n : forall l, length l = (4 * n)%nat -> length (words_of_bytes l) = n.
Proof.
  induction n as [|n IH]; intros l HL.
  - destruct l; [reflexivity|discriminate HL].
  - do 4 (destruct l as [|? l]; [cbn [length] in HL; lia|]).
    cbn [words_of_bytes length]. f_equal. apply IH. cbn [length] in HL. lia.
Qed.

(* a word list of 16 n words is a sequence of n blocks, and hash_words is the iteration of the
   compression function over them (6.2.2: H(i) from H(i-1) and block i) *)
Lemma sha_hash_words_blocks n : forall ws h,
  length ws = (16 * n)%nat ->
  exists blocks, length blocks = n /\ Forall (fun b => length b = 16%nat) blocks /\
                 concat blocks = ws /\ hash_words h ws = fold_left compress blocks h.
Proof.
  induction n as [|n IH]; intros ws h HL.
  - destruct ws; [|discriminate HL]. exists []. repeat split. apply Forall_nil.
  - assert (H16 : length (firstn 16 ws) = 16%nat) by (rewrite firstn_length; lia).
    assert (Hr : length (skipn 16 ws) = (16 * n)%nat) by (rewrite skipn_length; lia).
    destruct (IH (skipn 16 ws) (compress h (firstn 16 ws)) Hr) as (bs & Hn & Hf & Hc & Hh).
    exists (firstn 16 ws :: bs). split; [cbn [length]; lia|]. split; [apply Forall_cons; assumption|].
    split.
    + cbn [concat]. rewrite Hc. apply firstn_skipn.
    + rewrite <- (firstn_skipn 16 ws) at 1. rewrite (sha_hash_words_block _ _ _ H16), Hh. reflexivity.
Qed.

Lemma sha256_blocks m :
  exists blocks, (4 * 16 * length blocks)%nat = length (sha_pad m) /\
                 Forall (fun b => length b = 16%nat) blocks /\
                 concat blocks = words_of_bytes (sha_pad m) /\
                 sha256 m = st_bytes (fold_left compress blocks H0).
Proof.
  destruct (sha_pad_multiple m) as (n & Hn).
  assert (HW : length (words_of_bytes (sha_pad m)) = (16 * n)%nat) by (apply sha_words_length; lia).
  destruct (sha_hash_words_blocks n _ H0 HW) as (bs & Hl & Hf & Hc & Hh).
  exists bs. split; [lia|]. split; [exact Hf|]. split; [exact Hc|].
  unfold sha256. rewrite Hh. reflexivity.
Qed.

(* ------------------------------------------------------------------ test vectors (vm_compute) *)
(* FIPS 180-2 appendix B.1 / NIST example values: "" , "abc", the 448-bit and the 896-bit message *)
Definition sha_msg_abc : list N := [97; 98; 99].
(* "abcdbcdecdefdefgefghfghighijhijkijkljklmklmnlmnomnopnopq" *)
Definition sha_msg_448 : list N :=
  [97;98;99;100; 98;99;100;101; 99;100;101;102; 100;101;102;103; 101;102;103;104; 102;103;104;105;
   103;104;105;106; 104;105;106;107; 105;106;107;108; 106;107;108;109; 107;108;109;110; 108;109;110;111;
   109;110;111;112; 110;111;112;113].
(* "abcdefghbcdefghicdefghijdefghijkefghijklfghijklmghijklmnhijklmnoijklmnopjklmnopqklmnopqrlmnopqrsmnopqrstnopqrstu" *)
Definition sha_msg_896 : list N :=
  [97;98;99;100;101;102;103;104; 98;99;100;101;102;103;104;105; 99;100;101;102;103;104;105;106;
   100;101;102;103;104;105;106;107; 101;102;103;104;105;106;107;108; 102;103;104;105;106;107;108;109;
   103;104;105;106;107;108;109;110; 104;105;106;107;108;109;110;111; 105;106;107;108;109;110;111;112;
   106;107;108;109;110;111;112;113; 107;108;109;110;111;112;113;114; 108;109;110;111;112;113;114;115;
   109;110;111;112;113;114;115;116; 110;111;112;113;114;115;116;117].
(* 1000 bytes: byte i = (i * i + 7 * i + 3) mod 256, i = 0 .. 999 (every byte value class, 16 blocks) *)
Fixpoint sha_count_up (n : nat) (i : N) : list N :=
  match n with O => [] | S n' => i :: sha_count_up n' (i + 1) end.
Definition sha_msg_1000 : list N := map (fun i => (i * i + 7 * i + 3) mod 256) (sha_count_up 1000 0).

(* the text of a hexadecimal digest written as a number list: helper to keep the vectors readable *)
Definition sha_hex_words (ws : list N) : list N :=
  hex_of_bytes (flat_map word_bytes ws).

Lemma sha_vec_empty :
  sha256_hex [] = sha_hex_words [0xe3b0c442; 0x98fc1c14; 0x9afbf4c8; 0x996fb924; 0x27ae41e4; 0x649b934c; 0xa495991b; 0x7852b855].
Proof. vm_compute. reflexivity. Qed.

Lemma sha_vec_abc :
  sha256_hex sha_msg_abc = sha_hex_words [0xba7816bf; 0x8f01cfea; 0x414140de; 0x5dae2223; 0xb00361a3; 0x96177a9c; 0xb410ff61; 0xf20015ad].
Proof. vm_compute. reflexivity. Qed.

Lemma sha_vec_448 :
  sha256_hex sha_msg_448 = sha_hex_words [0x248d6a61; 0xd20638b8; 0xe5c02693; 0x0c3e6039; 0xa33ce459; 0x64ff2167; 0xf6ecedd4; 0x19db06c1].
Proof. vm_compute. reflexivity. Qed.

Lemma sha_vec_896 :
  sha256_hex sha_msg_896 = sha_hex_words [0xcf5b16a7; 0x78af8380; 0x036ce59e; 0x7b049237; 0x0b249b11; 0xe8f07a51; 0xafac4503; 0x7afee9d1].
Proof. vm_compute. reflexivity. Qed.

Lemma sha_vec_1000 :
  length sha_msg_1000 = 1000%nat /\
  sha256_hex sha_msg_1000 = sha_hex_words [0xe17dd9ac; 0xeb76adb4; 0xc809f163; 0x3899573b; 0x30da57a8; 0x6ffaa922; 0x15dabbc8; 0x11666b1d].
Proof. split; vm_compute; reflexivity. Qed.
