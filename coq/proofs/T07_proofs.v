(* T07_proofs.v — lemmas for coq/props/T07.v: directory input (C04 / C15 composed), strict mode (C12 composed),
   pattern selectors (C11 / C03 composed), and the coincidence of T07_run with T06_run on the old fragment. *)
From Coq Require Import List ZArith NArith Bool Arith Lia Permutation Sorted.
From TkModel Require Import Base Dec Acct Txn Accept Journal Balance Register Round Price Time Group.
From TkModel Require Import ReportText T05_report PriceText Regex T06_run T07_run.
From TkModel Require Filter Equity EquityText MetaText Audit Codec Tstamp Store Load Charts Select.
From TkSpec Require Import Balance_spec Register_spec Regex_spec Charts_spec T07_spec.
From TkSpec Require Store_spec.
From TkProofs Require Import Base_proofs Order_proofs Load_proofs EquityText_proofs Regex_proofs Register_proofs Charts_proofs T06_proofs.
From TkProofs Require Store_proofs.
Import ListNotations.
Local Open Scope Z_scope.

(* ================================================================== generic *)
Lemma mapM_err_inv {A B} (f : A -> res B) : forall l c, mapM f l = Err c -> exists x c', In x l /\ f x = Err c'.
Proof.
  induction l as [|x l IH]; intros c H; cbn [mapM] in H; [discriminate|].
  destruct (f x) as [y|c0] eqn:E.
  - destruct (mapM f l) as [ys|c1] eqn:E2; [discriminate|].
    destruct (IH _ eq_refl) as (z & c' & Hin & Hz). exists z, c'. split; [right; exact Hin|exact Hz].
  - exists x, c0. split; [left; reflexivity|exact E].
Qed.

Lemma mapM_perm {A B} (f : A -> res B) : forall l l', Permutation l l' ->
  forall ys, mapM f l = Ok ys -> exists ys', mapM f l' = Ok ys' /\ Permutation ys ys'.
Proof.
  induction 1 as [|x l l' _ IH|x y l|l l' l'' _ IH1 _ IH2]; intros ys H.
  - exists ys. split; [exact H|reflexivity].
  - cbn [mapM] in *. destruct (f x) as [b|]; [|discriminate]. destruct (mapM f l) as [bs|] eqn:E; [|discriminate].
    inversion H; subst. destruct (IH _ eq_refl) as (bs' & -> & Hp). exists (b :: bs'). split; [reflexivity|apply perm_skip; exact Hp].
  - cbn [mapM] in *. destruct (f y) as [b|]; [|discriminate]. destruct (f x) as [a|]; [|discriminate].
    destruct (mapM f l) as [bs|]; [|discriminate]. inversion H; subst.
    exists (a :: b :: bs). split; [reflexivity|apply perm_swap].
  - destruct (IH1 _ H) as (ys1 & H1 & P1). destruct (IH2 _ H1) as (ys2 & H2 & P2).
    exists ys2. split; [exact H2|transitivity ys1; assumption].
Qed.

Lemma filter_perm {A} (p : A -> bool) l l' : Permutation l l' -> Permutation (filter p l) (filter p l').
Proof.
  induction 1 as [|x l l' _ IH|x y l|l l' l'' _ IH1 _ IH2]; cbn [filter].
  - reflexivity.
  - destruct (p x); [apply perm_skip|]; exact IH.
  - destruct (p x), (p y); try reflexivity. apply perm_swap.
  - transitivity (filter p l'); assumption.
Qed.

Lemma mapM_res_map {A B C} (f : A -> res B) (g : B -> C) l :
  mapM (fun x => res_map g (f x)) l = res_map (map g) (mapM f l).
Proof.
  induction l as [|x l IH]; cbn [mapM res_map map]; [reflexivity|].
  destruct (f x) as [y|c]; cbn [res_map]; [|reflexivity]. rewrite IH.
  destruct (mapM f l) as [ys|c]; reflexivity.
Qed.

Lemma mapO_ext {A B} (f g : A -> option B) l : (forall x, f x = g x) -> mapO f l = mapO g l.
Proof. intros E. induction l as [|x l IH]; cbn [mapO]; [reflexivity|]. rewrite E, IH. reflexivity. Qed.

Lemma same_outcome_eq {A} (a b : res A) : a = b -> same_outcome a b.
Proof. intros ->. destruct b; cbn; [reflexivity|exact I]. Qed.

(* ================================================================== the canonical order of loaded transactions *)
Definition jtxn_cmp (a b : jtxn) : comparison := header_cmp (jt_hdr a) (jt_hdr b).
Lemma jtxn_cmp_ord : cmp_ord jtxn_cmp.
Proof. apply (cmp_ord_preimage jt_hdr). exact header_cmp_ord. Qed.

Definition jtxn_le (a b : jtxn) : Prop := jtxn_leb a b = true.
Definition jtxn_lt (a b : jtxn) : Prop := jtxn_cmp a b = Lt.

Lemma jtxn_leb_total a b : jtxn_leb a b = false -> jtxn_leb b a = true.
Proof.
  unfold jtxn_leb. fold (jtxn_cmp a b). fold (jtxn_cmp b a). intros H.
  rewrite (co_opp _ jtxn_cmp_ord b a). destruct (jtxn_cmp a b); cbn in *; congruence.
Qed.
Lemma jtxn_leb_trans a b c : jtxn_leb a b = true -> jtxn_leb b c = true -> jtxn_leb a c = true.
Proof. unfold jtxn_leb. fold (jtxn_cmp a b) (jtxn_cmp b c) (jtxn_cmp a c). apply (co_leb_trans _ jtxn_cmp_ord). Qed.

Lemma jsort_sorted l : StronglySorted jtxn_le (sort_by jtxn_leb l).
Proof. apply sort_by_sorted; [exact jtxn_leb_total|exact jtxn_leb_trans]. Qed.

Lemma distinct_jhdrs_perm l l' : Permutation l l' -> distinct_jhdrs l -> distinct_jhdrs l'.
Proof.
  intros Hp [Hnd Hinj]. split.
  - apply (Permutation_NoDup Hp Hnd).
  - intros a b Ha Hb. apply Hinj; apply (Permutation_in _ (Permutation_sym Hp)); assumption.
Qed.

Lemma jsorted_le_lt l : distinct_jhdrs l -> StronglySorted jtxn_le l -> StronglySorted jtxn_lt l.
Proof.
  intros [Hnd Hinj] Hs. induction Hs as [|x l Hs IH Hf]; [constructor|].
  inversion Hnd as [|? ? Hni Hnd']; subst. constructor.
  - apply IH; [exact Hnd'|]. intros a b Ha Hb. apply Hinj; right; assumption.
  - rewrite Forall_forall in *. intros y Hy. specialize (Hf y Hy).
    unfold jtxn_le, jtxn_leb in Hf. unfold jtxn_lt, jtxn_cmp.
    destruct (header_cmp (jt_hdr x) (jt_hdr y)) eqn:E; [|reflexivity|discriminate].
    exfalso. apply Hni. rewrite (Hinj x y (or_introl eq_refl) (or_intror Hy) E). exact Hy.
Qed.

Lemma jtxn_lt_asym a b : jtxn_lt a b -> jtxn_lt b a -> False.
Proof. unfold jtxn_lt. intros H1 H2. rewrite (co_opp _ jtxn_cmp_ord) in H2. rewrite H1 in H2. discriminate. Qed.

(* C04_perm on the loaded transactions (with their comments) *)
Lemma jsort_perm_eq l l' : Permutation l l' -> distinct_jhdrs l -> sort_by jtxn_leb l = sort_by jtxn_leb l'.
Proof.
  intros Hp Hd. apply (sorted_perm_unique jtxn_lt jtxn_lt_asym).
  - apply jsorted_le_lt; [|apply jsort_sorted].
    apply (distinct_jhdrs_perm l); [apply Permutation_sym, sort_by_perm|exact Hd].
  - apply jsorted_le_lt; [|apply jsort_sorted].
    apply (distinct_jhdrs_perm l); [|exact Hd]. transitivity l'; [exact Hp|apply Permutation_sym, sort_by_perm].
  - transitivity l; [apply sort_by_perm|]. transitivity l'; [exact Hp|apply Permutation_sym, sort_by_perm].
Qed.

(* the loaded transactions as C04 / C15 see them: Txn.txn, sorted by sort_txns *)
Lemma jsort_is_sort_txns l : map txn_of (sort_by jtxn_leb l) = sort_txns (map txn_of l).
Proof. unfold sort_txns. apply eqt_sort_by_map. intros x y. reflexivity. Qed.

Lemma distinct_jhdrs_txns l : distinct_jhdrs l -> NoDup (map txn_of l) -> distinct_hdrs (map txn_of l).
Proof.
  intros [_ Hinj] Hnd. split; [exact Hnd|].
  intros a b Ha Hb E. apply in_map_iff in Ha. apply in_map_iff in Hb.
  destruct Ha as (ja & <- & Hja). destruct Hb as (jb & <- & Hjb). f_equal. apply Hinj; assumption.
Qed.

(* ================================================================== (1) loading a directory *)
Lemma load_dir_results c files : load_dir c files = res_map (fun ls => sort_by jtxn_leb (concat ls)) (file_results c files).
Proof. reflexivity. Qed.

(* load_dir IS Load.load_files (the per-file parser followed by TxnData::from) on the selected files *)
Lemma load_dir_is_load_files c files :
  res_map (map txn_of) (load_dir c files)
  = Load.load_files (fun f => res_map (map txn_of) (parse_file (rc_journal (r7_base c)) (snd f))) (selected7 c files).
Proof.
  unfold load_dir, Load.load_files. rewrite mapM_res_map.
  destruct (mapM (fun f => parse_file (rc_journal (r7_base c)) (snd f)) (selected7 c files)) as [ls|e]; cbn [res_map]; [|reflexivity].
  rewrite jsort_is_sort_txns, concat_map. reflexivity.
Qed.

(* the selection is Store.select_fs on the tree of the files (directory = the journal directory itself) *)
Lemma selected_is_select_fs c files :
  map fst (selected7 c files) = map Store.en_path (Store.select_fs [] (r7_ext c) (tree_of files)).
Proof.
  unfold selected7, Store.select_fs, tree_of, wanted_file.
  induction files as [|f files IH]; cbn [map filter Store.en_kind Store.en_path Store.is_regular Store.comps_prefix andb]; [reflexivity|].
  destruct (Store.has_ext (r7_ext c) (Store.file_name (fst f))); cbn [map Store.en_path]; rewrite IH; reflexivity.
Qed.

Lemma gate_off c price files : gate_on c = false -> chart_gate c price files = Ok tt.
Proof. unfold chart_gate. intros ->. reflexivity. Qed.

Section Runs.
  Variable H : list N -> list N.

  (* what a run is, once the settings and the loaded transactions are known *)
  Definition cont7 (c : run7) (pr : list pentry * (lookup * list pentry)) (files : list (list (list N) * list N))
             (js0 : list jtxn) : res run_state :=
    res_bind (audit_uuids (rc_audit (r7_base c)) js0) (fun js =>
    res_bind (chart_gate c (fst pr) files) (fun _ => prepare_from H (r7_base c) pr js)).

  Lemma run7_prepare_unfold c files p :
    run7_prepare H c files p
    = res_bind (price_setup (r7_base c) p) (fun pr => res_bind (load_dir c files) (cont7 c pr files)).
  Proof. reflexivity. Qed.

  (* T07_files_order_irrelevant, general form: any distribution of the same transactions over files *)
  Lemma files_distribution c files files' p ls ls' :
    file_results c files = Ok ls -> file_results c files' = Ok ls' ->
    Permutation (concat ls) (concat ls') -> distinct_jhdrs (concat ls) ->
    (forall price, chart_gate c price files = chart_gate c price files') ->
    run7_console H c files p = run7_console H c files' p /\ run7_files H c files p = run7_files H c files' p.
  Proof.
    intros H1 H2 Hp Hd Hg.
    assert (E : run7_prepare H c files p = run7_prepare H c files' p).
    { rewrite !run7_prepare_unfold. destruct (price_setup (r7_base c) p) as [pr|e]; cbn [res_bind]; [|reflexivity].
      rewrite !load_dir_results, H1, H2. cbn [res_map res_bind].
      rewrite (jsort_perm_eq _ _ Hp Hd). unfold cont7. rewrite Hg. reflexivity. }
    unfold run7_console, run7_files. rewrite E. split; reflexivity.
  Qed.

  (* ... and any order of the files *)
  Lemma files_order c files files' p :
    Permutation files files' ->
    (forall ls, file_results c files = Ok ls -> distinct_jhdrs (concat ls)) ->
    (forall price, chart_gate c price files = chart_gate c price files') ->
    same_outcome (run7_console H c files p) (run7_console H c files' p)
    /\ same_outcome (run7_files H c files p) (run7_files H c files' p).
  Proof.
    intros Hp Hd Hg.
    assert (Hs : Permutation (selected7 c files) (selected7 c files')) by (apply filter_perm; exact Hp).
    destruct (file_results c files) as [ls|e] eqn:E1.
    - destruct (mapM_perm _ _ _ Hs _ E1) as (ls' & E2 & Hpl).
      destruct (files_distribution c files files' p ls ls' E1 E2 (concat_perm _ _ Hpl) (Hd _ eq_refl) Hg) as [A B].
      split; apply same_outcome_eq; assumption.
    - destruct (mapM_err_inv _ _ _ E1) as (f & c' & Hin & Hf).
      destruct (mapM_err_any (fun f0 => parse_file (rc_journal (r7_base c)) (snd f0)) (selected7 c files') f c' (Permutation_in _ Hs Hin) Hf) as [e' E2].
      fold (file_results c files') in E2.
      unfold run7_console, run7_files. rewrite !run7_prepare_unfold.
      destruct (price_setup (r7_base c) p) as [pr|e0]; cbn [res_bind]; [|split; exact I].
      rewrite !load_dir_results, E1, E2. cbn [res_map res_bind]. split; exact I.
  Qed.

  (* T07_one_bad_file_no_output *)
  Lemma one_bad_file c files p f code :
    In f (selected7 c files) -> parse_file (rc_journal (r7_base c)) (snd f) = Err code ->
    exists e, run7_console H c files p = Err e /\ run7_files H c files p = Err e.
  Proof.
    intros Hin Hf.
    destruct (mapM_err_any (fun f0 => parse_file (rc_journal (r7_base c)) (snd f0)) (selected7 c files) f code Hin Hf) as [e' E].
    fold (file_results c files) in E.
    unfold run7_console, run7_files. rewrite run7_prepare_unfold.
    destruct (price_setup (r7_base c) p) as [pr|e0]; cbn [res_bind].
    - rewrite load_dir_results, E. cbn [res_map res_bind]. exists e'. split; reflexivity.
    - exists e0. split; reflexivity.
  Qed.

  (* a successful run: every selected file was accepted, and the transaction set is made of exactly their
     transactions (C15_all_or_nothing through load_dir_is_load_files) *)
  Lemma run_needs_all_files c files p st : run7_prepare H c files p = Ok st ->
    exists ls, Forall2 (fun f l => parse_file (rc_journal (r7_base c)) (snd f) = Ok l) (selected7 c files) ls
               /\ rs_sel st = run_filter (r7_base c) (sort_by jtxn_leb (concat ls)).
  Proof.
    rewrite run7_prepare_unfold. destruct (price_setup (r7_base c) p) as [pr|e]; cbn [res_bind]; [|discriminate].
    rewrite load_dir_results. destruct (file_results c files) as [ls|e] eqn:E; cbn [res_map res_bind]; [|discriminate].
    unfold cont7. unfold audit_uuids.
    destruct (rc_audit (r7_base c) && negb (forallb (fun j => match h_uuid (jt_hdr j) with Some _ => true | None => false end)
                                                   (sort_by jtxn_leb (concat ls)))); cbn [res_bind]; [discriminate|].
    destruct (chart_gate c (fst pr) files) as [u|e]; cbn [res_bind]; [|discriminate].
    unfold prepare_from, prepare_with. cbv zeta.
    destruct (MetaText.make_items H (rc_audit (r7_base c)) (rc_algo (r7_base c)) None (filter_desc (r7_base c))
                (map uuid_of (run_filter (r7_base c) (sort_by jtxn_leb (concat ls))))) as [md|e]; cbn [res_bind]; [|discriminate].
    destruct (run_filter (r7_base c) (sort_by jtxn_leb (concat ls))) as [|t sel] eqn:Es; [discriminate|].
    intros Hr. inversion Hr; subst st. cbn [rs_sel]. exists ls. split; [apply mapM_ok_all; exact E|symmetry; exact Es].
  Qed.

  (* ================================================================ (2) strict mode *)
  Lemma gate_ok_iff c price files j : gate_on c = true -> chart_journal c files = Ok j ->
    (chart_gate c price files = Ok tt <-> exists ch ts, Charts.load (chart_config c price) j = Ok (ch, ts)).
  Proof.
    intros Hg Hj. unfold chart_gate. rewrite Hg, Hj. cbn [res_bind].
    destruct (Charts.load (chart_config c price) j) as [[ch ts]|e]; split.
    - intros _. exists ch, ts. reflexivity.
    - intros _. reflexivity.
    - discriminate.
    - intros (ch & ts & X). discriminate.
  Qed.

  Lemma gate_strict_iff c price files j :
    r7_strict c = true -> r7_charts c <> None -> chart_journal c files = Ok j ->
    (chart_gate c price files = Ok tt
     <-> chart_gate (lax c) price files = Ok tt /\ declared (chart_config c price) j).
  Proof.
    intros Hs Hc Hj.
    assert (G1 : gate_on c = true) by (unfold gate_on; rewrite Hs; reflexivity).
    assert (G2 : gate_on (lax c) = true).
    { unfold gate_on, lax. cbn [r7_strict r7_charts]. destruct (r7_charts c); [reflexivity|contradiction]. }
    rewrite (gate_ok_iff c price files j G1 Hj).
    rewrite (gate_ok_iff (lax c) price files j G2 Hj).
    assert (S1 : Charts.cf_strict (chart_config c price) = true) by exact Hs.
    assert (S2 : Charts.cf_strict (chart_config (lax c) price) = false) by reflexivity.
    split.
    - intros (ch & ts & E).
      destruct (proj1 (strict_iff _ j ts S1) (ex_intro _ ch E)) as [(ch' & E') D]. split; [|exact D].
      destruct (proj2 (lax_accept_independent _ j ts S2) (ex_intro _ ch' E')) as [ch2 E2]. exists ch2, ts. exact E2.
    - intros [(ch & ts & E) D].
      destruct (proj1 (lax_accept_independent _ j ts S2) (ex_intro _ ch E)) as [ch' E'].
      destruct (proj2 (strict_iff _ j ts S1) (conj (ex_intro _ ch' E') D)) as [ch2 E2]. exists ch2, ts. exact E2.
  Qed.

  (* T07_strict_text *)
  Lemma strict_text c files p pr j :
    r7_strict c = true -> r7_charts c <> None ->
    price_setup (r7_base c) p = Ok pr -> chart_journal c files = Ok j ->
    (forall out, run7_console H c files p = Ok out
                 <-> run7_console H (lax c) files p = Ok out /\ declared (chart_config c (fst pr)) j)
    /\ (forall out, run7_files H c files p = Ok out
                    <-> run7_files H (lax c) files p = Ok out /\ declared (chart_config c (fst pr)) j).
  Proof.
    intros Hs Hc Hp Hj.
    pose proof (gate_strict_iff c (fst pr) files j Hs Hc Hj) as G.
    assert (P : forall X (K : run_state -> res X) out,
              res_bind (run7_prepare H c files p) K = Ok out
              <-> res_bind (run7_prepare H (lax c) files p) K = Ok out /\ declared (chart_config c (fst pr)) j).
    { intros X K out. rewrite !run7_prepare_unfold. change (r7_base (lax c)) with (r7_base c). rewrite Hp. cbn [res_bind].
      change (load_dir (lax c) files) with (load_dir c files).
      destruct (load_dir c files) as [js0|e]; cbn [res_bind]; [|split; [discriminate|intros [X0 _]; discriminate]].
      unfold cont7. change (r7_base (lax c)) with (r7_base c).
      destruct (audit_uuids (rc_audit (r7_base c)) js0) as [js|e]; cbn [res_bind]; [|split; [discriminate|intros [X0 _]; discriminate]].
      destruct (chart_gate c (fst pr) files) as [[]|e] eqn:E1; destruct (chart_gate (lax c) (fst pr) files) as [[]|e'] eqn:E2; cbn [res_bind].
      - destruct (proj1 G eq_refl) as [_ D]. split; [intros X0; split; [exact X0|exact D]|intros [X0 _]; exact X0].
      - destruct (proj1 G eq_refl) as [X0 _]. discriminate.
      - split; [discriminate|]. intros [X0 D]. pose proof (proj2 G (conj eq_refl D)) as X1. discriminate.
      - split; [discriminate|intros [X0 _]; discriminate]. }
    split; intros out.
    - unfold run7_console. apply (P _ (fun st => console_with (r7_base c) (rs_md st) (report_text7 H c st))).
    - unfold run7_files. apply (P _ (fun st => files_with (r7_base c) (rs_md st) (report_text7 H c st) (export_file7 H c st))).
  Qed.

  (* T07_strict_same_output *)
  Lemma strict_same_output c files p :
    r7_strict c = true -> r7_charts c <> None ->
    (forall out, run7_console H c files p = Ok out -> run7_console H (lax c) files p = Ok out)
    /\ (forall out, run7_files H c files p = Ok out -> run7_files H (lax c) files p = Ok out).
  Proof.
    intros Hs Hc.
    assert (Q : forall X (K : run_state -> res X) out,
              res_bind (run7_prepare H c files p) K = Ok out -> res_bind (run7_prepare H (lax c) files p) K = Ok out).
    { intros X K out. rewrite !run7_prepare_unfold. change (r7_base (lax c)) with (r7_base c).
      destruct (price_setup (r7_base c) p) as [pr|e] eqn:Hp; cbn [res_bind]; [|discriminate].
      change (load_dir (lax c) files) with (load_dir c files).
      destruct (load_dir c files) as [js0|e]; cbn [res_bind]; [|discriminate].
      unfold cont7. change (r7_base (lax c)) with (r7_base c).
      destruct (audit_uuids (rc_audit (r7_base c)) js0) as [js|e]; cbn [res_bind]; [|discriminate].
      destruct (chart_gate c (fst pr) files) as [[]|e] eqn:E1; cbn [res_bind]; [|discriminate].
      assert (Hj : exists j, chart_journal c files = Ok j).
      { unfold chart_gate in E1. assert (G1 : gate_on c = true) by (unfold gate_on; rewrite Hs; reflexivity). rewrite G1 in E1.
        destruct (chart_journal c files) as [j|e]; [exists j; reflexivity|discriminate]. }
      destruct Hj as [j Hj].
      destruct (proj1 (gate_strict_iff c (fst pr) files j Hs Hc Hj) E1) as [E2 _]. rewrite E2. cbn [res_bind]. exact (fun x => x). }
    split; intros out.
    - unfold run7_console. apply (Q _ (fun st => console_with (r7_base c) (rs_md st) (report_text7 H c st))).
    - unfold run7_files. apply (Q _ (fun st => files_with (r7_base c) (rs_md st) (report_text7 H c st) (export_file7 H c st))).
  Qed.
End Runs.

(* ================================================================== (1)+(2): file order with chart files *)
Lemma flat_map_perm {A B} (f : A -> list B) l l' : Permutation l l' -> Permutation (flat_map f l) (flat_map f l').
Proof.
  induction 1 as [|x l l' _ IH|x y l|l l' l'' _ IH1 _ IH2]; cbn [flat_map].
  - reflexivity.
  - apply Permutation_app_head. exact IH.
  - rewrite !app_assoc. apply Permutation_app_tail. apply Permutation_app_comm.
  - transitivity (flat_map f l'); assumption.
Qed.

Lemma forallb_perm {A} (p : A -> bool) l l' : Permutation l l' -> forallb p l = true -> forallb p l' = true.
Proof.
  intros Hp Hb. apply forallb_forall. intros x Hx. rewrite forallb_forall in Hb. apply Hb.
  apply (Permutation_in _ (Permutation_sym Hp) Hx).
Qed.

(* the verdict of the chart look-ups (Settings::try_from + the look-ups of the parser over the whole journal) does not
   depend on the order of the transactions: in either mode it is a conjunction of conditions on the configuration and
   on every transaction by itself (Charts_proofs.load_iff, strict_run / lax_run) *)
Lemma load_ok_perm cf j j' : Permutation j j' ->
  (exists x, Charts.load cf j = Ok x) -> exists x', Charts.load cf j' = Ok x'.
Proof.
  intros Hp [[ch ts] Hl]. apply load_iff in Hl. destruct Hl as (E1 & E2 & E3 & E4 & E5).
  assert (Hpl : Permutation (config_lks cf ++ journal_lks j) (config_lks cf ++ journal_lks j')).
  { apply Permutation_app_head. unfold journal_lks. apply flat_map_perm. exact Hp. }
  assert (R : exists ch', run_lks (Charts.init_charts cf) (config_lks cf ++ journal_lks j') = Ok ch').
  { destruct (Charts.cf_strict cf) eqn:Es.
    - assert (Hs0 : Charts.c_strict (Charts.init_charts cf) = true) by exact Es.
      destruct (strict_run (config_lks cf ++ journal_lks j) _ Hs0) as [_ S1].
      destruct (strict_run (config_lks cf ++ journal_lks j') _ Hs0) as [_ S2].
      apply S2. apply (Permutation_Forall Hpl). apply S1. exists ch. exact E3.
    - assert (Hs0 : Charts.c_strict (Charts.init_charts cf) = false) by exact Es.
      apply (lax_run (config_lks cf ++ journal_lks j') _ Hs0). apply (Permutation_Forall Hpl).
      apply (lax_run (config_lks cf ++ journal_lks j) _ Hs0). exists ch. exact E3. }
  destruct R as [ch' R].
  destruct (mapM_perm Accept.accept_txn _ _ (Permutation_map Charts.ct_raw Hp) _ E5) as (ts' & E5' & _).
  exists (ch', ts'). apply load_iff. split; [exact E1|]. split; [exact E2|]. split; [exact R|].
  split; [exact (forallb_perm _ _ _ Hp E4)|exact E5'].
Qed.

Lemma chart_journal_ptxns c files : chart_journal c files = res_map (fun ls => map craw_of (concat ls)) (file_ptxns c files).
Proof. reflexivity. Qed.

Lemma mapM_concat {A B} (f : A -> res B) : forall ls rs,
  mapM (mapM f) ls = Ok rs -> mapM f (concat ls) = Ok (concat rs).
Proof.
  induction ls as [|l ls IH]; intros rs Hm; cbn [mapM concat] in *.
  - inversion Hm. reflexivity.
  - destruct (mapM f l) as [r|e] eqn:E; [|discriminate]. destruct (mapM (mapM f) ls) as [rs'|e] eqn:E2; [|discriminate].
    inversion Hm; subst. cbn [concat]. specialize (IH _ eq_refl).
    clear -E IH. revert r E. induction l as [|x l IHl]; intros r E; cbn [mapM app] in *.
    + inversion E. exact IH.
    + destruct (f x) as [y|e]; [|discriminate]. destruct (mapM f l) as [ys|e] eqn:E3; [|discriminate].
      inversion E; subst. rewrite (IHl _ eq_refl). reflexivity.
Qed.

Lemma mapM_concat_err {A B} (f : A -> res B) : forall ls e,
  mapM (mapM f) ls = Err e -> exists e', mapM f (concat ls) = Err e'.
Proof.
  intros ls e Hm. destruct (mapM_err_inv _ _ _ Hm) as (l & e1 & Hin & Hl).
  destruct (mapM_err_inv _ _ _ Hl) as (x & e2 & Hx & Hfx).
  apply (mapM_err_any f (concat ls) x e2); [|exact Hfx]. apply in_concat. exists l. split; assumption.
Qed.

(* file_results in terms of the syntax-level transactions *)
Lemma file_results_ptxns c files ptss : file_ptxns c files = Ok ptss ->
  file_results c files = mapM (mapM accept_ptxn) ptss.
Proof.
  unfold file_ptxns, file_results, parse_file. generalize (selected7 c files). intros l. revert ptss.
  induction l as [|f l IH]; intros ptss Hp; cbn [mapM] in *.
  - inversion Hp. reflexivity.
  - destruct (parse_journal (rc_journal (r7_base c)) (snd f)) as [pts|e]; [|discriminate].
    destruct (mapM (fun f0 => parse_journal (rc_journal (r7_base c)) (snd f0)) l) as [ptss'|e]; [|discriminate].
    inversion Hp; subst. cbn [res_bind mapM]. rewrite (IH _ eq_refl). reflexivity.
Qed.

Section RunsCharts.
  Variable H : list N -> list N.

  Lemma gate_verdict_perm c price files files' ptss ptss' :
    file_ptxns c files = Ok ptss -> file_ptxns c files' = Ok ptss' ->
    Permutation (concat ptss) (concat ptss') ->
    chart_gate c price files = Ok tt -> chart_gate c price files' = Ok tt.
  Proof.
    intros H1 H2 Hp. unfold chart_gate. destruct (gate_on c); [|exact (fun x => x)].
    rewrite !chart_journal_ptxns, H1, H2. cbn [res_map res_bind].
    destruct (Charts.load (chart_config c price) (map craw_of (concat ptss))) as [x|e] eqn:E; [|discriminate].
    intros _. destruct (load_ok_perm _ _ _ (Permutation_map craw_of Hp) (ex_intro _ x E)) as [x' E']. rewrite E'. reflexivity.
  Qed.

  (* T07_files_order_irrelevant with chart files: any distribution of the same (syntax-level) transactions *)
  Lemma files_distribution_charts c files files' p ptss ptss' :
    file_ptxns c files = Ok ptss -> file_ptxns c files' = Ok ptss' ->
    Permutation (concat ptss) (concat ptss') ->
    (forall ls, file_results c files = Ok ls -> distinct_jhdrs (concat ls)) ->
    same_outcome (run7_console H c files p) (run7_console H c files' p)
    /\ same_outcome (run7_files H c files p) (run7_files H c files' p).
  Proof.
    intros H1 H2 Hp Hd.
    assert (Q : forall X (K : run_state -> res X),
              same_outcome (res_bind (run7_prepare H c files p) K) (res_bind (run7_prepare H c files' p) K)).
    { intros X K. rewrite !run7_prepare_unfold.
      destruct (price_setup (r7_base c) p) as [pr|e0]; cbn [res_bind]; [|exact I].
      rewrite !load_dir_results, (file_results_ptxns c files ptss H1), (file_results_ptxns c files' ptss' H2).
      destruct (mapM (mapM accept_ptxn) ptss) as [ls|e] eqn:E1.
      - pose proof (mapM_concat _ _ _ E1) as C1.
        destruct (mapM_perm accept_ptxn _ _ Hp _ C1) as (js' & C2 & Pj).
        destruct (mapM (mapM accept_ptxn) ptss') as [ls'|e'] eqn:E2.
        + pose proof (mapM_concat _ _ _ E2) as C2'. rewrite C2 in C2'. inversion C2'; subst js'.
          cbn [res_map res_bind].
          assert (Hd' : distinct_jhdrs (concat ls)) by (apply Hd; rewrite (file_results_ptxns c files ptss H1); exact E1).
          rewrite (jsort_perm_eq _ _ Pj Hd'). unfold cont7.
          destruct (audit_uuids (rc_audit (r7_base c)) (sort_by jtxn_leb (concat ls'))) as [js|e]; cbn [res_bind]; [|exact I].
          destruct (chart_gate c (fst pr) files) as [[]|e] eqn:G1; destruct (chart_gate c (fst pr) files') as [[]|e'] eqn:G2; cbn [res_bind].
          * apply same_outcome_eq. reflexivity.
          * rewrite (gate_verdict_perm c (fst pr) files files' ptss ptss' H1 H2 Hp G1) in G2. discriminate.
          * rewrite (gate_verdict_perm c (fst pr) files' files ptss' ptss H2 H1 (Permutation_sym Hp) G2) in G1. discriminate.
          * exact I.
        + destruct (mapM_concat_err _ _ _ E2) as [e2 C2']. rewrite C2 in C2'. discriminate.
      - destruct (mapM_concat_err _ _ _ E1) as [e1 C1].
        destruct (mapM (mapM accept_ptxn) ptss') as [ls'|e'] eqn:E2; cbn [res_map res_bind]; [|exact I].
        pose proof (mapM_concat _ _ _ E2) as C2.
        destruct (mapM_perm accept_ptxn _ _ (Permutation_sym Hp) _ C2) as (js & C1' & _). rewrite C1 in C1'. discriminate. }
    split.
    - unfold run7_console. apply (Q _ (fun st => console_with (r7_base c) (rs_md st) (report_text7 H c st))).
    - unfold run7_files. apply (Q _ (fun st => files_with (r7_base c) (rs_md st) (report_text7 H c st) (export_file7 H c st))).
  Qed.

  (* ... in particular any order in which the directory is listed, chart files or not *)
  Lemma files_order_charts c files files' p :
    Permutation files files' ->
    (forall ls, file_results c files = Ok ls -> distinct_jhdrs (concat ls)) ->
    same_outcome (run7_console H c files p) (run7_console H c files' p)
    /\ same_outcome (run7_files H c files p) (run7_files H c files' p).
  Proof.
    intros Hp Hd.
    assert (Hs : Permutation (selected7 c files) (selected7 c files')) by (apply filter_perm; exact Hp).
    destruct (file_ptxns c files) as [ptss|e] eqn:E1.
    - destruct (mapM_perm _ _ _ Hs _ E1) as (ptss' & E2 & Hpl).
      apply (files_distribution_charts c files files' p ptss ptss' E1 E2 (concat_perm _ _ Hpl) Hd).
    - (* a file that the grammar refuses: refused in every order *)
      destruct (mapM_err_inv _ _ _ E1) as (f & e' & Hin & Hf).
      assert (Hpf : exists code, parse_file (rc_journal (r7_base c)) (snd f) = Err code)
        by (unfold parse_file; rewrite Hf; eexists; reflexivity).
      destruct Hpf as [code Hpf].
      destruct (one_bad_file H c files p f code Hin Hpf) as (e1 & A1 & B1).
      destruct (one_bad_file H c files' p f code (Permutation_in _ Hs Hin) Hpf) as (e2 & A2 & B2).
      rewrite A1, A2, B1, B2. split; exact I.
  Qed.
End RunsCharts.

(* ================================================================== (3) pattern selectors *)
Lemma ord_sorted_perm : forall l, Permutation (ord_sorted l) l.
Proof. intros l. unfold ord_sorted. apply sort_by_perm. Qed.

(* the balance report of a run under patterns: the rows of the unrestricted balance whose account name is fully
   matched by a pattern, each with the figures it has there (C11_rows, C11_figures_unchanged) *)
Lemma selector_rows_balance st rc pats rep :
  let ps := conv_bposts (report_ctx (rs_lk st) rc (rs_db st) (rs_txns st)) (sort_txns (rs_txns st)) in
  Forall bpost_wf ps ->
  bal_report7 (Select.report_selector pats) st rc = Some rep ->
  exists rows, balance (fun _ => true) ord_sorted ps = Some rows
    /\ b_rows rep = filter (must_listb false pats) rows
    /\ (forall r, In r (b_rows rep) <-> In r rows /\ name_selected pats (r_acc r))
    /\ (forall r, In r (b_rows rep) -> d28 (r_own r) = spec_own ps (r_key r) /\ d28 (r_tree r) = spec_tree ps (r_key r)).
Proof.
  intros ps Hwf Hr.
  assert (Hs : Select.selected_balance (fun _ => true) ord_sorted false pats ps = Some rep) by exact Hr.
  destruct (selected_figures _ _ _ _ _ _ ord_sorted_perm Hwf Hs) as (rows & Eb & Er & Hf).
  exists rows. split; [exact Eb|]. split; [exact Er|]. split.
  - intros r. rewrite Er, filter_In, must_listb_spec. unfold must_list. split.
    + intros [A [B _]]. split; assumption.
    + intros [A B]. split; [exact A|]. split; [exact B|discriminate].
  - intros r Hin. destruct (Hf r Hin) as (_ & A & B). split; assumption.
Qed.

Lemma reg_selector_spec pats r : reg_selector pats r = true <-> name_selected pats (p_acc (rr_post r)).
Proof.
  unfold reg_selector, name_selected. destruct pats as [|p0 pats'].
  - split; [intros _; left; reflexivity|reflexivity].
  - rewrite set_is_match_spec. split.
    + intros X. right. exact X.
    + intros [X|X]; [discriminate|exact X].
Qed.

(* the register of a run under patterns: the entries of the unrestricted register (same running totals), each
   restricted to the rows whose account name is fully matched (C03_selector_hides_only) *)
Lemma selector_rows_register st rc pats :
  reg_report7 (reg_selector pats) st rc = map (restrict (reg_selector pats)) (reg_report7 sel_all st rc)
  /\ forall e r, In r (re_rows (restrict (reg_selector pats) e)) <-> In r (re_rows e) /\ name_selected pats (p_acc (rr_post r)).
Proof.
  split.
  - unfold reg_report7. apply (proj1 (register_selector _ _ _)).
  - intros e r. rewrite restrict_rows, reg_selector_spec. reflexivity.
Qed.

(* the printed texts are the texts of exactly these rows *)
Lemma report_body7_is c st :
  report_body7 c st MetaText.RBalance
  = option_map (fun rep => bal_txt_report (rc_title_bal (r7_base c)) (rc_scale (r7_base c)) (b_rows rep) (b_deltas rep))
               (bal_report7 (Select.report_selector (pats_of c MetaText.RBalance)) st (rc_commodity (r7_base c)))
  /\ report_body7 c st MetaText.RRegister
     = Some (reg_txt_report (rc_title_reg (r7_base c)) (rc_scale (r7_base c)) (filler_width (rs_lk st)) (ts_text (r7_base c))
                            (reg_report7 (reg_selector (pats_of c MetaText.RRegister)) st (rc_commodity (r7_base c)))).
Proof. split; reflexivity. Qed.

(* ================================================================== literal patterns *)
Lemma nth_error_skipn {A} (s : list A) : forall i c, nth_error s i = Some c <-> exists r, skipn i s = c :: r.
Proof.
  induction s as [|x s IH]; intros i c.
  - destruct i; cbn; split; try discriminate; intros [r X]; discriminate.
  - destruct i as [|i]; cbn [nth_error skipn].
    + split; [intros X; inversion X; subst; exists s; reflexivity|intros [r X]; inversion X; reflexivity].
    + apply IH.
Qed.

Lemma skipn_S_tail {A} (s : list A) : forall i c r, skipn i s = c :: r -> skipn (S i) s = r.
Proof.
  induction s as [|x s IH]; intros i c r Hs.
  - destruct i; discriminate.
  - destruct i as [|i]; [cbn [skipn] in *; inversion Hs; reflexivity|].
    change (skipn (S (S i)) (x :: s)) with (skipn (S i) s). change (skipn (S i) (x :: s)) with (skipn i s) in Hs.
    apply (IH i c r Hs).
Qed.

(* a literal pattern matches from i exactly when the haystack continues with the literal *)
Lemma m_lit t : forall s i j,
  m s (lit_re t) i j <-> (j = (i + length t)%nat /\ (j <= length s)%nat /\ exists r, skipn i s = t ++ r).
Proof.
  induction t as [|c t IH]; intros s i j.
  - cbn [lit_re length app]. split.
    + intros X. inversion X; subst. split; [lia|]. split; [assumption|]. exists (skipn j s). reflexivity.
    + intros (-> & L & _). rewrite Nat.add_0_r in *. constructor. exact L.
  - destruct t as [|d t'].
    + cbn [lit_re length app]. split.
      * intros X. inversion X; subst. split; [lia|]. split.
        -- match goal with Hn : nth_error s i = Some c |- _ => apply c11_nth_lt in Hn; lia end.
        -- apply nth_error_skipn. assumption.
      * intros (-> & _ & X). replace (i + 1)%nat with (S i) by lia. constructor. apply nth_error_skipn. exact X.
    + change (lit_re (c :: d :: t')) with (Seq (Chr c) (lit_re (d :: t'))). split.
      * intros X. inversion X as [| | | |a b i0 k j0 X1 X2| | | | | | | | | |]; subst.
        inversion X1; subst. apply IH in X2. destruct X2 as (-> & L & r & Hr).
        split; [cbn [length]; lia|]. split; [exact L|].
        match goal with Hn : nth_error s i = Some c |- _ => apply nth_error_skipn in Hn; destruct Hn as [r0 Hr0] end.
        rewrite (skipn_S_tail _ _ _ _ Hr0) in Hr. exists r. rewrite Hr0, Hr. reflexivity.
      * intros (-> & L & r & Hr). apply (m_seq s (Chr c) (lit_re (d :: t')) i (S i)).
        -- constructor. apply nth_error_skipn. exists ((d :: t') ++ r). exact Hr.
        -- apply IH. split; [cbn [length]; lia|]. split; [exact L|]. exists r. apply (skipn_S_tail _ _ c). exact Hr.
Qed.

Lemma lit_full_match t s : full_match (lit_re t) s <-> s = t.
Proof.
  unfold full_match. rewrite m_lit. cbn [skipn Nat.add]. split.
  - intros (E & _ & r & Hr). subst s. rewrite app_length in E. destruct r; [apply app_nil_r|cbn [length] in E; lia].
  - intros ->. split; [reflexivity|]. split; [lia|]. exists []. symmetry. apply app_nil_r.
Qed.

(* T07_literal_pattern: a list of literal patterns selects exactly the listed texts *)
Lemma literal_patterns texts s :
  full_haystack_set_is_match (map lit_re texts) s = existsb (str_eqb s) texts.
Proof.
  apply bool_iff_eq. rewrite set_is_match_spec, existsb_exists. split.
  - intros (p & Hin & Hm). apply in_map_iff in Hin. destruct Hin as (t & <- & Hin).
    exists t. split; [exact Hin|]. apply str_eqb_eq. apply lit_full_match. exact Hm.
  - intros (t & Hin & E). apply str_eqb_eq in E. exists (lit_re t). split; [apply in_map; exact Hin|]. apply lit_full_match. exact E.
Qed.

(* the text of a literal pattern without meta characters is the literal *)
Lemma pp_lit_plain t : forallb (fun x => negb (is_meta x)) t = true -> t <> [] -> pp (lit_re t) = t.
Proof.
  intros Hp Hne. unfold pp.
  assert (G : forall t, forallb (fun x => negb (is_meta x)) t = true -> t <> [] -> forall lvl, (lvl <= 1)%nat -> pp_at lvl (lit_re t) = t).
  { clear. induction t as [|c t IH]; intros Hp Hne lvl Hl; [contradiction|].
    cbn [forallb] in Hp. apply andb_true_iff in Hp. destruct Hp as [Hc Hp]. apply negb_true_iff in Hc.
    destruct t as [|d t'].
    - cbn [lit_re pp_at]. unfold pp_chr. rewrite Hc. reflexivity.
    - change (lit_re (c :: d :: t')) with (Seq (Chr c) (lit_re (d :: t'))). cbn [pp_at].
      assert (E : Nat.leb 2 lvl = false) by (apply Nat.leb_gt; lia). rewrite E. cbn [paren pp_at]. unfold pp_chr at 1. rewrite Hc.
      rewrite (IH Hp ltac:(discriminate) 1%nat (le_n 1)). reflexivity. }
  apply G; [exact Hp|exact Hne|lia].
Qed.

(* ================================================================== T07_run on the old fragment is T06_run *)
Section Coincide.
  Variable H : list N -> list N.

  Definition no_selectors (cfg : run_cfg) : Prop :=
    rc_accounts cfg = None /\ rc_bal_acc cfg = None /\ rc_grp_acc cfg = None /\ rc_reg_acc cfg = None /\ rc_eq_acc cfg = None.

  Lemma report_text7_embed cfg ext st k : no_selectors cfg ->
    report_text7 H (embed cfg ext) st k = report_text H cfg st k.
  Proof.
    intros (A & B & C & D & E).
    unfold report_text7, report_text, report_head7, report_head_text, report_body7, report_body, pats_of, sel_of.
    cbn [embed r7_accounts r7_bal r7_grp r7_reg r7_base]. rewrite A, B, C, D. cbn [lit_pats option_map eff_pats eff_sel].
    destruct k; reflexivity.
  Qed.

  Lemma export_file7_embed cfg ext st x : no_selectors cfg ->
    export_file7 H (embed cfg ext) st x = export_file H cfg st x.
  Proof.
    intros (A & B & C & D & E).
    unfold export_file7, export_file, equity_file7, equity_file, pats_equity, sel_equity.
    cbn [embed r7_accounts r7_eq r7_base]. rewrite A, E. cbn [lit_pats option_map eff_pats eff_sel].
    destruct x; reflexivity.
  Qed.

  Lemma load_dir_single cfg ext name jtext : Store.has_ext ext name = true ->
    load_dir (embed cfg ext) [([name], jtext)] = load_journal (rc_journal cfg) jtext.
  Proof.
    intros He. unfold load_dir, selected7, wanted_file. cbn [filter fst r7_ext embed Store.file_name last]. rewrite He.
    cbn [mapM snd]. change (r7_base (embed cfg ext)) with cfg. unfold parse_file, load_journal.
    destruct (parse_journal (rc_journal cfg) jtext) as [pts|e]; cbn [res_bind res_map]; [|reflexivity].
    destruct (mapM accept_ptxn pts) as [ts|e]; cbn [res_bind res_map concat]; [|reflexivity].
    rewrite app_nil_r. reflexivity.
  Qed.

  Lemma run7_prepare_single cfg ext name jtext p : Store.has_ext ext name = true ->
    run7_prepare H (embed cfg ext) [([name], jtext)] p = run_prepare H cfg jtext p.
  Proof.
    intros He. rewrite run7_prepare_unfold. unfold run_prepare. change (r7_base (embed cfg ext)) with cfg.
    destruct (price_setup cfg p) as [pr|e]; cbn [res_bind]; [|reflexivity].
    rewrite (load_dir_single cfg ext name jtext He). unfold load.
    destruct (load_journal (rc_journal cfg) jtext) as [js0|e]; cbn [res_bind]; [|reflexivity].
    unfold cont7. change (r7_base (embed cfg ext)) with cfg.
    destruct (audit_uuids (rc_audit cfg) js0) as [js|e]; cbn [res_bind]; [|reflexivity].
    rewrite gate_off by reflexivity. reflexivity.
  Qed.

  (* one journal file with the configured suffix, no chart files, strict off, no account selectors *)
  Lemma run7_coincides cfg ext name jtext p :
    Store.has_ext ext name = true -> no_selectors cfg ->
    run7_console H (embed cfg ext) [([name], jtext)] p = run_console H cfg jtext p
    /\ run7_files H (embed cfg ext) [([name], jtext)] p = run_files H cfg jtext p.
  Proof.
    intros He Hn. unfold run7_console, run7_files, run_console, run_files.
    rewrite (run7_prepare_single cfg ext name jtext p He). change (r7_base (embed cfg ext)) with cfg.
    destruct (run_prepare H cfg jtext p) as [st|e]; cbn [res_bind]; [|split; reflexivity].
    unfold console_of, files_of, console_with, files_with. split.
    - rewrite (mapO_ext _ _ _ (fun k => report_text7_embed cfg ext st k Hn)). reflexivity.
    - rewrite (mapO_ext (report_entry_with cfg (rs_md st) (report_text7 H (embed cfg ext) st))
                        (report_entry_with cfg (rs_md st) (report_text H cfg st)))
        by (intros k; unfold report_entry_with; rewrite (report_text7_embed cfg ext st k Hn); reflexivity).
      rewrite (mapO_ext (export_entry_with cfg (export_file7 H (embed cfg ext) st))
                        (export_entry_with cfg (export_file H cfg st)))
        by (intros x; unfold export_entry_with; rewrite (export_file7_embed cfg ext st x Hn); reflexivity).
      reflexivity.
  Qed.
End Coincide.

(* ================================================================== (4) Git storage *)
Lemma make_items_ok_indep H a al g g' f us md :
  MetaText.make_items H a al g f us = Ok md -> exists md', MetaText.make_items H a al g' f us = Ok md'.
Proof.
  unfold MetaText.make_items, MetaText.make_metadata, Audit.make_metadata. destruct a.
  - cbn [orb]. destruct (Audit.calc_txn_checksum H us) as [v|e]; cbn [res_map].
    + intros _. destruct f; eexists; reflexivity.
    + destruct f; discriminate.
  - cbn [res_map]. intros _. destruct f; cbn [res_map]; [eexists; reflexivity|].
    destruct (false || MetaText.is_some (MetaText.txn_data_md g')); eexists; reflexivity.
Qed.

Lemma prepare_with_indep H g g' b pr js st : prepare_with H g b pr js = Ok st ->
  exists st', prepare_with H g' b pr js = Ok st'
    /\ rs_sel st' = rs_sel st /\ rs_file st' = rs_file st /\ rs_lk st' = rs_lk st /\ rs_db st' = rs_db st
    /\ MetaText.make_items H (rc_audit b) (rc_algo b) g (filter_desc b) (map uuid_of (rs_sel st)) = Ok (rs_md st)
    /\ MetaText.make_items H (rc_audit b) (rc_algo b) g' (filter_desc b) (map uuid_of (rs_sel st)) = Ok (rs_md st').
Proof.
  unfold prepare_with. cbv zeta.
  destruct (MetaText.make_items H (rc_audit b) (rc_algo b) g (filter_desc b) (map uuid_of (run_filter b js))) as [md|e] eqn:E; cbn [res_bind]; [|discriminate].
  destruct (make_items_ok_indep _ _ _ _ g' _ _ _ E) as [md' E']. rewrite E'. cbn [res_bind].
  destruct (run_filter b js) as [|x sel] eqn:Es; [discriminate|].
  intros Hr. inversion Hr; subst st. eexists. split; [reflexivity|]. cbn [rs_sel rs_file rs_lk rs_db rs_md].
  repeat split; assumption.
Qed.

(* the reports of a run do not read the metadata of the set *)
Lemma report_text7_state H c st st' k :
  rs_sel st = rs_sel st' -> rs_lk st = rs_lk st' -> rs_db st = rs_db st' ->
  report_text7 H c st k = report_text7 H c st' k.
Proof.
  destruct st as [s1 m1 f1 l1 d1], st' as [s2 m2 f2 l2 d2]. cbn [rs_sel rs_lk rs_db]. intros -> -> ->. destruct k; reflexivity.
Qed.

Lemma mapM_map {A B C} (g : B -> res C) (f : A -> B) l : mapM (fun x => g (f x)) l = mapM g (map f l).
Proof. induction l as [|x l IH]; cbn [mapM map]; [reflexivity|]. rewrite IH. reflexivity. Qed.

(* loading and the chart look-ups read the texts of the selected files only *)
Lemma load_reads_texts c f1 f2 : map snd (selected7 c f1) = map snd (selected7 c f2) ->
  load_dir c f1 = load_dir c f2 /\ forall price, chart_gate c price f1 = chart_gate c price f2.
Proof.
  intros E. split.
  - unfold load_dir. rewrite (mapM_map (parse_file (rc_journal (r7_base c))) snd), (mapM_map (parse_file (rc_journal (r7_base c))) snd (selected7 c f2)), E.
    reflexivity.
  - intros price. unfold chart_gate, chart_journal.
    rewrite (mapM_map (parse_journal (rc_journal (r7_base c))) snd), (mapM_map (parse_journal (rc_journal (r7_base c))) snd (selected7 c f2)), E.
    reflexivity.
Qed.

Lemma comps_prefix_length d : forall l, Store.comps_prefix d l = true -> (length d <= length l)%nat.
Proof.
  induction d as [|x d IH]; intros l Hp; [cbn; lia|]. destruct l as [|y l]; [discriminate|].
  cbn [Store.comps_prefix] in Hp. apply andb_true_iff in Hp. destruct Hp as [_ Hp]. cbn [length]. specialize (IH _ Hp). lia.
Qed.

Lemma last_skipn {A} (x : A) : forall n p, (n < length p)%nat -> last (skipn n p) x = last p x.
Proof.
  induction n as [|n IH]; intros p Hn; [reflexivity|]. destruct p as [|a p]; [cbn in Hn; lia|].
  cbn [skipn]. cbn [length] in Hn. rewrite IH by lia. destruct p as [|b p]; [cbn in Hn; lia|]. reflexivity.
Qed.

Lemma removelast_length {A} (p : list A) : p <> [] -> length (removelast p) = (length p - 1)%nat.
Proof.
  induction p as [|a p IH]; intros Hne; [contradiction|]. destruct p as [|b p]; [reflexivity|].
  change (removelast (a :: b :: p)) with (a :: removelast (b :: p)). cbn [length]. rewrite IH by discriminate. cbn [length]. lia.
Qed.

Lemma file_name_below d p : Store.comps_prefix d (Store.dir_of p) = true ->
  Store.file_name (skipn (length d) p) = Store.file_name p.
Proof.
  unfold Store.dir_of, Store.file_name. intros Hp. destruct p as [|a p].
  - destruct d; [reflexivity|discriminate].
  - apply last_skipn. apply comps_prefix_length in Hp. rewrite removelast_length in Hp by discriminate. cbn [length] in *. lia.
Qed.

(* the texts git storage reads at a commit are the texts file-system storage reads on a checkout of it (C08_git_eq_fs) *)
Lemma git_texts_eq_fs c gw d t :
  map snd (selected7 c (git_files gw (Store.select_fs d (r7_ext c) t))) = map snd (selected7 c (checkout gw d t)).
Proof.
  unfold selected7, git_files, checkout, Store.select_fs, wanted_file.
  induction t as [|e t IH]; [reflexivity|]. cbn [filter].
  destruct (Store.is_regular (Store.en_kind e) && Store.comps_prefix d (Store.dir_of (Store.en_path e))) eqn:Q; cbn [andb].
  - apply andb_true_iff in Q. destruct Q as [_ Q].
    cbn [map filter fst entry_file]. rewrite (file_name_below _ _ Q).
    destruct (Store.has_ext (r7_ext c) (Store.file_name (Store.en_path e))) eqn:Hx; cbn [map filter fst snd entry_file].
    + rewrite Hx. cbn [map snd]. rewrite IH. reflexivity.
    + exact IH.
  - exact IH.
Qed.

Section GitRuns.
  Variable H : list N -> list N.

  (* T07_git_eq_fs, on the states: the same transaction set, the same reports; the metadata differs by the Git item *)
  Lemma git_eq_fs_state c gw gs p id t stg :
    Store.resolve (gw_repo gw) (gs_sel gs) = Some id -> Store.lookup_commit (Store.commits (gw_repo gw)) id = Some t ->
    Store_spec.no_links t ->
    run7g_prepare H c gw gs p = Ok stg ->
    exists stf, run7_prepare H c (checkout gw (gs_dir gs) t) p = Ok stf
      /\ rs_sel stf = rs_sel stg
      /\ (forall k, report_text7 H c stg k = report_text7 H c stf k)
      /\ MetaText.make_items H (rc_audit (r7_base c)) (rc_algo (r7_base c)) (Some (git_reference7 c gw gs id))
                             (filter_desc (r7_base c)) (map uuid_of (rs_sel stg)) = Ok (rs_md stg)
      /\ MetaText.make_items H (rc_audit (r7_base c)) (rc_algo (r7_base c)) None
                             (filter_desc (r7_base c)) (map uuid_of (rs_sel stg)) = Ok (rs_md stf).
  Proof.
    intros Hr Hl Hn. unfold run7g_prepare. rewrite run7_prepare_unfold. cbv zeta.
    destruct (price_setup (r7_base c) p) as [pr|e]; cbn [res_bind]; [|discriminate].
    unfold Store.load_git. rewrite Hr, Hl. rewrite (Store_proofs.select_git_eq_fs _ _ _ Hn). cbn [option_map].
    destruct (load_reads_texts c _ _ (git_texts_eq_fs c gw (gs_dir gs) t)) as [El Eg]. rewrite El. unfold cont7.
    destruct (load_dir c (checkout gw (gs_dir gs) t)) as [js0|e]; cbn [res_bind]; [|discriminate].
    destruct (audit_uuids (rc_audit (r7_base c)) js0) as [js|e]; cbn [res_bind]; [|discriminate].
    rewrite Eg. destruct (chart_gate c (fst pr) (checkout gw (gs_dir gs) t)) as [u|e]; cbn [res_bind]; [|discriminate].
    intros Hp. destruct (prepare_with_indep H _ None _ _ _ _ Hp) as (stf & Hf & A & B & C & D & M1 & M2).
    exists stf. split; [exact Hf|]. split; [exact A|]. split; [|split; assumption].
    intros k. apply report_text7_state; symmetry; assumption.
  Qed.

  (* ... and on the console: the same framed reports after a metadata block that differs by the Git item *)
  Lemma git_eq_fs_console c gw gs p id t out :
    Store.resolve (gw_repo gw) (gs_sel gs) = Some id -> Store.lookup_commit (Store.commits (gw_repo gw)) id = Some t ->
    Store_spec.no_links t -> rc_targets (r7_base c) <> [] ->
    run7g_console H c gw gs p = Ok out ->
    exists mdg mdf us rs,
      MetaText.make_items H (rc_audit (r7_base c)) (rc_algo (r7_base c)) (Some (git_reference7 c gw gs id)) (filter_desc (r7_base c)) us = Ok mdg
      /\ MetaText.make_items H (rc_audit (r7_base c)) (rc_algo (r7_base c)) None (filter_desc (r7_base c)) us = Ok mdf
      /\ out = console_text mdg rs
      /\ run7_console H c (checkout gw (gs_dir gs) t) p = Ok (console_text mdf rs).
  Proof.
    intros Hr Hl Hn Ht. unfold run7g_console.
    destruct (run7g_prepare H c gw gs p) as [stg|e] eqn:Eg; cbn [res_bind]; [|discriminate].
    destruct (git_eq_fs_state c gw gs p id t stg Hr Hl Hn Eg) as (stf & Ef & _ & Hk & M1 & M2).
    unfold console_with. destruct (rc_targets (r7_base c)) as [|k0 ks] eqn:Et; [contradiction|].
    destruct (mapO (report_text7 H c stg) (k0 :: ks)) as [rs|] eqn:Em; [|discriminate].
    intros Ho. inversion Ho; subst out.
    exists (rs_md stg), (rs_md stf), (map uuid_of (rs_sel stg)), rs. split; [exact M1|]. split; [exact M2|]. split; [reflexivity|].
    unfold run7_console. rewrite Ef. cbn [res_bind]. unfold console_with. rewrite Et.
    rewrite <- (mapO_ext _ _ (k0 :: ks) Hk), Em. reflexivity.
  Qed.
End GitRuns.

(* ================================================================== the statements of props/T07.v that combine lemmas *)
Lemma files_distribution_nocharts H c files files' p ls ls' :
  gate_on c = false ->
  file_results c files = Ok ls -> file_results c files' = Ok ls' ->
  Permutation (concat ls) (concat ls') -> distinct_jhdrs (concat ls) ->
  run7_console H c files p = run7_console H c files' p /\ run7_files H c files p = run7_files H c files' p.
Proof.
  intros Hg H1 H2 Hp Hd. apply (files_distribution H c files files' p ls ls' H1 H2 Hp Hd).
  intros price. rewrite !gate_off by exact Hg. reflexivity.
Qed.

Lemma files_order_nocharts H c files files' p :
  gate_on c = false -> Permutation files files' ->
  (forall ls, file_results c files = Ok ls -> distinct_jhdrs (concat ls)) ->
  same_outcome (run7_console H c files p) (run7_console H c files' p)
  /\ same_outcome (run7_files H c files p) (run7_files H c files' p).
Proof.
  intros Hg Hp Hd. apply (files_order H c files files' p Hp Hd). intros price. rewrite !gate_off by exact Hg. reflexivity.
Qed.

Lemma selector_rows c st :
  let b := r7_base c in
  let ps := conv_bposts (report_ctx (rs_lk st) (rc_commodity b) (rs_db st) (rs_txns st)) (sort_txns (rs_txns st)) in
  (* balance *)
  (forall rep, Forall bpost_wf ps ->
     bal_report7 (Select.report_selector (pats_of c MetaText.RBalance)) st (rc_commodity b) = Some rep ->
     exists rows, balance (fun _ => true) ord_sorted ps = Some rows
       /\ b_rows rep = filter (must_listb false (pats_of c MetaText.RBalance)) rows
       /\ (forall r, In r (b_rows rep) <-> In r rows /\ name_selected (pats_of c MetaText.RBalance) (r_acc r))
       /\ (forall r, In r (b_rows rep) -> d28 (r_own r) = spec_own ps (r_key r) /\ d28 (r_tree r) = spec_tree ps (r_key r)))
  (* register *)
  /\ reg_report7 (reg_selector (pats_of c MetaText.RRegister)) st (rc_commodity b)
     = map (restrict (reg_selector (pats_of c MetaText.RRegister))) (reg_report7 sel_all st (rc_commodity b))
  /\ (forall e r, In r (re_rows (restrict (reg_selector (pats_of c MetaText.RRegister)) e))
                  <-> In r (re_rows e) /\ name_selected (pats_of c MetaText.RRegister) (p_acc (rr_post r)))
  (* the texts of the run are the texts of these rows *)
  /\ report_body7 c st MetaText.RBalance
     = option_map (fun rep => bal_txt_report (rc_title_bal b) (rc_scale b) (b_rows rep) (b_deltas rep))
                  (bal_report7 (Select.report_selector (pats_of c MetaText.RBalance)) st (rc_commodity b))
  /\ report_body7 c st MetaText.RRegister
     = Some (reg_txt_report (rc_title_reg b) (rc_scale b) (filler_width (rs_lk st)) (ts_text b)
                            (reg_report7 (reg_selector (pats_of c MetaText.RRegister)) st (rc_commodity b))).
Proof.
  intros b ps. split; [|split; [|split; [|split]]].
  - intros rep Hwf Hr. exact (selector_rows_balance st (rc_commodity b) _ rep Hwf Hr).
  - apply (proj1 (selector_rows_register st (rc_commodity b) _)).
  - apply (proj2 (selector_rows_register st (rc_commodity b) (pats_of c MetaText.RRegister))).
  - reflexivity.
  - reflexivity.
Qed.

(* ================================================================== non-vacuity *)
(* the run of T06's example with the journal split over txns/2024/a.txn and txns/.late/b.txn, next to a file
   with another suffix and one whose name is only the suffix; chart files declaring exactly the names used
   (a:b, e, x; ACME, EUR; tag t1), strict mode; the account selector "a, optionally followed by a colon and anything" for every report *)
Definition ex7_pat : re := (Seq (Chr 97%N) (Opt (Group false (Seq (Chr 58%N) (Star Any))))).
Definition ex7_charts : chart_cfg :=
  mkChartCfg [[[97]%N; [98]%N]; [[101]%N]; [[120]%N]] [[65; 67; 77; 69]%N; [69; 85; 82]%N] true [[116; 49]%N].
Definition ex7 : run7 := mkRun7 ex_cfg [116; 120; 110]%N true (Some ex7_charts) (Some [ex7_pat]) None None None None.
Definition ex7_files : list (list (list N) * list N) :=
  [([[50; 48; 50; 52]%N; [97; 46; 116; 120; 110]%N], [50; 48; 50; 52; 45; 48; 49; 45; 48; 53; 32; 40; 99; 49; 41; 32; 39; 111; 110; 101; 10; 32; 35; 32; 117; 117; 105; 100; 58; 32; 49; 49; 49; 49; 49; 49; 49; 49; 45; 49; 49; 49; 49; 45; 52; 49; 49; 49; 45; 56; 49; 49; 49; 45; 49; 49; 49; 49; 49; 49; 49; 49; 49; 49; 49; 49; 10; 32; 35; 32; 116; 97; 103; 115; 58; 32; 116; 49; 10; 32; 97; 58; 98; 32; 32; 49; 48; 46; 48; 48; 53; 32; 65; 67; 77; 69; 10; 32; 101; 32; 32; 45; 49; 48; 46; 48; 48; 53; 32; 65; 67; 77; 69; 10]%N); ([[110; 111; 116; 101; 115; 46; 116; 120; 116]%N], [110; 111; 116; 32; 97; 32; 106; 111; 117; 114; 110; 97; 108; 10]%N); ([[46; 108; 97; 116; 101]%N; [98; 46; 116; 120; 110]%N], [50; 48; 50; 52; 45; 48; 50; 45; 49; 48; 84; 50; 51; 58; 51; 48; 58; 48; 48; 90; 32; 39; 116; 119; 111; 10; 32; 97; 58; 98; 32; 32; 50; 46; 53; 32; 69; 85; 82; 10; 32; 120; 10]%N); ([[115; 117; 98]%N; [46; 116; 120; 110]%N], [106; 117; 110; 107; 10]%N)].
Definition ex7_undeclared : run7 :=
  mkRun7 ex_cfg [116; 120; 110]%N true (Some (mkChartCfg [[[97]%N; [98]%N]; [[101]%N]] [[65; 67; 77; 69]%N; [69; 85; 82]%N] true [[116; 49]%N])) (Some [ex7_pat]) None None None None.

Lemma t07_example :
  (exists out, run7_console ex_H ex7 ex7_files (Some ex_prices) = Ok out
               /\ run7_console ex_H ex7 (rev ex7_files) (Some ex_prices) = Ok out
               /\ run7_console ex_H (lax ex7) ex7_files (Some ex_prices) = Ok out
               /\ length out = 1304%nat)
  /\ map fst (selected7 ex7 ex7_files) = [[[50; 48; 50; 52]%N; [97; 46; 116; 120; 110]%N]; [[46; 108; 97; 116; 101]%N; [98; 46; 116; 120; 110]%N]]
  /\ (exists e, run7_console ex_H ex7_undeclared ex7_files (Some ex_prices) = Err e)
  /\ (exists out, run7_console ex_H (lax ex7_undeclared) ex7_files (Some ex_prices) = Ok out)
  /\ full_haystack_is_match ex7_pat [97; 58; 98]%N = true /\ full_haystack_is_match ex7_pat [97; 98]%N = false.
Proof.
  split; [eexists; split; [vm_compute; reflexivity|split; [vm_compute; reflexivity|split; vm_compute; reflexivity]]|].
  split; [vm_compute; reflexivity|]. split; [eexists; vm_compute; reflexivity|]. split; [eexists; vm_compute; reflexivity|].
  split; vm_compute; reflexivity.
Qed.
