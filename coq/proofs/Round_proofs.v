(* Round_proofs.v — lemmas for C17 (rounding half away from zero, display only).
   Standard library only. Lemma names carry the prefix c17_ where they could clash. *)
From Coq Require Import QArith Qround Qabs Lia.
From TkModel Require Import Base Dec Acct Balance Round.
From TkSpec Require Import Balance_spec Round_spec.
Local Open Scope Z_scope.

(* ------------------------------------------------------------------ powers of ten *)
Lemma c17_pow10_pos n : 0 < pow10 n.
Proof. unfold pow10. apply Z.pow_pos_nonneg; lia. Qed.

Lemma c17_pow10_0 : pow10 0 = 1.
Proof. reflexivity. Qed.

Lemma c17_pow10_add a b : pow10 (a + b) = pow10 a * pow10 b.
Proof. unfold pow10. rewrite N2Z.inj_add, Z.pow_add_r by lia. reflexivity. Qed.

Lemma c17_pow10_split a b : (b <= a)%N -> pow10 a = pow10 b * pow10 (a - b).
Proof. intros H. rewrite <- c17_pow10_add. f_equal. lia. Qed.

Lemma c17_pow10_succ n : (0 < n)%N -> pow10 n = 10 * pow10 (n - 1).
Proof.
  intros H. replace n with (1 + (n - 1))%N at 1 by lia. rewrite c17_pow10_add. reflexivity.
Qed.

Lemma c17_pow10_nat n : pow10 (N.of_nat (S n)) = 10 * pow10 (N.of_nat n).
Proof. rewrite c17_pow10_succ by lia. do 2 f_equal. lia. Qed.

Lemma ppow10_pow10 k : Zpos (ppow10 k) = pow10 k.
Proof.
  destruct k as [|p]; [reflexivity|]. unfold ppow10, pow10. cbn [Z.of_N].
  rewrite Pos2Z.inj_pow. reflexivity.
Qed.

(* ------------------------------------------------------------------ integer core of rounding *)
(* numerator of  floor(a/10^s * 10^k + 1/2)  *)
Definition hu (a : Z) (s k : N) : Z := (2 * a * pow10 k + pow10 s) / (2 * pow10 s).
Definition hafz_num (m : Z) (s k : N) : Z := if 0 <=? m then hu m s k else - hu (- m) s k.

Lemma hu_small a s k : (s <= k)%N -> hu a s k = a * pow10 (k - s).
Proof.
  intros H. unfold hu. rewrite (c17_pow10_split k s H).
  pose proof (c17_pow10_pos s) as Hs. set (E := pow10 (k - s)). set (T := pow10 s) in *.
  replace (2 * a * (T * E) + T) with (T * (2 * (a * E) + 1)) by ring.
  replace (2 * T) with (T * 2) by ring.
  rewrite Z.div_mul_cancel_l by lia.
  replace (2 * (a * E) + 1) with (1 + (a * E) * 2) by ring.
  rewrite Z.div_add by lia. reflexivity.
Qed.

Lemma hu_large a s k : (k < s)%N ->
  hu a s k = (2 * a + pow10 (s - k)) / (2 * pow10 (s - k)).
Proof.
  intros H. unfold hu. rewrite (c17_pow10_split s k) by lia.
  pose proof (c17_pow10_pos k) as Hk. pose proof (c17_pow10_pos (s - k)) as Hd.
  set (D := pow10 (s - k)) in *. set (T := pow10 k) in *.
  replace (2 * a * T + T * D) with (T * (2 * a + D)) by ring.
  replace (2 * (T * D)) with (T * (2 * D)) by ring.
  rewrite Z.div_mul_cancel_l by lia. reflexivity.
Qed.

(* the library's procedure (truncate, compare the dropped part with the cap) computes hu *)
Lemma round_core a D cap : 0 <= a -> 0 < cap -> D = 2 * cap ->
  (match (a - a / D * D) ?= cap with Lt => a / D | _ => a / D + 1 end) = (2 * a + D) / (2 * D).
Proof.
  intros Ha Hc HD.
  pose proof (Z.div_mod a D ltac:(lia)) as E. pose proof (Z.mod_pos_bound a D ltac:(lia)) as B.
  set (q := a / D) in *. set (r := a mod D) in *.
  replace (a - q * D) with r by lia.
  destruct (Z.compare_spec r cap) as [H|H|H].
  - apply Z.div_unique with (r := 2 * r + D - 2 * D); lia.
  - apply Z.div_unique with (r := 2 * r + D); lia.
  - apply Z.div_unique with (r := 2 * r + D - 2 * D); lia.
Qed.

Lemma dround_large d k : (k < ds d)%N ->
  dround_hafz d k = mkDec (hafz_num (dm d) (ds d) k) k.
Proof.
  intros H. unfold dround_hafz. destruct (N.leb_spec (ds d) k) as [L|L]; [lia|].
  f_equal. unfold hafz_num.
  pose proof (c17_pow10_pos (ds d - k - 1)) as Hc.
  assert (HD : pow10 (ds d - k) = 2 * (5 * pow10 (ds d - k - 1))).
  { rewrite (c17_pow10_succ (ds d - k)) by lia. ring. }
  rewrite (round_core (Z.abs (dm d)) (pow10 (ds d - k)) (5 * pow10 (ds d - k - 1))) by lia.
  rewrite !hu_large by lia.
  destruct (Z.ltb_spec (dm d) 0) as [N|N]; destruct (Z.leb_spec 0 (dm d)) as [P|P]; try lia.
  - rewrite Z.abs_neq by lia. reflexivity.
  - rewrite Z.abs_eq by lia. reflexivity.
Qed.

Lemma dround_small d k : (ds d <= k)%N -> dround_hafz d k = d.
Proof. intros H. unfold dround_hafz. destruct (N.leb_spec (ds d) k); [reflexivity|lia]. Qed.

Lemma hafz_num_small m s k : (s <= k)%N -> hafz_num m s k = m * pow10 (k - s).
Proof.
  intros H. unfold hafz_num. rewrite !hu_small by assumption.
  destruct (0 <=? m); ring.
Qed.

Lemma ds_dround d k : (ds (dround_hafz d k) <= k)%N.
Proof.
  unfold dround_hafz. destruct (N.leb_spec (ds d) k); cbn [ds]; lia.
Qed.

(* ------------------------------------------------------------------ the rational specification *)
Lemma half_up_qmake a s k : half_up k (Qmake a (ppow10 s)) = Qmake (hu a s k) (ppow10 k).
Proof.
  unfold half_up, hu. f_equal.
  unfold Qmult, Qplus, inject_Z, Qfloor. cbn [Qnum Qden].
  rewrite !Pos2Z.inj_mul, ppow10_pow10. f_equal; ring.
Qed.

Lemma hafz_qval d k : hafz k (qval d) = Qmake (hafz_num (dm d) (ds d) k) (ppow10 k).
Proof.
  unfold hafz, qval, hafz_num.
  replace (Qle_bool 0 (Qmake (dm d) (ppow10 (ds d)))) with (0 <=? dm d).
  2:{ unfold Qle_bool. cbn [Qnum Qden]. rewrite Z.mul_1_r. reflexivity. }
  destruct (0 <=? dm d).
  - apply half_up_qmake.
  - unfold Qopp at 2. cbn [Qnum Qden]. rewrite half_up_qmake. reflexivity.
Qed.

Lemma qval_scale_up m s k : (s <= k)%N ->
  (Qmake (m * pow10 (k - s)) (ppow10 k) == Qmake m (ppow10 s))%Q.
Proof.
  intros H. unfold Qeq. cbn [Qnum Qden]. rewrite !ppow10_pow10.
  rewrite (c17_pow10_split k s H). ring.
Qed.

(* the model of round_dp_with_strategy is round-half-away-from-zero on the exact value *)
Lemma dround_hafz_spec d k : (qval (dround_hafz d k) == hafz k (qval d))%Q.
Proof.
  rewrite hafz_qval. destruct (N.lt_ge_cases k (ds d)) as [H|H].
  - rewrite dround_large by assumption. reflexivity.
  - rewrite dround_small, hafz_num_small by assumption.
    symmetry. apply qval_scale_up. assumption.
Qed.

(* a figure that can be written with k decimals is its own rounding *)
Lemma needs_small d k : (ds d <= k)%N -> needs_at_most d k = true.
Proof.
  intros H. unfold needs_at_most. replace (ds d - k)%N with 0%N by lia.
  rewrite c17_pow10_0, Z.mod_1_r. reflexivity.
Qed.

Lemma hafz_fits d k : needs_at_most d k = true -> (hafz k (qval d) == qval d)%Q.
Proof.
  intros F. rewrite hafz_qval. destruct (N.lt_ge_cases k (ds d)) as [H|H].
  2:{ rewrite hafz_num_small by assumption. apply qval_scale_up. assumption. }
  unfold needs_at_most in F. apply Z.eqb_eq in F.
  pose proof (c17_pow10_pos (ds d - k)) as HD.
  set (D := pow10 (ds d - k)) in *.
  assert (E : dm d = D * (dm d / D)) by (pose proof (Z.div_mod (dm d) D ltac:(lia)); lia).
  set (c := dm d / D) in *.
  assert (HN : hafz_num (dm d) (ds d) k = c).
  { unfold hafz_num. rewrite !hu_large by assumption. fold D.
    destruct (Z.leb_spec 0 (dm d)) as [P|P].
    - rewrite E. replace (2 * (D * c) + D) with (D * (2 * c + 1)) by ring.
      replace (2 * D) with (D * 2) by ring. rewrite Z.div_mul_cancel_l by lia.
      replace (2 * c + 1) with (1 + c * 2) by ring. rewrite Z.div_add by lia. reflexivity.
    - rewrite E. replace (2 * - (D * c) + D) with (D * (1 + (- c) * 2)) by ring.
      replace (2 * D) with (D * 2) by ring. rewrite Z.div_mul_cancel_l by lia.
      rewrite Z.div_add by lia. cbn. ring. }
  rewrite HN. unfold qval, Qeq. cbn [Qnum Qden]. rewrite !ppow10_pow10.
  rewrite (c17_pow10_split (ds d) k) by lia. fold D. rewrite E. ring.
Qed.

(* ------------------------------------------------------------------ precision, shown *)
Lemma precision_bounds sc d : (sc_min sc <= sc_max sc)%N ->
  (sc_min sc <= precision sc d <= sc_max sc)%N.
Proof. unfold precision. lia. Qed.

Lemma precision_small sc d : (ds d <= sc_max sc)%N -> (ds d <= precision sc d)%N.
Proof. unfold precision. lia. Qed.

Lemma precision_large sc d : (sc_min sc <= sc_max sc)%N -> (sc_max sc <= ds d)%N ->
  precision sc d = sc_max sc.
Proof. unfold precision. lia. Qed.

(* whatever the stored scale: the value shown is the exact value rounded to max decimals *)
Lemma shown_value sc d : (sc_min sc <= sc_max sc)%N ->
  (qval (shown_dec sc d) == hafz (sc_max sc) (qval d))%Q.
Proof.
  intros W. unfold shown_dec. rewrite dround_hafz_spec.
  destruct (N.le_gt_cases (sc_max sc) (ds d)) as [H|H].
  - rewrite precision_large by assumption. reflexivity.
  - rewrite !hafz_fits; [reflexivity | |]; apply needs_small; [lia|].
    apply precision_small. lia.
Qed.

Lemma shown_exact sc d : (sc_min sc <= sc_max sc)%N ->
  needs_at_most d (sc_max sc) = true -> (qval (shown_dec sc d) == qval d)%Q.
Proof. intros W F. rewrite shown_value by assumption. apply hafz_fits. assumption. Qed.

Lemma shown_rounded sc d : (sc_min sc <= sc_max sc)%N ->
  needs_at_most d (sc_max sc) = false ->
  ds (shown_dec sc d) = sc_max sc /\ precision sc d = sc_max sc
  /\ (qval (shown_dec sc d) == hafz (sc_max sc) (qval d))%Q.
Proof.
  intros W F.
  assert (H : (sc_max sc < ds d)%N).
  { destruct (N.lt_ge_cases (sc_max sc) (ds d)) as [H|H]; [assumption|].
    rewrite needs_small in F by assumption. discriminate. }
  assert (P : precision sc d = sc_max sc) by (apply precision_large; lia).
  split; [|split; [assumption | apply shown_value; assumption]].
  unfold shown_dec. rewrite P, dround_large by assumption. reflexivity.
Qed.

(* ------------------------------------------------------------------ nearest, midpoints *)
(* in units of the last stored decimal the shown value is within half a unit of the last
   SHOWN decimal of the exact value *)
Lemma dround_nearest d k : (k < ds d)%N ->
  2 * Z.abs (dm (dround_hafz d k) * pow10 (ds d - k) - dm d) <= pow10 (ds d - k).
Proof.
  intros H. rewrite dround_large by assumption. cbn [dm].
  unfold hafz_num. rewrite !hu_large by assumption.
  pose proof (c17_pow10_pos (ds d - k - 1)) as Hc.
  assert (HD : pow10 (ds d - k) = 2 * (5 * pow10 (ds d - k - 1))).
  { rewrite (c17_pow10_succ (ds d - k)) by lia. ring. }
  set (D := pow10 (ds d - k)) in *.
  destruct (Z.leb_spec 0 (dm d)) as [P|P].
  - pose proof (Z.div_mod (2 * dm d + D) (2 * D) ltac:(lia)) as E.
    pose proof (Z.mod_pos_bound (2 * dm d + D) (2 * D) ltac:(lia)) as B.
    set (q := (2 * dm d + D) / (2 * D)) in *. lia.
  - pose proof (Z.div_mod (2 * - dm d + D) (2 * D) ltac:(lia)) as E.
    pose proof (Z.mod_pos_bound (2 * - dm d + D) (2 * D) ltac:(lia)) as B.
    set (q := (2 * - dm d + D) / (2 * D)) in *. lia.
Qed.

(* an exact midpoint is moved away from zero: the magnitude shown is the truncated
   magnitude plus one unit of the last shown decimal *)
Lemma dround_midpoint d k : (k < ds d)%N ->
  2 * (Z.abs (dm d) mod pow10 (ds d - k)) = pow10 (ds d - k) ->
  Z.abs (dm (dround_hafz d k)) = Z.abs (dm d) / pow10 (ds d - k) + 1
  /\ (Qabs (qval d) < Qabs (qval (dround_hafz d k)))%Q.
Proof.
  intros H M. rewrite dround_large by assumption. cbn [dm].
  pose proof (c17_pow10_pos (ds d - k)) as HD. pose proof (c17_pow10_pos k) as HK.
  assert (A : Z.abs (hafz_num (dm d) (ds d) k) = Z.abs (dm d) / pow10 (ds d - k) + 1).
  { unfold hafz_num. rewrite !hu_large by assumption.
    set (D := pow10 (ds d - k)) in *.
    pose proof (Z.div_mod (Z.abs (dm d)) D ltac:(lia)) as E.
    pose proof (Z.mod_pos_bound (Z.abs (dm d)) D ltac:(lia)) as B.
    set (q := Z.abs (dm d) / D) in *. set (r := Z.abs (dm d) mod D) in *.
    assert (Q0 : 0 <= q) by (apply Z.div_pos; lia).
    destruct (Z.leb_spec 0 (dm d)) as [P|P].
    - rewrite Z.abs_eq in E by lia.
      rewrite <- (Z.div_unique (2 * dm d + D) (2 * D) (q + 1) 0) by lia. lia.
    - rewrite Z.abs_neq in E by lia.
      rewrite <- (Z.div_unique (2 * - dm d + D) (2 * D) (q + 1) 0) by lia. lia. }
  split; [assumption|].
  unfold qval, Qabs, Qlt. cbn [Qnum Qden ds dm]. rewrite A, !ppow10_pow10.
  rewrite (c17_pow10_split (ds d) k) by lia.
  set (D := pow10 (ds d - k)) in *. set (T := pow10 k) in *.
  pose proof (Z.div_mod (Z.abs (dm d)) D ltac:(lia)) as E.
  pose proof (Z.mod_pos_bound (Z.abs (dm d)) D ltac:(lia)) as B.
  set (q := Z.abs (dm d) / D) in *.
  replace ((q + 1) * (T * D)) with (T * (D * q + D)) by ring.
  rewrite Z.mul_comm. apply Z.mul_lt_mono_pos_l; lia.
Qed.

(* ------------------------------------------------------------------ only the value matters *)
Lemma half_up_comp k q q' : (q == q')%Q -> half_up k q = half_up k q'.
Proof.
  intros E. unfold half_up. f_equal. apply Qfloor_comp. rewrite E. reflexivity.
Qed.

Lemma hafz_comp k q q' : (q == q')%Q -> (hafz k q == hafz k q')%Q.
Proof.
  intros E. unfold hafz. rewrite (Qleb_comp 0%Q 0%Q (Qeq_refl 0%Q) q q' E).
  destruct (Qle_bool 0 q').
  - rewrite (half_up_comp k q q' E). reflexivity.
  - rewrite (half_up_comp k (- q) (- q')%Q) by (rewrite E; reflexivity). reflexivity.
Qed.

Lemma qval_q28 d : dwf d -> (qval d == q28 (d28 d))%Q.
Proof.
  intros W. unfold dwf in W. unfold qval, q28, d28, Qeq. cbn [Qnum Qden].
  rewrite !ppow10_pow10. rewrite (c17_pow10_split 28 (ds d)) by assumption. ring.
Qed.

(* what is shown is a function of the exact value alone (not of the stored scale, not of
   the way the figure was accumulated) *)
Lemma shown_of_exact sc d z : (sc_min sc <= sc_max sc)%N -> dwf d -> d28 d = z ->
  (qval (shown_dec sc d) == hafz (sc_max sc) (q28 z))%Q.
Proof.
  intros W F E. rewrite shown_value by assumption. apply hafz_comp.
  rewrite <- E. apply qval_q28. assumption.
Qed.

Lemma shown_same_value sc d d' : (sc_min sc <= sc_max sc)%N -> (qval d == qval d')%Q ->
  (qval (shown_dec sc d) == qval (shown_dec sc d'))%Q.
Proof.
  intros W E. rewrite !shown_value by assumption. apply hafz_comp. assumption.
Qed.

(* ------------------------------------------------------------------ printed digits, read back *)
Definition is_digit (c : N) : Prop := (48 <= c <= 57)%N.

(* the number written by a run of digits, continuing from m *)
Definition foldd (l : str) (m : Z) : Z := fold_left (fun m c => 10 * m + Z.of_N (c - 48)) l m.

Lemma foldd_app l1 l2 m : foldd (l1 ++ l2) m = foldd l2 (foldd l1 m).
Proof. unfold foldd. apply fold_left_app. Qed.

Lemma digit_is_digit n : 0 <= n <= 9 -> is_digit (digit n).
Proof. intros H. unfold is_digit, digit. lia. Qed.

Lemma digit_val n : 0 <= n <= 9 -> Z.of_N (digit n - 48) = n.
Proof. intros H. unfold digit. lia. Qed.

Lemma dread_go_digits l : Forall is_digit l -> forall rest m dot k,
  dread_go (l ++ rest) m dot k
  = dread_go rest (foldd l m) dot (if dot then (k + N.of_nat (length l))%N else k).
Proof.
  induction 1 as [|c l Hc Hl IH]; intros rest m dot k.
  - cbn. destruct dot; [f_equal; lia | reflexivity].
  - cbn [app dread_go length]. unfold is_digit in Hc.
    destruct (N.eqb_spec c 46) as [E|E]; [lia|].
    destruct (N.leb_spec 48 c) as [L1|L1]; [|lia].
    destruct (N.leb_spec c 57) as [L2|L2]; [|lia].
    cbn [andb]. rewrite IH. cbn [foldd fold_left]. destruct dot; [f_equal; lia | reflexivity].
Qed.

Lemma fixed_digits_ok k : forall n, 0 <= n ->
  Forall is_digit (fixed_digits n k) /\ length (fixed_digits n k) = k
  /\ forall m, foldd (fixed_digits n k) m = m * pow10 (N.of_nat k) + n mod pow10 (N.of_nat k).
Proof.
  induction k as [|k IH]; intros n Hn.
  - cbn [fixed_digits length foldd fold_left]. repeat split; [constructor|].
    intros m. cbn [N.of_nat]. rewrite c17_pow10_0, Z.mod_1_r. ring.
  - cbn [fixed_digits].
    assert (Hq : 0 <= n / 10) by (apply Z.div_pos; lia).
    destruct (IH (n / 10) Hq) as (F & L & V).
    pose proof (Z.mod_pos_bound n 10 ltac:(lia)) as B.
    repeat split.
    + apply Forall_app. split; [assumption|]. constructor; [|constructor].
      apply digit_is_digit. lia.
    + rewrite app_length, L. cbn. lia.
    + intros m. rewrite foldd_app, V. cbn [foldd fold_left]. rewrite digit_val by lia.
      rewrite c17_pow10_nat.
      pose proof (c17_pow10_pos (N.of_nat k)) as HT. set (T := pow10 (N.of_nat k)) in *.
      rewrite (Z.rem_mul_r n 10 T) by lia. ring.
Qed.

Lemma int_digits_ok fuel : forall n, 0 <= n < 10 ^ Z.of_nat fuel -> (0 < fuel)%nat ->
  Forall is_digit (int_digits fuel n) /\ int_digits fuel n <> [] /\ foldd (int_digits fuel n) 0 = n.
Proof.
  induction fuel as [|f IH]; intros n Hn Hf; [lia|].
  cbn [int_digits].
  pose proof (Z.mod_pos_bound n 10 ltac:(lia)) as B.
  pose proof (Z.div_mod n 10 ltac:(lia)) as E.
  destruct (Z.ltb_spec n 10) as [S|S].
  - cbn [app]. repeat split.
    + constructor; [|constructor]. apply digit_is_digit. lia.
    + discriminate.
    + cbn [foldd fold_left]. rewrite digit_val by lia. rewrite Z.mod_small by lia. ring.
  - assert (Hq : 0 <= n / 10 < 10 ^ Z.of_nat f).
    { split; [apply Z.div_pos; lia|]. apply Z.div_lt_upper_bound; [lia|].
      rewrite Nat2Z.inj_succ, Z.pow_succ_r in Hn by lia. lia. }
    assert (Hf' : (0 < f)%nat).
    { destruct f; [|lia]. cbn in Hq. lia. }
    destruct (IH (n / 10) Hq Hf') as (F & NE & V).
    repeat split.
    + apply Forall_app. split; [assumption|]. constructor; [|constructor].
      apply digit_is_digit. lia.
    + intros C. apply app_eq_nil in C. destruct C as [_ C]. discriminate.
    + rewrite foldd_app, V. cbn [foldd fold_left]. rewrite digit_val by lia. lia.
Qed.

Lemma nat_digits_ok n : 0 <= n ->
  Forall is_digit (nat_digits n) /\ nat_digits n <> [] /\ foldd (nat_digits n) 0 = n.
Proof.
  intros Hn. unfold nat_digits. apply int_digits_ok; [|lia].
  split; [assumption|].
  destruct (Z.eq_dec n 0) as [->|NZ]; [cbn; lia|].
  pose proof (Z.log2_spec n ltac:(lia)) as [_ U].
  pose proof (Z.log2_nonneg n) as L0.
  rewrite Nat2Z.inj_succ, Z2Nat.id by assumption.
  eapply Z.lt_le_trans; [exact U|].
  apply Z.pow_le_mono_l. lia.
Qed.

(* what the text printed by Display-with-precision denotes, when nothing is cut off *)
Lemma dread_dfmt_raw d p : (ds d <= p)%N ->
  dread (dfmt_raw d p) = Some (mkDec (dm d * pow10 (p - ds d)) p).
Proof.
  intros H. unfold dfmt_raw, dfmt_int. cbv zeta.
  pose proof (c17_pow10_pos (ds d)) as HS. pose proof (c17_pow10_pos (p - ds d)) as HE.
  set (a := Z.abs (dm d)). assert (Ha : 0 <= a) by (unfold a; lia).
  set (T := pow10 (ds d)) in *.
  pose proof (Z.div_mod a T ltac:(lia)) as E. pose proof (Z.mod_pos_bound a T ltac:(lia)) as B.
  assert (Hip : 0 <= a / T) by (apply Z.div_pos; lia).
  destruct (nat_digits_ok (a / T) Hip) as (F & NE & V).
  replace (ds d - p)%N with 0%N by lia. rewrite c17_pow10_0, Z.div_1_r.
  set (frac := a mod T * pow10 (p - ds d)).
  set (tail := if (p =? 0)%N then [] else ch_dot :: fixed_digits frac (N.to_nat p)).
  (* the unsigned part *)
  assert (U : dread_go (nat_digits (a / T) ++ tail) 0 false 0%N = Some (a * pow10 (p - ds d), p)).
  { rewrite dread_go_digits by assumption. rewrite V. unfold tail.
    destruct (N.eqb_spec p 0) as [P0|P0].
    - cbn [dread_go]. assert (S0 : ds d = 0%N) by lia.
      assert (T1 : T = 1) by (unfold T; rewrite S0; reflexivity).
      rewrite T1, Z.div_1_r. replace (p - ds d)%N with 0%N by lia.
      rewrite c17_pow10_0, P0. do 2 f_equal. ring.
    - cbn [dread_go ch_dot N.eqb Pos.eqb].
      assert (Hfr : 0 <= frac) by (unfold frac; apply Z.mul_nonneg_nonneg; lia).
      destruct (fixed_digits_ok (N.to_nat p) frac Hfr) as (F2 & L2 & V2).
      rewrite <- (app_nil_r (fixed_digits frac (N.to_nat p))).
      rewrite dread_go_digits by assumption. cbn [dread_go]. rewrite V2, L2, N2Nat.id.
      replace (0 + p)%N with p by lia. do 2 f_equal.
      assert (frac < pow10 p).
      { unfold frac. rewrite (c17_pow10_split p (ds d) H). fold T.
        apply Z.mul_lt_mono_pos_r; lia. }
      rewrite Z.mod_small by lia. unfold frac.
      rewrite (c17_pow10_split p (ds d) H). fold T. rewrite E at 3. ring. }
  destruct (Z.ltb_spec (dm d) 0) as [N|N].
  - cbn [app dread ch_minus N.eqb Pos.eqb].
    destruct (nat_digits (a / T) ++ tail) as [|c l] eqn:EQ.
    { apply app_eq_nil in EQ. destruct EQ as [EQ _]. contradiction. }
    rewrite U. cbn [option_map fst snd]. do 2 f_equal. unfold a. rewrite Z.abs_neq by lia. ring.
  - cbn [app]. destruct (nat_digits (a / T)) as [|c l] eqn:EQ; [contradiction|].
    cbn [app dread]. inversion F as [|? ? Hc Hl]; subst. unfold is_digit in Hc.
    destruct (N.eqb_spec c 45) as [C|C]; [lia|].
    change (c :: l ++ tail) with ((c :: l) ++ tail). rewrite U.
    cbn [option_map fst snd]. do 2 f_equal. unfold a. rewrite Z.abs_eq by lia. reflexivity.
Qed.

(* hand padding (Scale::with_decimals) writes the same text as the library would with a
   precision: the stored decimals followed by zeros *)
Lemma fixed_digits_pad j : forall n k, 0 <= n ->
  fixed_digits (n * pow10 (N.of_nat j)) (k + j) = fixed_digits n k ++ repeat 48%N j.
Proof.
  induction j as [|j IH]; intros n k Hn.
  - cbn [N.of_nat repeat]. rewrite c17_pow10_0, Z.mul_1_r, Nat.add_0_r, app_nil_r. reflexivity.
  - rewrite Nat.add_succ_r. cbn [fixed_digits]. rewrite c17_pow10_nat.
    replace (n * (10 * pow10 (N.of_nat j))) with (n * pow10 (N.of_nat j) * 10) by ring.
    rewrite Z.div_mul, Z.mod_mul by lia. rewrite IH by assumption.
    rewrite <- app_assoc. f_equal. change [digit 0] with [48%N].
    rewrite <- repeat_cons. reflexivity.
Qed.

Lemma with_decimals_raw d p : (ds d <= p)%N -> with_decimals d p = dfmt_raw d p.
Proof.
  intros H. unfold with_decimals, dfmt.
  destruct (N.ltb_spec (ds d) p) as [L|L].
  2:{ replace p with (ds d) by lia. reflexivity. }
  unfold dfmt_raw. cbv zeta. rewrite <- !app_assoc. f_equal. f_equal.
  pose proof (c17_pow10_pos (ds d)) as HS.
  pose proof (Z.mod_pos_bound (Z.abs (dm d)) (pow10 (ds d)) HS) as B.
  set (fp := Z.abs (dm d) mod pow10 (ds d)) in *.
  rewrite !N.sub_diag, c17_pow10_0, Z.mul_1_r, Z.div_1_r.
  replace (ds d - p)%N with 0%N by lia. rewrite c17_pow10_0, Z.div_1_r.
  destruct (N.eqb_spec p 0) as [P0|P0]; [lia|].
  replace (pow10 (p - ds d)) with (pow10 (N.of_nat (N.to_nat (p - ds d)))) by (rewrite N2Nat.id; reflexivity).
  replace (N.to_nat p) with (N.to_nat (ds d) + N.to_nat (p - ds d))%nat by lia.
  rewrite fixed_digits_pad by lia.
  destruct (N.eqb_spec (ds d) 0) as [S0|S0].
  - rewrite S0. cbn [N.to_nat fixed_digits app]. reflexivity.
  - cbn [app]. reflexivity.
Qed.

(* whenever the library's Display-with-precision does not panic it prints what the hand
   padding prints *)
Lemma dfmt_prec_with_decimals d p t : (ds d <= p)%N -> dfmt_prec d p = Some t ->
  t = with_decimals d p.
Proof.
  intros H E. unfold dfmt_prec in E. destruct (dfmt_room d p); [|discriminate].
  inversion E. symmetry. apply with_decimals_raw. assumption.
Qed.

(* the text of a shown figure denotes the shown value, with exactly `precision` decimals *)
Lemma shown_text_reads sc d :
  dread (shown_text sc d)
  = Some (mkDec (dm (shown_dec sc d) * pow10 (precision sc d - ds (shown_dec sc d))) (precision sc d)).
Proof.
  unfold shown_text. assert (H : (ds (shown_dec sc d) <= precision sc d)%N)
    by (unfold shown_dec; apply ds_dround).
  rewrite with_decimals_raw by assumption. apply dread_dfmt_raw. assumption.
Qed.

Lemma shown_text_value sc d : exists r,
  dread (shown_text sc d) = Some r /\ ds r = precision sc d
  /\ (qval r == qval (shown_dec sc d))%Q.
Proof.
  eexists. split; [apply shown_text_reads|]. split; [reflexivity|].
  apply qval_scale_up. unfold shown_dec. apply ds_dround.
Qed.

Lemma shown_digits sc d : (sc_min sc <= sc_max sc)%N -> exists r,
  dread (shown_text sc d) = Some r
  /\ (sc_min sc <= ds r <= sc_max sc)%N
  /\ (qval r == qval (shown_dec sc d))%Q.
Proof.
  intros W. destruct (shown_text_value sc d) as (r & R & S & V).
  exists r. split; [assumption|]. split; [|assumption].
  rewrite S. apply precision_bounds. assumption.
Qed.

(* ------------------------------------------------------------------ the oracle *)
Lemma shown_ok_sound sc d t : shown_ok sc d t = true ->
  exists r, dread t = Some r
    /\ (sc_min sc <= ds r <= sc_max sc)%N
    /\ (qval r == hafz (sc_max sc) (qval d))%Q
    /\ (needs_at_most d (sc_max sc) = true -> (qval r == qval d)%Q).
Proof.
  unfold shown_ok. destruct (dread t) as [r|]; [|discriminate].
  intros H. apply andb_true_iff in H. destruct H as [H1 H2].
  apply andb_true_iff in H1. destruct H1 as [L1 L2].
  apply N.leb_le in L1. apply N.leb_le in L2. apply Qeq_bool_iff in H2.
  exists r. repeat split; try assumption.
  intros F. rewrite H2. apply hafz_fits. assumption.
Qed.

Lemma round_ok_sound k d r : round_ok k d r = true ->
  (ds r <= k)%N /\ (qval r == hafz k (qval d))%Q.
Proof.
  unfold round_ok. intros H. apply andb_true_iff in H. destruct H as [L E].
  apply N.leb_le in L. apply Qeq_bool_iff in E. split; assumption.
Qed.

(* the model passes the oracle: the oracle does not reject what the theorems allow *)
Lemma shown_ok_model sc d : (sc_min sc <= sc_max sc)%N -> shown_ok sc d (shown_text sc d) = true.
Proof.
  intros W. destruct (shown_digits sc d W) as (r & R & (L1 & L2) & V).
  unfold shown_ok. rewrite R. apply andb_true_iff. split.
  - apply andb_true_iff. split; apply N.leb_le; assumption.
  - apply Qeq_bool_iff. rewrite V. apply shown_value. assumption.
Qed.

Lemma round_ok_model k d : round_ok k d (dround_hafz d k) = true.
Proof.
  unfold round_ok. apply andb_true_iff. split.
  - apply N.leb_le. apply ds_dround.
  - apply Qeq_bool_iff. apply dround_hafz_spec.
Qed.

(* ------------------------------------------------------------------ display only: reports *)
(* every figure of a report goes through shown_text; what it shows is the rounding of the
   exact figure z, however z was accumulated *)
Lemma fig_display_only sc d z : (sc_min sc <= sc_max sc)%N -> dwf d -> d28 d = z ->
  shows sc (shown_text sc d) (q28 z).
Proof.
  intros W F E. destruct (shown_digits sc d W) as (r & R & B & V).
  exists r. split; [assumption|]. split; [assumption|].
  rewrite V. apply shown_of_exact; assumption.
Qed.

Lemma bal_rows_display_only sc ps rows : (sc_min sc <= sc_max sc)%N ->
  Forall (exact_row ps) rows -> Forall2 (row_shows sc ps) rows (bal_text_rows sc rows).
Proof.
  intros W H. induction H as [|r rows (F1 & F2 & E1 & E2) _ IH]; cbn [bal_text_rows map].
  - constructor.
  - constructor; [|exact IH]. unfold row_shows. cbn [bt_acc bt_comm bt_own bt_tree].
    split; [reflexivity|]. split; [reflexivity|].
    split; apply fig_display_only; assumption.
Qed.

Lemma c17_insert_in {A} (leb : A -> A -> bool) x y l : In y (insert_by leb x l) -> y = x \/ In y l.
Proof.
  induction l as [|z l IH]; cbn [insert_by].
  - intros [H|[]]. left. congruence.
  - destruct (leb x z); cbn [In].
    + intros [H|[H|H]]; [left; congruence | right; left; assumption | right; right; assumption].
    + intros [H|H]; [right; left; assumption|]. destruct (IH H); [left|right; right]; assumption.
Qed.

Lemma c17_sort_by_in {A} (leb : A -> A -> bool) y l : In y (sort_by leb l) -> In y l.
Proof.
  induction l as [|x l IH]; cbn [sort_by]; [tauto|].
  intros H. apply c17_insert_in in H. destruct H as [->|H]; [left; reflexivity | right; apply IH; assumption].
Qed.

Lemma bal_deltas_display_only sc rows deltas : (sc_min sc <= sc_max sc)%N ->
  (forall c d, In (c, d) deltas -> dwf d /\ d28 d = spec_delta rows c) ->
  forall t c, In (t, c) (bal_text_deltas sc deltas) -> shows sc t (q28 (spec_delta rows c)).
Proof.
  intros W H t c Hin. unfold bal_text_deltas in Hin. apply in_map_iff in Hin.
  destruct Hin as ([c' d] & E & Hin). cbn [fst snd] in E. inversion E; subst.
  apply c17_sort_by_in in Hin. destruct (H c d Hin) as [F Z].
  apply fig_display_only; assumption.
Qed.

(* register: amount and running total are both shown from the exact figures *)
Lemma reg_row_display_only sc amount total za zt : (sc_min sc <= sc_max sc)%N ->
  dwf amount -> dwf total -> d28 amount = za -> d28 total = zt ->
  shows sc (fst (reg_text_row sc amount total)) (q28 za)
  /\ shows sc (snd (reg_text_row sc amount total)) (q28 zt).
Proof. intros. split; apply fig_display_only; assumption. Qed.

(* ------------------------------------------------------------------ examples *)
Definition ex_sc : scale_cfg := mkScale 2 2.
Definition ex_ps : list bpost :=
  [ mkBpost [[97]; [98]]%N [] (mkDec 125 3);       (* a:b   0.125 *)
    mkBpost [[97]; [99]]%N [] (mkDec 125 3);       (* a:c   0.125 *)
    mkBpost [[101]]%N [] (mkDec (-25) 2) ].        (* e    -0.25  *)

(* the displayed total 0.25 of `a` is the rounded exact total, although its displayed
   parts 0.13 + 0.13 add up to 0.26 *)
Lemma display_example :
  exists rows, balance (fun _ => true) (fun l => l) ex_ps = Some rows
  /\ Forall (exact_row ex_ps) rows
  /\ map (fun tr => (bt_acc tr, bt_own tr, bt_tree tr)) (bal_text_rows ex_sc rows)
     = [ ([[97]],       [48; 46; 48; 48],     [48; 46; 50; 53]);          (* a     0.00  0.25 *)
         ([[97]; [98]], [48; 46; 49; 51],     [48; 46; 49; 51]);          (* a:b   0.13  0.13 *)
         ([[97]; [99]], [48; 46; 49; 51],     [48; 46; 49; 51]);          (* a:c   0.13  0.13 *)
         ([[101]],      [45; 48; 46; 50; 53], [45; 48; 46; 50; 53]) ]%N.  (* e    -0.25 -0.25 *)
Proof.
  eexists. split; [vm_compute; reflexivity|]. split.
  - repeat constructor; vm_compute; try reflexivity; discriminate.
  - vm_compute. reflexivity.
Qed.

(* midpoints go away from zero in both directions, at the last and at the first decimal;
   a negative figure that rounds to zero is shown without sign; a long figure under
   scale = { min = 28, max = 28 } is printed (33 characters; it used to panic, F18) *)
Lemma midpoint_examples :
  map (fun mk => shown_text (mkScale 0 (snd mk)) (mkDec (fst (fst mk)) (snd (fst mk))))
      [ (125, 3%N, 2%N); (-125, 3%N, 2%N); (25, 1%N, 0%N); (-25, 1%N, 0%N); (35, 1%N, 0%N);
        (5, 1%N, 0%N); (-4, 3%N, 2%N); (-5, 3%N, 2%N) ]
  = [ [48; 46; 49; 51]; [45; 48; 46; 49; 51]; [51]; [45; 51]; [52]; [49];
      [48; 46; 48; 48]; [45; 48; 46; 48; 49] ]%N
  /\ shown_text (mkScale 28 28) (mkDec 12345 1)
     = ([49; 50; 51; 52; 46; 53] ++ repeat 48 27)%N.
Proof. split; vm_compute; reflexivity. Qed.
