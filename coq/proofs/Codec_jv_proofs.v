(* Codec_jv_proofs.v — the serde layer of TkModel.Codec: Deserialize . Serialize = id on well-formed
   definitions, every parsed definition is well formed, what is rejected. *)
From TkModel Require Import Base Dec Codec.
From TkSpec Require Import Codec_spec.
From TkProofs Require Import Codec_proofs Codec_ts_proofs.
Local Open Scope Z_scope.

(* ---------------- induction on filters (nested lists) ---------------- *)
Definition cf_is_leaf (f : cfilter) : Prop :=
  match f with CAnd _ | COr _ | CNot _ => False | _ => True end.

Lemma c18_cfilter_ind (P : cfilter -> Prop) :
  (forall f, cf_is_leaf f -> P f) ->
  (forall fs, Forall P fs -> P (CAnd fs)) ->
  (forall fs, Forall P fs -> P (COr fs)) ->
  (forall g, P g -> P (CNot g)) ->
  forall f, P f.
Proof.
  intros HL HA HO HN. fix IH 1. intros f.
  destruct f; try (apply HL; exact I).
  - apply HA. induction fs as [|g fs IHfs]; constructor; [apply IH | exact IHfs].
  - apply HO. induction fs as [|g fs IHfs]; constructor; [apply IH | exact IHfs].
  - apply HN. apply IH.
Qed.

Section Jv.
  Variable rx_ok : list N -> bool.
  Notation of_jv := (of_jv rx_ok).
  Notation def_of_jv := (def_of_jv rx_ok).
  Notation de_regex := (de_regex rx_ok).
  Notation de_regex_amount := (de_regex_amount rx_ok).

  (* ---------------- dispatch on the variant name (closed computations) ---------------- *)
  Lemma c18_of_TRUE b : of_jv (JObj [(v_NullaryTRUE, b)]) = option_map (fun _ => CTrue) (de_struct0 b).
  Proof. reflexivity. Qed.
  Lemma c18_of_FALSE b : of_jv (JObj [(v_NullaryFALSE, b)]) = option_map (fun _ => CFalse) (de_struct0 b).
  Proof. reflexivity. Qed.
  Lemma c18_of_AND l : of_jv (j_variant v_AND [(k_txnFilters, JArr l)]) = option_map CAnd (map_opt of_jv l).
  Proof. reflexivity. Qed.
  Lemma c18_of_OR l : of_jv (j_variant v_OR [(k_txnFilters, JArr l)]) = option_map COr (map_opt of_jv l).
  Proof. reflexivity. Qed.
  Lemma c18_of_NOT x : of_jv (j_variant v_NOT [(k_txnFilter, x)]) = option_map CNot (of_jv x).
  Proof. reflexivity. Qed.
  Lemma c18_of_TsBegin x : of_jv (j_variant v_TxnTSBegin [(k_begin, x)]) = option_map CTsBegin (de_ts x).
  Proof. reflexivity. Qed.
  Lemma c18_of_TsEnd x : of_jv (j_variant v_TxnTSEnd [(k_end, x)]) = option_map CTsEnd (de_ts x).
  Proof. reflexivity. Qed.
  Lemma c18_of_Code x : of_jv (j_variant v_TxnCode [(k_regex, x)]) = option_map CCode (de_regex x).
  Proof. reflexivity. Qed.
  Lemma c18_of_Desc x : of_jv (j_variant v_TxnDescription [(k_regex, x)]) = option_map CDesc (de_regex x).
  Proof. reflexivity. Qed.
  Lemma c18_of_Uuid x : of_jv (j_variant v_TxnUUID [(k_uuid, x)]) = option_map CUuid (de_uuid x).
  Proof. reflexivity. Qed.
  Lemma c18_of_Tags x : of_jv (j_variant v_TxnTags [(k_regex, x)]) = option_map CTags (de_regex x).
  Proof. reflexivity. Qed.
  Lemma c18_of_Comments x : of_jv (j_variant v_TxnComments [(k_regex, x)]) = option_map CComments (de_regex x).
  Proof. reflexivity. Qed.
  Lemma c18_of_PAccount x : of_jv (j_variant v_PostingAccount [(k_regex, x)]) = option_map CPAccount (de_regex x).
  Proof. reflexivity. Qed.
  Lemma c18_of_PComment x : of_jv (j_variant v_PostingComment [(k_regex, x)]) = option_map CPComment (de_regex x).
  Proof. reflexivity. Qed.
  Lemma c18_of_PCommodity x : of_jv (j_variant v_PostingCommodity [(k_regex, x)]) = option_map CPCommodity (de_regex x).
  Proof. reflexivity. Qed.
  Definition ra_pair (x y : jv) : option (list N * dec) :=
    match de_regex x, de_dec y with Some r, Some a => Some (r, a) | _, _ => None end.
  Lemma c18_of_PAmountEq x y : of_jv (j_variant v_PostingAmountEqual [(k_regex, x); (k_amount, y)])
    = option_map (fun '(r, a) => CPAmountEq r a) (ra_pair x y).
  Proof. reflexivity. Qed.
  Lemma c18_of_PAmountLt x y : of_jv (j_variant v_PostingAmountLess [(k_regex, x); (k_amount, y)])
    = option_map (fun '(r, a) => CPAmountLt r a) (ra_pair x y).
  Proof. reflexivity. Qed.
  Lemma c18_of_PAmountGt x y : of_jv (j_variant v_PostingAmountGreater [(k_regex, x); (k_amount, y)])
    = option_map (fun '(r, a) => CPAmountGt r a) (ra_pair x y).
  Proof. reflexivity. Qed.
  Lemma c18_of_BBox a b c d :
    of_jv (j_variant v_BBoxLatLon [(k_south, a); (k_west, b); (k_north, c); (k_east, d)])
    = match de_dec a, de_dec b, de_dec c, de_dec d with
      | Some s, Some w, Some n, Some e => Some (CBBox s w n e) | _, _, _, _ => None end.
  Proof.
    unfold j_variant. cbn [Codec.of_jv]. cbv beta.
    change (str_eqb v_BBoxLatLon v_NullaryTRUE) with false. change (str_eqb v_BBoxLatLon v_NullaryFALSE) with false.
    change (str_eqb v_BBoxLatLon v_AND) with false. change (str_eqb v_BBoxLatLon v_OR) with false.
    change (str_eqb v_BBoxLatLon v_NOT) with false. change (str_eqb v_BBoxLatLon v_TxnTSBegin) with false.
    change (str_eqb v_BBoxLatLon v_TxnTSEnd) with false. change (str_eqb v_BBoxLatLon v_TxnCode) with false.
    change (str_eqb v_BBoxLatLon v_TxnDescription) with false. change (str_eqb v_BBoxLatLon v_TxnUUID) with false.
    change (str_eqb v_BBoxLatLon v_BBoxLatLon) with true. cbv iota.
    unfold de_decs, map_opt. cbn [get_field has_key].
    repeat match goal with |- context [str_eqb ?a ?b] =>
      let v := eval vm_compute in (str_eqb a b) in change (str_eqb a b) with v end.
    cbn [orb]. cbv iota.
    destruct (de_dec a), (de_dec b), (de_dec c), (de_dec d); reflexivity.
  Qed.
  Lemma c18_of_BBoxAlt a b c d e g :
    of_jv (j_variant v_BBoxLatLonAlt [(k_south, a); (k_west, b); (k_depth, c); (k_north, d); (k_east, e); (k_height, g)])
    = match de_dec a, de_dec b, de_dec c, de_dec d, de_dec e, de_dec g with
      | Some s, Some w, Some dp, Some n, Some ea, Some h => Some (CBBoxAlt s w dp n ea h)
      | _, _, _, _, _, _ => None end.
  Proof.
    unfold j_variant. cbn [Codec.of_jv]. cbv beta.
    repeat match goal with |- context [str_eqb v_BBoxLatLonAlt ?b] =>
      let v := eval vm_compute in (str_eqb v_BBoxLatLonAlt b) in change (str_eqb v_BBoxLatLonAlt b) with v end.
    cbv iota. unfold de_decs, map_opt. cbn [get_field has_key].
    repeat match goal with |- context [str_eqb ?a ?b] =>
      let v := eval vm_compute in (str_eqb a b) in change (str_eqb a b) with v end.
    cbn [orb]. cbv iota.
    destruct (de_dec a), (de_dec b), (de_dec c), (de_dec d), (de_dec e), (de_dec g); reflexivity.
  Qed.

  (* ---------------- leaves ---------------- *)
  Lemma c18_de_regex_peel r : rx_wf rx_ok r = true -> de_regex (j_regex r) = Some r.
  Proof.
    unfold rx_wf. intros H. apply andb_prop in H. destruct H as [H P]. apply andb_prop in H. destruct H as [W R].
    unfold j_regex, Codec.de_regex. rewrite c18_wrap_peel_of_wrapped by exact W. now rewrite R, P.
  Qed.
  Lemma c18_de_dec_str d : de_dec (j_dec_str d) = Some d.
  Proof. apply c18_dec_parse_show. Qed.
  Lemma c18_de_dec_num d : de_dec (j_dec_num d) = Some d.
  Proof. apply c18_dec_parse_show. Qed.

  Lemma c18_map_opt_map (fs : list cfilter) :
    Forall (fun f => cf_wf rx_ok f = true -> of_jv (to_jv f) = Some f) fs ->
    forallb (cf_wf rx_ok) fs = true -> map_opt of_jv (map to_jv fs) = Some fs.
  Proof.
    induction 1 as [|f fs Hf _ IH]; cbn [forallb map map_opt]; [reflexivity|].
    intros H. apply andb_prop in H. destruct H as [W Ws]. now rewrite (Hf W), (IH Ws).
  Qed.

  (* ---------------- Deserialize . Serialize = id ---------------- *)
  Lemma c18_of_to_jv : forall f, cf_wf rx_ok f = true -> of_jv (to_jv f) = Some f.
  Proof.
    induction f as [f L|fs IH|fs IH|g IH] using c18_cfilter_ind; intros W.
    - destruct f; try contradiction; cbn [to_jv cf_wf] in *.
      + reflexivity.
      + reflexivity.
      + rewrite c18_of_TsBegin. cbn [de_ts]. now rewrite c18_ts_parse_show.
      + rewrite c18_of_TsEnd. cbn [de_ts]. now rewrite c18_ts_parse_show.
      + now rewrite c18_of_Code, c18_de_regex_peel.
      + now rewrite c18_of_Desc, c18_de_regex_peel.
      + rewrite c18_of_Uuid. cbn [de_uuid]. now rewrite c18_uuid_parse_show.
      + rewrite c18_of_BBox. now rewrite !c18_de_dec_str.
      + rewrite c18_of_BBoxAlt. now rewrite !c18_de_dec_str.
      + now rewrite c18_of_Tags, c18_de_regex_peel.
      + now rewrite c18_of_Comments, c18_de_regex_peel.
      + now rewrite c18_of_PAccount, c18_de_regex_peel.
      + now rewrite c18_of_PComment, c18_de_regex_peel.
      + rewrite c18_of_PAmountEq. unfold ra_pair. now rewrite c18_de_regex_peel, c18_de_dec_num.
      + rewrite c18_of_PAmountLt. unfold ra_pair. now rewrite c18_de_regex_peel, c18_de_dec_num.
      + rewrite c18_of_PAmountGt. unfold ra_pair. now rewrite c18_de_regex_peel, c18_de_dec_num.
      + now rewrite c18_of_PCommodity, c18_de_regex_peel.
    - cbn [to_jv cf_wf] in *. rewrite c18_of_AND. now rewrite c18_map_opt_map.
    - cbn [to_jv cf_wf] in *. rewrite c18_of_OR. now rewrite c18_map_opt_map.
    - cbn [to_jv cf_wf] in *. rewrite c18_of_NOT. now rewrite IH.
  Qed.

  Lemma c18_def_of_to_jv f : cf_wf rx_ok f = true -> def_of_jv (def_to_jv f) = Some f.
  Proof.
    intros W. unfold def_to_jv, Codec.def_of_jv. cbn [get_field has_key].
    change (str_eqb k_txnFilter k_txnFilter) with true. cbv iota. now apply c18_of_to_jv.
  Qed.
End Jv.

(* ---------------- what a successful parse tells ---------------- *)
Fixpoint jv_size (j : jv) : nat :=
  match j with
  | JArr l => S (list_sum (map jv_size l))
  | JObj kvs => S (list_sum (map (fun kv => jv_size (snd kv)) kvs))
  | _ => 1
  end.

Lemma c18_list_sum_in {A} (g : A -> nat) x l : In x l -> (g x <= list_sum (map g l))%nat.
Proof.
  induction l as [|y l IH]; [contradiction|]. cbn [map list_sum fold_right].
  change (fold_right Nat.add 0%nat (map g l)) with (list_sum (map g l)).
  intros [->|H]; [lia|]. specialize (IH H). lia.
Qed.
Lemma c18_size_arr x l : In x l -> (jv_size x < jv_size (JArr l))%nat.
Proof.
  intros H. change (jv_size (JArr l)) with (S (list_sum (map jv_size l))).
  pose proof (c18_list_sum_in jv_size x l H). lia.
Qed.
Lemma c18_size_obj k v kvs : In (k, v) kvs -> (jv_size v < jv_size (JObj kvs))%nat.
Proof.
  intros H. change (jv_size (JObj kvs)) with (S (list_sum (map (fun kv => jv_size (snd kv)) kvs))).
  pose proof (c18_list_sum_in (fun kv => jv_size (snd kv)) (k, v) kvs H) as L.
  cbn [snd] in L. lia.
Qed.

Lemma c18_get_field_inv {A} (f : jv -> option A) k kvs a :
  get_field f k kvs = Some a -> exists v, In (k, v) kvs /\ f v = Some a.
Proof.
  induction kvs as [|[k' v] r IH]; cbn [get_field]; [discriminate|].
  destruct (str_eqb k k') eqn:E.
  - apply c18_str_eqb_eq in E. subst k'. destruct (has_key k r); [discriminate|].
    intros H. exists v. split; [now left | exact H].
  - intros H. destruct (IH H) as (v' & I & F). exists v'. split; [now right | exact F].
Qed.

Lemma c18_has_key_false k kvs : has_key k kvs = false -> forall v, ~ In (k, v) kvs.
Proof.
  induction kvs as [|[k' v'] r IH]; cbn [has_key]; intros H v I; [contradiction|].
  apply orb_false_iff in H. destruct H as [H1 H2]. destruct I as [I|I].
  - inversion I; subst. now rewrite c18_str_eqb_refl in H1.
  - now apply (IH H2 v).
Qed.

(* a field that is absent, or present twice, is an error *)
Lemma c18_get_field_missing {A} (f : jv -> option A) k kvs : has_key k kvs = false -> get_field f k kvs = None.
Proof.
  induction kvs as [|[k' v] r IH]; cbn [get_field has_key]; [reflexivity|].
  intros H. apply orb_false_iff in H. destruct H as [H1 H2]. rewrite H1. now apply IH.
Qed.
Lemma c18_get_field_duplicate {A} (f : jv -> option A) k v1 v2 a b c :
  get_field f k (a ++ (k, v1) :: b ++ (k, v2) :: c) = None.
Proof.
  induction a as [|[k' v] a IH]; cbn [app get_field].
  - rewrite c18_str_eqb_refl.
    assert (H : has_key k (b ++ (k, v2) :: c) = true).
    { induction b as [|[k'' v''] b IHb]; cbn [app has_key]; [now rewrite c18_str_eqb_refl|].
      rewrite IHb. apply orb_true_r. }
    now rewrite H.
  - destruct (str_eqb k k') eqn:E; [|exact IH].
    assert (H : has_key k (a ++ (k, v1) :: b ++ (k, v2) :: c) = true).
    { clear. induction a as [|[k'' v''] a IHa]; cbn [app has_key]; [now rewrite c18_str_eqb_refl|].
      rewrite IHa. apply orb_true_r. }
    now rewrite H.
Qed.

Lemma c18_map_opt_inv {A B} (f : A -> option B) l : forall ys,
  map_opt f l = Some ys -> Forall2 (fun x y => f x = Some y) l ys.
Proof.
  induction l as [|x l IH]; cbn [map_opt]; intros ys H.
  - inversion H. constructor.
  - destruct (f x) as [y|] eqn:E; [|discriminate].
    destruct (map_opt f l) as [ys'|] eqn:E2; [|discriminate].
    inversion H; subst ys. constructor; [exact E | now apply IH].
Qed.

Lemma c18_Forall2_in_r {A B} (R : A -> B -> Prop) l ys y :
  Forall2 R l ys -> In y ys -> exists x, In x l /\ R x y.
Proof.
  induction 1 as [|x y' l ys Hxy _ IH]; [contradiction|]. intros [->|I].
  - exists x. split; [now left | exact Hxy].
  - destruct (IH I) as (x' & Ix & Rx). exists x'. split; [now right | exact Rx].
Qed.

Section Jv2.
  Variable rx_ok : list N -> bool.
  Notation of_jv := (of_jv rx_ok).
  Notation def_of_jv := (def_of_jv rx_ok).
  Notation de_regex := (de_regex rx_ok).
  Notation de_regex_amount := (de_regex_amount rx_ok).

  (* malformed leaves are rejected: a leaf is accepted only as ... *)
  Lemma c18_de_regex_inv x r : de_regex x = Some r ->
    exists p, x = JStr p /\ rx_ok p = true /\ rx_ok (wrap_s p) = true /\ r = wrap_s p.
  Proof.
    destruct x; cbn [Codec.de_regex]; try discriminate.
    destruct (rx_ok s) eqn:E0; [|discriminate].
    destruct (rx_ok (wrap_s s)) eqn:E; [|discriminate]. cbn [andb]. intros H. inversion H. now exists s.
  Qed.
  Lemma c18_de_regex_wf x r : de_regex x = Some r -> rx_wf rx_ok r = true.
  Proof.
    intros H. apply c18_de_regex_inv in H. destruct H as (p & _ & P & R & ->).
    unfold rx_wf. now rewrite c18_is_wrapped_wrap, R, c18_peel_wrap, P.
  Qed.
  Lemma c18_de_dec_inv x d : de_dec x = Some d ->
    exists s, (x = JStr s \/ x = JNum s \/ x = JObj [(k_number_token, JStr s)]) /\ dec_parse s = Some d.
  Proof.
    destruct x as [| | s | s | |kvs]; cbn [de_dec]; try discriminate.
    - intros H. exists s. auto.
    - intros H. exists s. auto.
    - intros H. destruct kvs as [|[k v] [|? ?]]; try discriminate H.
      + destruct v; try discriminate H.
        destruct (str_eqb k k_number_token) eqn:E; [|discriminate H]. apply c18_str_eqb_eq in E. subst k.
        exists s. auto.
      + destruct v; discriminate H.
  Qed.
  Lemma c18_de_ts_inv x z : de_ts x = Some z -> exists s, x = JStr s /\ ts_parse s = Some z.
  Proof. destruct x; cbn [de_ts]; try discriminate. intros H. now exists s. Qed.
  Lemma c18_de_uuid_inv x u : de_uuid x = Some u -> exists s, x = JStr s /\ uuid_parse s = Some u.
  Proof. destruct x; cbn [de_uuid]; try discriminate. intros H. now exists s. Qed.

  Lemma c18_de_struct1_inv {A} k (f : jv -> option A) body a :
    de_struct1 k f body = Some a ->
    exists v, f v = Some a /\ (body = JArr [v] \/ exists kvs, body = JObj kvs /\ In (k, v) kvs).
  Proof.
    destruct body as [| | | |l|kvs]; cbn [de_struct1]; try discriminate.
    - destruct l as [|x [|? ?]]; try discriminate. intros H. exists x. auto.
    - intros H. apply c18_get_field_inv in H. destruct H as (v & I & F). exists v. split; [exact F|].
      right. now exists kvs.
  Qed.

  Lemma c18_de_regex_amount_wf body r a : de_regex_amount body = Some (r, a) -> rx_wf rx_ok r = true.
  Proof.
    destruct body as [| | | |l|kvs]; cbn [Codec.de_regex_amount]; try discriminate.
    - destruct l as [|x [|y [|? ?]]]; try discriminate.
      destruct (de_regex x) as [r'|] eqn:E; [|discriminate]. destruct (de_dec y); [|discriminate].
      intros H. inversion H; subst. now apply c18_de_regex_wf in E.
    - destruct (get_field de_regex k_regex kvs) as [r'|] eqn:E; [|discriminate].
      destruct (get_field de_dec k_amount kvs); [|discriminate].
      intros H. inversion H; subst. apply c18_get_field_inv in E. destruct E as (v & _ & E).
      now apply c18_de_regex_wf in E.
  Qed.

  (* the sub-definitions of a logic filter are strictly smaller trees *)
  Lemma c18_list_body_inv body fs :
    match body with
    | JObj kvs => get_field (fun x => match x with JArr l => map_opt of_jv l | _ => None end) k_txnFilters kvs
    | JArr [JArr l] => map_opt of_jv l
    | _ => None
    end = Some fs ->
    exists l, map_opt of_jv l = Some fs /\ forall x, In x l -> (jv_size x < jv_size body)%nat.
  Proof.
    destruct body as [| | | |l|kvs]; try discriminate.
    - destruct l as [|x r]; [discriminate|]. destruct x as [| | | |l'|]; try discriminate.
      destruct r; [|discriminate].
      intros H. exists l'. split; [exact H|]. intros x I.
      pose proof (c18_size_arr x l' I). pose proof (c18_size_arr (JArr l') [JArr l'] (or_introl eq_refl)). lia.
    - intros H. apply c18_get_field_inv in H. destruct H as (v & I & F).
      destruct v as [| | | |l'|]; try discriminate. exists l'. split; [exact F|]. intros x Ix.
      pose proof (c18_size_arr x l' Ix). pose proof (c18_size_obj _ _ _ I). lia.
  Qed.
  Lemma c18_not_body_inv body g :
    match body with
    | JObj kvs => get_field of_jv k_txnFilter kvs
    | JArr [x] => of_jv x
    | _ => None
    end = Some g ->
    exists x, of_jv x = Some g /\ (jv_size x < jv_size body)%nat.
  Proof.
    destruct body as [| | | |l|kvs]; try discriminate.
    - destruct l as [|x [|? ?]]; try discriminate. intros H. exists x. split; [exact H|].
      apply c18_size_arr. now left.
    - intros H. apply c18_get_field_inv in H. destruct H as (v & I & F). exists v. split; [exact F|].
      now apply (c18_size_obj k_txnFilter).
  Qed.

  Lemma c18_option_map_inv {A B} (g : A -> B) o b : option_map g o = Some b -> exists a, o = Some a /\ b = g a.
  Proof. destruct o; cbn; [|discriminate]. intros H. inversion H. eauto. Qed.

  (* only an object with exactly one entry whose key is a variant name is a filter *)
  Lemma c18_of_jv_shape j f : of_jv j = Some f ->
    exists tag body, j = JObj [(tag, body)] /\ In tag variant_names.
  Proof.
    destruct j as [| | | | |kvs]; try discriminate.
    destruct kvs as [|[tag body] [|? ?]]; try discriminate.
    intros H. exists tag, body. split; [reflexivity|]. cbn [Codec.of_jv] in H. unfold variant_names.
    repeat match type of H with
    | (if str_eqb tag ?v then _ else _) = _ =>
        let E := fresh "E" in destruct (str_eqb tag v) eqn:E;
        [apply c18_str_eqb_eq in E; subst tag; cbn [In]; tauto | clear E]
    end. discriminate.
  Qed.

  (* every parsed definition holds well-formed values *)
  Lemma c18_of_jv_wf : forall n j, (jv_size j < n)%nat -> forall f, of_jv j = Some f -> cf_wf_weak rx_ok f = true.
  Proof.
    induction n as [|n IH]; intros j Hn f H; [lia|].
    destruct j as [| | | | |kvs]; try discriminate.
    destruct kvs as [|[tag body] [|? ?]]; try discriminate.
    assert (Hb : (jv_size body < n)%nat).
    { pose proof (c18_size_obj tag body [(tag, body)] (or_introl eq_refl)). lia. }
    cbn [Codec.of_jv] in H.
    repeat match type of H with
    | (if str_eqb tag ?v then _ else _) = _ => destruct (str_eqb tag v)
    end; try discriminate.
    - apply c18_option_map_inv in H. destruct H as (? & _ & ->). reflexivity.
    - apply c18_option_map_inv in H. destruct H as (? & _ & ->). reflexivity.
    - apply c18_option_map_inv in H. destruct H as (fs & H & ->). cbn [cf_wf_weak].
      apply c18_list_body_inv in H. destruct H as (l & M & S). apply c18_map_opt_inv in M.
      apply forallb_forall. intros g Ig.
      destruct (c18_Forall2_in_r _ _ _ _ M Ig) as (x & Ix & Fx). apply (IH x); [|exact Fx].
      specialize (S x Ix). lia.
    - apply c18_option_map_inv in H. destruct H as (fs & H & ->). cbn [cf_wf_weak].
      apply c18_list_body_inv in H. destruct H as (l & M & S). apply c18_map_opt_inv in M.
      apply forallb_forall. intros g Ig.
      destruct (c18_Forall2_in_r _ _ _ _ M Ig) as (x & Ix & Fx). apply (IH x); [|exact Fx].
      specialize (S x Ix). lia.
    - apply c18_option_map_inv in H. destruct H as (g & H & ->). cbn [cf_wf_weak].
      apply c18_not_body_inv in H. destruct H as (x & Fx & S). apply (IH x); [lia | exact Fx].
    - apply c18_option_map_inv in H. destruct H as (z & H & ->). cbn [cf_wf_weak].
      apply c18_de_struct1_inv in H. destruct H as (v & F & _). apply c18_de_ts_inv in F.
      destruct F as (s & _ & F). now apply c18_ts_parse_range in F.
    - apply c18_option_map_inv in H. destruct H as (z & H & ->). cbn [cf_wf_weak].
      apply c18_de_struct1_inv in H. destruct H as (v & F & _). apply c18_de_ts_inv in F.
      destruct F as (s & _ & F). now apply c18_ts_parse_range in F.
    - apply c18_option_map_inv in H. destruct H as (r & H & ->). cbn [cf_wf_weak].
      apply c18_de_struct1_inv in H. destruct H as (v & F & _). now apply c18_de_regex_wf in F.
    - apply c18_option_map_inv in H. destruct H as (r & H & ->). cbn [cf_wf_weak].
      apply c18_de_struct1_inv in H. destruct H as (v & F & _). now apply c18_de_regex_wf in F.
    - apply c18_option_map_inv in H. destruct H as (u & H & ->). cbn [cf_wf_weak].
      apply c18_de_struct1_inv in H. destruct H as (v & F & _). apply c18_de_uuid_inv in F.
      destruct F as (s & _ & F). now apply c18_uuid_parse_wf in F.
    - destruct (de_decs [k_south; k_west; k_north; k_east] body) as [[|? [|? [|? [|? [|? ?]]]]]|];
        try discriminate. inversion H. reflexivity.
    - destruct (de_decs [k_south; k_west; k_depth; k_north; k_east; k_height] body)
        as [[|? [|? [|? [|? [|? [|? [|? ?]]]]]]]|]; try discriminate. inversion H. reflexivity.
    - apply c18_option_map_inv in H. destruct H as (r & H & ->). cbn [cf_wf_weak].
      apply c18_de_struct1_inv in H. destruct H as (v & F & _). now apply c18_de_regex_wf in F.
    - apply c18_option_map_inv in H. destruct H as (r & H & ->). cbn [cf_wf_weak].
      apply c18_de_struct1_inv in H. destruct H as (v & F & _). now apply c18_de_regex_wf in F.
    - apply c18_option_map_inv in H. destruct H as (r & H & ->). cbn [cf_wf_weak].
      apply c18_de_struct1_inv in H. destruct H as (v & F & _). now apply c18_de_regex_wf in F.
    - apply c18_option_map_inv in H. destruct H as (r & H & ->). cbn [cf_wf_weak].
      apply c18_de_struct1_inv in H. destruct H as (v & F & _). now apply c18_de_regex_wf in F.
    - apply c18_option_map_inv in H. destruct H as ([r a] & H & ->). cbn [cf_wf_weak].
      now apply c18_de_regex_amount_wf in H.
    - apply c18_option_map_inv in H. destruct H as ([r a] & H & ->). cbn [cf_wf_weak].
      now apply c18_de_regex_amount_wf in H.
    - apply c18_option_map_inv in H. destruct H as ([r a] & H & ->). cbn [cf_wf_weak].
      now apply c18_de_regex_amount_wf in H.
    - apply c18_option_map_inv in H. destruct H as (r & H & ->). cbn [cf_wf_weak].
      apply c18_de_struct1_inv in H. destruct H as (v & F & _). now apply c18_de_regex_wf in F.
  Qed.

  Lemma c18_def_of_jv_inv j f : def_of_jv j = Some f -> exists x, of_jv x = Some f.
  Proof.
    destruct j as [| | | |l|kvs]; cbn [Codec.def_of_jv]; try discriminate.
    - destruct l as [|x [|? ?]]; try discriminate. eauto.
    - intros H. apply c18_get_field_inv in H. destruct H as (v & _ & F). eauto.
  Qed.

  Lemma c18_def_parsed_wf j f : def_of_jv j = Some f -> cf_wf_weak rx_ok f = true.
  Proof.
    intros H. apply c18_def_of_jv_inv in H. destruct H as (x & F).
    now apply (c18_of_jv_wf (S (jv_size x)) x (Nat.lt_succ_diag_r _)).
  Qed.

  Lemma c18_cf_wf_split : forall f, cf_wf rx_ok f = cf_wf_weak rx_ok f && cf_year0 f.
  Proof.
    assert (L : forall fs, Forall (fun f => cf_wf rx_ok f = cf_wf_weak rx_ok f && cf_year0 f) fs ->
              forallb (cf_wf rx_ok) fs = forallb (cf_wf_weak rx_ok) fs && forallb cf_year0 fs).
    { induction 1 as [|g fs Hg _ IH]; cbn [forallb]; [reflexivity|]. rewrite Hg, IH.
      destruct (cf_wf_weak rx_ok g), (cf_year0 g), (forallb (cf_wf_weak rx_ok) fs); reflexivity. }
    induction f as [f Lf|fs IH|fs IH|g IH] using c18_cfilter_ind.
    - destruct f; try contradiction; cbn [cf_wf cf_wf_weak cf_year0]; try (now rewrite andb_true_r).
      + unfold ts_wf, ts_in_range, ts_min_s.
        destruct (Z.leb_spec (-62167219200) (b / ns_per_s)), (Z.leb_spec (-377705023201) (b / ns_per_s)),
                 (Z.leb_spec (b / ns_per_s) ts_max_s); cbn; try reflexivity; lia.
      + unfold ts_wf, ts_in_range, ts_min_s.
        destruct (Z.leb_spec (-62167219200) (e / ns_per_s)), (Z.leb_spec (-377705023201) (e / ns_per_s)),
                 (Z.leb_spec (e / ns_per_s) ts_max_s); cbn; try reflexivity; lia.
    - cbn [cf_wf cf_wf_weak cf_year0]. now apply L.
    - cbn [cf_wf cf_wf_weak cf_year0]. now apply L.
    - cbn [cf_wf cf_wf_weak cf_year0]. exact IH.
  Qed.

  (* re-serialisation of any accepted definition is a fixed point with the same description *)
  Lemma c18_fixed_point j f :
    def_of_jv j = Some f -> cf_year0 f = true ->
    def_of_jv (def_to_jv f) = Some f /\
    forall f', def_of_jv (def_to_jv f) = Some f' ->
      f' = f /\ def_to_jv f' = def_to_jv f /\ describe_def f' = describe_def f
      /\ forall (T : Type) (ev : cfilter -> T), ev f' = ev f.
  Proof.
    intros H Y. assert (W : cf_wf rx_ok f = true).
    { rewrite c18_cf_wf_split, Y, (c18_def_parsed_wf j f H). reflexivity. }
    pose proof (c18_def_of_to_jv rx_ok f W) as R. split; [exact R|].
    intros f' H'. rewrite R in H'. inversion H'; subst f'. repeat split.
  Qed.

  (* a pattern that does not compile (inside the wrapper) is rejected wherever it occurs *)
  Lemma c18_bad_regex_rejected p : rx_ok p = false \/ rx_ok (wrap_s p) = false ->
    de_regex (JStr p) = None /\
    forall tag, In tag [v_TxnCode; v_TxnDescription; v_TxnTags; v_TxnComments; v_PostingAccount;
                        v_PostingComment; v_PostingCommodity] ->
      of_jv (j_variant tag [(k_regex, JStr p)]) = None.
  Proof.
    intros H. assert (D : de_regex (JStr p) = None).
    { cbn [Codec.de_regex]. destruct H as [H|H]; rewrite H; [reflexivity | now rewrite andb_false_r]. }
    split; [exact D|]. intros tag I. cbn [In] in I.
    destruct I as [<-|[<-|[<-|[<-|[<-|[<-|[<-|[]]]]]]]].
    - now rewrite c18_of_Code, D.
    - now rewrite c18_of_Desc, D.
    - now rewrite c18_of_Tags, D.
    - now rewrite c18_of_Comments, D.
    - now rewrite c18_of_PAccount, D.
    - now rewrite c18_of_PComment, D.
    - now rewrite c18_of_PCommodity, D.
  Qed.
End Jv2.

(* ---------------- time stamp and number texts that are rejected ---------------- *)
Lemma c18_ts_rejects f :
  f_off f = None \/ ~ (1 <= Z.of_N (f_m f) <= 12) \/
  ~ (1 <= Z.of_N (f_d f) <= cd_days_in_month (Z.of_N (f_y f)) (Z.of_N (f_m f))) \/
  (23 < f_hh f)%N \/ (59 < f_mi f)%N \/ (60 < f_ss f)%N ->
  ts_validate f = None.
Proof.
  intros H. unfold ts_validate.
  match goal with |- (if ?c then _ else _) = _ => destruct c eqn:C; [|reflexivity] end.
  rewrite !andb_true_iff in C. destruct C as [[[[[[[C1 C2] C3] C4] C5] C6] C7] C8].
  apply Z.leb_le in C1, C2, C3, C4. apply N.leb_le in C5, C6, C7.
  destruct H as [H|[H|[H|[H|[H|H]]]]]; try lia. now rewrite H.
Qed.

Lemma c18_dec_rejects_empty : dec_parse [] = None.
Proof. reflexivity. Qed.

(* ---------------- the oracle on observed output decides the observed specification ---------------- *)
Lemma c18_forall2b_sound {A B} (p : A -> B -> bool) : forall a b,
  c18_forall2b p a b = true -> Forall2 (fun x y => p x y = true) a b.
Proof.
  induction a as [|x a IH]; destruct b as [|y b]; cbn [c18_forall2b]; intros H; try discriminate.
  - constructor.
  - apply andb_prop in H. destruct H as [H1 H2]. constructor; [exact H1 | now apply IH].
Qed.

Lemma c18_obs_ok_sound o : obs_ok o = true -> ObsSpec o.
Proof.
  unfold obs_ok, ObsSpec. rewrite !andb_true_iff. intros [[[H1 H2] H3] H4].
  apply c18_str_eqb_eq in H2, H3. repeat split; try assumption. now apply c18_forall2b_sound.
Qed.

(* the same pattern text denotes the same compiled regex; the same number / instant / id text
   denotes the same value: leaf_same is reflexive on everything that parses *)
Lemma c18_leaf_same_regex x y : leaf_same (LRegex x) (LRegex y) = true -> wrap_s x = wrap_s y.
Proof. cbn [leaf_same]. intros H. apply c18_str_eqb_eq in H. now subst. Qed.

(* ---------------- statements assembled for props/C18.v ---------------- *)
Lemma c18_peel_wrap_both p : peel_s (wrap_s p) = p /\ wrap_s (peel_s (wrap_s p)) = wrap_s p.
Proof. split; [apply c18_peel_wrap | apply c18_wrap_peel_wrap]. Qed.

Lemma c18_numbers :
  (forall d, dec_parse (dec_show d) = Some d) /\
  (forall z, ts_wf z = true -> ts_parse (ts_show z) = Some z) /\
  (forall u, uuid_wf u = true -> uuid_parse (uuid_show u) = Some u) /\
  (forall s z, ts_parse s = Some z -> ts_in_range z = true) /\
  (forall s u, uuid_parse s = Some u -> uuid_wf u = true).
Proof.
  repeat split.
  - apply c18_dec_parse_show.
  - apply c18_ts_parse_show.
  - apply c18_uuid_parse_show.
  - apply c18_ts_parse_range.
  - apply c18_uuid_parse_wf.
Qed.

Lemma c18_armor_exactly_one_prefix rx_ok json_parse :
  (forall s, armor_payload s = armor_payload_spec s) /\
  (forall s, is_armored s = false -> from_armor rx_ok json_parse s = None) /\
  (forall x, from_armor rx_ok json_parse (armor_tag ++ armor_tag ++ x) = None).
Proof.
  repeat split.
  - apply c18_armor_one_prefix.
  - intros s H. unfold from_armor. now rewrite c18_armor_not_armored.
  - intros x. unfold from_armor. now rewrite c18_armor_double_rejected.
Qed.

Lemma c18_rejects rx_ok :
  (* anything but an object with exactly one entry keyed by a variant name *)
  (forall j f, of_jv rx_ok j = Some f -> exists tag body, j = JObj [(tag, body)] /\ In tag variant_names) /\
  (* the definition itself: an object with the key txnFilter (or a one-element array) *)
  (forall j f, def_of_jv rx_ok j = Some f -> exists x, of_jv rx_ok x = Some f) /\
  (* missing and duplicated fields *)
  (forall A (f : jv -> option A) k kvs, has_key k kvs = false -> get_field f k kvs = None) /\
  (forall A (f : jv -> option A) k v1 v2 a b c, get_field f k (a ++ (k, v1) :: b ++ (k, v2) :: c) = None) /\
  (* leaves: only a string holding a pattern that compiles / a number or string holding a decimal /
     a string holding a time stamp / a string holding a UUID *)
  (forall x r, de_regex rx_ok x = Some r ->
     exists p, x = JStr p /\ rx_ok p = true /\ rx_ok (wrap_s p) = true /\ r = wrap_s p) /\
  (forall x d, de_dec x = Some d ->
     exists s, (x = JStr s \/ x = JNum s \/ x = JObj [(k_number_token, JStr s)]) /\ dec_parse s = Some d) /\
  (forall x z, de_ts x = Some z -> exists s, x = JStr s /\ ts_parse s = Some z) /\
  (forall x u, de_uuid x = Some u -> exists s, x = JStr s /\ uuid_parse s = Some u) /\
  (* a pattern that is not a regular expression on its own, or not inside the wrapper, is rejected in
     every regex-carrying variant *)
  (forall p, rx_ok p = false \/ rx_ok (wrap_s p) = false ->
     forall tag, In tag [v_TxnCode; v_TxnDescription; v_TxnTags; v_TxnComments; v_PostingAccount;
                         v_PostingComment; v_PostingCommodity] ->
       of_jv rx_ok (j_variant tag [(k_regex, JStr p)]) = None) /\
  (* time stamps without offset or with a field out of range *)
  (forall f, f_off f = None \/ ~ (1 <= Z.of_N (f_m f) <= 12) \/
             ~ (1 <= Z.of_N (f_d f) <= cd_days_in_month (Z.of_N (f_y f)) (Z.of_N (f_m f))) \/
             (23 < f_hh f)%N \/ (59 < f_mi f)%N \/ (60 < f_ss f)%N -> ts_validate f = None).
Proof.
  repeat split.
  - apply c18_of_jv_shape.
  - apply c18_def_of_jv_inv.
  - intros. now apply c18_get_field_missing.
  - intros. apply c18_get_field_duplicate.
  - apply c18_de_regex_inv.
  - apply c18_de_dec_inv.
  - apply c18_de_ts_inv.
  - apply c18_de_uuid_inv.
  - intros p H. now apply c18_bad_regex_rejected.
  - apply c18_ts_rejects.
Qed.

(* non-vacuity: every variant, nested; patterns that are the wrapper text; several scales; instants
   with and without fraction; definition is well formed, round-trips, and prints the expected text *)
Definition c18_ex_rx (t : list N) : bool := true.
Definition c18_ex_filter : cfilter :=
  CAnd [ CTrue; CNot CFalse;
         COr [ CTsBegin 1704067200000000000; CTsEnd 1704067200123456789 ];
         CCode (wrap_s [97; 98; 99]%N);
         CDesc (wrap_s (wrap_s [120]%N));
         CUuid [10; 6; 6; 11; 0; 14; 0; 13; 10; 1; 10; 5; 4; 12; 5; 10; 9; 10; 3; 15; 8; 10; 4; 11; 1; 15; 1; 15; 7; 15; 8; 14]%N;
         CBBox (mkDec 1 0) (mkDec 20 1) (mkDec 300 2) (mkDec (-4) 0);
         CBBoxAlt (mkDec (-150) 2) (mkDec 20 1) (mkDec (-10) 0) (mkDec 300 2) (mkDec 4 0) (mkDec 1000 0);
         CTags (wrap_s [116; 49]%N); CComments (wrap_s []);
         CPAccount (wrap_s [97; 58; 98]%N); CPComment (wrap_s [99]%N);
         CPAmountEq (wrap_s [97]%N) (mkDec 150 2); CPAmountLt (wrap_s [97]%N) (mkDec 15 4);
         CPAmountGt (wrap_s (wrap_s [97; 46; 42]%N)) (mkDec 0 1);
         CPCommodity (wrap_s [69; 85; 82]%N) ].
Lemma c18_example :
  cf_wf c18_ex_rx c18_ex_filter = true /\
  def_of_jv c18_ex_rx (def_to_jv c18_ex_filter) = Some c18_ex_filter /\
  (* the description of the doubly wrapped pattern shows the single wrapper the user wrote *)
  describe [] (CDesc (wrap_s (wrap_s [120]%N)))
  = [84;120;110;32;68;101;115;99;114;105;112;116;105;111;110;58;32;34;94;40;63;58;120;41;36;34;10]%N /\
  (* armored and plain JSON: "base64:e30=" is the armor of "{}" *)
  armor_payload [98;97;115;101;54;52;58;101;51;48;61]%N = Some [123; 125]%N /\
  from_any c18_ex_rx (fun t => if str_eqb t [123; 125]%N then Some (def_to_jv c18_ex_filter) else None)
           [98;97;115;101;54;52;58;101;51;48;61]%N = Some c18_ex_filter.
Proof. vm_compute. repeat split; reflexivity. Qed.
