(* Tree_proofs.v — Balance.tree_nodes over a flat list of (key, own sum) entries with
   unique keys, closed under ancestors: every entry below the start node is
   listed exactly once, and the tree sum is the sum of the own sums below. *)
From Coq Require Import Permutation Sorted.
From TkModel Require Import Base Dec Acct Balance.
From TkSpec Require Import Balance_spec.
From TkProofs Require Import Base_proofs Dec_proofs Acct_proofs.
Local Open Scope Z_scope.

(* the specification of the tree sum on the flat list *)
Definition tspec (all : list ksum) (k : key) : Z :=
  zsum (map (fun e : ksum => d28 (snd e)) (filter (fun e : ksum => kbelow k (fst e)) all)).

Definition closed (all : list ksum) : Prop :=
  forall e, In e all -> forall n, (0 < n <= length (fst (fst e)))%nat ->
  In (firstn n (fst (fst e)), snd (fst e)) (map fst all).

Lemma max_depth_ge (all : list ksum) e : In e all -> (length (fst (fst e)) <= max_depth all)%nat.
Proof.
  unfold max_depth. induction all as [|c all IH]; intros H; [destruct H|].
  cbn [map fold_right]. destruct H as [H|H]; [subst; lia|]. specialize (IH H). lia.
Qed.

Section Tree.
  Variable all : list ksum.
  Hypothesis Hnd : NoDup (map fst all).
  Hypothesis Hcl : closed all.
  Hypothesis Hne : forall e, In e all -> fst (fst e) <> [].
  Hypothesis Hdw : forall e, In e all -> dwf (snd e).

  Lemma all_key_eq e1 e2 : In e1 all -> In e2 all -> fst e1 = fst e2 -> e1 = e2.
  Proof. apply NoDup_map_key_eq. exact Hnd. Qed.

  Lemma all_NoDup : NoDup all.
  Proof. apply (NoDup_map_inv' fst). exact Hnd. Qed.

  Lemma tspec_as_ind k :
    tspec all k = zsum (map (fun e : ksum => ind (kbelow k (fst e)) * d28 (snd e)) all).
  Proof. unfold tspec. apply zsum_map_filter. Qed.

  (* "below me" = "is me" + "below exactly one child of me" *)
  Lemma decompose (me : key) (r : ksum) : In r all ->
    ind (kbelow me (fst r)) =
    ind (key_eqb (fst r) me)
    + zsum (map (fun c : ksum => ind (is_parent_of me (fst c) && kbelow (fst c) (fst r))) all).
  Proof.
    intros Hr. destruct (kbelow me (fst r)) eqn:Hp.
    - destruct (key_eqb (fst r) me) eqn:E.
      + apply key_eqb_eq in E. rewrite zsum_map_zero_ext; [reflexivity|].
        intros c Hc. destruct (is_parent_of me (fst c)) eqn:Hpc; [|reflexivity].
        destruct (kbelow (fst c) (fst r)) eqn:Hb; [|reflexivity].
        destruct (child_on_path_unique _ _ _ Hpc (Hne c Hc) Hb) as (_ & _ & Hx). congruence.
      + assert (fst r <> me) as Hnm by (intros X; apply key_eqb_eq in X; congruence).
        destruct (step_child _ _ Hp Hnm) as (Hc0 & Hp0 & Hlen).
        set (c0 := (firstn (S (length (fst me))) (fst (fst r)), snd (fst r))) in *.
        rewrite (zsum_map_ext _ (fun c : ksum => ind (key_eqb (fst c) c0))).
        * rewrite (count_in (fun c : ksum => fst c) key_eqb key_eqb_eq all c0 Hnd); [reflexivity|].
          apply (Hcl r Hr). exact Hlen.
        * intros c Hc. destruct (key_eqb (fst c) c0) eqn:E2.
          -- apply key_eqb_eq in E2. rewrite E2, Hc0, Hp0. reflexivity.
          -- destruct (is_parent_of me (fst c)) eqn:Hpc; [|reflexivity].
             destruct (kbelow (fst c) (fst r)) eqn:Hb; [|reflexivity].
             destruct (child_on_path_unique _ _ _ Hpc (Hne c Hc) Hb) as (Heq & _ & _).
             exfalso. assert (key_eqb (fst c) c0 = true) by (apply key_eqb_eq; exact Heq). congruence.
    - destruct (key_eqb (fst r) me) eqn:E.
      + apply key_eqb_eq in E. rewrite E, kbelow_refl in Hp. discriminate.
      + rewrite zsum_map_zero_ext; [reflexivity|].
        intros c Hc. destruct (is_parent_of me (fst c)) eqn:Hpc; [|reflexivity].
        destruct (kbelow (fst c) (fst r)) eqn:Hb; [|reflexivity].
        destruct (child_on_path_unique _ _ _ Hpc (Hne c Hc) Hb) as (_ & Hx & _). congruence.
  Qed.

  Theorem tspec_children (me : ksum) : In me all ->
    tspec all (fst me) = d28 (snd me) +
      zsum (map (fun c : ksum => tspec all (fst c))
                (filter (fun c : ksum => is_parent_of (fst me) (fst c)) all)).
  Proof.
    intros Hin. rewrite tspec_as_ind.
    rewrite (zsum_map_ext _ (fun r : ksum => ind (key_eqb (fst r) (fst me)) * d28 (snd r) +
       zsum (map (fun c : ksum => ind (is_parent_of (fst me) (fst c) && kbelow (fst c) (fst r)) * d28 (snd r)) all))).
    2:{ intros r Hr. rewrite (decompose (fst me) r Hr).
        rewrite (zsum_map_mul_r (fun c : ksum => ind (is_parent_of (fst me) (fst c) && kbelow (fst c) (fst r))) (d28 (snd r)) all).
        ring. }
    rewrite zsum_map_add.
    rewrite (lookup_sum (fun e : ksum => fst e) key_eqb (fun e : ksum => d28 (snd e)) key_eqb_eq all me Hnd Hin).
    f_equal.
    rewrite (zsum_exchange (fun (c r : ksum) => ind (is_parent_of (fst me) (fst c) && kbelow (fst c) (fst r)) * d28 (snd r))).
    rewrite zsum_map_filter. apply zsum_map_ext. intros c _.
    rewrite tspec_as_ind. destruct (is_parent_of (fst me) (fst c)); cbn [andb ind].
    - rewrite Z.mul_1_l. reflexivity.
    - rewrite zsum_map_zero_ext; [lia|]. intros; lia.
  Qed.

  (* --- rows of tree_nodes --- *)

  Lemma child_in_len (me ch : ksum) : In ch all -> is_parent_of (fst me) (fst ch) = true ->
    length (fst (fst ch)) = S (length (fst (fst me))).
  Proof. intros Hc Hp. apply child_len; [exact Hp|apply Hne; exact Hc]. Qed.

  (* every row comes from an entry below the start node (no fuel condition) *)
  Lemma tn_in : forall f (me : ksum) b, In me all -> In b (tree_nodes f all me) ->
    exists e, In e all /\ kbelow (fst me) (fst e) = true /\ r_key b = fst e /\ r_own b = snd e.
  Proof.
    induction f as [|f IH]; intros me b Hme Hb; [destruct Hb|].
    cbn [tree_nodes] in Hb. destruct Hb as [Hb|Hb].
    - exists me. subst b. unfold r_key. cbn [r_acc r_comm r_own].
      split; [exact Hme|]. split; [apply kbelow_refl|]. split; [destruct me as [[a c] v]; reflexivity|reflexivity].
    - apply in_flat_map in Hb. destruct Hb as (ch & Hch & Hb). apply filter_In in Hch.
      destruct Hch as [Hch Hp]. destruct (IH ch b Hch Hb) as (e & He & Hbe & Hk & Ho).
      exists e. split; [exact He|]. split; [|split; assumption].
      apply (kbelow_trans _ (fst ch)); [apply child_kbelow; [exact Hp|apply Hne; exact Hch]|exact Hbe].
  Qed.

  Lemma tn_in_len f (me : ksum) b : In me all -> In b (tree_nodes f all me) ->
    (length (fst (fst me)) <= length (r_acc b))%nat.
  Proof.
    intros Hme Hb. destruct (tn_in f me b Hme Hb) as (e & _ & Hbe & Hk & _).
    apply kbelow_len in Hbe. unfold r_key in Hk. rewrite <- Hk in Hbe. exact Hbe.
  Qed.

  (* the head row and its tree sum *)
  Lemma tn_head : forall f (me : ksum), In me all ->
    (max_depth all < f + length (fst (fst me)))%nat ->
    exists t sub, tree_nodes f all me = mkBrow (fst (fst me)) (snd (fst me)) (snd me) t :: sub /\
      dwf t /\ d28 t = tspec all (fst me) /\
      Forall (fun b => (length (fst (fst me)) < length (r_acc b))%nat) sub.
  Proof.
    induction f as [|f IH]; intros me Hme Hf.
    - pose proof (max_depth_ge all me Hme). exfalso. lia.
    - cbn [tree_nodes].
      set (childs := filter (fun e : ksum => is_parent_of (fst me) (fst e)) all).
      set (sub := flat_map (tree_nodes f all) childs).
      set (P := fun b : brow => acct_eqb (parent (r_acc b)) (fst (fst me))).
      eexists. exists sub. split; [reflexivity|].
      assert (forall ch, In ch childs -> In ch all /\ is_parent_of (fst me) (fst ch) = true) as Hchilds.
      { intros ch Hch. apply filter_In in Hch. exact Hch. }
      (* each child contributes exactly its head row *)
      assert (forall ch, In ch childs -> exists t,
                filter P (tree_nodes f all ch) = [mkBrow (fst (fst ch)) (snd (fst ch)) (snd ch) t]
                /\ dwf t /\ d28 t = tspec all (fst ch)) as Hhead.
      { intros ch Hch. destruct (Hchilds ch Hch) as [Hc Hp].
        pose proof (child_in_len me ch Hc Hp) as Hl.
        destruct (IH ch Hc ltac:(lia)) as (t & sub' & E & W & V & Hsub).
        exists t. split; [|split; assumption]. rewrite E. cbn [filter].
        assert (P (mkBrow (fst (fst ch)) (snd (fst ch)) (snd ch) t) = true) as HP.
        { unfold P. cbn [r_acc]. apply acct_eqb_eq. apply is_parent_of_spec in Hp. symmetry. tauto. }
        rewrite HP. f_equal.
        (* deeper rows are not direct children *)
        clear E. induction sub' as [|b sub' IHs]; [reflexivity|]. cbn [filter].
        inversion Hsub as [|? ? Hb Hsub']; subst.
        assert (P b = false) as HPb.
        { unfold P. destruct (acct_eqb (parent (r_acc b)) (fst (fst me))) eqn:X; [|reflexivity].
          apply acct_eqb_eq in X. apply (f_equal (@length _)) in X. rewrite parent_length in X. lia. }
        rewrite HPb. apply IHs. exact Hsub'. }
      assert (Forall dwf (map r_tree (filter P sub)) /\
              zsum (map d28 (map r_tree (filter P sub))) =
              zsum (map (fun c : ksum => tspec all (fst c)) childs)) as [HW HV].
      { unfold sub. rewrite filter_flat_map. clear sub.
        induction childs as [|ch chs IHc]; cbn [flat_map map]; [split; [constructor|reflexivity]|].
        destruct (Hhead ch (or_introl eq_refl)) as (t & E & W & V).
        destruct IHc as [I1 I2].
        { intros c Hc. apply Hchilds. right. exact Hc. }
        { intros c Hc. apply Hhead. right. exact Hc. }
        rewrite E. cbn [app map r_tree]. split; [constructor; assumption|].
        rewrite !zsum_cons, I2, V. reflexivity. }
      split; [|split].
      + apply dwf_dadd; [apply dwf_dsum; exact HW|apply Hdw; exact Hme].
      + rewrite d28_dadd by (try apply dwf_dsum; try apply Hdw; assumption).
        rewrite d28_dsum by exact HW. rewrite HV.
        rewrite (tspec_children me Hme). fold childs. lia.
      + apply Forall_forall. intros b Hb. unfold sub in Hb. apply in_flat_map in Hb.
        destruct Hb as (ch & Hch & Hb). destruct (Hchilds ch Hch) as [Hc Hp].
        pose proof (tn_in_len f ch b Hc Hb). pose proof (child_in_len me ch Hc Hp). lia.
  Qed.

  (* every row: own sum and tree sum *)
  Lemma tn_tree : forall f (me : ksum) b, In me all ->
    (max_depth all < f + length (fst (fst me)))%nat -> In b (tree_nodes f all me) ->
    exists e, In e all /\ kbelow (fst me) (fst e) = true /\ r_key b = fst e /\ r_own b = snd e /\
              dwf (r_tree b) /\ d28 (r_tree b) = tspec all (fst e).
  Proof.
    induction f as [|f IH]; intros me b Hme Hf Hb; [destruct Hb|].
    destruct (tn_head (S f) me Hme Hf) as (t & sub & E & W & V & _).
    cbn [tree_nodes] in E, Hb. destruct Hb as [Hb|Hb].
    - exists me. inversion E as [[Ht Hs]]. subst b. unfold r_key. cbn [r_acc r_comm r_own r_tree].
      rewrite Ht. split; [exact Hme|]. split; [apply kbelow_refl|].
      split; [destruct me as [[a c] v]; reflexivity|]. split; [reflexivity|]. split; assumption.
    - apply in_flat_map in Hb. destruct Hb as (ch & Hch & Hb). apply filter_In in Hch.
      destruct Hch as [Hch Hp]. pose proof (child_in_len me ch Hch Hp) as Hl.
      destruct (IH ch b Hch ltac:(lia) Hb) as (e & He & Hbe & Hrest).
      exists e. split; [exact He|]. split; [|exact Hrest].
      apply (kbelow_trans _ (fst ch)); [apply child_kbelow; [exact Hp|apply Hne; exact Hch]|exact Hbe].
  Qed.

  (* every entry below the start node is listed *)
  Lemma tn_complete : forall f (me e : ksum), In me all ->
    (max_depth all < f + length (fst (fst me)))%nat -> In e all -> kbelow (fst me) (fst e) = true ->
    In (fst e) (map r_key (tree_nodes f all me)).
  Proof.
    induction f as [|f IH]; intros me e Hme Hf He Hb.
    - pose proof (max_depth_ge all me Hme). exfalso. lia.
    - cbn [tree_nodes map]. destruct (key_eq_dec (fst e) (fst me)) as [E|E].
      + left. unfold r_key. cbn [r_acc r_comm]. rewrite E. destruct me as [[a c] v]. reflexivity.
      + right. destruct (step_child _ _ Hb E) as (Hc0 & Hp0 & Hlen).
        set (c0 := (firstn (S (length (fst (fst me)))) (fst (fst e)), snd (fst e))) in *.
        assert (In c0 (map fst all)) as Hin by (apply (Hcl e He); exact Hlen).
        apply in_map_iff in Hin. destruct Hin as (ch & Ech & Hch).
        apply in_map_iff.
        assert (In (fst e) (map r_key (tree_nodes f all ch))) as Hx.
        { pose proof (child_in_len me ch Hch ltac:(rewrite Ech; exact Hc0)) as Hl.
          apply IH; [exact Hch|lia|exact He|rewrite Ech; exact Hp0]. }
        apply in_map_iff in Hx. destruct Hx as (b & Eb & Hb').
        exists b. split; [exact Eb|]. apply in_flat_map. exists ch. split; [|exact Hb'].
        apply filter_In. split; [exact Hch|rewrite Ech; exact Hc0].
  Qed.

  (* no key is listed twice *)
  Lemma tn_nodup : forall f (me : ksum), In me all -> NoDup (map r_key (tree_nodes f all me)).
  Proof.
    induction f as [|f IH]; intros me Hme; [constructor|].
    cbn [tree_nodes map]. constructor.
    - intros Hin. apply in_map_iff in Hin. destruct Hin as (b & Eb & Hb).
      apply in_flat_map in Hb. destruct Hb as (ch & Hch & Hb). apply filter_In in Hch.
      destruct Hch as [Hch Hp]. pose proof (tn_in_len f ch b Hch Hb) as L1.
      pose proof (child_in_len me ch Hch Hp) as L2.
      unfold r_key in Eb. cbn [r_acc r_comm] in Eb. inversion Eb as [[Ea Ec]].
      rewrite Ea in L1. lia.
    - apply NoDup_map_flat_map.
      + apply NoDup_filter. exact all_NoDup.
      + intros ch Hch. apply filter_In in Hch. apply IH. tauto.
      + intros c1 c2 b1 b2 H1 H2 Hb1 Hb2 Ek.
        apply filter_In in H1. destruct H1 as [H1 P1]. apply filter_In in H2. destruct H2 as [H2 P2].
        destruct (tn_in f c1 b1 H1 Hb1) as (e1 & _ & B1 & K1 & _).
        destruct (tn_in f c2 b2 H2 Hb2) as (e2 & _ & B2 & K2 & _).
        rewrite <- K1 in B1. rewrite <- K2, <- Ek in B2.
        destruct (child_on_path_unique _ _ _ P1 (Hne c1 H1) B1) as (U1 & _ & _).
        destruct (child_on_path_unique _ _ _ P2 (Hne c2 H2) B2) as (U2 & _ & _).
        apply all_key_eq; [exact H1|exact H2|congruence].
  Qed.

  (* --- the whole forest from the roots --- *)
  Definition forest : list brow :=
    flat_map (tree_nodes (S (max_depth all)) all)
             (filter (fun e : ksum => Nat.eqb (length (fst (fst e))) 1) all).

  Lemma forest_tree b : In b forest ->
    exists e, In e all /\ r_key b = fst e /\ r_own b = snd e /\
              dwf (r_tree b) /\ d28 (r_tree b) = tspec all (fst e).
  Proof.
    unfold forest. intros Hb. apply in_flat_map in Hb. destruct Hb as (rt & Hrt & Hb).
    apply filter_In in Hrt. destruct Hrt as [Hrt _].
    destruct (tn_tree (S (max_depth all)) rt b Hrt ltac:(lia) Hb) as (e & He & _ & Hrest). exists e. tauto.
  Qed.

  Lemma forest_complete e : In e all -> In (fst e) (map r_key forest).
  Proof.
    intros He. pose proof (Hne e He) as Hn.
    assert (0 < 1 <= length (fst (fst e)))%nat as Hlen.
    { destruct (fst (fst e)); [congruence|cbn [length]; lia]. }
    pose proof (Hcl e He 1%nat Hlen) as Hin. apply in_map_iff in Hin. destruct Hin as (rt & Ert & Hrt).
    assert (In (fst e) (map r_key (tree_nodes (S (max_depth all)) all rt))) as Hx.
    { apply tn_complete; [exact Hrt|lia|exact He|]. rewrite Ert.
      apply (kbelow_firstn 1 (fst e)). }
    apply in_map_iff in Hx. destruct Hx as (b & Eb & Hb). apply in_map_iff. exists b.
    split; [exact Eb|]. unfold forest. apply in_flat_map. exists rt. split; [|exact Hb].
    apply filter_In. split; [exact Hrt|]. rewrite Ert. cbn [fst]. rewrite firstn_length.
    apply Nat.eqb_eq. lia.
  Qed.

  Lemma forest_nodup : NoDup (map r_key forest).
  Proof.
    unfold forest. apply NoDup_map_flat_map.
    - apply NoDup_filter. exact all_NoDup.
    - intros rt Hrt. apply filter_In in Hrt. apply tn_nodup. tauto.
    - intros r1 r2 b1 b2 H1 H2 Hb1 Hb2 Ek.
      apply filter_In in H1. destruct H1 as [H1 L1]. apply filter_In in H2. destruct H2 as [H2 L2].
      apply Nat.eqb_eq in L1. apply Nat.eqb_eq in L2.
      destruct (tn_in _ r1 b1 H1 Hb1) as (e1 & _ & B1 & K1 & _).
      destruct (tn_in _ r2 b2 H2 Hb2) as (e2 & _ & B2 & K2 & _).
      rewrite <- K1 in B1. rewrite <- K2, <- Ek in B2.
      apply kbelow_spec in B1. apply kbelow_spec in B2.
      apply all_key_eq; [exact H1|exact H2|].
      destruct r1 as [[a1 c1] v1], r2 as [[a2 c2] v2]. cbn [fst snd] in *.
      destruct B1 as [X1 Y1], B2 as [X2 Y2]. rewrite L1 in X1. rewrite L2 in X2. congruence.
  Qed.

  (* the (key, own sum) pairs of the forest are the entries, each once *)
  Lemma forest_perm : Permutation (map (fun b => (r_key b, r_own b)) forest) all.
  Proof.
    apply NoDup_Permutation.
    - apply (NoDup_map_inv' fst). rewrite map_map. cbn [fst]. exact forest_nodup.
    - exact all_NoDup.
    - intros [k v]. split.
      + intros H. apply in_map_iff in H. destruct H as (b & E & Hb).
        destruct (forest_tree b Hb) as (e & He & K & O & _). inversion E; subst.
        rewrite K, O. destruct e; exact He.
      + intros H. pose proof (forest_complete (k, v) H) as Hk. cbn [fst] in Hk.
        apply in_map_iff in Hk. destruct Hk as (b & E & Hb). apply in_map_iff. exists b.
        split; [|exact Hb]. destruct (forest_tree b Hb) as (e & He & K & O & _).
        assert (e = (k, v)) as X by (apply all_key_eq; [exact He|exact H|cbn [fst]; congruence]).
        subst e. cbn [fst snd] in *. congruence.
  Qed.
End Tree.
