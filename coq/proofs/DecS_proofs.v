(* DecS_proofs.v — value of a decimal scaled by 10^S, generic in the scale bound S.
   dvs S d = dm d * 10^(S - ds d) is the exact value of d times 10^S whenever ds d <= S.
   Instances: d28 = dvs 28 (Dec.v), v56 = dvs 56 (Accept_spec.v). *)
From TkModel Require Import Base Dec.
Local Open Scope Z_scope.

Definition dvs (S : N) (d : dec) : Z := dm d * pow10 (S - ds d).

Lemma d28_dvs : forall d, d28 d = dvs 28 d.
Proof. reflexivity. Qed.

(* ---------- powers of ten ---------- *)
Lemma pow10_pos : forall n, 0 < pow10 n.
Proof. intro n. unfold pow10. apply Z.pow_pos_nonneg; lia. Qed.

Lemma pow10_nonzero : forall n, pow10 n <> 0.
Proof. intro n. pose proof (pow10_pos n). lia. Qed.

Lemma pow10_0 : pow10 0 = 1.
Proof. reflexivity. Qed.

Lemma pow10_add : forall a b, pow10 (a + b) = pow10 a * pow10 b.
Proof.
  intros a b. unfold pow10. rewrite N2Z.inj_add. apply Z.pow_add_r; lia.
Qed.

(* 10^(s-a) * 10^(S-s) = 10^(S-a) for a <= s <= S *)
Lemma pow10_chain : forall a s S, (a <= s)%N -> (s <= S)%N ->
  pow10 (s - a) * pow10 (S - s) = pow10 (S - a).
Proof.
  intros a s S Has HsS. rewrite <- pow10_add. f_equal. lia.
Qed.

(* ---------- zero / sign ---------- *)
Lemma dvs_zero_iff : forall S d, dvs S d = 0 <-> dm d = 0.
Proof.
  intros S d. unfold dvs. pose proof (pow10_pos (S - ds d)) as Hp. split; intro H.
  - apply Z.mul_eq_0 in H. destruct H as [H | H]; [exact H | lia].
  - rewrite H. reflexivity.
Qed.

Lemma is_zero_dm : forall d, is_zero d = true <-> dm d = 0.
Proof. intro d. unfold is_zero. apply Z.eqb_eq. Qed.

Lemma is_zero_false_dm : forall d, is_zero d = false <-> dm d <> 0.
Proof. intro d. unfold is_zero. apply Z.eqb_neq. Qed.

Lemma is_zero_dvs : forall S d, is_zero d = true <-> dvs S d = 0.
Proof.
  intros S d. rewrite is_zero_dm. symmetry. apply dvs_zero_iff.
Qed.

Lemma is_zero_false_dvs : forall S d, is_zero d = false <-> dvs S d <> 0.
Proof.
  intros S d. rewrite is_zero_false_dm. rewrite dvs_zero_iff. tauto.
Qed.

Lemma dvs_neg_iff : forall S d, dm d < 0 <-> dvs S d < 0.
Proof.
  intros S d. unfold dvs. pose proof (pow10_pos (S - ds d)) as Hp. split; intro H; nia.
Qed.

Lemma dvs_pos_iff : forall S d, 0 < dm d <-> 0 < dvs S d.
Proof.
  intros S d. unfold dvs. pose proof (pow10_pos (S - ds d)) as Hp. split; intro H; nia.
Qed.

Lemma dvs_nonneg_iff : forall S d, 0 <= dm d <-> 0 <= dvs S d.
Proof.
  intros S d. unfold dvs. pose proof (pow10_pos (S - ds d)) as Hp. split; intro H; nia.
Qed.

Lemma is_neg_dm : forall d, is_neg d = true <-> dm d < 0.
Proof. intro d. unfold is_neg. apply Z.ltb_lt. Qed.

Lemma is_neg_false_dm : forall d, is_neg d = false <-> 0 <= dm d.
Proof. intro d. unfold is_neg. rewrite Z.ltb_ge. tauto. Qed.

Lemma is_neg_dvs : forall S d, is_neg d = true <-> dvs S d < 0.
Proof. intros S d. rewrite is_neg_dm. apply dvs_neg_iff. Qed.

Lemma dvs_dzero : forall S, dvs S dzero = 0.
Proof. intro S. unfold dvs, dzero. cbn [dm]. reflexivity. Qed.

(* ---------- negation ---------- *)
Lemma dvs_dneg : forall S a, dvs S (dneg a) = - dvs S a.
Proof. intros S a. unfold dvs, dneg. cbn [dm ds]. lia. Qed.

Lemma ds_dneg : forall a, ds (dneg a) = ds a.
Proof. reflexivity. Qed.

Lemma is_zero_dneg : forall a, is_zero (dneg a) = is_zero a.
Proof.
  intro a. unfold is_zero, dneg. cbn [dm].
  destruct (Z.eqb_spec (dm a) 0) as [E | E].
  - apply Z.eqb_eq. lia.
  - apply Z.eqb_neq. lia.
Qed.

(* ---------- addition ---------- *)
Lemma ds_dadd : forall S a b, (ds a <= S)%N -> (ds b <= S)%N -> (ds (dadd a b) <= S)%N.
Proof.
  intros S a b Ha Hb. unfold dadd.
  destruct (is_zero a); [exact Hb |].
  destruct (is_zero b); [exact Ha |].
  cbn [ds]. lia.
Qed.

Lemma dvs_dadd : forall S a b, (ds a <= S)%N -> (ds b <= S)%N ->
  dvs S (dadd a b) = dvs S a + dvs S b.
Proof.
  intros S a b Ha Hb. unfold dadd.
  destruct (is_zero a) eqn:Za.
  - apply (is_zero_dvs S) in Za. lia.
  - destruct (is_zero b) eqn:Zb.
    + apply (is_zero_dvs S) in Zb. lia.
    + unfold dvs, rescale. cbn [dm ds].
      set (s := N.max (ds a) (ds b)).
      assert (Has : (ds a <= s)%N) by (subst s; lia).
      assert (Hbs : (ds b <= s)%N) by (subst s; lia).
      assert (HsS : (s <= S)%N) by (subst s; lia).
      rewrite <- (pow10_chain (ds a) s S Has HsS).
      rewrite <- (pow10_chain (ds b) s S Hbs HsS).
      ring.
Qed.

(* ---------- sums ---------- *)
Lemma dsum_acc : forall S l acc, (ds acc <= S)%N -> Forall (fun d => (ds d <= S)%N) l ->
  dvs S (fold_left dadd l acc) = dvs S acc + zsum (map (dvs S) l)
  /\ (ds (fold_left dadd l acc) <= S)%N.
Proof.
  intros S l. induction l as [| x l IH]; intros acc Hacc Hl.
  - cbn [fold_left map zsum fold_right]. split; [lia | exact Hacc].
  - inversion Hl as [| x' l' Hx Hl']; subst.
    cbn [fold_left map].
    destruct (IH (dadd acc x) (ds_dadd S acc x Hacc Hx) Hl') as [IH1 IH2].
    split; [| exact IH2].
    rewrite IH1. rewrite (dvs_dadd S acc x Hacc Hx).
    unfold zsum. cbn [fold_right]. lia.
Qed.

Lemma dvs_dsum : forall S l, Forall (fun d => (ds d <= S)%N) l ->
  dvs S (dsum l) = zsum (map (dvs S) l).
Proof.
  intros S l Hl. unfold dsum.
  assert (H0 : (ds dzero <= S)%N) by (cbn [dzero ds]; lia).
  destruct (dsum_acc S l dzero H0 Hl) as [H _].
  rewrite H. rewrite dvs_dzero. lia.
Qed.

Lemma ds_dsum : forall S l, Forall (fun d => (ds d <= S)%N) l -> (ds (dsum l) <= S)%N.
Proof.
  intros S l Hl. unfold dsum.
  assert (H0 : (ds dzero <= S)%N) by (cbn [dzero ds]; lia).
  destruct (dsum_acc S l dzero H0 Hl) as [_ H]. exact H.
Qed.

(* ---------- multiplication ---------- *)
Lemma ds_dmul : forall a b, (ds (dmul a b) <= ds a + ds b)%N.
Proof.
  intros a b. unfold dmul. destruct (is_zero a || is_zero b).
  - cbn [dzero ds]. lia.
  - cbn [ds]. lia.
Qed.

(* generic: the product is exact at scale S when the scales add up to at most S *)
Lemma dvs_dmul : forall S a b, (ds a + ds b <= S)%N ->
  dvs S (dmul a b) * pow10 S = dvs S a * dvs S b.
Proof.
  intros S a b H. unfold dmul.
  destruct (is_zero a) eqn:Za.
  - cbn [orb]. rewrite dvs_dzero. apply (is_zero_dvs S) in Za. rewrite Za. lia.
  - destruct (is_zero b) eqn:Zb.
    + cbn [orb]. rewrite dvs_dzero. apply (is_zero_dvs S) in Zb. rewrite Zb. lia.
    + cbn [orb]. unfold dvs. cbn [dm ds].
      assert (E : pow10 (S - (ds a + ds b)) * pow10 S = pow10 (S - ds a) * pow10 (S - ds b)).
      { rewrite <- !pow10_add. f_equal. lia. }
      transitivity (dm a * dm b * (pow10 (S - (ds a + ds b)) * pow10 S)); [ring |].
      rewrite E. ring.
Qed.

Lemma dvs56_dmul : forall a b, (ds a <= 28)%N -> (ds b <= 28)%N ->
  dvs 56 (dmul a b) * pow10 56 = dvs 56 a * dvs 56 b.
Proof. intros a b Ha Hb. apply dvs_dmul. lia. Qed.

Lemma ds56_dmul : forall a b, (ds a <= 28)%N -> (ds b <= 28)%N -> (ds (dmul a b) <= 56)%N.
Proof. intros a b Ha Hb. pose proof (ds_dmul a b). lia. Qed.

(* ---------- representation equality ---------- *)
Lemma drepr_eqb_eq : forall a b, drepr_eqb a b = true <-> a = b.
Proof.
  intros [ma sa] [mb sb]. unfold drepr_eqb. cbn [dm ds].
  rewrite andb_true_iff, Z.eqb_eq, N.eqb_eq. split.
  - intros [H1 H2]. subst. reflexivity.
  - intro H. inversion H. split; reflexivity.
Qed.
