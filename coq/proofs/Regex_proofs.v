(* Regex_proofs.v — lemmas behind props/C11.v (regex part and selection part). *)
From Coq Require Import Permutation Sorted.
From TkModel Require Import Base Dec Acct Balance Regex Select.
From TkSpec Require Import Balance_spec Regex_spec.
From TkProofs Require Import Base_proofs DecS_proofs Acct_proofs Balance_proofs.

(* ------------------------------------------------------------------ *)
(* positions of a match are inside the haystack *)

Lemma c11_nth_lt {A} (s : list A) i c : nth_error s i = Some c -> i < length s.
Proof. intros H. apply nth_error_Some. rewrite H. discriminate. Qed.

Lemma m_range s r i j : m s r i j -> i <= j /\ j <= length s.
Proof.
  induction 1;
    try match goal with H : nth_error _ _ = Some _ |- _ => apply c11_nth_lt in H end; lia.
Qed.

(* ------------------------------------------------------------------ *)
(* MAIN: searching for the wrapped pattern = matching the whole haystack *)

Lemma wrap_is_full_match p s : search (wrap p) s <-> full_match p s.
Proof.
  unfold search, full_match, wrap. split.
  - intros (i & j & H).
    inversion H as [| | | |a b i' k j' H1 H2| | | | | | | | | |]; subst.
    inversion H1; subst.
    inversion H2 as [| | | |a b i' k' j' H3 H4| | | | | | | | | |]; subst.
    inversion H4; subst.
    inversion H3; subst. assumption.
  - intros H. exists 0, (length s).
    apply m_seq with (k := 0); [apply m_bol|].
    apply m_seq with (k := length s); [apply m_group; exact H|apply m_eol].
Qed.

(* a whole-haystack match is in particular found by a search; the converse fails *)
Lemma full_match_search p s : full_match p s -> search p s.
Proof. intros H. exists 0, (length s). exact H. Qed.

(* ------------------------------------------------------------------ *)
(* the executable matcher *)

Lemma undup_In x l : In x (undup l) <-> In x l.
Proof.
  induction l as [|y l IH]; cbn [undup]; [tauto|].
  destruct (existsb (Nat.eqb y) l) eqn:E.
  - rewrite IH. cbn [In]. split; [tauto|]. intros [H|H]; [|exact H]. subst.
    apply existsb_exists in E. destruct E as (z & Hz & Ez). apply Nat.eqb_eq in Ez. subst. exact Hz.
  - cbn [In]. rewrite IH. tauto.
Qed.

Lemma here_In s i j : In j (here s i) <-> j = i /\ i <= length s.
Proof.
  unfold here. destruct (i <=? length s) eqn:E.
  - apply Nat.leb_le in E. cbn [In]. split; [intros [H|[]]; subst; auto|intros [H _]; left; auto].
  - apply Nat.leb_gt in E. cbn [In]. split; [tauto|]. intros [_ H]. lia.
Qed.

Lemma step_chr_In s p i j :
  In j (step_chr s p i) <-> exists c, nth_error s i = Some c /\ p c = true /\ j = S i.
Proof.
  unfold step_chr. destruct (nth_error s i) as [c|].
  - destruct (p c) eqn:E; cbn [In].
    + split; [intros [H|[]]; exists c; auto|intros (c' & H1 & _ & H3); left; auto].
    + split; [tauto|]. intros (c' & H1 & H2 & _). inversion H1; subst. congruence.
  - cbn [In]. split; [tauto|]. intros (c' & H1 & _). discriminate.
Qed.

(* chains of iterations *)
Inductive chain (R : nat -> nat -> Prop) : nat -> nat -> nat -> Prop :=
| chain_0 x : chain R 0 x x
| chain_S n x y z : R x y -> chain R n y z -> chain R (S n) x z.

Lemma chain_impl (R Q : nat -> nat -> Prop) n x z :
  (forall a b, R a b -> Q a b) -> chain R n x z -> chain Q n x z.
Proof. intros HI. induction 1; [constructor|econstructor; eauto]. Qed.

Lemma star_close_mono f n : forall cur x, In x cur -> In x (star_close f n cur).
Proof.
  induction n as [|n IH]; intros cur x H; cbn [star_close]; [exact H|].
  apply IH. apply undup_In. apply in_or_app. left. exact H.
Qed.

Lemma star_close_complete f n : forall cur x t j,
  In x cur -> chain (fun a b => In b (f a)) t x j -> t <= n -> In j (star_close f n cur).
Proof.
  induction n as [|n IH]; intros cur x t j Hx Hc Ht.
  - assert (t = 0) by lia. subst. inversion Hc; subst. exact Hx.
  - cbn [star_close]. inversion Hc as [x'|t' x' y z Hxy Hrest]; subst.
    + apply star_close_mono. apply undup_In. apply in_or_app. left. exact Hx.
    + apply (IH _ y t' j); [|exact Hrest|lia].
      apply undup_In. apply in_or_app. right. apply in_flat_map. exists x. split; assumption.
Qed.

Lemma chain_snoc R n x y z : chain R n x y -> R y z -> chain R (S n) x z.
Proof.
  induction 1 as [x|n x w y Hxw Hc IH]; intros Hyz.
  - econstructor; [exact Hyz|constructor].
  - econstructor; [exact Hxw|apply IH; exact Hyz].
Qed.

Lemma star_close_sound f n : forall cur j,
  In j (star_close f n cur) -> exists x t, In x cur /\ chain (fun a b => In b (f a)) t x j.
Proof.
  induction n as [|n IH]; intros cur j H; cbn [star_close] in H.
  - exists j, 0. split; [exact H|constructor].
  - destruct (IH _ _ H) as (x & t & Hx & Hc).
    rewrite undup_In in Hx. apply in_app_or in Hx. destruct Hx as [Hx|Hx].
    + exists x, t. split; assumption.
    + apply in_flat_map in Hx. destruct Hx as (w & Hw & Hwx).
      exists w, (S t). split; [exact Hw|]. econstructor; [exact Hwx|exact Hc].
Qed.

(* Star in terms of chains *)
Lemma chain_star s a t : forall i j,
  chain (fun x y => m s a x y) t i j -> i <= length s -> m s (Star a) i j.
Proof.
  induction t as [|t IH]; intros i j Hc Hi; inversion Hc; subst.
  - apply m_star_nil. exact Hi.
  - eapply m_star_step; [eassumption|]. apply IH; [assumption|].
    match goal with H : m s a i ?y |- _ => apply m_range in H; lia end.
Qed.

Lemma star_chain s a i j :
  m s (Star a) i j -> exists t, chain (fun x y => m s a x y /\ x < y) t i j.
Proof.
  intros H. remember (Star a) as r eqn:E. revert E.
  induction H; intros E; try discriminate E; inversion E; subst.
  - exists 0. constructor.
  - destruct (IHm2 eq_refl) as (t & Hc).
    destruct (Nat.eq_dec i k) as [->|Hne]; [exists t; exact Hc|].
    exists (S t). econstructor; [|exact Hc]. split; [assumption|].
    match goal with H : m s a i k |- _ => apply m_range in H; lia end.
Qed.

Lemma chain_strict_len (R : nat -> nat -> Prop) t i j :
  chain (fun x y => R x y /\ x < y) t i j -> i + t <= j.
Proof. induction 1 as [x|n x y z [_ Hlt] _ IH]; lia. Qed.

Lemma ends_spec s r : forall i j, In j (ends s r i) <-> m s r i j.
Proof.
  induction r as [|c| |neg rs|a IHa b IHb|a IHa b IHb|a IHa|a IHa|a IHa|cap a IHa| |];
    intros i j; cbn [ends].
  - (* Empty *) rewrite here_In. split.
    + intros [-> H]. constructor. exact H.
    + intros H. inversion H; subst. auto.
  - (* Chr *) rewrite step_chr_In. split.
    + intros (c' & H1 & H2 & ->). apply N.eqb_eq in H2. subst. constructor. exact H1.
    + intros H. inversion H; subst. exists c. split; [assumption|]. split; [apply N.eqb_refl|reflexivity].
  - (* Any *) rewrite step_chr_In. split.
    + intros (c' & H1 & H2 & ->). apply negb_true_iff in H2. apply N.eqb_neq in H2.
      econstructor; eassumption.
    + intros H. inversion H as [| |c i' H1 H2| | | | | | | | | | | |]; subst. exists c.
      split; [assumption|]. split; [|reflexivity]. apply negb_true_iff. apply N.eqb_neq. exact H2.
  - (* Class *) rewrite step_chr_In. split.
    + intros (c' & H1 & H2 & ->). econstructor; eassumption.
    + intros H. inversion H as [| | |neg' rs' c i' H1 H2| | | | | | | | | | |]; subst. exists c. auto.
  - (* Seq *) rewrite undup_In, in_flat_map. split.
    + intros (k & Hk & Hj). apply IHa in Hk. apply IHb in Hj. econstructor; eassumption.
    + intros H. inversion H as [| | | |a' b' i' k j' H1 H2| | | | | | | | | |]; subst.
      exists k. split; [apply IHa; exact H1|apply IHb; exact H2].
  - (* Alt *) rewrite undup_In, in_app_iff, IHa, IHb. split.
    + intros [H|H]; [apply m_alt_l|apply m_alt_r]; exact H.
    + intros H. inversion H; subst; auto.
  - (* Star *) split.
    + intros H. apply star_close_sound in H. destruct H as (x & t & Hx & Hc).
      rewrite here_In in Hx. destruct Hx as [-> Hi].
      apply (chain_star s a t); [|exact Hi].
      eapply chain_impl; [|exact Hc]. intros x y Hxy. apply IHa. exact Hxy.
    + intros H. pose proof (m_range _ _ _ _ H) as [Hij Hj].
      destruct (star_chain _ _ _ _ H) as (t & Hc).
      pose proof (chain_strict_len _ _ _ _ Hc) as Hlen.
      apply (star_close_complete _ _ _ i t j).
      * apply here_In. split; [reflexivity|lia].
      * eapply chain_impl; [|exact Hc]. intros x y [Hxy _]. apply IHa. exact Hxy.
      * lia.
  - (* Plus *) split.
    + intros H. apply star_close_sound in H. destruct H as (x & t & Hx & Hc).
      apply IHa in Hx. eapply m_plus; [exact Hx|].
      apply (chain_star s a t).
      * eapply chain_impl; [|exact Hc]. intros u v Huv. apply IHa. exact Huv.
      * apply m_range in Hx. lia.
    + intros H. inversion H as [| | | | | | | | |a' i' k j' H1 H2| | | | |]; subst.
      pose proof (m_range _ _ _ _ H2) as [Hkj Hj].
      destruct (star_chain _ _ _ _ H2) as (t & Hc).
      pose proof (chain_strict_len _ _ _ _ Hc) as Hlen.
      apply (star_close_complete _ _ _ k t j).
      * apply IHa. exact H1.
      * eapply chain_impl; [|exact Hc]. intros x y [Hxy _]. apply IHa. exact Hxy.
      * lia.
  - (* Opt *) rewrite undup_In, in_app_iff, here_In, IHa. split.
    + intros [[-> H]|H]; [apply m_opt_none; exact H|apply m_opt_some; exact H].
    + intros H. inversion H; subst; auto.
  - (* Group *) rewrite IHa. split; [apply m_group|]. intros H. inversion H; subst. assumption.
  - (* Bol *) destruct (i =? 0) eqn:E.
    + apply Nat.eqb_eq in E. subst. cbn [In]. split.
      * intros [<-|[]]. constructor.
      * intros H. inversion H; subst. left. reflexivity.
    + apply Nat.eqb_neq in E. cbn [In]. split; [tauto|]. intros H. inversion H; subst. congruence.
  - (* Eol *) destruct (i =? length s) eqn:E.
    + apply Nat.eqb_eq in E. subst. cbn [In]. split.
      * intros [<-|[]]. constructor.
      * intros H. inversion H; subst. left. reflexivity.
    + apply Nat.eqb_neq in E. cbn [In]. split; [tauto|]. intros H. inversion H; subst. congruence.
Qed.

Lemma nonempty_ex {A} (l : list A) : nonempty l = true <-> exists x, In x l.
Proof.
  destruct l as [|x l]; cbn [nonempty In].
  - split; [discriminate|]. intros (x & []).
  - split; [intros _; exists x; auto|reflexivity].
Qed.

Lemma searchb_spec r s : searchb r s = true <-> search r s.
Proof.
  unfold searchb, search. rewrite existsb_exists. split.
  - intros (i & _ & H). apply nonempty_ex in H. destruct H as (j & Hj).
    exists i, j. apply ends_spec. exact Hj.
  - intros (i & j & H). exists i. split.
    + apply in_seq. apply m_range in H. lia.
    + apply nonempty_ex. exists j. apply ends_spec. exact H.
Qed.

Lemma full_matchb_spec p s : full_matchb p s = true <-> full_match p s.
Proof.
  unfold full_matchb, full_match. rewrite existsb_exists. split.
  - intros (j & Hj & E). apply Nat.eqb_eq in E. subst. apply ends_spec. exact Hj.
  - intros H. exists (length s). split; [apply ends_spec; exact H|apply Nat.eqb_refl].
Qed.

Lemma bool_iff_eq (a b : bool) : (a = true <-> b = true) -> a = b.
Proof.
  destruct a, b; intros [H1 H2]; try reflexivity.
  - symmetry. apply H1. reflexivity.
  - apply H2. reflexivity.
Qed.

(* what the code computes = the specification's decision *)
Lemma is_match_full p s : full_haystack_is_match p s = full_matchb p s.
Proof.
  apply bool_iff_eq. unfold full_haystack_is_match.
  rewrite searchb_spec, full_matchb_spec. apply wrap_is_full_match.
Qed.

Lemma set_is_match_spec ps s :
  full_haystack_set_is_match ps s = true <-> exists p, In p ps /\ full_match p s.
Proof.
  unfold full_haystack_set_is_match. rewrite existsb_exists.
  split; intros (p & Hp & H); exists p; (split; [exact Hp|]).
  - apply full_matchb_spec. rewrite <- is_match_full. exact H.
  - rewrite is_match_full. apply full_matchb_spec. exact H.
Qed.

(* ------------------------------------------------------------------ *)
(* concrete syntax *)

Lemma wrap_text_pp p : pp (wrap p) = wrap_text (pp p).
Proof.
  unfold pp, wrap, wrap_text, wrap_pre, wrap_suf. cbn [pp_at Nat.leb paren app].
  rewrite <- !app_assoc. reflexivity.
Qed.

Definition not_alt (r : re) : bool := match r with Alt _ _ => false | _ => true end.

Lemma pp_at_01 r : not_alt r = true -> pp_at 1 r = pp_at 0 r.
Proof. destruct r; cbn [not_alt]; try discriminate; intros _; reflexivity. Qed.

(* WITHOUT the group, the anchors bind to the first and the last alternative only *)
Lemma pp_without_group a b : not_alt a = true -> not_alt b = true ->
  [94%N] ++ pp (Alt a b) ++ [36%N] = pp (Alt (Seq Bol a) (Seq b Eol)).
Proof.
  intros Ha Hb. unfold pp. cbn [pp_at Nat.leb paren app].
  rewrite (pp_at_01 a Ha), (pp_at_01 b Hb). rewrite <- !app_assoc. reflexivity.
Qed.

Lemma strip_prefix_app pre t : strip_prefix pre (pre ++ t) = Some t.
Proof. induction pre as [|c pre IH]; cbn [strip_prefix app]; [reflexivity|]. rewrite N.eqb_refl. exact IH. Qed.

Lemma strip_suffix_app suf t : strip_suffix suf (t ++ suf) = Some t.
Proof.
  unfold strip_suffix. rewrite rev_app_distr, strip_prefix_app. cbn [option_map].
  rewrite rev_involutive. reflexivity.
Qed.

Lemma peel_wrap_text t : peel (wrap_text t) = t.
Proof.
  unfold peel, wrap_text. rewrite strip_prefix_app, strip_suffix_app. reflexivity.
Qed.

(* ------------------------------------------------------------------ *)
(* selection *)

Lemma name_selectedb_spec pats a : name_selectedb pats a = true <-> name_selected pats a.
Proof.
  unfold name_selectedb, name_selected. destruct pats as [|p0 pats'].
  - split; auto.
  - rewrite existsb_exists. split.
    + intros (p & Hp & H). right. exists p. split; [exact Hp|apply full_matchb_spec; exact H].
    + intros [H|(p & Hp & H)]; [discriminate H|]. exists p. split; [exact Hp|apply full_matchb_spec; exact H].
Qed.

Lemma must_listb_spec equity pats r : must_listb equity pats r = true <-> must_list equity pats r.
Proof.
  unfold must_listb, must_list. rewrite andb_true_iff, name_selectedb_spec.
  destruct equity.
  - rewrite negb_true_iff. unfold is_zero. rewrite Z.eqb_neq. split; intros [H1 H2]; split; auto.
  - split; intros [H1 H2]; split; auto. intros X; discriminate X.
Qed.

(* the selector the code builds decides exactly `must_list` *)
Lemma selector_is_spec (equity : bool) pats r :
  (if equity then equity_selector pats else report_selector pats) r = must_listb equity pats r.
Proof.
  unfold must_listb, name_selectedb, equity_selector, report_selector, sel_nonzero_by_account,
    sel_by_account, sel_nonzero, sel_all, full_haystack_set_is_match, acc_text.
  assert (forall l, existsb (fun p => full_haystack_is_match p (acct_str (r_acc r))) l
                    = existsb (fun p => full_matchb p (acct_str (r_acc r))) l) as E.
  { induction l as [|p l IH]; cbn [existsb]; [reflexivity|]. rewrite is_match_full, IH. reflexivity. }
  destruct equity, pats as [|p0 pats']; try rewrite E.
  - reflexivity.
  - apply andb_comm.
  - reflexivity.
  - symmetry. apply andb_true_r.
Qed.

Lemma filter_ext_all {A} (f g : A -> bool) l : (forall x, f x = g x) -> filter f l = filter g l.
Proof. intros H. induction l as [|x l IH]; cbn [filter]; [reflexivity|]. rewrite H, IH. reflexivity. Qed.

(* C11_rows / C11_figures_unchanged / C11_delta_recomputed in one statement *)
Lemma selected_balance_spec : forall known ord equity pats ps rep,
  (forall l, Permutation (ord l) l) -> Forall bpost_wf ps ->
  selected_balance known ord equity pats ps = Some rep ->
  exists rows, balance known ord ps = Some rows
    /\ b_rows rep = filter (must_listb equity pats) rows
    /\ NoDup (map fst (b_deltas rep))
    /\ (forall c, In c (map fst (b_deltas rep)) <-> In c (map r_comm (b_rows rep)))
    /\ (forall c d, In (c, d) (b_deltas rep) -> d28 d = spec_delta (b_rows rep) c).
Proof.
  intros known ord equity pats ps rep Hord Hwf H. unfold selected_balance in H.
  destruct (report_delta _ _ _ _ _ Hord Hwf H) as ((rows & Eb & Er) & Hnd & Hc & Hd).
  exists rows. split; [exact Eb|]. split; [|split; [exact Hnd|split; [exact Hc|exact Hd]]].
  rewrite Er. apply filter_ext_all. intros r. apply selector_is_spec.
Qed.

Lemma selected_rows : forall known ord equity pats ps rep,
  (forall l, Permutation (ord l) l) -> Forall bpost_wf ps ->
  selected_balance known ord equity pats ps = Some rep ->
  exists rows, balance known ord ps = Some rows
    /\ forall r, In r (b_rows rep) <-> In r rows /\ must_list equity pats r.
Proof.
  intros known ord equity pats ps rep Hord Hwf H.
  destruct (selected_balance_spec _ _ _ _ _ _ Hord Hwf H) as (rows & Eb & Er & _).
  exists rows. split; [exact Eb|]. intros r. rewrite Er, filter_In, must_listb_spec. reflexivity.
Qed.

(* no pattern: the report lists every row *)
Lemma selected_none : forall known ord ps,
  selected_balance known ord false [] ps = balance_report known ord (fun _ => true) ps.
Proof. reflexivity. Qed.

Lemma selected_figures : forall known ord equity pats ps rep,
  (forall l, Permutation (ord l) l) -> Forall bpost_wf ps ->
  selected_balance known ord equity pats ps = Some rep ->
  exists rows, balance known ord ps = Some rows
    /\ b_rows rep = filter (must_listb equity pats) rows
    /\ forall r, In r (b_rows rep) ->
         In r rows /\ d28 (r_own r) = spec_own ps (r_key r) /\ d28 (r_tree r) = spec_tree ps (r_key r).
Proof.
  intros known ord equity pats ps rep Hord Hwf H.
  destruct (selected_balance_spec _ _ _ _ _ _ Hord Hwf H) as (rows & Eb & Er & _).
  exists rows. split; [exact Eb|]. split; [exact Er|]. intros r Hr.
  rewrite Er in Hr. apply filter_In in Hr. destruct Hr as [Hr _].
  split; [exact Hr|]. split.
  - apply (balance_own known ord ps rows Hord Hwf Eb r Hr).
  - apply (balance_tree known ord ps rows Hord Hwf Eb r Hr).
Qed.

Lemma selected_delta : forall known ord equity pats ps rep,
  (forall l, Permutation (ord l) l) -> Forall bpost_wf ps ->
  selected_balance known ord equity pats ps = Some rep ->
  NoDup (map fst (b_deltas rep))
  /\ (forall c, In c (map fst (b_deltas rep)) <-> In c (map r_comm (b_rows rep)))
  /\ (forall c d, In (c, d) (b_deltas rep) -> d28 d = spec_delta (b_rows rep) c).
Proof.
  intros known ord equity pats ps rep Hord Hwf H.
  destruct (selected_balance_spec _ _ _ _ _ _ Hord Hwf H) as (rows & _ & _ & H1 & H2 & H3).
  auto.
Qed.

(* ------------------------------------------------------------------ *)
(* register *)

Lemma reg_rows_keys st ps : map rr_key (fst (reg_rows st ps)) = map bp_key ps.
Proof.
  revert st. induction ps as [|p ps IH]; intros st; cbn [reg_rows]; [reflexivity|].
  specialize (IH (eng_set st (bp_key p)
    match eng_get st (bp_key p) with Some v => dadd v (bp_amt p) | None => bp_amt p end)).
  destruct (reg_rows _ ps) as [rows st'] eqn:E. cbn [fst map] in *. rewrite IH. reflexivity.
Qed.

Definition rrow_le (a b : rrow) : Prop := rrow_leb a b = true.

Lemma reg_totals_sorted txns : forall st,
  Forall (StronglySorted rrow_le) (reg_totals st txns).
Proof.
  induction txns as [|t txns IH]; intros st; cbn [reg_totals]; [constructor|].
  pose proof (reg_rows_keys st (sort_by post_leb t)) as K.
  destruct (reg_rows st (sort_by post_leb t)) as [rows st'] eqn:E. cbn [fst] in K.
  constructor; [|apply IH].
  assert (StronglySorted (fun a b => post_leb a b = true) (sort_by post_leb t)) as S.
  { apply sort_by_sorted.
    - intros a b. apply key_leb_total.
    - intros a b c. apply key_leb_trans. }
  apply (proj1 (StronglySorted_map (fun a b => key_leb a b = true) bp_key _)) in S.
  rewrite <- K in S.
  apply (proj2 (StronglySorted_map (fun a b => key_leb a b = true) rr_key _)) in S. exact S.
Qed.

(* the selector only removes rows: per transaction, the listed rows are the selected rows
   of the unselected register, in the same order, with the same running totals *)
Lemma register_filter sel txns :
  register sel txns = map (filter sel) (register rsel_all txns).
Proof.
  unfold register. rewrite map_map.
  pose proof (reg_totals_sorted txns []) as S.
  induction (reg_totals [] txns) as [|rows l IH]; cbn [map]; [reflexivity|].
  inversion S as [|? ? S1 S2]; subst. rewrite (IH S2). f_equal.
  unfold rsel_all at 1. rewrite filter_true.
  rewrite (sort_by_id rrow_leb rows S1).
  apply sort_by_id. apply StronglySorted_filter. exact S1.
Qed.

Lemma register_selector_spec pats r :
  register_selector pats r = name_selectedb pats (rr_acc r).
Proof.
  unfold register_selector, name_selectedb, rsel_by_account, rsel_all,
    full_haystack_set_is_match, acc_text.
  destruct pats as [|p0 pats']; [reflexivity|].
  generalize (p0 :: pats'). induction l as [|p l IH]; cbn [existsb]; [reflexivity|].
  rewrite is_match_full, IH. reflexivity.
Qed.

Lemma selected_register_spec pats txns :
  selected_register pats txns
  = map (filter (fun r => name_selectedb pats (rr_acc r))) (selected_register [] txns).
Proof.
  unfold selected_register. cbn [register_selector]. rewrite register_filter.
  apply map_ext. intros rows. apply filter_ext_all. intros r. apply register_selector_spec.
Qed.

(* ------------------------------------------------------------------ *)
(* the executable oracles are sound *)

Lemma brow_same_eq a b : brow_same a b = true <-> a = b.
Proof.
  destruct a as [aa ac ao atr], b as [ba bc bo btr]. unfold brow_same, r_key.
  cbn [r_acc r_comm r_own r_tree]. rewrite !andb_true_iff, key_eqb_eq, !drepr_eqb_eq. split.
  - intros [[K O] T]. inversion K. subst. reflexivity.
  - intros H. inversion H. auto.
Qed.

Lemma rrow_same_eq a b : rrow_same a b = true <-> a = b.
Proof.
  destruct a as [aa ac ao atr], b as [ba bc bo btr]. unfold rrow_same, rr_key.
  cbn [rr_acc rr_comm rr_amt rr_total]. rewrite !andb_true_iff, key_eqb_eq, !drepr_eqb_eq. split.
  - intros [[K O] T]. inversion K. subst. reflexivity.
  - intros H. inversion H. auto.
Qed.

Lemma select_oracle_sound : forall equity pats unf rep,
  select_oracle equity pats unf rep = true ->
  b_rows rep = filter (must_listb equity pats) unf
  /\ (forall r, In r (b_rows rep) <-> In r unf /\ must_list equity pats r)
  /\ (forall c d, In (c, d) (b_deltas rep) -> d28 d = spec_delta (b_rows rep) c).
Proof.
  intros equity pats unf rep H. unfold select_oracle, listed_ok in H.
  apply andb_true_iff in H. destruct H as [H1 H2].
  apply (list_eqb_eq brow_same brow_same_eq) in H1.
  split; [exact H1|]. split.
  - intros r. rewrite H1, filter_In, must_listb_spec. reflexivity.
  - unfold deltas_ok in H2. rewrite !andb_true_iff, !forallb_forall in H2.
    destruct H2 as [[Hd _] _]. intros c d Hin. specialize (Hd (c, d) Hin). cbn [fst snd] in Hd.
    apply Z.eqb_eq. exact Hd.
Qed.

Lemma reg_oracle_sound : forall pats unf listed,
  reg_oracle pats unf listed = true ->
  listed = map (filter (fun r => name_selectedb pats (rr_acc r))) unf.
Proof.
  intros pats unf listed H. unfold reg_oracle in H.
  apply (list_eqb_eq (list_eqb rrow_same) (list_eqb_eq rrow_same rrow_same_eq)) in H. exact H.
Qed.

(* ------------------------------------------------------------------ *)
(* witnesses *)

(* a search (what `find`/an unwrapped is_match would do) is strictly weaker: pattern a:b
   is found inside a:b:c, xa:b and a:bb, and matches none of them entirely *)
Definition pat_ab : re := Seq (Chr 97) (Seq (Chr 58) (Chr 98)).
Lemma search_is_weaker :
  Forall (fun s => partial_match_only pat_ab s)
         [[97;58;98;58;99]; [120;97;58;98]; [97;58;98;98]]%N
  /\ full_match pat_ab [97;58;98]%N.
Proof.
  split.
  - repeat constructor.
    all: try (apply searchb_spec; vm_compute; reflexivity).
    all: intros H; apply full_matchb_spec in H; vm_compute in H; discriminate H.
  - apply full_matchb_spec. vm_compute. reflexivity.
Qed.

(* dropping the group: "^a|b$" is found in "ab" (and in "ax", "xb"), which a|b does not
   match entirely *)
Lemma no_group_differs :
  let a := Chr 97 in let b := Chr 98 in
  Forall (fun s => search (Alt (Seq Bol a) (Seq b Eol)) s /\ ~ search (wrap (Alt a b)) s)
         [[97;98]; [97;120]; [120;98]]%N.
Proof.
  cbv zeta. repeat constructor.
  all: try (apply searchb_spec; vm_compute; reflexivity).
  all: intros H; apply searchb_spec in H; vm_compute in H; discriminate H.
Qed.

(* own anchors, alternations and groups inside the pattern keep their meaning *)
Lemma wrapped_examples :
  (* ^a.*   : a:b yes, xa no *)
  full_haystack_is_match (Seq Bol (Seq (Chr 97) (Star Any))) [97;58;98]%N = true
  /\ full_haystack_is_match (Seq Bol (Seq (Chr 97) (Star Any))) [120;97]%N = false
  (* a$|^b  : a yes, b yes, ab no *)
  /\ full_haystack_is_match (Alt (Seq (Chr 97) Eol) (Seq Bol (Chr 98))) [97]%N = true
  /\ full_haystack_is_match (Alt (Seq (Chr 97) Eol) (Seq Bol (Chr 98))) [98]%N = true
  /\ full_haystack_is_match (Alt (Seq (Chr 97) Eol) (Seq Bol (Chr 98))) [97;98]%N = false
  (* a|b:c  : a yes, b:c yes, a:c no;  (a|b):c : a:c yes, a no *)
  /\ map (full_haystack_is_match (Alt (Chr 97) (Seq (Chr 98) (Seq (Chr 58) (Chr 99)))))
         [[97]; [98;58;99]; [97;58;99]]%N = [true; true; false]
  /\ map (full_haystack_is_match (Seq (Group true (Alt (Chr 97) (Chr 98))) (Seq (Chr 58) (Chr 99))))
         [[97]; [98;58;99]; [97;58;99]]%N = [false; true; true]
  (* nested star and a plus over an alternative with an empty branch terminate: aaa yes, aab no *)
  /\ map (full_haystack_is_match (Star (Group false (Star (Chr 97))))) [[97;97;97]; [97;97;98]; []]%N
     = [true; false; true]
  /\ map (full_haystack_is_match (Plus (Group false (Alt (Chr 97) Empty)))) [[97;97;97]; [97;97;98]; []]%N
     = [true; false; true].
Proof. vm_compute. repeat split; reflexivity. Qed.

Lemma pp_examples :
  pp (Alt (Seq (Chr 97) Eol) (Seq Bol (Chr 98))) = [97;36;124;94;98]%N                (* a$|^b *)
  /\ pp (wrap (Alt (Chr 97) (Chr 98))) = [94;40;63;58;97;124;98;41;36]%N                (* ^(?:a|b)$ *)
  /\ pp (Seq (Star (Alt (Chr 97) (Chr 46))) (Class true [(97,99);(45,45)]%N))
     = [40;63;58;97;124;92;46;41;42;91;94;97;45;99;92;45;93]%N.                         (* (?:a|\.)*[^a-c\-] *)
Proof. vm_compute. repeat split; reflexivity. Qed.

(* non-vacuity of the selection theorems: tree a, a:b, a:b:c, ab with pattern a:b|a.
   a:b:c is not listed although a:b is found inside it; the tree sum of `a` still contains
   a:b:c's postings; the delta is recomputed over the two listed rows. *)
Lemma selection_example :
  let ps := [ mkBpost [[97];[98];[99]]%N [] (mkDec 150 2);
              mkBpost [[97];[98]]%N [] (mkDec (-15) 1);
              mkBpost [[97;98]]%N [] (mkDec 7 0);
              mkBpost [[97]]%N [] (mkDec (-7) 0) ] in
  let pats := [Alt pat_ab (Chr 97)] in
  Forall bpost_wf ps /\
  option_map (fun rep => (map (fun r => (acct_str (r_acc r), d28 (r_own r), d28 (r_tree r))) (b_rows rep),
                          map (fun cd => d28 (snd cd)) (b_deltas rep)))
             (selected_balance (fun _ => true) (fun l => l) false pats ps)
  = Some ([([97]%N, (-7 * 10 ^ 28)%Z, (-7 * 10 ^ 28)%Z);
           ([97;58;98]%N, (-15 * 10 ^ 27)%Z, 0%Z)], [(-85 * 10 ^ 27)%Z]).
Proof.
  intros ps pats. split.
  - unfold ps, bpost_wf, acct_wf, comp_ok, dwf, colon.
    repeat (first [ apply Forall_cons | apply Forall_nil | split ]);
      cbn [bp_amt bp_acc ds In]; try lia; try discriminate;
      intros H; repeat (destruct H as [H|H]; [discriminate H|]); exact H.
  - vm_compute. reflexivity.
Qed.
