(* Equity_proofs.v — proofs for C10: the equity export carries every selected balance forward. *)
From Coq Require Import Permutation Sorted.
From TkModel Require Import Base Dec Acct Txn Balance Accept Equity.
From TkSpec Require Import Balance_spec Equity_spec.
From TkProofs Require Import Base_proofs Dec_proofs Acct_proofs Order_proofs Balance_proofs.
Local Open Scope Z_scope.

(* ------------------------------------------------------------------ *)
(* chunk_by_comm: the runs of a list sorted by commodity *)

Definition chunk_wf (ch : list N * list brow) : Prop :=
  snd ch <> [] /\ Forall (fun r => r_comm r = fst ch) (snd ch).

Lemma c10_chunk_concat l : concat (map snd (chunk_by_comm l)) = l.
Proof.
  induction l as [|r l IH]; [reflexivity|]. cbn [chunk_by_comm].
  destruct (chunk_by_comm l) as [|[c rs] rest].
  - cbn in IH. subst l. reflexivity.
  - destruct (str_eqb (r_comm r) c); cbn [map snd concat app] in *; rewrite IH; reflexivity.
Qed.

Lemma c10_chunk_wf l : Forall chunk_wf (chunk_by_comm l).
Proof.
  induction l as [|r l IH]; [constructor|]. cbn [chunk_by_comm].
  destruct (chunk_by_comm l) as [|[c rs] rest].
  - constructor; [|constructor]. split; cbn [fst snd]; [discriminate|]. constructor; [reflexivity|constructor].
  - inversion IH as [|? ? [Hne Hall] Hrest]; subst. cbn [fst snd] in *.
    destruct (str_eqb (r_comm r) c) eqn:E.
    + apply str_eqb_eq in E. constructor; [|exact Hrest]. split; cbn [fst snd]; [discriminate|].
      constructor; [exact E|exact Hall].
    + constructor; [|exact IH]. split; cbn [fst snd]; [discriminate|].
      constructor; [reflexivity|constructor].
Qed.

(* every chunk commodity is the commodity of a row *)
Lemma c10_chunk_comm_in l c : In c (map fst (chunk_by_comm l)) -> In c (map r_comm l).
Proof.
  intros H. apply in_map_iff in H. destruct H as ([c' rs] & E & Hin). cbn [fst] in E. subst c'.
  pose proof (c10_chunk_wf l) as W. rewrite Forall_forall in W. destruct (W _ Hin) as [Hne Hall].
  cbn [fst snd] in *. destruct rs as [|r rs]; [congruence|].
  inversion Hall as [|? ? Er _]; subst.
  apply in_map. rewrite <- (c10_chunk_concat l). apply in_concat. exists (r :: rs). split.
  - apply in_map_iff. exists (r_comm r, r :: rs). split; [reflexivity|exact Hin].
  - left. reflexivity.
Qed.

Lemma c10_chunk_comm_of_row l r : In r l -> In (r_comm r) (map fst (chunk_by_comm l)).
Proof.
  intros H. rewrite <- (c10_chunk_concat l) in H. apply in_concat in H.
  destruct H as (rs & Hrs & Hr). apply in_map_iff in Hrs. destruct Hrs as ([c rs'] & E & Hin).
  cbn [snd] in E. subst rs'.
  pose proof (c10_chunk_wf l) as W. rewrite Forall_forall in W. destruct (W _ Hin) as [_ Hall].
  cbn [fst snd] in Hall. rewrite Forall_forall in Hall. rewrite (Hall r Hr).
  apply in_map_iff. exists (c, rs). split; [reflexivity|exact Hin].
Qed.

Definition comm_le (a b : brow) : Prop := str_cmp (r_comm a) (r_comm b) <> Gt.

Lemma c10_chunk_sorted l : StronglySorted comm_le l ->
  StronglySorted (fun a b => str_cmp a b = Lt) (map fst (chunk_by_comm l)).
Proof.
  induction 1 as [|r l Hs IH Hf]; [constructor|].
  pose proof (c10_chunk_comm_in l) as Hin.
  cbn [chunk_by_comm]. destruct (chunk_by_comm l) as [|[c rs] rest].
  - cbn [map fst]. constructor; constructor.
  - destruct (str_eqb (r_comm r) c) eqn:E; [exact IH|].
    cbn [map fst] in *. constructor; [exact IH|].
    inversion IH as [|? ? _ Hlt]; subst.
    assert (str_cmp (r_comm r) c = Lt) as Hc.
    { assert (In c (map r_comm l)) as Hx by (apply Hin; left; reflexivity).
      apply in_map_iff in Hx. destruct Hx as (r' & Er' & Hr').
      rewrite Forall_forall in Hf. specialize (Hf r' Hr'). unfold comm_le in Hf. rewrite Er' in Hf.
      destruct (str_cmp (r_comm r) c) eqn:X; [|reflexivity|congruence].
      apply str_cmp_eq in X. apply str_eqb_neq in E. contradiction. }
    constructor; [exact Hc|].
    rewrite Forall_forall in *. intros z Hz.
    apply (co_lt_trans _ str_cmp_ord _ c _ Hc). apply Hlt. exact Hz.
Qed.

(* chunks with pairwise different commodities are the filters of the whole list *)
Lemma c10_chunks_filter (chs : list (list N * list brow)) :
  NoDup (map fst chs) -> Forall chunk_wf chs ->
  forall c rs, In (c, rs) chs ->
  filter (fun r => str_eqb (r_comm r) c) (concat (map snd chs)) = rs.
Proof.
  induction chs as [|[c0 rs0] chs IH]; intros Hnd Hwf c rs Hin; [destruct Hin|].
  cbn [map fst snd concat] in *. inversion Hnd as [|? ? Hni Hnd']; subst.
  inversion Hwf as [|? ? [_ Hall0] Hwf']; subst. cbn [fst snd] in Hall0.
  rewrite filter_app. destruct Hin as [Hin|Hin].
  - inversion Hin; subst c0 rs0. clear Hin.
    assert (filter (fun r => str_eqb (r_comm r) c) rs = rs) as E1.
    { clear - Hall0. induction Hall0 as [|r rs Hr _ IH]; [reflexivity|]. cbn [filter].
      rewrite Hr, str_eqb_refl, IH. reflexivity. }
    assert (filter (fun r => str_eqb (r_comm r) c) (concat (map snd chs)) = []) as E2.
    { clear - Hni Hwf'. induction chs as [|[c1 rs1] chs IH]; [reflexivity|].
      cbn [map fst snd concat In] in *. inversion Hwf' as [|? ? [_ Hall1] Hwf'']; subst.
      cbn [fst snd] in Hall1. rewrite filter_app, IH by tauto. rewrite app_nil_r.
      assert (c1 <> c) as Hne by tauto. clear - Hall1 Hne.
      induction Hall1 as [|r rs Hr _ IH]; [reflexivity|]. cbn [filter]. rewrite Hr.
      replace (str_eqb c1 c) with false by (symmetry; apply str_eqb_neq; exact Hne). exact IH. }
    rewrite E1, E2, app_nil_r. reflexivity.
  - assert (c0 <> c) as Hne.
    { intros X. subst c0. apply Hni. apply in_map_iff. exists (c, rs). split; [reflexivity|exact Hin]. }
    assert (filter (fun r => str_eqb (r_comm r) c) rs0 = []) as E1.
    { clear - Hall0 Hne. induction Hall0 as [|r rs Hr _ IH]; [reflexivity|]. cbn [filter]. rewrite Hr.
      replace (str_eqb c0 c) with false by (symmetry; apply str_eqb_neq; exact Hne). exact IH. }
    rewrite E1. cbn [app]. apply IH; assumption.
Qed.

Lemma c10_lt_nodup (l : list (list N)) :
  StronglySorted (fun a b => str_cmp a b = Lt) l -> NoDup l.
Proof.
  apply StronglySorted_NoDup. intros a H. rewrite str_cmp_refl in H. discriminate.
Qed.

Lemma c10_chunk_is_filter l : StronglySorted comm_le l ->
  forall c rs, In (c, rs) (chunk_by_comm l) -> rs = filter (fun r => str_eqb (r_comm r) c) l.
Proof.
  intros Hs c rs Hin. symmetry. rewrite <- (c10_chunk_concat l) at 1.
  apply c10_chunks_filter; [|apply c10_chunk_wf|exact Hin].
  apply c10_lt_nodup. apply c10_chunk_sorted. exact Hs.
Qed.

(* ------------------------------------------------------------------ *)
(* sums over balance rows = sums over postings (from the C02 facts) *)

Lemma c10_ind_mul a b : ind (a && b) = ind a * ind b.
Proof. destruct a, b; reflexivity. Qed.

Section Rows.
  Variables (ps : list bpost) (rows0 : list brow).
  Hypothesis Hwf : Forall bpost_wf ps.
  Hypothesis Hown : forall r, In r rows0 -> d28 (r_own r) = spec_own ps (r_key r).
  Hypothesis Hdwf : forall r, In r rows0 -> dwf (r_own r).
  Hypothesis Hsorted : StronglySorted (fun a b => key_cmp a b = Lt) (map r_key rows0).
  Hypothesis Hnodup : NoDup (map r_key rows0).
  Hypothesis Hkeys : forall k, In k (map r_key rows0) <-> In k (spec_keys ps).

  Lemma c10_rows_sum_pred (P : key -> bool) :
    zsum (map (fun r => d28 (r_own r)) (filter (fun r => P (r_key r)) rows0))
    = zsum (map amt28 (filter (fun p => P (bp_key p)) ps)).
  Proof.
    rewrite !zsum_map_filter.
    transitivity (zsum (map (fun r => zsum (map (fun p =>
        ind (P (r_key r)) * (ind (key_eqb (bp_key p) (r_key r)) * amt28 p)) ps)) rows0)).
    { apply zsum_map_ext. intros r Hr. rewrite (Hown r Hr). unfold spec_own.
      rewrite zsum_map_filter. rewrite zsum_map_mul_l. reflexivity. }
    rewrite (zsum_exchange (fun p r => ind (P (r_key r)) * (ind (key_eqb (bp_key p) (r_key r)) * amt28 p))).
    apply zsum_map_ext. intros p Hp.
    transitivity (zsum (map (fun r => ind (key_eqb (r_key r) (bp_key p)) * (ind (P (bp_key p)) * amt28 p)) rows0)).
    { apply zsum_map_ext. intros r _. rewrite (key_eqb_sym (bp_key p) (r_key r)).
      destruct (key_eqb (r_key r) (bp_key p)) eqn:E; cbn [ind]; [|lia].
      apply key_eqb_eq in E. rewrite E. lia. }
    rewrite zsum_map_mul_r.
    rewrite (count_in r_key key_eqb key_eqb_eq rows0 (bp_key p) Hnodup); [lia|].
    apply Hkeys. apply (spec_keys_self ps p Hwf Hp).
  Qed.

  Variable ras : option (acct -> bool).
  Let sel := get_acc_selector ras.

  Lemma c10_sel_spec r : sel r = negb (is_zero (r_own r)) && selected ras (r_acc r).
  Proof.
    unfold sel, get_acc_selector, selected, nonzero_sel, nonzero_by_acc_sel.
    destruct ras; [reflexivity|]. rewrite andb_true_r. reflexivity.
  Qed.

  (* sums over the selected non-zero rows *)
  Lemma c10_sel_sum_pred (Q : key -> bool) :
    zsum (map (fun r => d28 (r_own r)) (filter (fun r => Q (r_key r)) (filter sel rows0)))
    = zsum (map amt28 (filter (fun p => Q (bp_key p) && selected ras (bp_acc p)) ps)).
  Proof.
    transitivity (zsum (map (fun r => d28 (r_own r))
                    (filter (fun r => (fun k => Q k && selected ras (fst k)) (r_key r)) rows0))).
    2:{ rewrite (c10_rows_sum_pred (fun k => Q k && selected ras (fst k))). reflexivity. }
    rewrite !zsum_map_filter.
    apply zsum_map_ext. intros r _. rewrite c10_sel_spec. cbn [r_key fst].
    destruct (is_zero (r_own r)) eqn:Z.
    - apply is_zero_d28 in Z. rewrite Z. lia.
    - cbn [negb andb]. destruct (selected ras (r_acc r)); cbn [ind].
      + rewrite andb_true_r. lia.
      + rewrite andb_false_r. cbn [ind]. lia.
  Qed.

  Lemma c10_sel_own k :
    zsum (map (fun r => d28 (r_own r)) (filter (fun r => key_eqb (r_key r) k) (filter sel rows0)))
    = carry_own ras ps k.
  Proof.
    rewrite (c10_sel_sum_pred (fun k' => key_eqb k' k)). unfold carry_own, spec_own.
    destruct (selected ras (fst k)) eqn:S.
    - f_equal. f_equal. apply filter_ext. intros p.
      destruct (key_eqb (bp_key p) k) eqn:E; [|reflexivity].
      apply key_eqb_eq in E. subst k. cbn [bp_key fst] in S. rewrite S. reflexivity.
    - apply zsum_map_zero_ext. intros p Hp. apply filter_In in Hp. destruct Hp as [_ Hp].
      apply andb_true_iff in Hp. destruct Hp as [E S']. apply key_eqb_eq in E. subst k.
      cbn [bp_key fst] in S. congruence.
  Qed.

  Lemma c10_sel_total c :
    zsum (map (fun r => d28 (r_own r)) (filter (fun r => str_eqb (r_comm r) c) (filter sel rows0)))
    = carry_total ras ps c.
  Proof. exact (c10_sel_sum_pred (fun k => str_eqb (snd k) c)). Qed.

  (* the selected non-zero rows *)
  Lemma c10_sel_rows_sorted :
    StronglySorted (fun a b => key_cmp (r_key a) (r_key b) = Lt) (filter sel rows0).
  Proof.
    apply StronglySorted_filter. apply (StronglySorted_map (fun a b => key_cmp a b = Lt) r_key). exact Hsorted.
  Qed.

  Lemma c10_sel_rows_comm_sorted : StronglySorted comm_le (filter sel rows0).
  Proof.
    eapply StronglySorted_impl; [|exact c10_sel_rows_sorted].
    intros a b _ _ H. unfold comm_le. apply (key_cmp_snd (r_key a) (r_key b)). congruence.
  Qed.

  Lemma c10_sel_row_iff k :
    In k (map r_key (filter sel rows0)) <-> carried_key ras ps k.
  Proof.
    unfold carried_key. split.
    - intros H. apply in_map_iff in H. destruct H as (r & E & Hr). subst k.
      apply filter_In in Hr. destruct Hr as [Hr S]. rewrite c10_sel_spec in S.
      apply andb_true_iff in S. destruct S as [Z S]. cbn [r_key fst]. split; [exact S|].
      rewrite <- (Hown r Hr). intros X. apply is_zero_d28_iff in X. rewrite X in Z. discriminate.
    - intros [S NZ].
      assert (In k (map bp_key ps)) as Hk.
      { destruct (in_dec key_eq_dec k (map bp_key ps)) as [H|H]; [exact H|].
        exfalso. apply NZ. apply spec_own_notin. exact H. }
      apply in_map_iff in Hk. destruct Hk as (p & E & Hp).
      assert (In k (map r_key rows0)) as Hr.
      { apply Hkeys. rewrite <- E. apply (spec_keys_self ps p Hwf Hp). }
      apply in_map_iff in Hr. destruct Hr as (r & Er & Hr).
      apply in_map_iff. exists r. split; [exact Er|]. apply filter_In. split; [exact Hr|].
      rewrite c10_sel_spec. rewrite <- Er in S, NZ. cbn [r_key fst] in S. rewrite S, andb_true_r.
      destruct (is_zero (r_own r)) eqn:Z; [|reflexivity].
      exfalso. apply NZ. rewrite <- (Hown r Hr). apply is_zero_d28. exact Z.
  Qed.
End Rows.

(* ------------------------------------------------------------------ *)
(* the transaction set: order does not matter for the sums *)

Lemma c10_txn_bposts_perm ts ts' : Permutation ts' ts -> Permutation (txn_bposts ts') (txn_bposts ts).
Proof. intros H. unfold txn_bposts. apply Permutation_flat_map. exact H. Qed.

Lemma c10_spec_own_perm ps ps' k : Permutation ps' ps -> spec_own ps' k = spec_own ps k.
Proof. intros H. unfold spec_own. apply zsum_map_perm. apply filter_perm. exact H. Qed.

Lemma c10_spec_keys_perm ps ps' k : Permutation ps' ps -> (In k (spec_keys ps') <-> In k (spec_keys ps)).
Proof.
  intros H. unfold spec_keys. rewrite !in_flat_map.
  split; intros (p & Hp & Hk); exists p; (split; [|exact Hk]).
  - apply (Permutation_in _ H). exact Hp.
  - apply (Permutation_in _ (Permutation_sym H)). exact Hp.
Qed.

Lemma c10_ord_sorted_perm : forall l : list ksum, Permutation (ord_sorted l) l.
Proof. intros l. apply sort_by_perm. Qed.

(* the C02 facts about the rows, relative to the postings in journal order *)
Lemma c10_rows_facts known ts rows0 :
  txns_wf ts ->
  balance known ord_sorted (txn_bposts (sort_txns ts)) = Some rows0 ->
  let ps := txn_bposts ts in
  (forall r, In r rows0 -> d28 (r_own r) = spec_own ps (r_key r))
  /\ (forall r, In r rows0 -> dwf (r_own r))
  /\ StronglySorted (fun a b => key_cmp a b = Lt) (map r_key rows0)
  /\ NoDup (map r_key rows0)
  /\ (forall k, In k (map r_key rows0) <-> In k (spec_keys ps)).
Proof.
  intros Hwf Hb ps.
  assert (Permutation (txn_bposts (sort_txns ts)) ps) as Hp.
  { apply c10_txn_bposts_perm. apply sort_txns_perm. }
  assert (Forall bpost_wf (txn_bposts (sort_txns ts))) as Hwf'.
  { apply (Permutation_Forall (Permutation_sym Hp)). exact Hwf. }
  destruct (balance_rows known ord_sorted _ rows0 c10_ord_sorted_perm Hwf' Hb) as (S & N & K).
  split; [|split; [|split; [exact S|split; [exact N|]]]].
  - intros r Hr. rewrite (balance_own known ord_sorted _ rows0 c10_ord_sorted_perm Hwf' Hb r Hr).
    apply c10_spec_own_perm. exact Hp.
  - intros r Hr.
    destruct (balance_all known ord_sorted _ rows0 c10_ord_sorted_perm Hwf' Hb) as (all & Hok & E).
    subst rows0. apply sort_by_in in Hr. apply (ao_forest_row _ all Hwf' Hok r Hr).
  - intros k. rewrite K. apply c10_spec_keys_perm. exact Hp.
Qed.

(* ------------------------------------------------------------------ *)
(* the last transaction *)

Lemma c10_last_opt_sorted {A} (R : A -> A -> Prop) l x :
  StronglySorted R l -> last_opt l = Some x -> In x l /\ forall y, In y l -> y = x \/ R y x.
Proof.
  induction 1 as [|a l Hs IH Hf]; intros H; [discriminate|]. cbn [last_opt] in H.
  destruct l as [|b l'].
  - inversion H; subst. split; [left; reflexivity|]. intros y [E|[]]. left. congruence.
  - destruct (IH H) as [Hin Hall]. split; [right; exact Hin|].
    intros y [E|Hy]; [|apply Hall; exact Hy]. subst y. right.
    rewrite Forall_forall in Hf. apply Hf. exact Hin.
Qed.

Lemma c10_last_opt_some {A} (l : list A) : l <> [] -> exists x, last_opt l = Some x.
Proof.
  induction l as [|a l IH]; intros H; [congruence|]. cbn [last_opt].
  destruct l as [|b l']; [eexists; reflexivity|]. apply IH. discriminate.
Qed.

Lemma c10_txn_leb_refl t : txn_leb t t = true.
Proof. destruct (txn_leb t t) eqn:E; [reflexivity|]. pose proof (txn_leb_total t t E) as X. congruence. Qed.

Lemma c10_is_last ts lt : last_opt (sort_txns ts) = Some lt -> is_last ts (t_hdr lt).
Proof.
  intros H. destruct (c10_last_opt_sorted txn_le _ lt (sort_txns_sorted ts) H) as [Hin Hall].
  exists lt. split; [apply (Permutation_in _ (sort_txns_perm ts)); exact Hin|]. split; [reflexivity|].
  intros t' Ht'. apply cmp_leb_true.
  assert (In t' (sort_txns ts)) as Hs by (apply (Permutation_in _ (Permutation_sym (sort_txns_perm ts))); exact Ht').
  destruct (Hall t' Hs) as [E|L]; [subst t'; apply c10_txn_leb_refl|exact L].
Qed.

(* a greatest header carries a greatest instant *)
Lemma c10_header_le_inst a b : header_cmp a b <> Gt -> h_inst a <= h_inst b.
Proof.
  unfold header_cmp. intros H. destruct (Z.compare (h_inst a) (h_inst b)) eqn:E.
  - apply Z.compare_eq in E. lia.
  - rewrite Z.compare_lt_iff in E. lia.
  - exfalso. apply H. reflexivity.
Qed.

(* ------------------------------------------------------------------ *)
(* opening the definition of the export *)

Lemma c10_equity_open known eqa ras ts es :
  equity known eqa ras ts = Some es ->
  exists rows0, balance known ord_sorted (txn_bposts (sort_txns ts)) = Some rows0 /\
    ((filter (get_acc_selector ras) rows0 = [] /\ es = []) \/
     (exists lt, last_opt (sort_txns ts) = Some lt /\
        es = map (equity_txn eqa (t_hdr lt)) (chunk_by_comm (filter (get_acc_selector ras) rows0)))).
Proof.
  unfold equity, balance_report_det, balance_report. intros H.
  destruct (balance known ord_sorted (txn_bposts (sort_txns ts))) as [rows0|] eqn:Eb; [|discriminate].
  exists rows0. split; [reflexivity|]. cbn [b_rows] in H.
  destruct (filter (get_acc_selector ras) rows0) as [|r rows] eqn:Ef.
  - left. inversion H. split; reflexivity.
  - right. destruct (last_opt (sort_txns ts)) as [lt|]; [|discriminate].
    exists lt. inversion H. split; reflexivity.
Qed.

(* spec_own is additive *)
Lemma c10_spec_own_app a b k : spec_own (a ++ b) k = spec_own a k + spec_own b k.
Proof. unfold spec_own. rewrite filter_app, map_app, zsum_app. reflexivity. Qed.

Lemma c10_spec_own_flat_map {A} (f : A -> list bpost) l k :
  spec_own (flat_map f l) k = zsum (map (fun x => spec_own (f x) k) l).
Proof.
  induction l as [|x l IH]; [reflexivity|]. cbn [flat_map map].
  rewrite c10_spec_own_app, zsum_cons, IH. reflexivity.
Qed.

Definition row_bpost (r : brow) : bpost := mkBpost (r_acc r) (r_comm r) (r_own r).

Lemma c10_spec_own_rows rs k :
  spec_own (map row_bpost rs) k
  = zsum (map (fun r => d28 (r_own r)) (filter (fun r => key_eqb (r_key r) k) rs)).
Proof.
  unfold spec_own. induction rs as [|r rs IH]; [reflexivity|]. cbn [map filter].
  change (bp_key (row_bpost r)) with (r_key r).
  destruct (key_eqb (r_key r) k); cbn [map]; rewrite ?zsum_cons, IH; reflexivity.
Qed.

Lemma c10_sum_at (g : list N -> Z) (chs : list (list N * list brow)) c :
  NoDup (map fst chs) ->
  zsum (map (fun ch => ind (str_eqb (fst ch) c) * g (fst ch)) chs)
  = if in_dec (list_eq_dec N.eq_dec) c (map fst chs) then g c else 0.
Proof.
  induction chs as [|[c0 rs0] chs IH]; intros Hnd; [reflexivity|].
  cbn [map fst] in *. inversion Hnd as [|? ? Hni Hnd']; subst. rewrite zsum_cons, (IH Hnd').
  destruct (str_eqb c0 c) eqn:E.
  - apply str_eqb_eq in E. subst c0.
    destruct (in_dec (list_eq_dec N.eq_dec) c (map fst chs)) as [X|X]; [contradiction|].
    destruct (in_dec (list_eq_dec N.eq_dec) c (c :: map fst chs)) as [Y|Y]; [cbn [ind]; lia|].
    exfalso. apply Y. left. reflexivity.
  - apply str_eqb_neq in E. cbn [ind].
    destruct (in_dec (list_eq_dec N.eq_dec) c (map fst chs)) as [X|X];
      destruct (in_dec (list_eq_dec N.eq_dec) c (c0 :: map fst chs)) as [Y|Y]; try lia.
    + exfalso. apply Y. right. exact X.
    + exfalso. destruct Y as [Y|Y]; [congruence|contradiction].
Qed.

Lemma c10_acct_eqb_sym (a b : acct) : acct_eqb a b = acct_eqb b a.
Proof.
  destruct (acct_eqb a b) eqn:E1; destruct (acct_eqb b a) eqn:E2; try reflexivity.
  - apply acct_eqb_eq in E1. subst. rewrite acct_eqb_refl in E2. discriminate.
  - apply acct_eqb_eq in E2. subst. rewrite acct_eqb_refl in E1. discriminate.
Qed.

(* ------------------------------------------------------------------ *)
(* one chunk of the selected rows *)

Section Export.
  Variables (ps : list bpost) (rows0 : list brow) (ras : option (acct -> bool)) (eqa : acct) (h : header).
  Hypothesis Hwf : Forall bpost_wf ps.
  Hypothesis Hown : forall r, In r rows0 -> d28 (r_own r) = spec_own ps (r_key r).
  Hypothesis Hdwf : forall r, In r rows0 -> dwf (r_own r).
  Hypothesis Hsorted : StronglySorted (fun a b => key_cmp a b = Lt) (map r_key rows0).
  Hypothesis Hnodup : NoDup (map r_key rows0).
  Hypothesis Hkeys : forall k, In k (map r_key rows0) <-> In k (spec_keys ps).

  Let rows := filter (get_acc_selector ras) rows0.
  Let chs := chunk_by_comm rows.

  Lemma c10_rows_comm_sorted : StronglySorted comm_le rows.
  Proof. apply (c10_sel_rows_comm_sorted rows0 Hsorted). Qed.

  Lemma c10_chs_nodup : NoDup (map fst chs).
  Proof. apply c10_lt_nodup. apply c10_chunk_sorted. exact c10_rows_comm_sorted. Qed.

  Lemma c10_chunk_rows c rs : In (c, rs) chs -> rs = filter (fun r => str_eqb (r_comm r) c) rows.
  Proof. apply c10_chunk_is_filter. exact c10_rows_comm_sorted. Qed.

  Lemma c10_in_rows r : In r rows -> In r rows0 /\ is_zero (r_own r) = false.
  Proof.
    intros H. apply filter_In in H. destruct H as [H S]. split; [exact H|].
    rewrite (c10_sel_spec ras) in S. apply andb_true_iff in S. destruct S as [S _].
    destruct (is_zero (r_own r)); [discriminate|reflexivity].
  Qed.

  Lemma c10_chunk_in_rows c rs r : In (c, rs) chs -> In r rs -> In r rows /\ r_comm r = c.
  Proof.
    intros Hc Hr. rewrite (c10_chunk_rows c rs Hc) in Hr. apply filter_In in Hr.
    destruct Hr as [Hr E]. apply str_eqb_eq in E. split; assumption.
  Qed.

  Lemma c10_chunk_dwf c rs : In (c, rs) chs -> Forall dwf (map r_own rs).
  Proof.
    intros Hc. rewrite Forall_map. apply Forall_forall. intros r Hr.
    apply Hdwf. apply c10_in_rows. apply (c10_chunk_in_rows c rs r Hc Hr).
  Qed.

  Lemma c10_chunk_total c rs : In (c, rs) chs ->
    d28 (dsum (map r_own rs)) = carry_total ras ps c.
  Proof.
    intros Hc. rewrite (d28_dsum _ (c10_chunk_dwf c rs Hc)), map_map.
    rewrite (c10_chunk_rows c rs Hc).
    apply (c10_sel_total ps rows0 Hwf Hown Hnodup Hkeys ras c).
  Qed.

  (* a commodity without a chunk has nothing to carry *)
  Lemma c10_no_chunk_total c : ~ In c (map fst chs) -> carry_total ras ps c = 0.
  Proof.
    intros H. rewrite <- (c10_sel_total ps rows0 Hwf Hown Hnodup Hkeys ras c). fold rows.
    replace (filter (fun r => str_eqb (r_comm r) c) rows) with (@nil brow); [reflexivity|].
    symmetry. destruct (filter (fun r => str_eqb (r_comm r) c) rows) as [|r l] eqn:E; [reflexivity|].
    exfalso. apply H. assert (In r (r :: l)) as Hr by (left; reflexivity). rewrite <- E in Hr.
    apply filter_In in Hr. destruct Hr as [Hr Ec]. apply str_eqb_eq in Ec. subst c.
    apply c10_chunk_comm_of_row. exact Hr.
  Qed.

  (* ---- shape ---- *)
  Lemma c10_chunk_shape_posts c rs : In (c, rs) chs ->
    let e := equity_txn eqa h (c, rs) in
    StronglySorted (fun a b => key_cmp a b = Lt) (map ep_key (e_posts e))
    /\ (forall k, In k (map ep_key (e_posts e)) <-> (snd k = e_comm e /\ carried_key ras ps k))
    /\ (forall p, In p (e_posts e) -> d28 (ep_amt p) = spec_own ps (ep_key p)).
  Proof.
    intros Hc e. unfold e, equity_txn. cbn [e_posts e_comm fst snd].
    assert (map ep_key (map (fun b => mkEqPost (r_acc b) (r_comm b) (r_own b)) rs) = map r_key rs) as Ek.
    { rewrite map_map. reflexivity. }
    rewrite Ek. split; [|split].
    - rewrite (c10_chunk_rows c rs Hc).
      apply (StronglySorted_map (fun a b => key_cmp a b = Lt) r_key).
      apply StronglySorted_filter. apply (c10_sel_rows_sorted rows0 Hsorted).
    - intros k. rewrite <- (c10_sel_row_iff ps rows0 Hwf Hown Hkeys ras k). fold rows.
      rewrite (c10_chunk_rows c rs Hc). rewrite !in_map_iff. split.
      + intros (r & E & Hr). apply filter_In in Hr. destruct Hr as [Hr Ec]. apply str_eqb_eq in Ec.
        subst k. split; [exact Ec|]. exists r. split; [reflexivity|exact Hr].
      + intros (Ec & r & E & Hr). exists r. split; [exact E|]. apply filter_In. split; [exact Hr|].
        subst k. cbn [r_key snd] in Ec. rewrite Ec. apply str_eqb_refl.
    - intros p Hp. apply in_map_iff in Hp. destruct Hp as (r & E & Hr). subst p.
      cbn [ep_amt ep_key ep_acc ep_comm]. apply Hown. apply c10_in_rows.
      apply (c10_chunk_in_rows c rs r Hc Hr).
  Qed.

  Lemma c10_chunk_shape_bal c rs : In (c, rs) chs ->
    let e := equity_txn eqa h (c, rs) in
    match e_bal e with
    | None => carry_total ras ps (e_comm e) = 0 /\ e_warn e = true
    | Some b => ep_acc b = eqa /\ ep_comm b = e_comm e
                /\ d28 (ep_amt b) = - carry_total ras ps (e_comm e)
                /\ carry_total ras ps (e_comm e) <> 0 /\ e_warn e = false
    end.
  Proof.
    intros Hc e. unfold e, equity_txn. cbn [e_bal e_comm e_warn fst snd].
    pose proof (c10_chunk_total c rs Hc) as T.
    destruct (is_zero (dsum (map r_own rs))) eqn:Z.
    - split; [|reflexivity]. rewrite <- T. apply is_zero_d28. exact Z.
    - cbn [ep_acc ep_comm ep_amt]. rewrite d28_dneg, T.
      split; [reflexivity|]. split; [reflexivity|]. split; [reflexivity|]. split; [|reflexivity].
      rewrite <- T. intros X. apply is_zero_d28_iff in X. congruence.
  Qed.

  (* ---- carry ---- *)
  Definition bal_bposts (ch : list N * list brow) : list bpost :=
    map eq_bpost (match e_bal (equity_txn eqa h ch) with Some b => [b] | None => [] end).

  Lemma c10_eq_bposts_split :
    forall l : list (list N * list brow),
    forall k, spec_own (eq_bposts (map (equity_txn eqa h) l)) k
    = spec_own (map row_bpost (concat (map snd l))) k
      + zsum (map (fun ch => spec_own (bal_bposts ch) k) l).
  Proof.
    induction l as [|ch l IH]; intros k; [reflexivity|].
    cbn [map eq_bposts flat_map concat]. fold (eq_bposts (map (equity_txn eqa h) l)).
    rewrite c10_spec_own_app, IH, map_app, c10_spec_own_app, zsum_cons.
    unfold eq_all_posts. rewrite map_app, c10_spec_own_app.
    assert (map eq_bpost (e_posts (equity_txn eqa h ch)) = map row_bpost (snd ch)) as E.
    { unfold equity_txn. cbn [e_posts]. rewrite map_map. reflexivity. }
    rewrite E. unfold bal_bposts. lia.
  Qed.

  Lemma c10_bal_own c rs k : In (c, rs) chs ->
    spec_own (bal_bposts (c, rs)) k
    = ind (acct_eqb (fst k) eqa) * (ind (str_eqb c (snd k)) * - carry_total ras ps c).
  Proof.
    intros Hc. pose proof (c10_chunk_total c rs Hc) as T.
    unfold bal_bposts, equity_txn. cbn [e_bal fst snd].
    destruct (is_zero (dsum (map r_own rs))) eqn:Z.
    - cbn [map]. unfold spec_own. cbn [filter map]. rewrite zsum_nil.
      apply is_zero_d28 in Z. rewrite <- T, Z. lia.
    - cbn [map]. unfold spec_own. cbn [filter]. unfold eq_bpost at 1. cbn [ep_acc ep_comm ep_amt bp_key bp_acc bp_comm].
      unfold key_eqb, bp_key. cbn [bp_acc bp_comm fst snd]. rewrite (c10_acct_eqb_sym eqa (fst k)).
      destruct (acct_eqb (fst k) eqa); destruct (str_eqb c (snd k)); cbn [andb map ind]; rewrite ?zsum_nil; try lia.
      rewrite zsum_cons, zsum_nil. unfold amt28, eq_bpost. cbn [bp_amt ep_amt]. rewrite d28_dneg, T. lia.
  Qed.

  Lemma c10_carried_chunks : Carried eqa ras ps (eq_bposts (map (equity_txn eqa h) chs)).
  Proof.
    intros k. rewrite c10_eq_bposts_split. unfold chs at 1. rewrite c10_chunk_concat.
    rewrite c10_spec_own_rows. unfold rows.
    rewrite (c10_sel_own ps rows0 Hwf Hown Hnodup Hkeys ras k). f_equal.
    transitivity (zsum (map (fun ch : list N * list brow =>
       ind (str_eqb (fst ch) (snd k)) * (ind (acct_eqb (fst k) eqa) * - carry_total ras ps (fst ch))) chs)).
    { apply zsum_map_ext. intros [c rs] Hc. rewrite (c10_bal_own c rs k Hc). cbn [fst]. lia. }
    rewrite (c10_sum_at (fun c => ind (acct_eqb (fst k) eqa) * - carry_total ras ps c) chs (snd k) c10_chs_nodup).
    unfold absorbed.
    destruct (in_dec (list_eq_dec N.eq_dec) (snd k) (map fst chs)) as [X|X].
    - destruct (acct_eqb (fst k) eqa); cbn [ind]; lia.
    - rewrite (c10_no_chunk_total (snd k) X). destruct (acct_eqb (fst k) eqa); lia.
  Qed.

  (* ---- the commodities of the export ---- *)
  Lemma c10_chunk_comms c : In c (map fst chs) <-> exists a, carried_key ras ps (a, c).
  Proof.
    split.
    - intros H. apply c10_chunk_comm_in in H. apply in_map_iff in H. destruct H as (r & E & Hr).
      exists (r_acc r). rewrite <- E. change (r_acc r, r_comm r) with (r_key r).
      apply (c10_sel_row_iff ps rows0 Hwf Hown Hkeys ras). apply in_map. exact Hr.
    - intros (a & H). apply (c10_sel_row_iff ps rows0 Hwf Hown Hkeys ras) in H.
      apply in_map_iff in H. destruct H as (r & E & Hr).
      replace c with (r_comm r) by (inversion E; reflexivity).
      apply c10_chunk_comm_of_row. exact Hr.
  Qed.
End Export.

(* ------------------------------------------------------------------ *)
(* the exported transaction is accepted by the journal's semantic layer *)

Definition eq_posting (p : eq_post) : posting :=
  mkPosting (ep_acc p) (ep_comm p) (ep_amt p) (ep_amt p) false (ep_comm p).

Lemma c10_accept_posting p : is_zero (ep_amt p) = false ->
  accept_posting (eq_raw_post p) = Ok (eq_posting p).
Proof.
  intros H. unfold accept_posting, eq_raw_post, eq_posting. cbn [rp_amount rp_unit rp_acc].
  destruct (ep_comm p) as [|x c]; unfold value_position; cbn [u_comm u_opening u_closing res_bind];
    unfold mk_posting; rewrite H; reflexivity.
Qed.

Lemma c10_accept_postings l : Forall (fun p => is_zero (ep_amt p) = false) l ->
  mapM accept_posting (map eq_raw_post l) = Ok (map eq_posting l).
Proof.
  induction 1 as [|p l Hp _ IH]; [reflexivity|]. cbn [map mapM].
  rewrite (c10_accept_posting p Hp), IH. reflexivity.
Qed.

Lemma c10_distinct_incl l x : In x (distinct_strs l) -> In x l.
Proof.
  revert x. induction l as [|y l IH]; intros x H; [exact H|]. cbn [distinct_strs] in H.
  destruct H as [H|H]; [left; exact H|]. apply filter_In in H. right. apply IH. tauto.
Qed.

Lemma c10_distinct_const c l : Forall (fun x => x = c) l -> (length (distinct_strs l) <= 1)%nat.
Proof.
  intros H. destruct l as [|x l]; [cbn; lia|]. cbn [distinct_strs length].
  inversion H as [|? ? Ex Hl]; subst.
  replace (filter (fun y => negb (str_eqb c y)) (distinct_strs l)) with (@nil (list N)); [cbn; lia|].
  symmetry. rewrite Forall_forall in Hl.
  induction (distinct_strs l) as [|y d IH] eqn:E in Hl |- *; [reflexivity|].
  assert (forall z, In z (y :: d) -> z = c) as Hz.
  { intros z Hz. apply Hl. apply c10_distinct_incl. rewrite E. exact Hz. }
  clear - Hz. induction (y :: d) as [|z m IH]; [reflexivity|]. cbn [filter].
  rewrite (Hz z (or_introl eq_refl)), str_eqb_refl. cbn [negb]. apply IH.
  intros w Hw. apply Hz. right. exact Hw.
Qed.

Lemma c10_is_zero_dneg a : is_zero (dneg a) = is_zero a.
Proof. unfold is_zero, dneg. cbn [dm]. destruct (dm a); reflexivity. Qed.

Lemma c10_dsum_snoc l x : dsum (l ++ [x]) = dadd (dsum l) x.
Proof. unfold dsum. rewrite fold_left_app. reflexivity. Qed.

Lemma c10_balanced_sum l : Forall dwf l -> is_zero (dsum (l ++ [dneg (dsum l)])) = true.
Proof.
  intros H. apply is_zero_d28_iff. rewrite c10_dsum_snoc.
  rewrite d28_dadd; [rewrite d28_dneg; lia|apply dwf_dsum; exact H|apply dwf_dneg, dwf_dsum; exact H].
Qed.

Lemma c10_accept_txn e c :
  eq_all_posts e <> [] ->
  Forall (fun p => is_zero (ep_amt p) = false /\ ep_comm p = c) (eq_all_posts e) ->
  is_zero (dsum (map ep_amt (eq_all_posts e))) = true ->
  accept_txn (eq_raw_txn e) = Ok (map eq_posting (eq_all_posts e)).
Proof.
  intros Hne Hall Hz. unfold accept_txn, eq_raw_txn. cbn [rt_posts rt_last].
  destruct (eq_all_posts e) as [|p l] eqn:E; [congruence|]. rewrite <- E in *. clear E p l.
  assert (mapM accept_posting (map eq_raw_post (eq_all_posts e)) = Ok (map eq_posting (eq_all_posts e))) as Em.
  { apply c10_accept_postings. eapply Forall_impl; [|exact Hall]. intros p [X _]. exact X. }
  destruct (map eq_raw_post (eq_all_posts e)) as [|rp rl] eqn:Er.
  - destruct (eq_all_posts e); [congruence|discriminate].
  - rewrite Em. cbn [res_bind].
    assert (map p_txn_comm (map eq_posting (eq_all_posts e)) = map ep_comm (eq_all_posts e)) as Ec
      by (rewrite map_map; reflexivity).
    assert (txn_sum (map eq_posting (eq_all_posts e)) = dsum (map ep_amt (eq_all_posts e))) as Es
      by (unfold txn_sum; rewrite map_map; reflexivity).
    rewrite Ec, Es, Hz.
    assert (length (distinct_strs (map ep_comm (eq_all_posts e))) <= 1)%nat as Hd.
    { apply (c10_distinct_const c). rewrite Forall_map. eapply Forall_impl; [|exact Hall].
      intros p [_ X]. exact X. }
    replace (Nat.ltb 1 (length (distinct_strs (map ep_comm (eq_all_posts e))))) with false; [reflexivity|].
    symmetry. apply Nat.ltb_ge. exact Hd.
Qed.

Lemma c10_posting_bpost l : map post_bpost (map eq_posting l) = map eq_bpost l.
Proof. rewrite map_map. reflexivity. Qed.

(* ------------------------------------------------------------------ *)
(* the theorems of C10 *)

Lemma equity_shape : forall known eqa ras ts es,
  txns_wf ts -> equity known eqa ras ts = Some es -> Shape eqa ras ts es.
Proof.
  intros known eqa ras ts es Hwf H.
  destruct (c10_equity_open known eqa ras ts es H) as (rows0 & Hb & Hcase).
  destruct (c10_rows_facts known ts rows0 Hwf Hb) as (Hown & Hdwf & Hs & Hn & Hk).
  destruct Hcase as [[Er Ee]|(lt & Hl & Ee)]; subst es.
  - split; [constructor|]. split; [|constructor]. intros c. split; [intros []|].
    intros (a & Hc). apply (c10_sel_row_iff _ rows0 Hwf Hown Hk ras) in Hc. rewrite Er in Hc. exact Hc.
  - assert (map e_comm (map (equity_txn eqa (t_hdr lt)) (chunk_by_comm (filter (get_acc_selector ras) rows0)))
            = map fst (chunk_by_comm (filter (get_acc_selector ras) rows0))) as Em
      by (rewrite map_map; reflexivity).
    split; [|split].
    + rewrite Em. apply c10_chunk_sorted. apply (c10_rows_comm_sorted rows0 ras Hs).
    + intros c. rewrite Em. apply (c10_chunk_comms _ rows0 ras Hwf Hown Hk c).
    + apply Forall_forall. intros e He. apply in_map_iff in He. destruct He as ([c rs] & E & Hc). subst e.
      destruct (c10_chunk_shape_posts _ rows0 ras eqa (t_hdr lt) Hwf Hown Hs Hk c rs Hc) as (P1 & P2 & P3).
      pose proof (c10_chunk_shape_bal _ rows0 ras eqa (t_hdr lt) Hwf Hown Hdwf Hs Hn Hk c rs Hc) as P4.
      unfold txn_shape. split; [|split; [exact P1|split; [exact P2|split; [exact P3|exact P4]]]].
      exists (t_hdr lt). split; [apply c10_is_last; exact Hl|]. split; [reflexivity|]. split; reflexivity.
Qed.

Lemma equity_dated : forall known eqa ras ts es,
  equity known eqa ras ts = Some es ->
  forall e, In e es ->
  (exists t, In t ts /\ h_inst (t_hdr t) = e_inst e) /\ forall t, In t ts -> h_inst (t_hdr t) <= e_inst e.
Proof.
  intros known eqa ras ts es H e He.
  destruct (c10_equity_open known eqa ras ts es H) as (rows0 & Hb & Hcase).
  destruct Hcase as [[Er Ee]|(lt & Hl & Ee)]; subst es; [destruct He|].
  apply in_map_iff in He. destruct He as (ch & E & _). subst e. cbn [equity_txn e_inst].
  destruct (c10_is_last ts lt Hl) as (t & Ht & Eh & Hmax).
  split; [exists t; split; [exact Ht|rewrite Eh; reflexivity]|].
  intros t' Ht'. apply c10_header_le_inst. apply Hmax. exact Ht'.
Qed.

Lemma c10_equity_accept : forall known eqa ras ts es,
  txns_wf ts -> equity known eqa ras ts = Some es ->
  forall e, In e es -> accept_txn (eq_raw_txn e) = Ok (map eq_posting (eq_all_posts e)).
Proof.
  intros known eqa ras ts es Hwf H e He.
  destruct (c10_equity_open known eqa ras ts es H) as (rows0 & Hb & Hcase).
  destruct (c10_rows_facts known ts rows0 Hwf Hb) as (Hown & Hdwf & Hs & Hn & Hk).
  destruct Hcase as [[Er Ee]|(lt & Hl & Ee)]; subst es; [destruct He|].
  apply in_map_iff in He. destruct He as ([c rs] & E & Hc). subst e.
  pose proof (c10_chunk_dwf rows0 ras Hdwf Hs c rs Hc) as Hd.
  assert (forall r, In r rs -> is_zero (r_own r) = false /\ r_comm r = c) as Hr.
  { intros r Hin. destruct (c10_chunk_in_rows rows0 ras Hs c rs r Hc Hin) as [X Y].
    split; [apply (c10_in_rows rows0 ras r X)|exact Y]. }
  assert (rs <> []) as Hne.
  { pose proof (c10_chunk_wf (filter (get_acc_selector ras) rows0)) as W. rewrite Forall_forall in W.
    apply (W _ Hc). }
  apply (c10_accept_txn _ c).
  - unfold eq_all_posts, equity_txn. cbn [e_posts e_bal fst snd].
    destruct rs; [congruence|]. discriminate.
  - unfold eq_all_posts, equity_txn. cbn [e_posts e_bal fst snd].
    apply Forall_app. split.
    + rewrite Forall_map. apply Forall_forall. intros r Hin. cbn [ep_amt ep_comm]. apply Hr. exact Hin.
    + destruct (is_zero (dsum (map r_own rs))) eqn:Z; constructor; [|constructor].
      cbn [ep_amt ep_comm]. split; [|reflexivity]. rewrite c10_is_zero_dneg. exact Z.
  - unfold eq_all_posts, equity_txn. cbn [e_posts e_bal fst snd].
    rewrite map_app, map_map. cbn [ep_amt].
    destruct (is_zero (dsum (map r_own rs))) eqn:Z.
    + cbn [map]. rewrite app_nil_r. exact Z.
    + cbn [map ep_amt]. apply c10_balanced_sum. exact Hd.
Qed.

Lemma equity_balanced : forall known eqa ras ts es,
  txns_wf ts -> equity known eqa ras ts = Some es ->
  forall e, In e es -> exists ps, accept_txn (eq_raw_txn e) = Ok ps /\ accepted_as_exported e ps.
Proof.
  intros known eqa ras ts es Hwf H e He.
  exists (map eq_posting (eq_all_posts e)).
  split; [apply (c10_equity_accept known eqa ras ts es Hwf H e He)|].
  split; [apply c10_posting_bpost|].
  rewrite Forall_map. apply Forall_forall. intros p _. split; reflexivity.
Qed.

Lemma equity_carry : forall known eqa ras ts es,
  txns_wf ts -> equity known eqa ras ts = Some es ->
  Carried eqa ras (txn_bposts ts) (eq_bposts es).
Proof.
  intros known eqa ras ts es Hwf H.
  destruct (c10_equity_open known eqa ras ts es H) as (rows0 & Hb & Hcase).
  destruct (c10_rows_facts known ts rows0 Hwf Hb) as (Hown & Hdwf & Hs & Hn & Hk).
  destruct Hcase as [[Er Ee]|(lt & Hl & Ee)]; subst es.
  - pose proof (c10_carried_chunks _ rows0 ras eqa (mkHeader 0 0 None None None None [] []) Hwf Hown Hdwf Hs Hn Hk) as C.
    rewrite Er in C. exact C.
  - apply (c10_carried_chunks _ rows0 ras eqa (t_hdr lt) Hwf Hown Hdwf Hs Hn Hk).
Qed.

Lemma c10_mapM_ok {A B} (f : A -> res B) (g : A -> B) l :
  (forall x, In x l -> f x = Ok (g x)) -> mapM f l = Ok (map g l).
Proof.
  induction l as [|x l IH]; intros H; [reflexivity|]. cbn [mapM map].
  rewrite (H x (or_introl eq_refl)), IH; [reflexivity|]. intros y Hy. apply H. right. exact Hy.
Qed.

(* the export, read back as a journal, is accepted as a whole and carries the balances *)
Lemma equity_carry_journal : forall known eqa ras ts es,
  txns_wf ts -> equity known eqa ras ts = Some es ->
  exists pss, accept_journal (map eq_raw_txn es) = Ok pss
    /\ Carried eqa ras (txn_bposts ts) (flat_map (map post_bpost) pss).
Proof.
  intros known eqa ras ts es Hwf H.
  exists (map (fun e => map eq_posting (eq_all_posts e)) es). split.
  - unfold accept_journal.
    rewrite <- (map_map eq_raw_txn (fun rt => rt)), map_id.
    assert (mapM accept_txn (map eq_raw_txn es)
            = Ok (map (fun rt => rt) (map (fun e => map eq_posting (eq_all_posts e)) es))) as X.
    2:{ rewrite map_id in X. exact X. }
    rewrite map_id.
    pose proof (c10_equity_accept known eqa ras ts es Hwf H) as Ha. clear H.
    induction es as [|e es IH]; [reflexivity|]. cbn [map mapM].
    rewrite (Ha e (or_introl eq_refl)), IH; [reflexivity|]. intros e' He'. apply Ha. right. exact He'.
  - replace (flat_map (map post_bpost) (map (fun e => map eq_posting (eq_all_posts e)) es))
      with (eq_bposts es); [apply (equity_carry known eqa ras ts es Hwf H)|].
    clear. induction es as [|e es IH]; [reflexivity|]. cbn [eq_bposts map flat_map].
    fold (eq_bposts es). rewrite IH, c10_posting_bpost. reflexivity.
Qed.

(* the export never fails when every account name can be resolved (lax mode) *)
Lemma equity_total : forall known eqa ras ts,
  txns_wf ts -> (forall a, known a = true) -> exists es, equity known eqa ras ts = Some es.
Proof.
  intros known eqa ras ts Hwf Hk. unfold equity, balance_report_det, balance_report.
  assert (Permutation (txn_bposts (sort_txns ts)) (txn_bposts ts)) as Hp.
  { apply c10_txn_bposts_perm. apply sort_txns_perm. }
  assert (Forall bpost_wf (txn_bposts (sort_txns ts))) as Hwf'.
  { apply (Permutation_Forall (Permutation_sym Hp)). exact Hwf. }
  destruct (balance_total known ord_sorted _ c10_ord_sorted_perm Hwf' Hk) as [rows0 Hb].
  rewrite Hb. cbn [b_rows].
  destruct (filter (get_acc_selector ras) rows0) as [|r rows] eqn:Ef; [eexists; reflexivity|].
  destruct (sort_txns ts) as [|t l] eqn:Es.
  - exfalso. cbn in Hb. inversion Hb; subst rows0. discriminate Ef.
  - destruct (c10_last_opt_some (t :: l)) as [x Hx]; [discriminate|]. rewrite Hx. eexists. reflexivity.
Qed.

(* ------------------------------------------------------------------ *)
(* the oracle *)

Lemma carry_ok_sound : forall eqa ras ps eps,
  carry_ok eqa ras ps eps = true -> Carried eqa ras ps eps.
Proof.
  intros eqa ras ps eps H k. unfold carry_ok in H. rewrite forallb_forall in H.
  destruct (in_dec key_eq_dec k (check_keys eqa ps eps)) as [Hin|Hni].
  - specialize (H k Hin). unfold carry_at in H. apply Z.eqb_eq in H. exact H.
  - unfold check_keys in Hni. rewrite !in_app_iff in Hni.
    assert (~ In k (map bp_key ps)) as N1 by tauto.
    assert (~ In k (map bp_key eps)) as N2 by tauto.
    assert (~ In k (map (fun p => (eqa, bp_comm p)) ps)) as N3 by tauto.
    rewrite (spec_own_notin eps k N2). unfold carry_own. rewrite (spec_own_notin ps k N1).
    assert (absorbed eqa ras ps k = 0) as A.
    { unfold absorbed. destruct (acct_eqb (fst k) eqa) eqn:E; [|reflexivity].
      apply acct_eqb_eq in E. unfold carry_total. rewrite zsum_map_zero_ext; [reflexivity|].
      intros p Hp. apply filter_In in Hp. destruct Hp as [Hp C]. apply andb_true_iff in C.
      destruct C as [C _]. apply str_eqb_eq in C. exfalso. apply N3. apply in_map_iff.
      exists p. split; [|exact Hp]. rewrite C, <- E. destruct k; reflexivity. }
    rewrite A. destruct (selected ras (fst k)); reflexivity.
Qed.

Lemma c10_one_comm_sound l c : one_comm l = Some c -> l <> [] /\ Forall (fun p => bp_comm p = c) l.
Proof.
  destruct l as [|p l]; [discriminate|]. cbn [one_comm].
  destruct (forallb (fun q => str_eqb (bp_comm q) (bp_comm p)) l) eqn:E; [|discriminate].
  intros X. inversion X; subst c. split; [discriminate|]. constructor; [reflexivity|].
  apply Forall_forall. intros q Hq. rewrite forallb_forall in E. apply str_eqb_eq. apply E. exact Hq.
Qed.

Lemma c10_nodup_strs_sound l : nodup_strs l = true -> NoDup l.
Proof.
  induction l as [|x l IH]; intros H; [constructor|]. cbn [nodup_strs] in H.
  apply andb_true_iff in H. destruct H as [H1 H2]. constructor; [|apply IH; exact H2].
  intros Hin. apply negb_true_iff in H1.
  assert (existsb (str_eqb x) l = true) as X.
  { apply existsb_exists. exists x. split; [exact Hin|apply str_eqb_refl]. }
  congruence.
Qed.

Lemma export_ok_sound : forall eqa ras insts ps ets,
  export_ok eqa ras insts ps ets = true -> ExportOk eqa ras insts ps ets.
Proof.
  intros eqa ras insts ps ets H. unfold export_ok in H.
  apply andb_true_iff in H. destruct H as [H H4].
  apply andb_true_iff in H. destruct H as [H H3].
  apply andb_true_iff in H. destruct H as [H1 H2].
  split; [apply carry_ok_sound; exact H1|]. split.
  - intros et Het. rewrite forallb_forall in H2. specialize (H2 et Het). unfold dated_ok in H2.
    apply andb_true_iff in H2. destruct H2 as [A B]. split.
    + apply existsb_exists in A. destruct A as (j & Hj & E). apply Z.eqb_eq in E. subst j. exact Hj.
    + intros j Hj. rewrite forallb_forall in B. apply Z.leb_le. apply B. exact Hj.
  - exists (map (fun et => match one_comm (snd et) with Some c => c | None => [] end) ets).
    split; [apply c10_nodup_strs_sound; exact H4|].
    clear - H3. induction ets as [|et ets IH]; [constructor|]. cbn [forallb map] in *.
    apply andb_true_iff in H3. destruct H3 as [A B]. constructor; [|apply IH; exact B].
    destruct (one_comm (snd et)) as [c|] eqn:E; [|discriminate]. apply c10_one_comm_sound. exact E.
Qed.

(* ------------------------------------------------------------------ *)
(* non-vacuity: three transactions out of order, two commodities, a:b cancels in EUR;
   selecting a.* and e leaves a remainder for the equity account, selecting everything cancels *)

Definition c10_ex_hdr (i : Z) : header := mkHeader i 0 None None None None [] [].
Definition c10_ex_post (a : list (list N)) (c : list N) (m : Z) (s : N) : posting :=
  mkPosting a c (mkDec m s) (mkDec m s) false c.
Definition c10_ab : list (list N) := [[97];[98]]%N.
Definition c10_ac : list (list N) := [[97];[99]]%N.
Definition c10_e : list (list N) := [[101]]%N.
Definition c10_x : list (list N) := [[120]]%N.
Definition c10_eo : list (list N) := [[69];[79]]%N.
Definition c10_E : list N := [69]%N.
Definition c10_ex_ts : list txn :=
  [ mkTxn (c10_ex_hdr 10) [c10_ex_post c10_ab c10_E 150 2; c10_ex_post c10_e c10_E (-150) 2];
    mkTxn (c10_ex_hdr 30) [c10_ex_post c10_ac [] 2 0; c10_ex_post c10_ab [] 3 0; c10_ex_post c10_x [] (-5) 0];
    mkTxn (c10_ex_hdr 20) [c10_ex_post c10_ab c10_E (-15) 1; c10_ex_post c10_x c10_E 15 1] ].
Definition c10_ex_sel (a : list (list N)) : bool :=
  match a with [x] :: _ => N.eqb x 97 || N.eqb x 101 | _ => false end.
Definition c10_ex_view (o : option (list eq_txn)) :=
  option_map (map (fun e => (e_inst e, e_comm e, e_warn e,
                             map (fun p => (ep_acc p, dm (ep_amt p), Z.of_N (ds (ep_amt p)))) (eq_all_posts e)))) o.

Lemma equity_example :
  txns_wf c10_ex_ts
  /\ c10_ex_view (equity (fun _ => true) c10_eo (Some c10_ex_sel) c10_ex_ts)
     = Some [ (30, [], false, [(c10_ab, 3, 0); (c10_ac, 2, 0); (c10_eo, -5, 0)]);
              (30, c10_E, false, [(c10_e, -150, 2); (c10_eo, 150, 2)]) ]
  /\ c10_ex_view (equity (fun _ => true) c10_eo None c10_ex_ts)
     = Some [ (30, [], true, [(c10_ab, 3, 0); (c10_ac, 2, 0); (c10_x, -5, 0)]);
              (30, c10_E, true, [(c10_e, -150, 2); (c10_x, 15, 1)]) ].
Proof.
  split; [|split; vm_compute; reflexivity].
  unfold txns_wf, c10_ex_ts, txn_bposts, c10_ab, c10_ac, c10_e, c10_x, c10_E.
  cbn [flat_map map t_posts app post_bpost c10_ex_post p_acc p_comm p_amount].
  unfold bpost_wf, acct_wf, comp_ok, dwf, colon.
  repeat (first [ apply Forall_cons | apply Forall_nil | split ]);
    cbn [bp_amt bp_acc ds In]; try lia; try discriminate;
    intros H; repeat (destruct H as [H|H]; [discriminate H|]); exact H.
Qed.

Lemma rows_carry_ok_sound : forall eqa src exp,
  rows_carry_ok eqa src exp = true -> RowsCarried eqa src exp.
Proof.
  intros eqa src exp H. unfold rows_carry_ok in H. apply andb_true_iff in H. destruct H as [H1 H2].
  rewrite forallb_forall in H1, H2. split.
  - intros r Hr Hne. specialize (H1 r Hr). apply orb_true_iff in H1. destruct H1 as [E|H1].
    + apply acct_eqb_eq in E. contradiction.
    + unfold row_at in H1. destruct (find (fun r0 => key_eqb (r_key r0) (r_key r)) exp) as [r'|] eqn:F; [|discriminate].
      apply find_some in F. destruct F as [Hin E]. apply key_eqb_eq in E. apply Z.eqb_eq in H1.
      exists r'. split; [exact Hin|]. split; assumption.
  - intros r' Hr' Hne Hnz. specialize (H2 r' Hr'). apply orb_true_iff in H2. destruct H2 as [H2|H2].
    + apply orb_true_iff in H2. destruct H2 as [E|E].
      * apply acct_eqb_eq in E. contradiction.
      * apply Z.eqb_eq in E. contradiction.
    + unfold row_at in H2. destruct (find (fun r0 => key_eqb (r_key r0) (r_key r')) src) as [r|] eqn:F; [|discriminate].
      apply find_some in F. destruct F as [Hin E]. apply key_eqb_eq in E. exists r. split; assumption.
Qed.

Lemma eq_account_ok_example :
  eq_account_ok2 c10_eo = true /\ eq_account_ok2 [[97]; [32; 98]]%N = false /\ eq_account_ok2 [[]] = false
  /\ eq_account_ok [[97; 33; 98]]%N = true /\ eq_account_ok2 [[97; 33; 98]]%N = false.
Proof. vm_compute. repeat split; reflexivity. Qed.
