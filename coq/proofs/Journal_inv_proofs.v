(* Journal_inv_proofs.v — C06 stage 5a: what a successful parse says about its result
   (token level): results are well formed, the unread rest is a suffix of the input. *)
From TkModel Require Import Base Dec Acct Txn Accept Journal.
From TkSpec Require Import Journal_spec.
From TkProofs Require Import Journal_base_proofs Journal_line_proofs.
Local Open Scope Z_scope.

(* ------------------------------------------------------------------ suffixes *)
Definition suffix (r s : list N) : Prop := exists pre, s = pre ++ r.

Lemma suffix_refl s : suffix s s.
Proof. exists []. reflexivity. Qed.
Lemma suffix_trans a b c : suffix a b -> suffix b c -> suffix a c.
Proof. intros [p ->] [q ->]. exists (q ++ p). rewrite app_assoc. reflexivity. Qed.
Lemma suffix_cons c s : suffix s (c :: s).
Proof. exists [c]. reflexivity. Qed.
Lemma suffix_app p s : suffix s (p ++ s).
Proof. exists p. reflexivity. Qed.
Lemma suffix_skipn n s : suffix (skipn n s) s.
Proof. exists (firstn n s). symmetry. apply firstn_skipn. Qed.
Lemma suffix_no_eol r s : suffix r s -> no_eol s = true -> no_eol r = true.
Proof. intros [p ->] H. unfold no_eol in *. rewrite forallb_app in H. apply andb_true_iff in H as [_ H]. exact H. Qed.

Lemma span_spec p s a r : span p s = (a, r) -> s = a ++ r /\ forallb p a = true /\ stopb p r = true.
Proof.
  revert a r. induction s as [|c s IH]; intros a r H; cbn [span] in H.
  - injection H as <- <-. repeat split.
  - destruct (p c) eqn:Ec.
    + destruct (span p s) as [a' r'] eqn:E. injection H as <- <-.
      destruct (IH _ _ eq_refl) as (-> & Ha & Hr). repeat split; [|exact Hr]. cbn [forallb]. rewrite Ec, Ha. reflexivity.
    + injection H as <- <-. repeat split. cbn [stopb]. rewrite Ec. reflexivity.
Qed.
Lemma span_suffix p s a r : span p s = (a, r) -> suffix r s.
Proof. intro H. destruct (span_spec _ _ _ _ H) as (-> & _). apply suffix_app. Qed.
Lemma snd_span_suffix p s : suffix (snd (span p s)) s.
Proof. destruct (span p s) as [a r] eqn:E. exact (span_suffix _ _ _ _ E). Qed.

Lemma take_char_spec c s r : take_char c s = Some r -> s = c :: r.
Proof.
  destruct s as [|x s]; cbn [take_char]; [discriminate|]. destruct (N.eqb_spec x c); [|discriminate].
  intro H. injection H as <-. subst. reflexivity.
Qed.
Lemma take_char_suffix c s r : take_char c s = Some r -> suffix r s.
Proof. intro H. rewrite (take_char_spec _ _ _ H). apply suffix_cons. Qed.

Lemma take_prefix_spec p s r : take_prefix p s = Some r -> s = p ++ r.
Proof.
  revert s. induction p as [|a p IH]; intros s H; cbn [take_prefix] in H.
  - injection H as <-. reflexivity.
  - destruct s as [|b s]; [discriminate|]. destruct (N.eqb_spec a b); [|discriminate]. subst.
    rewrite (IH _ H). reflexivity.
Qed.
Lemma take_prefix_suffix p s r : take_prefix p s = Some r -> suffix r s.
Proof. intro H. rewrite (take_prefix_spec _ _ _ H). apply suffix_app. Qed.

Lemma drop_while_suffix p s : suffix (drop_while p s) s.
Proof.
  induction s as [|c s IH]; [apply suffix_refl|]. cbn [drop_while]. destruct (p c); [|apply suffix_refl].
  eapply suffix_trans; [exact IH|apply suffix_cons].
Qed.

Lemma no_eol_rev s : no_eol (rev s) = no_eol s.
Proof. apply forallb_rev. Qed.
Lemma trim_end_no_eol s : no_eol s = true -> no_eol (trim_end s) = true.
Proof.
  intro H. unfold trim_end. rewrite no_eol_rev. apply (suffix_no_eol _ (rev s)); [apply drop_while_suffix|].
  rewrite no_eol_rev. exact H.
Qed.

(* ------------------------------------------------------------------ numbers *)
Lemma take_number_body_spec neg s d r : take_number_body neg s = Some (d, r) -> fits d = true /\ suffix r s.
Proof.
  unfold take_number_body. destruct (span is_digit s) as [ip s2] eqn:E1.
  destruct (is_nil ip); [discriminate|].
  pose proof (span_suffix _ _ _ _ E1) as S1.
  set (P := match s2 with
            | c :: r0 => if (c =? 46)%N then let '(f, r') := span is_digit r0 in if is_nil f then ([], s2) else (f, r')
                         else ([], s2)
            | [] => ([], s2)
            end).
  assert (HP : suffix (snd P) s2).
  { subst P. destruct s2 as [|c r0]; [apply suffix_refl|]. destruct (c =? 46)%N; [|apply suffix_refl].
    destruct (span is_digit r0) as [f r'] eqn:E2. destruct (is_nil f); [apply suffix_refl|].
    cbn [snd]. eapply suffix_trans; [exact (span_suffix _ _ _ _ E2)|apply suffix_cons]. }
  destruct P as [fp s3]. cbn [snd] in HP.
  destruct ((N.of_nat (length fp) <=? 28)%N && (digs_val 0 (ip ++ fp) <? 2 ^ 96)%N) eqn:Eb; [|discriminate].
  intro H. injection H as <- <-. apply andb_true_iff in Eb as [Hs Hm]. split; [|eapply suffix_trans; eassumption].
  unfold fits. cbn [dm ds]. rewrite Hs, andb_true_r. apply Z.ltb_lt. apply N.ltb_lt in Hm.
  assert (Hz : Z.of_N (digs_val 0 (ip ++ fp)) < 2 ^ 96).
  { change (2 ^ 96) with (Z.of_N (2 ^ 96)%N). apply N2Z.inj_lt. exact Hm. }
  destruct neg; [rewrite Z.abs_opp|]; rewrite Z.abs_eq by apply N2Z.is_nonneg; exact Hz.
Qed.

Lemma take_number_spec s d r : take_number s = Some (d, r) -> fits d = true /\ suffix r s.
Proof.
  unfold take_number. destruct s as [|c s']; [discriminate|]. destruct (c =? 45)%N.
  - intro H. destruct (take_number_body_spec _ _ _ _ H) as [Hf Hs]. split; [exact Hf|].
    eapply suffix_trans; [exact Hs|apply suffix_cons].
  - apply take_number_body_spec.
Qed.

(* ------------------------------------------------------------------ identifiers, names *)
Lemma take_ident_spec s c r : take_ident s = Some (c, r) -> ident_ok c = true /\ suffix r s.
Proof.
  unfold take_ident. destruct s as [|x s']; [discriminate|]. destruct (id_start x) eqn:Ex; [|discriminate].
  destruct (span id_char (x :: s')) as [c0 r0] eqn:H. intro H0. injection H0 as -> ->.
  destruct (span_spec _ _ _ _ H) as (E & Ha & _).
  split; [|rewrite E; apply suffix_app].
  destruct c as [|y c'].
  - exfalso. cbn [span] in H. rewrite (id_start_char x Ex) in H. destruct (span id_char s'); discriminate.
  - cbn [app] in E. injection E as -> _. cbn [ident_ok]. rewrite Ex. exact Ha.
Qed.

Lemma split_on_pieces sep s : Forall (fun p => forallb (fun c => negb (c =? sep)%N) p = true) (split_on sep s).
Proof.
  induction s as [|c s IH]; [repeat constructor|]. cbn [split_on]. destruct (N.eqb_spec c sep) as [->|Hc].
  - constructor; [reflexivity|exact IH].
  - destruct (split_on sep s) as [|p ps]; [repeat constructor; cbn; apply N.eqb_neq in Hc; rewrite Hc; reflexivity|].
    inversion IH as [|? ? Hp Hps]; subst. constructor; [|exact Hps]. cbn [forallb].
    apply N.eqb_neq in Hc. rewrite Hc, Hp. reflexivity.
Qed.

Lemma split_on_chars (q : N -> bool) sep s : forallb q s = true -> Forall (fun p => forallb q p = true) (split_on sep s).
Proof.
  induction s as [|c s IH]; [repeat constructor|]. cbn [forallb split_on]. intro H.
  apply andb_true_iff in H as [Hc Hs]. specialize (IH Hs). destruct (c =? sep)%N.
  - constructor; [reflexivity|exact IH].
  - destruct (split_on sep s) as [|p ps]; [repeat constructor; cbn; rewrite Hc; reflexivity|].
    inversion IH as [|? ? Hp Hps]; subst. constructor; [|exact Hps]. cbn [forallb]. rewrite Hc, Hp. reflexivity.
Qed.

Lemma take_name_spec s comps r : take_name s = Some (comps, r) -> name_ok comps = true /\ suffix r s.
Proof.
  unfold take_name. destruct (span (fun c => id_char c || (c =? 58)%N) s) as [tok r0] eqn:E.
  destruct (span_spec _ _ _ _ E) as (Es & Htok & _).
  pose proof (split_on_pieces 58 tok) as Hno. pose proof (split_on_chars _ 58 tok Htok) as Hch.
  destruct (split_on 58 tok) as [|[|c p0] ps] eqn:Esp; try discriminate.
  destruct (id_start c && forallb (fun p => negb (is_nil p)) ((c :: p0) :: ps)) eqn:Eb; [|discriminate].
  intro H. injection H as <- <-. split; [|rewrite Es; apply suffix_app].
  apply andb_true_iff in Eb as [Hc Hne]. cbn [name_ok]. rewrite Hc. cbn [andb].
  rewrite forallb_forall. intros p Hp. rewrite forallb_forall in Hne. rewrite (Hne p Hp). cbn [andb].
  rewrite Forall_forall in Hno, Hch. specialize (Hno p Hp). specialize (Hch p Hp).
  rewrite forallb_forall in *. intros x Hx. specialize (Hno x Hx). specialize (Hch x Hx).
  apply negb_true_iff in Hno. rewrite Hno, orb_false_r in Hch. exact Hch.
Qed.

Lemma take_comment_spec s c : take_comment s = Some (Some c) -> suffix c s.
Proof.
  destruct s as [|x r]; cbn [take_comment]; [discriminate|]. destruct (x =? 59)%N; [|discriminate].
  destruct r as [|y r']; [intro H; injection H as <-; exists [x]; reflexivity|].
  destruct (is_sp y); [|discriminate]. intro H. injection H as <-. exists [x; y]. reflexivity.
Qed.

Lemma take_digits_spec n s v r : take_digits n s = Some (v, r) ->
  suffix r s /\ 0 <= v /\ exists a, s = a ++ r /\ length a = n /\ forallb is_digit a = true /\ v = Z.of_N (digs_val 0 a).
Proof.
  unfold take_digits. destruct (Nat.eqb (length (firstn n s)) n && forallb is_digit (firstn n s)) eqn:Eb; [|discriminate].
  intro H. injection H as <- <-. apply andb_true_iff in Eb as [Hl Hd]. apply Nat.eqb_eq in Hl.
  split; [apply suffix_skipn|]. split; [apply N2Z.is_nonneg|].
  exists (firstn n s). repeat split; [symmetry; apply firstn_skipn|exact Hl|exact Hd].
Qed.

(* value of n digits is below 10^n *)
Lemma digs_val_bound a : forallb is_digit a = true -> forall acc, (digs_val acc a < (acc + 1) * 10 ^ N.of_nat (length a))%N.
Proof.
  induction a as [|c a IH]; intros H acc.
  - cbn [digs_val length]. change (N.of_nat 0) with 0%N. rewrite N.pow_0_r. lia.
  - cbn [forallb] in H. apply andb_true_iff in H as [Hc Ha]. cbn [digs_val length].
    rewrite Nat2N.inj_succ, N.pow_succ_r'. specialize (IH Ha (acc * 10 + (c - 48))%N).
    unfold is_digit, in_rng in Hc. apply andb_true_iff in Hc as [H1 H2]. apply N.leb_le in H1, H2.
    assert ((acc * 10 + (c - 48) + 1) <= (acc + 1) * 10)%N by lia.
    eapply N.lt_le_trans; [exact IH|].
    replace ((acc + 1) * (10 * 10 ^ N.of_nat (length a)))%N with (((acc + 1) * 10) * 10 ^ N.of_nat (length a))%N by ring.
    apply N.mul_le_mono_r. exact H.
Qed.
