(* T08_proofs.v — lemmas for coq/props/T08.v: the numbered properties restated about the text a whole run
   prints (T06_run.run_console / run_files), by composing the per-property theorems with T06's structure
   theorems.  Everything about run_cfg goes through its accessor functions and T06's lemmas. *)
From Coq Require Import List ZArith NArith Bool Arith Lia Permutation Sorted.
From TkModel Require Import Base Dec Acct Txn Accept Journal Balance Register Round Price Time Group.
From TkModel Require Import ReportText T05_report PriceText Regex T06_describe T06_run.
From TkModel Require Filter Equity EquityText MetaText Audit Codec Tstamp Config Output.
From TkSpec Require Import Balance_spec Register_spec Round_spec Price_spec ReportText_spec T05_spec T05_grp_spec T06_spec T08_spec.
From TkSpec Require Accept_spec Filter_spec Audit_spec Equity_spec EquityText_spec Journal_spec Group_spec MetaText_spec.
From TkProofs Require Import Base_proofs ReportText_proofs T05_proofs T05_grp_proofs Journal_layout_proofs T06_proofs.
From TkProofs Require T06_total_proofs.
From TkProofs Require Accept_proofs Order_proofs Filter_proofs Audit_proofs MetaText_proofs Equity_proofs
                      EquityText_proofs Journal_image_proofs Group_proofs Output_proofs Config_proofs Load_proofs.
Import ListNotations.
Local Open Scope Z_scope.

(* ================================================================== 0. what a run reads of its configuration *)
Section View.
  Variable H : list N -> list N.

  (* everything before the first write reads the configuration through same_inputs only *)
  Lemma prepare_same_inputs a b j p : same_inputs a b -> run_prepare H a j p = run_prepare H b j p.
  Proof.
    intros (H1 & H2 & H3 & H4 & H5 & H6 & H7 & H8).
    unfold run_prepare, price_setup, price_cfg, load, prepare_from, prepare_with, run_filter.
    rewrite ?H1, ?H2, ?H3, ?H4, ?H5, ?H6, ?H7, ?H8. reflexivity.
  Qed.

  Lemma report_text_same_view a b st k : same_run_view a b -> report_text H a st k = report_text H b st k.
  Proof.
    intros ((I1 & I2 & I3 & I4 & I5 & I6 & I7 & I8) & (L1 & L2 & L3 & L4 & L5 & L6 & L7 & L8 & L9 & L10) & (Z1 & Z2) & S & Hs & He).
    unfold report_text, conv_overflow, report_head_text, report_body, report_prices, ts_text, rtz.
    rewrite ?(Hs k), ?I2, ?I3, ?I4, ?L3, ?L4, ?L5, ?L6, ?L7, ?Z1, ?Z2, ?S.
    destruct k; reflexivity.
  Qed.

  Lemma export_file_same_view a b st x : same_run_view a b -> export_file H a st x = export_file H b st x.
  Proof.
    intros ((I1 & I2 & I3 & I4 & I5 & I6 & I7 & I8) & (L1 & L2 & L3 & L4 & L5 & L6 & L7 & L8 & L9 & L10) & (Z1 & Z2) & S & Hs & He).
    unfold export_file, equity_file. rewrite ?He, ?I2, ?I3, ?L8. reflexivity.
  Qed.

  Lemma mapO_ext {A B} (f g : A -> option B) l : (forall x, f x = g x) -> mapO f l = mapO g l.
  Proof. intros E. induction l as [|x l IH]; cbn [mapO]; [reflexivity|]. rewrite E, IH. reflexivity. Qed.

  (* T08_same_view_same_run: the run is a function of what same_run_view compares *)
  Lemma run_same_view a b j p : same_run_view a b ->
    run_console H a j p = run_console H b j p /\ run_files H a j p = run_files H b j p.
  Proof.
    intros Hv. pose proof Hv as (Hi & (L1 & L2 & L3 & L4 & L5 & L6 & L7 & L8 & L9 & L10) & _).
    unfold run_console, run_files. rewrite (prepare_same_inputs a b j p Hi).
    destruct (run_prepare H b j p) as [st|c]; cbn [res_bind]; [|split; reflexivity].
    split.
    - unfold console_of, console_with. rewrite L1.
      rewrite (mapO_ext (report_text H a st) (report_text H b st)); [reflexivity|].
      intros k. apply report_text_same_view. exact Hv.
    - unfold files_of, files_with. rewrite L1, L2.
      rewrite (mapO_ext (report_entry_with a (rs_md st) (report_text H a st)) (report_entry_with b (rs_md st) (report_text H b st))).
      + rewrite (mapO_ext (export_entry_with a (export_file H a st)) (export_entry_with b (export_file H b st))); [reflexivity|].
        intros x. unfold export_entry_with, file_name, file_path. rewrite L9, L10, (export_file_same_view a b st x Hv). reflexivity.
      + intros k. unfold report_entry_with, file_name, file_path. rewrite L9, L10, (report_text_same_view a b st k Hv). reflexivity.
  Qed.
End View.

(* ================================================================== 1. C01: what the reports are computed from *)
(* a decimal literal of the grammar has at most 28 decimals *)
Lemma take_number_body_dwf neg s d r : take_number_body neg s = Some (d, r) -> dwf d.
Proof.
  unfold take_number_body. destruct (span is_digit s) as [ip s2]. destruct (is_nil ip); [discriminate|].
  destruct (match s2 with
            | [] => ([], s2)
            | c :: r0 => if (c =? 46)%N then let '(f, r') := span is_digit r0 in if is_nil f then ([], s2) else (f, r') else ([], s2)
            end) as [fp s3].
  destruct ((N.of_nat (length fp) <=? 28)%N && (digs_val 0 (ip ++ fp) <? 2 ^ 96)%N) eqn:E; [|discriminate].
  intros Hx. inversion Hx; subst. apply andb_true_iff in E. destruct E as [E _]. unfold dwf. cbn [ds]. apply N.leb_le. exact E.
Qed.

Lemma take_number_dwf s d r : take_number s = Some (d, r) -> dwf d.
Proof.
  unfold take_number. destruct s as [|c s']; [discriminate|]. destruct (c =? 45)%N; apply take_number_body_dwf.
Qed.

Lemma take_closing_wf s cl r : take_closing s = Some (cl, r) ->
  match cl with Some (_, v, _) => dwf v | None => True end.
Proof.
  unfold take_closing. destruct (span is_sp s) as [sp r0]. destruct r0 as [|c r1].
  - intros Hx. inversion Hx. exact I.
  - destruct (negb (is_nil sp) && ((c =? 64)%N || (c =? 61)%N)).
    + destruct (span is_sp r1) as [sp1 r2]. destruct (is_nil sp1); [discriminate|].
      destruct (take_number r2) as [[v r3]|] eqn:En; [|discriminate].
      destruct (span is_sp r3) as [sp2 r4]. destruct (is_nil sp2); [discriminate|].
      destruct (take_ident r4) as [[cm r5]|]; [|discriminate].
      intros Hx. inversion Hx. eapply take_number_dwf. exact En.
    + intros Hx. inversion Hx. exact I.
Qed.

Lemma take_value_wf s amt u r : take_value s = Some (amt, u, r) ->
  dwf amt /\ match u with Some ru => Accept_spec.unit_wf ru | None => True end.
Proof.
  unfold take_value. destruct (take_number s) as [[a r0]|] eqn:En; [|discriminate].
  destruct (span is_sp r0) as [sp r1].
  destruct (if is_nil sp then None else take_ident r1) as [[cm r2]|].
  - destruct (take_opening r2) as [[op r3]|]; [|discriminate].
    destruct (take_closing r3) as [[cl r4]|] eqn:Ec; [|discriminate].
    intros Hx. inversion Hx; subst. split; [eapply take_number_dwf; exact En|].
    unfold Accept_spec.unit_wf. cbn [u_closing]. exact (take_closing_wf _ _ _ Ec).
  - intros Hx. inversion Hx; subst. split; [eapply take_number_dwf; exact En|exact I].
Qed.

Lemma posting_line_wf l rp c : parse_posting_line l = Some (PL_post rp c) -> Accept_spec.raw_post_wf rp.
Proof.
  unfold parse_posting_line. destruct (span is_sp l) as [sp r]. destruct (is_nil sp); [discriminate|].
  destruct (take_name r) as [[acc r1]|]; [|discriminate].
  destruct (negb (acct_sem_ok acc)); [discriminate|].
  destruct (span is_sp r1) as [sp1 r2]. destruct r2 as [|ch r2']; [discriminate|].
  destruct (ch =? 59)%N.
  - destruct (take_comment (ch :: r2')); discriminate.
  - destruct (is_nil sp1); [discriminate|].
    destruct (take_value (ch :: r2')) as [[[amt u] r3]|] eqn:Ev; [|discriminate].
    destruct (negb (unit_sem_ok u)); [discriminate|].
    destruct (take_comment (snd (span is_sp r3))); [|discriminate].
    intros Hx. inversion Hx; subst. destruct (take_value_wf _ _ _ _ Ev) as [Ha Hu].
    unfold Accept_spec.raw_post_wf. cbn [rp_amount rp_unit]. split; assumption.
Qed.

(* every syntax-level transaction the grammar returns has decimals of the number type *)
Lemma parse_chunk_raw_wf cfg c pt : parse_chunk cfg c = Some pt -> Accept_spec.raw_wf (ptxn_raw pt).
Proof.
  intros Hc. destruct (parse_chunk_consumes cfg c pt Hc) as (hl & ms & cls & pls & lls & _ & _ & _ & _ & Hp & _).
  unfold Accept_spec.raw_wf, ptxn_raw. cbn [rt_posts].
  induction Hp as [|l p pls' ps' Hl _ IH]; cbn [map]; [constructor|]. constructor; [|exact IH].
  eapply posting_line_wf. exact Hl.
Qed.

Lemma parse_journal_raw_wf cfg s pts : parse_journal cfg s = Ok pts ->
  Forall (fun pt => Accept_spec.raw_wf (ptxn_raw pt)) pts.
Proof.
  intros Hp. destruct (no_partial_consumption cfg s pts Hp) as (ls0 & _ & _ & (_ & _ & _ & _ & HF) & _).
  clear Hp. induction HF as [|c pt cs pts' Hc _ IH]; [constructor|]. constructor; [|exact IH].
  eapply parse_chunk_raw_wf. exact Hc.
Qed.

Lemma Forall2_len {A B} (P : A -> B -> Prop) la lb : Forall2 P la lb -> length la = length lb.
Proof. induction 1; cbn [length]; congruence. Qed.

(* the postings of an accepted transaction: as many as comments were collected, so none is dropped *)
Lemma balanced_length rt ps : Accept_spec.Balanced rt ps ->
  length ps = (length (rt_posts rt) + match rt_last rt with Some _ => 1 | None => 0 end)%nat.
Proof.
  intros (c & HF & _ & Hl). cbv zeta in *. pose proof (Forall2_len _ _ _ HF) as Hlen.
  destruct (rt_last rt) as [a|].
  - destruct Hl as (lp & Hs & _).
    rewrite <- (firstn_skipn (length (rt_posts rt)) ps) at 1. rewrite app_length, <- Hlen, Hs. reflexivity.
  - rewrite Hl. lia.
Qed.

Lemma map_fst_combine_le {A B} (l : list A) (l' : list B) : (length l <= length l')%nat -> map fst (combine l l') = l.
Proof.
  revert l'. induction l as [|x l IH]; intros [|y l'] Hle; cbn [combine map fst length] in *; try reflexivity; try lia.
  rewrite IH by lia. reflexivity.
Qed.

Lemma accept_ptxn_inv pt t : Accept_spec.raw_wf (ptxn_raw pt) -> accept_ptxn pt = Ok t ->
  accepted_from pt t /\ Accept_spec.Balanced (ptxn_raw pt) (map jp_p (jt_posts t)).
Proof.
  intros Hw. unfold accept_ptxn. destruct (accept_txn (ptxn_raw pt)) as [ps|e] eqn:Ea; cbn [res_bind]; [|discriminate].
  intros Hx. inversion Hx; subst t. clear Hx. cbn [jt_hdr jt_posts].
  pose proof (Accept_proofs.accept_txn_balanced _ _ Hw Ea) as Hb.
  assert (Hm : map jp_p (map (fun pc => mkJPost (fst pc) (snd pc)) (combine ps (ptxn_comments pt))) = ps).
  { rewrite map_map. cbn [jp_p]. change (map (fun x : posting * option (list N) => fst x) (combine ps (ptxn_comments pt)) = ps).
    apply map_fst_combine_le. rewrite (balanced_length _ _ Hb). unfold ptxn_comments, ptxn_raw. cbn [rt_posts rt_last].
    rewrite app_length, !map_length. destruct (pt_last pt) as [[a c]|]; cbn [option_map length]; lia. }
  unfold accepted_from. cbn [jt_hdr jt_posts]. rewrite Hm. split; [split; [reflexivity|exact Ea]|exact Hb].
Qed.

Lemma not_must_reject rt ps : Accept_spec.raw_wf rt -> accept_txn rt = Ok ps -> Accept_spec.must_reject rt = false.
Proof.
  intros Hw Ha. destruct (Accept_spec.must_reject rt) eqn:E; [|reflexivity].
  destruct (Accept_proofs.must_reject_rejected rt Hw E) as [e He]. rewrite He in Ha. discriminate.
Qed.

Lemma Forall2_in_r {A B} (P : A -> B -> Prop) la lb y : Forall2 P la lb -> In y lb -> exists x, In x la /\ P x y.
Proof.
  induction 1 as [|a b la lb Hab _ IH]; intros Hin; [destruct Hin|]. destruct Hin as [->|Hin].
  - exists a. split; [left; reflexivity|exact Hab].
  - destruct (IH Hin) as (x & Hx & Hp). exists x. split; [right; exact Hx|exact Hp].
Qed.

Lemma run_filter_incl cfg js t : In t (run_filter cfg js) -> In t js.
Proof.
  unfold run_filter. destruct (rc_filter cfg) as [[f pats]|]; [|exact (fun x => x)].
  intros Hin. apply filter_In in Hin. apply Hin.
Qed.

Section C01.
  Variable H : list N -> list N.

  (* the loaded transactions of a successful run: parsed from the text, every one accepted and Balanced *)
  Lemma prepare_balanced cfg j p st : run_prepare H cfg j p = Ok st ->
    exists pts, parse_journal (rc_journal cfg) j = Ok pts
      /\ Forall (fun pt => Accept_spec.raw_wf (ptxn_raw pt) /\ Accept_spec.must_reject (ptxn_raw pt) = false) pts
      /\ Forall (fun t => exists pt, In pt pts /\ accepted_from pt t
                                     /\ Accept_spec.Balanced (ptxn_raw pt) (map jp_p (jt_posts t))) (rs_sel st).
  Proof.
    intros Hp. destruct (prepare_inv H _ _ _ _ Hp) as (js & _ & Hl & Hs & _).
    destruct (load_inv _ _ _ Hl) as [Hl' _].
    destruct (load_journal_ok _ _ _ Hl') as (pts & ts0 & Hpj & HF & _ & Hperm & _).
    pose proof (parse_journal_raw_wf _ _ _ Hpj) as Hw. rewrite Forall_forall in Hw.
    exists pts. split; [exact Hpj|]. split.
    - apply Forall_forall. intros pt Hin. split; [apply Hw; exact Hin|].
      destruct (Forall2_In_split _ _ _ _ HF Hin) as (_ & t & _ & _ & Ha).
      unfold accept_ptxn in Ha. destruct (accept_txn (ptxn_raw pt)) as [ps|e] eqn:Ea; [|discriminate].
      eapply not_must_reject; [apply Hw; exact Hin|exact Ea].
    - apply Forall_forall. intros t Hin. rewrite Hs in Hin. apply run_filter_incl in Hin.
      apply (Permutation_in _ Hperm) in Hin. destruct (Forall2_in_r _ _ _ _ HF Hin) as (pt & Hpt & Ha).
      exists pt. split; [exact Hpt|]. apply accept_ptxn_inv; [apply Hw; exact Hpt|exact Ha].
  Qed.

  (* T08_output_only_from_balanced *)
  Lemma output_only_from_balanced cfg j p out : run_console H cfg j p = Ok out ->
    exists st pts,
      run_prepare H cfg j p = Ok st /\ parse_journal (rc_journal cfg) j = Ok pts
      /\ Forall (fun pt => Accept_spec.must_reject (ptxn_raw pt) = false) pts
      /\ Forall (fun tx => exists pt, In pt pts /\ t_hdr tx = pt_hdr pt
                                      /\ accept_txn (ptxn_raw pt) = Ok (t_posts tx)
                                      /\ Accept_spec.Balanced (ptxn_raw pt) (t_posts tx)) (rs_txns st).
  Proof.
    intros Hr. destruct (console_inv H _ _ _ _ Hr) as (st & Hp & _).
    destruct (prepare_balanced _ _ _ _ Hp) as (pts & Hpj & Hw & Hb).
    exists st, pts. split; [exact Hp|]. split; [exact Hpj|]. split.
    - eapply Forall_impl; [|exact Hw]. intros pt [_ Hm]. exact Hm.
    - unfold rs_txns. apply Forall_forall. intros tx Hin. apply in_map_iff in Hin. destruct Hin as (t & <- & Hin).
      rewrite Forall_forall in Hb. destruct (Hb _ Hin) as (pt & Hpt & (Hh & Ha) & Hbal).
      exists pt. unfold txn_of. cbn [t_hdr t_posts]. repeat split; assumption.
  Qed.
End C01.

(* ================================================================== 2. the embedded reports *)
Lemma jtxn_leb_txn_of a b : jtxn_leb a b = txn_leb (txn_of a) (txn_of b).
Proof. reflexivity. Qed.
Lemma jtxn_leb_total a b : jtxn_leb a b = false -> jtxn_leb b a = true.
Proof. rewrite !jtxn_leb_txn_of. apply Order_proofs.txn_leb_total. Qed.
Lemma jtxn_leb_trans a b c : jtxn_leb a b = true -> jtxn_leb b c = true -> jtxn_leb a c = true.
Proof. rewrite !jtxn_leb_txn_of. apply Order_proofs.txn_leb_trans. Qed.

Lemma run_filter_sorted cfg js :
  StronglySorted (fun a b => jtxn_leb a b = true) js -> StronglySorted (fun a b => jtxn_leb a b = true) (run_filter cfg js).
Proof.
  unfold run_filter. destruct (rc_filter cfg) as [[f pats]|]; [|exact (fun x => x)]. apply StronglySorted_filter.
Qed.

Section Embedded.
  Variable H : list N -> list N.

  (* the transaction set of a run is in canonical order already: TxnData order = report order *)
  Lemma state_sorted cfg j p st : run_prepare H cfg j p = Ok st ->
    StronglySorted (fun a b => txn_leb a b = true) (rs_txns st) /\ sort_txns (rs_txns st) = rs_txns st.
  Proof.
    intros Hp. destruct (prepare_inv H _ _ _ _ Hp) as (js & _ & Hl & Hs & _).
    destruct (load_inv _ _ _ Hl) as [Hl' _].
    destruct (load_journal_ok _ _ _ Hl') as (pts & ts0 & _ & _ & Hjs & _).
    assert (Hsorted : StronglySorted (fun a b => txn_leb a b = true) (rs_txns st)).
    { unfold rs_txns. apply StronglySorted_map. rewrite Hs. apply run_filter_sorted. rewrite Hjs.
      apply sort_by_sorted; [exact jtxn_leb_total|exact jtxn_leb_trans]. }
    split; [exact Hsorted|]. unfold sort_txns. apply sort_by_id. exact Hsorted.
  Qed.

  (* where the report of a target sits, cut into what the report writes before its title (T04) and the
     text from the title on (T01 / T05) *)
  Lemma embedded_report cfg j p out k : run_console H cfg j p = Ok out -> In k (rc_targets cfg) ->
    exists st body, run_prepare H cfg j p = Ok st /\ report_body cfg st k = Some body
      /\ framed (report_head_text H cfg st k ++ body) out.
  Proof.
    intros Hr Hin. destruct (console_embeds H _ _ _ _ _ Hr Hin) as (st & r & pre & post & Hp & Hk & ->).
    unfold report_text in Hk. destruct (conv_overflow cfg st); [discriminate|].
    destruct (report_body cfg st k) as [b|] eqn:Eb; cbn [option_map] in Hk; [|discriminate].
    inversion Hk; subst r. exists st, b. split; [exact Hp|]. split; [exact Eb|]. exists pre, post. reflexivity.
  Qed.

  (* T08_balance_text: C02 + C07 + C17 on the printed balance report *)
  Lemma balance_text cfg j p out : run_console H cfg j p = Ok out -> In MetaText.RBalance (rc_targets cfg) ->
    exists st js,
      run_prepare H cfg j p = Ok st
      /\ load_journal (rc_journal cfg) j = Ok js /\ rs_txns st = map txn_of (run_filter cfg js)
      /\ ((rc_lookup cfg = LtNone /\ rs_file st = [])
          \/ (exists s, p = Some s /\ parse_pricedb (price_cfg cfg) s = Ok (rs_file st)))
      /\ spec_lk cfg = Some (rs_lk st)
      /\ (run_hyp cfg st = true ->
          exists head body, framed (head ++ body) out
            /\ balance_text_spec (rc_title_bal cfg) (rc_scale cfg) (rs_lk st) (rc_commodity cfg) (rs_file st)
                                 (sel_of cfg MetaText.RBalance) (rs_txns st) body).
  Proof.
    intros Hr Hin. destruct (console_balance_figures H _ _ _ _ Hr Hin) as (st & Hp & Hfig).
    destruct (state_from_texts H _ _ _ _ Hp) as ((js & Hl & _ & Htx) & Hpr).
    destruct (state_spec H _ _ _ _ Hp) as [_ Hlk].
    exists st, js. repeat (split; [assumption|]).
    intros Hh. destruct (Hfig Hh) as (pre & head & body & post & -> & Hspec).
    exists head, body. split; [exists pre, post; reflexivity|exact Hspec].
  Qed.

  (* T08_register_order_and_totals: C03 on the printed register *)
  Lemma register_text cfg j p out : run_console H cfg j p = Ok out -> In MetaText.RRegister (rc_targets cfg) ->
    exists st js,
      run_prepare H cfg j p = Ok st
      /\ load_journal (rc_journal cfg) j = Ok js /\ rs_txns st = map txn_of (run_filter cfg js)
      /\ Permutation (sort_txns (rs_txns st)) (rs_txns st) /\ StronglySorted hdr_le (sort_txns (rs_txns st))
      /\ sort_txns (rs_txns st) = rs_txns st
      /\ (run_hyp cfg st = true ->
          exists head body, framed (head ++ body) out
            /\ reg_text_shows (rc_title_reg cfg) (rc_scale cfg)
                 (with_ts_spec (ts_text cfg)
                    (map (listed_rows (sel_of cfg MetaText.RRegister))
                         (spec_centries (spec_conv (rs_lk st) (rc_commodity cfg) (rs_file st)) [] (rs_txns st))))
                 body).
  Proof.
    intros Hr Hin. destruct (console_register_rows H _ _ _ _ Hr Hin) as (st & Hp & Hfig).
    destruct (state_from_texts H _ _ _ _ Hp) as ((js & Hl & _ & Htx) & _).
    destruct (state_sorted _ _ _ _ Hp) as [_ Hid].
    exists st, js. split; [exact Hp|]. split; [exact Hl|]. split; [exact Htx|].
    split; [apply Register_proofs.sort_txns_perm|]. split; [apply Register_proofs.sort_txns_sorted|]. split; [exact Hid|].
    intros Hh. destruct (Hfig Hh) as (pre & head & body & post & -> & Hspec).
    exists head, body. split; [exists pre, post; reflexivity|].
    unfold register_text_spec, spec_register in Hspec. rewrite Hid in Hspec. exact Hspec.
  Qed.
End Embedded.

(* ================================================================== 3. display-only settings: scale (C17), report zone (C16) *)
Lemma sel_same a b : same_selectors a b -> (forall k, sel_of a k = sel_of b k) /\ sel_equity a = sel_equity b.
Proof.
  intros (S1 & S2 & S3 & S4 & S5). split.
  - intros k. unfold sel_of. rewrite S1, S2, S3, S4. reflexivity.
  - unfold sel_equity. rewrite S1, S5. reflexivity.
Qed.

Lemma mapO_total {A B} (f : A -> option B) l : Forall (fun k => exists r, f k = Some r) l -> exists rs, mapO f l = Some rs.
Proof.
  induction 1 as [|k l (r & Hr) _ (rs & IH)]; cbn [mapO]; [eexists; reflexivity|]. rewrite Hr, IH. eexists; reflexivity.
Qed.

Section Display.
  Variable H : list N -> list N.

  Lemma head_same a b st k :
    sel_of a k = sel_of b k -> rc_audit a = rc_audit b -> rc_algo a = rc_algo b -> same_zone a b ->
    rc_commodity a = rc_commodity b -> report_head_text H a st k = report_head_text H b st k.
  Proof.
    intros Hs Ha Hg (Z1 & Z2) Hc. unfold report_head_text, report_prices, rtz. rewrite Hs, Ha, Hg, Z1, Z2, Hc. reflexivity.
  Qed.

  Lemma console_total cfg j p st : run_prepare H cfg j p = Ok st ->
    Forall (fun k => exists r, report_text H cfg st k = Some r) (rc_targets cfg) ->
    exists out, run_console H cfg j p = Ok out.
  Proof.
    intros Hp HF. unfold run_console, console_of, console_with. rewrite Hp. cbn [res_bind].
    destruct (mapO_total _ _ HF) as (rs & Hrs). destruct (rc_targets cfg); [eexists; reflexivity|].
    rewrite Hrs. eexists; reflexivity.
  Qed.

  Lemma console_reports cfg j p out st : run_console H cfg j p = Ok out -> run_prepare H cfg j p = Ok st ->
    Forall (fun k => conv_overflow cfg st = false /\ exists body, report_body cfg st k = Some body) (rc_targets cfg).
  Proof.
    intros Hr Hp. apply Forall_forall. intros k Hin.
    destruct (console_embeds H _ _ _ _ _ Hr Hin) as (st' & r & pre & post & Hp' & Hk & _).
    rewrite Hp in Hp'. inversion Hp'; subst st'. unfold report_text in Hk.
    destruct (conv_overflow cfg st); [discriminate|]. split; [reflexivity|].
    destruct (report_body cfg st k) as [b|]; [exists b; reflexivity|discriminate].
  Qed.

  (* ---------------------------------------------------------------- the report scale *)
  Lemma report_body_scale a b st k body : differ_only_in_scale a b -> report_body a st k = Some body ->
    exists body', report_body b st k = Some body'.
  Proof.
    intros ((I1 & I2 & I3 & I4 & I5 & I6 & I7 & I8) & Hsel & (L1 & L2 & L3 & L4 & L5 & L6 & L7 & L8 & L9 & L10) & (Z1 & Z2)).
    destruct (sel_same _ _ Hsel) as [Hs _].
    unfold report_body, conv_balance_text, conv_balgrp_text, rtz. rewrite <- (Hs k), <- I4, <- L3, <- Z2. destruct k.
    - destruct (conv_balance (rs_lk st) (rc_commodity a) (rs_db st) (sel_of a MetaText.RBalance) (rs_txns st)); cbn [option_map]; [|discriminate].
      intros _. eexists; reflexivity.
    - destruct (conv_balgrp (rc_group_by a) (fun _ => rc_zone_off a) (rs_lk st) (rc_commodity a) (rs_db st) (sel_of a MetaText.RBalGroup) (rs_txns st));
        cbn [option_map]; [|discriminate]. intros _. eexists; reflexivity.
    - intros _. eexists; reflexivity.
  Qed.

  (* T08_scale_display_only *)
  Lemma scale_display_only a b j p out : differ_only_in_scale a b -> run_console H a j p = Ok out ->
    exists st out',
      run_prepare H a j p = Ok st /\ run_prepare H b j p = Ok st /\ run_console H b j p = Ok out'
      /\ (In MetaText.RBalance (rc_targets a) -> run_hyp a st = true -> run_hyp b st = true ->
          exists head body body', framed (head ++ body) out /\ framed (head ++ body') out'
            /\ balance_text_spec (rc_title_bal a) (rc_scale a) (rs_lk st) (rc_commodity a) (rs_file st)
                                 (sel_of a MetaText.RBalance) (rs_txns st) body
            /\ balance_text_spec (rc_title_bal a) (rc_scale b) (rs_lk st) (rc_commodity a) (rs_file st)
                                 (sel_of a MetaText.RBalance) (rs_txns st) body')
      /\ (In MetaText.RRegister (rc_targets a) -> run_hyp a st = true -> run_hyp b st = true ->
          exists head body body', framed (head ++ body) out /\ framed (head ++ body') out'
            /\ register_text_spec (rc_title_reg a) (rc_scale a) (ts_text a) (rs_lk st) (rc_commodity a) (rs_file st)
                                  (sel_of a MetaText.RRegister) (rs_txns st) body
            /\ register_text_spec (rc_title_reg a) (rc_scale b) (ts_text a) (rs_lk st) (rc_commodity a) (rs_file st)
                                  (sel_of a MetaText.RRegister) (rs_txns st) body')
      /\ (In MetaText.RBalGroup (rc_targets a) ->
          exists head gs, framed (head ++ balgrp_txt_report (rc_title_grp a) (rc_scale a) (map text_group gs)) out
            /\ framed (head ++ balgrp_txt_report (rc_title_grp a) (rc_scale b) (map text_group gs)) out'
            /\ conv_balgrp (rc_group_by a) (rtz a) (rs_lk st) (rc_commodity a) (rs_db st)
                           (sel_of a MetaText.RBalGroup) (rs_txns st) = Some gs).
  Proof.
    intros Hd Hr. pose proof Hd as (Hi & Hsel & Hl & Hz).
    pose proof Hi as (I1 & I2 & I3 & I4 & I5 & I6 & I7 & I8).
    pose proof Hl as (L1 & L2 & L3 & L4 & L5 & L6 & L7 & L8 & L9 & L10).
    destruct (sel_same _ _ Hsel) as [Hs _].
    destruct (console_inv H _ _ _ _ Hr) as (st & Hp & _).
    assert (Hpb : run_prepare H b j p = Ok st) by (rewrite <- (prepare_same_inputs H a b j p Hi); exact Hp).
    assert (Hob : exists out', run_console H b j p = Ok out').
    { apply (console_total b j p st Hpb). rewrite <- L1.
      eapply Forall_impl; [|exact (console_reports _ _ _ _ _ Hr Hp)].
      intros k (Ho & body & Hb). destruct (report_body_scale _ _ _ _ _ Hd Hb) as (body' & Hb').
      unfold report_text. replace (conv_overflow b st) with (conv_overflow a st) by (unfold conv_overflow; rewrite I4; reflexivity).
      rewrite Ho, Hb'. eexists; reflexivity. }
    destruct Hob as (out' & Hrb). exists st, out'. split; [exact Hp|]. split; [exact Hpb|]. split; [exact Hrb|].
    assert (Hemb : forall k, In k (rc_targets a) ->
              exists body body', report_body a st k = Some body /\ report_body b st k = Some body'
                /\ framed (report_head_text H a st k ++ body) out /\ framed (report_head_text H a st k ++ body') out').
    { intros k Hin. destruct (embedded_report H _ _ _ _ _ Hr Hin) as (st1 & body & Hp1 & Hb & Hf).
      rewrite Hp in Hp1. inversion Hp1; subst st1.
      assert (Hin' : In k (rc_targets b)) by (rewrite <- L1; exact Hin).
      destruct (embedded_report H _ _ _ _ _ Hrb Hin') as (st2 & body' & Hp2 & Hb' & Hf').
      rewrite Hpb in Hp2. inversion Hp2; subst st2.
      exists body, body'. split; [exact Hb|]. split; [exact Hb'|]. split; [exact Hf|].
      rewrite (head_same a b st k (Hs k) I2 I3 Hz I4). exact Hf'. }
    destruct (state_spec H _ _ _ _ Hp) as [Hdb _].
    split; [|split].
    - intros Hin Hha Hhb. destruct (Hemb _ Hin) as (body & body' & Hb & Hb' & Hf & Hf').
      exists (report_head_text H a st MetaText.RBalance), body, body'. split; [exact Hf|]. split; [exact Hf'|].
      destruct (run_hyp_sound _ _ Hha) as (Hsc & Hdk & Ht1 & _ & _ & Hdom & Hbn & _).
      destruct (run_hyp_sound _ _ Hhb) as (Hsc' & _).
      unfold report_body in Hb, Hb'. rewrite <- (Hs MetaText.RBalance), <- I4, <- L4 in Hb'. rewrite Hdb in Hb, Hb'.
      split; eapply conv_balance_text_shows; eassumption.
    - intros Hin Hha Hhb. destruct (Hemb _ Hin) as (body & body' & Hb & Hb' & Hf & Hf').
      exists (report_head_text H a st MetaText.RRegister), body, body'. split; [exact Hf|]. split; [exact Hf'|].
      destruct (run_hyp_sound _ _ Hha) as (Hsc & Hdk & _ & _ & Ht3 & Hdom & _ & Hrn).
      destruct (run_hyp_sound _ _ Hhb) as (Hsc' & _).
      unfold report_body in Hb, Hb'.
      assert (Hts : ts_text b = ts_text a).
      { unfold ts_text, rtz. destruct Hz as [_ Z2]. rewrite L7, Z2. reflexivity. }
      rewrite <- (Hs MetaText.RRegister), <- I4, <- L6, Hts in Hb'. rewrite Hdb in Hb, Hb'.
      inversion Hb; inversion Hb'. split; apply conv_register_text_shows; assumption.
    - intros Hin. destruct (Hemb _ Hin) as (body & body' & Hb & Hb' & Hf & Hf').
      unfold report_body, conv_balgrp_text in Hb, Hb'.
      assert (Hrtz : rtz b = rtz a) by (unfold rtz; destruct Hz as [_ Z2]; rewrite Z2; reflexivity).
      rewrite <- (Hs MetaText.RBalGroup), <- I4, <- L5, <- L3, Hrtz in Hb'.
      destruct (conv_balgrp (rc_group_by a) (rtz a) (rs_lk st) (rc_commodity a) (rs_db st) (sel_of a MetaText.RBalGroup) (rs_txns st))
        as [gs|]; cbn [option_map] in Hb, Hb'; [|discriminate].
      inversion Hb; inversion Hb'; subst body body'.
      exists (report_head_text H a st MetaText.RBalGroup), gs. split; [exact Hf|]. split; [exact Hf'|reflexivity].
  Qed.
End Display.

Section Zone.
  Variable H : list N -> list N.

  (* T08_report_zone_display_only *)
  Lemma report_zone_display_only a b j p out : differ_only_in_zone a b ->
    run_console H a j p = Ok out ->
    exists out' st,
      run_console H b j p = Ok out'
      /\ run_prepare H a j p = Ok st /\ run_prepare H b j p = Ok st
      (* balance: the text from the title on is byte-identical *)
      /\ (In MetaText.RBalance (rc_targets a) ->
          exists body, report_body a st MetaText.RBalance = Some body /\ report_body b st MetaText.RBalance = Some body
            /\ framed (report_head_text H a st MetaText.RBalance ++ body) out
            /\ framed (report_head_text H b st MetaText.RBalance ++ body) out')
      (* register: the same entries, rows, amounts and running totals; only the time-stamp labels differ *)
      /\ (In MetaText.RRegister (rc_targets a) ->
          let es := conv_register (rs_lk st) (rc_commodity a) (rs_db st) (sel_of a MetaText.RRegister) (rs_txns st) in
          let fw := filler_width (rs_lk st) in
          framed (report_head_text H a st MetaText.RRegister ++ reg_txt_report (rc_title_reg a) (rc_scale a) fw (ts_text a) es) out
          /\ framed (report_head_text H b st MetaText.RRegister ++ reg_txt_report (rc_title_reg a) (rc_scale a) fw (ts_text b) es) out'
          /\ (run_hyp a st = true -> run_hyp b st = true ->
              let sr := spec_register (rs_lk st) (rc_commodity a) (rs_file st) (sel_of a MetaText.RRegister) (rs_txns st) in
              reg_text_shows (rc_title_reg a) (rc_scale a) (with_ts_spec (ts_text a) sr)
                             (reg_txt_report (rc_title_reg a) (rc_scale a) fw (ts_text a) es)
              /\ reg_text_shows (rc_title_reg a) (rc_scale a) (with_ts_spec (ts_text b) sr)
                                (reg_txt_report (rc_title_reg a) (rc_scale a) fw (ts_text b) es)))
      (* balance groups: the period keys (hence the partition) follow the zone; summed over the periods the
         exact figures are the same *)
      /\ (In MetaText.RBalGroup (rc_targets a) ->
          let conv := bal_conv (report_ctx (rs_lk st) (rc_commodity a) (rs_db st) (rs_txns st)) in
          exists gs gs',
            conv_balgrp (rc_group_by a) (rtz a) (rs_lk st) (rc_commodity a) (rs_db st) (sel_of a MetaText.RBalGroup) (rs_txns st) = Some gs
            /\ conv_balgrp (rc_group_by a) (rtz b) (rs_lk st) (rc_commodity a) (rs_db st) (sel_of a MetaText.RBalGroup) (rs_txns st) = Some gs'
            /\ framed (report_head_text H a st MetaText.RBalGroup ++ balgrp_txt_report (rc_title_grp a) (rc_scale a) (map text_group gs)) out
            /\ framed (report_head_text H b st MetaText.RBalGroup ++ balgrp_txt_report (rc_title_grp a) (rc_scale a) (map text_group gs')) out'
            /\ forall k,
                 zsum (map (fun c => spec_own (flat_map conv (snd c)) k)
                           (group_members (txn_key (rc_group_by a) (rtz a)) (sort_txns (rs_txns st))))
                 = zsum (map (fun c => spec_own (flat_map conv (snd c)) k)
                             (group_members (txn_key (rc_group_by a) (rtz b)) (sort_txns (rs_txns st))))).
  Proof.
    intros Hd Hr. pose proof Hd as (Hi & Hsel & Hl & Hsc).
    pose proof Hi as (I1 & I2 & I3 & I4 & I5 & I6 & I7 & I8).
    pose proof Hl as (L1 & L2 & L3 & L4 & L5 & L6 & L7 & L8 & L9 & L10).
    destruct (sel_same _ _ Hsel) as [Hs _].
    destruct (console_inv H _ _ _ _ Hr) as (st & Hp & _).
    assert (Hpb : run_prepare H b j p = Ok st) by (rewrite <- (prepare_same_inputs H a b j p Hi); exact Hp).
    (* the run under the other zone succeeds as well: the preparation does not read the zone, the reports are total *)
    assert (Hob : exists out', run_console H b j p = Ok out').
    { destruct (rc_targets a) as [|k0 ks] eqn:Et.
      - exists []. unfold run_console, console_of, console_with. rewrite Hpb. cbn [res_bind]. rewrite <- L1. reflexivity.
      - apply (T06_total_proofs.console_total_run H b j p st Hpb).
        replace (conv_overflow b st) with (conv_overflow a st) by (unfold conv_overflow; rewrite I4; reflexivity).
        apply (T06_total_proofs.console_ok_no_overflow H a j p out st Hr Hp). rewrite Et. discriminate. }
    destruct Hob as [out' Hrb].
    exists out', st. split; [exact Hrb|]. split; [exact Hp|]. split; [exact Hpb|].
    assert (Hemb : forall k, In k (rc_targets a) ->
              exists body body', report_body a st k = Some body /\ report_body b st k = Some body'
                /\ framed (report_head_text H a st k ++ body) out /\ framed (report_head_text H b st k ++ body') out').
    { intros k Hin. destruct (embedded_report H _ _ _ _ _ Hr Hin) as (st1 & body & Hp1 & Hb & Hf).
      rewrite Hp in Hp1. inversion Hp1; subst st1.
      assert (Hin' : In k (rc_targets b)) by (rewrite <- L1; exact Hin).
      destruct (embedded_report H _ _ _ _ _ Hrb Hin') as (st2 & body' & Hp2 & Hb' & Hf').
      rewrite Hpb in Hp2. inversion Hp2; subst st2.
      exists body, body'. repeat split; assumption. }
    destruct (state_spec H _ _ _ _ Hp) as [Hdb _].
    split; [|split].
    - intros Hin. destruct (Hemb _ Hin) as (body & body' & Hb & Hb' & Hf & Hf').
      assert (body' = body).
      { unfold report_body in Hb, Hb'. rewrite <- (Hs MetaText.RBalance), <- I4, <- L4, <- Hsc, Hb in Hb'. inversion Hb'. reflexivity. }
      subst body'. exists body. repeat split; assumption.
    - intros Hin. cbv zeta. destruct (Hemb _ Hin) as (body & body' & Hb & Hb' & Hf & Hf').
      unfold report_body in Hb, Hb'. rewrite <- (Hs MetaText.RRegister), <- I4, <- L6, <- Hsc in Hb'.
      inversion Hb; inversion Hb'; subst body body'. unfold conv_register_text in Hf, Hf'.
      split; [exact Hf|]. split; [exact Hf'|].
      intros Hha Hhb.
      destruct (run_hyp_sound _ _ Hha) as (Hsca & Hdk & _ & _ & Ht3 & Hdom & _ & Hrn).
      destruct (run_hyp_sound _ _ Hhb) as (_ & _ & _ & _ & _ & _ & _ & Hrn').
      rewrite <- I4 in Hrn'. rewrite Hdb.
      split.
      + exact (conv_register_text_shows (rc_title_reg a) (rc_scale a) (ts_text a) (rs_lk st) (rc_commodity a) (rs_file st)
                 (sel_of a MetaText.RRegister) (rs_txns st) Hsca Hdk Hdom Ht3 Hrn).
      + exact (conv_register_text_shows (rc_title_reg a) (rc_scale a) (ts_text b) (rs_lk st) (rc_commodity a) (rs_file st)
                 (sel_of a MetaText.RRegister) (rs_txns st) Hsca Hdk Hdom Ht3 Hrn').
    - intros Hin. cbv zeta. destruct (Hemb _ Hin) as (body & body' & Hb & Hb' & Hf & Hf').
      unfold report_body, conv_balgrp_text in Hb, Hb'.
      rewrite <- (Hs MetaText.RBalGroup), <- I4, <- L5, <- L3, <- Hsc in Hb'.
      destruct (conv_balgrp (rc_group_by a) (rtz a) (rs_lk st) (rc_commodity a) (rs_db st) (sel_of a MetaText.RBalGroup) (rs_txns st))
        as [gs|]; cbn [option_map] in Hb; [|discriminate].
      destruct (conv_balgrp (rc_group_by a) (rtz b) (rs_lk st) (rc_commodity a) (rs_db st) (sel_of a MetaText.RBalGroup) (rs_txns st))
        as [gs'|]; cbn [option_map] in Hb'; [|discriminate].
      inversion Hb; inversion Hb'; subst body body'.
      exists gs, gs'. split; [reflexivity|]. split; [reflexivity|]. split; [exact Hf|]. split; [exact Hf'|].
      intros k. rewrite !Group_proofs.sum_over_groups. reflexivity.
  Qed.
End Zone.

(* ================================================================== 4. C04: the output is a function of the transaction set *)
Definition jlt (a b : jtxn) : Prop := header_cmp (jt_hdr a) (jt_hdr b) = Lt.

Lemma jdistinct_perm l l' : Permutation l l' -> jdistinct l -> jdistinct l'.
Proof.
  intros Hp [Hnd Hinj]. split.
  - apply (Permutation_NoDup Hp Hnd).
  - intros a b Ha Hb. apply Hinj; apply (Permutation_in _ (Permutation_sym Hp)); assumption.
Qed.

Lemma jsorted_le_lt l : jdistinct l -> StronglySorted (fun a b => jtxn_leb a b = true) l -> StronglySorted jlt l.
Proof.
  intros [Hnd Hinj] Hs. induction Hs as [|x l Hs IH Hf]; [constructor|].
  inversion Hnd as [|? ? Hni Hnd']; subst. constructor.
  - apply IH; [exact Hnd'|]. intros a b Ha Hb. apply Hinj; right; assumption.
  - rewrite Forall_forall in *. intros y Hy. specialize (Hf y Hy).
    unfold jtxn_leb in Hf. unfold jlt.
    destruct (header_cmp (jt_hdr x) (jt_hdr y)) eqn:E; [|reflexivity|discriminate].
    exfalso. apply Hni. rewrite (Hinj x y (or_introl eq_refl) (or_intror Hy) E). exact Hy.
Qed.

Lemma jlt_asym a b : jlt a b -> jlt b a -> False.
Proof.
  unfold jlt. intros H1 H2. rewrite (co_opp _ Order_proofs.header_cmp_ord) in H2. rewrite H1 in H2. discriminate.
Qed.

Lemma jsort_perm_eq l l' : Permutation l l' -> jdistinct l -> sort_by jtxn_leb l = sort_by jtxn_leb l'.
Proof.
  intros Hp Hd. apply (sorted_perm_unique jlt jlt_asym).
  - apply jsorted_le_lt; [|apply sort_by_sorted; [exact jtxn_leb_total|exact jtxn_leb_trans]].
    apply (jdistinct_perm l); [apply Permutation_sym, sort_by_perm|exact Hd].
  - apply jsorted_le_lt; [|apply sort_by_sorted; [exact jtxn_leb_total|exact jtxn_leb_trans]].
    apply (jdistinct_perm l); [|exact Hd]. transitivity l'; [exact Hp|apply Permutation_sym, sort_by_perm].
  - transitivity l; [apply sort_by_perm|]. transitivity l'; [exact Hp|apply Permutation_sym, sort_by_perm].
Qed.

Lemma load_journal_of_parts cfg s pts ts0 : parse_journal cfg s = Ok pts -> mapM accept_ptxn pts = Ok ts0 ->
  load_journal cfg s = Ok (sort_by jtxn_leb ts0).
Proof. intros Hp Hm. unfold load_journal. rewrite Hp. cbn [res_bind]. rewrite Hm. reflexivity. Qed.

Section C04.
  Variable H : list N -> list N.

  Lemma run_same_load cfg j j' p : load_journal (rc_journal cfg) j = load_journal (rc_journal cfg) j' ->
    run_console H cfg j p = run_console H cfg j' p /\ run_files H cfg j p = run_files H cfg j' p.
  Proof.
    intros He. assert (Hp : run_prepare H cfg j p = run_prepare H cfg j' p).
    { unfold run_prepare, load. rewrite He. reflexivity. }
    unfold run_console, run_files. rewrite Hp. split; reflexivity.
  Qed.

  (* T08_set_function: two journal texts holding the same pairwise distinguishable transactions in any order *)
  Lemma set_function cfg j j' p pts pts' ts ts' :
    parse_journal (rc_journal cfg) j = Ok pts -> mapM accept_ptxn pts = Ok ts ->
    parse_journal (rc_journal cfg) j' = Ok pts' -> mapM accept_ptxn pts' = Ok ts' ->
    Permutation ts ts' -> jdistinct ts ->
    run_console H cfg j p = run_console H cfg j' p /\ run_files H cfg j p = run_files H cfg j' p.
  Proof.
    intros P1 M1 P2 M2 Hperm Hd. apply run_same_load.
    rewrite (load_journal_of_parts _ _ _ _ P1 M1), (load_journal_of_parts _ _ _ _ P2 M2), (jsort_perm_eq _ _ Hperm Hd). reflexivity.
  Qed.

  Lemma run_filter_perm cfg l l' : Permutation l l' -> Permutation (run_filter cfg l) (run_filter cfg l').
  Proof.
    unfold run_filter. destruct (rc_filter cfg) as [[f pats]|]; [|exact (fun x => x)]. apply filter_perm.
  Qed.

  (* ... and without the distinctness hypothesis: the exact figures behind the balance rows are the same *)
  Lemma set_function_numbers cfg j j' p pts pts' ts ts' st st' :
    parse_journal (rc_journal cfg) j = Ok pts -> mapM accept_ptxn pts = Ok ts ->
    parse_journal (rc_journal cfg) j' = Ok pts' -> mapM accept_ptxn pts' = Ok ts' ->
    Permutation ts ts' ->
    run_prepare H cfg j p = Ok st -> run_prepare H cfg j' p = Ok st' ->
    rs_file st = rs_file st' /\ rs_lk st = rs_lk st' /\ Permutation (rs_txns st) (rs_txns st')
    /\ (let ps := spec_bposts (rs_lk st) (rc_commodity cfg) (rs_file st) (rs_txns st) in
        let ps' := spec_bposts (rs_lk st') (rc_commodity cfg) (rs_file st') (rs_txns st') in
        forall k, spec_own ps k = spec_own ps' k /\ spec_tree ps k = spec_tree ps' k).
  Proof.
    intros P1 M1 P2 M2 Hperm Hp Hp'.
    destruct (prepare_inv H _ _ _ _ Hp) as (js & Hs & Hl & Hsel & _).
    destruct (prepare_inv H _ _ _ _ Hp') as (js' & Hs' & Hl' & Hsel' & _).
    rewrite Hs in Hs'. injection Hs' as E1 E2 E3.
    destruct (load_inv _ _ _ Hl) as [Hlj _]. destruct (load_inv _ _ _ Hl') as [Hlj' _].
    rewrite (load_journal_of_parts _ _ _ _ P1 M1) in Hlj. rewrite (load_journal_of_parts _ _ _ _ P2 M2) in Hlj'.
    injection Hlj as <-. injection Hlj' as <-.
    assert (Hpt : Permutation (rs_txns st) (rs_txns st')).
    { unfold rs_txns. apply Permutation_map. rewrite Hsel, Hsel'. apply run_filter_perm.
      transitivity ts; [apply sort_by_perm|]. transitivity ts'; [exact Hperm|apply Permutation_sym, sort_by_perm]. }
    split; [exact E1|]. split; [exact E2|]. split; [exact Hpt|].
    cbv zeta. intros k. rewrite <- E1, <- E2.
    pose proof (spec_bposts_perm (rs_lk st) (rc_commodity cfg) (rs_file st) _ _ Hpt) as Hbp.
    split; [apply T05_proofs.spec_own_perm|apply T05_proofs.spec_tree_perm]; exact Hbp.
  Qed.

  (* T08_set_function_checksum: ... and the metadata of the set (audit checksum, set size, filter description) is the
     same, with no distinguishability assumption (C09_perm lifted to the run) *)
  Lemma make_items_perm audit algo flt us us' : Permutation us us' ->
    MetaText.make_items H audit algo None flt us = MetaText.make_items H audit algo None flt us'.
  Proof.
    intros Hp. unfold MetaText.make_items, MetaText.make_metadata.
    rewrite (Audit_proofs.c09_metadata_perm H audit us us' Hp). reflexivity.
  Qed.

  Lemma set_function_checksum cfg j j' p pts pts' ts ts' st st' :
    parse_journal (rc_journal cfg) j = Ok pts -> mapM accept_ptxn pts = Ok ts ->
    parse_journal (rc_journal cfg) j' = Ok pts' -> mapM accept_ptxn pts' = Ok ts' ->
    Permutation ts ts' ->
    run_prepare H cfg j p = Ok st -> run_prepare H cfg j' p = Ok st' ->
    rs_md st = rs_md st' /\ length (rs_sel st) = length (rs_sel st').
  Proof.
    intros P1 M1 P2 M2 Hperm Hp Hp'.
    destruct (prepare_inv H _ _ _ _ Hp) as (js & _ & Hl & Hsel & _ & Hm).
    destruct (prepare_inv H _ _ _ _ Hp') as (js' & _ & Hl' & Hsel' & _ & Hm').
    destruct (load_inv _ _ _ Hl) as [Hlj _]. destruct (load_inv _ _ _ Hl') as [Hlj' _].
    rewrite (load_journal_of_parts _ _ _ _ P1 M1) in Hlj. rewrite (load_journal_of_parts _ _ _ _ P2 M2) in Hlj'.
    injection Hlj as <-. injection Hlj' as <-.
    assert (Hps : Permutation (rs_sel st) (rs_sel st')).
    { rewrite Hsel, Hsel'. apply run_filter_perm.
      transitivity ts; [apply sort_by_perm|]. transitivity ts'; [exact Hperm|apply Permutation_sym, sort_by_perm]. }
    split; [|apply Permutation_length; exact Hps].
    rewrite (make_items_perm _ _ _ _ (map uuid_of (rs_sel st')) (Permutation_map uuid_of Hps)) in Hm.
    rewrite Hm in Hm'. injection Hm' as E. exact E.
  Qed.
End C04.

(* ================================================================== 5. C05: the filter; C09: the checksum item *)
Lemma join_nl_cons2 x y l : MetaText.join_nl (x :: y :: l) = x ++ MetaText.ch_nl :: MetaText.join_nl (y :: l).
Proof. reflexivity. Qed.

(* the metadata of a run without git input: [checksum item] ++ [filter item] *)
Lemma run_items_shape H audit algo flt us md : MetaText.make_items H audit algo None flt us = Ok md ->
  exists cs, Audit.make_metadata H audit us = Ok cs /\ (cs <> None <-> audit = true)
    /\ match md with
       | Some items => items = MetaText.opt_list (option_map (MetaText_proofs.cs_item algo) cs)
                               ++ MetaText.opt_list (option_map MetaText.IFilter flt)
       | None => cs = None /\ flt = None
       end.
Proof.
  intros Hm. destruct (MetaText_proofs.mt_make_items_shape _ _ _ _ _ _ _ Hm) as (cs & Hc & Ha & Hsh).
  exists cs. split; [exact Hc|]. split; [exact Ha|]. destruct md as [items|]; [exact Hsh|]. destruct Hsh as (_ & A & B). split; assumption.
Qed.

Lemma uuid_sel_wf (sel : list jtxn) : Audit_proofs.c09_sel_wf (map uuid_of sel).
Proof.
  intros u Hin. apply in_map_iff in Hin. destruct Hin as (t & Hu & _). unfold uuid_of in Hu.
  destruct (h_uuid (jt_hdr t)) as [s|]; [|discriminate].
  destruct (Audit_proofs.c09_case_thm s) as [_ Hc]. destruct (Hc u Hu) as (Hwf & _). exact Hwf.
Qed.

Section C05_C09.
  Variable H : list N -> list N.

  (* T08_filter_exact *)
  Lemma filter_exact cfg j p st f pats : run_prepare H cfg j p = Ok st -> rc_filter cfg = Some (f, pats) ->
    exists js,
      load_journal (rc_journal cfg) j = Ok js
      /\ StronglySorted (fun a b => jtxn_leb a b = true) js
      /\ rs_sel st = filter (fun t => Filter.eval (re_table pats) f (ftxn_of t)) js
      /\ rs_txns st = map txn_of (rs_sel st)
      /\ (Filter_spec.filter_wf f -> Forall Filter_spec.ftxn_wf (map ftxn_of js) ->
          Filter_spec.Selects (Filter_spec.sat (re_table pats) f) (map ftxn_of js) (map ftxn_of (rs_sel st)))
      /\ exists items, rs_md st = Some (items ++ [MetaText.IFilter (MetaText.filter_lines (describe_def_tz (rc_zone_off cfg) (to_cfilter pats f)))]).
  Proof.
    intros Hp Hf. destruct (prepare_inv H _ _ _ _ Hp) as (js & _ & Hl & Hs & _ & Hm).
    destruct (load_inv _ _ _ Hl) as [Hl' _].
    destruct (load_journal_ok _ _ _ Hl') as (pts & ts0 & _ & _ & Hjs & _).
    exists js. split; [exact Hl'|]. split; [rewrite Hjs; apply sort_by_sorted; [exact jtxn_leb_total|exact jtxn_leb_trans]|].
    assert (Hsel : rs_sel st = filter (fun t => Filter.eval (re_table pats) f (ftxn_of t)) js).
    { rewrite Hs. unfold run_filter. rewrite Hf. reflexivity. }
    split; [exact Hsel|]. split; [reflexivity|]. split.
    - intros Hwf Hall. rewrite Hsel, <- (filter_map_comm (Filter.eval (re_table pats) f) ftxn_of js).
      apply Filter_proofs.c05_filter_exact; assumption.
    - destruct (run_items_shape _ _ _ _ _ _ Hm) as (cs & _ & _ & Hsh). unfold filter_desc in Hsh. rewrite Hf in Hsh. cbn [option_map fst snd] in Hsh.
      destruct (rs_md st) as [items|]; [|destruct Hsh as [_ Hx]; discriminate].
      eexists. rewrite Hsh. reflexivity.
  Qed.

  (* T08_filter_partition: the run with a filter and the run with its negation split the loaded set *)
  Lemma filter_partition a b j p sta stb f pats :
    rc_journal a = rc_journal b ->
    rc_filter a = Some (f, pats) -> rc_filter b = Some (Filter.FNot f, pats) ->
    run_prepare H a j p = Ok sta -> run_prepare H b j p = Ok stb ->
    exists js,
      load_journal (rc_journal a) j = Ok js
      /\ Filter_spec.Interleave (rs_sel sta) (rs_sel stb) js
      /\ (length (rs_sel sta) + length (rs_sel stb) = length js)%nat
      /\ (forall x, In x js -> (In x (rs_sel sta) /\ ~ In x (rs_sel stb)) \/ (In x (rs_sel stb) /\ ~ In x (rs_sel sta)))
      /\ rs_txns sta = map txn_of (rs_sel sta) /\ rs_txns stb = map txn_of (rs_sel stb).
  Proof.
    intros Hj Hfa Hfb Hpa Hpb.
    destruct (filter_exact _ _ _ _ _ _ Hpa Hfa) as (js & Hl & _ & Hsa & Hta & _).
    destruct (filter_exact _ _ _ _ _ _ Hpb Hfb) as (js' & Hl' & _ & Hsb & Htb & _).
    rewrite <- Hj, Hl in Hl'. injection Hl' as <-.
    exists js. split; [exact Hl|].
    assert (HI : Filter_spec.Interleave (rs_sel sta) (rs_sel stb) js).
    { rewrite Hsa, Hsb. cbn [Filter.eval]. apply Filter_proofs.c05_filter_interleave. }
    split; [exact HI|]. split; [apply Filter_proofs.c05_interleave_length; exact HI|].
    split; [|split; assumption].
    intros x Hx. rewrite Hsa, Hsb, !filter_In. cbn [Filter.eval].
    destruct (Filter.eval (re_table pats) f (ftxn_of x)); [left|right]; cbn [negb]; split; try tauto;
      intros [_ Hd]; discriminate.
  Qed.

  (* ... and the block printed in front of the reports ends with the description of that filter *)
  Lemma filter_in_output cfg j p out f pats : run_console H cfg j p = Ok out -> rc_targets cfg <> [] ->
    rc_filter cfg = Some (f, pats) ->
    exists items rest,
      out = MetaText.meta_text (items ++ [MetaText.IFilter (MetaText.filter_lines (describe_def_tz (rc_zone_off cfg) (to_cfilter pats f)))])
            ++ [10%N] ++ rest.
  Proof.
    intros Hr Ht Hf. destruct (console_structure H _ _ _ _ Hr Ht) as (st & rs & Hp & _ & _ & ->).
    destruct (filter_exact _ _ _ _ _ _ Hp Hf) as (_ & _ & _ & _ & _ & _ & items & Hmd). rewrite Hmd.
    eexists items, _. rewrite <- app_assoc. reflexivity.
  Qed.

  (* T08_checksum_in_output *)
  Lemma checksum_in_output cfg j p out : run_console H cfg j p = Ok out -> rc_audit cfg = true -> rc_targets cfg <> [] ->
    exists st us P rest,
      run_prepare H cfg j p = Ok st
      /\ map uuid_of (rs_sel st) = map Some us /\ NoDup us /\ Forall Audit_spec.uuid_wf us
      /\ Audit_spec.is_preimage (Audit_spec.uuid_texts us) P
      /\ out = MetaText.s_txn_set ++ [10%N]
               ++ (MetaText.pad_left MetaText.item_pad (rc_algo cfg) ++ MetaText.s_sep ++ MetaText.hex_text (H P)) ++ [10%N]
               ++ MetaText.kv MetaText.s_set_size (Codec.show_N (N.of_nat (length (rs_sel st)))) ++ [10%N] ++ rest.
  Proof.
    intros Hr Ha Ht. destruct (console_structure H _ _ _ _ Hr Ht) as (st & rs & Hp & Hm & _ & ->).
    destruct (run_items_shape _ _ _ _ _ _ Hm) as (cs & Hc & Hcs & Hsh). rewrite Ha in Hc, Hcs.
    pose proof (Audit_proofs.c09_metadata_spec H _ (uuid_sel_wf (rs_sel st))) as Hspec. rewrite Hc in Hspec.
    destruct cs as [[n v]|]; [|exfalso; apply (proj2 Hcs); reflexivity].
    cbn [Audit_spec.Checksum_spec] in Hspec. destruct Hspec as (us & Hus & Hnd & Hn & P & HP & Hv).
    destruct (rs_md st) as [items|]; [|destruct Hsh as [Hx _]; discriminate].
    subst n v. rewrite map_length in Hsh.
    exists st, us, P.
    exists (MetaText.join_nl ([] :: MetaText.md_lines (MetaText.opt_list (option_map MetaText.IFilter (filter_desc cfg))))
            ++ [10%N] ++ concat (map (fun r => (repeat 42%N 82 ++ [10%N]) ++ r ++ (repeat 35%N 82 ++ [10%N])) rs)).
    split; [exact Hp|]. split; [exact Hus|]. split; [exact Hnd|].
    split; [apply Audit_proofs.c09_sel_wf_somes; rewrite <- Hus; apply uuid_sel_wf|]. split; [exact HP|].
    rewrite Hsh. unfold MetaText_proofs.cs_item. cbn [option_map MetaText.opt_list fst snd app].
    unfold MetaText.meta_text, MetaText.md_lines. cbn [flat_map MetaText.item_lines MetaText.ck_algo MetaText.ck_value app].
    rewrite !join_nl_cons2. unfold MetaText.kv at 1, MetaText.ch_nl.
    repeat (progress (rewrite <- ?app_assoc; cbn [app])). reflexivity.
  Qed.

  (* a transaction without uuid anywhere in the journal: no output at all (also when a filter would drop it) *)
  Lemma missing_uuid_no_output cfg j p js : load_journal (rc_journal cfg) j = Ok js -> rc_audit cfg = true ->
    (exists t, In t js /\ h_uuid (jt_hdr t) = None) ->
    exists c, run_console H cfg j p = Err c /\ run_files H cfg j p = Err c.
  Proof. intros Hl Ha Hex. destruct (error_no_output H cfg j p) as (_ & _ & Hu & _). exact (Hu js Hl Ha Hex). Qed.

  (* a duplicate uuid among the SELECTED transactions: no output at all *)
  Lemma duplicate_uuid_no_output cfg j p js : load_journal (rc_journal cfg) j = Ok js -> rc_audit cfg = true ->
    ~ NoDup (map uuid_of (run_filter cfg js)) ->
    exists c, run_console H cfg j p = Err c /\ run_files H cfg j p = Err c.
  Proof.
    intros Hl Ha Hdup. destruct (run_prepare H cfg j p) as [st|c] eqn:Ep; [|exists c; apply prepare_err_run; exact Ep].
    exfalso. destruct (prepare_inv H _ _ _ _ Ep) as (js' & _ & Hl' & Hs & _ & Hm).
    destruct (load_inv _ _ _ Hl') as [Hl'' _]. rewrite Hl in Hl''. injection Hl'' as <-.
    destruct (run_items_shape _ _ _ _ _ _ Hm) as (cs & Hc & _). rewrite Ha, Hs in Hc.
    destruct (Audit_proofs.c09_dup_rejected H _ (uuid_sel_wf (run_filter cfg js)) (or_intror Hdup)) as (e & He).
    rewrite He in Hc. discriminate.
  Qed.
End C05_C09.

(* ================================================================== 6. C15: all or nothing *)
Section C15.
  Variable H : list N -> list N.

  Lemma run_ok_prepare cfg j p :
    (forall out, run_console H cfg j p = Ok out -> exists st, run_prepare H cfg j p = Ok st)
    /\ (forall fa, run_files H cfg j p = Ok fa -> exists st, run_prepare H cfg j p = Ok st).
  Proof.
    split.
    - intros out Hr. destruct (console_inv H _ _ _ _ Hr) as (st & Hp & _). exists st. exact Hp.
    - intros fa. unfold run_files. destruct (run_prepare H cfg j p) as [st|c]; [intros _; exists st; reflexivity|discriminate].
  Qed.

  (* T08_all_or_nothing_text *)
  Lemma all_or_nothing_text cfg j p :
    (* result or error *)
    ((exists out, run_console H cfg j p = Ok out) \/ (exists c, run_console H cfg j p = Err c))
    (* any output at all: the WHOLE journal text is transactions, each chunk one complete accepted transaction *)
    /\ ((exists out, run_console H cfg j p = Ok out) \/ (exists fa, run_files H cfg j p = Ok fa) ->
        exists ls0 pts ts0,
          split_lines j = (ls0, []) /\ j = unlines ls0
          /\ concat (chunks (map strip_cr ls0)) = filter (fun l => negb (is_blank l)) (map strip_cr ls0)
          /\ Forall2 (fun c pt => parse_chunk (rc_journal cfg) c = Some pt) (chunks (map strip_cr ls0)) pts
          /\ Forall2 (fun pt t => accept_ptxn pt = Ok t) pts ts0
          /\ load_journal (rc_journal cfg) j = Ok (sort_by jtxn_leb ts0))
    (* one chunk that is not a complete transaction: no output in either mode *)
    /\ (forall ls0 tl c, split_lines j = (ls0, tl) -> In c (chunks (map strip_cr ls0)) ->
        parse_chunk (rc_journal cfg) c = None ->
        exists e, run_console H cfg j p = Err e /\ run_files H cfg j p = Err e)
    (* one transaction the semantic layer refuses: no output in either mode *)
    /\ (forall pts pt e, parse_journal (rc_journal cfg) j = Ok pts -> In pt pts -> accept_ptxn pt = Err e ->
        exists e', run_console H cfg j p = Err e' /\ run_files H cfg j p = Err e').
  Proof.
    destruct (error_no_output H cfg j p) as (Herr & _).
    split; [|split; [|split]].
    - destruct (run_console H cfg j p) as [out|c]; [left; exists out; reflexivity|right; exists c; reflexivity].
    - intros Hok. assert (Hst : exists st, run_prepare H cfg j p = Ok st).
      { destruct Hok as [(out & Hr)|(fa & Hr)]; [apply (proj1 (run_ok_prepare cfg j p) _ Hr)|apply (proj2 (run_ok_prepare cfg j p) _ Hr)]. }
      destruct Hst as (st & Hp). destruct (prepare_inv H _ _ _ _ Hp) as (js & _ & Hl & _).
      destruct (load_inv _ _ _ Hl) as [Hl' _].
      destruct (load_journal_ok _ _ _ Hl') as (pts & ts0 & Hpj & HF & Hjs & _).
      destruct (no_partial_consumption _ _ _ Hpj) as (ls0 & Hsp & Hun & (_ & Hcc & _ & _ & HF2) & _).
      exists ls0, pts, ts0. rewrite <- Hjs. repeat split; assumption.
    - intros ls0 tl c Hsp Hin Hc. pose proof (incomplete_rejected _ _ _ _ _ Hsp Hin Hc) as Hpj.
      apply (Herr E_syntax). unfold load_journal. rewrite Hpj. reflexivity.
    - intros pts pt e Hpj Hin He. destruct (load_journal_bad_txn _ _ _ _ _ Hpj Hin He) as (e' & Hl).
      apply (Herr e'). exact Hl.
  Qed.
End C15.

(* ================================================================== 7. file mode: C10 (equity file), C06 (identity file) *)
Lemma Forall2_In_combine {A B} (P : A -> B -> Prop) l rs k : Forall2 P l rs -> In k l ->
  exists r, In (k, r) (combine l rs) /\ P k r.
Proof.
  induction 1 as [|x y l rs Hxy _ IH]; intros Hin; [destruct Hin|]. destruct Hin as [->|Hin].
  - exists y. split; [left; reflexivity|exact Hxy].
  - destruct (IH Hin) as (r & Hr & Hp). exists r. split; [right; exact Hr|exact Hp].
Qed.

Lemma sorted_b_of_strongly {A} (leb : A -> A -> bool) l :
  StronglySorted (fun a b => leb a b = true) l -> Journal_spec.sorted_b leb l = true.
Proof.
  induction 1 as [|x l Hs IH Hf]; [reflexivity|]. destruct l as [|y l']; [reflexivity|].
  change (leb x y && Journal_spec.sorted_b leb (y :: l') = true). inversion Hf as [|? ? Hxy _]; subst. rewrite Hxy, IH. reflexivity.
Qed.

Lemma forallb_sub {A} (p : A -> bool) l l' : (forall x, In x l' -> In x l) -> forallb p l = true -> forallb p l' = true.
Proof.
  intros Hsub Hall. apply forallb_forall. intros x Hx. rewrite forallb_forall in Hall. apply Hall, Hsub, Hx.
Qed.

Section FileMode.
  Variable H : list N -> list N.

  (* the content of an export file of a successful run *)
  Lemma export_in_files cfg j p files ann x : run_files H cfg j p = Ok (files, ann) -> In x (rc_exports cfg) ->
    exists st c, run_prepare H cfg j p = Ok st /\ export_file H cfg st x = Some c
      /\ In (file_name cfg (export_name x) ext_txn, c) files.
  Proof.
    intros Hr Hin. destruct (files_structure H _ _ _ _ _ Hr) as (st & reps & exps & Hp & _ & HFx & Hf & _).
    destruct (Forall2_In_combine _ _ _ _ HFx Hin) as (c & Hc & Hx).
    exists st, c. split; [exact Hp|]. split; [exact Hx|]. rewrite Hf. apply in_or_app. right.
    apply in_map_iff. exists (x, c). split; [reflexivity|exact Hc].
  Qed.

  (* T08_equity_file_carries *)
  Lemma equity_file_carries cfg j p files ann : run_files H cfg j p = Ok (files, ann) -> In XEquity (rc_exports cfg) ->
    let eqa := rc_eq_account cfg in
    let ras := equity_ras (sel_equity cfg) in
    let warn := EquityText.default_warn_lines in
    exists st es,
      let md := MetaText.equity_md (rs_md st) (MetaText.sel_item H (rc_audit cfg) true (rc_algo cfg) (sel_pats (sel_equity cfg))) in
      run_prepare H cfg j p = Ok st
      /\ Equity.equity (fun _ => true) eqa ras (rs_txns st) = Some es
      /\ In (file_name cfg (export_name XEquity) ext_txn, EquityText.print_equity md warn es) files
      /\ (Equity_spec.txns_wf (rs_txns st) ->
          Equity_spec.Shape eqa ras (rs_txns st) es
          /\ (es <> [] -> EquityText_spec.export_wf md warn es = true ->
              forall cfg', exists jts,
                load_journal cfg' (EquityText.print_equity md warn es) = Ok jts
                /\ EquityText_spec.TextCarries eqa ras md warn (rs_txns st) es jts)).
  Proof.
    intros Hr Hin. cbv zeta. destruct (export_in_files _ _ _ _ _ _ Hr Hin) as (st & c & Hp & Hx & Hf).
    cbn [export_file] in Hx. unfold equity_file in Hx.
    destruct (Equity.equity (fun _ => true) (rc_eq_account cfg) (equity_ras (sel_equity cfg)) (rs_txns st)) as [es|] eqn:Ee;
      cbn [option_map] in Hx; [|discriminate]. injection Hx as <-.
    exists st, es. split; [exact Hp|]. split; [exact Ee|]. split; [exact Hf|].
    intros Hwf. split; [eapply Equity_proofs.equity_shape; eassumption|].
    intros Hne Hewf cfg'. eapply EquityText_proofs.text_carries_balances; eassumption.
  Qed.

  (* ... and when the export is well formed: conditions on the source and the configuration (T02_export_wf, T04_equity_md_wf_git) *)
  Lemma equity_file_wf cfg j p st es : run_prepare H cfg j p = Ok st ->
    Equity.equity (fun _ => true) (rc_eq_account cfg) (equity_ras (sel_equity cfg)) (rs_txns st) = Some es ->
    Equity_spec.txns_wf (rs_txns st) -> forallb EquityText_spec.src_txn_ok (rs_txns st) = true ->
    EquityText_spec.eq_acct_ok (rc_eq_account cfg) = true -> EquityText_spec.amounts_fit es = true ->
    MetaText_spec.eolf (rc_algo cfg) = true ->
    (forall ls, filter_desc cfg = Some ls -> forallb MetaText_spec.eolf ls = true) ->
    EquityText_spec.export_wf
      (MetaText.equity_md (rs_md st) (MetaText.sel_item H (rc_audit cfg) true (rc_algo cfg) (sel_pats (sel_equity cfg))))
      EquityText.default_warn_lines es = true.
  Proof.
    intros Hp He Hwf Hsrc Heq Hfit Halgo Hflt. destruct (prepare_inv H _ _ _ _ Hp) as (js & _ & _ & _ & _ & Hm).
    eapply EquityText_proofs.export_wf_of_source; try eassumption.
    - eapply MetaText_proofs.mt_equity_md_wf_model; [exact Hm|exact Halgo|discriminate|exact Hflt].
    - exact EquityText_proofs.default_warn_wf.
  Qed.

  (* T08_identity_file_roundtrip *)
  Lemma identity_file_roundtrip cfg j p files ann : run_files H cfg j p = Ok (files, ann) -> In XIdentity (rc_exports cfg) ->
    exists st js,
      run_prepare H cfg j p = Ok st /\ load_journal (rc_journal cfg) j = Ok js /\ rs_sel st = run_filter cfg js
      /\ In (file_name cfg (export_name XIdentity) ext_txn, print_journal (rs_sel st)) files
      /\ (Journal_spec.cfg_ok (rc_journal cfg) = true -> Journal_spec.in_domain js = true ->
          forall cfg',
            load_journal cfg' (print_journal (rs_sel st)) = Ok (rs_sel st)
            /\ forall ts', load_journal cfg' (print_journal (rs_sel st)) = Ok ts' -> print_journal ts' = print_journal (rs_sel st)).
  Proof.
    intros Hr Hin. destruct (export_in_files _ _ _ _ _ _ Hr Hin) as (st & c & Hp & Hx & Hf).
    cbn [export_file] in Hx. injection Hx as <-.
    destruct (prepare_inv H _ _ _ _ Hp) as (js & _ & Hl & Hs & Hne & _).
    destruct (load_inv _ _ _ Hl) as [Hl' _].
    exists st, js. split; [exact Hp|]. split; [exact Hl'|]. split; [exact Hs|]. split; [exact Hf|].
    intros Hcfg Hdom cfg'.
    pose proof (Journal_image_proofs.load_wf _ _ _ Hcfg Hl' Hdom) as Hjw.
    assert (Hw : Journal_spec.journal_wf (rs_sel st) = true).
    { unfold Journal_spec.journal_wf in *. apply andb_true_iff in Hjw. destruct Hjw as [Hjw Hsorted].
      apply andb_true_iff in Hjw. destruct Hjw as [_ Hall].
      apply andb_true_iff. split; [apply andb_true_iff; split|].
      - destruct (rs_sel st); [contradiction|reflexivity].
      - apply (forallb_sub _ js); [|exact Hall]. intros x Hx. rewrite Hs in Hx. eapply run_filter_incl. exact Hx.
      - apply sorted_b_of_strongly. rewrite Hs. apply run_filter_sorted.
        destruct (load_journal_ok _ _ _ Hl') as (pts & ts0 & _ & _ & Hjs & _). rewrite Hjs.
        apply sort_by_sorted; [exact jtxn_leb_total|exact jtxn_leb_trans]. }
    split; [apply Journal_proofs.load_roundtrip; exact Hw|].
    intros ts' Hl2. eapply Journal_proofs.export_fixpoint; eassumption.
  Qed.
End FileMode.

(* ================================================================== 8. C14: the writer model on the files of a run *)
Lemma chunked_disk (files : list (list N * list N)) cks : chunked files cks -> forall pre, length pre = length files ->
  map (fun t : option (list N) * list (list N) => Some (concat (snd t))) (combine pre cks) = map (fun f => Some (snd f)) files.
Proof.
  induction 1 as [|f ck files cks Hc _ IH]; intros [|o pre] Hlen; cbn [length] in Hlen; try discriminate; [reflexivity|].
  cbn [combine map snd]. rewrite Hc, IH by lia. reflexivity.
Qed.

Lemma chunked_nth (files : list (list N * list N)) cks : chunked files cks ->
  forall (pre : list (option (list N))) i (t : option (list N) * list (list N)),
  nth_error (combine pre cks) i = Some t -> exists f, nth_error files i = Some f /\ concat (snd t) = snd f /\ nth_error pre i = Some (fst t).
Proof.
  induction 1 as [|f ck files cks Hc _ IH]; intros [|o pre] i t Hn; try (destruct i; discriminate).
  destruct i as [|i]; cbn [combine nth_error] in *.
  - injection Hn as <-. exists f. cbn [snd fst]. repeat split. exact Hc.
  - apply IH. exact Hn.
Qed.

Lemma combine_nth_l {A B} (l : list A) (l' : list B) : length l = length l' -> forall i a, nth_error l i = Some a ->
  exists b, nth_error (combine l l') i = Some (a, b).
Proof.
  revert l'. induction l as [|x l IH]; intros [|y l'] Hlen i a Hn; cbn [length] in Hlen; try discriminate; try (destruct i; discriminate).
  destruct i as [|i]; cbn [combine nth_error] in *.
  - injection Hn as <-. exists y. reflexivity.
  - apply IH; [lia|exact Hn].
Qed.

Section C14.
  Variable H : list N -> list N.

  (* T08_faulty_run *)
  Lemma faulty_run cfg j p files ann limit pre cks : run_files H cfg j p = Ok (files, ann) ->
    length pre = length files -> chunked files cks ->
    let r := Output.run_targets true limit (writer_targets pre cks) in
    (Output.rr_ok r = true ->
       Output.rr_announced r = seq 0 (length files) /\ Output.rr_disk r = map (fun f => Some (snd f)) files)
    /\ (forall i, In i (Output.rr_announced r) ->
          exists f, nth_error files i = Some f /\ nth_error (Output.rr_disk r) i = Some (Some (snd f)) /\ nth_error pre i = Some None)
    /\ (forall i old, nth_error pre i = Some (Some old) ->
          Output.rr_ok r = false /\ nth_error (Output.rr_disk r) i = Some (Some old) /\ ~ In i (Output.rr_announced r)).
  Proof.
    intros _ Hlen Hck. cbv zeta. unfold writer_targets.
    pose proof (Forall2_len _ _ _ Hck) as Hlc.
    destruct (Output_proofs.run_targets_spec limit (combine pre cks)) as (Hok & Hann & Hex). cbv zeta in *.
    split; [|split].
    - intros Hr. destruct (Hok Hr) as [Ha Hd]. rewrite combine_length, Hlen, <- Hlc, Nat.min_id in Ha.
      split; [exact Ha|]. rewrite Hd. apply chunked_disk; assumption.
    - intros i Hi. destruct (Hann i Hi) as (t & Ht & Hd).
      destruct (chunked_nth _ _ Hck _ _ _ Ht) as (f & Hf & Hc & Hpre). exists f. split; [exact Hf|]. rewrite <- Hc. split; [exact Hd|].
      destruct (fst t) as [old|] eqn:Eo; [|exact Hpre].
      exfalso. destruct (Hex i t old Ht Eo) as (_ & _ & Hni). contradiction.
    - intros i old Hn. destruct (combine_nth_l pre cks (eq_trans Hlen Hlc) i (Some old) Hn) as (ck & Ht).
      exact (Hex i (Some old, ck) old Ht eq_refl).
  Qed.
End C14.

(* ================================================================== 9. C19: the effective configuration *)
Lemma kind_code_inj a b : kind_code a = kind_code b -> a = b.
Proof. destruct a, b; cbn; intros E; try reflexivity; discriminate. Qed.
Lemma export_code_inj a b : export_code a = export_code b -> a = b.
Proof. destruct a, b; cbn; intros E; try reflexivity; discriminate. Qed.
Lemma lookup_code_inj a b : lookup_code a = lookup_code b -> a = b.
Proof. destruct a, b; cbn; intros E; try reflexivity; discriminate. Qed.
Lemma group_code_inj a b : group_code a = group_code b -> a = b.
Proof. destruct a, b; cbn; intros E; try reflexivity; discriminate. Qed.

Lemma map_inj {A B} (f : A -> B) : (forall a b, f a = f b -> a = b) -> forall l l', map f l = map f l' -> l = l'.
Proof.
  intros Hinj. induction l as [|x l IH]; intros [|y l'] E; cbn [map] in E; try discriminate; [reflexivity|].
  injection E as E1 E2. rewrite (Hinj _ _ E1), (IH _ E2). reflexivity.
Qed.

Lemma sel_pats_inj l l' : Forall acct_wf l -> Forall acct_wf l' -> sel_pats l = sel_pats l' -> l = l'.
Proof.
  unfold sel_pats. intros Hl. revert l'. induction Hl as [|a l Ha _ IH]; intros [|b l'] Hl' E; cbn [map] in E; try discriminate; [reflexivity|].
  inversion Hl' as [|? ? Hb Hl'']; subst. injection E as E1 E2.
  rewrite (Acct_proofs.acct_str_inj a b Ha Hb E1), (IH l' Hl'' E2). reflexivity.
Qed.

Section C19.
  Variable H : list N -> list N.

  Lemma reads_same_eff e cfg cfg' : reads_eff e cfg -> reads_eff e cfg' -> same_fixed cfg cfg' ->
    sels_wf cfg -> sels_wf cfg' -> same_run_view cfg cfg'.
  Proof.
    intros (_ & A1 & A2 & A3 & A4 & A5 & A6 & A7 & A8 & A9 & A10) (_ & B1 & B2 & B3 & B4 & B5 & B6 & B7 & B8 & B9 & B10)
           (F1 & F2 & F3 & F4 & F5 & F6 & F7 & F8 & F9 & F10 & F11 & F12 & F13) (W1 & W2) (W1' & W2').
    assert (Ht : rc_targets cfg = rc_targets cfg') by (apply (map_inj kind_code kind_code_inj); congruence).
    assert (Hx : rc_exports cfg = rc_exports cfg') by (apply (map_inj export_code export_code_inj); congruence).
    assert (Hl : rc_lookup cfg = rc_lookup cfg') by (apply lookup_code_inj; congruence).
    assert (Hg : rc_group_by cfg = rc_group_by cfg') by (apply group_code_inj; congruence).
    unfold same_run_view. split; [unfold same_inputs; repeat split; try congruence; unfold filter_desc; rewrite (proj2 F5); congruence|].
    split; [unfold same_layout; repeat split; congruence|]. split; [exact F5|]. split; [exact F6|]. split.
    - intros k. apply sel_pats_inj; [apply W1|apply W1'|]. destruct k; congruence.
    - apply sel_pats_inj; [exact W2|exact W2'|congruence].
  Qed.

  (* T08_effective_config: C19_metamorphic lifted to the bytes printed *)
  Lemma effective_config f c e e' cfg cfg' j p :
    Config.effective f c = Ok e -> Config.effective (Config.merge f c) (Config.only_before c) = Ok e' ->
    reads_eff e cfg -> reads_eff e' cfg' -> same_fixed cfg cfg' -> sels_wf cfg -> sels_wf cfg' ->
    run_console H cfg j p = run_console H cfg' j p /\ run_files H cfg j p = run_files H cfg' j p.
  Proof.
    intros He He' Hr Hr' Hf Hw Hw'. rewrite <- Config_proofs.effective_metamorphic, He in He'. injection He' as <-.
    apply run_same_view. eapply reads_same_eff; eassumption.
  Qed.

  (* ... and for ANY way of turning the effective configuration into the configuration of the run *)
  Lemma effective_config_any (interp : Config.eff -> run_cfg) f c j p :
    let run := fun r => match r with Ok e => Some (run_console H (interp e) j p, run_files H (interp e) j p) | Err _ => None end in
    run (Config.effective f c) = run (Config.effective (Config.merge f c) (Config.only_before c)).
  Proof. cbv zeta. rewrite <- Config_proofs.effective_metamorphic. reflexivity. Qed.

  (* C19_precedence / C19_selectors read off the run: which reports are printed, in which mode, of which accounts *)
  Lemma effective_keys f c e cfg : Config.effective f c = Ok e -> reads_eff e cfg ->
    rc_audit cfg = Config.or_else (Config.c_audit c) (Config.f_audit f)
    /\ map kind_code (rc_targets cfg) = Config.or_else (Config.c_reports c) (Config.f_reports f)
    /\ map export_code (rc_exports cfg) = Config.or_else (Config.c_exports c) (Config.f_exports f)
    /\ rc_commodity cfg = Config.or_opt (Config.c_commodity c) (Config.f_commodity f)
    /\ lookup_code (rc_lookup cfg) = Config.or_else (Config.c_lookup c) (Config.f_lookup f)
    /\ group_code (rc_group_by cfg) = Config.or_else (Config.c_group_by c) (Config.f_group_by f)
    /\ (forall g, Config.cli_accounts c = Some g ->
          (forall k, sel_pats (sel_of cfg k) = g) /\ sel_pats (sel_equity cfg) = g)
    /\ (Config.cli_accounts c = None ->
          sel_pats (sel_of cfg MetaText.RBalance) = Config.file_sel f (Config.f_bal_acc f)
          /\ sel_pats (sel_of cfg MetaText.RBalGroup) = Config.file_sel f (Config.f_balgrp_acc f)
          /\ sel_pats (sel_of cfg MetaText.RRegister) = Config.file_sel f (Config.f_reg_acc f)
          /\ sel_pats (sel_equity cfg) = Config.file_sel f (Config.f_eq_acc f)).
  Proof.
    intros He (_ & A1 & A2 & A3 & A4 & A5 & A6 & A7 & A8 & A9 & A10).
    destruct (Config_proofs.effective_precedence f c e He) as (_ & P2 & P3 & P4 & P5 & P6 & P7 & _).
    destruct (Config_proofs.effective_selectors f c e He) as (S1 & S2).
    split; [congruence|]. split; [congruence|]. split; [congruence|]. split; [congruence|]. split; [congruence|].
    split; [congruence|]. split.
    - intros g Hg. destruct (S1 g Hg) as (X1 & X2 & X3 & X4). split; [intros k; destruct k; congruence|congruence].
    - intros Hn. destruct (S2 Hn) as (X1 & X2 & X3 & X4). repeat split; congruence.
  Qed.
End C19.

(* ================================================================== 10. C11: account selectors (literal names) *)
Lemma sel_key_spec names k : sel_key names k = true <-> names = [] \/ In (fst k) names.
Proof.
  unfold sel_key. destruct names as [|n ns]; [split; [left; reflexivity|reflexivity]|].
  rewrite existsb_exists. split.
  - intros (x & Hx & He). right. apply Acct_proofs.acct_eqb_eq in He. subst x. exact Hx.
  - intros [Hn|Hin]; [discriminate|]. exists (fst k). split; [exact Hin|apply Acct_proofs.acct_eqb_refl].
Qed.

Lemma listed_keys_filter names ps : listed_keys names ps = filter (sel_key names) (listed_keys [] ps).
Proof. unfold listed_keys. cbn [sel_key]. rewrite filter_true. reflexivity. Qed.

Lemma listed_rows_nil (C : list (txn * list srow)) : map (listed_rows []) C = C.
Proof.
  induction C as [|[t rows] C IH]; [reflexivity|]. cbn [map]. rewrite IH. unfold listed_rows. cbn [fst snd keep].
  rewrite filter_true. reflexivity.
Qed.

Lemma spec_register_restrict lk rc f names input :
  spec_register lk rc f names input = map (listed_rows names) (spec_register lk rc f [] input).
Proof. unfold spec_register. rewrite listed_rows_nil. reflexivity. Qed.

Lemma run_hyp_same a b st : rc_scale a = rc_scale b -> rc_commodity a = rc_commodity b ->
  rc_title_bal a = rc_title_bal b -> rc_title_grp a = rc_title_grp b -> rc_title_reg a = rc_title_reg b ->
  rc_ts_style a = rc_ts_style b -> rc_zone_off a = rc_zone_off b -> run_hyp a st = run_hyp b st.
Proof.
  intros E1 E2 E3 E4 E5 E6 E7. unfold run_hyp, txn_hyp, ts_text, rtz. rewrite E1, E2, E3, E4, E5, E6, E7. reflexivity.
Qed.

Section C11.
  Variable H : list N -> list N.

  (* T08_selector_rows *)
  Lemma selector_rows a b j p out out0 : differ_only_in_selectors a b -> (forall k, sel_of b k = []) ->
    run_console H a j p = Ok out -> run_console H b j p = Ok out0 ->
    exists st,
      run_prepare H a j p = Ok st /\ run_prepare H b j p = Ok st
      /\ (In MetaText.RBalance (rc_targets a) -> run_hyp a st = true ->
          let ps := spec_bposts (rs_lk st) (rc_commodity a) (rs_file st) (rs_txns st) in
          let names := sel_of a MetaText.RBalance in
          exists head body head0 body0, framed (head ++ body) out /\ framed (head0 ++ body0) out0
            /\ bal_text_shows (rc_title_bal a) (rc_scale a) ps (filter (sel_key names) (listed_keys [] ps)) body
            /\ bal_text_shows (rc_title_bal a) (rc_scale a) ps (listed_keys [] ps) body0)
      /\ (In MetaText.RRegister (rc_targets a) -> run_hyp a st = true ->
          let all := spec_register (rs_lk st) (rc_commodity a) (rs_file st) [] (rs_txns st) in
          let names := sel_of a MetaText.RRegister in
          exists head body head0 body0, framed (head ++ body) out /\ framed (head0 ++ body0) out0
            /\ reg_text_shows (rc_title_reg a) (rc_scale a) (with_ts_spec (ts_text a) (map (listed_rows names) all)) body
            /\ reg_text_shows (rc_title_reg a) (rc_scale a) (with_ts_spec (ts_text a) all) body0).
  Proof.
    intros Hd Hnil Hr Hr0. pose proof Hd as (Hi & Hl & (Z1 & Z2) & Hsc).
    pose proof Hi as (I1 & I2 & I3 & I4 & I5 & I6 & I7 & I8).
    pose proof Hl as (L1 & L2 & L3 & L4 & L5 & L6 & L7 & L8 & L9 & L10).
    destruct (console_inv H _ _ _ _ Hr) as (st & Hp & _).
    assert (Hpb : run_prepare H b j p = Ok st) by (rewrite <- (prepare_same_inputs H a b j p Hi); exact Hp).
    exists st. split; [exact Hp|]. split; [exact Hpb|].
    pose proof (run_hyp_same a b st Hsc I4 L4 L5 L6 L7 Z2) as Hhyp.
    assert (Hts : ts_text b = ts_text a) by (unfold ts_text, rtz; rewrite L7, Z2; reflexivity).
    split.
    - intros Hin Hh. cbv zeta.
      assert (Hin0 : In MetaText.RBalance (rc_targets b)) by (rewrite <- L1; exact Hin).
      destruct (console_balance_figures H _ _ _ _ Hr Hin) as (st1 & Hp1 & Hfig). rewrite Hp in Hp1. injection Hp1 as <-.
      destruct (console_balance_figures H _ _ _ _ Hr0 Hin0) as (st2 & Hp2 & Hfig0). rewrite Hpb in Hp2. injection Hp2 as <-.
      destruct (Hfig Hh) as (pre & head & body & post & -> & Hs).
      rewrite <- Hhyp in Hfig0. destruct (Hfig0 Hh) as (pre0 & head0 & body0 & post0 & -> & Hs0).
      exists head, body, head0, body0. split; [exists pre, post; reflexivity|]. split; [exists pre0, post0; reflexivity|].
      unfold balance_text_spec in Hs, Hs0. cbv zeta in Hs, Hs0.
      rewrite (Hnil MetaText.RBalance), <- I4, <- L4, <- Hsc in Hs0. rewrite listed_keys_filter in Hs. split; assumption.
    - intros Hin Hh. cbv zeta.
      assert (Hin0 : In MetaText.RRegister (rc_targets b)) by (rewrite <- L1; exact Hin).
      destruct (console_register_rows H _ _ _ _ Hr Hin) as (st1 & Hp1 & Hfig). rewrite Hp in Hp1. injection Hp1 as <-.
      destruct (console_register_rows H _ _ _ _ Hr0 Hin0) as (st2 & Hp2 & Hfig0). rewrite Hpb in Hp2. injection Hp2 as <-.
      destruct (Hfig Hh) as (pre & head & body & post & -> & Hs).
      rewrite <- Hhyp in Hfig0. destruct (Hfig0 Hh) as (pre0 & head0 & body0 & post0 & -> & Hs0).
      exists head, body, head0, body0. split; [exists pre, post; reflexivity|]. split; [exists pre0, post0; reflexivity|].
      unfold register_text_spec in Hs, Hs0.
      rewrite (Hnil MetaText.RRegister), <- I4, <- L6, <- Hsc, Hts in Hs0. rewrite spec_register_restrict in Hs. split; assumption.
  Qed.
End C11.

(* ================================================================== 11. C13: the balance-group report *)
(* period keys are lines, the text of the groups block by block: TkProofs.T05_grp_proofs *)
Section C13.
  Variable H : list N -> list N.

  (* T08_balgrp_partition *)
  Lemma balgrp_partition cfg j p out : run_console H cfg j p = Ok out -> In MetaText.RBalGroup (rc_targets cfg) ->
    exists st gs,
      let txns := sort_txns (rs_txns st) in
      let kf := txn_key (rc_group_by cfg) (rtz cfg) in
      let conv := bal_conv (report_ctx (rs_lk st) (rc_commodity cfg) (rs_db st) (rs_txns st)) in
      let names := sel_of cfg MetaText.RBalGroup in
      let sc := rc_scale cfg in
      run_prepare H cfg j p = Ok st
      /\ conv_balgrp (rc_group_by cfg) (rtz cfg) (rs_lk st) (rc_commodity cfg) (rs_db st) names (rs_txns st) = Some gs
      (* the text: title, underline, then one balance report per listed group, titled by its period key *)
      /\ framed (report_head_text H cfg st MetaText.RBalGroup ++ title_lines (rc_title_grp cfg)
                 ++ concat (map (fun g => bal_txt_report (g_title g) sc (b_rows (g_rep g)) (b_deltas (g_rep g))) gs)) out
      (* each period once, ascending *)
      /\ StronglySorted Group_spec.str_lt (map g_title gs) /\ NoDup (map g_title gs)
      (* the periods partition the transaction set *)
      /\ Permutation (concat (map snd (group_members kf txns))) txns
      (* a listed group is not empty, its title is the period of a transaction, its report is the balance report of
         exactly the transactions of that period *)
      /\ Forall (fun g => b_rows (g_rep g) <> [] /\ (exists t, In t txns /\ kf t = g_title g)
                          /\ balance_report (fun _ => true) ord_sorted (bal_sel_names names)
                               (flat_map conv (Group_spec.period_members kf txns (g_title g))) = Some (g_rep g)) gs
      (* a period is listed iff the selector leaves its report non-empty *)
      /\ (forall t, In t txns -> exists rep,
            balance_report (fun _ => true) ord_sorted (bal_sel_names names)
                           (flat_map conv (Group_spec.period_members kf txns (kf t))) = Some rep
            /\ (b_rows rep <> [] <-> In (mkGroup (kf t) rep) gs)
            /\ (b_rows rep = [] -> ~ In (kf t) (map g_title gs)))
      (* the figures of a block: roundings of the exact converted sums over the transactions of the period *)
      /\ (run_hyp cfg st = true ->
          Forall (fun g =>
                    let ps := spec_bposts (rs_lk st) (rc_commodity cfg) (rs_file st) (Group_spec.period_members kf txns (g_title g)) in
                    bal_text_shows (g_title g) sc ps (listed_keys names ps)
                                   (bal_txt_report (g_title g) sc (b_rows (g_rep g)) (b_deltas (g_rep g)))) gs).
  Proof.
    intros Hr Hin. destruct (embedded_report H _ _ _ _ _ Hr Hin) as (st & body & Hp & Hb & Hf).
    unfold report_body, conv_balgrp_text in Hb.
    destruct (conv_balgrp (rc_group_by cfg) (rtz cfg) (rs_lk st) (rc_commodity cfg) (rs_db st) (sel_of cfg MetaText.RBalGroup) (rs_txns st))
      as [gs|] eqn:Eg; cbn [option_map] in Hb; [|discriminate]. injection Hb as <-.
    exists st, gs. cbv zeta. split; [exact Hp|]. split; [exact Eg|].
    split; [rewrite <- balgrp_text_blocks; exact Hf|].
    unfold conv_balgrp, balance_group_report in Eg.
    destruct (Group_proofs.unique_ascending _ _ _ _ _ _ _ Eg) as [Hsorted Hnd].
    split; [exact Hsorted|]. split; [exact Hnd|].
    split; [exact (proj1 (Group_proofs.partition _ _))|].
    split; [|split].
    - apply Forall_forall. intros g Hg. destruct (Group_proofs.group_is_balance _ _ _ _ _ _ _ _ Eg Hg) as (A & B & C).
      split; [exact B|]. split; [exact C|exact A].
    - intros t Ht. exact (Group_proofs.empty_omitted _ _ _ _ _ _ _ _ Eg Ht).
    - intros Hh. destruct (run_hyp_sound _ _ Hh) as (Hsc & Hdk & _ & _ & _ & Hdom & Hbn & _).
      destruct (state_spec H _ _ _ _ Hp) as [Hdb _].
      apply Forall_forall. intros g Hg. cbv zeta.
      destruct (Group_proofs.group_is_balance _ _ _ _ _ _ _ _ Eg Hg) as (A & _ & (t & _ & Ht)).
      set (M := Group_spec.period_members (txn_key (rc_group_by cfg) (rtz cfg)) (sort_txns (rs_txns st)) (g_title g)) in *.
      assert (Hsub : forall tx, In tx M -> In tx (sort_txns (rs_txns st))).
      { intros tx Hx. unfold M, Group_spec.period_members in Hx. apply filter_In in Hx. apply Hx. }
      assert (Hsub' : forall tx, In tx M -> In tx (rs_txns st)).
      { intros tx Hx. apply (Permutation_in _ (Order_proofs.sort_txns_perm _)). apply Hsub, Hx. }
      assert (Hconv : flat_map (bal_conv (report_ctx (rs_lk st) (rc_commodity cfg) (rs_db st) (rs_txns st))) M
                      = spec_bposts (rs_lk st) (rc_commodity cfg) (rs_file st) M).
      { unfold report_ctx. rewrite Hdb. exact (conv_bposts_is_spec _ _ _ _ _ Hdk Hsub). }
      rewrite Hconv in A.
      destruct Hbn as [Hrc Hbn].
      destruct (spec_bposts_wf (rs_lk st) (rc_commodity cfg) (rs_file st) M (Forall_sub _ _ _ Hsub' Hdom)
                  (conj Hrc (Forall_sub _ _ _ Hsub' Hbn))) as [Hw Hnm].
      apply (bal_report_text_shows (fun _ => true) ord_sorted); try assumption; [apply ord_sorted_perm|].
      rewrite <- Ht. apply txn_key_no_nl.
  Qed.

  (* T08_balgrp_figures: T06_balgrp_figures in the vocabulary of this file *)
  Lemma balgrp_figures cfg j p out : run_console H cfg j p = Ok out -> In MetaText.RBalGroup (rc_targets cfg) ->
    exists st, run_prepare H cfg j p = Ok st
      /\ (run_hyp cfg st = true ->
          exists head body, framed (head ++ body) out
            /\ balgrp_text_spec (rc_title_grp cfg) (rc_scale cfg) (rc_group_by cfg) (rtz cfg) (rs_lk st) (rc_commodity cfg)
                                (rs_file st) (sel_of cfg MetaText.RBalGroup) (rs_txns st) body).
  Proof.
    intros Hr Hin. destruct (console_balgrp_figures H _ _ _ _ Hr Hin) as (st & Hp & Hf).
    exists st. split; [exact Hp|]. intros Hh. destruct (Hf Hh) as (pre & head & body & post & -> & Hs).
    exists head, body. split; [exists pre, post; reflexivity|exact Hs].
  Qed.
End C13.

(* ================================================================== 12. non-vacuity *)
(* T06's example world (two transactions, one price line, targets balance and register, identity export) and two
   variants of its configuration.  NOTE: this is the only place that uses the constructor of run_cfg (every field but
   scale / audit is copied through its accessor): when the record grows, add the new accessor here. *)
Definition ex8_variant (c : run_cfg) (sc : scale_cfg) (audit : bool) : run_cfg :=
  mkRunCfg (rc_journal c) audit (rc_algo c) (rc_zone_name c) (rc_zone_off c) sc (rc_targets c) (rc_exports c)
           (rc_accounts c) (rc_bal_acc c) (rc_grp_acc c) (rc_reg_acc c) (rc_eq_acc c) (rc_group_by c) (rc_commodity c)
           (rc_lookup c) (rc_before c) (rc_title_bal c) (rc_title_grp c) (rc_title_reg c) (rc_ts_style c)
           (rc_eq_account c) (rc_filter c) (rc_out_dir c) (rc_prefix c).
Definition ex8_scale : run_cfg := ex8_variant ex_cfg (mkScale 0 4) false.     (* scale 0..4 instead of 2..2 *)
Definition ex8_audit : run_cfg := ex8_variant ex_cfg (mkScale 2 2) true.      (* audit mode: the second transaction has no uuid *)
Definition ex8_out : list N :=
  match run_console ex_H ex8_scale ex_journal (Some ex_prices) with Ok o => o | Err _ => [] end.
Definition ex8_files : list (list N * list N) :=
  match run_files ex_H ex_cfg ex_journal (Some ex_prices) with Ok (fs, _) => fs | Err _ => [] end.
(* the balance rows of the variant: 27.5125 where the original shows 27.51 *)
Definition ex8_bal_words : list (list (list N)) :=
  [[[66; 65; 76]]; [[45; 45; 45]];
   [[48]; [50; 55; 46; 53; 49; 50; 53]; [69; 85; 82]; [97]];
   [[50; 55; 46; 53; 49; 50; 53]; [50; 55; 46; 53; 49; 50; 53]; [69; 85; 82]; [97; 58; 98]];
   [[45; 50; 53; 46; 48; 49; 50; 53]; [45; 50; 53; 46; 48; 49; 50; 53]; [69; 85; 82]; [101]];
   [[45; 50; 46; 53]; [45; 50; 46; 53]; [69; 85; 82]; [120]];
   [repeat 61 25];
   [[48; 46; 48; 48; 48; 48]; [69; 85; 82]]]%N.

Lemma t08_example :
  (* T08_balance_text / T08_register_order_and_totals / T08_output_only_from_balanced: hypotheses hold *)
  run_console ex_H ex_cfg ex_journal (Some ex_prices) = Ok ex_out
  /\ In MetaText.RBalance (rc_targets ex_cfg) /\ In MetaText.RRegister (rc_targets ex_cfg) /\ run_hyp ex_cfg ex_st = true
  (* T08_scale_display_only: a second configuration differing in the scale only; other figure texts, same exact values *)
  /\ differ_only_in_scale ex_cfg ex8_scale /\ run_hyp ex8_scale ex_st = true
  /\ run_console ex_H ex8_scale ex_journal (Some ex_prices) = Ok ex8_out /\ length ex8_out = 1373%nat
  /\ option_map (fun pf => map (fun f => option_map (map words) (from_title (rc_title_bal ex8_scale) f)) (snd pf)) (read_console ex8_out)
     = Some [Some ex8_bal_words; None]
  (* T08_checksum_in_output / T06_error_no_output: audit mode on the same journal (one transaction without uuid) *)
  /\ differ_only_in_scale ex_cfg ex_cfg
  /\ run_console ex_H ex8_audit ex_journal (Some ex_prices) = Err E_audit_uuid
  (* T08_faulty_run: the three files of the run (381, 652 and 189 characters), the second destination full after 500
     characters: the first is announced and complete, the run fails; an existing second file is left untouched *)
  /\ map (fun f => length (snd f)) ex8_files = [381; 652; 189]%nat
  /\ (let r := Output.run_targets true 500 (writer_targets [None; None; None] (map (fun f => [snd f]) ex8_files)) in
      Output.rr_ok r = false /\ Output.rr_announced r = [0%nat] /\ nth_error (Output.rr_disk r) 0 = option_map (fun f => Some (snd f)) (nth_error ex8_files 0))
  /\ (let r := Output.run_targets true 5000 (writer_targets [None; Some [120%N]; None] (map (fun f => [snd f]) ex8_files)) in
      Output.rr_ok r = false /\ Output.rr_announced r = [0%nat] /\ nth_error (Output.rr_disk r) 1 = Some (Some [120%N])).
Proof.
  split; [vm_compute; reflexivity|]. split; [left; reflexivity|]. split; [right; left; reflexivity|].
  split; [vm_compute; reflexivity|].
  split; [repeat split; reflexivity|]. split; [vm_compute; reflexivity|].
  split; [vm_compute; reflexivity|]. split; [vm_compute; reflexivity|]. split; [vm_compute; reflexivity|].
  split; [repeat split; reflexivity|]. split; [vm_compute; reflexivity|].
  split; [vm_compute; reflexivity|].
  split; cbv zeta; (split; [vm_compute; reflexivity|]); split; vm_compute; reflexivity.
Qed.
