(* T09_proofs.v — extension T09: C09's and T04's theorems instantiated with the digest of the model,
   H := Sha256.sha256 (tackler's default algorithm "SHA-256").  For this algorithm the checksum shown to
   the user is a function of the journal text alone: no assumed digest is left.  Stdlib only. *)
From Coq Require Import Permutation Sorted.
From TkModel Require Import Base Dec MetaText Sha256.
From TkModel Require Audit Codec.
From TkSpec Require Import MetaText_spec.
From TkSpec Require Audit_spec.
From TkProofs Require Import Sha256_proofs MetaText_proofs.
From TkProofs Require Audit_proofs.

(* the hexadecimal text of the metadata model (MetaText.hex_text) is the one of Sha256.v *)
Lemma t09_hex_text d : hex_text d = hex_of_bytes d.
Proof. reflexivity. Qed.

Lemma t09_name_supported : Audit.hash_supported sha256_name = true.
Proof. reflexivity. Qed.

(* "{:>15}" of the name: eight blanks *)
Lemma t09_pad_name : pad_left item_pad sha256_name = repeat 32%N 8 ++ sha256_name.
Proof. reflexivity. Qed.

(* the line that carries a SHA-256 checksum of the pre-image P *)
Definition sha256_line (P : list N) : list N :=
  repeat 32%N 8 ++ sha256_name ++ s_sep ++ sha256_hex P.

(* ------------------------------------------------------------------ the value (C09) *)
Lemma t09_value sel n v :
  Audit_proofs.c09_sel_wf sel -> Audit.make_metadata sha256 true sel = Ok (Some (n, v)) ->
  exists us, sel = map Some us /\ NoDup us /\ n = N.of_nat (length us) /\
             v = sha256 (Audit_spec.lines_text (Audit.sort_strs (map Audit.uuid_print us))) /\
             length v = 32%nat /\ Forall (fun b => (b < 256)%N) v.
Proof.
  intros Hw E. pose proof (Audit_proofs.c09_metadata_spec sha256 sel Hw) as S. rewrite E in S.
  cbn [Audit_spec.Checksum_spec] in S. destruct S as (us & Hs & Hnd & Hn & P & HP & Hv).
  exists us. split; [exact Hs|]. split; [exact Hnd|]. split; [rewrite Hn, Hs, map_length; reflexivity|].
  apply Audit_proofs.c09_preimage_unique in HP. subst P. split; [exact Hv|].
  rewrite Hv. apply sha256_length.
Qed.

(* ------------------------------------------------------------------ the line of the block (T04) *)
Theorem t09_checksum_sha256 git flt ul :
  Forall Audit_spec.uuid_wf ul -> NoDup ul ->
  exists items pre post,
    make_items sha256 true sha256_name git flt (map Some ul) = Ok (Some items) /\
    md_lines items
    = pre ++ s_txn_set
          :: sha256_line (Audit_spec.lines_text (Audit.sort_strs (map Audit.uuid_print ul)))
          :: kv s_set_size (Codec.show_N (N.of_nat (length ul))) :: [] :: post /\
    (Forall (fun it => item_wf it = true) items -> rd_lines (meta_text items) = md_lines items).
Proof.
  intros Hwf Hnd.
  destruct (mt_checksum_line sha256 sha256_name git flt ul Hwf Hnd) as (items & P & pre & post & HM & HP & HL & HR).
  apply Audit_proofs.c09_preimage_unique in HP. subst P.
  exists items, pre, post. split; [exact HM|]. split; [exact HL|exact HR].
Qed.

(* the checksum item itself is always well formed (name without blank, 64 hexadecimal digits: no newline),
   so the side condition of T04_read_back never fails because of it *)
Lemma t09_hex_nl_free m : nl_free (sha256_hex m) = true.
Proof.
  unfold nl_free. apply forallb_forall. intros c Hc.
  destruct (sha256_hex_length m) as [_ Hd]. rewrite Forall_forall in Hd.
  destruct (sha_lower_hex_plain c (Hd c Hc)) as (Hn & _ & _).
  unfold rd_is_nl. apply negb_true_iff, N.eqb_neq. exact Hn.
Qed.

Lemma t09_item_wf n P :
  item_wf (ITxnSet n (mkCk sha256_name (hex_text (sha256 P)))) = true /\  item_wf (ISel (mkCk sha256_name (hex_text (sha256 P)))) = true.
Proof.
  cbn [item_wf]. unfold ck_ok. cbn [ck_algo ck_value]. rewrite t09_hex_text.
  fold (sha256_hex P). rewrite t09_hex_nl_free. split; reflexivity.
Qed.

(* no git input, no filter: the whole block, as text *)
Theorem t09_plain_block ul :
  Forall Audit_spec.uuid_wf ul -> NoDup ul ->
  exists items,
    make_items sha256 true sha256_name None None (map Some ul) = Ok (Some items) /\    meta_text items
    = s_txn_set ++ 10%N
      :: sha256_line (Audit_spec.lines_text (Audit.sort_strs (map Audit.uuid_print ul))) ++ 10%N
      :: kv s_set_size (Codec.show_N (N.of_nat (length ul))) ++ [10%N] /\    read_meta (meta_text items) = Some items.
Proof.
  intros Hwf Hnd.
  pose proof (Audit_proofs.c09_accepted sha256 ul Hwf Hnd) as E.
  eexists. split.
  - unfold make_items, make_metadata, txn_data_md. cbn [option_map orb is_some]. rewrite E. cbn [res_map app]. reflexivity.
  - split; [reflexivity|].
    rewrite mt_read_back.
    + reflexivity.
    + apply Forall_cons; [exact (proj1 (t09_item_wf _ _))|apply Forall_nil].
Qed.

(* ------------------------------------------------------------------ account selector checksum *)
Theorem t09_selector_sha256 equity pats :
  pats <> [] ->
  let P := Audit_spec.lines_text (Audit.sort_strs pats) in
  sel_item sha256 true equity sha256_name pats = Some (ISel (mkCk sha256_name (sha256_hex P))) /\  sel_block (sel_item sha256 true equity sha256_name pats)
  = s_acc_sel ++ 10%N :: sha256_line P ++ [10%N; 10%N].
Proof.
  intros Hp P.
  assert (E : sel_item sha256 true equity sha256_name pats = Some (ISel (mkCk sha256_name (sha256_hex P)))).
  { unfold sel_item, Audit.report_selector_md. destruct pats as [|p pats]; [contradiction Hp; reflexivity|].
    rewrite Audit_proofs.c09_selector_value. reflexivity. }
  split; [exact E|]. rewrite E. unfold sel_block, lines_nl. cbn [item_lines map concat ck_algo ck_value].
  unfold kv. rewrite t09_pad_name, app_nil_r, <- !app_assoc. reflexivity.
Qed.

(* ------------------------------------------------------------------ end to end, collisions *)
Lemma t09_pipeline j us :
  Audit.accept_journal_uuids true (map fst j) = Ok us ->
  Audit_spec.Checksum_spec sha256 (Audit_spec.selected us (map snd j)) (Audit.audit_pipeline sha256 true j)
  /\ Forall2 (Audit_spec.Accepted_uuid true) (map fst j) us.
Proof. exact (Audit_proofs.c09_pipeline_spec sha256 j us). Qed.

(* from the uuid texts as written to the digest bytes, without any existential left *)
Lemma t09_pipeline_value j us n v :
  Audit.accept_journal_uuids true (map fst j) = Ok us ->
  Audit.audit_pipeline sha256 true j = Ok (Some (n, v)) ->
  exists ul, Audit_spec.selected us (map snd j) = map Some ul /\ NoDup ul /\ n = N.of_nat (length ul) /\             v = sha256 (Audit_spec.lines_text (Audit.sort_strs (map Audit.uuid_print ul))) /\             hex_text v = sha256_hex (Audit_spec.lines_text (Audit.sort_strs (map Audit.uuid_print ul))).
Proof.
  intros Ha E. destruct (t09_pipeline j us Ha) as [S _]. rewrite E in S.
  cbn [Audit_spec.Checksum_spec] in S. destruct S as (ul & Hs & Hnd & Hn & P & HP & Hv).
  exists ul. split; [exact Hs|]. split; [exact Hnd|]. split; [rewrite Hn, Hs, map_length; reflexivity|].
  apply Audit_proofs.c09_preimage_unique in HP. subst P. split; [exact Hv|]. rewrite Hv. reflexivity.
Qed.

Lemma t09_collision us us' n v :
  Forall Audit_spec.uuid_wf us -> Forall Audit_spec.uuid_wf us' ->
  Audit.make_metadata sha256 true (map Some us) = Ok (Some (n, v)) ->
  Audit.make_metadata sha256 true (map Some us') = Ok (Some (n, v)) ->
  ~ (forall u, In u us <-> In u us') ->
  let x := Audit_spec.lines_text (Audit.sort_strs (map Audit.uuid_print us)) in
  let y := Audit_spec.lines_text (Audit.sort_strs (map Audit.uuid_print us')) in
  x <> y /\ sha256 x = sha256 y.
Proof. exact (Audit_proofs.c09_equal_checksum_collision sha256 us us' n v). Qed.

(* ------------------------------------------------------------------ oracle of the correspondence *)
Lemma t09_digest_oracle m d : list_eqb N.eqb d (sha256_hex m) = true -> d = sha256_hex m.
Proof.
  revert d. generalize (sha256_hex m) as e. induction e as [|y e IH]; intros d; destruct d as [|x d]; cbn [list_eqb]; try discriminate.
  - reflexivity.
  - intros Hb. apply andb_true_iff in Hb. destruct Hb as [Hx Hd]. apply N.eqb_eq in Hx. subst y. f_equal. apply IH. exact Hd.
Qed.

(* ------------------------------------------------------------------ non-vacuity: tackler's own unit test vector
   (kernel/hash.rs tests::hasher_sha2_256: Hash::checksum over the three uuids in the given order), and the same
   uuids through the journal pipeline: texts as written (one in upper case), one further transaction not selected;
   calc_txn_checksum sorts, so the value differs from the unit test's (hashlib agrees with both) *)
Definition t09_u1 : list N :=   (* "9c123cbe-4acd-475d-bbcf-96c1fcba58cb" *)
  [57;99;49;50;51;99;98;101;45;52;97;99;100;45;52;55;53;100;45;98;98;99;102;45;57;54;99;49;102;99;98;97;53;56;99;98]%N.
Definition t09_u1_written : list N :=   (* "9C123CBE-4acd-475d-bbcf-96c1fcba58cb" *)
  [57;67;49;50;51;67;66;69;45;52;97;99;100;45;52;55;53;100;45;98;98;99;102;45;57;54;99;49;102;99;98;97;53;56;99;98]%N.
Definition t09_u2 : list N :=   (* "2e546b18-6ce6-4bb3-9f4b-21b77a768a4c" *)
  [50;101;53;52;54;98;49;56;45;54;99;101;54;45;52;98;98;51;45;57;102;52;98;45;50;49;98;55;55;97;55;54;56;97;52;99]%N.
Definition t09_u3 : list N :=   (* "67bdab27-da08-4647-b0d1-57c9ed129657" *)
  [54;55;98;100;97;98;50;55;45;100;97;48;56;45;52;54;52;55;45;98;48;100;49;45;53;55;99;57;101;100;49;50;57;54;53;55]%N.
Definition t09_u4 : list N :=   (* "00000000-0000-0000-0000-000000000001" *)
  [48;48;48;48;48;48;48;48;45;48;48;48;48;45;48;48;48;48;45;48;48;48;48;45;48;48;48;48;48;48;48;48;48;48;48;49]%N.

Lemma t09_example :
  hex_text (Audit.hash_checksum sha256 [t09_u1; t09_u2; t09_u3] [10%N])
  = sha_hex_words [0x16418783; 0xef294f83; 0x0721159e; 0xe59cc338; 0x8c8b69c1; 0x3afba225; 0x6cf756c6; 0x097fe687]%N
  /\
  res_map (option_map (fun nv : N * list N => (fst nv, hex_text (snd nv))))
          (Audit.audit_pipeline sha256 true
             [(Some t09_u1_written, true); (Some t09_u4, false); (Some t09_u2, true); (Some t09_u3, true)])
  = Ok (Some (3%N, sha_hex_words [0x125caf4a; 0x8b275698; 0x89b5c79f; 0x0971380c; 0xfffc21b3; 0x4caac1fc; 0x3643e6c9; 0x280c2579]%N)).
Proof. split; vm_compute; reflexivity. Qed.
