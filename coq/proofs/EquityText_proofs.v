(* EquityText_proofs.v — extension T02: the text of the equity export, read by the journal
   grammar model, is the AST of C10.
     stage 1  posting line            eq_post_line_roundtrip
     stage 2  header line + comments  eq_chunk_roundtrip (with stage 1: one whole transaction)
     stage 3  whole text              parse_export
     stage 4  loading                 load_export
     stage 5  composition with C10    text_carries_balances (+ export_wf_of_source) *)
From Coq Require Import Permutation Sorted.
From TkModel Require Import Base Dec Acct Txn Balance Accept Equity Journal EquityText.
From TkSpec Require Import Balance_spec Equity_spec Journal_spec EquityText_spec.
From TkProofs Require Import Base_proofs Acct_proofs Balance_proofs Order_proofs Journal_base_proofs Journal_time_proofs Journal_line_proofs
                             Journal_header_proofs Journal_proofs Equity_proofs.
Local Open Scope Z_scope.

(* ------------------------------------------------------------------ well-formedness, opened *)
Lemma eq_post_wf_inv p : eq_post_wf p = true ->
  name_ok (ep_acc p) = true /\ acct_sem_ok (ep_acc p) = true /\ fits (ep_amt p) = true
  /\ eq_comm_ok (ep_comm p) = true.
Proof.
  unfold eq_post_wf, eq_acct_ok. intro H. apply andb_true_iff in H as [H H4]. apply andb_true_iff in H as [H H3].
  apply andb_true_iff in H as [H1 H2]. repeat split; assumption.
Qed.

Lemma eq_txn_wf_inv e : eq_txn_wf e = true ->
  ts_ok (e_inst e) (e_off e) = true /\ eq_comm_ok (e_comm e) = true
  /\ match e_uuid e with Some u => uuid_ok u | None => true end = true
  /\ eq_all_posts e <> [] /\ forallb eq_post_wf (eq_all_posts e) = true.
Proof.
  unfold eq_txn_wf. intro H. apply andb_true_iff in H as [H H5]. apply andb_true_iff in H as [H H4].
  apply andb_true_iff in H as [H H3]. apply andb_true_iff in H as [H1 H2].
  repeat split; try assumption. intro E. rewrite E in H4. discriminate.
Qed.

Lemma eq_comm_ok_inv c : eq_comm_ok c = true -> c = [] \/ ident_ok c = true.
Proof.
  unfold eq_comm_ok. destruct c as [|x c]; [left; reflexivity|]. cbn [is_nil orb]. intro H. right.
  apply comm_ok_inv in H as [H _]. exact H.
Qed.
Lemma eq_comm_ok_sem c : eq_comm_ok c = true -> comm_sem_ok c = true.
Proof.
  unfold eq_comm_ok. destruct c as [|x c]; [reflexivity|]. cbn [is_nil orb]. intro H.
  apply comm_ok_inv in H as [_ H]. exact H.
Qed.

(* ------------------------------------------------------------------ stage 1: the posting line *)
Definition eq_ctail (c : list N) : list N := match c with [] => [] | x :: c' => 32%N :: x :: c' end.

Lemma eq_post_line_eq p :
  eq_post_line p = indent ++ join_colon (ep_acc p) ++ [32; 32]%N ++ print_dec (ep_amt p) ++ eq_ctail (ep_comm p).
Proof. reflexivity. Qed.

Lemma take_value_eq amt c : fits amt = true -> eq_comm_ok c = true ->
  take_value (print_dec amt ++ eq_ctail c)
  = Some (amt, match c with [] => None | x :: c' => Some (mkUnit (x :: c') None None) end, []).
Proof.
  intros Hf Hc. destruct (eq_comm_ok_inv c Hc) as [->|Hid].
  - cbn [eq_ctail]. apply take_value_plain; [exact Hf|left; reflexivity].
  - destruct c as [|x c']; [discriminate|]. cbn [eq_ctail].
    rewrite <- (app_nil_r (x :: c')) at 1.
    apply (take_value_unit amt (x :: c') [] None [] None [] Hf Hid); [left; reflexivity|reflexivity|reflexivity].
Qed.

Theorem eq_post_line_roundtrip p : eq_post_wf p = true ->
  parse_posting_line (eq_post_line p) = Some (PL_post (eq_raw_post p) None).
Proof.
  intro Hwf. destruct (eq_post_wf_inv p Hwf) as (Hname & Hsem & Hfits & Hcomm).
  rewrite eq_post_line_eq.
  destruct (join_colon_head _ Hname) as (c0 & r0 & E0 & Hc0).
  unfold parse_posting_line.
  set (tail := print_dec (ep_amt p) ++ eq_ctail (ep_comm p)).
  set (after := [32; 32]%N ++ tail).
  rewrite E0. cbn [app]. rewrite (span_indent c0 _ (id_char_not_sp _ (id_start_char _ Hc0))).
  change (is_nil indent) with false. cbv iota.
  change (c0 :: r0 ++ after) with ((c0 :: r0) ++ after). rewrite <- E0.
  assert (Hafter_stop : stopb (fun c => id_char c || (c =? 58)%N) after = true) by reflexivity.
  rewrite (take_name_app _ _ Hname Hafter_stop). rewrite Hsem. cbn [negb].
  destruct (print_dec_app_head (ep_amt p) (eq_ctail (ep_comm p))) as (d0 & dr & Ed & Hd0).
  fold tail in Ed.
  assert (Espan : span is_sp after = ([32; 32]%N, tail)).
  { unfold after. apply (span_app is_sp [32; 32]%N); [reflexivity|]. rewrite Ed. cbn [stopb].
    rewrite (dec_char_not_sp _ Hd0). reflexivity. }
  rewrite Espan. rewrite Ed. rewrite (dec_char_not_semi _ Hd0). cbn [is_nil]. rewrite <- Ed.
  unfold tail. rewrite (take_value_eq _ _ Hfits Hcomm).
  assert (Hu : unit_sem_ok (match ep_comm p with [] => None | x :: c' => Some (mkUnit (x :: c') None None) end) = true).
  { pose proof (eq_comm_ok_sem _ Hcomm) as Hs. destruct (ep_comm p) as [|x c']; [reflexivity|].
    cbn [unit_sem_ok u_comm u_closing]. rewrite Hs. reflexivity. }
  rewrite Hu. cbn [negb span snd take_comment].
  unfold eq_raw_post. reflexivity.
Qed.

Lemma eq_post_line_head p : name_ok (ep_acc p) = true ->
  exists c r, eq_post_line p = indent ++ c :: r /\ id_start c = true.
Proof.
  intro H. rewrite eq_post_line_eq. destruct (join_colon_head _ H) as (c & r & -> & Hc).
  eexists _, _. split; [reflexivity|exact Hc].
Qed.

Lemma eq_post_line_not_meta p : eq_post_wf p = true -> parse_meta_line (eq_post_line p) = None.
Proof.
  intro H. destruct (eq_post_wf_inv p H) as (Hn & _). destruct (eq_post_line_head p Hn) as (c & r & E & Hc).
  rewrite E. apply parse_meta_line_name, Hc.
Qed.
Lemma eq_post_line_not_comment p : eq_post_wf p = true -> parse_comment_line (eq_post_line p) = None.
Proof.
  intro H. destruct (eq_post_wf_inv p H) as (Hn & _). destruct (eq_post_line_head p Hn) as (c & r & E & Hc).
  rewrite E. apply parse_comment_line_name, Hc.
Qed.

Lemma eq_ctail_no_eol c : eq_comm_ok c = true -> no_eol (eq_ctail c) = true.
Proof.
  intro H. destruct (eq_comm_ok_inv c H) as [->|Hid]; [reflexivity|].
  destruct c as [|x c']; [reflexivity|]. cbn [eq_ctail]. rewrite no_eol_cons, (ident_no_eol _ Hid). reflexivity.
Qed.

Lemma eq_post_line_hygiene p : eq_post_wf p = true ->
  no_eol (eq_post_line p) = true /\ is_blank (eq_post_line p) = false.
Proof.
  intro Hwf. destruct (eq_post_wf_inv p Hwf) as (Hname & _ & _ & Hcomm). split.
  - rewrite eq_post_line_eq. rewrite !no_eol_app.
    rewrite (join_colon_no_eol _ Hname), print_dec_no_eol, (eq_ctail_no_eol _ Hcomm). reflexivity.
  - destruct (eq_post_line_head p Hname) as (c & r & E & Hc). rewrite E.
    unfold is_blank. rewrite forallb_app. cbn [forallb]. rewrite (id_char_not_sp _ (id_start_char _ Hc)).
    rewrite andb_false_r. reflexivity.
Qed.

Lemma parse_postings_eq ps : forallb eq_post_wf ps = true ->
  parse_postings (map eq_post_line ps) = Some (map (fun p => (eq_raw_post p, @None (list N))) ps, None).
Proof.
  induction ps as [|p ps IH]; [reflexivity|]. cbn [forallb]. intro H. apply andb_true_iff in H as [Hp Hps].
  cbn [map parse_postings]. rewrite (eq_post_line_roundtrip p Hp). rewrite (IH Hps). reflexivity.
Qed.

(* ------------------------------------------------------------------ stage 2: header line, comments, one transaction *)
(* the lines of one transaction without the closing empty line *)
Definition eq_body (md : list (list (list N))) (warn : list (list N)) (e : eq_txn) : list (list N) :=
  (print_ts (e_inst e) (e_off e) ++ [32; 39]%N ++ eq_desc e)
  :: map comment_line (eq_comments md warn e) ++ map eq_post_line (eq_all_posts e).

Lemma eq_md_lines_comments md : eq_md_lines md = map comment_line (eq_md_comments md).
Proof.
  unfold eq_md_lines, eq_md_comments. induction md as [|it md IH]; [reflexivity|].
  cbn [flat_map]. rewrite map_app, IH. unfold eq_md_item. rewrite map_app. reflexivity.
Qed.

Lemma eq_txn_lines_body md warn e : eq_txn_lines md warn e = eq_body md warn e ++ [[]].
Proof.
  unfold eq_txn_lines, eq_body, eq_hdr_str, eq_comments, eq_all_posts.
  rewrite eq_md_lines_comments. cbn [app]. f_equal.
  rewrite !map_app, <- !app_assoc. f_equal.
  assert (Hw : (if e_warn e then eq_warn_lines warn else []) = map comment_line (if e_warn e then warn else [])).
  { destruct (e_warn e); reflexivity. }
  rewrite Hw. f_equal. f_equal. destruct (e_bal e); reflexivity.
Qed.

Lemma parse_header_rest_desc d : parse_header_rest ([32; 39]%N ++ d) = Some (None, Some (trim_end d)).
Proof. unfold parse_header_rest. cbn [app]. rewrite span_sp1 by reflexivity. reflexivity. Qed.

Lemma parse_meta_none rest :
  (match rest with [] => True | l :: _ => parse_meta_line l = None end) ->
  parse_meta rest None None None = Some (None, None, None, rest).
Proof. intro H. destruct rest as [|l r]; [reflexivity|]. cbn [parse_meta]. rewrite H. reflexivity. Qed.

Theorem eq_chunk_roundtrip cfg md warn e : eq_txn_wf e = true ->
  parse_chunk cfg (eq_body md warn e) = Some (eq_ptxn md warn e).
Proof.
  intro Hwf. destruct (eq_txn_wf_inv e Hwf) as (Hts & _ & _ & Hne & Hps).
  unfold eq_body, parse_chunk.
  rewrite (ts_roundtrip cfg _ _ _ Hts). rewrite parse_header_rest_desc.
  destruct (eq_all_posts e) as [|p ps] eqn:Eps; [congruence|].
  cbn [forallb] in Hps. apply andb_true_iff in Hps as [Hp Hps'].
  rewrite parse_meta_none.
  2:{ destruct (eq_comments md warn e) as [|c cs]; cbn [map app].
      - apply eq_post_line_not_meta, Hp.
      - apply parse_meta_line_comment. }
  rewrite (parse_comments_block (eq_comments md warn e) (map eq_post_line (p :: ps))).
  2:{ cbn [map]. apply eq_post_line_not_comment, Hp. }
  rewrite (parse_postings_eq (p :: ps)) by (cbn [forallb]; rewrite Hp, Hps'; reflexivity).
  cbn [map is_nil]. unfold eq_ptxn, eq_header. rewrite Eps. reflexivity.
Qed.

(* line hygiene of one transaction *)
Lemma eq_desc_no_eol e : eq_comm_ok (e_comm e) = true ->
  match e_uuid e with Some u => uuid_ok u | None => true end = true -> no_eol (eq_desc e) = true.
Proof.
  intros Hc Hu. unfold eq_desc. rewrite !no_eol_app.
  assert (H2 : no_eol match e_uuid e with Some u => s_last_uuid ++ u | None => [] end = true).
  { destruct (e_uuid e) as [u|]; [|reflexivity]. rewrite no_eol_app, (uuid_no_eol _ Hu). reflexivity. }
  rewrite H2. destruct (e_comm e) as [|x c] eqn:E; [reflexivity|].
  destruct (eq_comm_ok_inv _ Hc) as [X|Hid]; [discriminate|].
  rewrite no_eol_app, (ident_no_eol _ Hid). reflexivity.
Qed.

Lemma comment_line_not_blank c : is_blank (comment_line c) = false.
Proof. reflexivity. Qed.

Lemma comment_lines_hygiene cs : forallb no_eol cs = true ->
  forallb no_eol (map comment_line cs) = true /\ forallb (fun l => negb (is_blank l)) (map comment_line cs) = true.
Proof.
  induction cs as [|c cs IH]; [split; reflexivity|]. cbn [forallb map]. intro H.
  apply andb_true_iff in H as [Hc Hcs]. destruct (IH Hcs) as [I1 I2]. rewrite I1, I2.
  unfold comment_line at 1. cbn [indent app]. rewrite !no_eol_cons, Hc. split; reflexivity.
Qed.

Lemma eq_md_comments_no_eol md : md_wf md = true -> forallb no_eol (eq_md_comments md) = true.
Proof.
  unfold md_wf, eq_md_comments. induction md as [|it md IH]; [reflexivity|]. cbn [forallb flat_map]. intro H.
  apply andb_true_iff in H as [Hit Hmd]. rewrite !forallb_app, Hit, (IH Hmd). reflexivity.
Qed.

Lemma warn_wf_inv warn : warn_wf warn = true -> forallb no_eol warn = true.
Proof. unfold warn_wf, md_wf. cbn [forallb]. rewrite andb_true_r. intro H. exact H. Qed.

Lemma eq_comments_no_eol md warn e : md_wf md = true -> warn_wf warn = true -> forallb no_eol (eq_comments md warn e) = true.
Proof.
  intros H Hw. unfold eq_comments. rewrite forallb_app, (eq_md_comments_no_eol md H).
  destruct (e_warn e); [exact (warn_wf_inv warn Hw)|reflexivity].
Qed.

Lemma eq_body_hygiene md warn e : md_wf md = true -> warn_wf warn = true -> eq_txn_wf e = true ->
  forallb no_eol (eq_body md warn e) = true /\ forallb (fun l => negb (is_blank l)) (eq_body md warn e) = true
  /\ eq_body md warn e <> [].
Proof.
  intros Hmd Hwarn Hwf. destruct (eq_txn_wf_inv e Hwf) as (_ & Hc & Hu & _ & Hps).
  unfold eq_body. cbn [forallb]. rewrite !forallb_app.
  destruct (comment_lines_hygiene _ (eq_comments_no_eol md warn e Hmd Hwarn)) as [C1 C2]. rewrite C1, C2.
  assert (H1 : no_eol (print_ts (e_inst e) (e_off e) ++ [32; 39]%N ++ eq_desc e) = true).
  { rewrite !no_eol_app, print_ts_no_eol, (eq_desc_no_eol e Hc Hu). reflexivity. }
  assert (H1b : is_blank (print_ts (e_inst e) (e_off e) ++ [32; 39]%N ++ eq_desc e) = false).
  { destruct (print_ts_head (e_inst e) (e_off e)) as (c & r & E & Hd). rewrite E. cbn [app is_blank forallb].
    assert (Hs : is_sp c = false) by (unfold is_sp; char_cases Hd; reflexivity). rewrite Hs. reflexivity. }
  rewrite H1, H1b. cbn [negb andb].
  assert (Hp : forallb no_eol (map eq_post_line (eq_all_posts e)) = true
               /\ forallb (fun l => negb (is_blank l)) (map eq_post_line (eq_all_posts e)) = true).
  { induction (eq_all_posts e) as [|p ps IH]; [split; reflexivity|]. cbn [forallb map] in *.
    apply andb_true_iff in Hps as [Hp Hps]. destruct (eq_post_line_hygiene p Hp) as [P1 P2].
    rewrite P1, P2. destruct (IH Hps) as [I1 I2]. rewrite I1, I2. split; reflexivity. }
  destruct Hp as [P1 P2]. rewrite P1, P2. repeat split. discriminate.
Qed.

(* ------------------------------------------------------------------ stage 3: the whole text *)
Definition blocks_lines (chs : list (list (list N))) : list (list N) := flat_map (fun ch => ch ++ [[]]) chs.

Lemma chunks_blocks chs :
  (forall ch, In ch chs -> forallb (fun l => negb (is_blank l)) ch = true /\ ch <> []) ->
  chunks (blocks_lines chs) = chs.
Proof.
  unfold chunks. intro H.
  assert (Hc : chunk_lines (blocks_lines chs) = chs ++ [[]]).
  { induction chs as [|ch chs IH]; [reflexivity|]. unfold blocks_lines. cbn [flat_map app].
    rewrite <- app_assoc. cbn [app]. rewrite chunk_lines_txn by (apply H; left; reflexivity).
    fold (blocks_lines chs). rewrite IH by (intros ch' Hch'; apply H; right; exact Hch'). reflexivity. }
  rewrite Hc, filter_app. cbn [filter is_nil negb]. rewrite app_nil_r. clear Hc.
  induction chs as [|ch chs IH]; [reflexivity|]. cbn [filter].
  destruct (H ch (or_introl eq_refl)) as [_ Hne]. destruct ch as [|l0 ls0]; [congruence|]. cbn [is_nil negb].
  f_equal. apply IH. intros ch' Hch'. apply H. right. exact Hch'.
Qed.

Lemma parse_journal_blocks cfg chs rs :
  chs <> [] ->
  (forall ch, In ch chs -> forallb no_eol ch = true /\ forallb (fun l => negb (is_blank l)) ch = true /\ ch <> []) ->
  mapO (parse_chunk cfg) chs = Some rs ->
  parse_journal cfg (unlines (blocks_lines chs)) = Ok rs.
Proof.
  intros Hne Hyg Hm.
  assert (Hall : forallb no_eol (blocks_lines chs) = true).
  { unfold blocks_lines. clear Hne Hm. induction chs as [|ch chs IH]; [reflexivity|]. cbn [flat_map].
    rewrite !forallb_app. destruct (Hyg ch (or_introl eq_refl)) as (A & _). rewrite A. cbn [forallb no_eol andb].
    apply IH. intros ch' Hch'. apply Hyg. right. exact Hch'. }
  unfold parse_journal.
  rewrite split_lines_unlines by (revert Hall; apply forallb_impl; intros l Hl; apply no_eol_no_nl, Hl).
  cbn [is_nil negb].
  assert (Hstrip : map strip_cr (blocks_lines chs) = blocks_lines chs).
  { rewrite forallb_forall in Hall. rewrite <- (map_id (blocks_lines chs)) at 2. apply map_ext_in.
    intros l Hl. apply strip_cr_id, Hall, Hl. }
  rewrite Hstrip.
  rewrite (no_cr_lines _ Hall).
  rewrite chunks_blocks by (intros ch Hch; destruct (Hyg ch Hch) as (_ & B & C); split; assumption).
  destruct chs as [|ch chs']; [congruence|]. rewrite Hm. reflexivity.
Qed.

Lemma print_equity_blocks md warn es : print_equity md warn es = unlines (blocks_lines (map (eq_body md warn) es)).
Proof.
  unfold print_equity, unlines. f_equal. f_equal. unfold eq_lines, blocks_lines.
  induction es as [|e es IH]; [reflexivity|]. cbn [flat_map map]. rewrite IH, eq_txn_lines_body. reflexivity.
Qed.

Lemma export_wf_inv md warn es : export_wf md warn es = true ->
  md_wf md = true /\ warn_wf warn = true /\ forall e, In e es -> eq_txn_wf e = true.
Proof.
  unfold export_wf. intro H. apply andb_true_iff in H as [H H2]. apply andb_true_iff in H as [H1 Hw].
  split; [exact H1|]. split; [exact Hw|]. rewrite forallb_forall in H2. exact H2.
Qed.

(* STAGE 3: the text of a well-formed, non-empty export is a journal of the grammar; it is read
   as exactly one syntax-level transaction per exported commodity *)
Theorem parse_export cfg md warn es : es <> [] -> export_wf md warn es = true ->
  parse_journal cfg (print_equity md warn es) = Ok (map (eq_ptxn md warn) es).
Proof.
  intros Hne Hwf. destruct (export_wf_inv md warn es Hwf) as (Hmd & Hwarn & Hes).
  rewrite print_equity_blocks. apply parse_journal_blocks.
  - destruct es; [congruence|discriminate].
  - intros ch Hch. apply in_map_iff in Hch as (e & <- & He). apply eq_body_hygiene; [exact Hmd|exact Hwarn|apply Hes, He].
  - apply mapO_map. intros e He. apply eq_chunk_roundtrip, Hes, He.
Qed.

(* the syntax read from the text is the raw transaction C10 speaks about *)
Lemma eq_ptxn_raw md warn e : ptxn_raw (eq_ptxn md warn e) = eq_raw_txn e.
Proof.
  unfold ptxn_raw, eq_ptxn, eq_raw_txn. cbn [pt_posts pt_last option_map]. rewrite map_map. reflexivity.
Qed.

(* nothing is written for an empty balance; the empty text is not a journal *)
Lemma empty_export cfg md warn : print_equity md warn [] = [] /\ parse_journal cfg [] = Err E_syntax.
Proof. split; reflexivity. Qed.

(* the description is read back unchanged unless the commodity name ends in white space *)
Lemma stopb_rev_app a b : b <> [] -> stopb Journal.is_ws (rev b) = true -> stopb Journal.is_ws (rev (a ++ b)) = true.
Proof.
  intros Hb H. rewrite rev_app_distr. destruct (rev b) as [|x r] eqn:E.
  - exfalso. apply Hb. rewrite <- (rev_involutive b), E. reflexivity.
  - exact H.
Qed.

Ltac ws_solve :=
  unfold Journal.is_ws, in_rng;
  repeat match goal with |- context [(?a <=? ?b)%N] => destruct (N.leb_spec a b); try lia end;
  repeat match goal with |- context [(?a =? ?b)%N] => destruct (N.eqb_spec a b); try lia end;
  reflexivity.

Lemma hex_not_ws c : is_hex c = true -> Journal.is_ws c = false.
Proof.
  intro H. unfold is_hex, is_digit, in_rng in H.
  assert (B : (48 <= c <= 102)%N).
  { repeat (apply orb_true_iff in H; destruct H as [H|H]); apply andb_true_iff in H as [H1 H2];
      apply N.leb_le in H1, H2; lia. }
  clear H. ws_solve.
Qed.

Lemma lower_hex_not_ws c : is_hex c = true -> Journal.is_ws (lower_hex c) = false.
Proof.
  intro H. unfold lower_hex. destruct (in_rng 65 70 c) eqn:Eu; [|apply hex_not_ws, H].
  unfold in_rng in Eu. apply andb_true_iff in Eu as [E1 E2]. apply N.leb_le in E1, E2.
  assert (B : (97 <= c + 32 <= 102)%N) by lia. revert B. generalize (c + 32)%N. clear. intros y B. ws_solve.
Qed.

Lemma take_hex_not_ws n s a r : take_hex n s = Some (a, r) ->
  forallb (fun c => negb (Journal.is_ws c)) a = true.
Proof.
  intro E'. unfold take_hex in E'. destruct (_ && _) eqn:Eb; [|discriminate]. injection E' as <- _.
  apply andb_true_iff in Eb as [_ Eb]. rewrite forallb_forall in *. intros x Hx.
  apply in_map_iff in Hx as (y & <- & Hy). rewrite (lower_hex_not_ws y (Eb y Hy)). reflexivity.
Qed.

Lemma not_ws_stop u : u <> [] -> forallb (fun c => negb (Journal.is_ws c)) u = true ->
  stopb Journal.is_ws (rev u) = true.
Proof.
  intros Hne H. destruct (rev u) as [|x r] eqn:E; [reflexivity|]. cbn [stopb].
  rewrite forallb_forall in H. apply H. apply in_rev. rewrite E. left. reflexivity.
Qed.

Lemma uuid_stop u : uuid_ok u = true -> stopb Journal.is_ws (rev u) = true /\ u <> [].
Proof.
  intro H. pose proof (uuid_ok_inv u H) as (Hu & c & r & E & _).
  assert (Hne : u <> []) by (rewrite E; discriminate). split; [|exact Hne].
  apply not_ws_stop; [exact Hne|]. clear E Hne.
  unfold take_uuid in Hu.
  destruct (take_hex 8 u) as [[a s1]|] eqn:Ea; [|discriminate].
  destruct (take_char 45 s1) as [s2|]; [|discriminate].
  destruct (take_hex 4 s2) as [[b s3]|] eqn:Eb; [|discriminate].
  destruct (take_char 45 s3) as [s4|]; [|discriminate].
  destruct (take_hex 4 s4) as [[c' s5]|] eqn:Ec; [|discriminate].
  destruct (take_char 45 s5) as [s6|]; [|discriminate].
  destruct (take_hex 4 s6) as [[d s7]|] eqn:Ed; [|discriminate].
  destruct (take_char 45 s7) as [s8|]; [|discriminate].
  destruct (take_hex 12 s8) as [[e' s9]|] eqn:Ee; [|discriminate].
  injection Hu as Hu _. rewrite <- Hu.
  rewrite forallb_app, (take_hex_not_ws _ _ _ _ Ea). cbn [forallb andb].
  rewrite forallb_app, (take_hex_not_ws _ _ _ _ Eb). cbn [forallb andb].
  rewrite forallb_app, (take_hex_not_ws _ _ _ _ Ec). cbn [forallb andb].
  rewrite forallb_app, (take_hex_not_ws _ _ _ _ Ed). cbn [forallb andb].
  rewrite (take_hex_not_ws _ _ _ _ Ee). reflexivity.
Qed.

Lemma eq_desc_trim e : eq_desc_plain e = true ->
  match e_uuid e with Some u => uuid_ok u | None => true end = true -> trim_end (eq_desc e) = eq_desc e.
Proof.
  intros Hp Hu. apply trim_end_fix_iff. unfold eq_desc_plain in Hp. apply str_eqb_true in Hp.
  apply trim_end_fix_iff in Hp. unfold eq_desc.
  destruct (e_uuid e) as [u|].
  - destruct (uuid_stop u Hu) as [Hs Hne]. rewrite app_assoc. apply stopb_rev_app.
    + destruct u; [congruence|]. cbn [s_last_uuid app]. discriminate.
    + apply stopb_rev_app; assumption.
  - rewrite app_nil_r. destruct (e_comm e) as [|x c] eqn:Ec; [reflexivity|].
    apply stopb_rev_app; [discriminate|]. apply stopb_rev_app; [discriminate|exact Hp].
Qed.

Lemma eq_comm_ok_plain e : eq_comm_ok (e_comm e) = true -> eq_desc_plain e = true.
Proof.
  intro H. pose proof (eq_comm_ok_sem _ H) as Hs. unfold eq_desc_plain.
  destruct (e_comm e) as [|x c] eqn:E; [reflexivity|].
  assert (Ht : trim_end (x :: c) = x :: c).
  { apply trim_end_fix_iff. apply not_ws_stop; [discriminate|exact Hs]. }
  rewrite Ht. apply str_eqb_same.
Qed.

(* for a well-formed exported transaction the description is read back exactly *)
Lemma eq_desc_trim_wf e : eq_txn_wf e = true -> trim_end (eq_desc e) = eq_desc e.
Proof.
  intro H. destruct (eq_txn_wf_inv e H) as (_ & Hc & Hu & _). apply eq_desc_trim; [apply eq_comm_ok_plain, Hc|exact Hu].
Qed.

(* ------------------------------------------------------------------ stage 4: loading the text *)
Lemma eqt_posting_eq p : eqt_posting p = eq_posting p.
Proof. reflexivity. Qed.

Lemma combine_none (l : list posting) (m : list eq_post) (g : eq_post -> posting) : l = map g m ->
  map (fun pc : posting * option (list N) => mkJPost (fst pc) (snd pc)) (combine l (map (fun _ : eq_post => @None (list N)) m))
  = map (fun p => mkJPost (g p) None) m.
Proof. intros ->. induction m as [|p m IH]; [reflexivity|]. cbn [map combine fst snd]. rewrite IH. reflexivity. Qed.

Lemma accept_eq_ptxn md warn e : accept_txn (eq_raw_txn e) = Ok (map eq_posting (eq_all_posts e)) ->
  accept_ptxn (eq_ptxn md warn e) = Ok (eq_jtxn md warn e).
Proof.
  intro Ha. unfold accept_ptxn. rewrite eq_ptxn_raw, Ha. cbn [res_bind].
  unfold ptxn_comments, eq_ptxn. cbn [pt_posts pt_last pt_hdr]. rewrite app_nil_r, map_map. cbn [snd].
  rewrite (combine_none _ (eq_all_posts e) eq_posting eq_refl). reflexivity.
Qed.

Theorem load_export cfg md warn es : es <> [] -> export_wf md warn es = true ->
  (forall e, In e es -> accept_txn (eq_raw_txn e) = Ok (map eq_posting (eq_all_posts e))) ->
  load_journal cfg (print_equity md warn es) = Ok (sort_by jtxn_leb (map (eq_jtxn md warn) es)).
Proof.
  intros Hne Hwf Hacc. unfold load_journal. rewrite (parse_export cfg md warn es Hne Hwf). cbn [res_bind].
  assert (Hm : mapM accept_ptxn (map (eq_ptxn md warn) es) = Ok (map (eq_jtxn md warn) es)).
  { clear Hne Hwf. induction es as [|e es IH]; [reflexivity|]. cbn [map mapM].
    rewrite (accept_eq_ptxn md warn e (Hacc e (or_introl eq_refl))).
    rewrite IH by (intros e' He'; apply Hacc; right; exact He'). reflexivity. }
  rewrite Hm. reflexivity.
Qed.

(* ------------------------------------------------------------------ stage 5: composition with C10 *)
Lemma jtxns_bposts_eq md warn es : jtxns_bposts (map (eq_jtxn md warn) es) = eq_bposts es.
Proof.
  unfold jtxns_bposts, eq_bposts. induction es as [|e es IH]; [reflexivity|]. cbn [map flat_map].
  rewrite IH. f_equal. unfold eq_jtxn. cbn [jt_posts]. rewrite map_map. reflexivity.
Qed.

Lemma carried_perm eqa ras ps eps eps' : Permutation eps' eps -> Carried eqa ras ps eps -> Carried eqa ras ps eps'.
Proof. intros Hp H k. rewrite (c10_spec_own_perm eps eps' k Hp). apply H. Qed.

(* the equity export TEXT of a well-formed source, loaded as a journal: accepted, and the own
   sums of the loaded transactions are the selected balances of the source, the equity account
   absorbing minus the total of each commodity *)
Theorem text_carries_balances cfg known eqa ras ts es md warn :
  txns_wf ts -> equity known eqa ras ts = Some es -> es <> [] -> export_wf md warn es = true ->
  exists jts, load_journal cfg (print_equity md warn es) = Ok jts /\ TextCarries eqa ras md warn ts es jts.
Proof.
  intros Hwf He Hne Hexp.
  exists (sort_by jtxn_leb (map (eq_jtxn md warn) es)). split.
  - apply load_export; [exact Hne|exact Hexp|].
    intros e Hin. apply (c10_equity_accept known eqa ras ts es Hwf He e Hin).
  - split; [reflexivity|].
    apply (carried_perm eqa ras _ (eq_bposts es)); [|apply (equity_carry known eqa ras ts es Hwf He)].
    rewrite <- (jtxns_bposts_eq md warn es). unfold jtxns_bposts. apply Permutation_flat_map. apply sort_by_perm.
Qed.

(* ------------------------------------------------------------------ stage 5b: the export of a well-formed source is well formed *)
Lemma src_txn_ok_inv t : src_txn_ok t = true ->
  ts_ok (h_inst (t_hdr t)) (h_off (t_hdr t)) = true
  /\ match h_uuid (t_hdr t) with Some u => uuid_ok u | None => true end = true
  /\ forall q, In q (t_posts t) -> eq_acct_ok (p_acc q) = true /\ eq_comm_ok (p_comm q) = true.
Proof.
  unfold src_txn_ok. intro H. apply andb_true_iff in H as [H H3]. apply andb_true_iff in H as [H1 H2].
  split; [exact H1|]. split; [exact H2|]. intros q Hq. rewrite forallb_forall in H3. specialize (H3 q Hq).
  unfold src_post_ok in H3. apply andb_true_iff in H3 as [A B]. split; assumption.
Qed.

Lemma nonzero_key_in ps k : spec_own ps k <> 0 -> In k (map bp_key ps).
Proof.
  intro NZ. destruct (in_dec key_eq_dec k (map bp_key ps)) as [H|H]; [exact H|].
  exfalso. apply NZ. apply spec_own_notin. exact H.
Qed.

Theorem export_wf_of_source known eqa ras ts es md warn :
  txns_wf ts -> forallb src_txn_ok ts = true -> eq_acct_ok eqa = true ->
  equity known eqa ras ts = Some es -> amounts_fit es = true -> md_wf md = true -> warn_wf warn = true ->
  export_wf md warn es = true.
Proof.
  intros Hwf Hsrc Heqa H Hfit Hmd Hwarn. unfold export_wf. rewrite Hmd, Hwarn. cbn [andb].
  destruct (c10_equity_open known eqa ras ts es H) as (rows0 & Hb & Hcase).
  destruct (c10_rows_facts known ts rows0 Hwf Hb) as (Hown & Hdwf & Hs & Hn & Hk).
  destruct Hcase as [[Er Ee]|(lt & Hl & Ee)]; [subst es; reflexivity|].
  destruct (c10_is_last ts lt Hl) as (t & Ht & Eh & _).
  rewrite forallb_forall in Hsrc.
  destruct (src_txn_ok_inv t (Hsrc t Ht)) as (Hts & Huu & _). rewrite Eh in Hts, Huu.
  apply forallb_forall. intros e He.
  unfold amounts_fit in Hfit. rewrite forallb_forall in Hfit. pose proof (Hfit e He) as Hfe.
  rewrite forallb_forall in Hfe.
  subst es. apply in_map_iff in He as ([c rs] & E & Hc).
  assert (Hrow : forall r, In r rs -> eq_acct_ok (r_acc r) = true /\ eq_comm_ok (r_comm r) = true /\ r_comm r = c).
  { intros r Hr. destruct (c10_chunk_in_rows rows0 ras Hs c rs r Hc Hr) as [X Y].
    assert (Hkey : In (r_key r) (map r_key (filter (get_acc_selector ras) rows0))) by (apply in_map; exact X).
    apply (c10_sel_row_iff (txn_bposts ts) rows0 Hwf Hown Hk ras) in Hkey. destruct Hkey as [_ NZ].
    apply nonzero_key_in in NZ. apply in_map_iff in NZ as (p & Ep & Hp).
    unfold txn_bposts in Hp. apply in_flat_map in Hp as (t' & Ht' & Hp). apply in_map_iff in Hp as (q & Eq & Hq).
    destruct (src_txn_ok_inv t' (Hsrc t' Ht')) as (_ & _ & Hposts). destruct (Hposts q Hq) as [A B].
    subst p. unfold bp_key, post_bpost, r_key in Ep. cbn [bp_acc bp_comm] in Ep. injection Ep as E1 E2.
    split; [rewrite <- E1; exact A|]. split; [rewrite <- E2; exact B|exact Y]. }
  assert (Hne : rs <> []).
  { pose proof (c10_chunk_wf (filter (get_acc_selector ras) rows0)) as W. rewrite Forall_forall in W. apply (W _ Hc). }
  assert (Hcomm : eq_comm_ok c = true).
  { destruct rs as [|r rs']; [congruence|]. destruct (Hrow r (or_introl eq_refl)) as (_ & B & <-). exact B. }
  unfold eq_txn_wf. rewrite <- E at 1 2 3 4. unfold equity_txn at 1 2 3 4. cbn [e_inst e_off e_comm e_uuid fst].
  rewrite Hts, Hcomm, Huu. cbn [andb].
  assert (Hall : forallb eq_post_wf (eq_all_posts e) = true).
  { apply forallb_forall. intros p Hp. unfold eq_post_wf. rewrite (Hfe p Hp).
    rewrite <- E in Hp. unfold eq_all_posts, equity_txn in Hp. cbn [e_posts e_bal fst snd] in Hp.
    apply in_app_or in Hp as [Hp|Hp].
    - apply in_map_iff in Hp as (r & <- & Hr). cbn [ep_acc ep_comm]. destruct (Hrow r Hr) as (A & B & _).
      rewrite A, B. reflexivity.
    - destruct (is_zero (dsum (map r_own rs))); [destruct Hp|]. destruct Hp as [<-|[]]. cbn [ep_acc ep_comm].
      rewrite Heqa, Hcomm. reflexivity. }
  rewrite Hall, andb_true_r. rewrite <- E. unfold eq_all_posts, equity_txn. cbn [e_posts e_bal fst snd].
  destruct rs; [congruence|reflexivity].
Qed.

(* the composed statement on the source: the hypotheses are those of a loaded journal plus the
   decimal domain of the written amounts *)
Theorem text_carries_balances_src cfg known eqa ras ts es md warn :
  txns_wf ts -> forallb src_txn_ok ts = true -> eq_acct_ok eqa = true ->
  equity known eqa ras ts = Some es -> es <> [] -> amounts_fit es = true -> md_wf md = true -> warn_wf warn = true ->
  exists jts, load_journal cfg (print_equity md warn es) = Ok jts /\ TextCarries eqa ras md warn ts es jts.
Proof.
  intros Hwf Hsrc Heqa He Hne Hfit Hmd Hwarn.
  apply (text_carries_balances cfg known eqa ras ts es md warn Hwf He Hne).
  apply (export_wf_of_source known eqa ras ts es md warn Hwf Hsrc Heqa He Hfit Hmd Hwarn).
Qed.

(* ------------------------------------------------------------------ witnesses *)
(* the journal of C10's example (three transactions out of order, two commodities) with uuids, audit
   mode on; the two texts are the implementation's equity exports of it (selectors "a:.*", "e" with
   equity account E:O / no selector), metadata lines included *)
Definition t02_ex_hdr (i : Z) (u : list N) : header := mkHeader i 0 None None (Some u) None [] [].
Definition t02_ex_ts : list txn :=
  [ mkTxn (t02_ex_hdr 10 [49; 49; 49; 49; 49; 49; 49; 49; 45; 49; 49; 49; 49; 45; 52; 49; 49; 49; 45; 56; 49; 49; 49; 45; 49; 49; 49; 49; 49; 49; 49; 49; 49; 49; 49; 49]%N) [c10_ex_post c10_ab c10_E 150 2; c10_ex_post c10_e c10_E (-150) 2];
    mkTxn (t02_ex_hdr 30 [51; 51; 51; 51; 51; 51; 51; 51; 45; 51; 51; 51; 51; 45; 52; 51; 51; 51; 45; 56; 51; 51; 51; 45; 51; 51; 51; 51; 51; 51; 51; 51; 51; 51; 51; 51]%N) [c10_ex_post c10_ac [] 2 0; c10_ex_post c10_ab [] 3 0; c10_ex_post c10_x [] (-5) 0];
    mkTxn (t02_ex_hdr 20 [50; 50; 50; 50; 50; 50; 50; 50; 45; 50; 50; 50; 50; 45; 52; 50; 50; 50; 45; 56; 50; 50; 50; 45; 50; 50; 50; 50; 50; 50; 50; 50; 50; 50; 50; 50]%N) [c10_ex_post c10_ab c10_E (-15) 1; c10_ex_post c10_x c10_E 15 1] ].
Definition t02_ex_md_sel : list (list (list N)) :=
    [[[84; 120; 110; 32; 83; 101; 116; 32; 67; 104; 101; 99; 107; 115; 117; 109]%N; [32; 32; 32; 32; 32; 32; 32; 32; 83; 72; 65; 45; 50; 53; 54; 32; 58; 32; 102; 48; 52; 97; 51; 57; 53; 100; 53; 101; 52; 57; 55; 102; 50; 98; 97; 55; 55; 98; 100; 49; 55; 99; 50; 49; 98; 100; 49; 54; 55; 99; 56; 98; 51; 98; 51; 102; 57; 52; 51; 55; 57; 101; 99; 101; 102; 52; 53; 50; 98; 99; 57; 100; 98; 52; 52; 48; 100; 48; 102; 98; 98; 51]%N; [32; 32; 32; 32; 32; 32; 32; 83; 101; 116; 32; 115; 105; 122; 101; 32; 58; 32; 51]%N];
     [[65; 99; 99; 111; 117; 110; 116; 32; 83; 101; 108; 101; 99; 116; 111; 114; 32; 67; 104; 101; 99; 107; 115; 117; 109]%N; [32; 32; 32; 32; 32; 32; 32; 32; 83; 72; 65; 45; 50; 53; 54; 32; 58; 32; 51; 51; 48; 97; 54; 55; 55; 56; 50; 53; 48; 51; 50; 101; 53; 57; 49; 50; 50; 52; 102; 100; 100; 97; 48; 101; 53; 51; 53; 97; 56; 102; 57; 100; 53; 49; 48; 51; 99; 48; 97; 48; 99; 52; 100; 52; 99; 102; 48; 101; 98; 98; 50; 100; 99; 48; 57; 49; 102; 56; 51; 98; 56; 52]%N]].
Definition t02_ex_md_all : list (list (list N)) :=
    [[[84; 120; 110; 32; 83; 101; 116; 32; 67; 104; 101; 99; 107; 115; 117; 109]%N; [32; 32; 32; 32; 32; 32; 32; 32; 83; 72; 65; 45; 50; 53; 54; 32; 58; 32; 102; 48; 52; 97; 51; 57; 53; 100; 53; 101; 52; 57; 55; 102; 50; 98; 97; 55; 55; 98; 100; 49; 55; 99; 50; 49; 98; 100; 49; 54; 55; 99; 56; 98; 51; 98; 51; 102; 57; 52; 51; 55; 57; 101; 99; 101; 102; 52; 53; 50; 98; 99; 57; 100; 98; 52; 52; 48; 100; 48; 102; 98; 98; 51]%N; [32; 32; 32; 32; 32; 32; 32; 83; 101; 116; 32; 115; 105; 122; 101; 32; 58; 32; 51]%N];
     [[65; 99; 99; 111; 117; 110; 116; 32; 83; 101; 108; 101; 99; 116; 111; 114; 32; 67; 104; 101; 99; 107; 115; 117; 109]%N; [32; 32; 32; 32; 32; 32; 32; 32; 32; 32; 32; 78; 111; 110; 101; 32; 58; 32; 115; 101; 108; 101; 99; 116; 32; 97; 108; 108; 32; 110; 111; 110; 45; 122; 101; 114; 111]%N]].
Definition t02_ex_text_sel : list N :=
  [49; 57; 55; 48; 45; 48; 49; 45; 48; 49; 84; 48; 48; 58; 48; 48; 58; 48; 48; 46; 48; 48; 48; 48; 48; 48; 48; 51; 43; 48; 48; 58; 48; 48; 32; 39; 69; 113; 117; 105; 116; 121; 58; 32; 108; 97; 115; 116; 32; 116; 120; 110; 32; 40; 117; 117; 105; 100; 41; 58; 32; 51; 51; 51; 51; 51; 51; 51; 51; 45; 51; 51; 51; 51; 45; 52; 51; 51; 51; 45; 56; 51; 51; 51; 45; 51; 51; 51; 51; 51; 51; 51; 51; 51; 51; 51; 51; 10; 32; 32; 32; 59; 32; 84; 120; 110; 32; 83; 101; 116; 32; 67; 104; 101; 99; 107; 115; 117; 109; 10; 32; 32; 32; 59; 32; 32; 32; 32; 32; 32; 32; 32; 32; 83; 72; 65; 45; 50; 53; 54; 32; 58; 32; 102; 48; 52; 97; 51; 57; 53; 100; 53; 101; 52; 57; 55; 102; 50; 98; 97; 55; 55; 98; 100; 49; 55; 99; 50; 49; 98; 100; 49; 54; 55; 99; 56; 98; 51; 98; 51; 102; 57; 52; 51; 55; 57; 101; 99; 101; 102; 52; 53; 50; 98; 99; 57; 100; 98; 52; 52; 48; 100; 48; 102; 98; 98; 51; 10; 32; 32; 32; 59; 32; 32; 32; 32; 32; 32; 32; 32; 83; 101; 116; 32; 115; 105; 122; 101; 32; 58; 32; 51; 10; 32; 32; 32; 59; 32; 10; 32; 32; 32; 59; 32; 65; 99; 99; 111; 117; 110; 116; 32; 83; 101; 108; 101; 99; 116; 111; 114; 32; 67; 104; 101; 99; 107; 115; 117; 109; 10; 32; 32; 32; 59; 32; 32; 32; 32; 32; 32; 32; 32; 32; 83; 72; 65; 45; 50; 53; 54; 32; 58; 32; 51; 51; 48; 97; 54; 55; 55; 56; 50; 53; 48; 51; 50; 101; 53; 57; 49; 50; 50; 52; 102; 100; 100; 97; 48; 101; 53; 51; 53; 97; 56; 102; 57; 100; 53; 49; 48; 51; 99; 48; 97; 48; 99; 52; 100; 52; 99; 102; 48; 101; 98; 98; 50; 100; 99; 48; 57; 49; 102; 56; 51; 98; 56; 52; 10; 32; 32; 32; 59; 32; 10; 32; 32; 32; 97; 58; 98; 32; 32; 51; 10; 32; 32; 32; 97; 58; 99; 32; 32; 50; 10; 32; 32; 32; 69; 58; 79; 32; 32; 45; 53; 10; 10; 49; 57; 55; 48; 45; 48; 49; 45; 48; 49; 84; 48; 48; 58; 48; 48; 58; 48; 48; 46; 48; 48; 48; 48; 48; 48; 48; 51; 43; 48; 48; 58; 48; 48; 32; 39; 69; 113; 117; 105; 116; 121; 32; 102; 111; 114; 32; 69; 58; 32; 108; 97; 115; 116; 32; 116; 120; 110; 32; 40; 117; 117; 105; 100; 41; 58; 32; 51; 51; 51; 51; 51; 51; 51; 51; 45; 51; 51; 51; 51; 45; 52; 51; 51; 51; 45; 56; 51; 51; 51; 45; 51; 51; 51; 51; 51; 51; 51; 51; 51; 51; 51; 51; 10; 32; 32; 32; 59; 32; 84; 120; 110; 32; 83; 101; 116; 32; 67; 104; 101; 99; 107; 115; 117; 109; 10; 32; 32; 32; 59; 32; 32; 32; 32; 32; 32; 32; 32; 32; 83; 72; 65; 45; 50; 53; 54; 32; 58; 32; 102; 48; 52; 97; 51; 57; 53; 100; 53; 101; 52; 57; 55; 102; 50; 98; 97; 55; 55; 98; 100; 49; 55; 99; 50; 49; 98; 100; 49; 54; 55; 99; 56; 98; 51; 98; 51; 102; 57; 52; 51; 55; 57; 101; 99; 101; 102; 52; 53; 50; 98; 99; 57; 100; 98; 52; 52; 48; 100; 48; 102; 98; 98; 51; 10; 32; 32; 32; 59; 32; 32; 32; 32; 32; 32; 32; 32; 83; 101; 116; 32; 115; 105; 122; 101; 32; 58; 32; 51; 10; 32; 32; 32; 59; 32; 10; 32; 32; 32; 59; 32; 65; 99; 99; 111; 117; 110; 116; 32; 83; 101; 108; 101; 99; 116; 111; 114; 32; 67; 104; 101; 99; 107; 115; 117; 109; 10; 32; 32; 32; 59; 32; 32; 32; 32; 32; 32; 32; 32; 32; 83; 72; 65; 45; 50; 53; 54; 32; 58; 32; 51; 51; 48; 97; 54; 55; 55; 56; 50; 53; 48; 51; 50; 101; 53; 57; 49; 50; 50; 52; 102; 100; 100; 97; 48; 101; 53; 51; 53; 97; 56; 102; 57; 100; 53; 49; 48; 51; 99; 48; 97; 48; 99; 52; 100; 52; 99; 102; 48; 101; 98; 98; 50; 100; 99; 48; 57; 49; 102; 56; 51; 98; 56; 52; 10; 32; 32; 32; 59; 32; 10; 32; 32; 32; 101; 32; 32; 45; 49; 46; 53; 48; 32; 69; 10; 32; 32; 32; 69; 58; 79; 32; 32; 49; 46; 53; 48; 32; 69; 10; 10]%N.
Definition t02_ex_text_all : list N :=
  [49; 57; 55; 48; 45; 48; 49; 45; 48; 49; 84; 48; 48; 58; 48; 48; 58; 48; 48; 46; 48; 48; 48; 48; 48; 48; 48; 51; 43; 48; 48; 58; 48; 48; 32; 39; 69; 113; 117; 105; 116; 121; 58; 32; 108; 97; 115; 116; 32; 116; 120; 110; 32; 40; 117; 117; 105; 100; 41; 58; 32; 51; 51; 51; 51; 51; 51; 51; 51; 45; 51; 51; 51; 51; 45; 52; 51; 51; 51; 45; 56; 51; 51; 51; 45; 51; 51; 51; 51; 51; 51; 51; 51; 51; 51; 51; 51; 10; 32; 32; 32; 59; 32; 84; 120; 110; 32; 83; 101; 116; 32; 67; 104; 101; 99; 107; 115; 117; 109; 10; 32; 32; 32; 59; 32; 32; 32; 32; 32; 32; 32; 32; 32; 83; 72; 65; 45; 50; 53; 54; 32; 58; 32; 102; 48; 52; 97; 51; 57; 53; 100; 53; 101; 52; 57; 55; 102; 50; 98; 97; 55; 55; 98; 100; 49; 55; 99; 50; 49; 98; 100; 49; 54; 55; 99; 56; 98; 51; 98; 51; 102; 57; 52; 51; 55; 57; 101; 99; 101; 102; 52; 53; 50; 98; 99; 57; 100; 98; 52; 52; 48; 100; 48; 102; 98; 98; 51; 10; 32; 32; 32; 59; 32; 32; 32; 32; 32; 32; 32; 32; 83; 101; 116; 32; 115; 105; 122; 101; 32; 58; 32; 51; 10; 32; 32; 32; 59; 32; 10; 32; 32; 32; 59; 32; 65; 99; 99; 111; 117; 110; 116; 32; 83; 101; 108; 101; 99; 116; 111; 114; 32; 67; 104; 101; 99; 107; 115; 117; 109; 10; 32; 32; 32; 59; 32; 32; 32; 32; 32; 32; 32; 32; 32; 32; 32; 32; 78; 111; 110; 101; 32; 58; 32; 115; 101; 108; 101; 99; 116; 32; 97; 108; 108; 32; 110; 111; 110; 45; 122; 101; 114; 111; 10; 32; 32; 32; 59; 32; 10; 32; 32; 32; 59; 32; 87; 65; 82; 78; 73; 78; 71; 58; 10; 32; 32; 32; 59; 32; 87; 65; 82; 78; 73; 78; 71; 58; 32; 84; 104; 101; 32; 115; 117; 109; 32; 111; 102; 32; 101; 113; 117; 105; 116; 121; 32; 116; 114; 97; 110; 115; 97; 99; 116; 105; 111; 110; 32; 105; 115; 32; 122; 101; 114; 111; 32; 119; 105; 116; 104; 111; 117; 116; 32; 101; 113; 117; 105; 116; 121; 32; 97; 99; 99; 111; 117; 110; 116; 46; 10; 32; 32; 32; 59; 32; 87; 65; 82; 78; 73; 78; 71; 58; 32; 84; 104; 101; 114; 101; 102; 111; 114; 101; 32; 116; 104; 101; 114; 101; 32; 105; 115; 32; 110; 111; 32; 101; 113; 117; 105; 116; 121; 32; 112; 111; 115; 116; 105; 110; 103; 32; 114; 111; 119; 44; 32; 97; 110; 100; 32; 116; 104; 105; 115; 32; 105; 115; 32; 112; 114; 111; 98; 97; 98; 108; 121; 32; 110; 111; 116; 32; 114; 105; 103; 104; 116; 46; 10; 32; 32; 32; 59; 32; 87; 65; 82; 78; 73; 78; 71; 58; 32; 73; 115; 32; 116; 104; 101; 32; 97; 99; 99; 111; 117; 110; 116; 32; 115; 101; 108; 101; 99; 116; 111; 114; 32; 99; 111; 114; 114; 101; 99; 116; 32; 102; 111; 114; 32; 116; 104; 105; 115; 32; 69; 113; 117; 105; 116; 121; 32; 101; 120; 112; 111; 114; 116; 63; 10; 32; 32; 32; 59; 32; 87; 65; 82; 78; 73; 78; 71; 58; 10; 32; 32; 32; 97; 58; 98; 32; 32; 51; 10; 32; 32; 32; 97; 58; 99; 32; 32; 50; 10; 32; 32; 32; 120; 32; 32; 45; 53; 10; 10; 49; 57; 55; 48; 45; 48; 49; 45; 48; 49; 84; 48; 48; 58; 48; 48; 58; 48; 48; 46; 48; 48; 48; 48; 48; 48; 48; 51; 43; 48; 48; 58; 48; 48; 32; 39; 69; 113; 117; 105; 116; 121; 32; 102; 111; 114; 32; 69; 58; 32; 108; 97; 115; 116; 32; 116; 120; 110; 32; 40; 117; 117; 105; 100; 41; 58; 32; 51; 51; 51; 51; 51; 51; 51; 51; 45; 51; 51; 51; 51; 45; 52; 51; 51; 51; 45; 56; 51; 51; 51; 45; 51; 51; 51; 51; 51; 51; 51; 51; 51; 51; 51; 51; 10; 32; 32; 32; 59; 32; 84; 120; 110; 32; 83; 101; 116; 32; 67; 104; 101; 99; 107; 115; 117; 109; 10; 32; 32; 32; 59; 32; 32; 32; 32; 32; 32; 32; 32; 32; 83; 72; 65; 45; 50; 53; 54; 32; 58; 32; 102; 48; 52; 97; 51; 57; 53; 100; 53; 101; 52; 57; 55; 102; 50; 98; 97; 55; 55; 98; 100; 49; 55; 99; 50; 49; 98; 100; 49; 54; 55; 99; 56; 98; 51; 98; 51; 102; 57; 52; 51; 55; 57; 101; 99; 101; 102; 52; 53; 50; 98; 99; 57; 100; 98; 52; 52; 48; 100; 48; 102; 98; 98; 51; 10; 32; 32; 32; 59; 32; 32; 32; 32; 32; 32; 32; 32; 83; 101; 116; 32; 115; 105; 122; 101; 32; 58; 32; 51; 10; 32; 32; 32; 59; 32; 10; 32; 32; 32; 59; 32; 65; 99; 99; 111; 117; 110; 116; 32; 83; 101; 108; 101; 99; 116; 111; 114; 32; 67; 104; 101; 99; 107; 115; 117; 109; 10; 32; 32; 32; 59; 32; 32; 32; 32; 32; 32; 32; 32; 32; 32; 32; 32; 78; 111; 110; 101; 32; 58; 32; 115; 101; 108; 101; 99; 116; 32; 97; 108; 108; 32; 110; 111; 110; 45; 122; 101; 114; 111; 10; 32; 32; 32; 59; 32; 10; 32; 32; 32; 59; 32; 87; 65; 82; 78; 73; 78; 71; 58; 10; 32; 32; 32; 59; 32; 87; 65; 82; 78; 73; 78; 71; 58; 32; 84; 104; 101; 32; 115; 117; 109; 32; 111; 102; 32; 101; 113; 117; 105; 116; 121; 32; 116; 114; 97; 110; 115; 97; 99; 116; 105; 111; 110; 32; 105; 115; 32; 122; 101; 114; 111; 32; 119; 105; 116; 104; 111; 117; 116; 32; 101; 113; 117; 105; 116; 121; 32; 97; 99; 99; 111; 117; 110; 116; 46; 10; 32; 32; 32; 59; 32; 87; 65; 82; 78; 73; 78; 71; 58; 32; 84; 104; 101; 114; 101; 102; 111; 114; 101; 32; 116; 104; 101; 114; 101; 32; 105; 115; 32; 110; 111; 32; 101; 113; 117; 105; 116; 121; 32; 112; 111; 115; 116; 105; 110; 103; 32; 114; 111; 119; 44; 32; 97; 110; 100; 32; 116; 104; 105; 115; 32; 105; 115; 32; 112; 114; 111; 98; 97; 98; 108; 121; 32; 110; 111; 116; 32; 114; 105; 103; 104; 116; 46; 10; 32; 32; 32; 59; 32; 87; 65; 82; 78; 73; 78; 71; 58; 32; 73; 115; 32; 116; 104; 101; 32; 97; 99; 99; 111; 117; 110; 116; 32; 115; 101; 108; 101; 99; 116; 111; 114; 32; 99; 111; 114; 114; 101; 99; 116; 32; 102; 111; 114; 32; 116; 104; 105; 115; 32; 69; 113; 117; 105; 116; 121; 32; 101; 120; 112; 111; 114; 116; 63; 10; 32; 32; 32; 59; 32; 87; 65; 82; 78; 73; 78; 71; 58; 10; 32; 32; 32; 101; 32; 32; 45; 49; 46; 53; 48; 32; 69; 10; 32; 32; 32; 120; 32; 32; 49; 46; 53; 32; 69; 10; 10]%N.

Definition t02_ex_obs (md : list (list (list N))) (o : option (list eq_txn)) :=
  option_map (fun es => (export_wf md default_warn_lines es, amounts_fit es, forallb eq_desc_plain es,
                         print_equity md default_warn_lines es)) o.

Lemma t02_example :
  txns_wf t02_ex_ts /\ forallb src_txn_ok t02_ex_ts = true /\ eq_acct_ok c10_eo = true
  /\ t02_ex_obs t02_ex_md_sel (equity (fun _ => true) c10_eo (Some c10_ex_sel) t02_ex_ts)
     = Some (true, true, true, t02_ex_text_sel)
  /\ t02_ex_obs t02_ex_md_all (equity (fun _ => true) c10_eo None t02_ex_ts)
     = Some (true, true, true, t02_ex_text_all).
Proof.
  split; [|split; [|split; [|split]]; vm_compute; reflexivity].
  unfold txns_wf, t02_ex_ts, txn_bposts, c10_ab, c10_ac, c10_e, c10_x, c10_E.
  cbn [flat_map map t_posts app post_bpost c10_ex_post p_acc p_comm p_amount].
  unfold bpost_wf, acct_wf, comp_ok, dwf, colon.
  repeat (first [ apply Forall_cons | apply Forall_nil | split ]);
    cbn [bp_amt bp_acc ds In]; try lia; try discriminate;
    intros H; repeat (destruct H as [H|H]; [discriminate H|]); exact H.
Qed.

(* the example texts are accepted by the model loader and yield the equity transactions *)
Lemma t02_example_loaded :
  match equity (fun _ => true) c10_eo (Some c10_ex_sel) t02_ex_ts with
  | Some es => load_journal (mkCfg 0 0) t02_ex_text_sel = Ok (sort_by jtxn_leb (map (eq_jtxn t02_ex_md_sel default_warn_lines) es))
  | None => False
  end.
Proof. vm_compute. reflexivity. Qed.

(* parser::is_valid_id / is_valid_sub_id on the components (Equity_spec.eq_account_ok, the first repair
   of F20) is weaker than the journal grammar: "a!b" passes it, and the export written with it is not a
   journal.  The theorems above therefore assume the grammar's own predicate eq_acct_ok
   (Journal_spec.name_ok + Journal.acct_sem_ok) for the equity account; Settings::try_from now enforces
   exactly that by running the parser's account-name rule on the configured name. *)
Definition t02_bad_eqa : list (list N) := [[97; 33; 98]%N].
Lemma eq_account_ok_insufficient :
  eq_account_ok t02_bad_eqa = true /\ eq_acct_ok t02_bad_eqa = false
  /\ option_map (fun es => (amounts_fit es, parse_journal (mkCfg 0 0) (print_equity [] default_warn_lines es)))
       (equity (fun _ => true) t02_bad_eqa (Some c10_ex_sel) t02_ex_ts) = Some (true, Err E_syntax).
Proof. vm_compute. repeat split; reflexivity. Qed.

(* finding F13 on the equity export: a last transaction shown at an offset that is not a whole minute
   (named journal zone, e.g. +01:39:49) gives a header the grammar rejects; ts_ok cannot be dropped *)
Definition t02_subminute_export : list eq_txn :=
  [ mkEqTxn (-2208994789000000000) 5989 [] None false
      [mkEqPost [[97]%N] [] (mkDec 1 0)] (Some (mkEqPost [[69]%N] [] (mkDec (-1) 0))) ].
Lemma subminute_export_refuted :
  forallb (fun e => forallb eq_post_wf (eq_all_posts e)) t02_subminute_export = true
  /\ parse_journal (mkCfg 0 0) (print_equity [] default_warn_lines t02_subminute_export) = Err E_syntax.
Proof. vm_compute. split; reflexivity. Qed.

(* ------------------------------------------------------------------ the wording of the comments is immaterial *)
(* today's five warning lines are well formed *)
Lemma default_warn_wf : warn_wf default_warn_lines = true.
Proof. vm_compute. reflexivity. Qed.

Lemma eqt_insert_by_map {A B} (f : A -> B) (leb1 : A -> A -> bool) (leb2 : B -> B -> bool) x l :
  (forall y, leb1 x y = leb2 (f x) (f y)) ->
  map f (insert_by leb1 x l) = insert_by leb2 (f x) (map f l).
Proof.
  intro H. induction l as [|y l IH]; [reflexivity|]. cbn [insert_by map].
  rewrite <- (H y). destruct (leb1 x y); [reflexivity|]. cbn [map]. rewrite IH. reflexivity.
Qed.

Lemma eqt_sort_by_map {A B} (f : A -> B) (leb1 : A -> A -> bool) (leb2 : B -> B -> bool) l :
  (forall x y, leb1 x y = leb2 (f x) (f y)) ->
  map f (sort_by leb1 l) = sort_by leb2 (map f l).
Proof.
  intro H. induction l as [|x l IH]; [reflexivity|]. cbn [sort_by map].
  rewrite (eqt_insert_by_map f leb1 leb2 x _ (H x)), IH. reflexivity.
Qed.

(* the canonical order of loaded transactions does not read the comments (TxnHeader::cmp:
   instant, code, description, uuid) *)
Lemma jtxn_leb_no_comments a b : jtxn_leb a b = jtxn_leb (jt_no_comments a) (jt_no_comments b).
Proof. reflexivity. Qed.

Lemma sort_no_comments ts :
  map jt_no_comments (sort_by jtxn_leb ts) = sort_by jtxn_leb (map jt_no_comments ts).
Proof. apply eqt_sort_by_map. exact jtxn_leb_no_comments. Qed.

(* md and warn occur in the loaded transaction in the transaction comments only *)
Lemma eq_jtxn_no_comments md warn md' warn' e :
  jt_no_comments (eq_jtxn md warn e) = jt_no_comments (eq_jtxn md' warn' e).
Proof. reflexivity. Qed.

Lemma eq_jtxn_comments md warn e : h_comments (jt_hdr (eq_jtxn md warn e)) = eq_comments md warn e.
Proof. reflexivity. Qed.

Lemma jtxns_bposts_no_comments ts : jtxns_bposts (map jt_no_comments ts) = jtxns_bposts ts.
Proof.
  unfold jtxns_bposts. induction ts as [|t ts IH]; [reflexivity|]. cbn [map flat_map]. rewrite IH. reflexivity.
Qed.

(* the export text written with ANY two choices of well-formed metadata lines and warning lines
   loads to the same transactions up to the transaction comments: same order, same time stamps,
   descriptions, postings (accounts, amounts, commodities) - in particular the same balances *)
Theorem warn_irrelevant cfg md warn md' warn' es : es <> [] ->
  export_wf md warn es = true -> export_wf md' warn' es = true ->
  (forall e, In e es -> accept_txn (eq_raw_txn e) = Ok (map eq_posting (eq_all_posts e))) ->
  exists jts jts', load_journal cfg (print_equity md warn es) = Ok jts
    /\ load_journal cfg (print_equity md' warn' es) = Ok jts'
    /\ map jt_no_comments jts = map jt_no_comments jts'
    /\ jtxns_bposts jts = jtxns_bposts jts'.
Proof.
  intros Hne Hwf Hwf' Hacc.
  exists (sort_by jtxn_leb (map (eq_jtxn md warn) es)), (sort_by jtxn_leb (map (eq_jtxn md' warn') es)).
  split; [apply load_export; assumption|]. split; [apply load_export; assumption|].
  assert (E : map jt_no_comments (sort_by jtxn_leb (map (eq_jtxn md warn) es))
              = map jt_no_comments (sort_by jtxn_leb (map (eq_jtxn md' warn') es))).
  { rewrite !sort_no_comments, !map_map. reflexivity. }
  split; [exact E|].
  rewrite <- (jtxns_bposts_no_comments (sort_by jtxn_leb (map (eq_jtxn md warn) es))), E.
  apply jtxns_bposts_no_comments.
Qed.

(* witness: the example export with warnings (t02_ex_text_all), written with another wording of the
   five lines and without metadata lines: a different text, well formed, accepted by the loader,
   and the same transactions up to the transaction comments *)
Definition t02_ex_warn_alt : list (list N) :=
  [ [87; 65; 82; 78; 73; 78; 71; 58]%N;
    [87; 65; 82; 78; 73; 78; 71; 58; 32; 84; 104; 101; 32; 112; 111; 115; 116; 105; 110; 103; 115; 32; 111; 102; 32; 116; 104; 105; 115; 32; 101; 113; 117; 105; 116; 121; 32; 116; 114; 97; 110; 115; 97; 99; 116; 105; 111; 110; 32; 115; 117; 109; 32; 117; 112; 32; 116; 111; 32; 122; 101; 114; 111; 32; 119; 105; 116; 104; 111; 117; 116; 32; 101; 113; 117; 105; 116; 121; 32; 97; 99; 99; 111; 117; 110; 116; 46]%N;
    [87; 65; 82; 78; 73; 78; 71; 58; 32; 72; 101; 110; 99; 101; 32; 116; 104; 101; 114; 101; 32; 105; 115; 32; 110; 111; 32; 112; 111; 115; 116; 105; 110; 103; 32; 114; 111; 119; 32; 102; 111; 114; 32; 101; 113; 117; 105; 116; 121; 32; 97; 99; 99; 111; 117; 110; 116; 44; 32; 119; 104; 105; 99; 104; 32; 105; 115; 32; 112; 114; 111; 98; 97; 98; 108; 121; 32; 110; 111; 116; 32; 105; 110; 116; 101; 110; 100; 101; 100; 46]%N;
    [87; 65; 82; 78; 73; 78; 71; 58; 32; 80; 108; 101; 97; 115; 101; 32; 99; 104; 101; 99; 107; 32; 116; 104; 101; 32; 97; 99; 99; 111; 117; 110; 116; 32; 115; 101; 108; 101; 99; 116; 111; 114; 32; 111; 102; 32; 116; 104; 105; 115; 32; 69; 113; 117; 105; 116; 121; 32; 101; 120; 112; 111; 114; 116; 46]%N;
    [87; 65; 82; 78; 73; 78; 71; 58]%N ].
Definition t02_ex_res_nc (r : res (list jtxn)) : option (list jtxn) :=
  match r with Ok jts => Some (map jt_no_comments jts) | Err _ => None end.
Lemma t02_example_reworded :
  warn_wf t02_ex_warn_alt = true
  /\ match equity (fun _ => true) c10_eo None t02_ex_ts with
     | Some es =>
         export_wf [] t02_ex_warn_alt es = true
         /\ list_eqb N.eqb (print_equity [] t02_ex_warn_alt es) t02_ex_text_all = false
         /\ t02_ex_res_nc (load_journal (mkCfg 0 0) (print_equity [] t02_ex_warn_alt es))
            = t02_ex_res_nc (load_journal (mkCfg 0 0) t02_ex_text_all)
         /\ t02_ex_res_nc (load_journal (mkCfg 0 0) t02_ex_text_all) <> None
     | None => False
     end.
Proof. vm_compute. repeat split; try reflexivity. discriminate. Qed.

(* ------------------------------------------------------------------ the oracle is sound *)
Lemma unit_plain_eqb_true a b : unit_plain_eqb a b = true -> a = b.
Proof.
  destruct a as [[c1 o1 k1]|], b as [[c2 o2 k2]|]; cbn [unit_plain_eqb u_comm u_opening u_closing]; try discriminate;
    [|reflexivity].
  intro H. apply andb_true_iff in H as [H1 H2]. apply str_eqb_true in H1. subst c2.
  destruct o1, o2, k1, k2; try discriminate. reflexivity.
Qed.

Lemma rpost_eqb_true a b : rpost_eqb a b = true -> a = b.
Proof.
  unfold rpost_eqb. intro H. apply andb_true_iff in H as [H H4]. apply andb_true_iff in H as [H H3].
  apply andb_true_iff in H as [H1 H2]. apply acct_eqb_eq in H1. apply drepr_eqb_true in H2.
  apply unit_plain_eqb_true in H3. apply (opt_eqb_true _ _ _ str_eqb_true) in H4.
  destruct a as [[a1 a2 a3] ac], b as [[b1 b2 b3] bc]. cbn in *. subst. reflexivity.
Qed.

Lemma ptxn_eqb_true a b : ptxn_eqb a b = true -> a = b.
Proof.
  unfold ptxn_eqb. intro H. apply andb_true_iff in H as [H H3]. apply andb_true_iff in H as [H1 H2].
  apply header_eqb_true in H1. apply (list_eqb_true _ _ _ rpost_eqb_true) in H2.
  destruct a as [ah ap al], b as [bh bp bl]. cbn in *. subst. destruct al, bl; try discriminate. reflexivity.
Qed.

Theorem text_reads_as_sound cfg md warn es text : text_reads_as cfg md warn es text = true -> TextReadsAs cfg md warn es text.
Proof.
  unfold text_reads_as, TextReadsAs. destruct es as [|e es'].
  - destruct text; [reflexivity|discriminate].
  - destruct (parse_journal cfg text) as [pts|]; [|discriminate]. intro H.
    apply (list_eqb_true _ _ _ ptxn_eqb_true) in H. rewrite H. reflexivity.
Qed.

(* what the model text satisfies by the theorems: the oracle's statement *)
Theorem print_equity_reads cfg md warn es : export_wf md warn es = true -> TextReadsAs cfg md warn es (print_equity md warn es).
Proof.
  intro H. unfold TextReadsAs. destruct es as [|e es'] eqn:E; [reflexivity|].
  apply parse_export; [discriminate|exact H].
Qed.
