(* Balance_proofs.v — the lemmas behind props/C02.v. *)
From Coq Require Import Permutation Sorted.
From TkModel Require Import Base Dec Acct Balance.
From TkSpec Require Import Balance_spec.
From TkProofs Require Import Base_proofs Dec_proofs Acct_proofs Chunk_proofs Tree_proofs.
Local Open Scope Z_scope.

(* ------------------------------------------------------------------ *)
(* the executable oracle is sound *)

Lemma key_in_spec k l : key_in k l = true <-> In k l.
Proof.
  unfold key_in. rewrite existsb_exists. split.
  - intros (x & Hx & E). apply key_eqb_eq in E. subst. exact Hx.
  - intros H. exists k. split; [exact H|apply key_eqb_refl].
Qed.

Lemma oracle_sound : forall ps rep,
  report_all_ok ps rep = true ->
  (forall r, In r (b_rows rep) ->
     d28 (r_own r) = spec_own ps (r_key r) /\ d28 (r_tree r) = spec_tree ps (r_key r))
  /\ (forall k, In k (map r_key (b_rows rep)) <-> In k (spec_keys ps))
  /\ (forall c d, In (c, d) (b_deltas rep) -> d28 d = spec_delta (b_rows rep) c).
Proof.
  intros ps rep. unfold report_all_ok, rows_ok, keys_ok, deltas_ok. cbv zeta.
  rewrite !andb_true_iff, !forallb_forall.
  intros [[Hrows [[_ Hk1] Hk2]] [[Hd1 _] _]].
  split; [|split].
  - intros r Hr. specialize (Hrows r Hr). apply andb_true_iff in Hrows.
    destruct Hrows as [H1 H2]. apply Z.eqb_eq in H1. apply Z.eqb_eq in H2. split; assumption.
  - intros k. split; intros Hk.
    + apply key_in_spec. apply Hk1. exact Hk.
    + apply key_in_spec. apply Hk2. exact Hk.
  - intros c d Hin. specialize (Hd1 (c, d) Hin). cbn [fst snd] in Hd1. apply Z.eqb_eq. exact Hd1.
Qed.

(* ------------------------------------------------------------------ *)
(* non-vacuity example *)

Lemma balance_example :
  let ps := [ mkBpost [[97];[98];[99]]%N [69]%N (mkDec 150 2);
              mkBpost [[97];[100]]%N [69]%N (mkDec (-15) 1);
              mkBpost [[101]]%N [] (mkDec 7 0);
              mkBpost [[97]]%N [] (mkDec (-7) 0) ] in
  Forall bpost_wf ps /\
  option_map (fun rep => (length (b_rows rep), map (fun cd => d28 (snd cd)) (b_deltas rep)))
             (balance_report (fun _ => true) (fun l => l) (fun _ => true) ps)
  = Some (6%nat, [0; 0]).
Proof.
  intros ps. split.
  - unfold ps, bpost_wf, acct_wf, comp_ok, dwf, colon.
    repeat (first [ apply Forall_cons | apply Forall_nil | split ]);
      cbn [bp_amt bp_acc ds In]; try lia; try discriminate;
      intros H; repeat (destruct H as [H|H]; [discriminate H|]); exact H.
  - vm_compute. reflexivity.
Qed.

(* ------------------------------------------------------------------ *)
(* account sums: sort, chunk, sum *)

Definition kle (a b : key) : Prop := key_cmp a b <> Gt /\ key_wf a /\ key_wf b.

Lemma kle_antisym a b : kle a b -> kle b a -> a = b.
Proof. intros (H1 & W1 & W2) (H2 & _ & _). apply key_le_antisym; assumption. Qed.

Lemma chunk_acc_gchunk l : forall cur acc, chunk_acc cur acc l = gchunk key_eqb cur acc l.
Proof.
  induction l as [|[k v] l IH]; intros cur acc; cbn [chunk_acc gchunk]; [reflexivity|].
  rewrite !IH. reflexivity.
Qed.

Lemma chunk_sums_gchunks l : chunk_sums l = gchunks key_eqb l.
Proof. destruct l as [|[k v] l]; [reflexivity|]. cbn [chunk_sums gchunks]. apply chunk_acc_gchunk. Qed.

Lemma bpost_key_wf p : bpost_wf p -> key_wf (bp_key p).
Proof. intros [_ H]. exact H. Qed.

Lemma spec_own_notin ps k : ~ In k (map bp_key ps) -> spec_own ps k = 0.
Proof.
  intros H. unfold spec_own. rewrite zsum_map_filter. apply zsum_map_zero_ext.
  intros p Hp. destruct (key_eqb (bp_key p) k) eqn:E; [|reflexivity].
  apply key_eqb_eq in E. exfalso. apply H. rewrite <- E. apply in_map. exact Hp.
Qed.

Lemma account_sums_spec ps : Forall bpost_wf ps ->
  NoDup (map fst (account_sums ps)) /\
  (forall k, In k (map fst (account_sums ps)) <-> In k (map bp_key ps)) /\
  (forall k v, In (k, v) (account_sums ps) -> dwf v /\ d28 v = spec_own ps k).
Proof.
  intros Hwf. unfold account_sums. rewrite chunk_sums_gchunks.
  set (f := fun p => (bp_key p, bp_amt p)).
  set (l := sort_by _ (map f ps)).
  assert (Permutation l (map f ps)) as Hperm by apply sort_by_perm.
  rewrite Forall_forall in Hwf.
  assert (forall e : ksum, In e l -> key_wf (fst e) /\ dwf (snd e)) as Hl.
  { intros e He. apply (Permutation_in _ Hperm) in He. apply in_map_iff in He.
    destruct He as (p & E & Hp). destruct (Hwf p Hp) as [W1 W2]. subst e. split; assumption. }
  assert (StronglySorted kle (map fst l)) as Hs.
  { apply (proj1 (StronglySorted_map kle fst l)).
    eapply StronglySorted_impl; [|apply (sort_by_key_sorted (fun e : ksum => fst e))].
    intros a b Ha Hb H. split; [exact H|]. split; [apply (Hl a Ha)|apply (Hl b Hb)]. }
  assert (Forall (fun e : ksum => dwf (snd e)) l) as Hdw.
  { apply Forall_forall. intros e He. apply (Hl e He). }
  destruct (gchunks_spec key_eqb key_eqb_eq kle kle_antisym l Hs Hdw) as (I1 & I2 & I3).
  assert (Permutation (map fst l) (map bp_key ps)) as Hpk.
  { replace (map bp_key ps) with (map fst (map f ps)) by (rewrite map_map; reflexivity).
    apply Permutation_map. exact Hperm. }
  split; [|split].
  - eapply StronglySorted_NoDup; [|exact I2]. intros a [_ H]. congruence.
  - intros k. rewrite I1. split; apply Permutation_in; [exact Hpk|apply Permutation_sym; exact Hpk].
  - intros k v Hin. destruct (I3 k v Hin) as [W V]. split; [exact W|]. rewrite V.
    rewrite (ksumv_perm key_eqb k l (map f ps) Hperm). unfold ksumv, spec_own.
    rewrite filter_map_comm, map_map. reflexivity.
Qed.

(* ------------------------------------------------------------------ *)
(* bubble_up: every account sum and the chain of its ancestors *)

Section Bubble.
  Variable known : acct -> bool.
  Variable sums : list ksum.

  (* where an entry comes from: an account sum, or a created zero ancestor *)
  Definition bub_src (e' : ksum) : Prop :=
    In e' sums \/ (~ In (fst e') (map fst sums) /\ snd e' = dzero).

  Definition bub_ok (me : ksum) (res : list ksum) : Prop :=
    (forall e', In e' res -> (e' = me \/ bub_src e') /\
       exists i, (0 < i <= length (fst (fst me)))%nat /\
                 fst e' = (firstn i (fst (fst me)), snd (fst me)))
    /\ (forall i, (0 < i <= length (fst (fst me)))%nat ->
          In (firstn i (fst (fst me)), snd (fst me)) (map fst res)).

  Lemma key_eta (me : ksum) : (fst (fst me), snd (fst me)) = fst me.
  Proof. destruct me as [[a c] v]. reflexivity. Qed.

  Lemma bub_ok_step (me pe : ksum) x : (2 <= length (fst (fst me)))%nat ->
    fst pe = (parent (fst (fst me)), snd (fst me)) -> bub_src pe -> bub_ok pe x ->
    bub_ok me (x ++ [me]).
  Proof.
    intros L Epe Hsrc [O1 O2].
    assert (length (fst (fst pe)) = length (fst (fst me)) - 1)%nat as Lp.
    { rewrite Epe. cbn [fst]. apply parent_length. }
    assert (forall i, (i <= length (fst (fst me)) - 1)%nat ->
                      firstn i (fst (fst pe)) = firstn i (fst (fst me))) as Fp.
    { intros i Hi. rewrite Epe. cbn [fst]. rewrite parent_firstn. apply firstn_firstn_le. exact Hi. }
    assert (snd (fst pe) = snd (fst me)) as Cp by (rewrite Epe; reflexivity).
    split.
    - intros e' He'. apply in_app_or in He'. destruct He' as [He'|[He'|[]]].
      + destruct (O1 e' He') as [Hs (i & Hi & Ei)]. split.
        * right. destruct Hs as [Hs|Hs]; [subst e'; exact Hsrc|exact Hs].
        * exists i. split; [lia|]. rewrite Ei, Fp, Cp by lia. reflexivity.
      + subst e'. split; [left; reflexivity|]. exists (length (fst (fst me))). split; [lia|].
        rewrite firstn_all. symmetry. apply key_eta.
    - intros i Hi. rewrite map_app. apply in_or_app.
      destruct (Nat.eq_dec i (length (fst (fst me)))) as [E|E].
      + right. cbn [map In]. left. subst i. rewrite firstn_all. symmetry. apply key_eta.
      + left. rewrite <- Fp, <- Cp by lia. apply O2. lia.
  Qed.

  Lemma bubble_spec : forall fuel (me : ksum) res, acct_wf (fst (fst me)) ->
    bubble known sums fuel me = Some res -> bub_ok me res.
  Proof.
    induction fuel as [|f IH]; intros me res W H; [discriminate H|].
    cbn [bubble] in H. pose proof (acct_wf_length _ W) as L0.
    destruct (Nat.eqb (length (fst (fst me))) 1) eqn:E1.
    - apply Nat.eqb_eq in E1. inversion H; subst res. split.
      + intros e' [He'|[]]. subst e'. split; [left; reflexivity|]. exists 1%nat. split; [lia|].
        rewrite <- E1, firstn_all. symmetry. apply key_eta.
      + intros i Hi. assert (i = length (fst (fst me))) by lia. subst i. rewrite firstn_all.
        cbn [map In]. left. symmetry. apply key_eta.
    - apply Nat.eqb_neq in E1.
      destruct (find (fun e : ksum => is_parent_of (fst e) (fst me)) sums) as [pe|] eqn:Ef.
      + apply find_some in Ef. destruct Ef as [Hpe Hp]. apply is_parent_of_spec in Hp.
        destruct Hp as [Hp1 Hp2].
        destruct (bubble known sums f pe) as [x|] eqn:Eb; [|discriminate H].
        cbn [option_map] in H. inversion H; subst res.
        apply (bub_ok_step me pe x); [lia| |left; exact Hpe|].
        * rewrite <- Hp1, <- Hp2. symmetry. apply key_eta.
        * apply IH; [|exact Eb]. rewrite Hp1. apply parent_wf; [exact W|lia].
      + destruct (known (parent (fst (fst me)))) eqn:Ek; [|discriminate H].
        set (pe := ((parent (fst (fst me)), snd (fst me)), dzero)) in *.
        destruct (bubble known sums f pe) as [x|] eqn:Eb; [|discriminate H].
        cbn [option_map] in H. inversion H; subst res.
        apply (bub_ok_step me pe x); [lia|reflexivity| |].
        * right. split; [|reflexivity]. intros Hin. apply in_map_iff in Hin.
          destruct Hin as (e & Ee & He). pose proof (find_none _ _ Ef e He) as Hn.
          cbn beta in Hn. rewrite Ee in Hn.
          assert (is_parent_of (fst pe) (fst me) = true) as Ht.
          { apply is_parent_of_spec. split; reflexivity. }
          congruence.
        * apply IH; [|exact Eb]. unfold pe. cbn [fst]. apply parent_wf; [exact W|lia].
  Qed.

  Lemma bubble_total : (forall a, known a = true) -> forall fuel (me : ksum),
    acct_wf (fst (fst me)) -> (length (fst (fst me)) <= fuel)%nat ->
    exists res, bubble known sums fuel me = Some res.
  Proof.
    intros Hk. induction fuel as [|f IH]; intros me W L; pose proof (acct_wf_length _ W) as L0; [lia|].
    cbn [bubble]. destruct (Nat.eqb (length (fst (fst me))) 1) eqn:E1; [eexists; reflexivity|].
    apply Nat.eqb_neq in E1.
    destruct (find (fun e : ksum => is_parent_of (fst e) (fst me)) sums) as [pe|] eqn:Ef.
    - apply find_some in Ef. destruct Ef as [_ Hp]. apply is_parent_of_spec in Hp.
      destruct Hp as [Hp1 _]. destruct (IH pe) as [x Hx].
      + rewrite Hp1. apply parent_wf; [exact W|lia].
      + rewrite Hp1, parent_length. lia.
      + rewrite Hx. eexists. reflexivity.
    - rewrite Hk. destruct (IH ((parent (fst (fst me)), snd (fst me)), dzero)) as [x Hx].
      + cbn [fst]. apply parent_wf; [exact W|lia].
      + cbn [fst]. rewrite parent_length. lia.
      + rewrite Hx. eexists. reflexivity.
  Qed.

  Lemma bubble_all_spec : forall todo flat,
    (forall e : ksum, In e todo -> In e sums /\ acct_wf (fst (fst e))) ->
    bubble_all known sums todo = Some flat ->
    (forall e' : ksum, In e' flat -> bub_src e' /\
       exists (e : ksum) i, In e todo /\ (0 < i <= length (fst (fst e)))%nat /\
                   fst e' = (firstn i (fst (fst e)), snd (fst e)))
    /\ (forall (e : ksum) i, In e todo -> (0 < i <= length (fst (fst e)))%nat ->
          In (firstn i (fst (fst e)), snd (fst e)) (map fst flat)).
  Proof.
    induction todo as [|e todo IH]; intros flat Ht H; cbn [bubble_all] in H.
    - inversion H; subst. split; [intros e' []|intros e i []].
    - destruct (bubble known sums (S (length (fst (fst e)))) e) as [l|] eqn:Eb; [|discriminate H].
      destruct (bubble_all known sums todo) as [r|] eqn:Er; [|discriminate H].
      cbn [option_map] in H. inversion H; subst flat.
      destruct (Ht e (or_introl eq_refl)) as [Hes Hew].
      destruct (bubble_spec _ e l Hew Eb) as [O1 O2].
      destruct (IH r (fun x Hx => Ht x (or_intror Hx)) eq_refl) as [I1 I2].
      split.
      + intros e' He'. apply in_app_or in He'. destruct He' as [He'|He'].
        * destruct (O1 e' He') as [Hs (i & Hi & Ei)]. split.
          -- destruct Hs as [Hs|Hs]; [subst; left; exact Hes|exact Hs].
          -- exists e, i. split; [left; reflexivity|split; assumption].
        * destruct (I1 e' He') as [Hs (e0 & i & H0 & Hi & Ei)]. split; [exact Hs|].
          exists e0, i. split; [right; exact H0|split; assumption].
      + intros e0 i [H0|H0] Hi; rewrite map_app; apply in_or_app.
        * subst e0. left. apply O2. exact Hi.
        * right. apply (I2 e0 i H0 Hi).
  Qed.

  Lemma bubble_all_total : (forall a, known a = true) -> forall todo,
    (forall e : ksum, In e todo -> acct_wf (fst (fst e))) ->
    exists flat, bubble_all known sums todo = Some flat.
  Proof.
    intros Hk. induction todo as [|e todo IH]; intros Ht; cbn [bubble_all]; [eexists; reflexivity|].
    destruct (bubble_total Hk (S (length (fst (fst e)))) e) as [l Hl];
      [apply Ht; left; reflexivity|lia|].
    rewrite Hl. destruct IH as [r Hr]; [intros x Hx; apply Ht; right; exact Hx|].
    rewrite Hr. eexists. reflexivity.
  Qed.
End Bubble.

(* ------------------------------------------------------------------ *)
(* the de-duplicated flat list of entries *)

Record all_ok (ps : list bpost) (all : list ksum) : Prop := mkAllOk {
  ao_nodup : NoDup (map fst all);
  ao_keys : forall k, In k (map fst all) <-> In k (spec_keys ps);
  ao_vals : forall k v, In (k, v) all -> dwf v /\ d28 v = spec_own ps k
}.

Lemma spec_keys_wf ps k : Forall bpost_wf ps -> In k (spec_keys ps) -> key_wf k.
Proof.
  intros Hwf Hk. apply spec_keys_in in Hk. destruct Hk as (p & i & Hp & Hi & E).
  rewrite Forall_forall in Hwf. destruct (Hwf p Hp) as [_ W]. subst k. unfold key_wf. cbn [fst].
  apply firstn_wf; [exact W|lia].
Qed.

Lemma spec_keys_self ps p : Forall bpost_wf ps -> In p ps -> In (bp_key p) (spec_keys ps).
Proof.
  intros Hwf Hp. apply spec_keys_in. exists p, (length (bp_acc p)).
  rewrite Forall_forall in Hwf. destruct (Hwf p Hp) as [_ W]. pose proof (acct_wf_length _ W).
  split; [exact Hp|]. split; [lia|]. rewrite firstn_all. reflexivity.
Qed.

Section AllOk.
  Variables (ps : list bpost) (all : list ksum).
  Hypothesis Hwf : Forall bpost_wf ps.
  Hypothesis Hok : all_ok ps all.

  Lemma ao_key_wf (e : ksum) : In e all -> key_wf (fst e).
  Proof.
    intros He. apply (spec_keys_wf ps _ Hwf). apply (ao_keys _ _ Hok). apply in_map. exact He.
  Qed.

  Lemma ao_ne (e : ksum) : In e all -> fst (fst e) <> [].
  Proof. intros He. apply (ao_key_wf e He). Qed.

  Lemma ao_dwf (e : ksum) : In e all -> dwf (snd e).
  Proof. intros He. destruct e as [k v]. apply (ao_vals _ _ Hok k v He). Qed.

  Lemma ao_own (e : ksum) : In e all -> d28 (snd e) = spec_own ps (fst e).
  Proof. intros He. destruct e as [k v]. apply (ao_vals _ _ Hok k v He). Qed.

  Lemma ao_closed : closed all.
  Proof.
    intros e He n Hn. apply (ao_keys _ _ Hok).
    assert (In (fst e) (spec_keys ps)) as Hk by (apply (ao_keys _ _ Hok); apply in_map; exact He).
    apply spec_keys_in in Hk. destruct Hk as (p & i & Hp & Hi & E).
    apply spec_keys_in. exists p, n. rewrite E in *. cbn [fst snd] in *.
    rewrite firstn_length, Nat.min_l in Hn by lia.
    split; [exact Hp|]. split; [lia|]. rewrite firstn_firstn_le by lia. reflexivity.
  Qed.

  Lemma ao_posted p : In p ps -> In (bp_key p) (map fst all).
  Proof. intros Hp. apply (ao_keys _ _ Hok). apply spec_keys_self; assumption. Qed.

  (* a sum of own sums over the entries is the sum over the postings *)
  Lemma ao_sum_pred (Q : key -> bool) :
    zsum (map (fun e : ksum => d28 (snd e)) (filter (fun e : ksum => Q (fst e)) all)) =
    zsum (map amt28 (filter (fun p => Q (bp_key p)) ps)).
  Proof.
    rewrite !zsum_map_filter.
    set (f := fun (p : bpost) (e : ksum) =>
                ind (Q (fst e)) * (ind (key_eqb (bp_key p) (fst e)) * amt28 p)).
    rewrite (zsum_map_ext _ (fun e : ksum => zsum (map (fun p => f p e) ps))).
    2:{ intros e He. rewrite (ao_own e He). unfold spec_own. rewrite zsum_map_filter.
        unfold f. rewrite zsum_map_mul_l. reflexivity. }
    rewrite (zsum_exchange f). apply zsum_map_ext. intros p Hp. unfold f.
    rewrite (zsum_map_ext _ (fun e : ksum => ind (key_eqb (fst e) (bp_key p)) * (ind (Q (bp_key p)) * amt28 p))).
    2:{ intros e _. rewrite (key_eqb_sym (bp_key p) (fst e)).
        destruct (key_eqb (fst e) (bp_key p)) eqn:E; cbn [ind]; [|lia].
        apply key_eqb_eq in E. rewrite E. lia. }
    rewrite zsum_map_mul_r.
    rewrite (count_in (fun e : ksum => fst e) key_eqb key_eqb_eq all (bp_key p) (ao_nodup _ _ Hok) (ao_posted p Hp)).
    lia.
  Qed.

  Lemma ao_tspec k : tspec all k = spec_tree ps k.
  Proof. unfold tspec, spec_tree. apply (ao_sum_pred (kbelow k)). Qed.

  (* the rows of the forest *)
  Lemma ao_forest_row b : In b (forest all) ->
    In (r_key b) (map fst all) /\ dwf (r_own b) /\
    d28 (r_own b) = spec_own ps (r_key b) /\ d28 (r_tree b) = spec_tree ps (r_key b).
  Proof.
    intros Hb.
    destruct (forest_tree all (ao_nodup _ _ Hok) ao_closed ao_ne ao_dwf b Hb) as (e & He & K & O & _ & T).
    rewrite K, O, T. split; [apply in_map; exact He|]. split; [apply ao_dwf; exact He|].
    split; [apply ao_own; exact He|apply ao_tspec].
  Qed.

  Lemma ao_forest_nodup : NoDup (map r_key (forest all)).
  Proof. apply forest_nodup; [apply (ao_nodup _ _ Hok)|exact ao_ne]. Qed.

  Lemma ao_forest_keys k : In k (map r_key (forest all)) <-> In k (spec_keys ps).
  Proof.
    rewrite <- (ao_keys _ _ Hok). split.
    - intros H. apply in_map_iff in H. destruct H as (b & E & Hb). subst k.
      apply (ao_forest_row b Hb).
    - intros H. apply in_map_iff in H. destruct H as (e & E & He). subst k.
      apply (forest_complete all ao_closed ao_ne e He).
  Qed.

  Lemma ao_forest_perm : Permutation (map (fun b => (r_key b, r_own b)) (forest all)) all.
  Proof. apply forest_perm; [apply (ao_nodup _ _ Hok)|exact ao_closed|exact ao_ne|exact ao_dwf]. Qed.
End AllOk.

Lemma ksum_eqb_refl (x : ksum) : ksum_eqb x x = true.
Proof. unfold ksum_eqb. rewrite key_eqb_refl, deqb_refl. reflexivity. Qed.

Definition rows_leb (a b : brow) : bool := key_leb (r_key a) (r_key b).

(* what Balance.balance computes: the sorted forest of a good entry list *)
Lemma balance_all known ord ps rows :
  (forall l, Permutation (ord l) l) -> Forall bpost_wf ps ->
  balance known ord ps = Some rows ->
  exists all, all_ok ps all /\ rows = sort_by rows_leb (forest all).
Proof.
  intros Hord Hwf H. unfold balance in H.
  destruct (bubble_all known (account_sums ps) (account_sums ps)) as [flat|] eqn:Eb; [|discriminate H].
  inversion H as [H']. clear H H'.
  exists (ord (dedup_by ksum_eqb flat)). split; [|reflexivity].
  destruct (account_sums_spec ps Hwf) as (S1 & S2 & S3).
  set (sums := account_sums ps) in *.
  pose proof Hwf as Hwf'. rewrite Forall_forall in Hwf'.
  assert (forall e : ksum, In e sums -> In e sums /\ acct_wf (fst (fst e))) as Ht.
  { intros e He. split; [exact He|]. assert (In (fst e) (map bp_key ps)) as Hk.
    { apply S2. apply in_map. exact He. }
    apply in_map_iff in Hk. destruct Hk as (p & E & Hp). rewrite <- E. apply (Hwf' p Hp). }
  destruct (bubble_all_spec known sums sums flat Ht Eb) as [F1 F2].
  assert (forall x y : ksum, In x flat -> In y flat -> fst x = fst y -> x = y) as Hkey.
  { intros x y Hx Hy E. destruct (F1 x Hx) as [[Sx|[Nx Zx]] _], (F1 y Hy) as [[Sy|[Ny Zy]] _].
    - apply (NoDup_map_key_eq fst sums); assumption.
    - exfalso. apply Ny. rewrite <- E. apply in_map. exact Sx.
    - exfalso. apply Nx. rewrite E. apply in_map. exact Sy.
    - destruct x, y. cbn [fst snd] in *. congruence. }
  assert (forall x y : ksum, In x flat -> In y flat -> ksum_eqb x y = true -> x = y) as Heqb.
  { intros x y Hx Hy E. unfold ksum_eqb in E. apply andb_true_iff in E. destruct E as [E _].
    apply key_eqb_eq in E. apply Hkey; assumption. }
  assert (forall x : ksum, In x (ord (dedup_by ksum_eqb flat)) <-> In x flat) as Hmem.
  { intros x. split.
    - intros Hx. apply (Permutation_in _ (Hord _)) in Hx. apply dedup_by_incl in Hx. exact Hx.
    - intros Hx. apply (Permutation_in _ (Permutation_sym (Hord _))).
      apply dedup_by_complete; assumption. }
  constructor.
  - apply (Permutation_NoDup (Permutation_map fst (Permutation_sym (Hord _)))).
    apply dedup_by_NoDup_key. intros x y Hx Hy E. rewrite (Hkey x y Hx Hy E). apply ksum_eqb_refl.
  - intros k. split.
    + intros Hk. apply in_map_iff in Hk. destruct Hk as (x & E & Hx). apply Hmem in Hx.
      destruct (F1 x Hx) as [_ (e & i & He & Hi & Ek)].
      assert (In (fst e) (map bp_key ps)) as Hp by (apply S2; apply in_map; exact He).
      apply in_map_iff in Hp. destruct Hp as (p & Ep & Hp).
      apply spec_keys_in. exists p, i. split; [exact Hp|].
      rewrite <- E, Ek, <- Ep. cbn [fst snd bp_key] in *. rewrite <- Ep in Hi. cbn [fst] in Hi.
      split; [exact Hi|reflexivity].
    + intros Hk. apply spec_keys_in in Hk. destruct Hk as (p & i & Hp & Hi & Ek).
      assert (In (bp_key p) (map fst sums)) as He by (apply S2; apply in_map; exact Hp).
      apply in_map_iff in He. destruct He as (e & Ee & He).
      assert (In k (map fst flat)) as Hf.
      { rewrite Ek. pose proof (F2 e i He) as X. rewrite Ee in X. cbn [fst snd bp_key] in X.
        apply X. exact Hi. }
      apply in_map_iff in Hf. destruct Hf as (x & Ex & Hx). apply in_map_iff.
      exists x. split; [exact Ex|apply Hmem; exact Hx].
  - intros k v Hin. apply Hmem in Hin. destruct (F1 (k, v) Hin) as [[Sx|[Nx Zx]] _].
    + apply (S3 k v Sx).
    + cbn [fst snd] in *. subst v. split; [apply dwf_dzero|].
      rewrite spec_own_notin; [reflexivity|]. intros X. apply Nx. apply S2. exact X.
Qed.

(* ------------------------------------------------------------------ *)
(* C02: own sums, tree sums, row set *)

Lemma balance_own : forall known ord ps rows,
  (forall l, Permutation (ord l) l) -> Forall bpost_wf ps ->
  balance known ord ps = Some rows ->
  forall r, In r rows -> d28 (r_own r) = spec_own ps (r_key r).
Proof.
  intros known ord ps rows Hord Hwf H r Hr.
  destruct (balance_all known ord ps rows Hord Hwf H) as (all & Hok & E). subst rows.
  apply sort_by_in in Hr. apply (ao_forest_row ps all Hwf Hok r Hr).
Qed.

Lemma balance_tree : forall known ord ps rows,
  (forall l, Permutation (ord l) l) -> Forall bpost_wf ps ->
  balance known ord ps = Some rows ->
  forall r, In r rows -> d28 (r_tree r) = spec_tree ps (r_key r).
Proof.
  intros known ord ps rows Hord Hwf H r Hr.
  destruct (balance_all known ord ps rows Hord Hwf H) as (all & Hok & E). subst rows.
  apply sort_by_in in Hr. apply (ao_forest_row ps all Hwf Hok r Hr).
Qed.

Lemma rows_sorted (l : list brow) :
  StronglySorted (fun a b => key_cmp (r_key a) (r_key b) <> Gt) (sort_by rows_leb l).
Proof. apply (sort_by_key_sorted r_key). Qed.

Lemma balance_rows : forall known ord ps rows,
  (forall l, Permutation (ord l) l) -> Forall bpost_wf ps ->
  balance known ord ps = Some rows ->
  StronglySorted (fun a b => key_cmp a b = Lt) (map r_key rows)
  /\ NoDup (map r_key rows)
  /\ (forall k, In k (map r_key rows) <-> In k (spec_keys ps)).
Proof.
  intros known ord ps rows Hord Hwf H.
  destruct (balance_all known ord ps rows Hord Hwf H) as (all & Hok & E). subst rows.
  assert (Permutation (map r_key (sort_by rows_leb (forest all))) (map r_key (forest all))) as Hp.
  { apply Permutation_map. apply sort_by_perm. }
  assert (forall k, In k (map r_key (sort_by rows_leb (forest all))) <-> In k (spec_keys ps)) as Hk.
  { intros k. rewrite <- (ao_forest_keys ps all Hwf Hok k).
    split; apply Permutation_in; [exact Hp|apply Permutation_sym; exact Hp]. }
  assert (NoDup (map r_key (sort_by rows_leb (forest all)))) as Hn.
  { apply (Permutation_NoDup (Permutation_sym Hp)). apply (ao_forest_nodup ps all Hwf Hok). }
  split; [|split; [exact Hn|exact Hk]].
  apply key_sorted_strict; [|exact Hn|].
  - apply Forall_forall. intros k Hin. apply (spec_keys_wf ps k Hwf). apply Hk. exact Hin.
  - apply (proj1 (StronglySorted_map (fun a b => key_cmp a b <> Gt) r_key _)). apply rows_sorted.
Qed.

Lemma balance_total : forall known ord ps,
  (forall l, Permutation (ord l) l) -> Forall bpost_wf ps ->
  (forall a, known a = true) ->
  exists rows, balance known ord ps = Some rows.
Proof.
  intros known ord ps Hord Hwf Hk. unfold balance.
  destruct (account_sums_spec ps Hwf) as (_ & S2 & _).
  destruct (bubble_all_total known (account_sums ps) Hk (account_sums ps)) as [flat Hf].
  - intros e He. assert (In (fst e) (map bp_key ps)) as Hin by (apply S2; apply in_map; exact He).
    apply in_map_iff in Hin. destruct Hin as (p & E & Hp). rewrite <- E.
    rewrite Forall_forall in Hwf. apply (Hwf p Hp).
  - rewrite Hf. eexists. reflexivity.
Qed.

(* ------------------------------------------------------------------ *)
(* C02: deltas *)

Definition row_cd (r : brow) : list N * dec := (r_comm r, r_own r).

Lemma delta_acc_gchunk l : forall cur acc,
  delta_acc cur acc l = gchunk str_eqb cur acc (map row_cd l).
Proof.
  induction l as [|r l IH]; intros cur acc; cbn [delta_acc gchunk map row_cd]; [reflexivity|].
  rewrite !IH. reflexivity.
Qed.

Lemma deltas_gchunks rows : deltas rows = gchunks str_eqb (map row_cd rows).
Proof. destruct rows as [|r l]; [reflexivity|]. cbn [deltas gchunks map row_cd]. apply delta_acc_gchunk. Qed.

Lemma deltas_spec rows :
  StronglySorted (fun a b => key_cmp (r_key a) (r_key b) <> Gt) rows ->
  Forall (fun r => dwf (r_own r)) rows ->
  NoDup (map fst (deltas rows))
  /\ (forall c, In c (map fst (deltas rows)) <-> In c (map r_comm rows))
  /\ (forall c d, In (c, d) (deltas rows) -> d28 d = spec_delta rows c).
Proof.
  intros Hs Hd. rewrite deltas_gchunks.
  assert (map fst (map row_cd rows) = map r_comm rows) as Em by (rewrite map_map; reflexivity).
  assert (StronglySorted (fun a b => str_cmp a b <> Gt) (map fst (map row_cd rows))) as Hs'.
  { rewrite Em. apply (proj1 (StronglySorted_map (fun a b => str_cmp a b <> Gt) r_comm rows)).
    eapply StronglySorted_impl; [|exact Hs]. intros a b _ _ X. apply (key_cmp_snd (r_key a) (r_key b) X). }
  assert (Forall (fun e : list N * dec => dwf (snd e)) (map row_cd rows)) as Hd'.
  { rewrite Forall_map. exact Hd. }
  destruct (gchunks_spec str_eqb str_eqb_eq (fun a b => str_cmp a b <> Gt) str_cmp_antisym
                         (map row_cd rows) Hs' Hd') as (I1 & I2 & I3).
  split; [|split].
  - eapply StronglySorted_NoDup; [|exact I2]. intros a [_ X]. congruence.
  - intros c. rewrite I1, Em. reflexivity.
  - intros c d Hin. destruct (I3 c d Hin) as [_ V]. rewrite V. unfold ksumv, spec_delta.
    rewrite filter_map_comm, map_map. reflexivity.
Qed.

Lemma report_delta : forall known ord sel ps rep,
  (forall l, Permutation (ord l) l) -> Forall bpost_wf ps ->
  balance_report known ord sel ps = Some rep ->
  (exists rows, balance known ord ps = Some rows /\ b_rows rep = filter sel rows)
  /\ NoDup (map fst (b_deltas rep))
  /\ (forall c, In c (map fst (b_deltas rep)) <-> In c (map r_comm (b_rows rep)))
  /\ (forall c d, In (c, d) (b_deltas rep) -> d28 d = spec_delta (b_rows rep) c).
Proof.
  intros known ord sel ps rep Hord Hwf H. unfold balance_report in H.
  destruct (balance known ord ps) as [bal|] eqn:Eb; [|discriminate H].
  inversion H as [H']. clear H H'. cbn [b_rows b_deltas].
  split; [exists bal; split; reflexivity|].
  destruct (balance_all known ord ps bal Hord Hwf Eb) as (all & Hok & E).
  apply deltas_spec.
  - apply StronglySorted_filter. rewrite E. apply rows_sorted.
  - apply Forall_forall. intros r Hr. apply filter_In in Hr. destruct Hr as [Hr _].
    rewrite E in Hr. apply sort_by_in in Hr. apply (ao_forest_row ps all Hwf Hok r Hr).
Qed.

Lemma report_delta_zero : forall known ord ps rep,
  (forall l, Permutation (ord l) l) -> Forall bpost_wf ps ->
  (forall c, zsum (map amt28 (filter (fun p => str_eqb (bp_comm p) c) ps)) = 0) ->
  balance_report known ord (fun _ => true) ps = Some rep ->
  forall c d, In (c, d) (b_deltas rep) -> d28 d = 0.
Proof.
  intros known ord ps rep Hord Hwf Hz H c d Hin.
  destruct (report_delta known ord (fun _ => true) ps rep Hord Hwf H)
    as ((bal & Eb & Er) & _ & _ & Hd).
  rewrite (Hd c d Hin), Er, filter_true.
  destruct (balance_all known ord ps bal Hord Hwf Eb) as (all & Hok & E).
  transitivity (zsum (map (fun e : ksum => d28 (snd e))
                  (filter (fun e : ksum => str_eqb (snd (fst e)) c) all))).
  2:{ etransitivity; [exact (ao_sum_pred ps all Hwf Hok (fun k : key => str_eqb (snd k) c))|exact (Hz c)]. }
  unfold spec_delta.
  transitivity (zsum (map (fun e : ksum => d28 (snd e))
                  (filter (fun e : ksum => str_eqb (snd (fst e)) c)
                          (map (fun b => (r_key b, r_own b)) bal)))).
  { rewrite filter_map_comm, map_map. reflexivity. }
  apply zsum_map_perm. apply filter_perm.
  transitivity (map (fun b => (r_key b, r_own b)) (forest all)).
  - apply Permutation_map. rewrite E. apply sort_by_perm.
  - apply (ao_forest_perm ps all Hwf Hok).
Qed.
