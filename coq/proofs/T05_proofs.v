(* T05_proofs.v — reports under price conversion and rounding: the existing theorems composed.
   A. the model's conversion is the documented one (C07_rate / C07_unchanged on every posting of the set)
   B. the register engine with a conversion: conversion per posting, then exact accumulation
   C. the text of a converted register row; the lines of a register text with converted rows
   D. the balance under conversion: C02 on the converted postings, C17 on every figure, T01 on the text
   E. the oracles of T05_spec are sound
   Stdlib only. *)
From Coq Require Import Lia ZArith List Bool Permutation Sorted QArith.
From TkModel Require Import Base Dec Acct Txn Balance Register Round Price Time Group ReportText T05_report.
From TkSpec Require Import Balance_spec Register_spec Round_spec Price_spec ReportText_spec T05_spec.
From TkProofs Require Import Base_proofs Dec_proofs Acct_proofs Balance_proofs Balance_more_proofs
     Register_proofs Round_proofs Price_proofs ReportText_proofs.
Local Open Scope Z_scope.

(* ================================================================== A. conversion *)
Lemma rate_at_LkNone f tgt c t : rate_at LkNone f tgt c t = None.
Proof.
  destruct (rate_at LkNone f tgt c t) as [e|] eqn:E; [|reflexivity].
  apply rate_at_some in E. destruct E as (_ & C & _).
  unfold candidate in C. cbn [in_time] in C. rewrite andb_false_r in C. discriminate.
Qed.

Lemma convert_one_is_spec lk txns tgt f t p :
  distinct_keys f -> In (p_comm p) (posting_comms txns) ->
  convert_one lk txns tgt f t p = spec_conv lk (Some tgt) f t p.
Proof.
  intros Hd Hu. unfold spec_conv, spec_rate.
  destruct (p_comm p) as [|n l] eqn:E.
  - apply convert_unchanged. left. exact E.
  - destruct (str_eqb (n :: l) tgt) eqn:ET.
    + apply str_eqb_eq in ET. apply convert_unchanged. right. left. congruence.
    + apply str_eqb_neq in ET.
      destruct (rate_at lk f tgt (n :: l) t) as [e|] eqn:R.
      * apply rate_at_some in R. rewrite <- E in R.
        apply convert_rate; try assumption; congruence.
      * apply rate_at_none in R. apply convert_unchanged. right. right. right. rewrite E. exact R.
Qed.

Lemma ctx_conv_is_spec lk rc f txns tx p :
  distinct_keys f -> In tx txns -> In p (t_posts tx) ->
  ctx_conv (make_ctx lk txns rc (load_db f)) (t_hdr tx) p = spec_conv lk rc f (h_inst (t_hdr tx)) p.
Proof.
  intros Hd Ht Hp. destruct rc as [tgt|].
  2:{ unfold ctx_conv, spec_conv. cbn [make_ctx default_ctx c_target]. reflexivity. }
  rewrite <- (convert_one_is_spec lk txns tgt f) by (try assumption; apply (posting_comms_in txns tx); assumption).
  unfold ctx_conv, convert_one.
  destruct lk; cbn [make_ctx default_ctx c_target c_cache]; try reflexivity.
  (* lookup none: nothing is converted *)
  symmetry. apply (make_ctx_unchanged LkNone txns tgt (load_db f)). right. right. right. intros e _.
  unfold mcand. cbn [model_time]. apply andb_false_r.
Qed.

Lemma convert_prices_ctx_conv ctx tx :
  convert_prices ctx tx = map (ctx_conv ctx (t_hdr tx)) (t_posts tx).
Proof. unfold convert_prices, ctx_conv. destruct (c_target ctx); reflexivity. Qed.

Lemma convert_prices_is_spec lk rc f txns tx :
  distinct_keys f -> In tx txns ->
  convert_prices (make_ctx lk txns rc (load_db f)) tx
  = map (spec_conv lk rc f (h_inst (t_hdr tx))) (t_posts tx).
Proof.
  intros Hd Ht. rewrite convert_prices_ctx_conv. apply map_ext_in. intros p Hp.
  apply ctx_conv_is_spec; assumption.
Qed.

(* amount x rate, exactly *)
Lemma dmul_d28_wf a r : dwf (dmul a r) -> d28 (dmul a r) * pow10 28 = d28 a * d28 r.
Proof.
  intros H. unfold dmul in *. destruct (is_zero a || is_zero r) eqn:Z.
  - rewrite d28_dzero. apply orb_true_iff in Z. destruct Z as [Z|Z]; apply is_zero_d28 in Z; rewrite Z; lia.
  - unfold dwf in H. cbn [ds] in H.
    pose proof (d28_dmul a r H) as G. unfold dmul in G. rewrite Z in G. exact G.
Qed.

Lemma spec_conv_worth lk rc f t p : post_dom lk rc f t p ->
  d28 (cv_amount (spec_conv lk rc f t p)) * pow10 28 = worth56 lk rc f t p.
Proof.
  intros [_ Hc]. unfold spec_conv, worth56 in *.
  destruct rc as [tgt|]; [|reflexivity].
  destruct (spec_rate lk (Some tgt) f t p) as [e|]; [|reflexivity].
  unfold converted in *. cbn [cv_amount] in *. apply dmul_d28_wf. exact Hc.
Qed.

(* the rate of spec_rate is THE documented rate *)
Lemma spec_rate_RateAt lk tgt f t p e : spec_rate lk (Some tgt) f t p = Some e ->
  p_comm p <> [] /\ p_comm p <> tgt /\ RateAt lk f tgt (p_comm p) t e.
Proof.
  unfold spec_rate. destruct (p_comm p) as [|n l] eqn:E; [discriminate|].
  destruct (str_eqb (n :: l) tgt) eqn:ET; [discriminate|]. intros R.
  apply str_eqb_neq in ET. apply rate_at_some in R. split; [discriminate|split; [exact ET|exact R]].
Qed.

Lemma spec_rate_none lk rc f t p : spec_rate lk rc f t p = None ->
  rc = None \/ p_comm p = [] \/ rc = Some (p_comm p)
  \/ exists tgt, rc = Some tgt /\ NoRate lk f tgt (p_comm p) t.
Proof.
  unfold spec_rate. destruct rc as [tgt|]; [|left; reflexivity].
  destruct (p_comm p) as [|n l] eqn:E; [right; left; reflexivity|].
  destruct (str_eqb (n :: l) tgt) eqn:ET.
  - apply str_eqb_eq in ET. right. right. left. congruence.
  - intros R. apply rate_at_none in R. right. right. right. exists tgt. split; [reflexivity|exact R].
Qed.

Lemma spec_conv_unconverted lk rc f t p :
  (rc = None \/ p_comm p = [] \/ rc = Some (p_comm p)
   \/ exists tgt, rc = Some tgt /\ NoRate lk f tgt (p_comm p) t) ->
  spec_conv lk rc f t p = unconverted p.
Proof.
  intros H. unfold spec_conv. destruct rc as [tgt|]; [|reflexivity].
  destruct (spec_rate lk (Some tgt) f t p) as [e|] eqn:R; [|reflexivity]. exfalso.
  apply spec_rate_RateAt in R. destruct R as (N1 & N2 & R).
  destruct H as [H|[H|[H|(tgt' & H & NR)]]]; try congruence.
  inversion H; subst tgt'. exact (RateAt_NoRate _ _ _ _ _ _ R NR).
Qed.

(* ================================================================== B. the register engine *)
(* a conversion as the engine receives it *)
Definition lift_conv (cvf : header -> posting -> conv) (h : header) (p : posting)
  : (list (list N) * list N) * dec * option dec :=
  let c := cvf h p in ((cv_acc c, cv_comm c), cv_amount c, cv_rate c).

Lemma reg_conv_lift ctx : reg_conv ctx = lift_conv (ctx_conv ctx).
Proof. reflexivity. Qed.

Lemma acc_rows_ext conv1 conv2 h ps : (forall p, In p ps -> conv1 h p = conv2 h p) ->
  forall st, acc_rows conv1 h st ps = acc_rows conv2 h st ps.
Proof.
  induction ps as [|p ps IH]; intros He st; cbn [acc_rows]; [reflexivity|].
  rewrite (He p) by (left; reflexivity). cbv zeta.
  rewrite IH by (intros q Hq; apply He; right; exact Hq). reflexivity.
Qed.

Lemma reg_engine_ext conv1 conv2 sel ts :
  (forall t p, In t ts -> In p (t_posts t) -> conv1 (t_hdr t) p = conv2 (t_hdr t) p) ->
  forall st, reg_engine conv1 sel st ts = reg_engine conv2 sel st ts.
Proof.
  induction ts as [|t ts IH]; intros He st; cbn [reg_engine]; [reflexivity|].
  assert (reg_txn conv1 sel st t = reg_txn conv2 sel st t) as E.
  { unfold reg_txn. rewrite (acc_rows_ext conv1 conv2); [reflexivity|].
    intros p Hp. apply He; [left; reflexivity|].
    apply (Permutation_in _ (entry_posts_perm t)). exact Hp. }
  rewrite E. cbv zeta. rewrite IH by (intros t' p Ht Hp; apply He; [right; exact Ht|exact Hp]). reflexivity.
Qed.

(* a row of the model against an expected row *)
Definition row_rel (r : rrow) (s : srow) : Prop :=
  rr_post r = sr_post s /\ rr_target r = sr_comm s /\ rr_rate r = sr_rate s
  /\ dwf (rr_total r) /\ d28 (rr_total r) = sr_total s.
Definition entry_rel (e : rentry) (se : txn * list srow) : Prop :=
  re_txn e = fst se /\ Forall2 row_rel (re_rows e) (snd se).

Lemma p_key_cpost c : p_key (cpost c) = (cv_acc c, cv_comm c).
Proof. reflexivity. Qed.

Lemma st_step_wf st seen q :
  st_inv st seen -> posting_wf q -> dwf (snd (st_upd st (p_key q) (p_amount q))).
Proof.
  intros Hi Hq. destruct (st_step st seen q Hi Hq) as [[Hw _] _].
  apply (Hw (p_key q)). rewrite st_upd_get, key_eqb_refl. reflexivity.
Qed.

Lemma acc_rows_conv cvf h ps : forall st seen,
  st_inv st seen -> Forall (fun p => posting_wf (cpost (cvf h p))) ps ->
  st_inv (fst (acc_rows (lift_conv cvf) h st ps)) (seen ++ map (fun p => cpost (cvf h p)) ps)
  /\ Forall2 row_rel (snd (acc_rows (lift_conv cvf) h st ps)) (spec_crows (cvf h) seen ps).
Proof.
  induction ps as [|p ps IH]; intros st seen Hi Hw; cbn [acc_rows fst snd spec_crows map].
  - rewrite app_nil_r. split; [exact Hi|constructor].
  - inversion Hw as [|? ? Hp Hw']; subst.
    unfold lift_conv at 1 2 3 4 5. cbv zeta. cbn [fst snd].
    change (cv_acc (cvf h p), cv_comm (cvf h p)) with (p_key (cpost (cvf h p))).
    change (cv_amount (cvf h p)) with (p_amount (cpost (cvf h p))).
    destruct (st_step st seen (cpost (cvf h p)) Hi Hp) as [Hi1 Ht].
    pose proof (st_step_wf st seen (cpost (cvf h p)) Hi Hp) as Hd.
    destruct (IH _ _ Hi1 Hw') as [Hi2 Hr].
    split.
    + rewrite <- app_assoc in Hi2. exact Hi2.
    + constructor; [|exact Hr].
      unfold row_rel. cbn [rr_post rr_total rr_target rr_rate sr_post sr_comm sr_rate sr_total].
      repeat split; [exact Hd|exact Ht].
Qed.

Definition txn_cwf (cvf : header -> posting -> conv) (t : txn) : Prop :=
  Forall (fun p => posting_wf (cpost (cvf (t_hdr t) p))) (t_posts t).

Lemma reg_engine_conv (cv : Z -> posting -> conv) ts : forall st seen,
  st_inv st seen -> Forall (txn_cwf (fun h => cv (h_inst h))) ts ->
  Forall2 entry_rel (snd (reg_engine (lift_conv (fun h => cv (h_inst h))) sel_all st ts))
          (spec_centries cv seen ts).
Proof.
  induction ts as [|t ts IH]; intros st seen Hi Hw; cbn [reg_engine fst snd spec_centries].
  - constructor.
  - inversion Hw as [|? ? Ht Hw']; subst. cbv zeta.
    assert (Forall (fun p => posting_wf (cpost (cv (h_inst (t_hdr t)) p))) (entry_posts t)) as Hte.
    { apply (Permutation_Forall (Permutation_sym (entry_posts_perm t))). exact Ht. }
    destruct (acc_rows_conv (fun h => cv (h_inst h)) (t_hdr t) (entry_posts t) st seen Hi Hte) as [Hi1 Hr].
    rewrite <- (reg_txn_fst (lift_conv (fun h => cv (h_inst h))) sel_all) in Hi1.
    constructor.
    + split; [apply reg_txn_txn|]. rewrite reg_txn_rows. unfold sel_all. rewrite filter_true. exact Hr.
    + apply IH; [exact Hi1|exact Hw'].
Qed.

Lemma Forall2_filter {A B} (P : A -> B -> Prop) (f : A -> bool) (g : B -> bool) la : forall lb,
  Forall2 P la lb -> (forall a b, P a b -> f a = g b) ->
  Forall2 P (filter f la) (filter g lb).
Proof.
  induction la as [|a la IH]; intros lb H Hfg; inversion H; subst; cbn [filter]; [constructor|].
  rewrite (Hfg a y) by assumption. destruct (g y); [constructor; [assumption|]|]; apply IH; assumption.
Qed.

Lemma Forall2_map_both {A B C D} (P : C -> D -> Prop) (f : A -> C) (g : B -> D) la : forall lb,
  Forall2 (fun a b => P (f a) (g b)) la lb -> Forall2 P (map f la) (map g lb).
Proof. induction la; intros lb H; inversion H; subst; cbn [map]; constructor; auto. Qed.

Lemma sel_names_keep names r s : row_rel r s -> sel_names names r = keep names (sr_post s).
Proof. intros (E & _). unfold sel_names, keep. rewrite E. reflexivity. Qed.

Lemma txn_dom_cwf lk rc f t : txn_dom lk rc f t -> txn_cwf (fun h => spec_conv lk rc f (h_inst h)) t.
Proof.
  unfold txn_dom, txn_cwf. apply Forall_impl. intros p [_ H]. exact H.
Qed.

(* the register under conversion, row by row, against the specification computed from the price file *)
Lemma conv_register_rel lk rc f names input :
  distinct_keys f -> Forall (txn_dom lk rc f) input ->
  Forall2 entry_rel (conv_register lk rc (load_db f) names input) (spec_register lk rc f names input).
Proof.
  intros Hd Hw. unfold conv_register, spec_register.
  rewrite (proj1 (register_selector _ (sel_names names) input)).
  apply Forall2_map_both. unfold register.
  rewrite (reg_engine_ext _ (lift_conv (fun h => spec_conv lk rc f (h_inst h))) sel_all (sort_txns input)).
  2:{ intros t p Ht Hp. rewrite reg_conv_lift. unfold lift_conv. unfold report_ctx.
      rewrite (ctx_conv_is_spec lk rc f (sort_txns input) t p Hd Ht Hp). reflexivity. }
  eapply Forall2_impl_c03; [|apply (reg_engine_conv (spec_conv lk rc f) (sort_txns input) [] [] st_inv_nil)].
  - intros e se [E R]. split; [exact E|]. cbn [restrict re_rows listed_rows snd].
    apply Forall2_filter; [exact R|]. intros r s Hrs. apply sel_names_keep. exact Hrs.
  - apply (Permutation_Forall (Permutation_sym (sort_txns_perm input))).
    eapply Forall_impl; [|exact Hw]. intros t. apply txn_dom_cwf.
Qed.

(* ================================================================== C. register text *)
(* what fmt_with_cfg prints between amount and running total of a converted row, and its width *)
Definition conv_base (r : rrow) : list N * nat :=
  match rr_rate r with
  | Some rt => (ch_sp :: p_comm (rr_post r) ++ [32; 64; 32]%N ++ dfmt rt, 20%nat)
  | None => (ch_sp :: p_comm (rr_post r), 8%nat)
  end.

Definition comm_tail (c : list N) : list N := match c with [] => [] | _ => ch_sp :: c end.

(* what follows indent and account name in the line of a converted row *)
Definition reg_crow_rest (sc : scale_cfg) (r : rrow) : list N :=
  let p := rr_post r in
  spaces (33 - length (acct_str (p_acc p)))
  ++ pad_left 18 (amount_to_string sc (p_amount p) 18)
  ++ pad_right (snd (conv_base r)) (fst (conv_base r))
  ++ [ch_sp]
  ++ pad_left 18 (amount_to_string sc (rr_total r) 18)
  ++ comm_tail (rr_target r).

Lemma reg_row_line_conv_split sc fw r : is_conv r = true ->
  reg_row_line sc fw r = indent12 ++ acct_str (p_acc (rr_post r)) ++ reg_crow_rest sc r.
Proof.
  intros H. unfold reg_row_line, reg_crow_rest, conv_base, comm_tail. cbv zeta. rewrite H.
  destruct (rr_rate r); cbn [fst snd]; unfold pad_right at 1; rewrite <- !app_assoc;
    destruct (rr_target r); reflexivity.
Qed.

Lemma dfmt_word d : dfmt d <> [] /\ ~ In ch_sp (dfmt d).
Proof.
  destruct (dfmt_raw_chars d (ds d)) as [F NE]. split; [exact NE|].
  apply (fig_chars_no ch_sp); [reflexivity|exact F].
Qed.

Lemma words_fig_tail T tg : T <> [] -> ~ In ch_sp T -> opt_field tg ->
  words (T ++ comm_tail tg) = T :: opt_word tg.
Proof.
  intros NE S Ht. unfold comm_tail. destruct tg as [|c cs].
  - rewrite app_nil_r. cbn [opt_word]. apply words_word; assumption.
  - destruct Ht as [Ht|Ht]; [discriminate|]. destruct (field_word _ Ht) as [NC SC].
    rewrite words_word_sp by assumption. cbn [opt_word]. f_equal. apply words_word; assumption.
Qed.

Lemma words_after_pad w n X : w <> [] -> ~ In ch_sp w ->
  words (w ++ spaces n ++ [ch_sp] ++ X) = w :: words X.
Proof.
  intros NE S. change [ch_sp] with (spaces 1). rewrite (app_assoc (spaces n)), <- spaces_add.
  apply words_word_spaces; [assumption|assumption|lia].
Qed.

Definition rate_words (r : rrow) : list (list N) :=
  p_comm (rr_post r) :: match rr_rate r with Some rt => [[64%N]; dfmt rt] | None => [] end.

Lemma reg_crow_rest_words sc r : field (p_comm (rr_post r)) -> opt_field (rr_target r) ->
  words (reg_crow_rest sc r)
  = [shown_text sc (p_amount (rr_post r))] ++ rate_words r
    ++ [shown_text sc (rr_total r)] ++ opt_word (rr_target r).
Proof.
  intros Hc Ht. unfold reg_crow_rest, conv_base, rate_words. cbv zeta.
  destruct (amount_to_string_shape sc (p_amount (rr_post r)) 18) as (j1 & _ & ->).
  destruct (amount_to_string_shape sc (rr_total r) 18) as (j2 & _ & ->).
  destruct (field_word _ (shown_text_field sc (p_amount (rr_post r)))) as [N1 S1].
  destruct (field_word _ (shown_text_field sc (rr_total r))) as [N2 S2].
  destruct (field_word _ Hc) as [NC SC].
  set (A := shown_text sc (p_amount (rr_post r))) in *.
  set (T := shown_text sc (rr_total r)) in *.
  set (C := p_comm (rr_post r)) in *.
  set (tail := comm_tail (rr_target r)).
  assert (words (pad_left 18 (spaces j2 ++ T) ++ tail) = T :: opt_word (rr_target r)) as HT.
  { unfold pad_left. rewrite <- !app_assoc, !words_spaces. apply words_fig_tail; assumption. }
  unfold pad_left at 1. rewrite <- !app_assoc, !words_spaces.
  destruct (rr_rate r) as [rt|]; cbn [fst snd]; unfold pad_right.
  - destruct (dfmt_word rt) as [NR SR].
    set (m := (20 - length (ch_sp :: C ++ [32; 64; 32]%N ++ dfmt rt))%nat).
    replace (A ++ ((ch_sp :: C ++ [32; 64; 32]%N ++ dfmt rt) ++ spaces m) ++ [ch_sp]
               ++ pad_left 18 (spaces j2 ++ T) ++ tail)
      with (A ++ ch_sp :: C ++ ch_sp :: [64%N] ++ ch_sp :: dfmt rt ++ spaces m ++ [ch_sp]
              ++ pad_left 18 (spaces j2 ++ T) ++ tail)
      by (cbn [app]; rewrite <- !app_assoc; cbn [app]; reflexivity).
    rewrite words_word_sp by assumption.
    rewrite words_word_sp by assumption.
    rewrite words_word_sp; [|discriminate|intros [E|[]]; discriminate].
    rewrite words_after_pad by assumption. rewrite HT. reflexivity.
  - set (m := (8 - length (ch_sp :: C))%nat).
    replace (A ++ ((ch_sp :: C) ++ spaces m) ++ [ch_sp] ++ pad_left 18 (spaces j2 ++ T) ++ tail)
      with (A ++ ch_sp :: C ++ spaces m ++ [ch_sp] ++ pad_left 18 (spaces j2 ++ T) ++ tail)
      by (cbn [app]; rewrite <- ?app_assoc; cbn [app]; reflexivity).
    rewrite words_word_sp by assumption.
    rewrite words_after_pad by assumption. rewrite HT. reflexivity.
Qed.

Lemma converted_row_fields sc fw r :
  is_conv r = true -> field (p_comm (rr_post r)) -> opt_field (rr_target r) ->
  exists rest, reg_row_line sc fw r = indent12 ++ acct_str (p_acc (rr_post r)) ++ rest
    /\ words rest = [shown_text sc (p_amount (rr_post r))]
                    ++ (p_comm (rr_post r) :: match rr_rate r with Some rt => [[64%N]; dfmt rt] | None => [] end)
                    ++ [shown_text sc (rr_total r)] ++ opt_word (rr_target r).
Proof.
  intros H Hc Ht. exists (reg_crow_rest sc r). split; [apply reg_row_line_conv_split; exact H|].
  apply reg_crow_rest_words; assumption.
Qed.

(* one row line, converted or not, against its expected row *)
Definition row_good (r : rrow) : Prop :=
  dwf (p_amount (rr_post r)) /\ opt_field (p_comm (rr_post r)) /\ opt_field (rr_target r)
  /\ (is_conv r = true -> p_comm (rr_post r) <> []).

Lemma crow_line_shows sc fw r s : (sc_min sc <= sc_max sc)%N ->
  row_rel r s -> row_good r -> crow_shows sc s (reg_row_line sc fw r).
Proof.
  intros Hsc (E1 & E2 & E3 & Hd & Ht) (Ha & Hc & Htg & Hne).
  unfold crow_shows, conv_words. rewrite <- E1, <- E2, <- E3.
  assert (fig_shows sc (shown_text sc (p_amount (rr_post r))) (pamt28 (rr_post r))) as SA.
  { apply fig_display_only; [exact Hsc|exact Ha|reflexivity]. }
  assert (fig_shows sc (shown_text sc (rr_total r)) (sr_total s)) as ST.
  { apply fig_display_only; [exact Hsc|exact Hd|exact Ht]. }
  destruct (is_conv r) eqn:IC.
  - exists (reg_crow_rest sc r), (shown_text sc (p_amount (rr_post r))), (shown_text sc (rr_total r)).
    split; [apply reg_row_line_conv_split; exact IC|]. split; [|split; assumption].
    unfold is_conv in IC. apply negb_true_iff in IC. rewrite IC.
    rewrite reg_crow_rest_words; [reflexivity| |exact Htg].
    destruct Hc as [Hc|Hc]; [|exact Hc]. exfalso. apply Hne; [reflexivity|exact Hc].
  - exists (reg_row_rest sc fw r), (shown_text sc (p_amount (rr_post r))), (shown_text sc (rr_total r)).
    split; [apply reg_row_line_split; exact IC|]. split; [|split; assumption].
    unfold is_conv in IC. apply negb_false_iff in IC. rewrite IC.
    apply str_eqb_eq in IC. rewrite IC.
    rewrite reg_row_rest_words by exact Hc. reflexivity.
Qed.

Definition crow_names_ok (r : rrow) : Prop :=
  no_nl (acct_str (p_acc (rr_post r))) /\ opt_field (p_comm (rr_post r)) /\ opt_field (rr_target r).

Lemma amount_to_string_no_nl sc d w : no_nl (amount_to_string sc d w).
Proof.
  destruct (amount_to_string_shape sc d w) as (j & _ & ->).
  apply no_nl_app; [apply no_nl_spaces|apply shown_text_no_nl].
Qed.

Lemma reg_row_line_no_nl_gen sc fw r : crow_names_ok r -> no_nl (reg_row_line sc fw r).
Proof.
  intros (Ha & Hc & Ht). destruct (is_conv r) eqn:IC.
  2:{ apply reg_row_line_no_nl. repeat split; assumption. }
  rewrite reg_row_line_conv_split by exact IC. unfold reg_crow_rest. cbv zeta.
  apply opt_field_no_nl in Hc. apply opt_field_no_nl in Ht.
  apply no_nl_app; [apply no_nl_spaces|].
  apply no_nl_app; [exact Ha|].
  apply no_nl_app; [apply no_nl_spaces|].
  apply no_nl_app; [apply no_nl_pad_left, amount_to_string_no_nl|].
  apply no_nl_app.
  { apply no_nl_pad_right. unfold conv_base. destruct (rr_rate r) as [rt|]; cbn [fst].
    - apply no_nl_cons; [discriminate|]. apply no_nl_app; [exact Hc|].
      apply no_nl_app; [apply no_nl_lit; reflexivity|apply dfmt_no_nl].
    - apply no_nl_cons; [discriminate|exact Hc]. }
  apply no_nl_app; [apply no_nl_lit; reflexivity|].
  apply no_nl_app; [apply no_nl_pad_left, amount_to_string_no_nl|].
  unfold comm_tail. destruct (rr_target r); [apply no_nl_nil|]. apply no_nl_cons; [discriminate|exact Ht].
Qed.

Definition cnames_ok (es : list (list N * rentry)) : Prop :=
  Forall (fun te => header_names_ok (fst te) (t_hdr (re_txn (snd te)))
                    /\ Forall crow_names_ok (re_rows (snd te))) es.

Lemma reg_entry_out_lines_gen sc fw ts e rest :
  header_names_ok ts (t_hdr (re_txn e)) -> Forall crow_names_ok (re_rows e) ->
  text_lines (reg_entry_out sc fw ts e ++ rest) = reg_entry_lines sc fw ts e ++ text_lines rest.
Proof.
  intros Hh Hr. unfold reg_entry_out, reg_entry_lines.
  destruct (re_rows e) as [|r0 rows'] eqn:E; [reflexivity|]. rewrite <- E in *.
  unfold reg_entry_text. rewrite E. rewrite <- E. cbv zeta.
  rewrite <- !app_assoc. rewrite header_text_lines; [|apply no_nl_spaces|exact Hh].
  f_equal. rewrite text_lines_lines.
  2:{ rewrite Forall_map. eapply Forall_impl; [|exact Hr]. intros r. apply reg_row_line_no_nl_gen. }
  f_equal. rewrite text_lines_line by (apply no_nl_repeat; discriminate). reflexivity.
Qed.

Lemma reg_flat_lines_gen sc fw es rest : cnames_ok es ->
  text_lines (flat_map (fun te => reg_entry_out sc fw (fst te) (snd te)) es ++ rest)
  = flat_map (fun te => reg_entry_lines sc fw (fst te) (snd te)) es ++ text_lines rest.
Proof.
  induction 1 as [|te es' [Hh Hr] _ IH]; cbn [flat_map app]; [reflexivity|].
  rewrite <- !app_assoc. rewrite reg_entry_out_lines_gen by assumption. rewrite IH. reflexivity.
Qed.

Lemma reg_txt_report_lines_gen title sc fw es : no_nl title -> cnames_ok es ->
  text_lines (reg_txt_report_with title sc fw es) = reg_lines title sc fw es ++ [[]].
Proof.
  intros Ht Hn. unfold reg_txt_report_with, reg_lines. rewrite title_lines_lines by exact Ht.
  cbn [app]. do 2 f_equal. rewrite <- (app_nil_r (flat_map _ es)).
  rewrite reg_flat_lines_gen by exact Hn. reflexivity.
Qed.

Lemma Forall2_rows_lines sc fw rows : forall srows, (sc_min sc <= sc_max sc)%N ->
  Forall2 row_rel rows srows -> Forall row_good rows ->
  Forall2 (crow_shows sc) srows (map (reg_row_line sc fw) rows).
Proof.
  induction rows as [|r rows IH]; intros srows Hsc H G; inversion H; subst; cbn [map]; [constructor|].
  inversion G; subst. constructor; [apply crow_line_shows; assumption|apply IH; assumption].
Qed.

(* the body of a register text with converted rows against the expected entries *)
Lemma reg_cbody_lines_shows sc fw : (sc_min sc <= sc_max sc)%N -> forall es ses,
  Forall2 (fun te se => fst te = fst se /\ entry_rel (snd te) (snd se)
                        /\ Forall row_good (re_rows (snd te))) es ses ->
  reg_cbody_shows sc ses (flat_map (fun te => reg_entry_lines sc fw (fst te) (snd te)) es).
Proof.
  intros Hsc. induction 1 as [|[ts e] [ts' [t srows]] es ses (E & [Et R] & G) _ IH];
    cbn [flat_map reg_cbody_shows fst snd]; [reflexivity|].
  cbn [fst snd] in *. subst ts'. subst t.
  destruct srows as [|s0 srows'].
  { inversion R as [E0|]. unfold reg_entry_lines at 1. rewrite <- E0. cbn [app]. exact IH. }
  destruct (re_rows e) as [|r0 rows'] eqn:ER; [inversion R|].
  unfold reg_entry_lines at 1. rewrite ER.
  set (rows := r0 :: rows') in *. cbv zeta.
  rewrite <- !app_assoc. cbn [app].
  eexists _, _, _. split; [reflexivity|]. split; [|split].
  - apply Forall2_rows_lines; assumption.
  - apply is_ruler_repeat.
    pose proof (reg_row_line_length sc fw r0).
    assert (length (reg_row_line sc fw r0) <= max_len (map (@length N) (map (reg_row_line sc fw) rows)))%nat.
    { apply max_len_in. apply in_map, in_map. left. reflexivity. }
    lia.
  - exact IH.
Qed.

(* ------------------------------------------------------------------ the expected entries *)
Definition srow_ok (cv : posting -> conv) (ps : list posting) (s : srow) : Prop :=
  In (sr_post s) ps /\ sr_comm s = cv_comm (cv (sr_post s)) /\ sr_rate s = cv_rate (cv (sr_post s)).
Definition sentry_ok (cv : Z -> posting -> conv) (ts : list txn) (se : txn * list srow) : Prop :=
  In (fst se) ts /\ Forall (srow_ok (cv (h_inst (t_hdr (fst se)))) (t_posts (fst se))) (snd se).

Lemma spec_crows_ok cv : forall ps earlier, Forall (srow_ok cv ps) (spec_crows cv earlier ps).
Proof.
  induction ps as [|p ps IH]; intros earlier; cbn [spec_crows]; constructor.
  - unfold srow_ok. cbn [sr_post sr_comm sr_rate]. repeat split. left. reflexivity.
  - eapply Forall_impl; [|apply IH]. intros s (H1 & H2 & H3). repeat split; try assumption. right. exact H1.
Qed.

Lemma spec_centries_ok cv : forall ts earlier, Forall (sentry_ok cv ts) (spec_centries cv earlier ts).
Proof.
  induction ts as [|t ts IH]; intros earlier; cbn [spec_centries]; constructor.
  - split; [left; reflexivity|]. cbn [fst snd].
    eapply Forall_impl; [|apply spec_crows_ok]. intros s (H1 & H2 & H3). repeat split; try assumption.
    apply (Permutation_in _ (entry_posts_perm t)). exact H1.
  - eapply Forall_impl; [|apply IH]. intros se [H1 H2]. split; [right; exact H1|exact H2].
Qed.

Lemma spec_register_ok lk rc f names input :
  Forall (sentry_ok (spec_conv lk rc f) input) (spec_register lk rc f names input).
Proof.
  unfold spec_register. rewrite Forall_map.
  eapply Forall_impl; [|apply spec_centries_ok]. intros se [H1 H2]. split.
  - cbn [listed_rows fst]. apply (Permutation_in _ (sort_txns_perm input)). exact H1.
  - cbn [listed_rows fst snd]. apply Forall_forall. intros s Hs. apply filter_In in Hs.
    rewrite Forall_forall in H2. apply H2. tauto.
Qed.

(* the commodity a posting is shown with: its own, or the report commodity (then it had one) *)
Lemma spec_conv_comm lk rc f t p :
  (cv_comm (spec_conv lk rc f t p) = p_comm p)
  \/ (cv_comm (spec_conv lk rc f t p) = rc_name rc /\ p_comm p <> []).
Proof.
  unfold spec_conv. destruct rc as [tgt|]; [|left; reflexivity].
  destruct (spec_rate lk (Some tgt) f t p) as [e|] eqn:R; [|left; reflexivity].
  right. apply spec_rate_RateAt in R. split; [reflexivity|tauto].
Qed.

Lemma Forall2_Forall_l {A B} (P : A -> B -> Prop) (Q : B -> Prop) (R : A -> Prop) la : forall lb,
  Forall2 P la lb -> Forall Q lb -> (forall a b, P a b -> Q b -> R a) -> Forall R la.
Proof.
  induction la as [|a la IH]; intros lb H HQ HR; inversion H; subst; constructor.
  - inversion HQ; subst. eapply HR; eassumption.
  - inversion HQ; subst. eapply IH; eassumption.
Qed.

(* every row of the model's register is printable and relates to an expected row *)
Lemma entry_rows_good lk rc f ts_text input e se :
  reg_names_in rc ts_text input -> Forall (txn_dom lk rc f) input ->
  sentry_ok (spec_conv lk rc f) input se -> entry_rel e se ->
  header_names_ok (ts_text (t_hdr (re_txn e))) (t_hdr (re_txn e))
  /\ Forall row_good (re_rows e) /\ Forall crow_names_ok (re_rows e).
Proof.
  intros [Hrc Hn] Hd [Hin Hs] [Et R]. rewrite Et.
  rewrite Forall_forall in Hn, Hd. destruct (Hn _ Hin) as [Hh Hp]. specialize (Hd _ Hin).
  unfold txn_dom in Hd. rewrite Forall_forall in Hp, Hd.
  split; [exact Hh|].
  assert (forall r s, row_rel r s ->
            srow_ok (spec_conv lk rc f (h_inst (t_hdr (fst se)))) (t_posts (fst se)) s ->
            row_good r /\ crow_names_ok r) as G.
  { intros r s (E1 & E2 & E3 & _) (I & C & _). rewrite <- E1 in *.
    destruct (Hp _ I) as [Hc Ha]. destruct (Hd _ I) as [Hda _].
    assert (opt_field (rr_target r)) as Ht.
    { rewrite E2, C. destruct (spec_conv_comm lk rc f (h_inst (t_hdr (fst se))) (rr_post r)) as [->|[-> _]]; assumption. }
    split; [|repeat split; assumption].
    repeat split; try assumption.
    intros IC. unfold is_conv in IC. apply negb_true_iff in IC. apply str_eqb_neq in IC.
    rewrite E2, C in IC.
    destruct (spec_conv_comm lk rc f (h_inst (t_hdr (fst se))) (rr_post r)) as [E|[_ N]]; [contradiction|exact N]. }
  split.
  - apply (Forall2_Forall_l _ _ _ _ _ R Hs). intros r s H1 H2. apply (G r s H1 H2).
  - apply (Forall2_Forall_l _ _ _ _ _ R Hs). intros r s H1 H2. apply (G r s H1 H2).
Qed.

Lemma Forall2_with_ts ts_text lk rc f input : forall es ses,
  reg_names_in rc ts_text input -> Forall (txn_dom lk rc f) input ->
  Forall2 entry_rel es ses -> Forall (sentry_ok (spec_conv lk rc f) input) ses ->
  cnames_ok (with_ts ts_text es)
  /\ Forall2 (fun te se => fst te = fst se /\ entry_rel (snd te) (snd se)
                           /\ Forall row_good (re_rows (snd te)))
             (with_ts ts_text es) (with_ts_spec ts_text ses).
Proof.
  intros es ses Hn Hd H. induction H as [|e se es ses He _ IH]; intros Hs; cbn [with_ts with_ts_spec map].
  - split; constructor.
  - inversion Hs as [|? ? Hse Hs']; subst.
    destruct (entry_rows_good lk rc f ts_text input e se Hn Hd Hse He) as (Hh & Hg & Hc).
    destruct (IH Hs') as [I1 I2]. split.
    + constructor; [|exact I1]. cbn [fst snd]. split; assumption.
    + constructor; [|exact I2]. cbn [fst snd]. split; [|split; assumption].
      destruct He as [Et _]. rewrite Et. reflexivity.
Qed.

(* T05_register_shown *)
Lemma conv_register_text_shows title sc ts_text lk rc f names input :
  (sc_min sc <= sc_max sc)%N -> distinct_keys f -> Forall (txn_dom lk rc f) input ->
  no_nl title -> reg_names_in rc ts_text input ->
  register_text_spec title sc ts_text lk rc f names input
                     (conv_register_text title sc ts_text lk rc (load_db f) names input).
Proof.
  intros Hsc Hk Hd Ht Hn. unfold register_text_spec, conv_register_text, reg_txt_report, reg_text_shows.
  pose proof (conv_register_rel lk rc f names input Hk Hd) as R.
  pose proof (spec_register_ok lk rc f names input) as S.
  destruct (Forall2_with_ts ts_text lk rc f input _ _ Hn Hd R S) as [C F].
  eexists. split.
  - rewrite reg_txt_report_lines_gen by assumption. unfold reg_lines. reflexivity.
  - apply reg_cbody_lines_shows; assumption.
Qed.

(* ================================================================== D. balance *)
(* ---- sorted, de-duplicated lists ---- *)
Lemma dedup_by_sorted {A} (R : A -> A -> Prop) (eqb : A -> A -> bool) l :
  StronglySorted R l -> StronglySorted R (dedup_by eqb l).
Proof.
  induction 1 as [|x l Hs IH Hf]; cbn [dedup_by]; constructor.
  - apply StronglySorted_filter. exact IH.
  - rewrite Forall_forall in *. intros y Hy. apply filter_In in Hy. apply Hf.
    apply (dedup_by_incl eqb). tauto.
Qed.

Lemma spec_row_keys_in ps k : In k (spec_row_keys ps) <-> In k (spec_keys ps).
Proof.
  unfold spec_row_keys. split.
  - intros H. apply dedup_by_incl in H. apply sort_by_in in H. exact H.
  - intros H. apply dedup_by_complete.
    + intros x y _ _ E. apply key_eqb_eq. exact E.
    + apply sort_by_in. exact H.
Qed.

Lemma spec_keys_wf ps k : Forall bpost_wf ps -> In k (spec_keys ps) -> key_wf k.
Proof.
  intros Hw H. apply spec_keys_in in H. destruct H as (p & i & Hp & Hi & ->).
  rewrite Forall_forall in Hw. destruct (Hw p Hp) as [_ Ha].
  unfold key_wf. cbn [fst]. apply firstn_wf; [exact Ha|lia].
Qed.

Lemma spec_row_keys_sorted ps : Forall bpost_wf ps ->
  StronglySorted (fun a b => key_cmp a b = Lt) (spec_row_keys ps).
Proof.
  intros Hw. apply key_sorted_strict.
  - apply Forall_forall. intros k Hk. apply (spec_keys_wf ps); [exact Hw|]. apply spec_row_keys_in. exact Hk.
  - unfold spec_row_keys. apply dedup_by_NoDup. intros x _. apply key_eqb_refl.
  - unfold spec_row_keys. apply dedup_by_sorted.
    apply (sort_by_key_sorted (fun k : list (list N) * list N => k)).
Qed.

Lemma balance_keys_spec known ord ps rows :
  (forall l, Permutation (ord l) l) -> Forall bpost_wf ps ->
  balance known ord ps = Some rows -> map r_key rows = spec_row_keys ps.
Proof.
  intros Ho Hw Hb. destruct (balance_rows known ord ps rows Ho Hw Hb) as (S & _ & M).
  apply (sorted_unique (fun a b => key_cmp a b = Lt) key_cmp_lt_asym); [exact S|apply spec_row_keys_sorted; exact Hw|].
  intros k. rewrite M. symmetry. apply spec_row_keys_in.
Qed.

Lemma map_key_filter names rows :
  map r_key (filter (bal_sel_names names) rows) = filter (sel_key names) (map r_key rows).
Proof.
  induction rows as [|r rows IH]; cbn [filter map]; [reflexivity|].
  change (sel_key names (r_key r)) with (bal_sel_names names r).
  destruct (bal_sel_names names r); cbn [map]; rewrite IH; reflexivity.
Qed.

Lemma str_leb_total' a b : str_leb a b = false -> str_leb b a = true.
Proof. unfold str_leb. apply (co_leb_total str_cmp str_cmp_ord). Qed.
Lemma str_leb_trans' a b c : str_leb a b = true -> str_leb b c = true -> str_leb a c = true.
Proof. unfold str_leb. apply (co_leb_trans str_cmp str_cmp_ord). Qed.

Lemma listed_comms_in keys c : In c (listed_comms keys) <-> In c (map snd keys).
Proof.
  unfold listed_comms. split.
  - intros H. apply dedup_by_incl in H. apply sort_by_in in H. exact H.
  - intros H. apply dedup_by_complete.
    + intros x y _ _ E. apply str_eqb_eq. exact E.
    + apply sort_by_in. exact H.
Qed.

Lemma listed_comms_sorted keys : StronglySorted (fun a b => str_cmp a b = Lt) (listed_comms keys).
Proof.
  unfold listed_comms.
  apply (StronglySorted_impl (fun a b => str_leb a b = true /\ a <> b)).
  - intros a b _ _ [H1 H2]. unfold str_leb, cmp_leb in H1.
    destruct (str_cmp a b) eqn:E; [|reflexivity|discriminate]. apply str_cmp_eq in E. contradiction.
  - apply (sorted_nodup_key_strict (fun x : list N => x)).
    + apply dedup_by_sorted. apply (sort_by_sorted str_leb str_leb_total' str_leb_trans').
    + rewrite map_id. apply dedup_by_NoDup. intros x _. apply str_eqb_refl.
Qed.

Lemma str_lt_asym a b : str_cmp a b = Lt -> str_cmp b a = Lt -> False.
Proof. intros H1 H2. rewrite str_cmp_opp, H2 in H1. discriminate. Qed.

(* the delta lines are the commodities of the listed rows, ascending *)
Lemma delta_comms_spec rows deltas :
  NoDup (map fst deltas) -> (forall c, In c (map fst deltas) <-> In c (map r_comm rows)) ->
  map fst (sort_deltas deltas) = listed_comms (map r_key rows).
Proof.
  intros Hn Hm.
  apply (sorted_unique (fun a b => str_cmp a b = Lt) str_lt_asym).
  - apply (proj1 (StronglySorted_map (fun a b => str_cmp a b = Lt) (@fst (list N) dec) (sort_deltas deltas))).
    apply sort_deltas_strict. exact Hn.
  - apply listed_comms_sorted.
  - intros c. rewrite listed_comms_in, map_map. cbn [r_key snd].
    rewrite <- Hm. split; intros H; apply in_map_iff in H; destruct H as (cd & E & H); apply in_map_iff; exists cd;
      (split; [exact E|]).
    + apply (Permutation_in _ (proj2 (sort_deltas_sorted deltas))). exact H.
    + apply (Permutation_in _ (Permutation_sym (proj2 (sort_deltas_sorted deltas)))). exact H.
Qed.

(* ---- names ---- *)
Lemma field_colon_free_app x y : field x -> field y -> field (x ++ colon :: y).
Proof.
  intros (N1 & S1 & L1) (N2 & S2 & L2). split; [destruct x; [contradiction|discriminate]|].
  split; intros H; apply in_app_or in H; destruct H as [H|[H|H]]; try contradiction; discriminate.
Qed.

Lemma acct_str_field (a : list (list N)) : a <> [] -> Forall field a -> field (acct_str a).
Proof.
  unfold acct_str. induction a as [|x a IH]; intros NE H; [contradiction|].
  inversion H as [|? ? Hx Ha]; subst. destruct a as [|y a']; [exact Hx|].
  change (join_colon (x :: y :: a')) with (x ++ colon :: join_colon (y :: a')).
  apply field_colon_free_app; [exact Hx|]. apply IH; [discriminate|exact Ha].
Qed.

Definition bpost_names_ok (p : bpost) : Prop := opt_field (bp_comm p) /\ Forall field (bp_acc p).

Lemma spec_key_names ps k : Forall bpost_wf ps -> Forall bpost_names_ok ps -> In k (spec_keys ps) ->
  field (acct_str (fst k)) /\ opt_field (snd k).
Proof.
  intros Hw Hn H. apply spec_keys_in in H. destruct H as (p & i & Hp & Hi & ->).
  rewrite Forall_forall in Hw, Hn. destruct (Hn p Hp) as [Hc Hf]. destruct (Hw p Hp) as [_ Ha].
  cbn [fst snd]. split; [|exact Hc]. apply acct_str_field.
  - destruct (bp_acc p) as [|x a]; [cbn in Hi; lia|]. destruct i; [lia|]. discriminate.
  - apply Forall_forall. intros c Hcin. rewrite Forall_forall in Hf. apply Hf. apply (in_firstn _ i). exact Hcin.
Qed.

(* ---- figures ---- *)
Lemma spec_delta_keys ps rows c :
  (forall r, In r rows -> d28 (r_own r) = spec_own ps (r_key r)) ->
  spec_delta rows c = spec_kdelta ps (map r_key rows) c.
Proof.
  unfold spec_delta, spec_kdelta. induction rows as [|r rows IH]; intros H; [reflexivity|].
  cbn [filter map]. change (snd (r_key r)) with (r_comm r).
  destruct (str_eqb (r_comm r) c); cbn [map]; rewrite ?zsum_cons, IH by (intros q Hq; apply H; right; exact Hq).
  - rewrite (H r) by (left; reflexivity). reflexivity.
  - reflexivity.
Qed.

Lemma Forall2_impl_in {A B} (P Q : A -> B -> Prop) la : forall lb,
  Forall2 P la lb -> (forall a b, In a la -> P a b -> Q a b) -> Forall2 Q la lb.
Proof.
  induction la as [|a la IH]; intros lb H HQ; inversion H; subst; constructor.
  - apply HQ; [left; reflexivity|assumption].
  - apply IH; [assumption|]. intros a' b' Ha. apply HQ. right. exact Ha.
Qed.

Lemma Forall2_map_l {A B C} (P : C -> B -> Prop) (f : A -> C) la : forall lb,
  Forall2 (fun a b => P (f a) b) la lb -> Forall2 P (map f la) lb.
Proof. induction la; intros lb H; inversion H; subst; cbn [map]; constructor; auto. Qed.

(* the balance text of any postings ps, against the specification on ps *)
Lemma bal_report_text_shows known ord names ps rep title sc :
  (sc_min sc <= sc_max sc)%N -> (forall l, Permutation (ord l) l) ->
  Forall bpost_wf ps -> Forall bpost_names_ok ps -> no_nl title ->
  balance_report known ord (bal_sel_names names) ps = Some rep ->
  bal_text_shows title sc ps (listed_keys names ps)
                 (bal_txt_report title sc (b_rows rep) (b_deltas rep)).
Proof.
  intros Hsc Ho Hw Hn Ht Hb.
  destruct (report_delta known ord _ ps rep Ho Hw Hb) as ((rows & Er & Ef) & Dn & Dm & Dv).
  pose proof (balance_keys_spec known ord ps rows Ho Hw Er) as Hk.
  assert (map r_key (b_rows rep) = listed_keys names ps) as Hlk.
  { rewrite Ef, map_key_filter, Hk. reflexivity. }
  assert (forall r, In r (b_rows rep) -> In r rows) as Hsub.
  { intros r Hr. rewrite Ef in Hr. apply filter_In in Hr. tauto. }
  assert (forall r, In r (b_rows rep) -> In (r_key r) (spec_keys ps)) as Hks.
  { intros r Hr. apply (proj2 (proj2 (balance_rows known ord ps rows Ho Hw Er))). apply in_map. apply Hsub. exact Hr. }
  assert (bal_names_ok (b_rows rep) (b_deltas rep)) as Hnames.
  { split.
    - apply Forall_forall. intros r Hr.
      apply (spec_key_names ps (r_key r) Hw Hn (Hks r Hr)).
    - apply Forall_forall. intros cd Hcd.
      assert (In (fst cd) (map r_comm (b_rows rep))) as Hc by (apply Dm; apply in_map; exact Hcd).
      apply in_map_iff in Hc. destruct Hc as (r & E & Hr). rewrite <- E.
      apply (spec_key_names ps (r_key r) Hw Hn (Hks r Hr)). }
  destruct (bal_txt_report_spec title sc (b_rows rep) (b_deltas rep) Ht Hnames
              (balance_report_covers _ _ _ _ _ Hb)) as (ls & Hl & Hbs).
  exists ls. split; [exact Hl|].
  unfold bal_block_spec in Hbs. unfold bal_block_shows. rewrite <- Hlk.
  destruct (b_rows rep) as [|r0 rows'] eqn:ER; [exact Hbs|]. rewrite <- ER in *.
  assert (map r_key (b_rows rep) <> []) as NE by (rewrite ER; discriminate).
  destruct (map r_key (b_rows rep)) as [|k0 ks] eqn:EK; [contradiction|]. rewrite <- EK in *.
  destruct Hbs as (rl & ruler & dl & -> & Fr & Hr & Fd).
  exists rl, ruler, dl. split; [reflexivity|]. split; [|split; [exact Hr|]].
  - apply Forall2_map_l. eapply Forall2_impl_in; [exact Fr|].
    intros r l Hin Hwds. unfold krow_shows, row_words in *.
    exists (shown_text sc (r_own r)), (shown_text sc (r_tree r)). split; [exact Hwds|].
    destruct (balance_rows_dwf known ord ps rows Ho Hw Er r (Hsub r Hin)) as [D1 D2].
    split; apply fig_display_only; try assumption.
    + apply (balance_own known ord ps rows Ho Hw Er). apply Hsub. exact Hin.
    + apply (balance_tree known ord ps rows Ho Hw Er). apply Hsub. exact Hin.
  - rewrite <- (delta_comms_spec (b_rows rep) (b_deltas rep) Dn Dm).
    apply Forall2_map_l. eapply Forall2_impl_in; [exact Fd|].
    intros cd l Hin Hwds. unfold kdelta_shows, delta_words in *.
    exists (shown_text sc (snd cd)). split; [exact Hwds|].
    assert (In cd (b_deltas rep)) as Hcd.
    { apply (Permutation_in _ (proj2 (sort_deltas_sorted (b_deltas rep)))). exact Hin. }
    destruct cd as [c d]. cbn [fst snd] in *.
    apply fig_display_only; [exact Hsc| |].
    + apply (report_deltas_dwf known ord _ ps rep Ho Hw Hb c d Hcd).
    + rewrite (Dv c d Hcd). apply spec_delta_keys.
      intros r' Hr'. apply (balance_own known ord ps rows Ho Hw Er). apply Hsub. exact Hr'.
Qed.

(* ---- the specification does not depend on the order of the postings ---- *)
Lemma spec_own_perm ps ps' k : Permutation ps ps' -> spec_own ps k = spec_own ps' k.
Proof. intros H. unfold spec_own. rewrite !zsum_map_filter. apply zsum_map_perm. exact H. Qed.

Lemma spec_tree_perm ps ps' k : Permutation ps ps' -> spec_tree ps k = spec_tree ps' k.
Proof. intros H. unfold spec_tree. rewrite !zsum_map_filter. apply zsum_map_perm. exact H. Qed.

Lemma spec_keys_perm ps ps' k : Permutation ps ps' -> In k (spec_keys ps) -> In k (spec_keys ps').
Proof.
  intros H Hk. apply spec_keys_in in Hk. destruct Hk as (p & i & Hp & Hi & E).
  apply spec_keys_in. exists p, i. split; [apply (Permutation_in _ H); exact Hp|]. split; assumption.
Qed.

Lemma spec_row_keys_perm ps ps' : Permutation ps ps' -> Forall bpost_wf ps ->
  spec_row_keys ps = spec_row_keys ps'.
Proof.
  intros H Hw.
  apply (sorted_unique (fun a b => key_cmp a b = Lt) key_cmp_lt_asym).
  - apply spec_row_keys_sorted. exact Hw.
  - apply spec_row_keys_sorted. apply (bpost_wf_perm ps ps' H Hw).
  - intros k. rewrite !spec_row_keys_in. split; apply spec_keys_perm; [exact H|apply Permutation_sym; exact H].
Qed.

Lemma bal_text_shows_perm title sc names ps ps' text : Permutation ps ps' -> Forall bpost_wf ps ->
  bal_text_shows title sc ps (listed_keys names ps) text ->
  bal_text_shows title sc ps' (listed_keys names ps') text.
Proof.
  intros H Hw (ls & Hl & Hb). exists ls. split; [exact Hl|].
  unfold listed_keys in *. rewrite <- (spec_row_keys_perm ps ps' H Hw).
  set (keys := filter (sel_key names) (spec_row_keys ps)) in *.
  unfold bal_block_shows in *. destruct keys as [|k0 ks] eqn:EK; [exact Hb|]. rewrite <- EK in *.
  destruct Hb as (rl & ruler & dl & E & Fr & Hr & Fd). exists rl, ruler, dl.
  split; [exact E|]. split; [|split; [exact Hr|]].
  - eapply Forall2_impl_c03; [|exact Fr]. intros k l (o & t & W & S1 & S2). exists o, t.
    rewrite <- (spec_own_perm ps ps' k H), <- (spec_tree_perm ps ps' k H). repeat split; assumption.
  - eapply Forall2_impl_c03; [|exact Fd]. intros c l (d & W & S). exists d. split; [exact W|].
    replace (spec_kdelta ps' keys c) with (spec_kdelta ps keys c); [exact S|].
    unfold spec_kdelta. f_equal. apply map_ext. intros k. apply spec_own_perm. exact H.
Qed.

(* ---- the converted postings ---- *)
Lemma spec_conv_acc lk rc f t p : cv_acc (spec_conv lk rc f t p) = p_acc p.
Proof.
  unfold spec_conv. destruct rc; [|reflexivity]. destruct (spec_rate lk (Some l) f t p); reflexivity.
Qed.

Lemma conv_bposts_is_spec lk rc f all txns : distinct_keys f -> (forall tx, In tx txns -> In tx all) ->
  conv_bposts (make_ctx lk all rc (load_db f)) txns = spec_bposts lk rc f txns.
Proof.
  intros Hd Hs. unfold conv_bposts, spec_bposts. apply flat_map_ext_in. intros tx Htx.
  unfold bal_conv. rewrite (convert_prices_is_spec lk rc f all tx Hd (Hs tx Htx)), map_map. reflexivity.
Qed.

Lemma spec_bposts_in lk rc f txns b : In b (spec_bposts lk rc f txns) ->
  exists tx p, In tx txns /\ In p (t_posts tx) /\ b = conv_bpost (spec_conv lk rc f (h_inst (t_hdr tx)) p).
Proof.
  unfold spec_bposts. intros H. apply in_flat_map in H. destruct H as (tx & Htx & H).
  apply in_map_iff in H. destruct H as (p & E & Hp). exists tx, p. repeat split; [assumption|assumption|symmetry; exact E].
Qed.

Lemma spec_bposts_wf lk rc f txns : Forall (txn_dom lk rc f) txns -> bal_names_in rc txns ->
  Forall bpost_wf (spec_bposts lk rc f txns) /\ Forall bpost_names_ok (spec_bposts lk rc f txns).
Proof.
  intros Hd [Hrc Hn]. rewrite Forall_forall in Hd, Hn.
  split; apply Forall_forall; intros b Hb; apply spec_bposts_in in Hb; destruct Hb as (tx & p & Htx & Hp & ->);
    specialize (Hd tx Htx); specialize (Hn tx Htx); unfold txn_dom in Hd; rewrite Forall_forall in Hd, Hn;
    destruct (Hd p Hp) as [_ Hc]; destruct (Hn p Hp) as (Hpc & Ha & Hf).
  - split; cbn [conv_bpost bp_amt bp_acc]; [exact Hc|rewrite spec_conv_acc; exact Ha].
  - split; cbn [conv_bpost bp_comm bp_acc]; [|rewrite spec_conv_acc; exact Hf].
    destruct (spec_conv_comm lk rc f (h_inst (t_hdr tx)) p) as [->|[-> _]]; assumption.
Qed.

Lemma spec_bposts_perm lk rc f a b : Permutation a b -> Permutation (spec_bposts lk rc f a) (spec_bposts lk rc f b).
Proof. intros H. unfold spec_bposts. apply Permutation_flat_map. exact H. Qed.

Lemma ord_sorted_perm l : Permutation (ord_sorted l) l.
Proof. unfold ord_sorted. apply sort_by_perm. Qed.

Lemma txn_dom_perm lk rc f a b : Permutation a b -> Forall (txn_dom lk rc f) a -> Forall (txn_dom lk rc f) b.
Proof. apply Permutation_Forall. Qed.

Lemma bal_names_in_perm rc a b : Permutation a b -> bal_names_in rc a -> bal_names_in rc b.
Proof. intros H [H1 H2]. split; [exact H1|]. apply (Permutation_Forall H). exact H2. Qed.

(* T05_balance_shown *)
Lemma conv_balance_text_shows title sc lk rc f names input text :
  (sc_min sc <= sc_max sc)%N -> distinct_keys f -> Forall (txn_dom lk rc f) input ->
  no_nl title -> bal_names_in rc input ->
  conv_balance_text title sc lk rc (load_db f) names input = Some text ->
  balance_text_spec title sc lk rc f names input text.
Proof.
  intros Hsc Hk Hd Ht Hn H. unfold conv_balance_text, conv_balance, balance_report_det, report_ctx in H.
  pose proof (sort_txns_perm input) as P.
  rewrite (conv_bposts_is_spec lk rc f (sort_txns input) (sort_txns input) Hk (fun tx Hx => Hx)) in H.
  destruct (balance_report (fun _ => true) ord_sorted (bal_sel_names names) (spec_bposts lk rc f (sort_txns input)))
    as [rep|] eqn:Eb; [|discriminate]. cbn [option_map] in H. inversion H; subst text. clear H.
  destruct (spec_bposts_wf lk rc f (sort_txns input)
              (txn_dom_perm lk rc f _ _ (Permutation_sym P) Hd) (bal_names_in_perm rc _ _ (Permutation_sym P) Hn)) as [Hw Hnm].
  unfold balance_text_spec. cbv zeta.
  apply (bal_text_shows_perm title sc names (spec_bposts lk rc f (sort_txns input))).
  - apply spec_bposts_perm. exact P.
  - exact Hw.
  - apply (bal_report_text_shows (fun _ => true) ord_sorted); try assumption. apply ord_sorted_perm.
Qed.

Lemma conv_balance_text_total title sc lk rc f names input :
  distinct_keys f -> Forall (txn_dom lk rc f) input -> bal_names_in rc input ->
  exists text, conv_balance_text title sc lk rc (load_db f) names input = Some text.
Proof.
  intros Hk Hd Hn. unfold conv_balance_text, conv_balance, balance_report_det, balance_report, report_ctx.
  pose proof (sort_txns_perm input) as P.
  rewrite (conv_bposts_is_spec lk rc f (sort_txns input) (sort_txns input) Hk (fun tx Hx => Hx)).
  destruct (spec_bposts_wf lk rc f (sort_txns input)
              (txn_dom_perm lk rc f _ _ (Permutation_sym P) Hd) (bal_names_in_perm rc _ _ (Permutation_sym P) Hn)) as [Hw _].
  destruct (balance_total (fun _ => true) ord_sorted _ ord_sorted_perm Hw (fun _ => eq_refl)) as (rows & ->).
  cbn [option_map]. eexists. reflexivity.
Qed.

(* ================================================================== E. the oracles *)
Lemma fig_ok_sound sc z t : fig_ok sc z t = true -> fig_shows sc t z.
Proof.
  unfold fig_ok, fig_shows, shows. intros H.
  destruct (shown_ok_sound sc (mkDec z 28) t H) as (r & R1 & R2 & R3 & _).
  exists r. split; [exact R1|]. split; [exact R2|exact R3].
Qed.

Lemma forall2b_sound {A B} (p : A -> B -> bool) (P : A -> B -> Prop) :
  (forall a b, p a b = true -> P a b) ->
  forall la lb, forall2b p la lb = true -> Forall2 P la lb.
Proof.
  intros Hp. induction la as [|a la IH]; intros [|b lb] H; cbn [forall2b] in H; try discriminate; constructor.
  - apply andb_true_iff in H. apply Hp. tauto.
  - apply andb_true_iff in H. apply IH. tauto.
Qed.

Lemma krow_ok_sound sc ps k l : krow_ok sc ps k l = true -> krow_shows sc ps k l.
Proof.
  unfold krow_ok, krow_shows. destruct (words l) as [|o [|t rest]]; try discriminate.
  intros H. apply andb_true_iff in H. destruct H as [H H3]. apply andb_true_iff in H. destruct H as [H1 H2].
  apply words_eqb_eq in H1. exists o, t. subst rest. split; [reflexivity|].
  split; apply fig_ok_sound; assumption.
Qed.

Lemma kdelta_ok_sound sc ps keys c l : kdelta_ok sc ps keys c l = true -> kdelta_shows sc ps keys c l.
Proof.
  unfold kdelta_ok, kdelta_shows. destruct (words l) as [|d rest]; try discriminate.
  intros H. apply andb_true_iff in H. destruct H as [H1 H2]. apply words_eqb_eq in H1. subst rest.
  exists d. split; [reflexivity|apply fig_ok_sound; exact H2].
Qed.

Lemma bal_block_shows_ok_sound sc ps keys ls :
  bal_block_shows_ok sc ps keys ls = true -> bal_block_shows sc ps keys ls.
Proof.
  unfold bal_block_shows_ok, bal_block_shows. destruct keys as [|k0 ks] eqn:EK.
  { destruct ls; [reflexivity|discriminate]. }
  rewrite <- EK. cbv zeta. intros H. apply andb_true_iff in H. destruct H as [H1 H2].
  destruct (skipn (length keys) ls) as [|ruler dl] eqn:ES; [discriminate|].
  apply andb_true_iff in H2. destruct H2 as [H2 H3].
  exists (firstn (length keys) ls), ruler, dl. split; [|split; [|split]].
  - rewrite <- ES. symmetry. apply firstn_skipn.
  - apply (forall2b_sound _ _ (krow_ok_sound sc ps)). exact H1.
  - exact H2.
  - apply (forall2b_sound _ _ (kdelta_ok_sound sc ps keys)). exact H3.
Qed.

Lemma bal_text_shows_ok_sound title sc ps keys text :
  bal_text_shows_ok title sc ps keys text = true -> bal_text_shows title sc ps keys text.
Proof.
  unfold bal_text_shows_ok, bal_text_shows.
  destruct (text_lines text) as [|t [|u rest]]; try discriminate.
  intros H. apply andb_true_iff in H. destruct H as [H H3]. apply andb_true_iff in H. destruct H as [H1 H2].
  apply str_eqb_eq in H1, H2. subst.
  destruct (rev rest) as [|[|] rl] eqn:ER; try discriminate.
  apply rev_last_nil in ER. exists (rev rl). split; [rewrite ER; reflexivity|].
  apply bal_block_shows_ok_sound. exact H3.
Qed.

Lemma crow_ok_sound sc s l : crow_ok sc s l = true -> crow_shows sc s l.
Proof.
  unfold crow_ok, crow_shows.
  destruct (strip_prefix _ l) as [rest|] eqn:E; [|discriminate].
  apply strip_prefix_some in E.
  destruct (words rest) as [|a ws] eqn:EW; [discriminate|]. cbv zeta.
  intros H. apply andb_true_iff in H. destruct H as [H H3]. apply andb_true_iff in H. destruct H as [H1 H2].
  destruct (skipn (length (conv_words s)) ws) as [|t tail] eqn:ES; [discriminate|].
  apply andb_true_iff in H3. destruct H3 as [H3 H4].
  apply words_eqb_eq in H2, H4.
  exists rest, a, t. split; [rewrite E, <- app_assoc; reflexivity|]. split; [|split; apply fig_ok_sound; assumption].
  rewrite EW. cbn [app]. f_equal. rewrite <- (firstn_skipn (length (conv_words s)) ws), H2, ES, H4. reflexivity.
Qed.

Lemma reg_cbody_ok_sound sc es : forall ls,
  reg_cbody_ok sc es ls = true -> reg_cbody_shows sc es ls.
Proof.
  induction es as [|[ts [t rows]] es IH]; intros ls; cbn [reg_cbody_ok reg_cbody_shows].
  { destruct ls; [reflexivity|discriminate]. }
  destruct rows as [|s0 rows'] eqn:ER; [apply IH|]. rewrite <- ER.
  set (hl := header_lines indent12 ts (t_hdr t)). cbv zeta.
  intros H. apply andb_true_iff in H. destruct H as [H H3]. apply andb_true_iff in H. destruct H as [H1 H2].
  destruct (skipn (length rows) (skipn (length hl) ls)) as [|d ls'] eqn:ES; [discriminate|].
  apply andb_true_iff in H3. destruct H3 as [H3 H4].
  apply lstr_eqb_eq in H1.
  exists (firstn (length rows) (skipn (length hl) ls)), d, ls'. split; [|split; [|split]].
  - rewrite <- (firstn_skipn (length hl) ls) at 1. rewrite H1. f_equal.
    rewrite <- ES. symmetry. apply firstn_skipn.
  - apply (forall2b_sound _ _ (crow_ok_sound sc)). exact H2.
  - exact H3.
  - apply IH. exact H4.
Qed.

Lemma reg_text_shows_ok_sound title sc es text :
  reg_text_shows_ok title sc es text = true -> reg_text_shows title sc es text.
Proof.
  unfold reg_text_shows_ok, reg_text_shows.
  destruct (text_lines text) as [|t [|u rest]]; try discriminate.
  intros H. apply andb_true_iff in H. destruct H as [H H3]. apply andb_true_iff in H. destruct H as [H1 H2].
  apply str_eqb_eq in H1, H2. subst.
  destruct (rev rest) as [|[|] rl] eqn:ER; try discriminate.
  apply rev_last_nil in ER. exists (rev rl). split; [rewrite ER; reflexivity|].
  apply reg_cbody_ok_sound. exact H3.
Qed.

(* T05_oracle_sound *)
Lemma text_oracles_sound title sc ts_text lk rc f names input text :
  (register_text_ok title sc ts_text lk rc f names input text = true ->
   register_text_spec title sc ts_text lk rc f names input text)
  /\ (balance_text_ok title sc lk rc f names input text = true ->
      balance_text_spec title sc lk rc f names input text).
Proof.
  split; intros H.
  - apply reg_text_shows_ok_sound. exact H.
  - apply bal_text_shows_ok_sound. exact H.
Qed.

(* ================================================================== unconverted rows *)
Lemma acc_rows_targets conv h ps : forall st,
  Forall (fun r => In (rr_post r) ps
                   /\ rr_target r = snd (fst (fst (conv h (rr_post r))))
                   /\ rr_rate r = snd (conv h (rr_post r)))
         (snd (acc_rows conv h st ps)).
Proof.
  induction ps as [|p ps IH]; intros st; cbn [acc_rows snd]; constructor.
  - cbn [rr_post rr_target rr_rate]. repeat split. left. reflexivity.
  - eapply Forall_impl; [|apply IH]. intros r (H1 & H2 & H3). repeat split; try assumption. right. exact H1.
Qed.

Lemma reg_engine_entry conv sel ts : forall st e, In e (snd (reg_engine conv sel st ts)) ->
  exists st', In (re_txn e) ts /\ e = snd (reg_txn conv sel st' (re_txn e)).
Proof.
  induction ts as [|t ts IH]; intros st e H; cbn [reg_engine snd] in H; [destruct H|].
  destruct H as [H|H].
  - exists st. subst e. rewrite reg_txn_txn. split; [left; reflexivity|reflexivity].
  - destruct (IH _ _ H) as (st' & H1 & H2). exists st'. split; [right; exact H1|exact H2].
Qed.

(* T05_unconverted_rows *)
Lemma unconverted_rows sc lk rc f names input e r :
  distinct_keys f ->
  In e (conv_register lk rc (load_db f) names input) -> In r (re_rows e) ->
  (rc = None \/ p_comm (rr_post r) = [] \/ rc = Some (p_comm (rr_post r))
   \/ exists tgt, rc = Some tgt /\ NoRate lk f tgt (p_comm (rr_post r)) (h_inst (t_hdr (re_txn e)))) ->
  spec_conv lk rc f (h_inst (t_hdr (re_txn e))) (rr_post r) = unconverted (rr_post r)
  /\ is_conv r = false /\ rr_target r = p_comm (rr_post r) /\ rr_rate r = None
  /\ (opt_field (p_comm (rr_post r)) -> forall fw, reg_row_spec sc r (reg_row_line sc fw r)).
Proof.
  intros Hk He Hr Hu.
  pose proof (spec_conv_unconverted lk rc f _ _ Hu) as Eu.
  unfold conv_register, register in He.
  destruct (reg_engine_entry _ _ _ _ _ He) as (st' & Ht & Ee).
  assert (In r (snd (acc_rows (reg_conv (report_ctx lk rc (load_db f) input)) (t_hdr (re_txn e)) st'
                              (entry_posts (re_txn e))))) as Hr'.
  { rewrite Ee, reg_txn_rows in Hr. apply filter_In in Hr. tauto. }
  pose proof (acc_rows_targets (reg_conv (report_ctx lk rc (load_db f) input)) (t_hdr (re_txn e))
                               (entry_posts (re_txn e)) st') as F.
  rewrite Forall_forall in F. destruct (F r Hr') as (Hp & Et & Era).
  apply (Permutation_in _ (entry_posts_perm (re_txn e))) in Hp.
  unfold reg_conv, report_ctx in Et, Era. cbn [fst snd] in Et, Era.
  rewrite (ctx_conv_is_spec lk rc f (sort_txns input) (re_txn e) (rr_post r) Hk Ht Hp), Eu in Et, Era.
  cbn [unconverted cv_comm cv_rate] in Et, Era.
  assert (is_conv r = false) as IC.
  { unfold is_conv. rewrite Et, str_eqb_refl. reflexivity. }
  split; [exact Eu|]. split; [exact IC|]. split; [exact Et|]. split; [exact Era|].
  intros Hc fw. apply reg_row_line_spec; assumption.
Qed.

(* ================================================================== non-vacuity *)
(* 2024: one transaction buys 0.5 ACME twice (account a:x) and pays 7 EUR from b; ACME -> EUR 0.25 at the
   transaction time.  Each converted posting is worth 0.125 EUR; under scale (2,2) the running totals read
   0.13 and 0.25 (NOT 0.26: rounding is applied to the accumulated exact sum), the balance reads 0.25 *)
Definition t05_EUR : list N := [69; 85; 82]%N.
Definition t05_ACME : list N := [65; 67; 77; 69]%N.
Definition t05_file : list pentry := [ mkPE 100 t05_ACME (mkDec 25 2) t05_EUR; mkPE 300 t05_ACME (mkDec 9 0) t05_EUR ].
Definition t05_p (a : list (list N)) (c : list N) (m : Z) (s : N) : posting := mkPosting a c (mkDec m s) (mkDec m s) false c.
Definition t05_txns : list txn :=
  [ mkTxn (mkHeader 200 0 None None None None [] [])
          [ t05_p [[97]; [120]]%N t05_ACME 5 1; t05_p [[97]; [120]]%N t05_ACME 5 1; t05_p [[98]]%N t05_EUR (-7) 0;
            t05_p [[99]]%N [] 3 0 ] ].
Definition t05_sc : scale_cfg := mkScale 2 2.
Definition t05_title : list N := [82]%N.
Definition t05_tstext (h : header) : list N := [116]%N.

Lemma t05_example :
  distinct_keys t05_file
  /\ map words (text_lines (conv_register_text t05_title t05_sc t05_tstext LkTxnTime (Some t05_EUR)
                                               (load_db t05_file) [] t05_txns))
     = [ [[82]]; [[45]]; [[116]];
         [[99]; [51; 46; 48; 48]; [51; 46; 48; 48]];
         [[97; 58; 120]; [48; 46; 53; 48]; t05_ACME; [64]; [48; 46; 50; 53]; [48; 46; 49; 51]; t05_EUR];
         [[97; 58; 120]; [48; 46; 53; 48]; t05_ACME; [64]; [48; 46; 50; 53]; [48; 46; 50; 53]; t05_EUR];
         [[98]; [45; 55; 46; 48; 48]; [45; 55; 46; 48; 48]; t05_EUR];
         [repeat 45%N 106]; [] ]%N
  /\ option_map (fun t => map words (text_lines t))
       (conv_balance_text t05_title t05_sc LkTxnTime (Some t05_EUR) (load_db t05_file) [] t05_txns)
     = Some [ [[82]]; [[45]];
              [[51; 46; 48; 48]; [51; 46; 48; 48]; [99]];
              [[48; 46; 48; 48]; [48; 46; 50; 53]; t05_EUR; [97]];
              [[48; 46; 50; 53]; [48; 46; 50; 53]; t05_EUR; [97; 58; 120]];
              [[45; 55; 46; 48; 48]; [45; 55; 46; 48; 48]; t05_EUR; [98]];
              [repeat 61%N 25];
              [[51; 46; 48; 48]];
              [[45; 54; 46; 55; 53]; t05_EUR]; [] ]%N
  /\ register_text_ok t05_title t05_sc t05_tstext LkTxnTime (Some t05_EUR) t05_file [] t05_txns
       (conv_register_text t05_title t05_sc t05_tstext LkTxnTime (Some t05_EUR) (load_db t05_file) [] t05_txns) = true
  /\ Forall (txn_dom LkTxnTime (Some t05_EUR) t05_file) t05_txns.
Proof.
  split; [repeat constructor; cbn; intuition discriminate|].
  split; [vm_compute; reflexivity|]. split; [vm_compute; reflexivity|]. split; [vm_compute; reflexivity|].
  repeat constructor; vm_compute; intros; discriminate.
Qed.
