(* Codec_ts_proofs.v — time stamp text of TkModel.Codec: an instant is read back from its own text. *)
From TkModel Require Import Base Dec Codec.
From TkSpec Require Import Codec_spec.
From TkProofs Require Import Codec_proofs Codec_cal_proofs.
Local Open Scope Z_scope.
Ltac Zify.zify_post_hook ::= Z.to_euclidean_division_equations.

(* ------------------------------------------------------------------ time stamp text *)
Lemma c18_show_frac_spec w : forall n, (n < 10 ^ N.of_nat w)%N -> n <> 0%N ->
  digits (show_frac w n) /\ (1 <= length (show_frac w n) <= w)%nat
  /\ (val_digits 0 (show_frac w n) * 10 ^ N.of_nat (w - length (show_frac w n)) = n)%N.
Proof.
  induction w as [|w IH]; intros n Hn NZ.
  - cbn in Hn. lia.
  - cbn [show_frac]. rewrite Nat2N.inj_succ, N.pow_succ_r' in Hn.
    destruct (N.eqb_spec (n mod 10) 0) as [Z|NZ'].
    + destruct (IH (n / 10)%N) as (D & L & V); [lia | lia |].
      repeat split; [exact D | lia | lia |].
      replace (S w - length (show_frac w (n / 10)))%nat with (S (w - length (show_frac w (n / 10))))%nat by lia.
      rewrite Nat2N.inj_succ, N.pow_succ_r'. lia.
    + destruct (c18_show_fixed_spec (S w) n) as (D & L & V).
      { rewrite Nat2N.inj_succ, N.pow_succ_r'. exact Hn. }
      repeat split; [exact D | lia | lia |].
      rewrite L, Nat.sub_diag, V. cbn. lia.
Qed.

Lemma c18_expect_cons c r : expect c (c :: r) = Some r.
Proof. unfold expect. now rewrite N.eqb_refl. Qed.

Lemma c18_take4 n rest : (n < 10000)%N -> take_digits 4 (show_fixed 4 n ++ rest) = Some (n, rest).
Proof. intros. now apply c18_take_digits_fixed. Qed.
Lemma c18_take2 n rest : (n < 100)%N -> take_digits 2 (show_fixed 2 n ++ rest) = Some (n, rest).
Proof. intros. now apply c18_take_digits_fixed. Qed.

Lemma c18_ts_lex_show z :
  ts_wf z = true ->
  let c := ts_civil z in
  ts_lex (ts_show z) =
  Some (mkTsF (Z.to_N (c_y c)) (Z.to_N (c_m c)) (Z.to_N (c_d c)) (Z.to_N (c_hh c)) (Z.to_N (c_mi c))
              (Z.to_N (c_ss c)) (Z.to_N (c_ns c)) (Some (false, 0, 0, 0)%N))
  /\ 0 <= c_y c /\ 1 <= c_m c <= 12 /\ 1 <= c_d c <= cd_days_in_month (c_y c) (c_m c)
  /\ cd_days_of_civil (c_y c) (c_m c) (c_d c) = z / ns_per_s / 86400.
Proof.
  unfold ts_wf. intros W. apply andb_true_iff in W. destruct W as [W1 W2].
  apply Z.leb_le in W1, W2. unfold ts_max_s in W2.
  cbv zeta. unfold ts_show, ts_civil.
  set (secs := z / ns_per_s) in *. set (days := secs / 86400). set (sod := secs mod 86400).
  pose proof (c18_civil_spec days) as CS.
  destruct (cd_civil_of_days days) as [[y m] d]. destruct CS as (Hm & Hd & Hdoc & Hy).
  assert (Hy' : 0 <= y <= 9999) by (apply Hy; unfold days; lia).
  assert (Hdim : cd_days_in_month y m <= 31).
  { unfold cd_days_in_month. destruct (m =? 2); [destruct (cd_is_leap y); lia|].
    destruct ((m =? 4) || (m =? 6) || (m =? 9) || (m =? 11)); lia. }
  assert (Hsod : 0 <= sod < 86400) by (unfold sod; apply Z.mod_pos_bound; lia).
  assert (Hns : 0 <= z mod ns_per_s < 1000000000) by (apply Z.mod_pos_bound; unfold ns_per_s; lia).
  cbn [c_y c_m c_d c_hh c_mi c_ss c_ns]. split; [|repeat split; try lia].
  unfold ts_show_civil. cbn [c_y c_m c_d c_hh c_mi c_ss c_ns]. unfold show_year.
  destruct (Z.ltb_spec y 0) as [?|_]; [lia|].
  repeat (rewrite <- app_assoc || rewrite <- app_comm_cons).
  unfold ts_lex.
  rewrite c18_take4 by lia. cbn [opt_bind]. rewrite c18_expect_cons. cbn [opt_bind].
  rewrite c18_take2 by lia. cbn [opt_bind]. rewrite c18_expect_cons. cbn [opt_bind].
  rewrite c18_take2 by lia. cbn [opt_bind].
  change ((84 =? 84)%N || (84 =? 116)%N || (84 =? 32)%N) with true. cbv iota.
  rewrite c18_take2 by lia. cbn [opt_bind]. rewrite c18_expect_cons. cbn [opt_bind].
  rewrite c18_take2 by lia. cbn [opt_bind]. rewrite c18_expect_cons. cbn [opt_bind].
  rewrite c18_take2 by lia. cbn [opt_bind].
  destruct (Z.eqb_spec (z mod ns_per_s) 0) as [E0|NE0].
  - cbn [app]. change ((90 =? 46)%N || (90 =? 44)%N) with false. cbv iota. cbn [opt_bind ts_lex_offset].
    change ((90 =? 90)%N || (90 =? 122)%N) with true. cbv iota. cbn [opt_bind]. rewrite E0. reflexivity.
  - destruct (c18_show_frac_spec 9 (Z.to_N (z mod ns_per_s))) as (D & L & V); [cbn; lia | lia |].
    cbn [app]. change ((46 =? 46)%N || (46 =? 44)%N) with true. cbv iota.
    rewrite c18_span_digits_app by (exact D || reflexivity).
    destruct (Nat.eqb_spec (length (show_frac 9 (Z.to_N (z mod ns_per_s)))) 0) as [?|_]; [lia|].
    destruct (Nat.ltb_spec 9 (length (show_frac 9 (Z.to_N (z mod ns_per_s))))) as [?|_]; [lia|].
    cbn [orb opt_bind ts_lex_offset].
    change ((90 =? 90)%N || (90 =? 122)%N) with true. cbv iota. cbn [opt_bind].
    replace (9 - N.of_nat (length (show_frac 9 (Z.to_N (z mod ns_per_s)))))%N
      with (N.of_nat (9 - length (show_frac 9 (Z.to_N (z mod ns_per_s))))) by lia.
    rewrite V. reflexivity.
Qed.

(* an instant is read back from its own text *)
Lemma c18_ts_parse_show z : ts_wf z = true -> ts_parse (ts_show z) = Some z.
Proof.
  intros W. destruct (c18_ts_lex_show z W) as (LX & Hy & Hm & Hd & Hdoc).
  unfold ts_parse. rewrite LX. cbn [opt_bind]. clear LX.
  unfold ts_wf in W. apply andb_true_iff in W. destruct W as [W1 W2].
  apply Z.leb_le in W1, W2.
  unfold ts_civil in *. set (secs := z / ns_per_s) in *. set (days := secs / 86400) in *.
  set (sod := secs mod 86400) in *.
  destruct (cd_civil_of_days days) as [[y m] d]. cbn [c_y c_m c_d c_hh c_mi c_ss c_ns] in *.
  assert (Hsod : 0 <= sod < 86400) by (unfold sod; apply Z.mod_pos_bound; lia).
  assert (Hns : 0 <= z mod ns_per_s < 1000000000) by (apply Z.mod_pos_bound; unfold ns_per_s; lia).
  assert (Hdim : cd_days_in_month y m <= 31).
  { unfold cd_days_in_month. destruct (m =? 2); [destruct (cd_is_leap y); lia|].
    destruct ((m =? 4) || (m =? 6) || (m =? 9) || (m =? 11)); lia. }
  unfold ts_validate. cbn [f_y f_m f_d f_hh f_mi f_ss f_ns f_off].
  rewrite !Z2N.id by lia.
  replace ((1 <=? m) && (m <=? 12) && (1 <=? d) && (d <=? cd_days_in_month y m)) with true
    by (symmetry; rewrite !andb_true_iff; repeat split; apply Z.leb_le; lia).
  replace ((Z.to_N (sod / 3600) <=? 23)%N) with true by (symmetry; apply N.leb_le; lia).
  replace ((Z.to_N ((sod / 60) mod 60) <=? 59)%N) with true by (symmetry; apply N.leb_le; lia).
  replace ((Z.to_N (sod mod 60) <=? 60)%N) with true by (symmetry; apply N.leb_le; lia).
  replace ((Z.to_N (z mod ns_per_s) <? 1000000000)%N) with true by (symmetry; apply N.ltb_lt; lia).
  cbn [andb]. change ((0 <=? 25)%N && (0 <=? 59)%N && (0 <=? 59)%N) with true. cbv iota.
  replace ((Z.to_N (sod mod 60) =? 60)%N) with false by (symmetry; apply N.eqb_neq; lia).
  rewrite Hdoc. change (Z.of_N (0 * 3600 + 0 * 60 + 0)) with 0.
  replace (days * 86400 + sod / 3600 * 3600 + (sod / 60) mod 60 * 60 + sod mod 60 - 0) with secs
    by (unfold days, sod; lia).
  replace (ts_min_s <=? secs) with true by (symmetry; apply Z.leb_le; unfold ts_min_s; lia).
  replace (secs <=? ts_max_s) with true by (symmetry; apply Z.leb_le; lia).
  cbn [andb]. f_equal. unfold secs, ns_per_s. lia.
Qed.

Lemma c18_ts_validate_range f z : ts_validate f = Some z -> ts_in_range z = true.
Proof.
  unfold ts_validate.
  match goal with |- (if ?c then _ else _) = _ -> _ => destruct c eqn:C; [|discriminate] end.
  destruct (f_off f) as [[[[ng oh] om] os]|]; [|discriminate].
  match goal with |- (if ?c then _ else _) = _ -> _ => destruct c; [|discriminate] end.
  match goal with |- (if ?c then _ else _) = _ -> _ => destruct c eqn:R; [|discriminate] end.
  intros H. inversion H; subst z; clear H.
  rewrite !andb_true_iff in C. destruct C as [_ Hns]. apply N.ltb_lt in Hns.
  rewrite andb_true_iff in R. unfold ts_in_range.
  match goal with |- context [(?s * ns_per_s + ?n) / ns_per_s] =>
    replace ((s * ns_per_s + n) / ns_per_s) with s; [rewrite andb_true_iff; exact R|] end.
  unfold ns_per_s. lia.
Qed.

Lemma c18_ts_parse_range s z : ts_parse s = Some z -> ts_in_range z = true.
Proof.
  unfold ts_parse. destruct (ts_lex s) as [f|]; [|discriminate]. apply c18_ts_validate_range.
Qed.
