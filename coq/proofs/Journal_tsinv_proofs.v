(* Journal_tsinv_proofs.v — C06 stage 5b: a parsed time stamp satisfies ts_ok. *)
From TkModel Require Import Base Dec Acct Txn Accept Journal.
From TkSpec Require Import Journal_spec.
From TkProofs Require Import Journal_base_proofs Journal_civil_proofs Journal_civil2_proofs Journal_line_proofs Journal_inv_proofs.
Local Open Scope Z_scope.

Lemma cfg_ok_inv cfg : cfg_ok cfg = true ->
  cfg_off cfg mod 60 = 0 /\ Z.abs (cfg_off cfg) <= max_off /\ 0 <= cfg_deftime cfg < DAY_NS.
Proof.
  unfold cfg_ok. intro H. apply andb_true_iff in H as [H H4]. apply andb_true_iff in H as [H H3].
  apply andb_true_iff in H as [H1 H2]. apply Z.eqb_eq in H1. apply Z.leb_le in H2, H3. apply Z.ltb_lt in H4. lia.
Qed.

Lemma parse_frac_spec s ns r : parse_frac s = Some (ns, r) -> 0 <= ns < NS /\ suffix r s.
Proof.
  unfold parse_frac. destruct (take_char 46 s) as [r0|] eqn:E.
  - destruct (span is_digit r0) as [f r'] eqn:Ef.
    destruct (Nat.leb 1 (length f) && Nat.leb (length f) 9) eqn:Eb; [|discriminate].
    intro H. injection H as <- <-. apply andb_true_iff in Eb as [H1 H2]. apply Nat.leb_le in H1, H2.
    destruct (span_spec _ _ _ _ Ef) as (_ & Hd & _).
    split; [|eapply suffix_trans; [exact (span_suffix _ _ _ _ Ef)|exact (take_char_suffix _ _ _ E)]].
    pose proof (digs_val_bound f Hd 0%N) as Hb. rewrite N.add_0_l, N.mul_1_l in Hb.
    apply N2Z.inj_lt in Hb. rewrite N2Z.inj_pow, nat_N_Z in Hb. change (Z.of_N 10) with 10 in Hb.
    pose proof (N2Z.is_nonneg (digs_val 0 f)) as H0.
    set (v := Z.of_N (digs_val 0 f)) in *.
    assert (Hp : 10 ^ Z.of_nat (length f) * 10 ^ Z.of_nat (9 - length f) = NS).
    { rewrite <- Z.pow_add_r by lia. replace (Z.of_nat (length f) + Z.of_nat (9 - length f)) with 9 by lia. reflexivity. }
    assert (Hpos : 0 < 10 ^ Z.of_nat (9 - length f)) by (apply Z.pow_pos_nonneg; lia).
    split; [apply Z.mul_nonneg_nonneg; lia|]. rewrite <- Hp. apply Z.mul_lt_mono_pos_r; assumption.
  - intro H. injection H as <- <-. split; [unfold NS; lia|apply suffix_refl].
Qed.

Lemma parse_zone_spec cfg s off r : cfg_ok cfg = true -> parse_zone cfg s = Some (off, r) ->
  off mod 60 = 0 /\ Z.abs off <= max_off /\ suffix r s.
Proof.
  intros Hcfg. destruct (cfg_ok_inv cfg Hcfg) as (C1 & C2 & _).
  unfold parse_zone. destruct s as [|c s'].
  - intro H. injection H as <- <-. repeat split; [exact C1|exact C2|apply suffix_refl].
  - destruct (c =? 90)%N.
    + intro H. injection H as <- <-. repeat split; [unfold max_off; cbn; lia|apply suffix_cons].
    + destruct ((c =? 43)%N || (c =? 45)%N).
      * destruct (take_digits 2 s') as [[oh r1]|] eqn:E1; [|discriminate].
        destruct (take_char 58 r1) as [r2|] eqn:E2; [|discriminate].
        destruct (take_digits 2 r2) as [[om r3]|] eqn:E3; [|discriminate].
        destruct (Z.abs _ <=? max_off) eqn:Eb; [|discriminate].
        intro H. injection H as <- <-. apply Z.leb_le in Eb.
        destruct (take_digits_spec _ _ _ _ E1) as (S1 & _). destruct (take_digits_spec _ _ _ _ E3) as (S3 & _).
        repeat split; [|exact Eb|].
        -- destruct (c =? 45)%N.
           ++ replace (-1 * (oh * 3600 + om * 60)) with ((- (oh * 60 + om)) * 60) by ring. apply Z_mod_mult.
           ++ replace (1 * (oh * 3600 + om * 60)) with ((oh * 60 + om) * 60) by ring. apply Z_mod_mult.
        -- eapply suffix_trans; [exact S3|]. eapply suffix_trans; [exact (take_char_suffix _ _ _ E2)|].
           eapply suffix_trans; [exact S1|apply suffix_cons].
      * intro H. injection H as <- <-. repeat split; [exact C1|exact C2|apply suffix_refl].
Qed.

Lemma mk_instant_spec y m d sod ns off i :
  md_ok y m d = true -> 0 <= y <= 9999 -> 0 <= sod < 86400 -> 0 <= ns < NS ->
  off mod 60 = 0 -> Z.abs off <= max_off ->
  mk_instant y m d sod ns off = Some i -> ts_ok i off = true.
Proof.
  intros Hmd Hy Hsod Hns Hom Hoa. unfold mk_instant.
  set (secs := days_from_civil y m d * 86400 + sod - off).
  destruct ((min_unix_s <=? secs) && (secs <=? max_unix_s)) eqn:Eb; [|discriminate].
  intro H. injection H as <-. apply andb_true_iff in Eb as [E1 E2]. apply Z.leb_le in E1, E2.
  assert (HNS : NS = 1000000000) by reflexivity.
  unfold ts_ok.
  assert (Hloc : (secs * NS + ns + off * NS) / DAY_NS = days_from_civil y m d).
  { replace (secs * NS + ns + off * NS) with (days_from_civil y m d * DAY_NS + (sod * NS + ns))
      by (unfold secs, DAY_NS; ring).
    rewrite Z.div_add_l by (unfold DAY_NS; lia). rewrite Z.div_small; [ring|]. unfold DAY_NS. nia. }
  rewrite Hloc, (days_of_civil y m d Hmd).
  repeat (apply andb_true_iff; split).
  - apply Z.eqb_eq, Hom.
  - apply Z.leb_le, Hoa.
  - apply Z.leb_le. lia.
  - apply Z.leb_le. lia.
  - apply Z.leb_le. nia.
  - apply Z.ltb_lt. nia.
Qed.

Theorem parse_ts_spec cfg s inst off r : cfg_ok cfg = true -> parse_ts cfg s = Some (inst, off, r) ->
  ts_ok inst off = true /\ suffix r s.
Proof.
  intros Hcfg. destruct (cfg_ok_inv cfg Hcfg) as (C1 & C2 & C3).
  unfold parse_ts.
  destruct (take_digits 4 s) as [[y s1]|] eqn:E1; [|discriminate].
  destruct (take_char 45 s1) as [s2|] eqn:E2; [|discriminate].
  destruct (take_digits 2 s2) as [[mo s3]|] eqn:E3; [|discriminate].
  destruct (take_char 45 s3) as [s4|] eqn:E4; [|discriminate].
  destruct (take_digits 2 s4) as [[d s5]|] eqn:E5; [|discriminate].
  destruct (valid_date y mo d) eqn:Ev; [|discriminate]. cbn [negb].
  assert (S5 : suffix s5 s).
  { destruct (take_digits_spec _ _ _ _ E1) as (A1 & _). destruct (take_digits_spec _ _ _ _ E3) as (A3 & _).
    destruct (take_digits_spec _ _ _ _ E5) as (A5 & _).
    eapply suffix_trans; [exact A5|]. eapply suffix_trans; [exact (take_char_suffix _ _ _ E4)|].
    eapply suffix_trans; [exact A3|]. eapply suffix_trans; [exact (take_char_suffix _ _ _ E2)|exact A1]. }
  assert (Hv : 0 <= y <= 9999 /\ md_ok y mo d = true).
  { unfold valid_date in Ev. unfold md_ok.
    apply andb_true_iff in Ev as [Ev V6]. apply andb_true_iff in Ev as [Ev V5]. apply andb_true_iff in Ev as [Ev V4].
    apply andb_true_iff in Ev as [Ev V3]. apply andb_true_iff in Ev as [V1 V2]. apply Z.leb_le in V1, V2.
    split; [lia|]. rewrite V3, V4, V5, V6. reflexivity. }
  destruct Hv as [Hy Hmd].
  assert (HNS : NS = 1000000000) by reflexivity.
  destruct (take_char 84 s5) as [s6|] eqn:E6.
  - destruct (take_digits 2 s6) as [[h s7]|] eqn:E7; [|discriminate].
    destruct (take_char 58 s7) as [s8|] eqn:E8; [|discriminate].
    destruct (take_digits 2 s8) as [[mi s9]|] eqn:E9; [|discriminate].
    destruct (take_char 58 s9) as [s10|] eqn:E10; [|discriminate].
    destruct (take_digits 2 s10) as [[se s11]|] eqn:E11; [|discriminate].
    destruct ((h <=? 23) && (mi <=? 59) && (se <=? 59)) eqn:Eh; [|discriminate]. cbn [negb].
    destruct (parse_frac s11) as [[ns s12]|] eqn:E12; [|discriminate].
    destruct (parse_zone cfg s12) as [[off0 s13]|] eqn:E13; [|discriminate].
    destruct (mk_instant y mo d (h * 3600 + mi * 60 + se) ns off0) as [i|] eqn:E14; [|discriminate].
    intro H. injection H as <- <- <-.
    destruct (take_digits_spec _ _ _ _ E7) as (A7 & H0 & _). destruct (take_digits_spec _ _ _ _ E9) as (A9 & M0 & _).
    destruct (take_digits_spec _ _ _ _ E11) as (A11 & S0 & _).
    destruct (parse_frac_spec _ _ _ E12) as (Hns & A12). destruct (parse_zone_spec _ _ _ _ Hcfg E13) as (Z1 & Z2 & A13).
    apply andb_true_iff in Eh as [Eh Es]. apply andb_true_iff in Eh as [Eh Em]. apply Z.leb_le in Eh, Em, Es.
    split.
    + apply (mk_instant_spec y mo d (h * 3600 + mi * 60 + se) ns off0 i Hmd Hy ltac:(lia) Hns Z1 Z2 E14).
    + eapply suffix_trans; [exact A13|]. eapply suffix_trans; [exact A12|]. eapply suffix_trans; [exact A11|].
      eapply suffix_trans; [exact (take_char_suffix _ _ _ E10)|]. eapply suffix_trans; [exact A9|].
      eapply suffix_trans; [exact (take_char_suffix _ _ _ E8)|]. eapply suffix_trans; [exact A7|].
      eapply suffix_trans; [exact (take_char_suffix _ _ _ E6)|exact S5].
  - destruct (mk_instant y mo d (cfg_deftime cfg / NS) (cfg_deftime cfg mod NS) (cfg_off cfg)) as [i|] eqn:E14; [|discriminate].
    intro H. injection H as <- <- <-. split; [|exact S5].
    refine (mk_instant_spec y mo d (cfg_deftime cfg / NS) (cfg_deftime cfg mod NS) (cfg_off cfg) i Hmd Hy _ _ C1 C2 E14).
    + split; [apply Z.div_pos; lia|]. apply Z.div_lt_upper_bound; [lia|]. unfold DAY_NS in C3. lia.
    + apply Z.mod_pos_bound. lia.
Qed.
