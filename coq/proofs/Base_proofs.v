(* Base_proofs.v — reusable facts about TkModel.Base: string order, comparison
   functions, stable insertion sort, zsum, dedup_by. *)
From Coq Require Import Permutation Sorted.
From TkModel Require Import Base.
Local Open Scope Z_scope.

(* ------------------------------------------------------------------ *)
(* small list facts *)

Lemma removelast_firstn_len {A} (l : list A) : removelast l = firstn (length l - 1) l.
Proof.
  induction l as [|x l IH]; [reflexivity|].
  destruct l as [|y l]; [reflexivity|].
  cbn [removelast length] in *. rewrite IH. cbn [Nat.sub firstn]. f_equal.
  replace (length l - 0)%nat with (length l) by lia. reflexivity.
Qed.

Lemma firstn_firstn_le {A} (l : list A) n m : (n <= m)%nat -> firstn n (firstn m l) = firstn n l.
Proof. intros H. rewrite firstn_firstn. f_equal. lia. Qed.

Lemma in_firstn {A} (x : A) n l : In x (firstn n l) -> In x l.
Proof.
  revert l; induction n as [|n IH]; intros [|y l] H; cbn [firstn] in H; try contradiction.
  destruct H as [H|H]; [left; exact H|right; apply IH; exact H].
Qed.

Lemma filter_flat_map {A B} (p : B -> bool) (g : A -> list B) l :
  filter p (flat_map g l) = flat_map (fun x => filter p (g x)) l.
Proof.
  induction l as [|x l IH]; [reflexivity|]. cbn [flat_map]. rewrite filter_app, IH. reflexivity.
Qed.

Lemma flat_map_ext_in {A B} (f g : A -> list B) l :
  (forall x, In x l -> f x = g x) -> flat_map f l = flat_map g l.
Proof.
  induction l as [|x l IH]; intros H; [reflexivity|]. cbn [flat_map].
  rewrite (H x (or_introl eq_refl)), IH; [reflexivity|]. intros y Hy. apply H. right. exact Hy.
Qed.

Lemma flat_map_singleton {A B} (f : A -> B) l : flat_map (fun x => [f x]) l = map f l.
Proof. induction l as [|x l IH]; [reflexivity|]. cbn [flat_map map app]. rewrite IH. reflexivity. Qed.

Lemma filter_perm {A} (p : A -> bool) l1 l2 :
  Permutation l1 l2 -> Permutation (filter p l1) (filter p l2).
Proof.
  intros H. induction H as [|x l1 l2 H IH|x y l|l1 l2 l3 H1 IH1 H2 IH2]; cbn [filter].
  - constructor.
  - destruct (p x); [apply perm_skip|]; exact IH.
  - destruct (p x), (p y); try apply perm_swap; reflexivity.
  - transitivity (filter p l2); assumption.
Qed.

Lemma filter_map_comm {A B} (p : B -> bool) (f : A -> B) l :
  filter p (map f l) = map f (filter (fun x => p (f x)) l).
Proof.
  induction l as [|x l IH]; [reflexivity|]. cbn [map filter].
  destruct (p (f x)); cbn [map]; rewrite IH; reflexivity.
Qed.

Lemma filter_true {A} (l : list A) : filter (fun _ => true) l = l.
Proof. induction l as [|x l IH]; [reflexivity|]. cbn [filter]. rewrite IH. reflexivity. Qed.

Lemma NoDup_map_inv' {A B} (f : A -> B) l : NoDup (map f l) -> NoDup l.
Proof.
  induction l as [|x l IH]; intros H; [constructor|]. cbn [map] in H.
  inversion H as [|? ? Hni Hnd]; subst. constructor; [|apply IH; exact Hnd].
  intros Hin. apply Hni. apply in_map. exact Hin.
Qed.

Lemma NoDup_map_key_eq {A B} (f : A -> B) l x y :
  NoDup (map f l) -> In x l -> In y l -> f x = f y -> x = y.
Proof.
  induction l as [|z l IH]; intros Hnd Hx Hy E; [destruct Hx|].
  cbn [map] in Hnd. inversion Hnd as [|? ? Hni Hnd']; subst.
  destruct Hx as [Hx|Hx], Hy as [Hy|Hy].
  - congruence.
  - subst z. exfalso. apply Hni. rewrite E. apply in_map. exact Hy.
  - subst z. exfalso. apply Hni. rewrite <- E. apply in_map. exact Hx.
  - apply IH; assumption.
Qed.

Lemma NoDup_app_intro {A} (l1 l2 : list A) :
  NoDup l1 -> NoDup l2 -> (forall x, In x l1 -> In x l2 -> False) -> NoDup (l1 ++ l2).
Proof.
  induction l1 as [|x l1 IH]; intros H1 H2 Hd; [exact H2|]. cbn [app].
  inversion H1 as [|? ? Hni Hnd]; subst. constructor.
  - intros Hin. apply in_app_or in Hin. destruct Hin as [Hin|Hin]; [contradiction|].
    apply (Hd x); [left; reflexivity|exact Hin].
  - apply IH; [exact Hnd|exact H2|]. intros y Hy. apply Hd. right. exact Hy.
Qed.

(* NoDup of the keys of a flat_map: pieces are NoDup and pairwise key-disjoint *)
Lemma NoDup_map_flat_map {A B K} (key : B -> K) (g : A -> list B) l :
  NoDup l ->
  (forall x, In x l -> NoDup (map key (g x))) ->
  (forall x y b1 b2, In x l -> In y l -> In b1 (g x) -> In b2 (g y) -> key b1 = key b2 -> x = y) ->
  NoDup (map key (flat_map g l)).
Proof.
  induction l as [|x l IH]; intros Hnd Hp Hd; [constructor|].
  inversion Hnd as [|? ? Hni Hnd']; subst.
  cbn [flat_map]. rewrite map_app. apply NoDup_app_intro.
  - apply Hp. left. reflexivity.
  - apply IH; [exact Hnd'| |].
    + intros y Hy. apply Hp. right. exact Hy.
    + intros y z b1 b2 Hy Hz. apply Hd; right; assumption.
  - intros k Hk1 Hk2. apply in_map_iff in Hk1. destruct Hk1 as (b1 & E1 & Hb1).
    apply in_map_iff in Hk2. destruct Hk2 as (b2 & E2 & Hb2).
    apply in_flat_map in Hb2. destruct Hb2 as (y & Hy & Hb2).
    assert (x = y) as E.
    { apply (Hd x y b1 b2); [left; reflexivity|right; exact Hy|exact Hb1|exact Hb2|congruence]. }
    subst y. contradiction.
Qed.

(* ------------------------------------------------------------------ *)
(* strings *)

Lemma str_eqb_eq a b : str_eqb a b = true <-> a = b.
Proof.
  revert b; induction a as [|x a IH]; intros [|y b]; cbn [str_eqb].
  - split; intros _; reflexivity.
  - split; discriminate.
  - split; discriminate.
  - rewrite andb_true_iff, N.eqb_eq, IH. split.
    + intros [H1 H2]. subst. reflexivity.
    + intros H. inversion H. split; reflexivity.
Qed.

Lemma str_eqb_refl a : str_eqb a a = true.
Proof. apply str_eqb_eq. reflexivity. Qed.

Lemma str_eqb_neq a b : str_eqb a b = false <-> a <> b.
Proof.
  split.
  - intros H E. apply str_eqb_eq in E. congruence.
  - intros H. destruct (str_eqb a b) eqn:E; [apply str_eqb_eq in E; contradiction|reflexivity].
Qed.

Lemma str_eqb_sym a b : str_eqb a b = str_eqb b a.
Proof.
  destruct (str_eqb a b) eqn:E1, (str_eqb b a) eqn:E2; try reflexivity.
  - apply str_eqb_eq in E1. subst. rewrite str_eqb_refl in E2. discriminate.
  - apply str_eqb_eq in E2. subst. rewrite str_eqb_refl in E1. discriminate.
Qed.

Lemma list_eqb_eq {A} (eqb : A -> A -> bool) :
  (forall x y, eqb x y = true <-> x = y) ->
  forall a b, list_eqb eqb a b = true <-> a = b.
Proof.
  intros Heq. induction a as [|x a IH]; intros [|y b]; cbn [list_eqb].
  - split; intros _; reflexivity.
  - split; discriminate.
  - split; discriminate.
  - rewrite andb_true_iff, Heq, IH. split.
    + intros [H1 H2]. subst. reflexivity.
    + intros H. inversion H. split; reflexivity.
Qed.

Lemma str_cmp_eq a b : str_cmp a b = Eq <-> a = b.
Proof.
  revert b; induction a as [|x a IH]; intros [|y b]; cbn [str_cmp].
  - split; intros _; reflexivity.
  - split; discriminate.
  - split; discriminate.
  - destruct (N.compare x y) eqn:E.
    + apply N.compare_eq_iff in E. subst y. rewrite IH. split.
      * intros H. subst. reflexivity.
      * intros H. inversion H. reflexivity.
    + split; [discriminate|]. intros H. inversion H. subst. rewrite N.compare_refl in E. discriminate.
    + split; [discriminate|]. intros H. inversion H. subst. rewrite N.compare_refl in E. discriminate.
Qed.

Lemma str_cmp_refl a : str_cmp a a = Eq.
Proof. apply str_cmp_eq. reflexivity. Qed.

Lemma str_cmp_opp a b : str_cmp a b = CompOpp (str_cmp b a).
Proof.
  revert b; induction a as [|x a IH]; intros [|y b]; cbn [str_cmp]; try reflexivity.
  rewrite (N.compare_antisym y x). destruct (N.compare y x); cbn [CompOpp]; [apply IH|reflexivity|reflexivity].
Qed.

Lemma str_cmp_lt_trans a b c : str_cmp a b = Lt -> str_cmp b c = Lt -> str_cmp a c = Lt.
Proof.
  revert b c; induction a as [|x a IH]; intros [|y b] [|z c]; cbn [str_cmp]; try discriminate; try reflexivity.
  destruct (N.compare x y) eqn:E1; try discriminate; destruct (N.compare y z) eqn:E2; try discriminate.
  - apply N.compare_eq_iff in E1. apply N.compare_eq_iff in E2. subst. rewrite N.compare_refl. apply IH.
  - apply N.compare_eq_iff in E1. subst. rewrite E2. reflexivity.
  - apply N.compare_eq_iff in E2. subst. rewrite E1. reflexivity.
  - assert ((x ?= z)%N = Lt) as E3.
    { apply N.compare_lt_iff. apply (N.lt_trans x y z); [exact E1|exact E2]. }
    rewrite E3. reflexivity.
Qed.

(* ------------------------------------------------------------------ *)
(* comparison functions that are total (pre)orders *)

Record cmp_ord {A} (cmp : A -> A -> comparison) : Prop := mkCmpOrd {
  co_opp : forall a b, cmp a b = CompOpp (cmp b a);
  co_lt_trans : forall a b c, cmp a b = Lt -> cmp b c = Lt -> cmp a c = Lt;
  co_eq_l : forall a b c, cmp a b = Eq -> cmp a c = cmp b c
}.

Section CmpOrd.
  Context {A : Type} (cmp : A -> A -> comparison) (CO : cmp_ord cmp).

  Lemma co_refl a : cmp a a = Eq.
  Proof. pose proof (co_opp _ CO a a) as H. destruct (cmp a a); cbn in H; congruence. Qed.

  Lemma co_eq_sym a b : cmp a b = Eq -> cmp b a = Eq.
  Proof. intros H. rewrite (co_opp _ CO), H. reflexivity. Qed.

  Lemma co_eq_r a b c : cmp a b = Eq -> cmp c a = cmp c b.
  Proof.
    intros H. rewrite (co_opp _ CO c a), (co_opp _ CO c b), (co_eq_l _ CO a b c H). reflexivity.
  Qed.

  Lemma co_gt_lt a b : cmp a b = Gt <-> cmp b a = Lt.
  Proof. rewrite (co_opp _ CO a b). destruct (cmp b a); cbn; split; congruence. Qed.

  Lemma co_le_trans a b c : cmp a b <> Gt -> cmp b c <> Gt -> cmp a c <> Gt.
  Proof.
    intros H1 H2. destruct (cmp a b) eqn:E1; [| |congruence].
    - rewrite (co_eq_l _ CO a b c E1). exact H2.
    - destruct (cmp b c) eqn:E2; [| |congruence].
      + rewrite <- (co_eq_r b c a E2). rewrite E1. discriminate.
      + rewrite (co_lt_trans _ CO a b c E1 E2). discriminate.
  Qed.

  Lemma co_lt_le_trans a b c : cmp a b = Lt -> cmp b c <> Gt -> cmp a c = Lt.
  Proof.
    intros H1 H2. destruct (cmp b c) eqn:E2; [| |congruence].
    - rewrite <- (co_eq_r b c a E2). exact H1.
    - apply (co_lt_trans _ CO a b c H1 E2).
  Qed.

  Lemma co_leb_total a b : cmp_leb (cmp a b) = false -> cmp_leb (cmp b a) = true.
  Proof.
    unfold cmp_leb. destruct (cmp a b) eqn:E; try discriminate. intros _.
    apply co_gt_lt in E. rewrite E. reflexivity.
  Qed.

  Lemma co_leb_trans a b c :
    cmp_leb (cmp a b) = true -> cmp_leb (cmp b c) = true -> cmp_leb (cmp a c) = true.
  Proof.
    unfold cmp_leb. intros H1 H2.
    assert (cmp a c <> Gt) as H.
    { apply (co_le_trans a b c); intros E; rewrite E in *; discriminate. }
    destruct (cmp a c); congruence.
  Qed.
End CmpOrd.

Lemma cmp_leb_true c : cmp_leb c = true <-> c <> Gt.
Proof. destruct c; cbn; split; congruence. Qed.

Lemma cmp_ord_preimage {A B} (f : A -> B) (cmp : B -> B -> comparison) :
  cmp_ord cmp -> cmp_ord (fun a b => cmp (f a) (f b)).
Proof.
  intros CO. constructor.
  - intros a b. apply (co_opp _ CO).
  - intros a b c. apply (co_lt_trans _ CO).
  - intros a b c. apply (co_eq_l _ CO).
Qed.

Lemma cmp_ord_lex {A} (c1 c2 : A -> A -> comparison) :
  cmp_ord c1 -> cmp_ord c2 -> cmp_ord (fun a b => cmp_then (c1 a b) (c2 a b)).
Proof.
  intros O1 O2. constructor.
  - intros a b. rewrite (co_opp _ O1 a b), (co_opp _ O2 a b).
    destruct (c1 b a); cbn [cmp_then CompOpp]; reflexivity.
  - intros a b c. unfold cmp_then.
    destruct (c1 a b) eqn:E1; try discriminate; destruct (c1 b c) eqn:E2; try discriminate.
    + rewrite (co_eq_l _ O1 a b c E1), E2. apply (co_lt_trans _ O2).
    + rewrite (co_eq_l _ O1 a b c E1), E2. reflexivity.
    + rewrite <- (co_eq_r _ O1 b c a E2), E1. reflexivity.
    + rewrite (co_lt_trans _ O1 a b c E1 E2). reflexivity.
  - intros a b c. unfold cmp_then. destruct (c1 a b) eqn:E1; try discriminate.
    intros E2. rewrite (co_eq_l _ O1 a b c E1). destruct (c1 b c); [|reflexivity|reflexivity].
    apply (co_eq_l _ O2). exact E2.
Qed.

Lemma str_cmp_ord : cmp_ord str_cmp.
Proof.
  constructor.
  - apply str_cmp_opp.
  - apply str_cmp_lt_trans.
  - intros a b c H. apply str_cmp_eq in H. subst. reflexivity.
Qed.

Lemma str_cmp_antisym a b : str_cmp a b <> Gt -> str_cmp b a <> Gt -> a = b.
Proof.
  intros H1 H2. apply str_cmp_eq. rewrite str_cmp_opp in H2.
  destruct (str_cmp a b); cbn in *; congruence.
Qed.

(* ------------------------------------------------------------------ *)
(* stable insertion sort *)

Section SortFacts.
  Context {A : Type} (leb : A -> A -> bool).

  Lemma insert_by_perm x l : Permutation (insert_by leb x l) (x :: l).
  Proof.
    induction l as [|y l IH]; cbn [insert_by]; [reflexivity|].
    destruct (leb x y); [reflexivity|].
    transitivity (y :: x :: l); [apply perm_skip; exact IH|apply perm_swap].
  Qed.

  Lemma sort_by_perm l : Permutation (sort_by leb l) l.
  Proof.
    induction l as [|x l IH]; cbn [sort_by]; [reflexivity|].
    transitivity (x :: sort_by leb l); [apply insert_by_perm|apply perm_skip; exact IH].
  Qed.

  Lemma sort_by_in x l : In x (sort_by leb l) <-> In x l.
  Proof.
    split; apply Permutation_in; [apply sort_by_perm|apply Permutation_sym, sort_by_perm].
  Qed.

  Lemma sort_by_length l : length (sort_by leb l) = length l.
  Proof. apply Permutation_length, sort_by_perm. Qed.

  Hypothesis leb_total : forall a b, leb a b = false -> leb b a = true.
  Hypothesis leb_trans : forall a b c, leb a b = true -> leb b c = true -> leb a c = true.

  Let le a b := leb a b = true.

  Lemma insert_by_sorted x l : StronglySorted le l -> StronglySorted le (insert_by leb x l).
  Proof.
    induction 1 as [|y l Hs IH Hf]; cbn [insert_by].
    - constructor; constructor.
    - destruct (leb x y) eqn:E.
      + constructor; [constructor; assumption|]. constructor; [exact E|].
        eapply Forall_impl; [|exact Hf]. intros z Hz. apply (leb_trans x y z E Hz).
      + constructor; [exact IH|].
        apply (Permutation_Forall (Permutation_sym (insert_by_perm x l))).
        constructor; [apply leb_total; exact E|exact Hf].
  Qed.

  Lemma sort_by_sorted l : StronglySorted le (sort_by leb l).
  Proof.
    induction l as [|x l IH]; cbn [sort_by]; [constructor|]. apply insert_by_sorted. exact IH.
  Qed.

  Lemma insert_by_head x l : Forall (le x) l -> insert_by leb x l = x :: l.
  Proof.
    intros H. destruct l as [|y l]; [reflexivity|]. cbn [insert_by].
    inversion H as [|? ? Hy _]; subst. unfold le in Hy. rewrite Hy. reflexivity.
  Qed.

  (* stability: sorting commutes with taking a sub-sequence by a predicate *)
  Lemma filter_insert_by p x l : StronglySorted le l ->
    filter p (insert_by leb x l) = if p x then insert_by leb x (filter p l) else filter p l.
  Proof.
    induction 1 as [|y l Hs IH Hf]; cbn [insert_by filter].
    - destruct (p x); reflexivity.
    - destruct (leb x y) eqn:E; cbn [filter].
      + destruct (p x) eqn:Px; [|reflexivity].
        destruct (p y) eqn:Py.
        * cbn [insert_by]. rewrite E. reflexivity.
        * symmetry. apply insert_by_head. apply incl_Forall with (l1 := l).
          -- intros z Hz. apply filter_In in Hz. tauto.
          -- eapply Forall_impl; [|exact Hf]. intros z Hz. apply (leb_trans x y z E Hz).
      + rewrite IH. destruct (p y) eqn:Py; destruct (p x) eqn:Px; try reflexivity.
        cbn [insert_by]. rewrite E. reflexivity.
  Qed.

  Lemma filter_sort_by p l : filter p (sort_by leb l) = sort_by leb (filter p l).
  Proof.
    induction l as [|x l IH]; cbn [sort_by filter]; [reflexivity|].
    rewrite filter_insert_by by apply sort_by_sorted.
    destruct (p x); cbn [sort_by]; rewrite IH; reflexivity.
  Qed.

  (* sorting an already sorted list is the identity *)
  Lemma sort_by_id l : StronglySorted le l -> sort_by leb l = l.
  Proof.
    induction 1 as [|y l Hs IH Hf]; cbn [sort_by]; [reflexivity|].
    rewrite IH. apply insert_by_head. exact Hf.
  Qed.
End SortFacts.

Lemma StronglySorted_filter {A} (R : A -> A -> Prop) p l :
  StronglySorted R l -> StronglySorted R (filter p l).
Proof.
  induction 1 as [|x l Hs IH Hf]; cbn [filter]; [constructor|].
  destruct (p x); [|exact IH]. constructor; [exact IH|].
  apply incl_Forall with (l1 := l); [|exact Hf]. intros z Hz. apply filter_In in Hz. tauto.
Qed.

Lemma StronglySorted_map {A B} (R : B -> B -> Prop) (f : A -> B) l :
  StronglySorted (fun a b => R (f a) (f b)) l <-> StronglySorted R (map f l).
Proof.
  induction l as [|x l IH]; cbn [map]; split; intros H; try constructor;
    inversion H as [|? ? Hs Hf]; subst.
  - apply IH. exact Hs.
  - rewrite Forall_map. exact Hf.
  - apply IH. exact Hs.
  - rewrite Forall_map in Hf. exact Hf.
Qed.

Lemma StronglySorted_impl {A} (R S : A -> A -> Prop) l :
  (forall a b, In a l -> In b l -> R a b -> S a b) -> StronglySorted R l -> StronglySorted S l.
Proof.
  intros H Hs. induction Hs as [|x l Hs IH Hf]; constructor.
  - apply IH. intros a b Ha Hb. apply H; right; assumption.
  - rewrite Forall_forall in *. intros z Hz. apply H; [left; reflexivity|right; exact Hz|apply Hf; exact Hz].
Qed.

Lemma StronglySorted_NoDup {A} (R : A -> A -> Prop) l :
  (forall a, ~ R a a) -> StronglySorted R l -> NoDup l.
Proof.
  intros Hirr. induction 1 as [|x l Hs IH Hf]; constructor; [|exact IH].
  intros Hin. rewrite Forall_forall in Hf. apply (Hirr x). apply Hf. exact Hin.
Qed.

(* two strictly sorted lists with the same members are equal *)
Lemma sorted_unique {A} (R : A -> A -> Prop) :
  (forall a b, R a b -> R b a -> False) ->
  forall l1 l2, StronglySorted R l1 -> StronglySorted R l2 ->
  (forall x, In x l1 <-> In x l2) -> l1 = l2.
Proof.
  intros Hasym. induction l1 as [|x l1 IH]; intros l2 H1 H2 Hm.
  - destruct l2 as [|y l2]; [reflexivity|]. exfalso. apply (Hm y). left. reflexivity.
  - destruct l2 as [|y l2]; [exfalso; apply (Hm x); left; reflexivity|].
    inversion H1 as [|? ? Hs1 Hf1]; subst. inversion H2 as [|? ? Hs2 Hf2]; subst.
    rewrite Forall_forall in Hf1, Hf2.
    assert (x = y) as E.
    { destruct (proj1 (Hm x) (or_introl eq_refl)) as [E|Hx]; [congruence|].
      destruct (proj2 (Hm y) (or_introl eq_refl)) as [E|Hy]; [congruence|].
      exfalso. apply (Hasym x y); [apply Hf1; exact Hy|apply Hf2; exact Hx]. }
    subst y. f_equal. apply IH; [exact Hs1|exact Hs2|].
    intros z. split; intros Hz.
    + destruct (proj1 (Hm z) (or_intror Hz)) as [E|Hz']; [|exact Hz'].
      subst z. exfalso. apply (Hasym x x); apply Hf1; exact Hz.
    + destruct (proj2 (Hm z) (or_intror Hz)) as [E|Hz']; [|exact Hz'].
      subst z. exfalso. apply (Hasym x x); apply Hf2; exact Hz.
Qed.

Lemma sorted_perm_unique {A} (R : A -> A -> Prop) :
  (forall a b, R a b -> R b a -> False) ->
  forall l1 l2, StronglySorted R l1 -> StronglySorted R l2 -> Permutation l1 l2 -> l1 = l2.
Proof.
  intros Hasym l1 l2 H1 H2 Hp. apply (sorted_unique R Hasym); try assumption.
  intros x. split; apply Permutation_in; [exact Hp|apply Permutation_sym; exact Hp].
Qed.

(* ------------------------------------------------------------------ *)
(* zsum *)

Definition ind (b : bool) : Z := if b then 1 else 0.

Lemma zsum_nil : zsum [] = 0.
Proof. reflexivity. Qed.

Lemma zsum_cons x l : zsum (x :: l) = x + zsum l.
Proof. reflexivity. Qed.

Lemma zsum_app a b : zsum (a ++ b) = zsum a + zsum b.
Proof. induction a as [|x a IH]; cbn [app]; rewrite ?zsum_cons, ?zsum_nil; lia. Qed.

Lemma zsum_perm a b : Permutation a b -> zsum a = zsum b.
Proof. induction 1; rewrite ?zsum_cons; lia. Qed.

Lemma zsum_map_ext {A} (f g : A -> Z) l :
  (forall x, In x l -> f x = g x) -> zsum (map f l) = zsum (map g l).
Proof.
  induction l as [|x l IH]; intros H; cbn [map]; [reflexivity|]. rewrite !zsum_cons.
  rewrite (H x (or_introl eq_refl)), IH; [reflexivity|]. intros y Hy. apply H. right. exact Hy.
Qed.

Lemma zsum_map_add {A} (f g : A -> Z) l :
  zsum (map (fun x => f x + g x) l) = zsum (map f l) + zsum (map g l).
Proof. induction l as [|x l IH]; cbn [map]; rewrite ?zsum_cons, ?zsum_nil; lia. Qed.

Lemma zsum_map_mul_r {A} (f : A -> Z) k l : zsum (map (fun x => f x * k) l) = zsum (map f l) * k.
Proof. induction l as [|x l IH]; cbn [map]; rewrite ?zsum_cons, ?zsum_nil; lia. Qed.

Lemma zsum_map_mul_l {A} (f : A -> Z) k l : zsum (map (fun x => k * f x) l) = k * zsum (map f l).
Proof. induction l as [|x l IH]; cbn [map]; rewrite ?zsum_cons, ?zsum_nil; lia. Qed.

Lemma zsum_map_zero {A} (l : list A) : zsum (map (fun _ => 0) l) = 0.
Proof. induction l as [|x l IH]; cbn [map]; rewrite ?zsum_cons, ?zsum_nil; lia. Qed.

Lemma zsum_map_zero_ext {A} (f : A -> Z) l : (forall x, In x l -> f x = 0) -> zsum (map f l) = 0.
Proof. intros H. rewrite (zsum_map_ext f (fun _ => 0) l H). apply zsum_map_zero. Qed.

Lemma zsum_map_filter {A} (p : A -> bool) (g : A -> Z) l :
  zsum (map g (filter p l)) = zsum (map (fun x => ind (p x) * g x) l).
Proof.
  unfold ind. induction l as [|x l IH]; cbn [filter map]; [reflexivity|].
  destruct (p x); cbn [map]; rewrite ?zsum_cons; lia.
Qed.

Lemma zsum_map_perm {A} (f : A -> Z) a b : Permutation a b -> zsum (map f a) = zsum (map f b).
Proof. intros H. apply zsum_perm. apply Permutation_map. exact H. Qed.

Lemma zsum_exchange {A B} (f : A -> B -> Z) (cs : list A) (rs : list B) :
  zsum (map (fun r => zsum (map (fun c => f c r) cs)) rs) =
  zsum (map (fun c => zsum (map (fun r => f c r) rs)) cs).
Proof.
  induction rs as [|r rs IH].
  - cbn [map]. rewrite zsum_nil. symmetry. apply zsum_map_zero.
  - cbn [map]. rewrite zsum_cons, IH.
    rewrite <- zsum_map_add. apply zsum_map_ext. intros c _. rewrite zsum_cons. reflexivity.
Qed.

Lemma zsum_flat_map {A B} (g : B -> Z) (f : A -> list B) l :
  zsum (map g (flat_map f l)) = zsum (map (fun x => zsum (map g (f x))) l).
Proof.
  induction l as [|x l IH]; [reflexivity|]. cbn [flat_map map].
  rewrite map_app, zsum_app, zsum_cons, IH. reflexivity.
Qed.

(* counting the occurrences of a key in a list with unique keys *)
Lemma count_notin {A K} (key : A -> K) (eqb : K -> K -> bool) :
  (forall x y, eqb x y = true <-> x = y) ->
  forall l k, ~ In k (map key l) -> zsum (map (fun c => ind (eqb (key c) k)) l) = 0.
Proof.
  intros Heq l k H. apply zsum_map_zero_ext. intros c Hc.
  destruct (eqb (key c) k) eqn:E; [|reflexivity].
  apply Heq in E. exfalso. apply H. rewrite <- E. apply in_map. exact Hc.
Qed.

Lemma count_in {A K} (key : A -> K) (eqb : K -> K -> bool) :
  (forall x y, eqb x y = true <-> x = y) ->
  forall l k, NoDup (map key l) -> In k (map key l) ->
  zsum (map (fun c => ind (eqb (key c) k)) l) = 1.
Proof.
  intros Heq. induction l as [|c l IH]; intros k Hnd Hin; [destruct Hin|].
  cbn [map] in *. inversion Hnd as [|? ? Hni Hnd']; subst. rewrite zsum_cons.
  destruct (eqb (key c) k) eqn:E.
  - apply Heq in E. subst k. rewrite (count_notin key eqb Heq l _ Hni). reflexivity.
  - destruct Hin as [Hin|Hin]; [apply Heq in Hin; congruence|].
    rewrite IH by assumption. reflexivity.
Qed.

Lemma lookup_sum {A K} (key : A -> K) (eqb : K -> K -> bool) (val : A -> Z) :
  (forall x y, eqb x y = true <-> x = y) ->
  forall l me, NoDup (map key l) -> In me l ->
  zsum (map (fun r => ind (eqb (key r) (key me)) * val r) l) = val me.
Proof.
  intros Heq. induction l as [|c l IH]; intros me Hnd Hin; [destruct Hin|].
  cbn [map] in *. inversion Hnd as [|? ? Hni Hnd']; subst. rewrite zsum_cons.
  destruct Hin as [Hin|Hin].
  - subst c. replace (eqb (key me) (key me)) with true by (symmetry; apply Heq; reflexivity).
    rewrite zsum_map_zero_ext; [cbn [ind]; lia|].
    intros r Hr. destruct (eqb (key r) (key me)) eqn:E; [|reflexivity].
    apply Heq in E. exfalso. apply Hni. rewrite <- E. apply in_map. exact Hr.
  - destruct (eqb (key c) (key me)) eqn:E.
    + apply Heq in E. exfalso. apply Hni. rewrite E. apply in_map. exact Hin.
    + rewrite IH by assumption. cbn [ind]. lia.
Qed.

(* ------------------------------------------------------------------ *)
(* dedup_by *)

Section Dedup.
  Context {A : Type} (eqb : A -> A -> bool).

  Lemma dedup_by_incl x l : In x (dedup_by eqb l) -> In x l.
  Proof.
    revert x; induction l as [|y l IH]; intros x H; [exact H|]. cbn [dedup_by] in H.
    destruct H as [H|H]; [left; exact H|]. apply filter_In in H. right. apply IH. tauto.
  Qed.

  Lemma ForallOrdPairs_filter (R : A -> A -> Prop) p l :
    ForallOrdPairs R l -> ForallOrdPairs R (filter p l).
  Proof.
    induction 1 as [|x l Hf Hp IH]; cbn [filter]; [constructor|].
    destruct (p x); [|exact IH]. constructor; [|exact IH].
    apply incl_Forall with (l1 := l); [|exact Hf]. intros z Hz. apply filter_In in Hz. tauto.
  Qed.

  Lemma dedup_by_pairs l : ForallOrdPairs (fun x y => eqb x y = false) (dedup_by eqb l).
  Proof.
    induction l as [|x l IH]; cbn [dedup_by]; constructor.
    - apply Forall_forall. intros y Hy. apply filter_In in Hy. destruct Hy as [_ Hy].
      destruct (eqb x y); [discriminate|reflexivity].
    - apply ForallOrdPairs_filter. exact IH.
  Qed.

  (* when eqb only identifies equal members, nothing is lost *)
  Lemma dedup_by_complete l :
    (forall x y, In x l -> In y l -> eqb x y = true -> x = y) ->
    forall x, In x l -> In x (dedup_by eqb l).
  Proof.
    induction l as [|z l IH]; intros Hs x Hx; [destruct Hx|]. cbn [dedup_by].
    destruct Hx as [Hx|Hx]; [left; exact Hx|].
    destruct (eqb z x) eqn:E.
    - left. apply Hs; [left; reflexivity|right; exact Hx|exact E].
    - right. apply filter_In. split; [|rewrite E; reflexivity].
      apply IH; [|exact Hx]. intros a b Ha Hb. apply Hs; right; assumption.
  Qed.

  Lemma dedup_by_NoDup l : (forall x, In x l -> eqb x x = true) -> NoDup (dedup_by eqb l).
  Proof.
    intros Hr. pose proof (dedup_by_pairs l) as Hp.
    assert (forall x, In x (dedup_by eqb l) -> eqb x x = true) as Hr'.
    { intros x Hx. apply Hr. apply dedup_by_incl. exact Hx. }
    induction Hp as [|x m Hf Hp IH]; constructor.
    - intros Hin. rewrite Forall_forall in Hf. specialize (Hf x Hin).
      rewrite Hr' in Hf by (left; reflexivity). discriminate.
    - apply IH. intros y Hy. apply Hr'. right. exact Hy.
  Qed.

  (* keys are unique after dedup when equal keys imply eqb *)
  Lemma dedup_by_NoDup_key {K} (key : A -> K) l :
    (forall x y, In x l -> In y l -> key x = key y -> eqb x y = true) ->
    NoDup (map key (dedup_by eqb l)).
  Proof.
    intros Hk. pose proof (dedup_by_pairs l) as Hp.
    assert (forall x, In x (dedup_by eqb l) -> In x l) as Hi by (intros x; apply dedup_by_incl).
    induction Hp as [|x m Hf Hp IH]; cbn [map]; constructor.
    - intros Hin. apply in_map_iff in Hin. destruct Hin as (y & E & Hy).
      rewrite Forall_forall in Hf. specialize (Hf y Hy).
      rewrite Hk in Hf; [discriminate|apply Hi; left; reflexivity|apply Hi; right; exact Hy|congruence].
    - apply IH. intros y Hy. apply Hi. right. exact Hy.
  Qed.
End Dedup.
