(* Journal_image_proofs.v — C06 stage 5d: every journal the loader accepts yields well-formed
   transactions (journal_wf), hence the round trip and the fixed point hold for every accepted journal. *)
From Coq Require Import Permutation Sorted.
From TkModel Require Import Base Dec Acct Txn Accept Journal.
From TkSpec Require Import Journal_spec.
From TkProofs Require Import Base_proofs Order_proofs.
From TkProofs Require Import Journal_base_proofs Journal_line_proofs Journal_header_proofs Journal_proofs
                             Journal_inv_proofs Journal_tsinv_proofs Journal_hdrinv_proofs.
Local Open Scope Z_scope.

(* ------------------------------------------------------------------ one posting through the semantic layer *)
Lemma posting_wf_plain acc c amt : name_ok acc = true -> acct_sem_ok acc = true -> fits amt = true ->
  is_zero amt = false -> (is_nil c || comm_ok c = true) ->
  posting_shape_b (mkPosting acc c amt amt false c) = true /\ posting_price_b (mkPosting acc c amt amt false c) = true.
Proof.
  intros Hn Hs Hf Hz Hc. unfold posting_shape_b, posting_price_b. cbn [p_acc p_comm p_amount p_txn_amount p_total p_txn_comm].
  rewrite Hn, Hs, Hf, Hz, Hc, str_eqb_same. unfold drepr_eqb. rewrite Z.eqb_refl, N.eqb_refl. split; reflexivity.
Qed.

Lemma accept_posting_wf rp p : rawpost_wf rp = true -> accept_posting rp = Ok p ->
  fits (p_txn_amount p) = true ->
  posting_shape_b p = true /\ posting_price_b p = true.
Proof.
  unfold rawpost_wf. intro Hw. apply andb_true_iff in Hw as [Hw Hsem]. apply andb_true_iff in Hw as [Hw Hu].
  apply andb_true_iff in Hw as [Hw Hf]. apply andb_true_iff in Hw as [Hn Hs].
  unfold accept_posting. destruct rp as [acc amt ou]. cbn [rp_acc rp_amount rp_unit] in *.
  destruct ou as [u|]; cbn [value_position].
  - cbn [unit_wf] in Hu. apply andb_true_iff in Hu as [Hpc Hcl].
    cbn [unit_sem_ok] in Hsem. apply andb_true_iff in Hsem as [Hspc Hscl].
    destruct u as [pc op cl]. cbn [u_comm u_opening u_closing] in *.
    assert (Hpc' : comm_ok pc = true) by (unfold comm_ok; rewrite Hpc, Hspc; reflexivity).
    set (has_pos := match op, cl with None, None => false | _, _ => true end).
    destruct cl as [[[ty v] c]|].
    + cbn [closing_wf] in Hcl. apply andb_true_iff in Hcl as [Hfv Hic].
      assert (Hic' : comm_ok c = true) by (unfold comm_ok; rewrite Hic, Hscl; reflexivity).
      assert (Hhp : has_pos = true) by (subst has_pos; destruct op; reflexivity). rewrite Hhp.
      destruct (str_eqb pc c) eqn:Eeq; [discriminate|]. cbn [res_bind].
      destruct (match op with Some (v0, _) => is_neg v0 | None => false end); [discriminate|].
      destruct ty.
      * (* unit price *)
        destruct (is_neg v) eqn:Ev; [discriminate|]. cbn [res_bind]. unfold mk_posting.
        destruct (is_zero amt) eqn:Ez; [discriminate|]. intro H. injection H as <-. intro Hft.
        cbn [p_txn_amount] in Hft.
        unfold posting_shape_b, posting_price_b. cbn [p_acc p_comm p_amount p_txn_amount p_total p_txn_comm].
        rewrite Hn, Hs, Hf, Ez, Hpc', Hic', Hft, (str_eqb_false_sym _ _ Eeq), orb_true_r. cbn [negb andb].
        split; [reflexivity|].
        apply (unit_priced_b_of (mkPosting acc pc amt (dmul amt v) false c)).
        -- cbn [p_amount]. unfold is_zero in Ez. apply Z.eqb_neq in Ez. exact Ez.
        -- exists v. cbn [p_amount p_txn_amount]. unfold is_neg in Ev. apply Z.ltb_ge in Ev. repeat split; assumption.
      * (* total price *)
        destruct ((is_neg v && negb (is_neg amt)) || (is_neg amt && negb (is_neg v))) eqn:Esg; [discriminate|].
        cbn [res_bind]. unfold mk_posting. destruct (is_zero amt) eqn:Ez; [discriminate|].
        intro H. injection H as <-. intros _.
        unfold posting_shape_b, posting_price_b. cbn [p_acc p_comm p_amount p_txn_amount p_total p_txn_comm].
        rewrite Hn, Hs, Hf, Ez, Hpc', Hic', Hfv, (str_eqb_false_sym _ _ Eeq), orb_true_r, Esg. split; reflexivity.
    + (* no closing price: valued in its own commodity *)
      assert (Htc : (if has_pos then Ok pc else Ok pc) = @Ok (list N) pc) by (destruct has_pos; reflexivity).
      rewrite Htc. cbn [res_bind].
      destruct (match op with Some (v0, _) => is_neg v0 | None => false end); [discriminate|].
      cbn [res_bind]. unfold mk_posting. destruct (is_zero amt) eqn:Ez; [discriminate|].
      intro H. injection H as <-. intros _.
      apply posting_wf_plain; try assumption. rewrite Hpc'. apply orb_true_r.
  - cbn [res_bind]. unfold mk_posting. destruct (is_zero amt) eqn:Ez; [discriminate|].
    intro H. injection H as <-. intros _. apply posting_wf_plain; try assumption; reflexivity.
Qed.

Lemma posting_txn_comm_ok p : posting_shape_b p = true -> posting_price_b p = true ->
  is_nil (p_txn_comm p) || comm_ok (p_txn_comm p) = true.
Proof.
  unfold posting_shape_b, posting_price_b. intros Hs Hp. apply andb_true_iff in Hs as [_ Hc].
  destruct (str_eqb (p_txn_comm p) (p_comm p)) eqn:E.
  - apply str_eqb_true in E. rewrite E. exact Hc.
  - apply andb_true_iff in Hp as [Hp _]. apply andb_true_iff in Hp as [Hp _]. apply andb_true_iff in Hp as [_ Hp].
    rewrite Hp. apply orb_true_r.
Qed.

(* ------------------------------------------------------------------ mapM / mapO inversions *)
Lemma mapM_Forall2 {A B} (f : A -> res B) l : forall l', mapM f l = Ok l' -> Forall2 (fun x y => f x = Ok y) l l'.
Proof.
  induction l as [|x l IH]; intros l' H; cbn [mapM] in H.
  - injection H as <-. constructor.
  - destruct (f x) as [y|] eqn:E; [|discriminate]. destruct (mapM f l) as [ys|]; [|discriminate].
    injection H as <-. constructor; [exact E|apply IH; reflexivity].
Qed.
Lemma mapO_Forall2 {A B} (f : A -> option B) l : forall l', mapO f l = Some l' -> Forall2 (fun x y => f x = Some y) l l'.
Proof.
  induction l as [|x l IH]; intros l' H; cbn [mapO] in H.
  - injection H as <-. constructor.
  - destruct (f x) as [y|] eqn:E; [|discriminate]. destruct (mapO f l) as [ys|]; [|discriminate].
    injection H as <-. constructor; [exact E|apply IH; reflexivity].
Qed.
Lemma Forall2_length {A B} (R : A -> B -> Prop) l l' : Forall2 R l l' -> length l = length l'.
Proof. induction 1; cbn [length]; congruence. Qed.

(* ------------------------------------------------------------------ one transaction *)
Definition dom_post (p : posting) : bool := fits (p_amount p) && fits (p_txn_amount p).

Lemma accept_postings_wf rps : forall ps, forallb rawpost_wf rps = true ->
  mapM accept_posting rps = Ok ps -> forallb dom_post ps = true ->
  forallb (fun p => posting_shape_b p && posting_price_b p) ps = true.
Proof.
  induction rps as [|rp rps IH]; intros ps Hw H Hd; cbn [mapM] in H.
  - injection H as <-. reflexivity.
  - cbn [forallb] in Hw. apply andb_true_iff in Hw as [Hw1 Hw2].
    destruct (accept_posting rp) as [p|] eqn:E; [|discriminate]. destruct (mapM accept_posting rps) as [ps0|] eqn:E2; [|discriminate].
    injection H as <-. cbn [forallb] in Hd. apply andb_true_iff in Hd as [Hd1 Hd2].
    unfold dom_post in Hd1. apply andb_true_iff in Hd1 as [_ Hft].
    destruct (accept_posting_wf rp p Hw1 E Hft) as [A B]. cbn [forallb]. rewrite A, B, (IH _ Hw2 eq_refl Hd2). reflexivity.
Qed.

Lemma accept_txn_wf rt ps :
  forallb rawpost_wf (rt_posts rt) = true ->
  match rt_last rt with Some a => name_ok a && acct_sem_ok a | None => true end = true ->
  accept_txn rt = Ok ps -> forallb dom_post ps = true ->
  ps <> [] /\ forallb (fun p => posting_shape_b p && posting_price_b p) ps = true
  /\ Nat.leb (length (distinct_strs (map p_txn_comm ps))) 1 = true /\ is_zero (txn_sum ps) = true
  /\ length ps = (length (rt_posts rt) + match rt_last rt with Some _ => 1 | None => 0 end)%nat.
Proof.
  intros Hw Hla. unfold accept_txn. destruct (rt_posts rt) as [|rp rps] eqn:Erp; [discriminate|].
  destruct (mapM accept_posting (rp :: rps)) as [ps0|] eqn:Em; [|discriminate]. cbn [res_bind].
  pose proof (Forall2_length _ _ _ (mapM_Forall2 _ _ _ Em)) as Hlen.
  set (WL := match rt_last rt with
             | None => Ok ps0
             | Some a => res_bind (mk_posting a (match ps0 with p :: _ => p_txn_comm p | [] => [] end)
                                              (dneg (txn_sum ps0)) (dneg (txn_sum ps0)) false
                                              (match ps0 with p :: _ => p_txn_comm p | [] => [] end))
                                  (fun lp => Ok (ps0 ++ [lp]))
             end).
  destruct WL as [ps1|] eqn:Ewl; [|discriminate]. cbn [res_bind].
  destruct (Nat.ltb 1 (length (distinct_strs (map p_txn_comm ps1)))) eqn:Ed; [discriminate|].
  destruct (is_zero (txn_sum ps1)) eqn:Ez; [|discriminate]. intro H. injection H as <-. intro Hdom.
  assert (Hd' : Nat.leb (length (distinct_strs (map p_txn_comm ps1))) 1 = true).
  { apply Nat.leb_le. apply Nat.ltb_ge in Ed. exact Ed. }
  subst WL. destruct (rt_last rt) as [a|].
  - unfold mk_posting in Ewl. destruct (is_zero (dneg (txn_sum ps0))) eqn:Ezl; [discriminate|]. cbn [res_bind] in Ewl.
    injection Ewl as <-. rewrite forallb_app in Hdom. apply andb_true_iff in Hdom as [Hdom0 Hdoml].
    pose proof (accept_postings_wf _ _ Hw Em Hdom0) as Hps0.
    apply andb_true_iff in Hla as [Hna Hsa].
    cbn [forallb] in Hdoml. rewrite andb_true_r in Hdoml. unfold dom_post in Hdoml. cbn [p_amount p_txn_amount] in Hdoml.
    apply andb_true_iff in Hdoml as [Hfl _].
    assert (Hcomm : is_nil (match ps0 with p :: _ => p_txn_comm p | [] => [] end)
                    || comm_ok (match ps0 with p :: _ => p_txn_comm p | [] => [] end) = true).
    { destruct ps0 as [|p0 ps0']; [reflexivity|]. cbn [forallb] in Hps0. apply andb_true_iff in Hps0 as [Hp0 _].
      apply andb_true_iff in Hp0 as [A B]. exact (posting_txn_comm_ok p0 A B). }
    destruct (posting_wf_plain a _ _ Hna Hsa Hfl Ezl Hcomm) as [A B].
    split; [|split; [|split; [|split]]].
    + destruct ps0; discriminate.
    + rewrite forallb_app, Hps0. cbn [forallb]. rewrite A, B. reflexivity.
    + exact Hd'.
    + exact Ez.
    + rewrite app_length. cbn [length]. rewrite <- Hlen. cbn [length]. lia.
  - injection Ewl as <-. split; [|split; [|split; [|split]]].
    + intro E. subst. cbn [length] in Hlen. discriminate.
    + exact (accept_postings_wf _ _ Hw Em Hdom).
    + exact Hd'.
    + exact Ez.
    + rewrite <- Hlen. cbn [length]. lia.
Qed.

Lemma map_fst_combine {A B} (l : list A) (l' : list B) : length l = length l' -> map fst (combine l l') = l.
Proof. revert l'. induction l as [|x l IH]; intros [|y l'] H; cbn in *; try discriminate; [reflexivity|]. f_equal. apply IH. lia. Qed.
Lemma map_snd_combine {A B} (l : list A) (l' : list B) : length l = length l' -> map snd (combine l l') = l'.
Proof. revert l'. induction l as [|x l IH]; intros [|y l'] H; cbn in *; try discriminate; [reflexivity|]. f_equal. apply IH. lia. Qed.

Theorem accept_ptxn_wf pt t : ptxn_wf pt = true -> accept_ptxn pt = Ok t ->
  forallb (fun jp => dom_post (jp_p jp)) (jt_posts t) = true -> jtxn_wf t = true.
Proof.
  unfold ptxn_wf. intro Hw. apply andb_true_iff in Hw as [Hw Hla]. apply andb_true_iff in Hw as [Hw Hne].
  apply andb_true_iff in Hw as [Hh Hps].
  unfold accept_ptxn. destruct (accept_txn (ptxn_raw pt)) as [ps|] eqn:E; [|discriminate]. cbn [res_bind].
  intro H. injection H as <-. cbn [jt_hdr jt_posts]. intro Hdom.
  assert (Hraw : forallb rawpost_wf (rt_posts (ptxn_raw pt)) = true).
  { unfold ptxn_raw. cbn [rt_posts]. rewrite forallb_forall in *. intros x Hx. apply in_map_iff in Hx as (y & <- & Hy).
    specialize (Hps y Hy). unfold rawpc_wf in Hps. apply andb_true_iff in Hps as [A _]. exact A. }
  assert (Hlast : match rt_last (ptxn_raw pt) with Some a => name_ok a && acct_sem_ok a | None => true end = true).
  { unfold ptxn_raw. cbn [rt_last]. destruct (pt_last pt) as [[a c]|]; [|reflexivity]. cbn [option_map fst last_wf] in *.
    apply andb_true_iff in Hla as [A _]. exact A. }
  set (cs := ptxn_comments pt) in *.
  assert (Hcs : forallb ocomment_ok cs = true).
  { subst cs. unfold ptxn_comments. rewrite forallb_app. apply andb_true_iff. split.
    - rewrite forallb_forall in *. intros x Hx. apply in_map_iff in Hx as (y & <- & Hy).
      specialize (Hps y Hy). unfold rawpc_wf in Hps. apply andb_true_iff in Hps as [_ B]. exact B.
    - destruct (pt_last pt) as [[a c]|]; [|reflexivity]. cbn [last_wf] in Hla. apply andb_true_iff in Hla as [_ B].
      cbn [forallb]. rewrite B. reflexivity. }
  assert (Hlen0 : length cs = (length (rt_posts (ptxn_raw pt)) + match rt_last (ptxn_raw pt) with Some _ => 1 | None => 0 end)%nat).
  { subst cs. unfold ptxn_comments, ptxn_raw. cbn [rt_posts rt_last]. rewrite app_length, !map_length.
    destruct (pt_last pt) as [[a c]|]; reflexivity. }
  (* the domain hypothesis talks about the zipped list; first relate it to ps *)
  assert (Hzip : forall (l : list posting) (l' : list (option (list N))), length l = length l' ->
            map jp_p (map (fun pc => mkJPost (fst pc) (snd pc)) (combine l l')) = l
            /\ map jp_comment (map (fun pc => mkJPost (fst pc) (snd pc)) (combine l l')) = l').
  { intros l l' Hl. rewrite !map_map. cbn [jp_p jp_comment]. split; [apply map_fst_combine, Hl|apply map_snd_combine, Hl]. }
  (* accept_txn gives the length of ps; but its other facts need the domain of ps, which we only have
     for the zipped list: lengths first (they do not depend on the domain) *)
  assert (Hlenps : length ps = length cs).
  { rewrite Hlen0. clear - E. unfold accept_txn in E. destruct (rt_posts (ptxn_raw pt)) as [|rp rps]; [discriminate|].
    destruct (mapM accept_posting (rp :: rps)) as [ps0|] eqn:Em; [|discriminate]. cbn [res_bind] in E.
    pose proof (Forall2_length _ _ _ (mapM_Forall2 _ _ _ Em)) as Hlen.
    destruct (rt_last (ptxn_raw pt)) as [a|].
    - unfold mk_posting in E. destruct (is_zero _); [discriminate|]. cbn [res_bind] in E.
      destruct (Nat.ltb _ _); [discriminate|]. destruct (is_zero _); [|discriminate]. injection E as <-.
      rewrite app_length, <- Hlen. cbn [length]. lia.
    - cbn [res_bind] in E. destruct (Nat.ltb _ _); [discriminate|]. destruct (is_zero _); [|discriminate]. injection E as <-.
      rewrite <- Hlen. lia. }
  destruct (Hzip ps cs Hlenps) as [Z1 Z2].
  assert (Hdomps : forallb dom_post ps = true).
  { rewrite <- Z1. rewrite forallb_forall in *. intros p Hp. apply in_map_iff in Hp as (jp & <- & Hjp). exact (Hdom jp Hjp). }
  destruct (accept_txn_wf _ _ Hraw Hlast E Hdomps) as (Hne' & Hwf & Hdist & Hzero & _).
  unfold jtxn_wf. cbn [jt_hdr jt_posts]. rewrite Hh. cbn [andb].
  set (jps := map (fun pc => mkJPost (fst pc) (snd pc)) (combine ps cs)) in *.
  assert (Hjne : negb (is_nil jps) = true).
  { destruct jps eqn:Ej; [|reflexivity]. exfalso. cbn [map] in Z1. congruence. }
  rewrite Hjne. cbn [andb].
  assert (Hjwf : forallb jpost_wf jps = true).
  { rewrite forallb_forall. intros jp Hjp. unfold jpost_wf.
    assert (Hp : In (jp_p jp) ps) by (rewrite <- Z1; apply in_map; exact Hjp).
    assert (Hc : In (jp_comment jp) cs) by (rewrite <- Z2; apply in_map; exact Hjp).
    rewrite forallb_forall in Hwf, Hcs. specialize (Hwf _ Hp). specialize (Hcs _ Hc).
    apply andb_true_iff in Hwf as [A B]. rewrite A, B. cbn [andb]. exact Hcs. }
  rewrite Hjwf. cbn [andb].
  assert (Hm : map (fun jp => p_txn_comm (jp_p jp)) jps = map p_txn_comm ps) by (transitivity (map p_txn_comm (map jp_p jps)); [rewrite map_map; reflexivity|rewrite Z1; reflexivity]).
  rewrite Hm, Hdist, Z1, Hzero. reflexivity.
Qed.

(* ------------------------------------------------------------------ lines of an accepted text *)
Lemma split_lines_no_nl s : forall ls tl, split_lines s = (ls, tl) -> forallb no_nl ls = true /\ no_nl tl = true.
Proof.
  induction s as [|c s IH]; intros ls tl H; cbn [split_lines] in H.
  - injection H as <- <-. split; reflexivity.
  - destruct (split_lines s) as [ls0 tl0]. destruct (IH _ _ eq_refl) as [A B].
    destruct (N.eqb_spec c 10) as [->|Hc].
    + injection H as <- <-. split; [cbn [forallb]; rewrite A; reflexivity|exact B].
    + apply N.eqb_neq in Hc. destruct ls0 as [|l ls'].
      * injection H as <- <-. split; [reflexivity|]. cbn [no_nl forallb]. rewrite Hc. exact B.
      * injection H as <- <-. cbn [forallb] in *. apply andb_true_iff in A as [A1 A2].
        split; [|exact B]. cbn [no_nl forallb]. rewrite Hc. cbn [negb andb]. fold (no_nl l). rewrite A1, A2. reflexivity.
Qed.

Lemma strip_cr_no_nl l : no_nl l = true -> no_nl (strip_cr l) = true.
Proof.
  intro H. unfold strip_cr. destruct (rev l) as [|c r] eqn:E; [exact H|]. destruct (c =? 13)%N; [|exact H].
  unfold no_nl in *. rewrite forallb_rev. rewrite <- forallb_rev, E in H. cbn [forallb] in H.
  apply andb_true_iff in H as [_ H]. exact H.
Qed.

Lemma lines_no_eol ls : forallb no_nl ls = true -> existsb (existsb (fun c => (c =? 13)%N)) ls = false ->
  forallb no_eol ls = true.
Proof.
  induction ls as [|l ls IH]; [reflexivity|]. cbn [forallb existsb]. intros H1 H2.
  apply andb_true_iff in H1 as [A1 A2]. apply orb_false_iff in H2 as [B1 B2]. rewrite (IH A2 B2), andb_true_r.
  clear - A1 B1. induction l as [|c l IH]; [reflexivity|]. cbn [no_nl no_eol forallb existsb] in *.
  apply andb_true_iff in A1 as [A A']. apply orb_false_iff in B1 as [B B']. apply negb_true_iff in A.
  rewrite A, B. cbn [orb negb andb]. exact (IH A' B').
Qed.

Lemma chunk_lines_in ls : forall c l, In c (chunk_lines ls) -> In l c -> In l ls.
Proof.
  induction ls as [|x ls IH]; intros c l Hc Hl; cbn [chunk_lines] in Hc.
  - destruct Hc as [<-|[]]. destruct Hl.
  - destruct (is_blank x).
    + destruct Hc as [<-|Hc]; [destruct Hl|]. right. exact (IH _ _ Hc Hl).
    + destruct (chunk_lines ls) as [|c0 cs'] eqn:E.
      * destruct Hc as [<-|[]]. destruct Hl as [<-|[]]. left. reflexivity.
      * destruct Hc as [<-|Hc].
        -- destruct Hl as [<-|Hl]; [left; reflexivity|]. right. apply (IH c0 l); [left; reflexivity|exact Hl].
        -- right. apply (IH c l); [right; exact Hc|exact Hl].
Qed.

Theorem parse_journal_wf cfg s pts : cfg_ok cfg = true -> parse_journal cfg s = Ok pts ->
  pts <> [] /\ Forall (fun pt => ptxn_wf pt = true) pts.
Proof.
  intros Hcfg. unfold parse_journal. destruct (split_lines s) as [ls0 tl] eqn:Es.
  destruct (is_nil tl); [|discriminate]. cbn [negb].
  destruct (existsb (existsb (fun c => (c =? 13)%N)) (map strip_cr ls0)) eqn:Ecr; [discriminate|].
  destruct (split_lines_no_nl _ _ _ Es) as [Hnl _].
  assert (Hnl' : forallb no_nl (map strip_cr ls0) = true).
  { rewrite forallb_forall in *. intros x Hx. apply in_map_iff in Hx as (y & <- & Hy). apply strip_cr_no_nl, Hnl, Hy. }
  pose proof (lines_no_eol _ Hnl' Ecr) as Hls.
  destruct (chunks (map strip_cr ls0)) as [|c0 cs] eqn:Ech; [discriminate|].
  destruct (mapO (parse_chunk cfg) (c0 :: cs)) as [l|] eqn:Em; [|discriminate].
  intro H. injection H as <-. pose proof (mapO_Forall2 _ _ _ Em) as HF.
  split.
  - intro E. subst. inversion HF.
  - assert (Hin : forall c, In c (c0 :: cs) -> forallb no_eol c = true).
    { intros c Hc. rewrite <- Ech in Hc. unfold chunks in Hc. apply filter_In in Hc as [Hc _].
      rewrite forallb_forall. intros x Hx. rewrite forallb_forall in Hls. apply Hls. exact (chunk_lines_in _ _ _ Hc Hx). }
    clear - HF Hin Hcfg. induction HF as [|c pt cs' pts' Hc HF IH]; [constructor|].
    constructor; [exact (parse_chunk_spec cfg c pt Hcfg (Hin c (or_introl eq_refl)) Hc)|].
    apply IH. intros c' Hc'. apply Hin. right. exact Hc'.
Qed.

(* ------------------------------------------------------------------ sorting *)
Lemma jtxn_leb_total a b : jtxn_leb a b = false -> jtxn_leb b a = true.
Proof. unfold jtxn_leb. apply (co_leb_total header_cmp header_cmp_ord). Qed.
Lemma jtxn_leb_trans a b c : jtxn_leb a b = true -> jtxn_leb b c = true -> jtxn_leb a c = true.
Proof. unfold jtxn_leb. apply (co_leb_trans header_cmp header_cmp_ord). Qed.

Lemma sorted_b_of_strongly {A} (leb : A -> A -> bool) l :
  StronglySorted (fun a b => leb a b = true) l -> sorted_b leb l = true.
Proof.
  induction 1 as [|x l Hs IH Hf]; [reflexivity|]. destruct l as [|y l']; [reflexivity|].
  cbn [sorted_b]. inversion Hf as [|? ? Hxy _]; subst. rewrite Hxy. exact IH.
Qed.

(* STAGE 5: every journal the loader accepts yields well-formed transactions *)
Theorem load_wf cfg s ts : cfg_ok cfg = true -> load_journal cfg s = Ok ts -> in_domain ts = true ->
  journal_wf ts = true.
Proof.
  intros Hcfg. unfold load_journal.
  destruct (parse_journal cfg s) as [pts|] eqn:Ep; [|discriminate]. cbn [res_bind].
  destruct (parse_journal_wf cfg s pts Hcfg Ep) as [Hne Hwf].
  destruct (mapM accept_ptxn pts) as [ts0|] eqn:Em; [|discriminate]. cbn [res_bind].
  intro H. injection H as <-. intro Hdom.
  pose proof (mapM_Forall2 _ _ _ Em) as HF.
  unfold journal_wf. apply andb_true_iff. split; [apply andb_true_iff; split|].
  - pose proof (sort_by_length jtxn_leb ts0) as Hl. pose proof (Forall2_length _ _ _ HF) as Hl2.
    destruct (sort_by jtxn_leb ts0); [|reflexivity]. cbn [length] in Hl. destruct pts; [congruence|]. cbn [length] in Hl2. lia.
  - rewrite forallb_forall. intros t Ht.
    assert (Ht0 : In t ts0) by (apply (sort_by_in jtxn_leb); exact Ht).
    unfold in_domain in Hdom. rewrite forallb_forall in Hdom. specialize (Hdom t Ht).
    clear - HF Hwf Ht0 Hdom. induction HF as [|pt t0 pts' ts' Hacc HF IH]; [destruct Ht0|].
    inversion Hwf as [|? ? Hpt Hwf']; subst. destruct Ht0 as [<-|Ht0]; [|exact (IH Hwf' Ht0)].
    apply (accept_ptxn_wf pt t0 Hpt Hacc). exact Hdom.
  - apply sorted_b_of_strongly. apply (sort_by_sorted jtxn_leb jtxn_leb_total jtxn_leb_trans).
Qed.

(* THE PROPERTY, for every accepted journal: its identity export is accepted under any journal-zone
   setting and loads to exactly the same ordered transactions; re-exporting gives the same text *)
Theorem accepted_roundtrip cfg cfg' s ts : cfg_ok cfg = true -> load_journal cfg s = Ok ts -> in_domain ts = true ->
  load_journal cfg' (print_journal ts) = Ok ts.
Proof. intros Hcfg H Hd. apply load_roundtrip. exact (load_wf cfg s ts Hcfg H Hd). Qed.

Theorem accepted_fixpoint cfg cfg' s ts ts' : cfg_ok cfg = true -> load_journal cfg s = Ok ts -> in_domain ts = true ->
  load_journal cfg' (print_journal ts) = Ok ts' -> print_journal ts' = print_journal ts.
Proof. intros Hcfg H Hd H'. rewrite (accepted_roundtrip cfg cfg' s ts Hcfg H Hd) in H'. injection H' as <-. reflexivity. Qed.

(* ------------------------------------------------------------------ witnesses for stage 5 *)
Lemma example_accepted :
  cfg_ok (mkCfg 0 0) = true /\ load_journal (mkCfg 0 0) example_text = Ok [example_txn] /\ in_domain [example_txn] = true.
Proof. repeat split; vm_compute; reflexivity. Qed.

(* finding F13, stated on journals: with a journal zone whose offset is not a whole minute
   (model of a named zone such as Europe/Helsinki in 1900: +01:39:49) an accepted journal is
   exported to a text that is rejected — the hypothesis cfg_ok cannot be dropped *)
Definition f13_text : list N := [49; 57; 48; 48; 45; 48; 49; 45; 48; 49; 10; 32; 97; 32; 32; 49; 10; 32; 98; 10]%N.
Lemma subminute_zone_refuted :
  exists cfg s ts, load_journal cfg s = Ok ts /\ in_domain ts = true /\ load_journal cfg (print_journal ts) = Err E_syntax.
Proof.
  exists (mkCfg 5989 0), f13_text.
  destruct (load_journal (mkCfg 5989 0) f13_text) as [ts|] eqn:E; [|vm_compute in E; discriminate].
  exists ts. split; [reflexivity|]. vm_compute in E. injection E as <-. split; vm_compute; reflexivity.
Qed.
