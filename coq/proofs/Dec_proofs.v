(* Dec_proofs.v — reusable facts about TkModel.Dec: the value d28 is additive. *)
From TkModel Require Import Base Dec.
From TkProofs Require Import Base_proofs.
Local Open Scope Z_scope.

Lemma pow10_add a b : pow10 (a + b) = pow10 a * pow10 b.
Proof. unfold pow10. rewrite N2Z.inj_add, Z.pow_add_r by lia. reflexivity. Qed.

Lemma pow10_pos n : 0 < pow10 n.
Proof. unfold pow10. apply Z.pow_pos_nonneg; lia. Qed.

Lemma pow10_0 : pow10 0 = 1.
Proof. reflexivity. Qed.

Lemma is_zero_true d : is_zero d = true <-> dm d = 0.
Proof. unfold is_zero. apply Z.eqb_eq. Qed.

Lemma is_zero_d28 d : is_zero d = true -> d28 d = 0.
Proof. intros H. apply is_zero_true in H. unfold d28. rewrite H. reflexivity. Qed.

Lemma d28_dzero : d28 dzero = 0.
Proof. reflexivity. Qed.

Lemma dwf_dzero : dwf dzero.
Proof. unfold dwf, dzero. cbn [ds]. lia. Qed.

(* the value of a rescaled mantissa *)
Lemma rescale_d28 d s : (ds d <= s)%N -> (s <= 28)%N -> rescale d s * pow10 (28 - s) = d28 d.
Proof.
  intros H1 H2. unfold rescale, d28. rewrite <- Z.mul_assoc, <- pow10_add.
  f_equal. f_equal. lia.
Qed.

Lemma d28_dadd a b : dwf a -> dwf b -> d28 (dadd a b) = d28 a + d28 b.
Proof.
  unfold dwf. intros Ha Hb. unfold dadd.
  destruct (is_zero a) eqn:Za; [rewrite (is_zero_d28 a Za); lia|].
  destruct (is_zero b) eqn:Zb; [rewrite (is_zero_d28 b Zb); lia|].
  cbv zeta. unfold d28 at 1. cbn [dm ds].
  rewrite Z.mul_add_distr_r, !rescale_d28 by lia. reflexivity.
Qed.

Lemma dwf_dadd a b : dwf a -> dwf b -> dwf (dadd a b).
Proof.
  unfold dwf. intros Ha Hb. unfold dadd.
  destruct (is_zero a); [exact Hb|]. destruct (is_zero b); [exact Ha|]. cbn [ds]. lia.
Qed.

Lemma dadd_dzero_l a : dadd dzero a = a.
Proof. reflexivity. Qed.

Lemma fold_dadd_spec l : forall acc, dwf acc -> Forall dwf l ->
  dwf (fold_left dadd l acc) /\ d28 (fold_left dadd l acc) = d28 acc + zsum (map d28 l).
Proof.
  induction l as [|x l IH]; intros acc Ha Hl; cbn [fold_left map].
  - rewrite zsum_nil. split; [exact Ha|lia].
  - inversion Hl as [|? ? Hx Hl']; subst.
    destruct (IH (dadd acc x) (dwf_dadd _ _ Ha Hx) Hl') as [H1 H2].
    split; [exact H1|]. rewrite H2, d28_dadd, zsum_cons by assumption. lia.
Qed.

Lemma dwf_dsum l : Forall dwf l -> dwf (dsum l).
Proof. intros H. apply (fold_dadd_spec l dzero dwf_dzero H). Qed.

Lemma d28_dsum l : Forall dwf l -> d28 (dsum l) = zsum (map d28 l).
Proof.
  intros H. unfold dsum. rewrite (proj2 (fold_dadd_spec l dzero dwf_dzero H)), d28_dzero. lia.
Qed.

Lemma d28_dneg a : d28 (dneg a) = - d28 a.
Proof. unfold d28, dneg. cbn [dm ds]. ring. Qed.

Lemma dwf_dneg a : dwf a -> dwf (dneg a).
Proof. unfold dwf, dneg. cbn [ds]. intros H; exact H. Qed.

Lemma d28_dsub a b : dwf a -> dwf b -> d28 (dsub a b) = d28 a - d28 b.
Proof.
  intros Ha Hb. unfold dsub. rewrite d28_dadd, d28_dneg by (try apply dwf_dneg; assumption). lia.
Qed.

Lemma dwf_dsub a b : dwf a -> dwf b -> dwf (dsub a b).
Proof. intros Ha Hb. unfold dsub. apply dwf_dadd; [exact Ha|apply dwf_dneg; exact Hb]. Qed.

(* comparison is comparison of values *)
Lemma dcmp_d28 a b : dwf a -> dwf b -> dcmp a b = (d28 a ?= d28 b).
Proof.
  unfold dwf. intros Ha Hb. unfold dcmp. cbv zeta.
  set (s := N.max (ds a) (ds b)).
  rewrite <- (rescale_d28 a s), <- (rescale_d28 b s) by (unfold s; lia).
  apply Zmult_compare_compat_r. pose proof (pow10_pos (28 - s)). lia.
Qed.

Lemma deqb_d28 a b : dwf a -> dwf b -> (deqb a b = true <-> d28 a = d28 b).
Proof.
  intros Ha Hb. unfold deqb. rewrite (dcmp_d28 a b Ha Hb), <- Z.compare_eq_iff.
  destruct (d28 a ?= d28 b); split; congruence.
Qed.

Lemma dcmp_refl a : dcmp a a = Eq.
Proof. unfold dcmp. apply Z.compare_refl. Qed.

Lemma deqb_refl a : deqb a a = true.
Proof. unfold deqb. rewrite dcmp_refl. reflexivity. Qed.

Lemma dltb_d28 a b : dwf a -> dwf b -> (dltb a b = true <-> d28 a < d28 b).
Proof.
  intros Ha Hb. unfold dltb. rewrite (dcmp_d28 a b Ha Hb). unfold Z.lt.
  destruct (d28 a ?= d28 b); split; congruence.
Qed.

Lemma dleb_d28 a b : dwf a -> dwf b -> (dleb a b = true <-> d28 a <= d28 b).
Proof.
  intros Ha Hb. unfold dleb. rewrite (dcmp_d28 a b Ha Hb). unfold Z.le.
  destruct (d28 a ?= d28 b); split; congruence.
Qed.

(* exact product, when the scales fit *)
Lemma d28_dmul a b : (ds a + ds b <= 28)%N -> d28 (dmul a b) * pow10 28 = d28 a * d28 b.
Proof.
  intros H. unfold dmul. destruct (is_zero a) eqn:Za; cbn [orb].
  { rewrite (is_zero_d28 a Za), d28_dzero. lia. }
  destruct (is_zero b) eqn:Zb.
  { rewrite (is_zero_d28 b Zb), d28_dzero. lia. }
  unfold d28. cbn [dm ds].
  assert (pow10 (28 - (ds a + ds b)) * pow10 28 = pow10 (28 - ds a) * pow10 (28 - ds b)) as E.
  { rewrite <- !pow10_add. f_equal. lia. }
  transitivity (dm a * dm b * (pow10 (28 - (ds a + ds b)) * pow10 28)); [ring|].
  rewrite E. ring.
Qed.

Lemma dwf_dmul a b : (ds a + ds b <= 28)%N -> dwf (dmul a b).
Proof.
  intros H. unfold dwf, dmul. destruct (is_zero a || is_zero b); cbn [ds dzero]; lia.
Qed.

Lemma is_zero_d28_iff d : is_zero d = true <-> d28 d = 0.
Proof.
  split; [apply is_zero_d28|]. intros H. apply is_zero_true. unfold d28 in H.
  pose proof (pow10_pos (28 - ds d)). nia.
Qed.
