(* Journal_hdrinv_proofs.v — C06 stage 5c: what a successfully parsed transaction looks like
   (header, metadata, comments, raw postings). *)
From TkModel Require Import Base Dec Acct Txn Accept Journal.
From TkSpec Require Import Journal_spec.
From TkProofs Require Import Journal_base_proofs Journal_line_proofs Journal_header_proofs Journal_inv_proofs Journal_tsinv_proofs.
Local Open Scope Z_scope.

(* ------------------------------------------------------------------ trimming *)
Lemma drop_while_stopb p s : stopb p (drop_while p s) = true.
Proof.
  induction s as [|c s IH]; [reflexivity|]. cbn [drop_while]. destruct (p c) eqn:E; [exact IH|].
  cbn [stopb]. rewrite E. reflexivity.
Qed.
Lemma forallb_drop_while (q p : N -> bool) s : forallb q s = true -> forallb q (drop_while p s) = true.
Proof.
  induction s as [|c s IH]; [reflexivity|]. cbn [drop_while forallb]. intro H. destruct (p c); [|exact H].
  apply andb_true_iff in H as [_ H]. exact (IH H).
Qed.
Lemma forallb_trim_end (q : N -> bool) s : forallb q s = true -> forallb q (trim_end s) = true.
Proof. intro H. unfold trim_end. rewrite forallb_rev. apply forallb_drop_while. rewrite forallb_rev. exact H. Qed.

Lemma trim_end_idem s : trim_end (trim_end s) = trim_end s.
Proof. apply trim_end_fix_iff. unfold trim_end. rewrite rev_involutive. apply drop_while_stopb. Qed.

Lemma drop_while_last p a h : p h = false -> exists a', drop_while p (a ++ [h]) = a' ++ [h].
Proof.
  intro H. induction a as [|c a IH]; cbn [app drop_while].
  - rewrite H. exists []. reflexivity.
  - destruct (p c); [exact IH|]. exists (c :: a). reflexivity.
Qed.
Lemma trim_end_stopb s : stopb is_ws s = true -> stopb is_ws (trim_end s) = true.
Proof.
  destruct s as [|h t]; [reflexivity|]. cbn [stopb]. intro H. apply negb_true_iff in H.
  unfold trim_end. cbn [rev]. destruct (drop_while_last is_ws (rev t) h H) as [a' E]. rewrite E.
  rewrite rev_app_distr. cbn [rev app stopb]. rewrite H. reflexivity.
Qed.
Lemma trim_idem s : trim (trim s) = trim s.
Proof.
  unfold trim. rewrite (drop_while_stop is_ws (trim_end (drop_while is_ws s))).
  - apply trim_end_idem.
  - apply trim_end_stopb, drop_while_stopb.
Qed.

(* ------------------------------------------------------------------ header line *)
Lemma parse_header_rest_spec r oc od : no_eol r = true -> parse_header_rest r = Some (oc, od) ->
  match oc with Some c => code_ok c | None => true end = true
  /\ match od with Some d => desc_ok d | None => true end = true.
Proof.
  intros Hr. unfold parse_header_rest. destruct (span is_sp r) as [sp r0] eqn:E0.
  pose proof (suffix_no_eol _ _ (span_suffix _ _ _ _ E0) Hr) as Hr0.
  destruct r0 as [|c r']; [intro H; injection H as <- <-; split; reflexivity|].
  destruct (is_nil sp); [discriminate|].
  assert (Hr' : no_eol r' = true) by (apply (suffix_no_eol _ (c :: r')); [apply suffix_cons|exact Hr0]).
  assert (Hdesc : forall x, no_eol x = true -> desc_ok (trim_end x) = true).
  { intros x Hx. unfold desc_ok. rewrite (trim_end_no_eol x Hx), trim_end_idem, str_eqb_same. reflexivity. }
  destruct (c =? 40)%N.
  - destruct (span code_char r') as [code r2] eqn:E2. destruct (span_spec _ _ _ _ E2) as (_ & Hcode & _).
    pose proof (suffix_no_eol _ _ (span_suffix _ _ _ _ E2) Hr') as Hr2.
    destruct (take_char 41 r2) as [r3|] eqn:E3; [|discriminate].
    pose proof (suffix_no_eol _ _ (take_char_suffix _ _ _ E3) Hr2) as Hr3.
    destruct (span is_sp r3) as [sp2 r4] eqn:E4.
    pose proof (suffix_no_eol _ _ (span_suffix _ _ _ _ E4) Hr3) as Hr4.
    assert (Hc : code_ok (trim code) = true).
    { unfold code_ok. rewrite trim_idem, str_eqb_same, andb_true_r. unfold trim.
      apply forallb_trim_end, forallb_drop_while, Hcode. }
    destruct r4 as [|y r5]; [intro H; injection H as <- <-; split; [exact Hc|reflexivity]|].
    destruct (negb (is_nil sp2) && (y =? 39)%N); [|discriminate].
    intro H. injection H as <- <-. split; [exact Hc|]. apply Hdesc.
    apply (suffix_no_eol _ (y :: r5)); [apply suffix_cons|exact Hr4].
  - destruct (c =? 39)%N; [|discriminate]. intro H. injection H as <- <-. split; [reflexivity|apply Hdesc, Hr'].
Qed.

(* ------------------------------------------------------------------ uuid *)
Lemma lower_hex_spec c : is_hex c = true -> is_hex (lower_hex c) = true /\ lower_hex (lower_hex c) = lower_hex c.
Proof.
  intro H. unfold lower_hex. destruct (in_rng 65 70 c) eqn:E.
  - unfold in_rng in E. apply andb_true_iff in E as [E1 E2]. apply N.leb_le in E1, E2.
    assert (H1 : in_rng 97 102 (c + 32) = true) by (unfold in_rng; apply andb_true_iff; split; apply N.leb_le; lia).
    assert (H2 : in_rng 65 70 (c + 32) = false).
    { unfold in_rng. apply andb_false_iff. right. apply N.leb_gt. lia. }
    split; [unfold is_hex; rewrite H1, orb_true_r; reflexivity|rewrite H2; reflexivity].
  - split; [exact H|rewrite E; reflexivity].
Qed.

Lemma take_hex_spec n s a r : take_hex n s = Some (a, r) ->
  exists a0, s = a0 ++ r /\ length a0 = n /\ forallb is_hex a0 = true /\ a = map lower_hex a0.
Proof.
  unfold take_hex. destruct (Nat.eqb (length (firstn n s)) n && forallb is_hex (firstn n s)) eqn:Eb; [|discriminate].
  intro H. injection H as <- <-. apply andb_true_iff in Eb as [Hl Hh]. apply Nat.eqb_eq in Hl.
  exists (firstn n s). repeat split; [symmetry; apply firstn_skipn|exact Hl|exact Hh].
Qed.
Lemma take_hex_app n a rest : length a = n -> forallb is_hex a = true ->
  take_hex n (a ++ rest) = Some (map lower_hex a, rest).
Proof.
  intros <- Hd. unfold take_hex. rewrite firstn_app_len, skipn_app_len, Nat.eqb_refl, Hd. reflexivity.
Qed.
Lemma lower_hex_block a0 : forallb is_hex a0 = true ->
  forallb is_hex (map lower_hex a0) = true /\ map lower_hex (map lower_hex a0) = map lower_hex a0.
Proof.
  induction a0 as [|c a IH]; [split; reflexivity|]. cbn [forallb map]. intro H. apply andb_true_iff in H as [Hc Ha].
  destruct (lower_hex_spec c Hc) as [H1 H2]. destruct (IH Ha) as [I1 I2]. rewrite H1, I1, H2, I2. split; reflexivity.
Qed.

Lemma take_uuid_spec s u r : take_uuid s = Some (u, r) -> uuid_ok u = true /\ suffix r s.
Proof.
  unfold take_uuid.
  destruct (take_hex 8 s) as [[a s1]|] eqn:Ea; [|discriminate].
  destruct (take_char 45 s1) as [s2|] eqn:E1; [|discriminate].
  destruct (take_hex 4 s2) as [[b s3]|] eqn:Eb; [|discriminate].
  destruct (take_char 45 s3) as [s4|] eqn:E2; [|discriminate].
  destruct (take_hex 4 s4) as [[c s5]|] eqn:Ec; [|discriminate].
  destruct (take_char 45 s5) as [s6|] eqn:E3; [|discriminate].
  destruct (take_hex 4 s6) as [[d s7]|] eqn:Ed; [|discriminate].
  destruct (take_char 45 s7) as [s8|] eqn:E4; [|discriminate].
  destruct (take_hex 12 s8) as [[e s9]|] eqn:Ee; [|discriminate].
  intro H. injection H as <- <-.
  destruct (take_hex_spec _ _ _ _ Ea) as (a0 & Sa & La & Ha & ->).
  destruct (take_hex_spec _ _ _ _ Eb) as (b0 & Sb & Lb & Hb & ->).
  destruct (take_hex_spec _ _ _ _ Ec) as (c0 & Sc & Lc & Hc & ->).
  destruct (take_hex_spec _ _ _ _ Ed) as (d0 & Sd & Ld & Hd & ->).
  destruct (take_hex_spec _ _ _ _ Ee) as (e0 & Se & Le & He & ->).
  split.
  - destruct (lower_hex_block a0 Ha) as [A1 A2]. destruct (lower_hex_block b0 Hb) as [B1 B2].
    destruct (lower_hex_block c0 Hc) as [C1 C2]. destruct (lower_hex_block d0 Hd) as [D1 D2].
    destruct (lower_hex_block e0 He) as [F1 F2].
    unfold uuid_ok, take_uuid.
    rewrite (take_hex_app 8 (map lower_hex a0) _ ltac:(rewrite map_length; exact La) A1). cbn [take_char]. rewrite N.eqb_refl.
    rewrite (take_hex_app 4 (map lower_hex b0) _ ltac:(rewrite map_length; exact Lb) B1). cbn [take_char]. rewrite N.eqb_refl.
    rewrite (take_hex_app 4 (map lower_hex c0) _ ltac:(rewrite map_length; exact Lc) C1). cbn [take_char]. rewrite N.eqb_refl.
    rewrite (take_hex_app 4 (map lower_hex d0) _ ltac:(rewrite map_length; exact Ld) D1). cbn [take_char]. rewrite N.eqb_refl.
    rewrite <- (app_nil_r (map lower_hex e0)) at 1.
    rewrite (take_hex_app 12 (map lower_hex e0) [] ltac:(rewrite map_length; exact Le) F1).
    rewrite A2, B2, C2, D2, F2. apply str_eqb_same.
  - rewrite Sa. eapply suffix_trans; [|apply suffix_app]. rewrite (take_char_spec _ _ _ E1).
    eapply suffix_trans; [|apply suffix_cons]. rewrite Sb. eapply suffix_trans; [|apply suffix_app].
    rewrite (take_char_spec _ _ _ E2). eapply suffix_trans; [|apply suffix_cons]. rewrite Sc.
    eapply suffix_trans; [|apply suffix_app]. rewrite (take_char_spec _ _ _ E3).
    eapply suffix_trans; [|apply suffix_cons]. rewrite Sd. eapply suffix_trans; [|apply suffix_app].
    rewrite (take_char_spec _ _ _ E4). eapply suffix_trans; [|apply suffix_cons]. rewrite Se. apply suffix_app.
Qed.

(* ------------------------------------------------------------------ location, tags *)
Lemma parse_geo_spec s g : parse_geo s = Some g -> geo_wf g = true.
Proof.
  unfold parse_geo.
  destruct (take_prefix kw_geo s) as [s1|]; [|discriminate].
  destruct (take_number (snd (span is_sp s1))) as [[lat s2]|] eqn:E1; [|discriminate].
  destruct (take_char 44 (snd (span is_sp s2))) as [s3|]; [|discriminate].
  destruct (take_number (snd (span is_sp s3))) as [[lon s4]|] eqn:E2; [|discriminate].
  destruct (take_number_spec _ _ _ E1) as [F1 _]. destruct (take_number_spec _ _ _ E2) as [F2 _].
  destruct (take_char 44 (snd (span is_sp s4))) as [r|].
  - destruct (take_number (snd (span is_sp r))) as [[a r']|] eqn:E3; [|discriminate].
    destruct (take_number_spec _ _ _ E3) as [F3 _].
    destruct (is_blank r' && geo_ok lat lon (Some a)) eqn:Eb; [|discriminate]. intro H. injection H as <-.
    apply andb_true_iff in Eb as [_ Ok]. unfold geo_wf. cbn [g_lat g_lon g_alt]. rewrite F1, F2, F3, Ok. reflexivity.
  - destruct (is_blank (snd (span is_sp s4)) && geo_ok lat lon None) eqn:Eb; [|discriminate]. intro H. injection H as <-.
    apply andb_true_iff in Eb as [_ Ok]. unfold geo_wf. cbn [g_lat g_lon g_alt]. rewrite F1, F2, Ok. reflexivity.
Qed.

Lemma tag_ok_join comps : name_ok comps = true -> tag_ok (join_colon comps) = true.
Proof.
  intro H. unfold tag_ok. destruct (name_ok_inv comps H) as (c & r & comps' & E & _ & Hall).
  rewrite split_join_colon; [exact H|rewrite E; discriminate|exact Hall].
Qed.

Lemma tag_names_spec ps : forall names, tag_names ps = Some names -> forallb tag_ok names = true.
Proof.
  induction ps as [|p ps IH]; intros names H; cbn [tag_names] in H.
  - injection H as <-. reflexivity.
  - destruct (take_name p) as [[comps r]|] eqn:E; [|discriminate]. destruct r; [|discriminate].
    destruct (tag_names ps) as [ns|] eqn:En; [|discriminate]. injection H as <-.
    destruct (take_name_spec _ _ _ E) as [Hn _]. cbn [forallb]. rewrite (tag_ok_join _ Hn), (IH _ eq_refl). reflexivity.
Qed.

Lemma parse_tags_spec s ts : parse_tags s = Some ts ->
  forallb tag_ok ts = true /\ Nat.eqb (length (distinct_strs ts)) (length ts) = true /\ ts <> [].
Proof.
  unfold parse_tags. destruct (tag_names (map strip_sp (split_on 44 s))) as [names|] eqn:E; [|discriminate].
  destruct (Nat.eqb (length (distinct_strs names)) (length names)) eqn:Ed; [|discriminate].
  intro H. injection H as <-. repeat split; [exact (tag_names_spec _ _ E)|exact Ed|].
  intro Hn. subst. destruct (split_on 44 s) as [|p ps] eqn:Es.
  - destruct s as [|c s']; cbn [split_on] in Es; [discriminate|]. destruct (c =? 44)%N; destruct (split_on 44 s'); discriminate.
  - cbn [map tag_names] in E. destruct (take_name (strip_sp p)) as [[comps r]|]; [|discriminate].
    destruct r; [|discriminate]. destruct (tag_names (map strip_sp ps)); discriminate.
Qed.

(* ------------------------------------------------------------------ metadata lines *)
Definition mline_wf (m : mline) : bool :=
  match m with
  | M_uuid u => uuid_ok u
  | M_loc g => geo_wf g
  | M_tags t => forallb tag_ok t && Nat.eqb (length (distinct_strs t)) (length t) && negb (is_nil t)
  end.

Lemma parse_meta_line_spec l m : parse_meta_line l = Some (Some m) -> mline_wf m = true.
Proof.
  unfold parse_meta_line. destruct (span is_sp l) as [sp r]. destruct r as [|c r1]; [discriminate|].
  destruct (negb (is_nil sp) && (c =? 35)%N); [|discriminate].
  destruct (span is_sp r1) as [sp1 r2]. destruct (is_nil sp1); [discriminate|].
  destruct (take_prefix kw_uuid r2) as [r3|] eqn:Eu.
  - destruct (span is_sp r3) as [sp2 r4]. destruct (is_nil sp2); [discriminate|].
    destruct (take_uuid r4) as [[u r5]|] eqn:E; [|discriminate]. destruct (is_blank r5); [|discriminate].
    intro H. injection H as <-. exact (proj1 (take_uuid_spec _ _ _ E)).
  - destruct (take_prefix kw_location r2) as [r3|] eqn:El.
    + destruct (span is_sp r3) as [sp2 r4]. destruct (is_nil sp2); [discriminate|].
      destruct (parse_geo r4) as [g|] eqn:E; [|discriminate]. intro H. injection H as <-. exact (parse_geo_spec _ _ E).
    + destruct (take_prefix kw_tags r2) as [r3|] eqn:Et; [|discriminate].
      destruct (span is_sp r3) as [sp2 r4]. destruct (is_nil sp2); [discriminate|].
      destruct (parse_tags r4) as [t|] eqn:E; [|discriminate]. intro H. injection H as <-.
      destruct (parse_tags_spec _ _ E) as (H1 & H2 & H3). cbn [mline_wf]. rewrite H1, H2. destruct t; [congruence|reflexivity].
Qed.

Definition opt_ok {A} (f : A -> bool) (o : option A) : bool := match o with Some x => f x | None => true end.
Definition tags_wf (t : list (list N)) : bool := forallb tag_ok t && Nat.eqb (length (distinct_strs t)) (length t).

Lemma parse_meta_spec ls : forall u g t u' g' t' rest,
  opt_ok uuid_ok u = true -> opt_ok geo_wf g = true -> opt_ok tags_wf t = true ->
  parse_meta ls u g t = Some (u', g', t', rest) ->
  opt_ok uuid_ok u' = true /\ opt_ok geo_wf g' = true /\ opt_ok tags_wf t' = true /\ exists pre, ls = pre ++ rest.
Proof.
  induction ls as [|l ls IH]; intros u g t u' g' t' rest Hu Hg Ht H; cbn [parse_meta] in H.
  - injection H as <- <- <- <-. repeat split; try assumption. exists []. reflexivity.
  - destruct (parse_meta_line l) as [[m|]|] eqn:E.
    + pose proof (parse_meta_line_spec _ _ E) as Hm. destruct m as [v|v|v]; cbn [mline_wf] in Hm.
      * destruct u; [discriminate|]. destruct (IH (Some v) g t u' g' t' rest Hm Hg Ht H) as (A & B & C & pre & ->).
        repeat split; try assumption. exists (l :: pre). reflexivity.
      * destruct g; [discriminate|]. destruct (IH u (Some v) t u' g' t' rest Hu Hm Ht H) as (A & B & C & pre & ->).
        repeat split; try assumption. exists (l :: pre). reflexivity.
      * destruct t; [discriminate|]. apply andb_true_iff in Hm as [Hm _].
        destruct (IH u g (Some v) u' g' t' rest Hu Hg Hm H) as (A & B & C & pre & ->).
        repeat split; try assumption. exists (l :: pre). reflexivity.
    + discriminate.
    + injection H as <- <- <- <-. repeat split; try assumption. exists []. reflexivity.
Qed.

Lemma parse_comments_spec ls : forall cs rest, forallb no_eol ls = true -> parse_comments ls = Some (cs, rest) ->
  forallb no_eol cs = true /\ forallb no_eol rest = true.
Proof.
  induction ls as [|l ls IH]; intros cs rest Hls H; cbn [parse_comments] in H.
  - injection H as <- <-. split; reflexivity.
  - cbn [forallb] in Hls. apply andb_true_iff in Hls as [Hl Hls'].
    destruct (parse_comment_line l) as [[c|]|] eqn:E.
    + destruct (parse_comments ls) as [[cs0 rest0]|] eqn:E2; [|discriminate]. injection H as <- <-.
      destruct (IH _ _ Hls' eq_refl) as [A B]. split; [|exact B]. cbn [forallb]. rewrite A, andb_true_r.
      unfold parse_comment_line in E. destruct (span is_sp l) as [sp r] eqn:Es. destruct r as [|x r']; [discriminate|].
      destruct (negb (is_nil sp) && (x =? 59)%N); [|discriminate].
      destruct (take_comment (x :: r')) as [[y|]|] eqn:Ec; try discriminate. injection E as <-.
      apply (suffix_no_eol _ (x :: r')); [exact (take_comment_spec _ _ Ec)|].
      exact (suffix_no_eol _ _ (span_suffix _ _ _ _ Es) Hl).
    + discriminate.
    + injection H as <- <-. split; [reflexivity|]. cbn [forallb]. rewrite Hl, Hls'. reflexivity.
Qed.

(* ------------------------------------------------------------------ posting lines *)
Definition closing_wf (cl : option (ptype * dec * list N)) : bool :=
  match cl with Some (_, v, c) => fits v && ident_ok c | None => true end.
Definition unit_wf (u : option raw_unit) : bool :=
  match u with Some ru => ident_ok (u_comm ru) && closing_wf (u_closing ru) | None => true end.
Definition rawpost_wf (rp : raw_post) : bool :=
  name_ok (rp_acc rp) && acct_sem_ok (rp_acc rp) && fits (rp_amount rp) && unit_wf (rp_unit rp)
  && unit_sem_ok (rp_unit rp).
Definition ocomment_ok (c : option (list N)) : bool := opt_ok no_eol c.

Lemma take_closing_spec s cl r : take_closing s = Some (cl, r) -> closing_wf cl = true /\ suffix r s.
Proof.
  unfold take_closing. destruct (span is_sp s) as [sp r0] eqn:E0.
  destruct r0 as [|c r1]; [intro H; injection H as <- <-; split; [reflexivity|apply suffix_refl]|].
  destruct (negb (is_nil sp) && ((c =? 64)%N || (c =? 61)%N)); [|intro H; injection H as <- <-; split; [reflexivity|apply suffix_refl]].
  destruct (span is_sp r1) as [sp1 r2] eqn:E1. destruct (is_nil sp1); [discriminate|].
  destruct (take_number r2) as [[v r3]|] eqn:E2; [|discriminate].
  destruct (span is_sp r3) as [sp2 r4] eqn:E3. destruct (is_nil sp2); [discriminate|].
  destruct (take_ident r4) as [[cm r5]|] eqn:E4; [|discriminate].
  intro H. injection H as <- <-.
  destruct (take_number_spec _ _ _ E2) as [Fv S2]. destruct (take_ident_spec _ _ _ E4) as [Ic S4].
  split; [cbn [closing_wf]; rewrite Fv, Ic; reflexivity|].
  eapply suffix_trans; [exact S4|]. eapply suffix_trans; [exact (span_suffix _ _ _ _ E3)|].
  eapply suffix_trans; [exact S2|]. eapply suffix_trans; [exact (span_suffix _ _ _ _ E1)|].
  eapply suffix_trans; [apply suffix_cons|exact (span_suffix _ _ _ _ E0)].
Qed.

Lemma take_opening_spec s op r : take_opening s = Some (op, r) -> suffix r s.
Proof.
  unfold take_opening. destruct (span is_sp s) as [sp r0] eqn:E0.
  destruct r0 as [|c r1]; [intro H; injection H as <- <-; apply suffix_refl|].
  destruct (negb (is_nil sp) && (c =? 123)%N); [|intro H; injection H as <- <-; apply suffix_refl].
  destruct (take_number (snd (span is_sp r1))) as [[v r2]|] eqn:E1; [|discriminate].
  destruct (span is_sp r2) as [sp2 r3] eqn:E2. destruct (is_nil sp2); [discriminate|].
  destruct (take_ident r3) as [[cm r4]|] eqn:E3; [|discriminate].
  destruct (take_char 125 (snd (span is_sp r4))) as [r5|] eqn:E4; [|discriminate].
  intro H. injection H as <- <-.
  destruct (take_number_spec _ _ _ E1) as [_ S1]. destruct (take_ident_spec _ _ _ E3) as [_ S3].
  eapply suffix_trans; [exact (take_char_suffix _ _ _ E4)|]. eapply suffix_trans; [apply snd_span_suffix|].
  eapply suffix_trans; [exact S3|]. eapply suffix_trans; [exact (span_suffix _ _ _ _ E2)|].
  eapply suffix_trans; [exact S1|]. eapply suffix_trans; [apply snd_span_suffix|].
  eapply suffix_trans; [apply suffix_cons|exact (span_suffix _ _ _ _ E0)].
Qed.

Lemma take_value_spec s amt u r : take_value s = Some (amt, u, r) ->
  fits amt = true /\ unit_wf u = true /\ suffix r s.
Proof.
  unfold take_value. destruct (take_number s) as [[a r0]|] eqn:E0; [|discriminate].
  destruct (take_number_spec _ _ _ E0) as [Fa S0].
  destruct (span is_sp r0) as [sp r1] eqn:E1.
  destruct (if is_nil sp then None else take_ident r1) as [[cm r2]|] eqn:E2.
  - destruct (is_nil sp); [discriminate|]. destruct (take_ident_spec _ _ _ E2) as [Ic S2].
    destruct (take_opening r2) as [[op r3]|] eqn:E3; [|discriminate].
    destruct (take_closing r3) as [[cl r4]|] eqn:E4; [|discriminate].
    intro H. injection H as <- <- <-. destruct (take_closing_spec _ _ _ E4) as [Wc S4].
    repeat split; [exact Fa|cbn [unit_wf u_comm u_closing]; rewrite Ic, Wc; reflexivity|].
    eapply suffix_trans; [exact S4|]. eapply suffix_trans; [exact (take_opening_spec _ _ _ E3)|].
    eapply suffix_trans; [exact S2|]. eapply suffix_trans; [exact (span_suffix _ _ _ _ E1)|exact S0].
  - intro H. injection H as <- <- <-. repeat split; [exact Fa|exact S0].
Qed.

Definition pline_wf (pl : pline) : bool :=
  match pl with
  | PL_post rp c => rawpost_wf rp && ocomment_ok c
  | PL_last a c => name_ok a && acct_sem_ok a && ocomment_ok c
  end.

Lemma take_comment_ok s oc : no_eol s = true -> take_comment s = Some oc -> ocomment_ok oc = true.
Proof.
  intros Hs H. destruct oc as [c|]; [|reflexivity]. cbn. exact (suffix_no_eol _ _ (take_comment_spec _ _ H) Hs).
Qed.

Lemma parse_posting_line_spec l pl : no_eol l = true -> parse_posting_line l = Some pl -> pline_wf pl = true.
Proof.
  intro Hl. unfold parse_posting_line. destruct (span is_sp l) as [sp r] eqn:E0. destruct (is_nil sp); [discriminate|].
  pose proof (suffix_no_eol _ _ (span_suffix _ _ _ _ E0) Hl) as Hr.
  destruct (take_name r) as [[acc r1]|] eqn:E1; [|discriminate].
  destruct (take_name_spec _ _ _ E1) as [Hn S1]. pose proof (suffix_no_eol _ _ S1 Hr) as Hr1.
  destruct (acct_sem_ok acc) eqn:Es; [|discriminate]. cbn [negb].
  destruct (span is_sp r1) as [sp1 r2] eqn:E2. pose proof (suffix_no_eol _ _ (span_suffix _ _ _ _ E2) Hr1) as Hr2.
  destruct r2 as [|c r2']; [intro H; injection H as <-; cbn [pline_wf ocomment_ok opt_ok]; rewrite Hn, Es; reflexivity|].
  destruct (c =? 59)%N.
  - destruct (take_comment (c :: r2')) as [cm|] eqn:E3; [|discriminate]. intro H. injection H as <-.
    cbn [pline_wf]. rewrite Hn, Es, (take_comment_ok _ _ Hr2 E3). reflexivity.
  - destruct (is_nil sp1); [discriminate|].
    destruct (take_value (c :: r2')) as [[[amt u] r3]|] eqn:E3; [|discriminate].
    destruct (take_value_spec _ _ _ _ E3) as (Fa & Wu & S3).
    destruct (unit_sem_ok u) eqn:Eus; [|discriminate]. cbn [negb].
    destruct (take_comment (snd (span is_sp r3))) as [cm|] eqn:E4; [|discriminate]. intro H. injection H as <-.
    cbn [pline_wf]. unfold rawpost_wf. cbn [rp_acc rp_amount rp_unit]. rewrite Hn, Es, Fa, Wu, Eus. cbn [andb].
    apply (take_comment_ok _ _ (suffix_no_eol _ _ (snd_span_suffix _ _) (suffix_no_eol _ _ S3 Hr2)) E4).
Qed.

Definition rawpc_wf (x : raw_post * option (list N)) : bool := rawpost_wf (fst x) && ocomment_ok (snd x).
Definition last_wf (la : option (list (list N) * option (list N))) : bool :=
  match la with Some (a, c) => name_ok a && acct_sem_ok a && ocomment_ok c | None => true end.

Lemma parse_postings_spec ls : forall ps la, forallb no_eol ls = true -> parse_postings ls = Some (ps, la) ->
  forallb rawpc_wf ps = true /\ last_wf la = true.
Proof.
  induction ls as [|l ls IH]; intros ps la Hls H; cbn [parse_postings] in H.
  - injection H as <- <-. split; reflexivity.
  - cbn [forallb] in Hls. apply andb_true_iff in Hls as [Hl Hls'].
    destruct (parse_posting_line l) as [pl|] eqn:E; [|discriminate].
    pose proof (parse_posting_line_spec _ _ Hl E) as Hpl. destruct pl as [rp c|a c]; cbn [pline_wf] in Hpl.
    + destruct (parse_postings ls) as [[ps0 la0]|] eqn:E2; [|discriminate]. injection H as <- <-.
      destruct (IH _ _ Hls' eq_refl) as [A B]. split; [|exact B]. cbn [forallb]. unfold rawpc_wf at 1. cbn [fst snd].
      rewrite Hpl, A. reflexivity.
    + destruct (is_nil ls); [|discriminate]. injection H as <- <-. split; [reflexivity|exact Hpl].
Qed.

(* ------------------------------------------------------------------ the transaction *)
Definition ptxn_wf (pt : ptxn) : bool :=
  header_wf (pt_hdr pt) && forallb rawpc_wf (pt_posts pt) && negb (is_nil (pt_posts pt)) && last_wf (pt_last pt).

Theorem parse_chunk_spec cfg ls pt : cfg_ok cfg = true -> forallb no_eol ls = true ->
  parse_chunk cfg ls = Some pt -> ptxn_wf pt = true.
Proof.
  intros Hcfg Hls. unfold parse_chunk. destruct ls as [|hl body]; [discriminate|].
  cbn [forallb] in Hls. apply andb_true_iff in Hls as [Hhl Hbody].
  destruct (parse_ts cfg hl) as [[[inst off] r]|] eqn:E1; [|discriminate].
  destruct (parse_ts_spec _ _ _ _ _ Hcfg E1) as [Hts Sr].
  destruct (parse_header_rest r) as [[code desc]|] eqn:E2; [|discriminate].
  destruct (parse_header_rest_spec _ _ _ (suffix_no_eol _ _ Sr Hhl) E2) as [Hc Hd].
  destruct (parse_meta body None None None) as [[[[u g] t] body1]|] eqn:E3; [|discriminate].
  destruct (parse_meta_spec body None None None u g t body1 eq_refl eq_refl eq_refl E3) as (Hu & Hg & Ht & pre & Eb).
  assert (Hb1 : forallb no_eol body1 = true).
  { rewrite Eb, forallb_app in Hbody. apply andb_true_iff in Hbody as [_ H]. exact H. }
  destruct (parse_comments body1) as [[cs body2]|] eqn:E4; [|discriminate].
  destruct (parse_comments_spec _ _ _ Hb1 E4) as [Hcs Hb2].
  destruct (parse_postings body2) as [[ps la]|] eqn:E5; [|discriminate].
  destruct (parse_postings_spec _ _ _ Hb2 E5) as [Hps Hla].
  destruct (is_nil ps) eqn:En; [discriminate|]. intro H. injection H as <-.
  unfold ptxn_wf. cbn [pt_hdr pt_posts pt_last]. rewrite Hps, En, Hla. cbn [negb andb]. rewrite !andb_true_r.
  unfold header_wf. cbn [h_inst h_off h_code h_desc h_uuid h_loc h_tags h_comments].
  rewrite Hts, Hc, Hd, Hcs. cbn [andb]. rewrite !andb_true_r.
  unfold opt_ok in Hu, Hg, Ht. rewrite Hu, Hg. cbn [andb].
  destruct t as [t0|]; [|reflexivity]. unfold tags_wf in Ht. exact Ht.
Qed.
