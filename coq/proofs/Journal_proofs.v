(* Journal_proofs.v — C06 stage 4: whole transaction, whole journal, the round trip and the fixed point. *)
From TkModel Require Import Base Dec Acct Txn Accept Journal.
From TkSpec Require Import Journal_spec.
From TkProofs Require Import Journal_base_proofs Journal_time_proofs Journal_line_proofs Journal_header_proofs.
Local Open Scope Z_scope.

Definition posting_line (jp : jpost) : list N := indent ++ print_posting jp.

Lemma txn_lines_eq t :
  txn_lines t = (print_ts (h_inst (jt_hdr t)) (h_off (jt_hdr t)) ++ code_part (jt_hdr t) ++ desc_part (jt_hdr t))
                :: meta_lines (jt_hdr t) ++ map comment_line (h_comments (jt_hdr t)) ++ map posting_line (jt_posts t).
Proof. unfold txn_lines. rewrite header_lines_eq. cbn [app]. rewrite <- app_assoc. reflexivity. Qed.

(* ------------------------------------------------------------------ postings of a transaction *)
Lemma jpost_wf_name jp : jpost_wf jp = true -> name_ok (p_acc (jp_p jp)) = true.
Proof.
  unfold jpost_wf, posting_shape_b. intro H. repeat (apply andb_true_iff in H; destruct H as [H ?]). exact H.
Qed.

Lemma parse_postings_lines ps : forallb jpost_wf ps = true ->
  parse_postings (map posting_line ps) = Some (map (fun jp => (jpost_raw jp, jp_comment jp)) ps, None).
Proof.
  induction ps as [|jp ps IH]; [reflexivity|]. cbn [forallb]. intro H. apply andb_true_iff in H as [Hj Hps].
  cbn [map parse_postings]. unfold posting_line at 1. rewrite (posting_line_roundtrip jp Hj). rewrite (IH Hps). reflexivity.
Qed.

Lemma posting_line_not_meta jp : jpost_wf jp = true -> parse_meta_line (posting_line jp) = None.
Proof.
  intro H. destruct (print_posting_head jp (jpost_wf_name jp H)) as (c & r & E & Hc).
  unfold posting_line. rewrite E. apply parse_meta_line_name, Hc.
Qed.
Lemma posting_line_not_comment jp : jpost_wf jp = true -> parse_comment_line (posting_line jp) = None.
Proof.
  intro H. destruct (print_posting_head jp (jpost_wf_name jp H)) as (c & r & E & Hc).
  unfold posting_line. rewrite E. apply parse_comment_line_name, Hc.
Qed.

Lemma jtxn_wf_inv t : jtxn_wf t = true ->
  header_wf (jt_hdr t) = true /\ jt_posts t <> [] /\ forallb jpost_wf (jt_posts t) = true
  /\ Nat.leb (length (distinct_strs (map (fun jp => p_txn_comm (jp_p jp)) (jt_posts t)))) 1 = true
  /\ is_zero (txn_sum (map jp_p (jt_posts t))) = true.
Proof.
  unfold jtxn_wf. intro H. apply andb_true_iff in H as [H Hz]. apply andb_true_iff in H as [H Hd].
  apply andb_true_iff in H as [H Hps]. apply andb_true_iff in H as [Hh Hne].
  repeat split; try assumption. intro E. rewrite E in Hne. discriminate.
Qed.

Lemma header_wf_inv h : header_wf h = true ->
  ts_ok (h_inst h) (h_off h) = true
  /\ match h_code h with Some c => code_ok c | None => true end = true
  /\ match h_desc h with Some d => desc_ok d | None => true end = true
  /\ match h_uuid h with Some u => uuid_ok u | None => true end = true
  /\ match h_loc h with Some g => geo_wf g | None => true end = true
  /\ forallb tag_ok (h_tags h) = true
  /\ forallb no_eol (h_comments h) = true.
Proof.
  unfold header_wf. intro H.
  apply andb_true_iff in H as [H H8]. apply andb_true_iff in H as [H H7]. apply andb_true_iff in H as [H H6].
  apply andb_true_iff in H as [H H5]. apply andb_true_iff in H as [H H4]. apply andb_true_iff in H as [H H3].
  apply andb_true_iff in H as [H1 H2].
  split; [exact H1|]. split; [exact H2|]. split; [exact H3|]. split; [exact H4|]. split; [exact H5|].
  split; [exact H6|exact H8].
Qed.

(* STAGE 4a: the printed lines of a transaction parse back to its syntax *)
Theorem chunk_roundtrip cfg t : jtxn_wf t = true -> parse_chunk cfg (txn_lines t) = Some (jtxn_ptxn t).
Proof.
  intro Hwf. destruct (jtxn_wf_inv t Hwf) as (Hh & Hne & Hps & _ & _).
  destruct (header_wf_inv _ Hh) as (Hts & Hcode & Hdesc & _).
  rewrite txn_lines_eq. unfold parse_chunk.
  rewrite (ts_roundtrip cfg _ _ _ Hts).
  rewrite (header_rest_roundtrip _ Hcode Hdesc).
  destruct (jt_posts t) as [|jp ps] eqn:Eps; [congruence|].
  cbn [forallb] in Hps. apply andb_true_iff in Hps as [Hjp Hps'].
  rewrite (parse_meta_block (jt_hdr t) _ Hh).
  2:{ destruct (h_comments (jt_hdr t)) as [|c cs]; cbn [map app].
      - apply posting_line_not_meta, Hjp.
      - apply parse_meta_line_comment. }
  rewrite (parse_comments_block (h_comments (jt_hdr t)) (map posting_line (jp :: ps))).
  2:{ cbn [map]. apply posting_line_not_comment, Hjp. }
  rewrite (parse_postings_lines (jp :: ps)) by (cbn [forallb]; rewrite Hjp, Hps'; reflexivity).
  cbn [map is_nil]. unfold jtxn_ptxn. rewrite Eps. cbn [map]. f_equal. f_equal.
  destruct (jt_hdr t) as [i o c d u g tags cs]. cbn. f_equal. destruct tags; reflexivity.
Qed.

(* ------------------------------------------------------------------ the semantic layer accepts what it produced *)
Lemma str_eqb_false_sym a b : str_eqb a b = false -> str_eqb b a = false.
Proof.
  intro H. destruct (str_eqb b a) eqn:E; [|reflexivity]. apply str_eqb_true in E. subst. rewrite str_eqb_same in H. discriminate.
Qed.

Lemma posting_eta p : mkPosting (p_acc p) (p_comm p) (p_amount p) (p_txn_amount p) (p_total p) (p_txn_comm p) = p.
Proof. destruct p; reflexivity. Qed.

Lemma accept_posting_raw jp : jpost_wf jp = true -> accept_posting (jpost_raw jp) = Ok (jp_p jp).
Proof.
  intro Hwf. unfold jpost_wf in Hwf. apply andb_true_iff in Hwf as [Hwf _].
  unfold accept_posting, jpost_raw. cbn [rp_amount rp_unit rp_acc].
  remember (jp_p jp) as p eqn:Heqp. clear Heqp.
  apply andb_true_iff in Hwf as [Hshape Hprice].
  unfold posting_shape_b in Hshape. repeat (apply andb_true_iff in Hshape; destruct Hshape as [Hshape ?]).
  rename H into Hcomm. rename H0 into Hnz. apply negb_true_iff in Hnz.
  unfold posting_price_b in Hprice.
  destruct (str_eqb (p_txn_comm p) (p_comm p)) eqn:Eeq.
  - apply andb_true_iff in Hprice as [Htot Hta]. apply negb_true_iff in Htot. apply drepr_eqb_true in Hta.
    apply str_eqb_true in Eeq. rewrite orb_true_r.
    destruct (is_nil (p_comm p)) eqn:Enil.
    + destruct (p_comm p) eqn:Ec; [|discriminate].
      cbn [value_position res_bind]. unfold mk_posting. rewrite Hnz.
      destruct p; cbn in *; subst; reflexivity.
    + cbn [value_position u_comm u_opening u_closing res_bind]. unfold mk_posting. rewrite Hnz.
      destruct p; cbn in *; subst; reflexivity.
  - apply andb_true_iff in Hprice as [Hprice Hkind]. apply andb_true_iff in Hprice as [Hprice Hfta].
    apply andb_true_iff in Hprice as [Hc1 Hc2].
    apply comm_ok_inv in Hc1 as [Hc1 _]. apply comm_ok_inv in Hc2 as [Hc2 _].
    destruct (ident_ok_inv _ Hc1) as (a0 & ar & Ea & _ & _).
    destruct (ident_ok_inv _ Hc2) as (b0 & br & Eb & _ & _).
    assert (Hn1 : is_nil (p_comm p) = false) by (rewrite Ea; reflexivity).
    assert (Hn2 : is_nil (p_txn_comm p) = false) by (rewrite Eb; reflexivity).
    rewrite Hn1, Hn2. cbn [orb].
    pose proof (str_eqb_false_sym _ _ Eeq) as Eeq'.
    destruct (p_total p) eqn:Etot.
    + cbn [value_position u_comm u_opening u_closing]. rewrite Eeq'. cbn [res_bind].
      apply negb_true_iff in Hkind. rewrite Hkind. unfold mk_posting. rewrite Hnz.
      destruct p; cbn in *; subst; reflexivity.
    + unfold unit_priced_b in Hkind. destruct (ddiv (p_txn_amount p) (p_amount p)) as [q|] eqn:Ediv; [|discriminate].
      apply andb_true_iff in Hkind as [Hkind Hmul]. apply andb_true_iff in Hkind as [Hq0 _].
      apply drepr_eqb_true in Hmul. apply Z.leb_le in Hq0.
      cbn [value_position u_comm u_opening u_closing]. rewrite Eeq'. cbn [res_bind].
      assert (Hneg : is_neg q = false) by (unfold is_neg; apply Z.ltb_ge; exact Hq0).
      rewrite Hneg. unfold mk_posting. rewrite Hnz, Hmul.
      destruct p; cbn in *; subst; reflexivity.
Qed.

Lemma mapM_accept_postings ps : forallb jpost_wf ps = true ->
  mapM accept_posting (map jpost_raw ps) = Ok (map jp_p ps).
Proof.
  induction ps as [|jp ps IH]; [reflexivity|]. cbn [forallb]. intro H. apply andb_true_iff in H as [Hj Hps].
  cbn [map mapM]. rewrite (accept_posting_raw jp Hj), (IH Hps). reflexivity.
Qed.

Lemma recombine ps :
  map (fun pc => mkJPost (fst pc) (snd pc)) (combine (map jp_p ps) (map jp_comment ps)) = ps.
Proof. induction ps as [|[p c] ps IH]; [reflexivity|]. cbn [map combine fst snd]. rewrite IH. reflexivity. Qed.

Theorem accept_roundtrip t : jtxn_wf t = true -> accept_ptxn (jtxn_ptxn t) = Ok t.
Proof.
  intro Hwf. destruct (jtxn_wf_inv t Hwf) as (_ & Hne & Hps & Hdist & Hzero).
  unfold accept_ptxn, jtxn_ptxn, ptxn_raw, ptxn_comments. cbn [pt_posts pt_last pt_hdr option_map].
  rewrite !map_map. cbn [fst snd]. rewrite app_nil_r.
  unfold accept_txn. cbn [rt_posts rt_last].
  destruct (jt_posts t) as [|jp ps] eqn:Eps; [congruence|].
  change (map (fun x : jpost => jpost_raw x) (jp :: ps)) with (map jpost_raw (jp :: ps)).
  cbn [map]. change (jpost_raw jp :: map jpost_raw ps) with (map jpost_raw (jp :: ps)).
  rewrite (mapM_accept_postings (jp :: ps) Hps). cbn [res_bind].
  assert (Hd : Nat.ltb 1 (length (distinct_strs (map p_txn_comm (map jp_p (jp :: ps))))) = false).
  { rewrite map_map. apply Nat.ltb_ge. apply Nat.leb_le in Hdist. exact Hdist. }
  rewrite Hd, Hzero.
  cbn [res_bind].
  change (jp_comment jp :: map (fun x : jpost => jp_comment x) ps) with (map jp_comment (jp :: ps)).
  rewrite recombine. destruct t; cbn in *. subst. reflexivity.
Qed.

(* ------------------------------------------------------------------ lines of the whole journal *)
Definition journal_lines (ts : list jtxn) : list (list N) := flat_map (fun t => txn_lines t ++ [[]]) ts.

Lemma unlines_app a b : unlines (a ++ b) = unlines a ++ unlines b.
Proof. unfold unlines. rewrite map_app, concat_app. reflexivity. Qed.

Lemma print_journal_lines ts : print_journal ts = unlines (journal_lines ts).
Proof.
  unfold print_journal, journal_lines. induction ts as [|t ts IH]; [reflexivity|].
  cbn [map concat flat_map]. rewrite IH, !unlines_app. unfold print_txn. reflexivity.
Qed.

Definition no_nl (l : list N) : bool := forallb (fun c => negb (c =? 10)%N) l.

Lemma split_lines_line l s : no_nl l = true ->
  split_lines (l ++ 10%N :: s) = let '(ls, tl) := split_lines s in (l :: ls, tl).
Proof.
  induction l as [|c l IH]; cbn [app forallb no_nl]; intro H.
  - cbn [split_lines]. change (10 =? 10)%N with true. destruct (split_lines s). reflexivity.
  - apply andb_true_iff in H as [Hc Hl]. apply negb_true_iff in Hc.
    cbn [split_lines]. rewrite (IH Hl). destruct (split_lines s) as [ls tl]. rewrite Hc. reflexivity.
Qed.

Lemma split_lines_unlines ls : forallb no_nl ls = true -> split_lines (unlines ls) = (ls, []).
Proof.
  induction ls as [|l ls IH]; [reflexivity|]. cbn [forallb]. intro H. apply andb_true_iff in H as [Hl Hls].
  unfold unlines. cbn [map concat]. rewrite <- app_assoc. cbn [app].
  rewrite (split_lines_line l _ Hl). fold (unlines ls). rewrite (IH Hls). reflexivity.
Qed.

Lemma no_eol_no_nl l : no_eol l = true -> no_nl l = true.
Proof.
  apply forallb_impl. intros c H. apply negb_true_iff in H. apply orb_false_iff in H as [H _]. rewrite H. reflexivity.
Qed.
Lemma no_eol_no_cr l : no_eol l = true -> existsb (fun c => (c =? 13)%N) l = false.
Proof.
  induction l as [|c l IH]; [reflexivity|]. cbn [no_eol forallb existsb]. intro H.
  apply andb_true_iff in H as [Hc Hl]. apply negb_true_iff in Hc. apply orb_false_iff in Hc as [_ Hc].
  rewrite Hc. exact (IH Hl).
Qed.
Lemma strip_cr_id l : no_eol l = true -> strip_cr l = l.
Proof.
  intro H. unfold strip_cr. destruct (rev l) as [|c r] eqn:E; [reflexivity|].
  assert (Hin : In c l) by (apply in_rev; rewrite E; left; reflexivity).
  unfold no_eol in H. rewrite forallb_forall in H. specialize (H c Hin).
  apply negb_true_iff in H. apply orb_false_iff in H as [_ H]. rewrite H. reflexivity.
Qed.

Lemma chunk_lines_txn ls R : forallb (fun l => negb (is_blank l)) ls = true ->
  chunk_lines (ls ++ [] :: R) = ls :: chunk_lines R.
Proof.
  induction ls as [|l ls IH]; cbn [app forallb]; intro H.
  - reflexivity.
  - apply andb_true_iff in H as [Hl Hls]. apply negb_true_iff in Hl.
    cbn [chunk_lines]. rewrite (IH Hls), Hl. reflexivity.
Qed.

Lemma chunks_journal (ts : list jtxn) :
  (forall t, In t ts -> forallb (fun l => negb (is_blank l)) (txn_lines t) = true /\ txn_lines t <> []) ->
  chunks (journal_lines ts) = map txn_lines ts.
Proof.
  unfold chunks. intro H.
  assert (Hc : chunk_lines (journal_lines ts) = map txn_lines ts ++ [[]]).
  { induction ts as [|t ts IH]; [reflexivity|]. unfold journal_lines. cbn [flat_map map app].
    rewrite <- app_assoc. cbn [app]. rewrite chunk_lines_txn by (apply H; left; reflexivity).
    fold (journal_lines ts). rewrite IH by (intros t' Ht'; apply H; right; exact Ht'). reflexivity. }
  rewrite Hc, filter_app. cbn [filter is_nil negb]. rewrite app_nil_r. clear Hc.
  induction ts as [|t ts IH]; [reflexivity|]. cbn [map filter].
  destruct (H t (or_introl eq_refl)) as [_ Hne]. destruct (txn_lines t) as [|l0 ls0] eqn:E; [congruence|]. cbn [is_nil negb].
  f_equal. apply IH. intros t' Ht'. apply H. right. exact Ht'.
Qed.

(* ------------------------------------------------------------------ line hygiene of printed transactions *)
Lemma no_eol_cons c l : no_eol (c :: l) = negb ((c =? 10)%N || (c =? 13)%N) && no_eol l.
Proof. reflexivity. Qed.

Lemma price_part_no_eol p : posting_price_b p = true -> no_eol (price_part p) = true.
Proof.
  unfold posting_price_b, price_part. destruct (is_nil (p_txn_comm p)); [reflexivity|].
  destruct (str_eqb _ _); [reflexivity|]. intro H.
  apply andb_true_iff in H as [H _]. apply andb_true_iff in H as [H _]. apply andb_true_iff in H as [_ Hc2].
  apply comm_ok_inv in Hc2 as [Hc2 _].
  pose proof (ident_no_eol _ Hc2) as Htc.
  destruct (p_total p).
  - cbn [app]. rewrite !no_eol_cons, no_eol_app, no_eol_cons, print_dec_no_eol, Htc. reflexivity.
  - cbn [app]. rewrite !no_eol_cons, no_eol_app, no_eol_cons, Htc.
    destruct (ddiv _ _); [rewrite print_dec_no_eol|]; reflexivity.
Qed.

Lemma posting_line_hygiene jp : jpost_wf jp = true ->
  no_eol (posting_line jp) = true /\ is_blank (posting_line jp) = false.
Proof.
  intro Hwf. pose proof (jpost_wf_name jp Hwf) as Hname.
  split.
  - unfold jpost_wf in Hwf. apply andb_true_iff in Hwf as [Hwf Hcm].
    apply andb_true_iff in Hwf as [Hshape Hprice].
    unfold posting_shape_b in Hshape. apply andb_true_iff in Hshape as [_ Hcomm].
    unfold posting_line. rewrite print_posting_eq. repeat rewrite no_eol_app.
    rewrite (join_colon_no_eol _ Hname), print_dec_no_eol, (price_part_no_eol _ Hprice).
    assert (Hc : no_eol (if is_nil (p_comm (jp_p jp)) then [] else 32%N :: p_comm (jp_p jp)) = true).
    { destruct (is_nil (p_comm (jp_p jp))) eqn:En; [reflexivity|]. cbn [orb] in Hcomm.
      apply comm_ok_inv in Hcomm as [Hcomm _].
      rewrite no_eol_cons, (ident_no_eol _ Hcomm). reflexivity. }
    rewrite Hc.
    assert (Hcp : no_eol (cpart (jp_comment jp)) = true).
    { unfold cpart. destruct (jp_comment jp); [|reflexivity]. cbn [app]. rewrite !no_eol_cons, Hcm. reflexivity. }
    rewrite Hcp. destruct (is_neg _); reflexivity.
  - destruct (print_posting_head jp Hname) as (c & r & E & Hc). unfold posting_line. rewrite E.
    unfold is_blank. rewrite forallb_app. cbn [forallb]. rewrite (id_char_not_sp _ (id_start_char _ Hc)).
    rewrite andb_false_r. reflexivity.
Qed.

Lemma join_sep_tags_no_eol ts : forallb tag_ok ts = true -> no_eol (join_sep [44; 32]%N ts) = true.
Proof.
  induction ts as [|t ts IH]; [reflexivity|]. cbn [forallb]. intro H. apply andb_true_iff in H as [Ht Hts].
  assert (Hte : no_eol t = true).
  { destruct (tag_ok_chars t Ht) as (Hch & _). revert Hch. apply forallb_impl. intros c Hc.
    apply orb_true_iff in Hc as [Hc|Hc]; [apply id_char_no_eol, Hc|]. apply N.eqb_eq in Hc. subst. reflexivity. }
  destruct ts as [|t2 ts']; [exact Hte|].
  change (join_sep [44; 32]%N (t :: t2 :: ts')) with (t ++ 44%N :: 32%N :: join_sep [44; 32]%N (t2 :: ts')).
  rewrite no_eol_app, Hte, !no_eol_cons, (IH Hts). reflexivity.
Qed.

Lemma print_geo_no_eol g : no_eol (print_geo g) = true.
Proof.
  unfold print_geo. cbn [kw_geo app]. rewrite !no_eol_cons, no_eol_app, print_dec_no_eol, no_eol_cons, no_eol_app, print_dec_no_eol.
  destruct (g_alt g); [rewrite no_eol_cons, print_dec_no_eol|]; reflexivity.
Qed.

Lemma header_lines_hygiene h : header_wf h = true ->
  forallb no_eol (header_lines h) = true /\ forallb (fun l => negb (is_blank l)) (header_lines h) = true.
Proof.
  intro Hwf. destruct (header_wf_inv h Hwf) as (_ & Hcode & Hdesc & Hu & Hg & Ht & Hcs).
  rewrite header_lines_eq. cbn [forallb]. rewrite !forallb_app.
  assert (H1 : no_eol (print_ts (h_inst h) (h_off h) ++ code_part h ++ desc_part h) = true).
  { rewrite !no_eol_app, print_ts_no_eol. unfold code_part, desc_part.
    destruct (h_code h) as [c|]; destruct (h_desc h) as [d|]; cbn [app andb];
      try (destruct (code_ok_inv c Hcode) as [Hcc _]);
      try (destruct (desc_ok_inv d Hdesc) as [Hd _]);
      rewrite ?no_eol_cons, ?no_eol_app, ?no_eol_cons, ?Hd; try reflexivity;
      assert (Hce : no_eol c = true) by (revert Hcc; apply forallb_impl; intros x Hx; apply code_char_no_eol, Hx);
      rewrite Hce; reflexivity. }
  assert (H1b : is_blank (print_ts (h_inst h) (h_off h) ++ code_part h ++ desc_part h) = false).
  { destruct (print_ts_head (h_inst h) (h_off h)) as (c & r & E & Hc). rewrite E. cbn [app is_blank forallb].
    assert (Hs : is_sp c = false) by (unfold is_sp; char_cases Hc; reflexivity). rewrite Hs. reflexivity. }
  rewrite H1, H1b. cbn [negb andb].
  assert (H2 : forallb no_eol (meta_lines h) = true /\ forallb (fun l => negb (is_blank l)) (meta_lines h) = true).
  { unfold meta_lines. rewrite !forallb_app.
    destruct (h_uuid h) as [u|]; destruct (h_loc h) as [g|]; destruct (h_tags h) as [|t ts] eqn:Et; cbn [forallb andb];
      unfold uuid_line, loc_line, tags_line; cbn [indent kw_uuid kw_location kw_tags app];
      rewrite ?no_eol_cons, ?(uuid_no_eol _ Hu), ?print_geo_no_eol, ?(join_sep_tags_no_eol _ Ht);
      split; reflexivity. }
  destruct H2 as [H2 H2b]. rewrite H2, H2b. cbn [andb].
  split.
  - induction (h_comments h) as [|c cs IH]; [reflexivity|]. cbn [forallb map] in *.
    apply andb_true_iff in Hcs as [Hc Hcs]. unfold comment_line at 1. cbn [indent app].
    rewrite !no_eol_cons, Hc. cbn [andb]. apply IH, Hcs.
  - induction (h_comments h) as [|c cs IH]; [reflexivity|]. cbn [forallb map] in *.
    apply andb_true_iff in Hcs as [Hc Hcs]. rewrite (IH Hcs). reflexivity.
Qed.

Lemma txn_lines_hygiene t : jtxn_wf t = true ->
  forallb no_eol (txn_lines t) = true /\ forallb (fun l => negb (is_blank l)) (txn_lines t) = true /\ txn_lines t <> [].
Proof.
  intro Hwf. destruct (jtxn_wf_inv t Hwf) as (Hh & _ & Hps & _).
  destruct (header_lines_hygiene _ Hh) as [A B].
  unfold txn_lines. rewrite !forallb_app, A, B. cbn [andb].
  assert (Hp : forallb no_eol (map (fun p => indent ++ print_posting p) (jt_posts t)) = true
               /\ forallb (fun l => negb (is_blank l)) (map (fun p => indent ++ print_posting p) (jt_posts t)) = true).
  { induction (jt_posts t) as [|jp ps IH]; [split; reflexivity|]. cbn [forallb map] in *.
    apply andb_true_iff in Hps as [Hj Hps]. destruct (posting_line_hygiene jp Hj) as [P1 P2].
    unfold posting_line in P1, P2. rewrite P1, P2. destruct (IH Hps) as [I1 I2]. rewrite I1, I2. split; reflexivity. }
  destruct Hp as [P1 P2]. rewrite P1, P2. repeat split.
  rewrite header_lines_eq. discriminate.
Qed.

(* ------------------------------------------------------------------ the journal *)
Lemma mapO_map {A B C} (f : B -> option C) (g : A -> B) (h : A -> C) l :
  (forall x, In x l -> f (g x) = Some (h x)) -> mapO f (map g l) = Some (map h l).
Proof.
  induction l as [|x l IH]; [reflexivity|]. intro H. cbn [map mapO].
  rewrite (H x (or_introl eq_refl)), IH by (intros y Hy; apply H; right; exact Hy). reflexivity.
Qed.
Lemma mapM_map {A B} (f : B -> res A) (g : A -> B) l :
  (forall x, In x l -> f (g x) = Ok x) -> mapM f (map g l) = Ok l.
Proof.
  induction l as [|x l IH]; [reflexivity|]. intro H. cbn [map mapM].
  rewrite (H x (or_introl eq_refl)), IH by (intros y Hy; apply H; right; exact Hy). reflexivity.
Qed.

Lemma sort_sorted_id {A} (leb : A -> A -> bool) l : sorted_b leb l = true -> sort_by leb l = l.
Proof.
  induction l as [|x l IH]; [reflexivity|]. intro H. cbn [sort_by].
  destruct l as [|y l'].
  - reflexivity.
  - cbn [sorted_b] in H. apply andb_true_iff in H as [Hxy Hl]. rewrite (IH Hl). cbn [insert_by]. rewrite Hxy. reflexivity.
Qed.

Lemma no_cr_lines ls : forallb no_eol ls = true -> existsb (existsb (fun c => (c =? 13)%N)) ls = false.
Proof.
  induction ls as [|l ls IH]; [reflexivity|]. cbn [forallb existsb]. intro H. apply andb_true_iff in H as [Hl Hls].
  rewrite (no_eol_no_cr l Hl), (IH Hls). reflexivity.
Qed.

Theorem parse_journal_roundtrip cfg ts : ts <> [] -> forallb jtxn_wf ts = true ->
  parse_journal cfg (print_journal ts) = Ok (map jtxn_ptxn ts).
Proof.
  intros Hne Hwf. rewrite forallb_forall in Hwf.
  assert (Hyg : forall t, In t ts -> forallb no_eol (txn_lines t) = true
                  /\ forallb (fun l => negb (is_blank l)) (txn_lines t) = true /\ txn_lines t <> []).
  { intros t Ht. apply txn_lines_hygiene, Hwf, Ht. }
  assert (Hall : forallb no_eol (journal_lines ts) = true).
  { unfold journal_lines. clear Hne Hwf. induction ts as [|t ts IH]; [reflexivity|]. cbn [flat_map].
    rewrite !forallb_app. destruct (Hyg t (or_introl eq_refl)) as (A & _). rewrite A. cbn [forallb no_eol andb].
    apply IH. intros t' Ht'. apply Hyg. right. exact Ht'. }
  unfold parse_journal. rewrite print_journal_lines.
  rewrite split_lines_unlines by (revert Hall; apply forallb_impl; intros l Hl; apply no_eol_no_nl, Hl).
  cbn [is_nil negb].
  assert (Hstrip : map strip_cr (journal_lines ts) = journal_lines ts).
  { rewrite forallb_forall in Hall. rewrite <- (map_id (journal_lines ts)) at 2. apply map_ext_in.
    intros l Hl. apply strip_cr_id, Hall, Hl. }
  rewrite Hstrip.
  assert (Hnocr : existsb (existsb (fun c => (c =? 13)%N)) (journal_lines ts) = false) by (apply no_cr_lines, Hall).
  rewrite Hnocr.
  rewrite chunks_journal by (intros t Ht; destruct (Hyg t Ht) as (_ & B & C); split; assumption).
  assert (Hm : mapO (parse_chunk cfg) (map txn_lines ts) = Some (map jtxn_ptxn ts)).
  { apply mapO_map. intros t Ht. apply chunk_roundtrip, Hwf, Ht. }
  destruct ts as [|t ts']; [congruence|]. cbn [map] in *. rewrite Hm. reflexivity.
Qed.

(* STAGE 4b: the identity export of well-formed transactions loads to exactly these transactions *)
Theorem load_roundtrip cfg ts : journal_wf ts = true -> load_journal cfg (print_journal ts) = Ok ts.
Proof.
  unfold journal_wf. intro H. apply andb_true_iff in H as [H Hsorted]. apply andb_true_iff in H as [Hne Hwf].
  assert (Hne' : ts <> []) by (destruct ts; [discriminate|discriminate]).
  unfold load_journal. rewrite (parse_journal_roundtrip cfg ts Hne' Hwf). cbn [res_bind].
  rewrite forallb_forall in Hwf.
  rewrite (mapM_map accept_ptxn jtxn_ptxn ts) by (intros t Ht; apply accept_roundtrip, Hwf, Ht).
  cbn [res_bind]. rewrite (sort_sorted_id _ _ Hsorted). reflexivity.
Qed.

Theorem export_fixpoint cfg ts ts' : journal_wf ts = true ->
  load_journal cfg (print_journal ts) = Ok ts' -> print_journal ts' = print_journal ts.
Proof. intros H E. rewrite (load_roundtrip cfg ts H) in E. injection E as <-. reflexivity. Qed.

(* ------------------------------------------------------------------ the property in terms of the specification *)
Lemma dsame_refl a : dsame a a.
Proof. unfold dsame. reflexivity. Qed.
Lemma jpost_same_refl jp : jpost_same jp jp.
Proof. unfold jpost_same. repeat split; apply dsame_refl. Qed.
Lemma jtxn_same_refl t : jtxn_same t t.
Proof.
  unfold jtxn_same. split; [reflexivity|]. induction (jt_posts t); constructor; [apply jpost_same_refl|assumption].
Qed.
Lemma Forall2_refl {A} (R : A -> A -> Prop) l : (forall x, R x x) -> Forall2 R l l.
Proof. intro H. induction l; constructor; auto. Qed.

(* the observation demanded by the property holds for the model of the implementation *)
Theorem export_observation cfg ts : journal_wf ts = true ->
  fixpoint_obs ts (print_journal ts)
    (match load_journal cfg (print_journal ts) with Ok d2 => Some (d2, print_journal d2) | Err _ => None end).
Proof.
  intro H. rewrite (load_roundtrip cfg ts H). exists ts, (print_journal ts).
  split; [reflexivity|]. split; [apply Forall2_refl, jtxn_same_refl|reflexivity].
Qed.

(* oracle soundness *)
Lemma deqb_dsame a b : deqb a b = true -> dsame a b.
Proof.
  unfold deqb, dcmp, dsame. destruct (Z.compare_spec (rescale a (N.max (ds a) (ds b))) (rescale b (N.max (ds a) (ds b))));
    [intros _; assumption|discriminate|discriminate].
Qed.
Lemma opt_eqb_true {A} (eqb : A -> A -> bool) (a b : option A) :
  (forall x y, eqb x y = true -> x = y) -> opt_eqb eqb a b = true -> a = b.
Proof. intros H. destruct a, b; cbn [opt_eqb]; try discriminate; [|reflexivity]. intro E. f_equal. apply H, E. Qed.
Lemma list_eqb_true {A} (eqb : A -> A -> bool) (a b : list A) :
  (forall x y, eqb x y = true -> x = y) -> list_eqb eqb a b = true -> a = b.
Proof.
  intro H. revert b. induction a as [|x a IH]; intros [|y b]; cbn [list_eqb]; try discriminate; [reflexivity|].
  intro E. apply andb_true_iff in E as [E1 E2]. f_equal; [apply H, E1|apply IH, E2].
Qed.
Lemma list_eqb_Forall2 {A} (eqb : A -> A -> bool) (R : A -> A -> Prop) (a b : list A) :
  (forall x y, eqb x y = true -> R x y) -> list_eqb eqb a b = true -> Forall2 R a b.
Proof.
  intro H. revert b. induction a as [|x a IH]; intros [|y b]; cbn [list_eqb]; try discriminate; [constructor|].
  intro E. apply andb_true_iff in E as [E1 E2]. constructor; [apply H, E1|apply IH, E2].
Qed.
Lemma geo_eqb_true a b : geo_eqb a b = true -> a = b.
Proof.
  unfold geo_eqb. intro H. apply andb_true_iff in H as [H H3]. apply andb_true_iff in H as [H1 H2].
  apply drepr_eqb_true in H1, H2. apply (opt_eqb_true _ _ _ drepr_eqb_true) in H3.
  destruct a, b; cbn in *; subst; reflexivity.
Qed.
Lemma header_eqb_true a b : header_eqb a b = true -> a = b.
Proof.
  unfold header_eqb. intro H. repeat (apply andb_true_iff in H; destruct H as [H ?]).
  apply Z.eqb_eq in H. apply Z.eqb_eq in H6.
  apply (opt_eqb_true _ _ _ str_eqb_true) in H5, H4, H3.
  apply (opt_eqb_true _ _ _ geo_eqb_true) in H2.
  apply (list_eqb_true _ _ _ str_eqb_true) in H1, H0.
  destruct a, b; cbn in *; subst; reflexivity.
Qed.
Lemma jpost_same_b_sound a b : jpost_same_b a b = true -> jpost_same a b.
Proof.
  unfold jpost_same_b, jpost_same. intro H. repeat (apply andb_true_iff in H; destruct H as [H ?]).
  repeat split.
  - apply (list_eqb_true _ _ _ str_eqb_true), H.
  - apply str_eqb_true; assumption.
  - apply deqb_dsame; assumption.
  - apply deqb_dsame; assumption.
  - apply Bool.eqb_prop; assumption.
  - apply str_eqb_true; assumption.
  - apply (opt_eqb_true _ _ _ str_eqb_true); assumption.
Qed.
Lemma jtxn_same_b_sound a b : jtxn_same_b a b = true -> jtxn_same a b.
Proof.
  unfold jtxn_same_b, jtxn_same. intro H. apply andb_true_iff in H as [H1 H2].
  split; [apply header_eqb_true, H1|]. exact (list_eqb_Forall2 _ _ _ _ jpost_same_b_sound H2).
Qed.
Theorem fixpoint_obs_b_sound d1 e1 second : fixpoint_obs_b d1 e1 second = true -> fixpoint_obs d1 e1 second.
Proof.
  unfold fixpoint_obs_b, fixpoint_obs. destruct second as [[d2 e2]|]; [|discriminate]. intro H.
  apply andb_true_iff in H as [H1 H2]. exists d2, e2. split; [reflexivity|].
  split; [exact (list_eqb_Forall2 _ _ _ _ jtxn_same_b_sound H1)|apply str_eqb_true, H2].
Qed.

(* the explicit hypothesis on unit prices and its boolean form *)
Lemma ddiv_dmul a q : dm a <> 0 -> ddiv (dmul a q) a = Some (if dm q =? 0 then dzero else q).
Proof.
  intro Ha. unfold ddiv, dmul.
  assert (Ea : is_zero a = false) by (unfold is_zero; apply Z.eqb_neq; exact Ha).
  apply Z.eqb_neq in Ha. rewrite Ha, Ea. cbn [orb]. unfold is_zero.
  destruct (Z.eqb_spec (dm q) 0) as [Hq|Hq]; [reflexivity|].
  apply Z.eqb_neq in Ha. cbn [dm ds].
  assert (Hp : (dm a * dm q =? 0) = false) by (apply Z.eqb_neq; nia).
  rewrite Hp. rewrite Z.mul_comm, Z_mod_mult. cbn [Z.eqb]. rewrite Z_div_mult_full by exact Ha.
  assert (Hs : (ds a <=? ds a + ds q)%N = true) by (apply N.leb_le; lia). rewrite Hs.
  replace (ds a + ds q - ds a)%N with (ds q) by lia. destruct q; reflexivity.
Qed.

Theorem unit_priced_b_of p : dm (p_amount p) <> 0 -> unit_priced p -> unit_priced_b p = true.
Proof.
  intros Ha (q & Hq0 & Hqf & Ht). unfold unit_priced_b. rewrite Ht, (ddiv_dmul _ q Ha).
  destruct (Z.eqb_spec (dm q) 0) as [Hz|Hz].
  - cbn [dzero dm]. change (fits dzero) with true. cbn [Z.leb andb].
    unfold dmul at 1. change (is_zero dzero) with true. rewrite orb_true_r.
    unfold dmul. assert (is_zero q = true) by (unfold is_zero; apply Z.eqb_eq; exact Hz). rewrite H, orb_true_r.
    reflexivity.
  - apply Z.leb_le in Hq0. rewrite Hq0, Hqf. cbn [andb]. unfold drepr_eqb. rewrite Z.eqb_refl, N.eqb_refl. reflexivity.
Qed.

(* ------------------------------------------------------------------ witnesses *)
(* every header, metadata and comment feature, unit price with trailing zeros, total price, comments *)
Definition example_txn : jtxn :=
  mkJTxn (mkHeader 1709200799000000001 50400 (Some [35; 49; 32; 97; 32; 98]%N)
            (Some [100; 101; 115; 99; 32; 119; 105; 116; 104; 32; 40; 99; 41; 32; 97; 110; 100; 32; 39; 113; 117; 111; 116; 101]%N)
            (Some [48; 55; 49; 53; 101; 51; 51; 51; 45; 102; 99; 52; 53; 45; 98; 54; 57; 49; 45; 56; 49; 56; 53; 45; 54; 52; 101; 56; 98; 101; 48; 51; 54; 57; 55; 54]%N)
            (Some (mkGeo (mkDec 60167 3) (mkDec (-24955) 3) (Some (mkDec 50 1))))
            [[97]%N; [98; 58; 99; 58; 57]%N; [937]%N]
            [[110; 111; 116; 101]%N; [32; 32; 105; 110; 100; 101; 110; 116; 101; 100]%N; (@nil N)])
    [ mkJPost (mkPosting [[101]%N; [120; 49]%N] [65; 67; 77; 69]%N (mkDec 1250 2) (mkDec 312500 4) false [69; 85; 82]%N) (Some [117; 110; 105; 116]%N);
      mkJPost (mkPosting [[101]%N; [120; 50]%N] [65; 67; 77; 69]%N (mkDec (-3) 0) (mkDec (-75) 1) true [69; 85; 82]%N) None;
      mkJPost (mkPosting [[101]%N; [120; 51]%N] [72; 101; 183; 98; 97; 114]%N (mkDec 1 0) (mkDec 100 2) false [69; 85; 82]%N) None;
      mkJPost (mkPosting [[101]%N; [120; 52]%N] [69; 85; 82]%N (mkDec 5 0) (mkDec 5 0) false [69; 85; 82]%N) None;
      mkJPost (mkPosting [[97]%N; [8364; 117; 114; 111]%N] [69; 85; 82]%N (mkDec (-2975) 2) (mkDec (-2975) 2) false [69; 85; 82]%N) (Some (@nil N)) ].

(* the identity export of the implementation for this transaction (corpus/C06/00-all-features) *)
Definition example_text : list N :=
  [50; 48; 50; 52; 45; 48; 50; 45; 50; 57; 84; 50; 51; 58; 53; 57; 58; 53; 57; 46; 48; 48; 48; 48; 48; 48; 48; 48; 49; 43; 49; 52; 58; 48; 48; 32; 40; 35; 49; 32; 97; 32; 98; 41; 32; 39; 100; 101; 115; 99; 32; 119; 105; 116; 104; 32; 40; 99; 41; 32; 97; 110; 100; 32; 39; 113; 117; 111; 116; 101; 10; 32; 32; 32; 35; 32; 117; 117; 105; 100; 58; 32; 48; 55; 49; 53; 101; 51; 51; 51; 45; 102; 99; 52; 53; 45; 98; 54; 57; 49; 45; 56; 49; 56; 53; 45; 54; 52; 101; 56; 98; 101; 48; 51; 54; 57; 55; 54; 10; 32; 32; 32; 35; 32; 108; 111; 99; 97; 116; 105; 111; 110; 58; 32; 103; 101; 111; 58; 54; 48; 46; 49; 54; 55; 44; 45; 50; 52; 46; 57; 53; 53; 44; 53; 46; 48; 10; 32; 32; 32; 35; 32; 116; 97; 103; 115; 58; 32; 97; 44; 32; 98; 58; 99; 58; 57; 44; 32; 937; 10; 32; 32; 32; 59; 32; 110; 111; 116; 101; 10; 32; 32; 32; 59; 32; 32; 32; 105; 110; 100; 101; 110; 116; 101; 100; 10; 32; 32; 32; 59; 32; 10; 32; 32; 32; 101; 58; 120; 49; 32; 32; 32; 49; 50; 46; 53; 48; 32; 65; 67; 77; 69; 32; 64; 32; 50; 46; 53; 48; 32; 69; 85; 82; 32; 59; 32; 117; 110; 105; 116; 10; 32; 32; 32; 101; 58; 120; 50; 32; 32; 45; 51; 32; 65; 67; 77; 69; 32; 61; 32; 45; 55; 46; 53; 32; 69; 85; 82; 10; 32; 32; 32; 101; 58; 120; 51; 32; 32; 32; 49; 32; 72; 101; 183; 98; 97; 114; 32; 64; 32; 49; 46; 48; 48; 32; 69; 85; 82; 10; 32; 32; 32; 101; 58; 120; 52; 32; 32; 32; 53; 32; 69; 85; 82; 10; 32; 32; 32; 97; 58; 8364; 117; 114; 111; 32; 32; 45; 50; 57; 46; 55; 53; 32; 69; 85; 82; 32; 59; 32; 10; 10]%N.

Lemma example_wf : journal_wf [example_txn; example_txn] = true /\ print_journal [example_txn] = example_text.
Proof. split; vm_compute; reflexivity. Qed.

(* finding F13: an instant shown at an offset that is not a whole minute (possible with a named
   journal zone) is exported with seconds in the offset, which the grammar does not accept:
   without the whole-minute hypothesis of ts_ok the round trip fails *)
Definition subminute_txn : jtxn :=
  mkJTxn (mkHeader (-2208994789000000000) 5989 None None None None [] [])
    [ mkJPost (mkPosting [[97]%N] [] (mkDec 1 0) (mkDec 1 0) false []) None;
      mkJPost (mkPosting [[98]%N] [] (mkDec (-1) 0) (mkDec (-1) 0) false []) None ].

Lemma subminute_offset_refuted :
  exists t cfg, forallb jpost_wf (jt_posts t) = true /\ h_off (jt_hdr t) mod 60 <> 0
    /\ load_journal cfg (print_journal [t]) = Err E_syntax.
Proof.
  exists subminute_txn, (mkCfg 0 0). split; [vm_compute; reflexivity|]. split; [vm_compute; discriminate|].
  vm_compute. reflexivity.
Qed.
