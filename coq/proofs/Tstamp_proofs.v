(* Tstamp_proofs.v — time stamps: the parser reads what the notation means (C16). *)
From Coq Require Import Permutation Sorted.
From TkModel Require Import Base Dec Acct Txn Tstamp.
From TkSpec Require Import Tstamp_spec.
From TkProofs Require Import Base_proofs Order_proofs Tstamp_civil_proofs.
Local Open Scope Z_scope.

(* ------------------------------------------------------------------ digits *)
Lemma digit_cases d : 0 <= d <= 9 ->
  d = 0 \/ d = 1 \/ d = 2 \/ d = 3 \/ d = 4 \/ d = 5 \/ d = 6 \/ d = 7 \/ d = 8 \/ d = 9.
Proof. lia. Qed.

Lemma dch_digit d : 0 <= d <= 9 -> is_digit (dch d) = true /\ digit_val (dch d) = d.
Proof.
  intros H. destruct (digit_cases d H) as [E|[E|[E|[E|[E|[E|[E|[E|[E|E]]]]]]]]]; subst d; split; reflexivity.
Qed.

Lemma is_digit_val c : is_digit c = true -> 0 <= digit_val c <= 9.
Proof.
  unfold is_digit, digit_val. rewrite andb_true_iff, !N.leb_le. lia.
Qed.

Lemma take_digits_cons n c s acc : is_digit c = true ->
  take_digits (S n) (c :: s) acc = take_digits n s (acc * 10 + digit_val c).
Proof. intros H. cbn [take_digits]. rewrite H. reflexivity. Qed.

Lemma take2 v r : 0 <= v <= 99 -> take_digits 2 (pad2 v ++ r) 0 = Some (v, r).
Proof.
  intros H. unfold pad2. cbn [app].
  destruct (dch_digit (v / 10)) as [A1 A2]; [lia|].
  destruct (dch_digit (v mod 10)) as [B1 B2]; [lia|].
  rewrite take_digits_cons by exact A1. rewrite take_digits_cons by exact B1.
  cbn [take_digits]. rewrite A2, B2. f_equal. f_equal. lia.
Qed.

Lemma take4 v r : 0 <= v <= 9999 -> take_digits 4 (pad4 v ++ r) 0 = Some (v, r).
Proof.
  intros H. unfold pad4. cbn [app].
  destruct (dch_digit (v / 1000)) as [A1 A2]; [lia|].
  destruct (dch_digit ((v / 100) mod 10)) as [B1 B2]; [lia|].
  destruct (dch_digit ((v / 10) mod 10)) as [C1 C2]; [lia|].
  destruct (dch_digit (v mod 10)) as [D1 D2]; [lia|].
  rewrite take_digits_cons by exact A1. rewrite take_digits_cons by exact B1.
  rewrite take_digits_cons by exact C1. rewrite take_digits_cons by exact D1.
  cbn [take_digits]. rewrite A2, B2, C2, D2. f_equal. f_equal. lia.
Qed.

Lemma take_upto_run ds : forall n r,
  Forall (fun c => is_digit c = true) ds -> (length ds <= n)%nat ->
  (length ds = n \/ head_is is_digit r = false) ->
  take_upto n (ds ++ r) = (ds, r).
Proof.
  induction ds as [|c ds IH]; intros n r F L E.
  - cbn [app]. destruct n as [|n]; [reflexivity|]. cbn [take_upto].
    destruct E as [E|E]; [discriminate|]. destruct r as [|x r]; [reflexivity|].
    cbn [head_is] in E. rewrite E. reflexivity.
  - destruct n as [|n]; [cbn in L; lia|]. inversion F as [|? ? Fc Fr]; subst.
    cbn [app take_upto]. rewrite Fc. rewrite (IH n r Fr); [reflexivity|cbn in L; lia|].
    destruct E as [E|E]; [left; cbn in E; lia|right; exact E].
Qed.

(* ------------------------------------------------------------------ the fraction *)
Lemma fold_digits_pos ds : forall a k, (Z.of_nat (length ds) <= k + 1) ->
  fold_left (fun a c => a * 10 + digit_val c) ds a * 10 ^ (k + 1 - Z.of_nat (length ds))
  = a * 10 ^ (k + 1) + frac_pos ds k.
Proof.
  induction ds as [|c ds IH]; intros a k L.
  - cbn [fold_left frac_pos length Z.of_nat]. rewrite Z.sub_0_r. lia.
  - cbn [fold_left frac_pos]. cbn [length] in L. rewrite Nat2Z.inj_succ in L.
    cbn [length]. rewrite Nat2Z.inj_succ.
    replace (k + 1 - Z.succ (Z.of_nat (length ds))) with (k - 1 + 1 - Z.of_nat (length ds)) by lia.
    rewrite IH by lia. replace (k - 1 + 1) with k by lia.
    replace (k + 1) with (Z.succ k) by lia. rewrite Z.pow_succ_r by lia. lia.
Qed.

(* scaling by 10^(9-len) gives the positional value: ".5" is 500 000 000 ns *)
Lemma frac_ns_pos ds : (length ds <= 9)%nat -> frac_ns ds = frac_pos ds 8.
Proof.
  intros L. unfold frac_ns, digits_val.
  pose proof (fold_digits_pos ds 0 8) as H. replace (8 + 1) with 9 in H by lia.
  rewrite H by lia. lia.
Qed.

Lemma frac_pos_bounds ds : forall k, Forall (fun c => is_digit c = true) ds ->
  Z.of_nat (length ds) <= k + 1 -> 0 <= frac_pos ds k < 10 ^ (k + 1).
Proof.
  induction ds as [|c ds IH]; intros k F L.
  - cbn [frac_pos]. split; [lia|]. apply Z.pow_pos_nonneg; lia.
  - inversion F as [|? ? Fc Fr]; subst. cbn [frac_pos]. cbn [length] in L. rewrite Nat2Z.inj_succ in L.
    pose proof (is_digit_val c Fc) as Hc. pose proof (IH (k - 1) Fr ltac:(lia)) as Hr.
    replace (k - 1 + 1) with k in Hr by lia.
    replace (k + 1) with (Z.succ k) by lia. rewrite Z.pow_succ_r by lia.
    assert (0 < 10 ^ k) by (apply Z.pow_pos_nonneg; lia). nia.
Qed.

Lemma spec_frac_bounds f : frac_wf f -> 0 <= spec_frac f <= 999999999.
Proof.
  destruct f as [ds|]; cbn [frac_wf spec_frac]; [|lia]. intros [F L].
  pose proof (frac_pos_bounds ds 8 F ltac:(lia)) as H. change (10 ^ (8 + 1)) with 1000000000 in H. lia.
Qed.

Lemma frac_wfb_wf f : frac_wfb f = true -> frac_wf f.
Proof.
  destruct f as [ds|]; cbn [frac_wfb frac_wf]; [|trivial].
  rewrite !andb_true_iff, forallb_forall, Forall_forall, !Nat.leb_le. tauto.
Qed.

(* ------------------------------------------------------------------ the parts of the grammar *)
Lemma expect_hit c r : expect c (c :: r) = Some r.
Proof. cbn [expect]. rewrite N.eqb_refl. reflexivity. Qed.

Lemma date_wfb_unfold y m d : date_wfb y m d = true ->
  0 <= y <= 9999 /\ 1 <= m <= 12 /\ 1 <= d <= 31 /\ spec_date_valid y m d = true.
Proof.
  unfold date_wfb. rewrite !andb_true_iff, !Z.leb_le. intros [[H1 H2] V].
  pose proof (valid_unfold _ _ _ V) as [Hm Hd]. pose proof (month_len_bounds y m Hm). repeat split; try lia; assumption.
Qed.

Lemma p_date_render y m d r : date_wfb y m d = true ->
  p_date (render_date y m d ++ r) = Some (y, m, d, r).
Proof.
  intros W. destruct (date_wfb_unfold _ _ _ W) as (Hy & Hm & Hd & V).
  unfold p_date, render_date. rewrite <- !app_assoc. cbn [app].
  rewrite take4 by lia. rewrite expect_hit. rewrite <- app_assoc. cbn [app]. rewrite take2 by lia.
  rewrite expect_hit. rewrite take2 by lia.
  assert (ts_date_ok y m d = true) as ->; [|reflexivity].
  apply date_ok_valid. split; [lia|exact V].
Qed.

Lemma hms_wfb_unfold h mi s : hms_wfb h mi s = true -> 0 <= h <= 23 /\ 0 <= mi <= 59 /\ 0 <= s <= 59.
Proof. unfold hms_wfb. rewrite !andb_true_iff, !Z.leb_le. lia. Qed.

Lemma ts_time_ok_iff h mi s ns :
  ts_time_ok h mi s ns = true <-> (0 <= h <= 23 /\ 0 <= mi <= 59 /\ 0 <= s <= 59 /\ 0 <= ns <= 999999999).
Proof. unfold ts_time_ok. rewrite !andb_true_iff, !Z.leb_le. lia. Qed.

(* what may follow a fraction (or its absence) *)
Definition frac_sep (f : option (list N)) (r : str) : Prop :=
  match f with
  | None => head_is (fun c => (c =? ch_dot)%N) r = false
  | Some ds => length ds = 9%nat \/ head_is is_digit r = false
  end.

Lemma p_frac_render f r : frac_wf f -> frac_sep f r ->
  p_frac (render_frac f ++ r) = Some (spec_frac f, r).
Proof.
  destruct f as [ds|]; cbn [frac_wf frac_sep render_frac spec_frac].
  - intros [F L] S. cbn [app p_frac]. rewrite N.eqb_refl.
    rewrite (take_upto_run ds 9 r F); [|lia|tauto].
    destruct ds as [|c ds']; [cbn in L; lia|]. rewrite frac_ns_pos by lia. reflexivity.
  - intros _ S. cbn [app]. destruct r as [|c r]; [reflexivity|].
    cbn [head_is] in S. cbn [p_frac]. rewrite S. reflexivity.
Qed.

Lemma p_time_render h mi s f r : hms_wfb h mi s = true -> frac_wf f -> frac_sep f r ->
  p_time (pad2 h ++ ch_colon :: pad2 mi ++ ch_colon :: pad2 s ++ render_frac f ++ r)
  = Some (h, mi, s, spec_frac f, r).
Proof.
  intros W F S. destruct (hms_wfb_unfold _ _ _ W) as (Hh & Hmi & Hs).
  unfold p_time. rewrite take2 by lia. rewrite expect_hit. rewrite take2 by lia.
  rewrite expect_hit. rewrite take2 by lia. rewrite (p_frac_render f r F S).
  assert (ts_time_ok h mi s (spec_frac f) = true) as ->; [|reflexivity].
  apply ts_time_ok_iff. pose proof (spec_frac_bounds f F). lia.
Qed.

Lemma zspec_wfb_unfold neg hh mm : zspec_wfb (ZOff neg hh mm) = true ->
  0 <= hh <= 99 /\ 0 <= mm <= 99 /\ hh * 3600 + mm * 60 <= OFF_MAX.
Proof. cbn [zspec_wfb]. rewrite !andb_true_iff, !Z.leb_le. lia. Qed.

Lemma p_offset_render neg hh mm r : zspec_wfb (ZOff neg hh mm) = true ->
  p_offset (if neg then -1 else 1) (pad2 hh ++ ch_colon :: pad2 mm ++ r)
  = Some (zspec_off (ZOff neg hh mm), r).
Proof.
  intros W. destruct (zspec_wfb_unfold _ _ _ W) as (Hh & Hm & Hr).
  unfold p_offset. rewrite take2 by lia. rewrite expect_hit. rewrite take2 by lia.
  cbn [zspec_off].
  assert (Z.abs ((if neg then -1 else 1) * (hh * 3600 + mm * 60)) <=? OFF_MAX = true) as ->; [|reflexivity].
  apply Z.leb_le. destruct neg; lia.
Qed.

(* ------------------------------------------------------------------ civil time -> instant *)
Definition civil_wf (c : civil) : Prop :=
  spec_date_valid (cv_y c) (cv_m c) (cv_d c) = true /\
  ts_time_ok (cv_h c) (cv_mi c) (cv_s c) (cv_ns c) = true.

Lemma civil_secs_spec c : 1 <= cv_m c <= 12 ->
  civil_secs c * NS + cv_ns c = civil_ns c.
Proof.
  intros Hm. unfold civil_secs, civil_ns, spec_civil_ns. rewrite epoch_day_spec by exact Hm. reflexivity.
Qed.

(* whatever the representation, the pair denotes civil time minus offset *)
Lemma civil_to_jts_inst c off t : 1 <= cv_m c <= 12 ->
  civil_to_jts c off = Some t -> jts_inst t = civil_ns c - off * NS.
Proof.
  intros Hm. unfold civil_to_jts.
  destruct ((ts_epoch_day (cv_y c) (cv_m c) (cv_d c) <? 0) && negb (cv_ns c =? 0));
  cbn [j_sec j_ns];
  match goal with |- (if ?b then _ else _) = _ -> _ => destruct b end; intros E; inversion E; subst t;
  unfold jts_inst; cbn [j_sec j_ns]; rewrite <- (civil_secs_spec c Hm); unfold NS; lia.
Qed.

(* inside the range (one second to spare) the conversion succeeds *)
Lemma civil_to_jts_some c off : 1 <= cv_m c <= 12 -> 0 <= cv_ns c < NS ->
  TS_MIN_SEC * NS <= civil_ns c - off * NS < TS_MAX_SEC * NS ->
  exists t, civil_to_jts c off = Some t.
Proof.
  intros Hm Hns R. rewrite <- (civil_secs_spec c Hm) in R. unfold civil_to_jts.
  assert (TS_MIN_SEC <= civil_secs c - off <= TS_MAX_SEC - 1) as B by (unfold NS in *; lia).
  destruct ((ts_epoch_day (cv_y c) (cv_m c) (cv_d c) <? 0) && negb (cv_ns c =? 0)); cbn [j_sec].
  - assert ((TS_MIN_SEC <=? civil_secs c - off + 1) && (civil_secs c - off + 1 <=? TS_MAX_SEC) = true) as ->.
    { apply andb_true_iff. rewrite !Z.leb_le. lia. }
    eexists. reflexivity.
  - assert ((TS_MIN_SEC <=? civil_secs c - off) && (civil_secs c - off <=? TS_MAX_SEC) = true) as ->.
    { apply andb_true_iff. rewrite !Z.leb_le. lia. }
    eexists. reflexivity.
Qed.

(* to_zoned: instant = civil - (offset used), offset carried = offset in force *)
Lemma to_zoned_spec z c : 1 <= cv_m c <= 12 -> 0 <= cv_ns c < NS ->
  TS_MIN_SEC * NS <= civil_ns c - zone_conv_off z c * NS < TS_MAX_SEC * NS ->
  exists zd, to_zoned z c = Some zd /\
    jts_inst (z_ts zd) = civil_ns c - zone_conv_off z c * NS /\
    z_off zd = match z with ZFixed o => o | ZNamed nz => nz_inst nz (civil_ns c - zone_conv_off z c * NS) end /\
    civil_to_jts c (zone_conv_off z c) = Some (z_ts zd).
Proof.
  intros Hm Hns R. destruct (civil_to_jts_some c _ Hm Hns R) as [t Ht].
  pose proof (civil_to_jts_inst c _ t Hm Ht) as Hi.
  destruct z as [o|nz]; cbn [to_zoned zone_conv_off] in *; rewrite Ht; cbn [option_map];
    eexists; (split; [reflexivity|]); cbn [z_ts z_off]; rewrite Hi; repeat split; reflexivity.
Qed.

(* ------------------------------------------------------------------ the parser reads the meaning *)
Lemma in_range_unfold cfg a : spec_in_rangeb cfg a = true ->
  TS_MIN_SEC * NS <= spec_inst cfg a < TS_MAX_SEC * NS.
Proof. unfold spec_in_rangeb. rewrite andb_true_iff, Z.leb_le, Z.ltb_lt. tauto. Qed.

Lemma head_is_false_cons (p : N -> bool) c r : head_is p (c :: r) = false -> p c = false.
Proof. exact (fun H => H). Qed.

Lemma zone_start_render z r : head_is zone_start (render_zone z ++ r) = true.
Proof. destruct z as [|neg hh mm]; [reflexivity|]. destruct neg; reflexivity. Qed.

Lemma zone_start_not_dot c : zone_start c = true -> (c =? ch_dot)%N = false.
Proof.
  unfold zone_start. rewrite !orb_true_iff, !N.eqb_eq. intros [[->| ->]| ->]; reflexivity.
Qed.
Lemma zone_start_not_digit c : zone_start c = true -> is_digit c = false.
Proof.
  unfold zone_start. rewrite !orb_true_iff, !N.eqb_eq. intros [[->| ->]| ->]; reflexivity.
Qed.

Lemma frac_sep_zone f z r : frac_sep f (render_zone z ++ r).
Proof.
  pose proof (zone_start_render z r) as H.
  destruct (render_zone z ++ r) as [|c s]; [discriminate|]. cbn [head_is] in H.
  destruct f as [ds|]; cbn [frac_sep head_is].
  - right. apply zone_start_not_digit. exact H.
  - apply zone_start_not_dot. exact H.
Qed.

(* the alternatives of parse_timestamp (before the instant is re-created): the library's pair *)
Theorem parse_alt_render cfg a r :
  cfg_wf cfg -> ast_wf a -> sep_okb a r = true -> spec_in_rangeb cfg a = true ->
  exists z, parse_ts_alt cfg (render a ++ r) = Some (z, ast_zone cfg a, r) /\
            jts_inst (z_ts z) = spec_inst cfg a /\ z_off z = spec_off cfg a /\
            civil_to_jts (ast_civil cfg a) (ast_conv_off cfg a) = Some (z_ts z).
Proof.
  intros [Ct Cz] W S R. apply in_range_unfold in R. unfold ast_wf in W.
  apply ts_time_ok_iff in Ct.
  destruct a as [y m d|y m d h mi s f|y m d h mi s f z]; cbn [ast_wfb] in W.
  - (* date only *)
    destruct (date_wfb_unfold _ _ _ W) as (Hy & Hm & Hd & V).
    cbn [render ast_zone]. unfold parse_ts_alt. rewrite (p_date_render y m d r W). cbv zeta.
    assert (zoned_with (cfg_zone cfg) (get_offset_date cfg y m d) r =
            zoned_with (cfg_zone cfg) (to_zoned (cfg_zone cfg) (ast_civil cfg (TsDate y m d))) r) as E by reflexivity.
    destruct (to_zoned_spec (cfg_zone cfg) (ast_civil cfg (TsDate y m d))) as (zd & Hz & Hi & Ho & Hc);
      [cbn; lia|cbn [ast_civil cv_ns]; unfold NS; lia|exact R|].
    exists zd. rewrite Hz in E. cbn [zoned_with option_map] in E.
    split; [|split; [exact Hi|]].
    + destruct r as [|c r2]; [exact E|]. cbn [sep_okb head_is] in S. apply negb_true_iff in S.
      rewrite S. exact E.
    + split; [rewrite Ho; reflexivity|exact Hc].
  - (* date and time, zone from the configuration *)
    apply andb_true_iff in W. destruct W as [W Wf]. apply andb_true_iff in W. destruct W as [Wd Wt].
    apply frac_wfb_wf in Wf.
    destruct (date_wfb_unfold _ _ _ Wd) as (Hy & Hm & Hd & V).
    cbn [render ast_zone]. rewrite <- app_assoc. unfold parse_ts_alt. rewrite (p_date_render y m d _ Wd). cbv zeta.
    unfold render_time. cbn [app]. rewrite N.eqb_refl. repeat (rewrite <- app_assoc; cbn [app]).
    assert (frac_sep f r) as Fs.
    { destruct f as [ds|]; cbn [sep_okb frac_sep] in *.
      - apply andb_true_iff in S. destruct S as [_ S]. apply orb_true_iff in S.
        destruct S as [S|S]; [left; apply Nat.eqb_eq; exact S|right; apply negb_true_iff; exact S].
      - apply negb_true_iff in S. destruct r as [|c r2]; [reflexivity|]. cbn [head_is] in *.
        apply orb_false_iff in S. tauto. }
    rewrite (p_time_render h mi s f r Wt Wf Fs).
    pose proof (spec_frac_bounds f Wf) as Hf.
    destruct (to_zoned_spec (cfg_zone cfg) (ast_civil cfg (TsLocal y m d h mi s f))) as (zd & Hz & Hi & Ho & Hc);
      [cbn; lia|cbn [ast_civil cv_ns]; unfold NS; lia|exact R|].
    exists zd. cbn [ast_civil] in Hz. unfold get_offset_datetime.
    split; [|split; [exact Hi|]].
    + assert (head_is zone_start r = false) as Zs.
      { destruct f as [ds|]; cbn [sep_okb] in S.
        - apply andb_true_iff in S. destruct S as [S _]. apply negb_true_iff in S. exact S.
        - apply negb_true_iff in S. destruct r as [|c r2]; [reflexivity|]. cbn [head_is] in *.
          apply orb_false_iff in S. tauto. }
      destruct r as [|c r2]; [rewrite Hz; reflexivity|].
      cbn [head_is] in Zs. unfold zone_start in Zs. apply orb_false_iff in Zs. destruct Zs as [Zs Z3].
      apply orb_false_iff in Zs. destruct Zs as [Z1 Z2]. rewrite Z1, Z2, Z3. cbn [orb]. rewrite Hz. reflexivity.
    + split; [rewrite Ho; reflexivity|exact Hc].
  - (* date, time and written offset *)
    apply andb_true_iff in W. destruct W as [W Wz]. apply andb_true_iff in W. destruct W as [W Wf].
    apply andb_true_iff in W. destruct W as [Wd Wt]. apply frac_wfb_wf in Wf.
    destruct (date_wfb_unfold _ _ _ Wd) as (Hy & Hm & Hd & V).
    cbn [render ast_zone]. rewrite <- !app_assoc. unfold parse_ts_alt. rewrite (p_date_render y m d _ Wd). cbv zeta.
    unfold render_time. cbn [app]. rewrite N.eqb_refl. repeat (rewrite <- app_assoc; cbn [app]).
    rewrite (p_time_render h mi s f _ Wt Wf (frac_sep_zone f z r)).
    pose proof (spec_frac_bounds f Wf) as Hf.
    destruct (to_zoned_spec (ZFixed (zspec_off z)) (ast_civil cfg (TsZoned y m d h mi s f z))) as (zd & Hz & Hi & Ho & Hc);
      [cbn; lia|cbn [ast_civil cv_ns]; unfold NS; lia|exact R|].
    exists zd. cbn [ast_civil] in Hz.
    split; [|split; [exact Hi|split; [exact Ho|exact Hc]]].
    destruct z as [|neg hh mm].
    + cbn [render_zone app]. rewrite N.eqb_refl. cbn [zspec_off] in Hz. rewrite Hz. reflexivity.
    + cbn [render_zone app]. rewrite <- app_assoc. cbn [app].
      destruct neg.
      * change ((ch_minus =? ch_Z)%N) with false. change ((ch_minus =? ch_plus)%N) with false.
        rewrite N.eqb_refl. cbn [orb]. rewrite (p_offset_render true hh mm r Wz). rewrite Hz. reflexivity.
      * change ((ch_plus =? ch_Z)%N) with false. rewrite N.eqb_refl. cbn [orb].
        rewrite (p_offset_render false hh mm r Wz). rewrite Hz. reflexivity.
Qed.

(* ------------------------------------------------------------------ canonical pairs *)
Lemma ts_normal_unfold t : ts_normal t <->
  Z.abs (j_ns t) < NS /\ (j_sec t <= 0 \/ 0 <= j_ns t) /\ (0 <= j_sec t \/ j_ns t <= 0).
Proof.
  unfold ts_normal, ts_normalb. rewrite !andb_true_iff, !orb_true_iff, Z.ltb_lt, !Z.leb_le. tauto.
Qed.

(* what from_nanosecond builds is sign-consistent and denotes the given instant *)
Lemma ts_canon_normal i : ts_normal (ts_canon i) /\ jts_inst (ts_canon i) = i.
Proof.
  unfold ts_canon, jts_inst. cbn [j_sec j_ns]. pose proof (Z.quot_rem' i NS) as E. split; [|lia].
  apply ts_normal_unfold. cbn [j_sec j_ns]. unfold NS in *.
  destruct (Z_le_gt_dec 0 i) as [P|P].
  - pose proof (Z.rem_bound_pos_pos i 1000000000 ltac:(lia) P). pose proof (Z.quot_pos i 1000000000 P ltac:(lia)). lia.
  - pose proof (Z.rem_bound_pos_neg i 1000000000 ltac:(lia) ltac:(lia)).
    pose proof (Z.mul_quot_ge i 1000000000 ltac:(lia) ltac:(lia)). lia.
Qed.

(* a canonical pair is determined by its instant: it IS the quotient/remainder pair *)
Lemma ts_normal_canon t : ts_normal t -> t = ts_canon (jts_inst t).
Proof.
  intros H. apply ts_normal_unfold in H. destruct t as [s n]. unfold ts_canon, jts_inst, NS in *. cbn [j_sec j_ns] in *.
  destruct (Z_le_gt_dec 0 (s * 1000000000 + n)) as [P|P].
  - assert (0 <= n < 1000000000) as Hn by lia.
    rewrite <- (Z.quot_unique (s * 1000000000 + n) 1000000000 s n P Hn ltac:(lia)).
    rewrite <- (Z.rem_unique (s * 1000000000 + n) 1000000000 s n P Hn ltac:(lia)). reflexivity.
  - assert (0 <= - n < 1000000000) as Hn by lia.
    assert (s * 1000000000 + n = - (- s * 1000000000 + - n)) as E by lia. rewrite E.
    rewrite Z.quot_opp_l, Z.rem_opp_l by lia.
    rewrite <- (Z.quot_unique (- s * 1000000000 + - n) 1000000000 (- s) (- n) ltac:(lia) Hn ltac:(lia)).
    rewrite <- (Z.rem_unique (- s * 1000000000 + - n) 1000000000 (- s) (- n) ltac:(lia) Hn ltac:(lia)).
    f_equal; lia.
Qed.

Theorem ts_canonical_unique a b : ts_normal a -> ts_normal b -> jts_inst a = jts_inst b -> a = b.
Proof. intros Ha Hb E. rewrite (ts_normal_canon a Ha), (ts_normal_canon b Hb), E. reflexivity. Qed.

(* on canonical pairs the library's comparison is the comparison of instants ... *)
Lemma jts_cmp_normal a b : ts_normal a -> ts_normal b ->
  jts_cmp a b = Z.compare (jts_inst a) (jts_inst b).
Proof.
  intros Ha Hb. apply ts_normal_unfold in Ha, Hb. unfold jts_cmp, jts_inst, cmp_then, NS in *.
  destruct (Z.compare_spec (j_sec a) (j_sec b)) as [E|L|G].
  - rewrite E. destruct (Z.compare_spec (j_ns a) (j_ns b)); symmetry;
      [apply Z.compare_eq_iff|apply Z.compare_lt_iff|apply Z.compare_gt_iff]; lia.
  - symmetry. apply Z.compare_lt_iff. lia.
  - symmetry. apply Z.compare_gt_iff. lia.
Qed.

(* ... and the library's equality is equality of instants *)
Lemma jts_eqb_normal a b : ts_normal a -> ts_normal b ->
  jts_eqb a b = (jts_inst a =? jts_inst b).
Proof.
  intros Ha Hb. destruct (jts_inst a =? jts_inst b) eqn:E.
  - apply Z.eqb_eq in E. rewrite (ts_canonical_unique a b Ha Hb E). unfold jts_eqb. rewrite !Z.eqb_refl. reflexivity.
  - apply Z.eqb_neq in E. unfold jts_eqb. destruct ((j_sec a =? j_sec b) && (j_ns a =? j_ns b)) eqn:F; [|reflexivity].
    apply andb_true_iff in F. rewrite !Z.eqb_eq in F. exfalso. apply E. unfold jts_inst. destruct F as [-> ->]. reflexivity.
Qed.

Theorem canonical_order_is_instant_order a b : ts_normal a -> ts_normal b ->
  jts_cmp a b = Z.compare (jts_inst a) (jts_inst b) /\
  jts_eqb a b = (jts_inst a =? jts_inst b) /\
  (jts_eqb a b = true <-> a = b).
Proof.
  intros Ha Hb. split; [exact (jts_cmp_normal a b Ha Hb)|]. split; [exact (jts_eqb_normal a b Ha Hb)|].
  rewrite (jts_eqb_normal a b Ha Hb), Z.eqb_eq. split; [apply ts_canonical_unique; assumption|intros ->; reflexivity].
Qed.

(* ------------------------------------------------------------------ the re-creation step *)
(* from_nanosecond yields the canonical pair of the number it is given *)
Lemma from_nanosecond_canon n t : jts_from_nanosecond n = Some t -> t = ts_canon n.
Proof.
  unfold jts_from_nanosecond. destruct ((TS_MIN_SEC * NS <=? n) && (n <=? TS_MAX_SEC * NS + 999999999)); [|discriminate].
  intros E. inversion E. reflexivity.
Qed.

Lemma jts_renorm_normal t t' : jts_renorm t = Some t' -> ts_normal t'.
Proof. unfold jts_renorm. intros E. rewrite (from_nanosecond_canon _ _ E). apply ts_canon_normal. Qed.

(* every pair the library can hold is accepted by the re-creation (its error branch is dead) *)
Lemma jts_renorm_total t : TS_MIN_SEC <= j_sec t <= TS_MAX_SEC -> Z.abs (j_ns t) < NS ->
  exists t', jts_renorm t = Some t'.
Proof.
  intros Hs Hn. unfold jts_renorm, jts_from_nanosecond, jts_as_nanosecond.
  match goal with |- exists _, (if ?c then _ else _) = _ => assert (c = true) as -> end; [|eexists; reflexivity].
  apply andb_true_iff. rewrite !Z.leb_le.
  destruct ((j_sec t =? TS_MIN_SEC) && (j_ns t <? 0)) eqn:C.
  - unfold TS_MIN_SEC, TS_MAX_SEC, NS. lia.
  - apply andb_false_iff in C. rewrite Z.eqb_neq, Z.ltb_ge in C. unfold jts_inst, TS_MIN_SEC, TS_MAX_SEC, NS in *. lia.
Qed.

(* not below the smallest instant: the instant is kept *)
Lemma jts_renorm_inst t t' : TS_MIN_SEC * NS <= jts_inst t -> Z.abs (j_ns t) < NS ->
  jts_renorm t = Some t' -> jts_inst t' = jts_inst t /\ ts_normal t' /\ t' = ts_canon (jts_inst t).
Proof.
  intros Hi Hn E. pose proof (jts_renorm_normal _ _ E) as N. unfold jts_renorm in E.
  assert (jts_as_nanosecond t = jts_inst t) as A.
  { unfold jts_as_nanosecond. destruct ((j_sec t =? TS_MIN_SEC) && (j_ns t <? 0)) eqn:C; [|reflexivity].
    apply andb_true_iff in C. rewrite Z.eqb_eq, Z.ltb_lt in C. unfold jts_inst, NS in *. lia. }
  rewrite A in E. apply from_nanosecond_canon in E. subst t'.
  split; [apply ts_canon_normal|]. split; [exact N|reflexivity].
Qed.

(* the pairs civil_to_jts builds are inside the library's ranges *)
Lemma civil_to_jts_range c off t : 0 <= cv_ns c < NS -> civil_to_jts c off = Some t ->
  TS_MIN_SEC <= j_sec t <= TS_MAX_SEC /\ Z.abs (j_ns t) < NS.
Proof.
  intros Hn. unfold civil_to_jts.
  destruct ((ts_epoch_day (cv_y c) (cv_m c) (cv_d c) <? 0) && negb (cv_ns c =? 0)) eqn:D; cbn [j_sec j_ns];
  match goal with |- (if ?b then _ else _) = _ -> _ => destruct b eqn:B end; intros E; inversion E; subst t;
  cbn [j_sec j_ns]; apply andb_true_iff in B; rewrite !Z.leb_le in B; unfold NS in *; [|lia].
  apply andb_true_iff in D. destruct D as [_ D]. apply negb_true_iff, Z.eqb_neq in D. lia.
Qed.

(* THE grammar theorem: the parser returns the canonical pair of "civil time minus offset" *)
Theorem parse_render cfg a r :
  cfg_wf cfg -> ast_wf a -> sep_okb a r = true -> spec_in_rangeb cfg a = true ->
  exists z, parse_ts cfg (render a ++ r) = Some (z, r) /\
            jts_inst (z_ts z) = spec_inst cfg a /\ z_off z = spec_off cfg a /\
            z_ts z = ts_canon (spec_inst cfg a) /\ ts_normal (z_ts z) /\
            exists t0, civil_to_jts (ast_civil cfg a) (ast_conv_off cfg a) = Some t0 /\ jts_renorm t0 = Some (z_ts z).
Proof.
  intros C W S R. destruct (parse_alt_render cfg a r C W S R) as (zd & P & I & O & Hc).
  assert (0 <= cv_ns (ast_civil cfg a) < NS) as Hns.
  { destruct C as [Ct _]. apply ts_time_ok_iff in Ct. unfold ast_wf in W.
    destruct a as [y m d|y m d h mi s f|y m d h mi s f z0]; cbn [ast_wfb ast_civil cv_ns] in *; unfold NS.
    - lia.
    - rewrite !andb_true_iff in W. destruct W as [_ Wf]. apply frac_wfb_wf in Wf. pose proof (spec_frac_bounds f Wf). lia.
    - rewrite !andb_true_iff in W. destruct W as [[_ Wf] _]. apply frac_wfb_wf in Wf. pose proof (spec_frac_bounds f Wf). lia. }
  destruct (civil_to_jts_range _ _ _ Hns Hc) as [Hs Hn].
  destruct (jts_renorm_total (z_ts zd) Hs Hn) as [t' Ht].
  apply in_range_unfold in R.
  destruct (jts_renorm_inst (z_ts zd) t' ltac:(rewrite I; lia) Hn Ht) as (I' & N' & Cn).
  exists (ts_to_zoned (ast_zone cfg a) t').
  split; [unfold parse_ts; rewrite P; unfold ts_renorm; rewrite Ht; reflexivity|].
  unfold ts_to_zoned. cbn [z_ts z_off].
  split; [congruence|]. split.
  - rewrite I', I. destruct a as [y m d|y m d h mi s f|y m d h mi s f z0]; cbn [ast_zone spec_off]; try reflexivity;
      destruct (cfg_zone cfg); reflexivity.
  - split; [rewrite Cn, I; reflexivity|]. split; [exact N'|]. exists (z_ts zd). split; [exact Hc|exact Ht].
Qed.

(* every time stamp the parser returns, for every configuration and every text, is a canonical
   pair *)
Theorem parsed_canonical cfg s z r : parse_ts cfg s = Some (z, r) ->
  ts_normal (z_ts z) /\ z_ts z = ts_canon (jts_inst (z_ts z)).
Proof.
  unfold parse_ts. destruct (parse_ts_alt cfg s) as [[[zd tz] r0]|]; [|discriminate].
  unfold ts_renorm. destruct (jts_renorm (z_ts zd)) as [t'|] eqn:E; [|discriminate].
  cbn [option_map]. intros H. inversion H. subst. unfold ts_to_zoned. cbn [z_ts].
  pose proof (jts_renorm_normal _ _ E) as N. split; [exact N|apply ts_normal_canon; exact N].
Qed.

(* the re-creation never refuses what the alternatives accepted: parse_timestamp accepts
   exactly the texts it accepted before, with the same rest, offset and instant *)
Lemma p_time_ns s h mi sec ns r : p_time s = Some (h, mi, sec, ns, r) -> 0 <= ns < NS.
Proof.
  unfold p_time.
  destruct (take_digits 2 s 0) as [[h0 s1]|]; [|discriminate].
  destruct (expect ch_colon s1) as [s2|]; [|discriminate].
  destruct (take_digits 2 s2 0) as [[mi0 s3]|]; [|discriminate].
  destruct (expect ch_colon s3) as [s4|]; [|discriminate].
  destruct (take_digits 2 s4 0) as [[sec0 s5]|]; [|discriminate].
  destruct (p_frac s5) as [[ns0 s6]|]; [|discriminate].
  destruct (ts_time_ok h0 mi0 sec0 ns0) eqn:B; [|discriminate].
  intros E. inversion E. subst. apply ts_time_ok_iff in B. unfold NS. lia.
Qed.

Lemma to_zoned_range z c zd : 0 <= cv_ns c < NS -> to_zoned z c = Some zd ->
  TS_MIN_SEC <= j_sec (z_ts zd) <= TS_MAX_SEC /\ Z.abs (j_ns (z_ts zd)) < NS.
Proof.
  intros Hn. destruct z as [o|nz]; cbn [to_zoned];
  match goal with |- option_map _ ?x = _ -> _ => destruct x as [t|] eqn:E end; try discriminate;
  cbn [option_map]; intros H; inversion H; subst; cbn [z_ts]; exact (civil_to_jts_range _ _ _ Hn E).
Qed.

Lemma parse_ts_alt_range cfg s zd z r : cfg_wf cfg -> parse_ts_alt cfg s = Some (zd, z, r) ->
  TS_MIN_SEC <= j_sec (z_ts zd) <= TS_MAX_SEC /\ Z.abs (j_ns (z_ts zd)) < NS.
Proof.
  intros [Ct _]. apply ts_time_ok_iff in Ct. unfold parse_ts_alt.
  destruct (p_date s) as [[[[y m] d] r1]|]; [|discriminate]. cbv zeta.
  assert (forall r', zoned_with (cfg_zone cfg) (get_offset_date cfg y m d) r' = Some (zd, z, r) ->
          TS_MIN_SEC <= j_sec (z_ts zd) <= TS_MAX_SEC /\ Z.abs (j_ns (z_ts zd)) < NS) as Hd.
  { intros r'. unfold zoned_with, get_offset_date.
    match goal with |- option_map _ ?x = _ -> _ => destruct x as [zd0|] eqn:E end; [|discriminate].
    cbn [option_map]. intros H. inversion H. subst.
    eapply to_zoned_range; [|exact E]. cbn [cv_ns]. unfold NS. lia. }
  destruct r1 as [|c r2]; [apply Hd|].
  destruct (c =? ch_T)%N; [|apply Hd].
  destruct (p_time r2) as [[[[[h mi] sec] ns] r3]|] eqn:Pt; [|discriminate].
  pose proof (p_time_ns _ _ _ _ _ _ Pt) as Hns.
  assert (forall z' r', zoned_with z' (to_zoned z' (mkCivil y m d h mi sec ns)) r' = Some (zd, z, r) ->
          TS_MIN_SEC <= j_sec (z_ts zd) <= TS_MAX_SEC /\ Z.abs (j_ns (z_ts zd)) < NS) as Hz.
  { intros z' r'. unfold zoned_with.
    match goal with |- option_map _ ?x = _ -> _ => destruct x as [zd0|] eqn:E end; [|discriminate].
    cbn [option_map]. intros H. inversion H. subst. eapply to_zoned_range; [|exact E]. exact Hns. }
  unfold get_offset_datetime.
  destruct r3 as [|c3 r4]; [apply Hz|].
  destruct (c3 =? ch_Z)%N; [apply Hz|].
  destruct ((c3 =? ch_plus)%N || (c3 =? ch_minus)%N); [|apply Hz].
  destruct (p_offset _ r4) as [[off r5]|]; [apply Hz|discriminate].
Qed.

Theorem renorm_accepts_same cfg s : cfg_wf cfg ->
  (parse_ts cfg s = None <-> parse_ts_alt cfg s = None) /\
  forall zd z r, parse_ts_alt cfg s = Some (zd, z, r) ->
    exists zn, parse_ts cfg s = Some (zn, r) /\ jts_renorm (z_ts zd) = Some (z_ts zn) /\ ts_normal (z_ts zn) /\
               (TS_MIN_SEC * NS <= jts_inst (z_ts zd) -> jts_inst (z_ts zn) = jts_inst (z_ts zd) /\ z_off zn = z_off (ts_to_zoned z (z_ts zd))).
Proof.
  intros C.
  assert (forall zd z r, parse_ts_alt cfg s = Some (zd, z, r) ->
    exists zn, parse_ts cfg s = Some (zn, r) /\ jts_renorm (z_ts zd) = Some (z_ts zn) /\ ts_normal (z_ts zn) /\
               (TS_MIN_SEC * NS <= jts_inst (z_ts zd) -> jts_inst (z_ts zn) = jts_inst (z_ts zd) /\ z_off zn = z_off (ts_to_zoned z (z_ts zd)))) as H.
  { intros zd z r P. destruct (parse_ts_alt_range _ _ _ _ _ C P) as [Hs Hn].
    destruct (jts_renorm_total _ Hs Hn) as [t' Ht].
    exists (ts_to_zoned z t'). unfold parse_ts. rewrite P. unfold ts_renorm. rewrite Ht. cbn [option_map].
    split; [reflexivity|]. unfold ts_to_zoned at 1 2. cbn [z_ts]. split; [reflexivity|].
    split; [exact (jts_renorm_normal _ _ Ht)|].
    intros Hi. destruct (jts_renorm_inst _ _ Hi Hn Ht) as (I & _ & _). split; [exact I|].
    unfold ts_to_zoned. cbn [z_off]. rewrite I. reflexivity. }
  split; [|exact H]. split.
  - intros E. destruct (parse_ts_alt cfg s) as [[[zd z] r]|] eqn:P; [|reflexivity].
    destruct (H zd z r eq_refl) as (zn & Pn & _). congruence.
  - intros E. unfold parse_ts. rewrite E. reflexivity.
Qed.

Theorem parsed_whole_canonical cfg s z : parse_ts_whole cfg s = Some z -> ts_normal (z_ts z).
Proof.
  unfold parse_ts_whole. destruct (parse_ts cfg s) as [[z0 [|c r]]|] eqn:E; try discriminate.
  intros H. inversion H. subst. exact (proj1 (parsed_canonical _ _ _ _ E)).
Qed.

(* ------------------------------------------------------------------ C16_offset_notation *)
(* a written offset: instant = civil time - offset, whatever the configuration says *)
Theorem offset_notation cfg y m d h mi s f z r :
  cfg_wf cfg -> ast_wf (TsZoned y m d h mi s f z) -> spec_in_rangeb cfg (TsZoned y m d h mi s f z) = true ->
  exists zd, parse_ts cfg (render (TsZoned y m d h mi s f z) ++ r) = Some (zd, r) /\
    jts_inst (z_ts zd) = spec_civil_ns y m d h mi s (spec_frac f) - zspec_off z * NS /\
    z_off zd = zspec_off z.
Proof.
  intros C W R. destruct (parse_render cfg _ r C W eq_refl R) as (zd & P & I & O & _).
  exists zd. split; [exact P|]. split; [exact I|exact O].
Qed.

(* 'Z' is +00:00 (and -00:00) *)
Lemma zulu_is_zero_offset cfg y m d h mi s f neg :
  spec_inst cfg (TsZoned y m d h mi s f ZZulu) = spec_inst cfg (TsZoned y m d h mi s f (ZOff neg 0 0)) /\
  spec_off cfg (TsZoned y m d h mi s f ZZulu) = spec_off cfg (TsZoned y m d h mi s f (ZOff neg 0 0)).
Proof. destruct neg; split; reflexivity. Qed.

(* header_cmp consumes the instant only: a header built from another spelling of the same
   instant compares identically against everything (order, and every consumer of h_inst) *)
Lemma header_cmp_inst_only z1 z2 h x :
  jts_inst (z_ts z1) = jts_inst (z_ts z2) ->
  header_cmp (hdr_of z1 h) x = header_cmp (hdr_of z2 h) x /\
  header_cmp x (hdr_of z1 h) = header_cmp x (hdr_of z2 h) /\
  header_cmp (hdr_of z1 h) (hdr_of z2 h) = Eq.
Proof.
  intros E. unfold header_cmp, hdr_of. cbn [h_inst h_code h_desc h_uuid]. rewrite E.
  split; [reflexivity|]. split; [reflexivity|].
  rewrite Z.compare_refl, !str_cmp_refl. reflexivity.
Qed.

Theorem same_instant_any_spelling cfg a1 a2 r1 r2 h x :
  cfg_wf cfg -> ast_wf a1 -> ast_wf a2 -> sep_okb a1 r1 = true -> sep_okb a2 r2 = true ->
  spec_in_rangeb cfg a1 = true -> spec_in_rangeb cfg a2 = true ->
  spec_inst cfg a1 = spec_inst cfg a2 ->
  exists z1 z2, parse_ts cfg (render a1 ++ r1) = Some (z1, r1) /\ parse_ts cfg (render a2 ++ r2) = Some (z2, r2) /\
    h_inst (hdr_of z1 h) = h_inst (hdr_of z2 h) /\
    header_cmp (hdr_of z1 h) (hdr_of z2 h) = Eq /\
    header_cmp (hdr_of z1 h) x = header_cmp (hdr_of z2 h) x /\
    header_cmp x (hdr_of z1 h) = header_cmp x (hdr_of z2 h).
Proof.
  intros C W1 W2 S1 S2 R1 R2 E.
  destruct (parse_render cfg a1 r1 C W1 S1 R1) as (z1 & P1 & I1 & _).
  destruct (parse_render cfg a2 r2 C W2 S2 R2) as (z2 & P2 & I2 & _).
  exists z1, z2. split; [exact P1|]. split; [exact P2|].
  assert (jts_inst (z_ts z1) = jts_inst (z_ts z2)) as E' by congruence.
  destruct (header_cmp_inst_only z1 z2 h x E') as (A & B & D).
  split; [exact E'|]. split; [exact D|]. split; [exact A|exact B].
Qed.

(* ------------------------------------------------------------------ C16_defaults *)
Theorem defaults_local cfg y m d h mi s f r :
  cfg_wf cfg -> ast_wf (TsLocal y m d h mi s f) -> sep_okb (TsLocal y m d h mi s f) r = true ->
  spec_in_rangeb cfg (TsLocal y m d h mi s f) = true ->
  exists zd, parse_ts cfg (render (TsLocal y m d h mi s f) ++ r) = Some (zd, r) /\
    jts_inst (z_ts zd) = spec_civil_ns y m d h mi s (spec_frac f)
                         - zone_conv_off (cfg_zone cfg) (mkCivil y m d h mi s (spec_frac f)) * NS.
Proof.
  intros C W S R. destruct (parse_render cfg _ r C W S R) as (zd & P & I & _).
  exists zd. split; [exact P|exact I].
Qed.

Theorem defaults_date cfg y m d r :
  cfg_wf cfg -> ast_wf (TsDate y m d) -> sep_okb (TsDate y m d) r = true ->
  spec_in_rangeb cfg (TsDate y m d) = true ->
  exists zd, parse_ts cfg (render (TsDate y m d) ++ r) = Some (zd, r) /\
    jts_inst (z_ts zd) = spec_civil_ns y m d (cfg_h cfg) (cfg_mi cfg) (cfg_s cfg) (cfg_ns cfg)
       - zone_conv_off (cfg_zone cfg) (mkCivil y m d (cfg_h cfg) (cfg_mi cfg) (cfg_s cfg) (cfg_ns cfg)) * NS.
Proof.
  intros C W S R. destruct (parse_render cfg _ r C W S R) as (zd & P & I & _).
  exists zd. split; [exact P|exact I].
Qed.

(* ------------------------------------------------------------------ ordering *)
(* the library layer alone: outside the class epoch_mixedb the pair civil_to_jts builds is
   already canonical (inside it, it is not: jiff_layer_refuted) *)
Lemma civil_to_jts_normal c off t : 1 <= cv_m c <= 12 -> 0 <= cv_ns c < NS ->
  epoch_mixedb c off = false -> civil_to_jts c off = Some t -> ts_normal t.
Proof.
  intros Hm Hns M. unfold civil_to_jts, epoch_mixedb, civil_secs in *.
  rewrite epoch_day_spec by exact Hm.
  set (day := spec_days (cv_y c) (cv_m c) (cv_d c)) in *.
  destruct (cv_ns c =? 0) eqn:E0; cbn [negb andb] in *.
  - apply Z.eqb_eq in E0. rewrite andb_false_r.
    match goal with |- (if ?b then _ else _) = _ -> _ => destruct b end; intros E; inversion E; subst t.
    unfold ts_normal, ts_normalb, NS. cbn [j_sec j_ns]. rewrite E0.
    rewrite !andb_true_iff, !orb_true_iff, Z.ltb_lt, !Z.leb_le. lia.
  - apply Z.eqb_neq in E0. rewrite andb_true_r.
    destruct (day <? 0) eqn:Ed;
    match goal with |- (if ?b then _ else _) = _ -> _ => destruct b end; intros E; inversion E; subst t;
    unfold ts_normal, ts_normalb, NS in *; cbn [j_sec j_ns];
    rewrite !andb_true_iff, !orb_true_iff, Z.ltb_lt, !Z.leb_le;
    rewrite ?Z.leb_gt, ?Z.ltb_ge in M; lia.
Qed.

(* transactions are ordered by instant, and equal by instant, whatever notation was used and
   wherever the time stamps lie (no exception next to the epoch) *)
Theorem order_by_instant cfg a1 a2 r1 r2 :
  cfg_wf cfg -> ast_wf a1 -> ast_wf a2 -> sep_okb a1 r1 = true -> sep_okb a2 r2 = true ->
  spec_in_rangeb cfg a1 = true -> spec_in_rangeb cfg a2 = true ->
  exists z1 z2, parse_ts cfg (render a1 ++ r1) = Some (z1, r1) /\ parse_ts cfg (render a2 ++ r2) = Some (z2, r2) /\
    jts_cmp (z_ts z1) (z_ts z2) = Z.compare (spec_inst cfg a1) (spec_inst cfg a2) /\
    jts_eqb (z_ts z1) (z_ts z2) = (spec_inst cfg a1 =? spec_inst cfg a2) /\
    forall h1 h2, jheader_cmp (z_ts z1) h1 (z_ts z2) h2 = header_cmp (hdr_of z1 h1) (hdr_of z2 h2).
Proof.
  intros C W1 W2 S1 S2 R1 R2.
  destruct (parse_render cfg a1 r1 C W1 S1 R1) as (z1 & P1 & I1 & _ & _ & N1 & _).
  destruct (parse_render cfg a2 r2 C W2 S2 R2) as (z2 & P2 & I2 & _ & _ & N2 & _).
  exists z1, z2. split; [exact P1|]. split; [exact P2|].
  pose proof (jts_cmp_normal _ _ N1 N2) as J. split; [rewrite J, I1, I2; reflexivity|].
  split; [rewrite (jts_eqb_normal _ _ N1 N2), I1, I2; reflexivity|].
  intros h1 h2. unfold jheader_cmp, header_cmp, hdr_of. cbn [h_inst h_code h_desc h_uuid]. rewrite J. reflexivity.
Qed.

(* the same for ANY two texts the parser accepts (no grammar hypotheses at all) *)
Theorem parsed_order_by_instant cfg s1 s2 z1 z2 r1 r2 :
  parse_ts cfg s1 = Some (z1, r1) -> parse_ts cfg s2 = Some (z2, r2) ->
  jts_cmp (z_ts z1) (z_ts z2) = Z.compare (jts_inst (z_ts z1)) (jts_inst (z_ts z2)) /\
  jts_eqb (z_ts z1) (z_ts z2) = (jts_inst (z_ts z1) =? jts_inst (z_ts z2)) /\
  forall h1 h2, jheader_cmp (z_ts z1) h1 (z_ts z2) h2 = header_cmp (hdr_of z1 h1) (hdr_of z2 h2).
Proof.
  intros P1 P2. pose proof (proj1 (parsed_canonical _ _ _ _ P1)) as N1. pose proof (proj1 (parsed_canonical _ _ _ _ P2)) as N2.
  pose proof (jts_cmp_normal _ _ N1 N2) as J. split; [exact J|]. split; [exact (jts_eqb_normal _ _ N1 N2)|].
  intros h1 h2. unfold jheader_cmp, header_cmp, hdr_of. cbn [h_inst h_code h_desc h_uuid]. rewrite J. reflexivity.
Qed.

(* why the re-creation is needed: the library layer ALONE (the Zoned of the alternatives of
   parse_timestamp, before the instant is re-created) orders a later instant first and holds
   two spellings of one instant as unequal pairs, next to the epoch (the former finding F17) *)
Definition w_cfg : tscfg := mkTsCfg 0 0 0 0 (ZFixed 0).
Definition w_a1 : ts_ast := TsZoned 1970 1 1 0 0 0 (Some [53%N]) (ZOff false 1 0).   (* 1970-01-01T00:00:00.5+01:00 *)
Definition w_a2 : ts_ast := TsZoned 1969 12 31 23 0 0 (Some [52%N]) ZZulu.           (* 1969-12-31T23:00:00.4Z *)
Definition w_a3 : ts_ast := TsZoned 1969 12 31 23 0 0 (Some [53%N]) ZZulu.           (* 1969-12-31T23:00:00.5Z *)
(* the pairs the library builds for them *)
Definition w_j1 : jts := mkJts (-3600) 500000000.          (* mixed sign *)
Definition w_j2 : jts := mkJts (-3599) (-600000000).
Definition w_j3 : jts := mkJts (-3599) (-500000000).
(* the canonical pairs of the same instants *)
Definition w_n1 : jts := mkJts (-3599) (-500000000).
Definition w_n2 : jts := mkJts (-3599) (-600000000).

Lemma w_cfg_wf : cfg_wf w_cfg.
Proof. split; [reflexivity|]. cbn. unfold OFF_MAX. lia. Qed.

Theorem jiff_layer_refuted :
  cfg_wf w_cfg /\ Forall ast_wf [w_a1; w_a2; w_a3] /\
  Forall (fun a => spec_in_rangeb w_cfg a = true) [w_a1; w_a2; w_a3] /\
  parse_ts_alt w_cfg (render w_a1) = Some (mkZoned w_j1 3600, ZFixed 3600, []) /\
  parse_ts_alt w_cfg (render w_a2) = Some (mkZoned w_j2 0, ZFixed 0, []) /\
  parse_ts_alt w_cfg (render w_a3) = Some (mkZoned w_j3 0, ZFixed 0, []) /\
  (* a later instant, ordered first *)
  spec_inst w_cfg w_a2 < spec_inst w_cfg w_a1 /\ jts_inst w_j2 < jts_inst w_j1 /\ jts_cmp w_j1 w_j2 = Lt /\
  (* one instant, unequal and ordered *)
  spec_inst w_cfg w_a1 = spec_inst w_cfg w_a3 /\ jts_inst w_j1 = jts_inst w_j3 /\
  jts_eqb w_j1 w_j3 = false /\ jts_cmp w_j1 w_j3 = Lt /\
  (* because the first pair is not canonical: it is in the class epoch_mixedb *)
  ts_normalb w_j1 = false /\
  epoch_mixedb (ast_civil w_cfg w_a1) (ast_conv_off w_cfg w_a1) = true.
Proof.
  split; [exact w_cfg_wf|].
  split; [repeat constructor|]. split; [repeat constructor|].
  repeat match goal with |- _ /\ _ => split end; vm_compute; reflexivity.
Qed.

(* the same witnesses through parse_timestamp as it is now: canonical pairs, the later instant
   last, the two spellings of one instant equal (the very same pair) *)
Theorem witnesses_repaired :
  parse_ts w_cfg (render w_a1) = Some (mkZoned w_n1 3600, []) /\
  parse_ts w_cfg (render w_a2) = Some (mkZoned w_n2 0, []) /\
  parse_ts w_cfg (render w_a3) = Some (mkZoned w_n1 0, []) /\
  jts_renorm w_j1 = Some w_n1 /\ jts_renorm w_j2 = Some w_n2 /\ jts_renorm w_j3 = Some w_n1 /\
  ts_normalb w_n1 = true /\ ts_normalb w_n2 = true /\
  jts_inst w_n1 = spec_inst w_cfg w_a1 /\ jts_inst w_n2 = spec_inst w_cfg w_a2 /\
  jts_cmp w_n1 w_n2 = Gt /\ jts_cmp w_n2 w_n1 = Lt /\
  jts_eqb w_n1 w_n1 = true /\ jts_cmp w_n1 w_n1 = Eq.
Proof. repeat match goal with |- _ /\ _ => split end; vm_compute; reflexivity. Qed.

(* ------------------------------------------------------------------ C16_fraction: printing *)
Lemma strip_zeros_rev_repeat k l : strip_zeros_rev (repeat 48%N k ++ l) = strip_zeros_rev l.
Proof. induction k as [|k IH]; [reflexivity|]. cbn [repeat app strip_zeros_rev]. rewrite N.eqb_refl. exact IH. Qed.

Lemma rev_repeat' {A} (x : A) k : rev (repeat x k) = repeat x k.
Proof.
  induction k as [|k IH]; [reflexivity|]. cbn [repeat rev]. rewrite IH.
  clear IH. induction k as [|k IH]; [reflexivity|]. cbn [repeat app]. rewrite IH. reflexivity.
Qed.

Lemma strip_trailing_app_zeros ds k : strip_trailing_zeros (ds ++ repeat 48%N k) = strip_trailing_zeros ds.
Proof. unfold strip_trailing_zeros. rewrite rev_app_distr, rev_repeat', strip_zeros_rev_repeat. reflexivity. Qed.

Lemma frac_pos_zeros j : forall k, frac_pos (repeat 48%N j) k = 0.
Proof. induction j as [|j IH]; intros k; [reflexivity|]. cbn [repeat frac_pos]. rewrite IH. change (digit_val 48) with 0. lia. Qed.

Lemma frac_pos_app_zeros ds j : forall k, frac_pos (ds ++ repeat 48%N j) k = frac_pos ds k.
Proof.
  induction ds as [|c ds IH]; intros k; cbn [app frac_pos]; [apply frac_pos_zeros|]. rewrite IH. reflexivity.
Qed.

Lemma dch_digit_val c : is_digit c = true -> dch (digit_val c) = c.
Proof.
  intros H. unfold dch, digit_val. replace (Z.of_N c - 48 + 48) with (Z.of_N c) by lia. apply N2Z.id.
Qed.

Lemma digit_repr c : is_digit c = true -> exists d, 0 <= d <= 9 /\ c = dch d.
Proof. intros H. exists (digit_val c). split; [apply is_digit_val; exact H|symmetry; apply dch_digit_val; exact H]. Qed.

Lemma dch_val d : 0 <= d <= 9 -> digit_val (dch d) = d.
Proof. intros H. apply (dch_digit d H). Qed.

Lemma pad9_frac9 c1 c2 c3 c4 c5 c6 c7 c8 c9 :
  Forall (fun c => is_digit c = true) [c1; c2; c3; c4; c5; c6; c7; c8; c9] ->
  pad9 (frac_pos [c1; c2; c3; c4; c5; c6; c7; c8; c9] 8) = [c1; c2; c3; c4; c5; c6; c7; c8; c9].
Proof.
  intros F.
  repeat match goal with H : Forall _ (_ :: _) |- _ => inversion H; clear H; subst end.
  repeat match goal with H : is_digit ?c = true |- _ =>
    let d := fresh "d" in let Hd := fresh "Hd" in
    destruct (digit_repr c H) as (d & Hd & ->); clear H end.
  cbn [frac_pos]. rewrite !dch_val by assumption. unfold pad9.
  change (10 ^ 8) with 100000000. change (10 ^ (8 - 1)) with 10000000.
  change (10 ^ (8 - 1 - 1)) with 1000000. change (10 ^ (8 - 1 - 1 - 1)) with 100000.
  change (10 ^ (8 - 1 - 1 - 1 - 1)) with 10000. change (10 ^ (8 - 1 - 1 - 1 - 1 - 1)) with 1000.
  change (10 ^ (8 - 1 - 1 - 1 - 1 - 1 - 1)) with 100. change (10 ^ (8 - 1 - 1 - 1 - 1 - 1 - 1 - 1)) with 10.
  change (10 ^ (8 - 1 - 1 - 1 - 1 - 1 - 1 - 1 - 1)) with 1.
  repeat (f_equal; [f_equal; lia|]). f_equal. f_equal. lia.
Qed.

Lemma pad9_frac ds : Forall (fun c => is_digit c = true) ds -> (length ds <= 9)%nat ->
  pad9 (frac_pos ds 8) = ds ++ repeat 48%N (9 - length ds).
Proof.
  intros F L. rewrite <- (frac_pos_app_zeros ds (9 - length ds) 8).
  assert (Forall (fun c => is_digit c = true) (ds ++ repeat 48%N (9 - length ds))) as F9.
  { apply Forall_app. split; [exact F|]. apply Forall_forall. intros x Hx. apply repeat_spec in Hx. subst. reflexivity. }
  assert (length (ds ++ repeat 48%N (9 - length ds)) = 9%nat) as L9 by (rewrite app_length, repeat_length; lia).
  destruct (ds ++ repeat 48%N (9 - length ds)) as [|c1 [|c2 [|c3 [|c4 [|c5 [|c6 [|c7 [|c8 [|c9 [|c10 l]]]]]]]]]];
    try discriminate L9.
  apply pad9_frac9. exact F9.
Qed.

Lemma frac_pos_all_zero ds : forall k, forallb (N.eqb 48) ds = true -> frac_pos ds k = 0.
Proof.
  induction ds as [|c ds IH]; intros k H; [reflexivity|]. cbn [forallb] in H. apply andb_true_iff in H.
  destruct H as [H1 H2]. apply N.eqb_eq in H1. subst c. cbn [frac_pos]. rewrite IH by exact H2.
  change (digit_val 48) with 0. lia.
Qed.

(* parse then print: the written digits come back without their trailing zeros *)
Theorem fraction_print ds : frac_wf (Some ds) ->
  fmt_frac (spec_frac (Some ds)) =
  if forallb (N.eqb 48) ds then [] else ch_dot :: strip_trailing_zeros ds.
Proof.
  intros [F L]. cbn [spec_frac]. destruct (forallb (N.eqb 48) ds) eqn:Z0.
  - rewrite frac_pos_all_zero by exact Z0. reflexivity.
  - unfold fmt_frac. pose proof (pad9_frac ds F ltac:(lia)) as P.
    destruct (frac_pos ds 8 =? 0) eqn:E.
    + exfalso. apply Z.eqb_eq in E. rewrite E in P. change (pad9 0) with (repeat 48%N 9) in P.
      assert (forallb (N.eqb 48) ds = true) as A; [|congruence].
      apply forallb_forall. intros x Hx. apply N.eqb_eq. symmetry.
      apply (repeat_spec 9 48%N x). rewrite P. apply in_or_app. left. exact Hx.
    + rewrite P, strip_trailing_app_zeros. reflexivity.
Qed.

(* ------------------------------------------------------------------ display *)
(* the civil time shown for an instant at an offset denotes that same instant
   (for every pair the library can hold, sign-consistent or not) *)
Theorem display_same_instant t off : Z.abs (j_ns t) < NS ->
  civil_ns (jts_to_civil t off) - off * NS = jts_inst t /\ civil_wf (jts_to_civil t off).
Proof.
  intros Hn. unfold jts_to_civil, jts_inst, NS in *.
  set (second := j_sec t + off).
  assert (0 <= second mod 86400 < 86400) as Hs by (apply Z.mod_pos_bound; lia).
  pose proof (Z.div_mod second 86400 ltac:(lia)) as Hd.
  destruct (j_ns t <? 0) eqn:En; [destruct (0 <? second mod 86400) eqn:Es|];
    rewrite ?Z.ltb_lt, ?Z.ltb_ge in *;
    match goal with |- context [ts_date_of_day ?day] =>
      pose proof (date_of_day_ok day) as Hday; destruct (ts_date_of_day day) as [[y m] d] end;
    destruct Hday as [He V]; pose proof (valid_unfold _ _ _ V) as [Hm _];
    rewrite epoch_day_spec in He by exact Hm;
    unfold civil_ns, spec_civil_ns, civil_wf, NS; cbn [cv_y cv_m cv_d cv_h cv_mi cv_s cv_ns];
    rewrite He; (split; [lia|]); (split; [exact V|]); apply ts_time_ok_iff; lia.
Qed.

(* ------------------------------------------------------------------ sorting on the representation *)
Lemma insert_by_map {A B} (f : A -> B) (leb1 : A -> A -> bool) (leb2 : B -> B -> bool) x l :
  (forall y, In y l -> leb1 x y = leb2 (f x) (f y)) ->
  map f (insert_by leb1 x l) = insert_by leb2 (f x) (map f l).
Proof.
  induction l as [|y l IH]; intros H; [reflexivity|]. cbn [insert_by map].
  rewrite <- (H y (or_introl eq_refl)). destruct (leb1 x y); [reflexivity|].
  cbn [map]. rewrite IH; [reflexivity|]. intros z Hz. apply H. right. exact Hz.
Qed.

Lemma sort_by_map {A B} (f : A -> B) (leb1 : A -> A -> bool) (leb2 : B -> B -> bool) l :
  (forall x y, In x l -> In y l -> leb1 x y = leb2 (f x) (f y)) ->
  map f (sort_by leb1 l) = sort_by leb2 (map f l).
Proof.
  induction l as [|x l IH]; intros H; [reflexivity|]. cbn [sort_by map].
  rewrite (insert_by_map f leb1 leb2).
  - rewrite IH; [reflexivity|]. intros a b Ha Hb. apply H; right; assumption.
  - intros y Hy. apply H; [left; reflexivity|]. right. apply (sort_by_in leb1 y l). exact Hy.
Qed.

(* a transaction as held: representation pair + header whose h_inst is its instant *)
Definition jt_ok (jt : jts * txn) : Prop :=
  ts_normal (fst jt) /\ h_inst (t_hdr (snd jt)) = jts_inst (fst jt).

Lemma jtxn_leb_normal a b : jt_ok a -> jt_ok b -> jtxn_leb a b = txn_leb (snd a) (snd b).
Proof.
  intros [Na Ia] [Nb Ib]. unfold jtxn_leb, txn_leb, jheader_cmp, header_cmp.
  rewrite (jts_cmp_normal _ _ Na Nb), Ia, Ib. reflexivity.
Qed.

(* with canonical representations the implementation's sort is the sort by instant *)
Theorem jsort_is_sort l : Forall jt_ok l -> map snd (jsort_txns l) = sort_txns (map snd l).
Proof.
  intros F. unfold jsort_txns, sort_txns. apply sort_by_map.
  intros x y Hx Hy. rewrite Forall_forall in F. apply jtxn_leb_normal; apply F; assumption.
Qed.

(* a transaction as the implementation holds it after parsing: its time stamp is what
   parse_timestamp returned for some text (under the configuration of the run), and the
   header carries that Zoned *)
Definition jt_parsed (cfg : tscfg) (jt : jts * txn) : Prop :=
  exists s z r, parse_ts cfg s = Some (z, r) /\ fst jt = z_ts z /\ t_hdr (snd jt) = hdr_of z (t_hdr (snd jt)).

Lemma jt_parsed_ok cfg jt : jt_parsed cfg jt -> jt_ok jt.
Proof.
  intros (s & z & r & P & E & H). split.
  - rewrite E. exact (proj1 (parsed_canonical _ _ _ _ P)).
  - rewrite H, E. reflexivity.
Qed.

(* so the sort of every parsed transaction set is the sort by instant: no hypothesis on the
   representation, no excluded class *)
Theorem jsort_parsed_is_sort cfg l : Forall (jt_parsed cfg) l -> map snd (jsort_txns l) = sort_txns (map snd l).
Proof.
  intros F. apply jsort_is_sort. eapply Forall_impl; [|exact F]. intros jt. apply jt_parsed_ok.
Qed.

(* ------------------------------------------------------------------ report zone: display only *)
(* the order of the entries and the entries themselves do not depend on the report zone;
   the zone only chooses the label *)
Theorem report_zone_display_only rtz1 rtz2 l :
  map snd (report_view rtz1 l) = map snd (report_view rtz2 l) /\
  map snd (report_view rtz1 l) = map snd (jsort_txns (map (fun zt => (z_ts (fst zt), snd zt)) l)).
Proof.
  unfold report_view. rewrite !map_map. cbn [snd]. split; reflexivity.
Qed.

(* the label is the civil time of the same instant in the report zone *)
Theorem report_label_same_instant rtz z : Z.abs (j_ns (z_ts z)) < NS ->
  let c := zoned_civil (with_time_zone rtz z) in
  civil_ns c - rtz (jts_inst (z_ts z)) * NS = jts_inst (z_ts z) /\ civil_wf c.
Proof.
  intros H. unfold zoned_civil, with_time_zone. cbn [z_ts z_off].
  apply display_same_instant. exact H.
Qed.

(* ------------------------------------------------------------------ oracles *)
Theorem ts_oracle_sound cfg a ns off :
  ts_oracle cfg a (Some (ns, off)) = true -> ns = spec_inst cfg a /\ off = spec_off cfg a.
Proof. cbn [ts_oracle]. rewrite andb_true_iff, !Z.eqb_eq. tauto. Qed.

Lemma hdr_le_trans a b c : hdr_le a b -> hdr_le b c -> hdr_le a c.
Proof. unfold hdr_le. apply (co_le_trans _ header_cmp_ord). Qed.

Theorem order_oracle_sound l : order_oracle l = true -> StronglySorted hdr_le l.
Proof.
  induction l as [|a l IH]; intros H; [constructor|].
  destruct l as [|b l']; [constructor; constructor|].
  cbn [order_oracle] in H. apply andb_true_iff in H. destruct H as [H1 H2].
  specialize (IH H2). constructor; [exact IH|].
  apply cmp_leb_true in H1. inversion IH as [|? ? Hs Hf]; subst.
  constructor; [exact H1|]. eapply Forall_impl; [|exact Hf]. intros c Hc. apply (hdr_le_trans a b c H1 Hc).
Qed.

(* sorted by header_cmp implies: instants never decrease along the list *)
Lemma hdr_le_inst a b : hdr_le a b -> h_inst a <= h_inst b.
Proof.
  unfold hdr_le, header_cmp, cmp_then. destruct (Z.compare_spec (h_inst a) (h_inst b)); try lia. congruence.
Qed.

(* ------------------------------------------------------------------ non-vacuity *)
(* "2024-03-31T03:30:00.250+03:00", "2024-03-31T00:30:00.25Z" and, under a +02:00 journal zone
   with default time 22:30:00.25, the local "2024-03-31T02:30:00.25" and the date "2024-03-30"
   (= 20:30:00.25Z the day before) *)
Definition ex_cfg : tscfg := mkTsCfg 22 30 0 250000000 (ZFixed 7200).
Definition ex_a1 : ts_ast := TsZoned 2024 3 31 3 30 0 (Some [50; 53; 48]%N) (ZOff false 3 0).
Definition ex_a2 : ts_ast := TsZoned 2024 3 31 0 30 0 (Some [50; 53]%N) ZZulu.
Definition ex_a3 : ts_ast := TsLocal 2024 3 31 2 30 0 (Some [50; 53]%N).
Definition ex_a4 : ts_ast := TsDate 2024 3 30.
Lemma ts_example :
  cfg_wf ex_cfg /\ Forall ast_wf [ex_a1; ex_a2; ex_a3; ex_a4] /\
  Forall (fun a => spec_in_rangeb ex_cfg a = true) [ex_a1; ex_a2; ex_a3; ex_a4] /\
  map (fun a => option_map (fun zr => (jts_inst (z_ts (fst zr)), z_off (fst zr), snd zr)) (parse_ts ex_cfg (render a)))
      [ex_a1; ex_a2; ex_a3; ex_a4]
  = [Some (1711845000250000000, 10800, []); Some (1711845000250000000, 0, []);
     Some (1711845000250000000, 7200, []); Some (1711830600250000000, 7200, [])] /\
  rfc_3339 (mkZoned (mkJts 1711845000 250000000) 10800)
  = [50;48;50;52;45;48;51;45;51;49;84;48;51;58;51;48;58;48;48;46;50;53;43;48;51;58;48;48]%N.
Proof.
  split; [split; [reflexivity|cbn; unfold OFF_MAX; lia]|].
  split; [repeat constructor|].
  split; [repeat constructor|].
  split; vm_compute; reflexivity.
Qed.
