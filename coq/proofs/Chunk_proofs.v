(* Chunk_proofs.v — "sort, chunk consecutive equal keys, sum with dadd": a generic
   version of Balance.chunk_acc / Balance.delta_acc and its specification. *)
From Coq Require Import Permutation Sorted.
From TkModel Require Import Base Dec.
From TkProofs Require Import Base_proofs Dec_proofs.
Local Open Scope Z_scope.

Section GChunk.
  Context {K : Type} (eqb : K -> K -> bool).
  Hypothesis eqb_eq : forall a b, eqb a b = true <-> a = b.

  Fixpoint gchunk (cur : K) (acc : dec) (l : list (K * dec)) : list (K * dec) :=
    match l with
    | [] => [(cur, acc)]
    | (k, v) :: l' =>
        if eqb k cur then gchunk cur (dadd acc v) l'
        else (cur, acc) :: gchunk k (dadd dzero v) l'
    end.

  Definition gchunks (l : list (K * dec)) : list (K * dec) :=
    match l with
    | [] => []
    | (k, v) :: l' => gchunk k (dadd dzero v) l'
    end.

  (* the value sum of the entries with key k *)
  Definition ksumv (k : K) (l : list (K * dec)) : Z :=
    zsum (map (fun e => d28 (snd e)) (filter (fun e => eqb (fst e) k) l)).

  Lemma eqb_refl a : eqb a a = true.
  Proof. apply eqb_eq. reflexivity. Qed.

  Lemma eqb_false a b : a <> b -> eqb a b = false.
  Proof. intros H. destruct (eqb a b) eqn:E; [apply eqb_eq in E; contradiction|reflexivity]. Qed.

  Lemma ksumv_cons k a x l : ksumv k ((a, x) :: l) = (if eqb a k then d28 x else 0) + ksumv k l.
  Proof.
    unfold ksumv. cbn [filter fst]. destruct (eqb a k); cbn [map snd]; rewrite ?zsum_cons; lia.
  Qed.

  Lemma ksumv_nil k : ksumv k [] = 0.
  Proof. reflexivity. Qed.

  Lemma ksumv_notin k l : ~ In k (map fst l) -> ksumv k l = 0.
  Proof.
    induction l as [|[a x] l IH]; intros H; [reflexivity|]. rewrite ksumv_cons.
    cbn [map fst In] in H. rewrite IH by tauto. rewrite eqb_false by tauto. reflexivity.
  Qed.

  Lemma ksumv_perm k l1 l2 : Permutation l1 l2 -> ksumv k l1 = ksumv k l2.
  Proof.
    intros H. unfold ksumv. apply zsum_map_perm.
    apply filter_perm. exact H.
  Qed.

  Variable R : K -> K -> Prop.
  Hypothesis R_antisym : forall a b, R a b -> R b a -> a = b.

  Lemma gchunk_spec l : forall cur acc,
    StronglySorted R (cur :: map fst l) -> dwf acc -> Forall (fun e => dwf (snd e)) l ->
    (forall k, In k (map fst (gchunk cur acc l)) <-> k = cur \/ In k (map fst l)) /\
    StronglySorted (fun a b => R a b /\ a <> b) (map fst (gchunk cur acc l)) /\
    (forall k v, In (k, v) (gchunk cur acc l) -> dwf v /\ d28 v = ksumv k ((cur, acc) :: l)).
  Proof.
    induction l as [|[k v] l IH]; intros cur acc Hs Ha Hl.
    - cbn [gchunk map fst]. split; [|split].
      + intros k. cbn [In]. intuition congruence.
      + constructor; constructor.
      + intros k v [E|[]]. inversion E; subst. split; [exact Ha|].
        rewrite ksumv_cons, eqb_refl, ksumv_nil. lia.
    - cbn [gchunk]. cbn [map fst] in Hs.
      inversion Hs as [|? ? Hs' Hf]; subst. inversion Hl as [|? ? Hv Hl']; subst. cbn [snd] in Hv.
      destruct (eqb k cur) eqn:E.
      + apply eqb_eq in E. subst k.
        destruct (IH cur (dadd acc v) Hs' (dwf_dadd _ _ Ha Hv) Hl') as (I1 & I2 & I3).
        split; [|split].
        * intros k. rewrite I1. cbn [map fst In]. intuition congruence.
        * exact I2.
        * intros k' v' Hin. destruct (I3 k' v' Hin) as [W V]. split; [exact W|].
          rewrite V, !ksumv_cons. destruct (eqb cur k'); rewrite ?d28_dadd by assumption; lia.
      + assert (k <> cur) as Hne by (intros X; subst; rewrite eqb_refl in E; discriminate).
        destruct (IH k (dadd dzero v) Hs' (dwf_dadd _ _ dwf_dzero Hv) Hl') as (I1 & I2 & I3).
        assert (forall b, b = k \/ In b (map fst l) -> R cur b /\ cur <> b) as Hsep.
        { intros b Hb. rewrite Forall_forall in Hf. split.
          - apply Hf. destruct Hb as [Hb|Hb]; [left; congruence|right; exact Hb].
          - intros X. subst b. destruct Hb as [Hb|Hb]; [congruence|].
            inversion Hs' as [|? ? _ Hfk]; subst. rewrite Forall_forall in Hfk.
            apply Hne. apply R_antisym; [apply Hfk; exact Hb|apply Hf; left; reflexivity]. }
        split; [|split].
        * intros k'. cbn [map fst In]. rewrite I1. intuition congruence.
        * cbn [map fst]. constructor; [exact I2|]. apply Forall_forall. intros b Hb.
          apply Hsep. apply I1. exact Hb.
        * intros k' v' [Hin|Hin].
          -- inversion Hin; subst. split; [exact Ha|].
             rewrite !ksumv_cons, eqb_refl, E. rewrite ksumv_notin; [lia|].
             intros X. destruct (Hsep k' (or_intror X)) as [_ Y]. congruence.
          -- destruct (I3 k' v' Hin) as [W V]. split; [exact W|]. rewrite V.
             change (dadd dzero v) with v. rewrite (ksumv_cons k' cur).
             assert (cur <> k') as Hck.
             { apply Hsep. apply I1. apply in_map_iff. exists (k', v'). split; [reflexivity|exact Hin]. }
             rewrite (eqb_false cur k' Hck). lia.
  Qed.

  Lemma gchunks_spec l :
    StronglySorted R (map fst l) -> Forall (fun e => dwf (snd e)) l ->
    (forall k, In k (map fst (gchunks l)) <-> In k (map fst l)) /\
    StronglySorted (fun a b => R a b /\ a <> b) (map fst (gchunks l)) /\
    (forall k v, In (k, v) (gchunks l) -> dwf v /\ d28 v = ksumv k l).
  Proof.
    intros Hs Hl. destruct l as [|[k0 v0] l]; cbn [gchunks].
    - split; [|split]; [intros k; reflexivity|constructor|intros k v []].
    - inversion Hl as [|? ? Hv Hl']; subst. cbn [snd] in Hv. change (dadd dzero v0) with v0.
      destruct (gchunk_spec l k0 v0 Hs Hv Hl') as (I1 & I2 & I3).
      split; [|split]; [|exact I2|exact I3].
      intros k. rewrite I1. cbn [map fst In]. intuition congruence.
  Qed.
End GChunk.
