(* Register_proofs.v — lemmas behind props/C03.v. *)
From Coq Require Import Permutation Sorted.
From TkModel Require Import Base Dec Acct Txn Balance Register.
From TkSpec Require Import Balance_spec Register_spec.
From TkProofs Require Import Base_proofs Dec_proofs Acct_proofs.
Local Open Scope Z_scope.

(* ------------------------------------------------------------------ *)
(* the header order is a total preorder *)

Lemma c03_Zcompare_ord : cmp_ord Z.compare.
Proof.
  constructor.
  - intros a b. apply Z.compare_antisym.
  - intros a b c H1 H2. rewrite Z.compare_lt_iff in *. lia.
  - intros a b c H. apply Z.compare_eq_iff in H. subst. reflexivity.
Qed.

Lemma header_cmp_ord : cmp_ord header_cmp.
Proof.
  unfold header_cmp.
  apply (cmp_ord_lex (fun a b => Z.compare (h_inst a) (h_inst b))).
  { apply (cmp_ord_preimage h_inst Z.compare c03_Zcompare_ord). }
  apply (cmp_ord_lex (fun a b => str_cmp (opt_str (h_code a)) (opt_str (h_code b)))).
  { apply (cmp_ord_preimage (fun h => opt_str (h_code h)) str_cmp str_cmp_ord). }
  apply (cmp_ord_lex (fun a b => str_cmp (opt_str (h_desc a)) (opt_str (h_desc b)))).
  { apply (cmp_ord_preimage (fun h => opt_str (h_desc h)) str_cmp str_cmp_ord). }
  apply (cmp_ord_preimage (fun h => opt_str (h_uuid h)) str_cmp str_cmp_ord).
Qed.

Lemma txn_cmp_ord : cmp_ord (fun a b : txn => header_cmp (t_hdr a) (t_hdr b)).
Proof. apply (cmp_ord_preimage t_hdr header_cmp header_cmp_ord). Qed.

Lemma txn_leb_total a b : txn_leb a b = false -> txn_leb b a = true.
Proof. apply (co_leb_total _ txn_cmp_ord). Qed.

Lemma txn_leb_trans a b c : txn_leb a b = true -> txn_leb b c = true -> txn_leb a c = true.
Proof. apply (co_leb_trans _ txn_cmp_ord). Qed.

Lemma txn_leb_le a b : txn_leb a b = true <-> hdr_le a b.
Proof. unfold txn_leb, hdr_le. apply cmp_leb_true. Qed.

Lemma sort_txns_perm l : Permutation (sort_txns l) l.
Proof. apply sort_by_perm. Qed.

Lemma sort_txns_sorted l : StronglySorted hdr_le (sort_txns l).
Proof.
  apply StronglySorted_impl with (R := fun a b => txn_leb a b = true).
  - intros a b _ _. apply txn_leb_le.
  - apply sort_by_sorted; [exact txn_leb_total|exact txn_leb_trans].
Qed.

(* transactions with equal headers keep their input order *)
Lemma sort_txns_stable h l : filter (hdr_same h) (sort_txns l) = filter (hdr_same h) l.
Proof.
  unfold sort_txns.
  rewrite (filter_sort_by txn_leb txn_leb_total txn_leb_trans).
  apply (sort_by_id txn_leb).
  assert (forall m, Forall (fun t => hdr_same h t = true) m ->
                    StronglySorted (fun a b => txn_leb a b = true) m) as K.
  { induction m as [|x m IH]; intros F; constructor.
    - apply IH. inversion F; assumption.
    - inversion F as [|? ? Hx Hm]; subst. rewrite Forall_forall in *. intros y Hy.
      specialize (Hm y Hy). unfold hdr_same in Hx, Hm. unfold txn_leb.
      destruct (header_cmp (t_hdr x) h) eqn:Ex; try discriminate.
      destruct (header_cmp (t_hdr y) h) eqn:Ey; try discriminate.
      rewrite (co_eq_l _ header_cmp_ord _ _ _ Ex).
      rewrite (co_opp _ header_cmp_ord), Ey. reflexivity. }
  apply K. rewrite Forall_forall. intros t Ht. apply filter_In in Ht. tauto.
Qed.

(* with pairwise distinct headers there is exactly one sorted arrangement *)
Lemma sorted_distinct_strict l :
  NoDup l ->
  (forall a b, In a l -> In b l -> header_cmp (t_hdr a) (t_hdr b) = Eq -> a = b) ->
  StronglySorted hdr_le l -> StronglySorted hdr_lt l.
Proof.
  intros Hnd Hd Hs. induction Hs as [|x l Hs IH Hf]; constructor.
  - apply IH; [inversion Hnd; assumption|].
    intros a b Ha Hb. apply Hd; right; assumption.
  - inversion Hnd as [|? ? Hni _]; subst. rewrite Forall_forall in *. intros y Hy.
    specialize (Hf y Hy). unfold hdr_le in Hf. unfold hdr_lt.
    destruct (header_cmp (t_hdr x) (t_hdr y)) eqn:E; [|reflexivity|congruence].
    exfalso. apply Hni. rewrite (Hd x y (or_introl eq_refl) (or_intror Hy) E). exact Hy.
Qed.

Lemma sort_txns_unique l l' :
  NoDup l ->
  (forall a b, In a l -> In b l -> header_cmp (t_hdr a) (t_hdr b) = Eq -> a = b) ->
  Permutation l' l -> StronglySorted hdr_le l' -> l' = sort_txns l.
Proof.
  intros Hnd Hd Hp Hs.
  assert (forall m, Permutation m l -> StronglySorted hdr_le m -> StronglySorted hdr_lt m) as K.
  { intros m Hm Hsm. apply sorted_distinct_strict; [| |exact Hsm].
    - apply (Permutation_NoDup (Permutation_sym Hm) Hnd).
    - intros a b Ha Hb. apply Hd; apply (Permutation_in _ Hm); assumption. }
  apply (sorted_perm_unique hdr_lt).
  - unfold hdr_lt. intros a b H1 H2. rewrite (co_opp _ header_cmp_ord), H2 in H1. discriminate.
  - apply K; assumption.
  - apply K; [apply sort_txns_perm|apply sort_txns_sorted].
  - transitivity l; [exact Hp|apply Permutation_sym, sort_txns_perm].
Qed.

(* ------------------------------------------------------------------ *)
(* order of the rows inside an entry *)

Lemma post_leb_total a b : post_leb a b = false -> post_leb b a = true.
Proof. unfold post_leb. apply key_leb_total. Qed.
Lemma post_leb_trans a b c : post_leb a b = true -> post_leb b c = true -> post_leb a c = true.
Proof. unfold post_leb. apply key_leb_trans. Qed.
Lemma rrow_leb_total a b : rrow_leb a b = false -> rrow_leb b a = true.
Proof. unfold rrow_leb. apply post_leb_total. Qed.
Lemma rrow_leb_trans a b c : rrow_leb a b = true -> rrow_leb b c = true -> rrow_leb a c = true.
Proof. unfold rrow_leb. apply post_leb_trans. Qed.

Lemma entry_posts_perm t : Permutation (entry_posts t) (t_posts t).
Proof. apply sort_by_perm. Qed.

Lemma entry_posts_sorted t : StronglySorted post_le (entry_posts t).
Proof.
  apply StronglySorted_impl with (R := fun a b => post_leb a b = true).
  - intros a b _ _. unfold post_leb, post_le. apply key_leb_true.
  - apply sort_by_sorted; [exact post_leb_total|exact post_leb_trans].
Qed.

(* postings to the same (account, commodity) keep their order of the transaction *)
Lemma entry_posts_stable k t : filter (same_key k) (entry_posts t) = filter (same_key k) (t_posts t).
Proof.
  unfold entry_posts.
  rewrite (filter_sort_by post_leb post_leb_total post_leb_trans).
  apply (sort_by_id post_leb).
  assert (forall m, Forall (fun p => same_key k p = true) m ->
                    StronglySorted (fun a b => post_leb a b = true) m) as K.
  { induction m as [|x m IH]; intros F; constructor.
    - apply IH. inversion F; assumption.
    - inversion F as [|? ? Hx Hm]; subst. rewrite Forall_forall in *. intros y Hy.
      specialize (Hm y Hy). unfold same_key in Hx, Hm.
      apply key_eqb_eq in Hx, Hm. unfold post_leb. rewrite Hx, Hm.
      apply key_leb_true. rewrite key_cmp_refl. discriminate. }
  apply K. rewrite Forall_forall. intros p Hp. apply filter_In in Hp. tauto.
Qed.

(* ------------------------------------------------------------------ *)
(* the accumulator *)

Lemma st_upd_snd st k a :
  snd (st_upd st k a) = match st_get st k with Some v => dadd v a | None => a end.
Proof.
  induction st as [|[k' v] st IH]; cbn [st_upd st_get]; [reflexivity|].
  destruct (key_eqb k' k); cbn [snd]; [reflexivity|exact IH].
Qed.

Lemma st_upd_get st k a k2 :
  st_get (fst (st_upd st k a)) k2 =
  if key_eqb k k2 then Some (snd (st_upd st k a)) else st_get st k2.
Proof.
  induction st as [|[k' v] st IH]; cbn [st_upd st_get fst snd].
  - destruct (key_eqb k k2); reflexivity.
  - destruct (key_eqb k' k) eqn:E; cbn [fst snd st_get].
    + apply key_eqb_eq in E. subst k'. destruct (key_eqb k k2); reflexivity.
    + destruct (key_eqb k' k2) eqn:E2.
      * apply key_eqb_eq in E2. subst k2. rewrite key_eqb_sym, E. reflexivity.
      * exact IH.
Qed.

Definition st_wf (st : list ((list (list N) * list N) * dec)) : Prop :=
  forall k v, st_get st k = Some v -> dwf v.

(* the accumulator holds, for every key, the exact sum of the postings seen so far *)
Definition st_inv (st : list ((list (list N) * list N) * dec)) (seen : list posting) : Prop :=
  st_wf st /\ forall k, st_val st k = key_sum k seen.

Lemma st_inv_nil : st_inv [] [].
Proof. split; [intros k v H; discriminate|intros k; reflexivity]. Qed.

Lemma key_sum_app k a b : key_sum k (a ++ b) = key_sum k a + key_sum k b.
Proof. unfold key_sum. rewrite filter_app, map_app, zsum_app. reflexivity. Qed.

Lemma key_sum_one k p : key_sum k [p] = if same_key k p then pamt28 p else 0.
Proof.
  unfold key_sum. cbn [filter]. destruct (same_key k p); cbn [map]; rewrite ?zsum_cons, ?zsum_nil; lia.
Qed.

Lemma key_sum_perm k a b : Permutation a b -> key_sum k a = key_sum k b.
Proof. intros H. unfold key_sum. rewrite !zsum_map_filter. apply zsum_map_perm. exact H. Qed.

Lemma st_step st seen p :
  st_inv st seen -> posting_wf p ->
  st_inv (fst (st_upd st (p_key p) (p_amount p))) (seen ++ [p])
  /\ d28 (snd (st_upd st (p_key p) (p_amount p))) = spec_total seen p.
Proof.
  intros [Hwf Hv] Hp.
  assert (dwf (snd (st_upd st (p_key p) (p_amount p)))
          /\ d28 (snd (st_upd st (p_key p) (p_amount p))) = spec_total seen p) as [Hd Ht].
  { rewrite st_upd_snd. unfold spec_total. rewrite <- (Hv (p_key p)). unfold st_val.
    destruct (st_get st (p_key p)) as [v|] eqn:G.
    - split; [apply dwf_dadd; [apply (Hwf _ _ G)|exact Hp]|].
      rewrite d28_dadd; [reflexivity|apply (Hwf _ _ G)|exact Hp].
    - split; [exact Hp|]. unfold pamt28. lia. }
  split; [|exact Ht]. split.
  - intros k v. rewrite st_upd_get. destruct (key_eqb (p_key p) k).
    + intros E. inversion E. subst v. exact Hd.
    + apply Hwf.
  - intros k. unfold st_val. rewrite st_upd_get, key_sum_app, key_sum_one. unfold same_key.
    destruct (key_eqb (p_key p) k) eqn:E.
    + apply key_eqb_eq in E. subst k. cbv beta iota. unfold spec_total in Ht. exact Ht.
    + specialize (Hv k). unfold st_val in Hv. rewrite Hv. lia.
Qed.

Lemma acc_rows_spec h ps : forall st seen,
  st_inv st seen -> Forall posting_wf ps ->
  st_inv (fst (acc_rows conv_id h st ps)) (seen ++ ps)
  /\ map obs_row (snd (acc_rows conv_id h st ps)) = spec_rows seen ps.
Proof.
  induction ps as [|p ps IH]; intros st seen Hi Hw; cbn [acc_rows fst snd spec_rows map].
  - rewrite app_nil_r. split; [exact Hi|reflexivity].
  - inversion Hw as [|? ? Hp Hw']; subst.
    change (conv_id h p) with (p_key p, p_amount p, @None dec). cbn [fst snd].
    destruct (st_step st seen p Hi Hp) as [Hi1 Ht].
    destruct (IH _ _ Hi1 Hw') as [Hi2 Hr].
    split.
    + rewrite <- app_assoc in Hi2. exact Hi2.
    + unfold obs_row at 1. cbn [rr_post rr_total]. rewrite Ht. f_equal. exact Hr.
Qed.

(* the rows come out in the order of the postings fed in, whatever the conversion *)
Lemma acc_rows_posts conv h ps : forall st, map rr_post (snd (acc_rows conv h st ps)) = ps.
Proof.
  induction ps as [|p ps IH]; intros st; cbn [acc_rows snd map]; [reflexivity|].
  cbn [rr_post]. f_equal. apply IH.
Qed.

Lemma rows_sorted conv h st ps :
  StronglySorted (fun a b => post_leb a b = true) ps ->
  StronglySorted (fun a b => rrow_leb a b = true) (snd (acc_rows conv h st ps)).
Proof.
  intros H. unfold rrow_leb.
  apply (StronglySorted_map (fun a b => post_leb a b = true) rr_post).
  rewrite acc_rows_posts. exact H.
Qed.

(* the final sort of the kept rows changes nothing: they are sorted already *)
Lemma reg_txn_rows conv sel st t :
  re_rows (snd (reg_txn conv sel st t)) =
  filter sel (snd (acc_rows conv (t_hdr t) st (entry_posts t))).
Proof.
  unfold reg_txn. cbn [snd re_rows].
  apply (sort_by_id rrow_leb). apply StronglySorted_filter. apply rows_sorted.
  apply sort_by_sorted; [exact post_leb_total|exact post_leb_trans].
Qed.

Lemma reg_txn_fst conv sel st t :
  fst (reg_txn conv sel st t) = fst (acc_rows conv (t_hdr t) st (entry_posts t)).
Proof. reflexivity. Qed.

Lemma reg_txn_txn conv sel st t : re_txn (snd (reg_txn conv sel st t)) = t.
Proof. reflexivity. Qed.

Lemma entry_posts_wf t : txn_wf t -> Forall posting_wf (entry_posts t).
Proof.
  intros H. apply (Permutation_Forall (Permutation_sym (entry_posts_perm t))). exact H.
Qed.

Lemma reg_engine_spec ts : forall st seen,
  st_inv st seen -> Forall txn_wf ts ->
  st_inv (fst (reg_engine conv_id sel_all st ts)) (seen ++ flat_map entry_posts ts)
  /\ map obs_entry (snd (reg_engine conv_id sel_all st ts)) = spec_entries entry_posts seen ts.
Proof.
  induction ts as [|t ts IH]; intros st seen Hi Hw; cbn [reg_engine fst snd flat_map spec_entries map].
  - rewrite app_nil_r. split; [exact Hi|reflexivity].
  - inversion Hw as [|? ? Ht Hw']; subst.
    destruct (acc_rows_spec (t_hdr t) (entry_posts t) st seen Hi (entry_posts_wf t Ht)) as [Hi1 Hr].
    rewrite <- (reg_txn_fst conv_id sel_all) in Hi1.
    destruct (IH _ _ Hi1 Hw') as [Hi2 He].
    split.
    + rewrite app_assoc. exact Hi2.
    + unfold obs_entry at 1. rewrite reg_txn_txn, reg_txn_rows.
      unfold sel_all. rewrite filter_true, Hr. f_equal. exact He.
Qed.

(* ------------------------------------------------------------------ *)
(* C03_running_total *)

Lemma sort_txns_wf input : Forall txn_wf input -> Forall txn_wf (sort_txns input).
Proof. apply Permutation_Forall. apply Permutation_sym, sort_txns_perm. Qed.

Lemma register_running_total input :
  Forall txn_wf input ->
  map obs_entry (register conv_id sel_all input)
  = spec_entries entry_posts [] (sort_txns input).
Proof.
  intros H. unfold register.
  apply (reg_engine_spec (sort_txns input) [] [] st_inv_nil (sort_txns_wf input H)).
Qed.

(* reading of the specification by position *)
Lemma spec_rows_nth ps : forall earlier j p z,
  nth_error (spec_rows earlier ps) j = Some (p, z) ->
  nth_error ps j = Some p
  /\ z = key_sum (p_key p) earlier + key_sum (p_key p) (firstn (S j) ps).
Proof.
  induction ps as [|q ps IH]; intros earlier j p z H.
  - destruct j; discriminate.
  - destruct j as [|j]; cbn [spec_rows nth_error] in *.
    + inversion H; subst. split; [reflexivity|].
      unfold spec_total. cbn [firstn]. rewrite key_sum_one.
      unfold same_key. rewrite key_eqb_refl. reflexivity.
    + destruct (IH _ _ _ _ H) as [Hn Hz]. split; [exact Hn|].
      rewrite Hz, key_sum_app.
      change (firstn (S (S j)) (q :: ps)) with ([q] ++ firstn (S j) ps).
      rewrite (key_sum_app _ [q]). lia.
Qed.

Lemma spec_entries_nth ord ts : forall earlier i t rows,
  nth_error (spec_entries ord earlier ts) i = Some (t, rows) ->
  nth_error ts i = Some t
  /\ rows = spec_rows (earlier ++ flat_map ord (firstn i ts)) (ord t).
Proof.
  induction ts as [|u ts IH]; intros earlier i t rows H.
  - destruct i; discriminate.
  - destruct i as [|i]; cbn [spec_entries nth_error] in *.
    + inversion H; subst. cbn [firstn flat_map]. rewrite app_nil_r. split; reflexivity.
    + destruct (IH _ _ _ _ H) as [Hn Hr]. split; [exact Hn|].
      rewrite Hr. cbn [firstn flat_map]. rewrite app_assoc. reflexivity.
Qed.

Lemma flat_entry_posts_perm ts : Permutation (flat_map entry_posts ts) (flat_map t_posts ts).
Proof.
  induction ts as [|t ts IH]; cbn [flat_map]; [reflexivity|].
  apply Permutation_app; [apply entry_posts_perm|exact IH].
Qed.

Lemma register_running_total_explicit input i e j r :
  Forall txn_wf input ->
  nth_error (register conv_id sel_all input) i = Some e ->
  nth_error (re_rows e) j = Some r ->
  nth_error (sort_txns input) i = Some (re_txn e)
  /\ nth_error (entry_posts (re_txn e)) j = Some (rr_post r)
  /\ d28 (rr_total r)
     = key_sum (p_key (rr_post r)) (flat_map t_posts (firstn i (sort_txns input)))
       + key_sum (p_key (rr_post r)) (firstn (S j) (entry_posts (re_txn e))).
Proof.
  intros Hw He Hr.
  pose proof (register_running_total input Hw) as HS.
  assert (nth_error (spec_entries entry_posts [] (sort_txns input)) i = Some (obs_entry e)) as H1.
  { rewrite <- HS. rewrite nth_error_map, He. reflexivity. }
  unfold obs_entry in H1. apply spec_entries_nth in H1. destruct H1 as [Ht Hrows].
  split; [exact Ht|].
  assert (nth_error (map obs_row (re_rows e)) j = Some (obs_row r)) as H2.
  { rewrite nth_error_map, Hr. reflexivity. }
  rewrite Hrows in H2. unfold obs_row in H2. apply spec_rows_nth in H2.
  destruct H2 as [Hp Hz]. split; [exact Hp|].
  rewrite Hz. cbn [app]. f_equal. apply key_sum_perm. apply flat_entry_posts_perm.
Qed.

(* ------------------------------------------------------------------ *)
(* C03_selector_hides_only *)

Lemma reg_engine_selector conv sel ts : forall st,
  fst (reg_engine conv sel st ts) = fst (reg_engine conv sel_all st ts)
  /\ snd (reg_engine conv sel st ts) = map (restrict sel) (snd (reg_engine conv sel_all st ts)).
Proof.
  induction ts as [|t ts IH]; intros st; cbn [reg_engine fst snd map]; [split; reflexivity|].
  rewrite !reg_txn_fst. destruct (IH (fst (acc_rows conv (t_hdr t) st (entry_posts t)))) as [H1 H2].
  split; [exact H1|]. rewrite H2. f_equal.
  unfold restrict. rewrite reg_txn_txn, (reg_txn_rows conv sel_all).
  unfold sel_all at 1. rewrite filter_true.
  assert (snd (reg_txn conv sel st t)
          = mkRentry (re_txn (snd (reg_txn conv sel st t))) (re_rows (snd (reg_txn conv sel st t)))) as E.
  { destruct (snd (reg_txn conv sel st t)); reflexivity. }
  rewrite E, reg_txn_txn, reg_txn_rows. reflexivity.
Qed.

Lemma register_selector conv sel input :
  register conv sel input = map (restrict sel) (register conv sel_all input)
  /\ register_final conv sel input = register_final conv sel_all input.
Proof.
  unfold register, register_final.
  destruct (reg_engine_selector conv sel (sort_txns input) []) as [H1 H2]. split; assumption.
Qed.

Lemma register_text_selector conv sel input :
  register_text_entries conv sel input
  = drop_empty (map (restrict sel) (register conv sel_all input)).
Proof. unfold register_text_entries. rewrite (proj1 (register_selector conv sel input)). reflexivity. Qed.

(* nothing is dropped by the text writer when nothing is hidden and every transaction
   has a posting *)
Lemma restrict_rows sel e r : In r (re_rows (restrict sel e)) <-> In r (re_rows e) /\ sel r = true.
Proof. unfold restrict. cbn [re_rows]. apply filter_In. Qed.

(* ------------------------------------------------------------------ *)
(* C03_last_total_is_balance *)

Lemma key_sum_spec_own k ts : key_sum k (flat_map t_posts ts) = spec_own (bposts_of ts) k.
Proof.
  unfold key_sum, spec_own, bposts_of.
  induction (flat_map t_posts ts) as [|p l IH]; cbn [filter map]; [reflexivity|].
  unfold same_key at 1. unfold bp_key at 1. cbn [bp_acc bp_comm].
  change (p_acc p, p_comm p) with (p_key p).
  destruct (key_eqb (p_key p) k); cbn [map]; rewrite ?zsum_cons, IH; reflexivity.
Qed.

Lemma flat_sort_txns_perm input :
  Permutation (flat_map t_posts (sort_txns input)) (flat_map t_posts input).
Proof. apply Permutation_flat_map. apply sort_txns_perm. Qed.

(* the accumulator at the end holds the balance report's account sums *)
Lemma register_final_balance sel input k :
  Forall txn_wf input ->
  st_val (register_final conv_id sel input) k = spec_own (bposts_of input) k.
Proof.
  intros Hw. rewrite (proj2 (register_selector conv_id sel input)). unfold register_final.
  destruct (reg_engine_spec (sort_txns input) [] [] st_inv_nil (sort_txns_wf input Hw)) as [[_ Hv] _].
  rewrite Hv. cbn [app]. rewrite <- key_sum_spec_own.
  rewrite (key_sum_perm k _ _ (flat_entry_posts_perm (sort_txns input))).
  apply key_sum_perm. apply flat_sort_txns_perm.
Qed.

Lemma last_total_app k a b :
  last_total k (a ++ b) = match last_total k b with Some z => Some z | None => last_total k a end.
Proof.
  induction a as [|[p z] a IH]; cbn [app last_total].
  - destruct (last_total k b); reflexivity.
  - rewrite IH. destruct (last_total k b); reflexivity.
Qed.

Lemma key_sum_absent k ps : existsb (same_key k) ps = false -> key_sum k ps = 0.
Proof.
  unfold key_sum. induction ps as [|p ps IH]; cbn [existsb filter]; [reflexivity|].
  intros H. apply orb_false_iff in H. destruct H as [H1 H2]. rewrite H1. apply IH. exact H2.
Qed.

Lemma last_total_spec_rows k ps : forall earlier,
  last_total k (spec_rows earlier ps) =
  if existsb (same_key k) ps then Some (key_sum k earlier + key_sum k ps) else None.
Proof.
  induction ps as [|p ps IH]; intros earlier; cbn [spec_rows last_total existsb]; [reflexivity|].
  rewrite IH, key_sum_app, key_sum_one.
  change (p :: ps) with ([p] ++ ps). rewrite (key_sum_app k [p] ps), key_sum_one.
  destruct (existsb (same_key k) ps) eqn:Ex.
  - rewrite orb_true_r. f_equal. lia.
  - rewrite orb_false_r. destruct (same_key k p) eqn:E; [|reflexivity].
    unfold spec_total. unfold same_key in E. apply key_eqb_eq in E. rewrite E.
    rewrite (key_sum_absent k ps Ex). f_equal. lia.
Qed.

Lemma existsb_app_c03 {A} (f : A -> bool) a b : existsb f (a ++ b) = existsb f a || existsb f b.
Proof. induction a as [|x a IH]; cbn [app existsb]; [reflexivity|]. rewrite IH, orb_assoc. reflexivity. Qed.

Lemma last_total_spec_entries k ord ts : forall earlier,
  last_total k (flat_map snd (spec_entries ord earlier ts)) =
  if existsb (same_key k) (flat_map ord ts)
  then Some (key_sum k earlier + key_sum k (flat_map ord ts)) else None.
Proof.
  induction ts as [|t ts IH]; intros earlier; cbn [spec_entries flat_map snd]; [reflexivity|].
  rewrite last_total_app, IH, last_total_spec_rows, existsb_app_c03, !key_sum_app.
  destruct (existsb (same_key k) (flat_map ord ts)) eqn:E2.
  - rewrite orb_true_r. f_equal. lia.
  - rewrite orb_false_r. destruct (existsb (same_key k) (ord t)); [|reflexivity].
    rewrite (key_sum_absent k _ E2). f_equal. lia.
Qed.

Lemma existsb_perm {A} (f : A -> bool) a b : Permutation a b -> existsb f a = existsb f b.
Proof.
  intros H. induction H; cbn [existsb]; try congruence.
  destruct (f x), (f y); reflexivity.
Qed.

Lemma flat_map_map_snd {A B C} (f : A -> B * list C) l : flat_map snd (map f l) = flat_map (fun x => snd (f x)) l.
Proof. induction l as [|x l IH]; cbn [map flat_map]; [reflexivity|]. rewrite IH. reflexivity. Qed.

(* the last total shown for (account, commodity) k in the complete register is the
   balance report's account sum of k; nothing is shown for a key that was never posted *)
Lemma register_last_total input k :
  Forall txn_wf input ->
  last_total k (flat_map (fun e => map obs_row (re_rows e)) (register conv_id sel_all input))
  = if existsb (same_key k) (flat_map t_posts input)
    then Some (spec_own (bposts_of input) k) else None.
Proof.
  intros Hw.
  assert (flat_map (fun e => map obs_row (re_rows e)) (register conv_id sel_all input)
          = flat_map snd (map obs_entry (register conv_id sel_all input))) as E.
  { rewrite flat_map_map_snd. reflexivity. }
  rewrite E, (register_running_total input Hw), last_total_spec_entries.
  assert (Permutation (flat_map entry_posts (sort_txns input)) (flat_map t_posts input)) as P.
  { transitivity (flat_map t_posts (sort_txns input));
      [apply flat_entry_posts_perm|apply flat_sort_txns_perm]. }
  rewrite (existsb_perm _ _ _ P), (key_sum_perm k _ _ P), key_sum_spec_own.
  unfold key_sum. cbn [filter map]. rewrite zsum_nil. reflexivity.
Qed.

(* ------------------------------------------------------------------ *)
(* soundness of the executable oracle *)

Lemma all_pairs_b_sound {A} (r : A -> A -> bool) l :
  all_pairs_b r l = true -> StronglySorted (fun a b => r a b = true) l.
Proof.
  induction l as [|x l IH]; cbn [all_pairs_b]; intros H; constructor;
    apply andb_true_iff in H; destruct H as [H1 H2].
  - apply IH. exact H2.
  - rewrite forallb_forall in H1. rewrite Forall_forall. exact H1.
Qed.

Lemma rforall2b_sound {A B} (f : A -> B -> bool) a : forall b,
  rforall2b f a b = true -> Forall2 (fun x y => f x y = true) a b.
Proof.
  induction a as [|x a IH]; intros [|y b] H; cbn [rforall2b] in H; try discriminate; constructor;
    apply andb_true_iff in H; destruct H as [H1 H2]; [exact H1|apply IH; exact H2].
Qed.

Lemma Forall2_impl_c03 {A B} (P Q : A -> B -> Prop) :
  (forall a b, P a b -> Q a b) -> forall l1 l2, Forall2 P l1 l2 -> Forall2 Q l1 l2.
Proof. intros H l1 l2 F. induction F; constructor; auto. Qed.

Lemma pick_spec input idxs : forall out,
  pick input idxs = Some out -> map (nth_error input) idxs = map Some out.
Proof.
  induction idxs as [|i idxs IH]; intros out H; cbn [pick] in H.
  - inversion H. reflexivity.
  - destruct (nth_error input i) as [t|] eqn:E; [|discriminate].
    destruct (pick input idxs) as [l|]; [|discriminate]. inversion H; subst.
    cbn [map]. rewrite E, (IH l eq_refl). reflexivity.
Qed.

Lemma nth_error_seq (l : list txn) : map (nth_error l) (seq 0 (length l)) = map Some l.
Proof.
  induction l as [|x l IH]; [reflexivity|].
  cbn [length seq map nth_error]. f_equal.
  rewrite <- seq_shift, map_map. cbn [nth_error]. exact IH.
Qed.

Lemma unsome_map (l : list txn) :
  flat_map (fun o : option txn => match o with Some t => [t] | None => [] end) (map Some l) = l.
Proof. induction l as [|x l IH]; cbn [map flat_map app]; [reflexivity|]. rewrite IH. reflexivity. Qed.

Lemma is_perm_of_range_sound idxs n :
  is_perm_of_range idxs n = true -> Permutation idxs (seq 0 n).
Proof.
  unfold is_perm_of_range. intros H. apply andb_true_iff in H. destruct H as [HL HI].
  apply Nat.eqb_eq in HL. apply Permutation_sym. apply NoDup_Permutation_bis.
  - apply seq_NoDup.
  - rewrite seq_length. lia.
  - intros i Hi. rewrite forallb_forall in HI. specialize (HI i Hi).
    apply existsb_exists in HI. destruct HI as [j [Hj Ej]]. apply Nat.eqb_eq in Ej. subst j. exact Hj.
Qed.

Lemma pick_perm input idxs out :
  pick input idxs = Some out -> Permutation idxs (seq 0 (length input)) -> Permutation out input.
Proof.
  intros Hp HP. apply pick_spec in Hp.
  rewrite <- (unsome_map out), <- (unsome_map input), <- Hp, <- nth_error_seq.
  apply Permutation_flat_map. apply Permutation_map. exact HP.
Qed.

Lemma map_snd_combine {A B} (a : list A) : forall (b : list B),
  length a = length b -> map snd (combine a b) = b.
Proof.
  induction a as [|x a IH]; intros [|y b] H; cbn [length] in H; try discriminate; [reflexivity|].
  cbn [combine map snd]. f_equal. apply IH. lia.
Qed.

Lemma before_b_sound a b : before_b a b = true -> before a b.
Proof.
  unfold before_b, before, hdr_lt.
  destruct (header_cmp (t_hdr (snd a)) (t_hdr (snd b))); intros H; try discriminate.
  - right. split; [reflexivity|]. apply Nat.ltb_lt. exact H.
  - left. reflexivity.
Qed.

Lemma before_le a b : before a b -> hdr_le (snd a) (snd b).
Proof. unfold before, hdr_lt, hdr_le. intros [H|[H _]]; rewrite H; discriminate. Qed.

Lemma row_ok_sound e o : row_ok e o = true -> row_rel e o.
Proof.
  unfold row_ok, row_rel. intros H.
  repeat (apply andb_true_iff in H; destruct H as [H ?]).
  repeat split.
  - apply acct_eqb_eq. assumption.
  - apply str_eqb_eq. assumption.
  - apply Z.eqb_eq. assumption.
  - apply Z.eqb_eq. assumption.
Qed.

Lemma order_ok_sound input idxs out :
  pick input idxs = Some out -> order_ok input idxs out = true ->
  Permutation out input /\ StronglySorted hdr_le out /\ StronglySorted before (combine idxs out).
Proof.
  intros Hp H. unfold order_ok in H. apply andb_true_iff in H. destruct H as [H1a H1b].
  assert (length idxs = length out) as HL.
  { pose proof (pick_spec _ _ _ Hp) as E. apply (f_equal (@length _)) in E.
    rewrite !map_length in E. exact E. }
  assert (StronglySorted before (combine idxs out)) as HB.
  { apply StronglySorted_impl with (R := fun a b => before_b a b = true).
    - intros a b _ _. apply before_b_sound.
    - apply all_pairs_b_sound. exact H1b. }
  split; [apply (pick_perm _ _ _ Hp), is_perm_of_range_sound; exact H1a|].
  split; [|exact HB].
  rewrite <- (map_snd_combine idxs out HL).
  apply (StronglySorted_map hdr_le snd).
  apply StronglySorted_impl with (R := before); [|exact HB].
  intros a b _ _. apply before_le.
Qed.

Definition reg_ok_spec (input : list txn) (names : list acct) (order : list nat)
           (obs : list (nat * list orow)) : Prop :=
  exists out,
    pick input order = Some out
    /\ Permutation out input
    /\ StronglySorted hdr_le out
    /\ StronglySorted before (combine order out)
    /\ Forall2 (fun e o => fst e = fst o /\ Forall2 row_rel (snd e) (snd o))
               (expected_entries names order out) (filter has_rows obs)
    /\ Forall (fun o => StronglySorted (fun a b => key_cmp (orow_key a) (orow_key b) <> Gt) (snd o)) obs
    /\ (names = [] -> forall p, In p (flat_map t_posts input) ->
        last_total (p_key p) (map orow_obs (flat_map snd obs))
        = Some (spec_own (bposts_of input) (p_key p))).

Lemma reg_ok_sound input names order obs :
  reg_ok input names order obs = true -> reg_ok_spec input names order obs.
Proof.
  unfold reg_ok, reg_ok_spec. destruct (pick input order) as [out|] eqn:Hp; [|discriminate].
  intros H. exists out.
  apply andb_true_iff in H. destruct H as [H H4].
  apply andb_true_iff in H. destruct H as [H H3].
  apply andb_true_iff in H. destruct H as [H1 H2].
  destruct (order_ok_sound _ _ _ Hp H1) as [HP [HS HB]].
  split; [reflexivity|]. split; [exact HP|]. split; [exact HS|]. split; [exact HB|].
  split.
  { apply rforall2b_sound in H2. revert H2. apply Forall2_impl_c03.
    intros e o Heo. unfold entry_ok in Heo. apply andb_true_iff in Heo. destruct Heo as [He1 He2].
    split; [apply Nat.eqb_eq; exact He1|].
    apply rforall2b_sound in He2. revert He2. apply Forall2_impl_c03. intros a b. apply row_ok_sound. }
  split.
  { rewrite Forall_forall. rewrite forallb_forall in H3. intros o Ho. specialize (H3 o Ho).
    unfold rows_sorted_b in H3. apply all_pairs_b_sound in H3.
    apply StronglySorted_impl with (R := fun a b => key_leb (orow_key a) (orow_key b) = true); [|exact H3].
    intros a b _ _. apply key_leb_true. }
  intros En p Hin. subst names. unfold last_is_balance_b in H4.
  rewrite forallb_forall in H4. specialize (H4 p Hin).
  destruct (last_total (p_key p) (map orow_obs (flat_map snd obs))) as [z|]; [|discriminate].
  apply Z.eqb_eq in H4. rewrite H4. reflexivity.
Qed.

(* ------------------------------------------------------------------ *)
(* non-vacuity: three transactions at ONE instant (file order c, -, b by code), two
   postings to the same account inside one transaction, two commodities *)

Definition ex_hdr (code : option (list N)) : header :=
  mkHeader 1704103200000000000 7200 code None None None [] [].
Definition ex_p (a : list (list N)) (c : list N) (m : Z) (s : N) : posting :=
  mkPosting a c (mkDec m s) (mkDec m s) false c.
Definition ex_input : list txn :=
  [ mkTxn (ex_hdr (Some [99]%N)) [ex_p [[101]]%N [] 25 1; ex_p [[97]]%N [] (-25) 1];
    mkTxn (ex_hdr None) [ex_p [[97]]%N [] 1 0; ex_p [[101]]%N [69]%N 5 0;
                         ex_p [[97]]%N [] 2 0; ex_p [[101]]%N [] (-3) 0; ex_p [[97]]%N [69]%N (-5) 0];
    mkTxn (ex_hdr (Some [98]%N)) [ex_p [[97]]%N [] 150 2; ex_p [[101]]%N [] (-150) 2] ].

Definition ex_view (es : list rentry) : list (list (Z * N)) :=
  map (fun e => map (fun r => (dm (rr_total r), ds (rr_total r))) (re_rows e)) es.

Lemma register_example :
  Forall txn_wf ex_input
  /\ map (fun t => h_code (t_hdr t)) (sort_txns ex_input) = [None; Some [98]%N; Some [99]%N]
  /\ ex_view (register conv_id sel_all ex_input)
     = [ [(1, 0%N); (3, 0%N); (-3, 0%N); (-5, 0%N); (5, 0%N)];
         [(450, 2%N); (-450, 2%N)];
         [(200, 2%N); (-200, 2%N)] ]
  /\ ex_view (register_text_entries conv_id (sel_names [[[101]]%N]) ex_input)
     = [ [(-3, 0%N); (5, 0%N)]; [(-450, 2%N)]; [(-200, 2%N)] ]
  /\ map (fun kv => d28 (snd kv)) (register_final conv_id sel_all ex_input)
     = [20000000000000000000000000000; -20000000000000000000000000000;
        -50000000000000000000000000000; 50000000000000000000000000000].
Proof.
  split.
  { repeat constructor; unfold posting_wf, dwf; cbn; lia. }
  vm_compute. repeat split; reflexivity.
Qed.
