(* Charts_proofs.v — the lemmas behind props/C12.v. *)
From Coq Require Import Permutation.
From TkModel Require Import Base Dec Acct Txn Accept Balance Charts.
From TkSpec Require Import Charts_spec.
From TkProofs Require Import Base_proofs.

(* ------------------------------------------------------------------ *)
(* membership tests *)

Lemma c12_acct_eqb_eq (a b : acct) : acct_eqb a b = true <-> a = b.
Proof. unfold acct_eqb. apply list_eqb_eq. exact str_eqb_eq. Qed.

Lemma mem_acct_in a l : mem_acct a l = true <-> In a l.
Proof.
  unfold mem_acct. rewrite existsb_exists. split.
  - intros (x & Hx & E). apply c12_acct_eqb_eq in E. subst. exact Hx.
  - intros H. exists a. split; [exact H|apply c12_acct_eqb_eq; reflexivity].
Qed.

Lemma mem_acct_false a l : mem_acct a l = false <-> ~ In a l.
Proof.
  rewrite <- mem_acct_in. destruct (mem_acct a l); split; intros H.
  - discriminate.
  - exfalso. apply H. reflexivity.
  - intros E. discriminate.
  - reflexivity.
Qed.

Lemma mem_str_in s l : mem_str s l = true <-> In s l.
Proof.
  unfold mem_str. rewrite existsb_exists. split.
  - intros (x & Hx & E). apply str_eqb_eq in E. subst. exact Hx.
  - intros H. exists s. split; [exact H|apply str_eqb_refl].
Qed.

Lemma mem_str_false s l : mem_str s l = false <-> ~ In s l.
Proof.
  rewrite <- mem_str_in. destruct (mem_str s l); split; intros H.
  - discriminate.
  - exfalso. apply H. reflexivity.
  - intros E. discriminate.
  - reflexivity.
Qed.

(* ------------------------------------------------------------------ *)
(* parents and prefixes *)

Lemma c12_parent_length (a : acct) : length (parent a) = (length a - 1)%nat.
Proof. unfold parent. rewrite removelast_firstn_len, firstn_length. lia. Qed.

Lemma c12_parent_firstn_S n (a : acct) : (S n <= length a)%nat -> parent (firstn (S n) a) = firstn n a.
Proof.
  intros H. unfold parent. rewrite removelast_firstn_len, firstn_length.
  replace (Nat.min (S n) (length a) - 1)%nat with n by lia.
  rewrite firstn_firstn. f_equal. lia.
Qed.

Lemma c12_parent_firstn (a : acct) : parent a = firstn (length a - 1) a.
Proof. unfold parent. apply removelast_firstn_len. Qed.

Lemma is_ancestor_length a d : is_ancestor a d -> (1 <= length a < length d)%nat.
Proof. intros (n & Hn & E). subst. rewrite firstn_length. lia. Qed.

Lemma is_ancestor_parent (x : acct) : (2 <= length x)%nat -> is_ancestor (parent x) x.
Proof. intros H. exists (length x - 1)%nat. split; [lia|apply c12_parent_firstn]. Qed.

Lemma is_ancestor_trans a b c : is_ancestor a b -> is_ancestor b c -> is_ancestor a c.
Proof.
  intros (n & Hn & E1) (m & Hm & E2). subst. rewrite firstn_length in Hn.
  exists n. split; [lia|]. rewrite firstn_firstn. f_equal. lia.
Qed.

Lemma proper_ancestors_in a d : In a (proper_ancestors d) <-> is_ancestor a d.
Proof.
  unfold proper_ancestors, is_ancestor. rewrite in_map_iff. split.
  - intros (n & E & Hn). apply in_seq in Hn. exists n. split; [lia|symmetry; exact E].
  - intros (n & Hn & E). exists n. split; [symmetry; exact E|apply in_seq; lia].
Qed.

(* a set of accounts closed under taking parents contains every non-empty prefix *)
Definition pclosed (U : list acct) : Prop :=
  forall b, In b U -> (2 <= length b)%nat -> In (parent b) U.

Lemma pclosed_prefix U : pclosed U ->
  forall a, In a U -> forall k n, (n + k = length a)%nat -> (1 <= n)%nat -> In (firstn n a) U.
Proof.
  intros HU a Ha. induction k as [|k IH]; intros n Hk Hn.
  - replace n with (length a) by lia. rewrite firstn_all. exact Ha.
  - assert (H1 : In (firstn (S n) a) U) by (apply IH; lia).
    assert (H2 : In (parent (firstn (S n) a)) U).
    { apply (HU _ H1). rewrite firstn_length. lia. }
    rewrite c12_parent_firstn_S in H2 by lia. exact H2.
Qed.

Lemma pclosed_ancestor U a d : pclosed U -> In d U -> is_ancestor a d -> In a U.
Proof.
  intros HU Hd (n & Hn & E). subst.
  apply (pclosed_prefix U HU d Hd (length d - n)%nat n); lia.
Qed.

(* ------------------------------------------------------------------ *)
(* build_account_tree *)

(* T is closed under parents relative to W, except possibly at x *)
Definition relclosed_except (x : acct) (W T : list acct) : Prop :=
  forall b, In b T -> b <> x -> (2 <= length b)%nat -> In (parent b) T \/ In (parent b) W.
Definition relclosed (W T : list acct) : Prop :=
  forall b, In b T -> (2 <= length b)%nat -> In (parent b) T \/ In (parent b) W.

Lemma acct_eq_dec (a b : acct) : {a = b} + {a <> b}.
Proof.
  destruct (acct_eqb a b) eqn:E.
  - left. apply c12_acct_eqb_eq. exact E.
  - right. intros H. apply c12_acct_eqb_eq in H. congruence.
Qed.

Lemma build_tree_closed : forall fuel T O W x,
  incl O W -> (length x <= fuel)%nat -> relclosed_except x W T ->
  relclosed W (build_tree fuel T O x)
  /\ incl T (build_tree fuel T O x)
  /\ ((2 <= length x)%nat -> In (parent x) (build_tree fuel T O x) \/ In (parent x) W).
Proof.
  induction fuel as [|f IH]; intros T O W x HO Hf Hex; cbn [build_tree].
  - split; [|split].
    + intros b Hb Hl. destruct (acct_eq_dec b x) as [E|E]; [subst; lia|]. apply Hex; assumption.
    + apply incl_refl.
    + intros; lia.
  - destruct (mem_acct (parent x) O || mem_acct (parent x) T || Nat.eqb (length x) 1) eqn:E.
    + assert (Hx : (2 <= length x)%nat -> In (parent x) T \/ In (parent x) W).
      { intros Hl. apply orb_true_iff in E. destruct E as [E|E].
        - apply orb_true_iff in E. destruct E as [E|E]; apply mem_acct_in in E.
          + right. apply HO. exact E.
          + left. exact E.
        - apply Nat.eqb_eq in E. lia. }
      split; [|split].
      * intros b Hb Hl. destruct (acct_eq_dec b x) as [Eb|Eb]; [subst; apply Hx; exact Hl|].
        apply Hex; assumption.
      * apply incl_refl.
      * exact Hx.
    + apply orb_false_iff in E. destruct E as [E E3]. apply orb_false_iff in E. destruct E as [E1 E2].
      apply Nat.eqb_neq in E3.
      destruct (IH (parent x :: T) O W (parent x) HO) as (C1 & C2 & C3).
      * rewrite c12_parent_length. lia.
      * intros b Hb Hne Hl. destruct Hb as [Hb|Hb]; [congruence|].
        destruct (acct_eq_dec b x) as [Eb|Eb].
        -- subst. left. left. reflexivity.
        -- destruct (Hex b Hb Eb Hl) as [H|H]; [left; right; exact H|right; exact H].
      * split; [exact C1|split].
        -- intros b Hb. apply C2. right. exact Hb.
        -- intros _. left. apply C2. left. reflexivity.
Qed.

(* what build_tree adds: proper ancestors of x that were in neither tree *)
Lemma build_tree_new : forall fuel T O x b,
  fuel = length x -> In b (build_tree fuel T O x) ->
  In b T \/ (is_ancestor b x /\ ~ In b O).
Proof.
  induction fuel as [|f IH]; intros T O x b Hf Hb; cbn [build_tree] in Hb.
  - left. exact Hb.
  - destruct (mem_acct (parent x) O || mem_acct (parent x) T || Nat.eqb (length x) 1) eqn:E.
    + left. exact Hb.
    + apply orb_false_iff in E. destruct E as [E E3]. apply orb_false_iff in E. destruct E as [E1 E2].
      apply Nat.eqb_neq in E3. apply mem_acct_false in E1.
      assert (Hl : (2 <= length x)%nat) by lia.
      apply IH in Hb; [|rewrite c12_parent_length; lia].
      destruct Hb as [[Hb|Hb]|[Hb1 Hb2]].
      * subst b. right. split; [apply is_ancestor_parent; exact Hl|exact E1].
      * left. exact Hb.
      * right. split; [|exact Hb2]. eapply is_ancestor_trans; [exact Hb1|apply is_ancestor_parent; exact Hl].
Qed.

Lemma build_tree_incl fuel T O x : incl T (build_tree fuel T O x).
Proof.
  revert T x. induction fuel as [|f IH]; intros T x; cbn [build_tree]; [apply incl_refl|].
  destruct (mem_acct (parent x) O || mem_acct (parent x) T || Nat.eqb (length x) 1); [apply incl_refl|].
  intros b Hb. apply IH. right. exact Hb.
Qed.

(* ------------------------------------------------------------------ *)
(* AccountTrees::from — the synthetic parents *)

Definition synth_step (defined : list acct) (sap : list acct) (a : acct) : list acct :=
  if mem_acct (parent a) defined then sap else build_tree (length a) sap defined a.

Lemma synth_fold_closed defined : forall l sap,
  relclosed defined sap ->
  relclosed defined (fold_left (synth_step defined) l sap)
  /\ incl sap (fold_left (synth_step defined) l sap)
  /\ (forall a, In a l -> (2 <= length a)%nat ->
        In (parent a) defined \/ In (parent a) (fold_left (synth_step defined) l sap)).
Proof.
  induction l as [|a l IH]; intros sap Hc; cbn [fold_left].
  - split; [exact Hc|split; [apply incl_refl|intros a []]].
  - assert (H1 : relclosed defined (synth_step defined sap a)
                 /\ incl sap (synth_step defined sap a)
                 /\ ((2 <= length a)%nat -> In (parent a) defined \/ In (parent a) (synth_step defined sap a))).
    { unfold synth_step. destruct (mem_acct (parent a) defined) eqn:E.
      - split; [exact Hc|split; [apply incl_refl|]]. intros _. left. apply mem_acct_in. exact E.
      - destruct (build_tree_closed (length a) sap defined defined a (incl_refl _) (le_n _)) as (C1 & C2 & C3).
        + intros b Hb _ Hl. apply Hc; assumption.
        + split; [exact C1|split; [exact C2|]]. intros Hl. destruct (C3 Hl) as [H|H]; [right|left]; exact H. }
    destruct H1 as (A1 & A2 & A3).
    destruct (IH _ A1) as (B1 & B2 & B3).
    split; [exact B1|split].
    + intros b Hb. apply B2, A2, Hb.
    + intros b [Hb|Hb] Hl.
      * subst b. destruct (A3 Hl) as [H|H]; [left; exact H|right; apply B2; exact H].
      * apply B3; assumption.
Qed.

Lemma synth_from_fold defined : synth_from defined = fold_left (synth_step defined) defined [].
Proof. reflexivity. Qed.

(* declared accounts together with the synthetic ones are closed under parents *)
Lemma synth_pclosed defined : pclosed (defined ++ synth_from defined).
Proof.
  rewrite synth_from_fold.
  destruct (synth_fold_closed defined defined []) as (C1 & _ & C3); [intros b []|].
  intros b Hb Hl. apply in_or_app. apply in_app_or in Hb. destruct Hb as [Hb|Hb].
  - exact (C3 b Hb Hl).
  - destruct (C1 b Hb Hl) as [H|H]; [right|left]; exact H.
Qed.

Lemma synth_fold_new defined : forall l sap b,
  In b (fold_left (synth_step defined) l sap) ->
  In b sap \/ ((exists d, In d l /\ is_ancestor b d) /\ ~ In b defined).
Proof.
  induction l as [|a l IH]; intros sap b Hb; cbn [fold_left] in Hb; [left; exact Hb|].
  apply IH in Hb. destruct Hb as [Hb|[(d & Hd & Ha) Hn]].
  - unfold synth_step in Hb. destruct (mem_acct (parent a) defined); [left; exact Hb|].
    apply build_tree_new in Hb; [|reflexivity].
    destruct Hb as [Hb|[Hb1 Hb2]]; [left; exact Hb|].
    right. split; [exists a; split; [left; reflexivity|exact Hb1]|exact Hb2].
  - right. split; [exists d; split; [right; exact Hd|exact Ha]|exact Hn].
Qed.

(* exactly the undeclared proper ancestors of declared accounts: in particular the
   iteration order of the map of declared accounts is irrelevant *)
Lemma synth_spec defined a :
  In a (synth_from defined) <-> (exists d, In d defined /\ is_ancestor a d) /\ ~ In a defined.
Proof.
  split.
  - intros H. rewrite synth_from_fold in H. apply synth_fold_new in H.
    destruct H as [[]|H]. exact H.
  - intros [(d & Hd & Ha) Hn].
    assert (H : In a (defined ++ synth_from defined)).
    { eapply pclosed_ancestor; [apply synth_pclosed| |exact Ha]. apply in_or_app. left. exact Hd. }
    apply in_app_or in H. destruct H as [H|H]; [contradiction|exact H].
Qed.

Lemma synth_order_irrelevant names names' a :
  Permutation names names' -> (In a (synth_from names) <-> In a (synth_from names')).
Proof.
  intros HP. rewrite !synth_spec. split; intros [(d & Hd & Ha) Hn]; split.
  - exists d. split; [eapply Permutation_in; eassumption|exact Ha].
  - intros H. apply Hn. eapply Permutation_in; [apply Permutation_sym; exact HP|exact H].
  - exists d. split; [eapply Permutation_in; [apply Permutation_sym; exact HP|exact Hd]|exact Ha].
  - intros H. apply Hn. eapply Permutation_in; eassumption.
Qed.

(* ------------------------------------------------------------------ *)
(* the look-ups of a run as a list of operations on the chart state *)

Inductive lk : Type :=
| LkComm (o : option (list N))     (* get_or_create_commodity *)
| LkAcct (a : list (list N))       (* the account part of get_or_create_txn_account *)
| LkTag (t : list N).              (* get_or_create_tag *)

Definition acct_only (ch1 : charts) (a : acct) : res charts :=
  if mem_acct a (c_defined ch1) then
    if c_strict ch1 then Ok ch1
    else Ok (set_defined ch1 (build_tree (length a) (c_defined ch1) [] a))
  else if c_strict ch1 then Err E_unknown_account
  else
    let d1 := a :: c_defined ch1 in
    let d2 := build_tree (length a) d1 [] a in
    Ok (set_defined ch1 (build_tree (length a) d2 [] a)).

Definition do_lk (ch : charts) (k : lk) : res charts :=
  match k with
  | LkComm o => goc ch o
  | LkAcct a => acct_only ch a
  | LkTag t => goc_tag ch t
  end.

Fixpoint run_lks (ch : charts) (l : list lk) : res charts :=
  match l with
  | [] => Ok ch
  | k :: l' => res_bind (do_lk ch k) (fun ch1 => run_lks ch1 l')
  end.

Lemma run_lks_app ch l1 l2 :
  run_lks ch (l1 ++ l2) = res_bind (run_lks ch l1) (fun ch1 => run_lks ch1 l2).
Proof.
  revert ch. induction l1 as [|k l1 IH]; intros ch; cbn [app run_lks res_bind]; [reflexivity|].
  destruct (do_lk ch k) as [ch1|e]; cbn [res_bind]; [apply IH|reflexivity].
Qed.

Lemma goc_account_lks ch a c : goc_account ch a c = run_lks ch [LkComm (Some c); LkAcct a].
Proof.
  unfold goc_account. cbn [run_lks do_lk]. fold (acct_only).
  destruct (goc ch (Some c)) as [ch1|e]; cbn [res_bind]; [|reflexivity].
  change (acct_only ch1 a = res_bind (acct_only ch1 a) (fun ch2 => Ok ch2)).
  destruct (acct_only ch1 a); reflexivity.
Qed.

Definition post_pc (rp : raw_post) : list N :=
  match rp_unit rp with None => [] | Some u => u_comm u end.

Definition value_lks (ou : option raw_unit) : list lk :=
  match ou with
  | None => [LkComm None; LkComm None]
  | Some u => [LkComm (Some (u_comm u));
               LkComm (Some (match u_closing u with Some (_, _, c) => c | None => u_comm u end))]
  end.

Definition post_lks (rp : raw_post) : list lk :=
  value_lks (rp_unit rp) ++ [LkComm (Some (post_pc rp)); LkAcct (rp_acc rp)].

Lemma res_bind_ok {A} (r : res A) : res_bind r (fun x => Ok x) = r.
Proof. destruct r; reflexivity. Qed.

Lemma value_lookups_lks ch ou : value_lookups ch ou = run_lks ch (value_lks ou).
Proof.
  destruct ou as [u|]; cbn [value_lookups value_lks run_lks do_lk].
  - destruct (goc ch (Some (u_comm u))) as [ch1|e]; cbn [res_bind]; [|reflexivity].
    destruct (u_closing u) as [[[ty v] c]|]; rewrite res_bind_ok; reflexivity.
  - cbn [goc res_bind]. reflexivity.
Qed.

(* the posting commodity computed by handle_posting_value is the written one *)
Lemma value_position_pc amount ou pc tc ta tot :
  value_position amount ou = Ok (pc, tc, ta, tot) ->
  pc = match ou with None => [] | Some u => u_comm u end.
Proof.
  unfold value_position. destruct ou as [u|]; [|intros H; inversion H; reflexivity].
  destruct (match u_opening u with Some _ => true | None => match u_closing u with Some _ => true | None => false end end);
  destruct (u_closing u) as [[[ty v] c]|]; cbn [res_bind];
  try destruct (str_eqb (u_comm u) c); cbn [res_bind];
  try destruct (match u_opening u with Some (v0, _) => is_neg v0 | None => false end);
  try destruct ty;
  repeat match goal with |- context [if ?b then _ else _] => destruct b end;
  intros H; inversion H; reflexivity.
Qed.

(* the transaction commodity is the closing-price commodity, or the written one *)
Lemma value_position_tc amount ou pc tc ta tot :
  value_position amount ou = Ok (pc, tc, ta, tot) ->
  tc = match ou with
       | None => []
       | Some u => match u_closing u with Some (_, _, c) => c | None => u_comm u end
       end.
Proof.
  unfold value_position. destruct ou as [u|]; [|intros H; inversion H; reflexivity].
  destruct (u_opening u) as [[ov oc]|]; destruct (u_closing u) as [[[ty v] c]|]; cbn [res_bind];
  try destruct (str_eqb (u_comm u) c); cbn [res_bind];
  try destruct (is_neg ov);
  try destruct ty;
  repeat match goal with |- context [if ?b then _ else _] => destruct b end;
  intros H; inversion H; reflexivity.
Qed.

Lemma chart_posting_iff ch rp ch' p :
  chart_posting ch rp = Ok (ch', p) <->
  run_lks ch (post_lks rp) = Ok ch' /\ accept_posting rp = Ok p.
Proof.
  unfold chart_posting, accept_posting, post_lks. rewrite run_lks_app, value_lookups_lks.
  destruct (run_lks ch (value_lks (rp_unit rp))) as [ch1|e]; cbn [res_bind];
    [|split; [discriminate|intros [H _]; discriminate]].
  destruct (value_position (rp_amount rp) (rp_unit rp)) as [[[[pc tc] ta] tot]|e] eqn:Ev; cbn [res_bind];
    [|split; [discriminate|intros [_ H]; discriminate]].
  apply value_position_pc in Ev. fold (post_pc rp) in Ev. subst pc.
  rewrite goc_account_lks.
  destruct (run_lks ch1 [LkComm (Some (post_pc rp)); LkAcct (rp_acc rp)]) as [ch2|e]; cbn [res_bind];
    [|split; [discriminate|intros [H _]; discriminate]].
  destruct (mk_posting (rp_acc rp) (post_pc rp) (rp_amount rp) ta tot tc) as [q|e]; cbn [res_bind].
  - split; [intros H; inversion H; split; reflexivity|intros [H1 H2]; inversion H1; inversion H2; reflexivity].
  - split; [discriminate|intros [_ H]; discriminate].
Qed.

Lemma chart_postings_iff : forall l ch ch' ps,
  chart_postings ch l = Ok (ch', ps) <->
  run_lks ch (flat_map post_lks l) = Ok ch' /\ mapM accept_posting l = Ok ps.
Proof.
  induction l as [|rp l IH]; intros ch ch' ps; cbn [chart_postings flat_map mapM].
  - cbn [run_lks]. split; [intros H; inversion H; split; reflexivity|intros [H1 H2]; inversion H1; inversion H2; reflexivity].
  - rewrite run_lks_app.
    destruct (chart_posting ch rp) as [[ch1 p]|e] eqn:E1; cbn [res_bind].
    + apply chart_posting_iff in E1. destruct E1 as [E1 E2]. rewrite E1, E2. cbn [res_bind].
      destruct (chart_postings ch1 l) as [[ch2 ps2]|e] eqn:E3; cbn [res_bind].
      * apply IH in E3. destruct E3 as [E3 E4]. rewrite E3, E4.
        split; [intros H; inversion H; split; reflexivity|intros [H1 H2]; inversion H1; inversion H2; reflexivity].
      * split; [discriminate|]. intros [H1 H2].
        destruct (mapM accept_posting l) as [ps2|e2] eqn:E4; [|discriminate].
        assert (H : chart_postings ch1 l = Ok (ch', ps2)) by (apply IH; split; [exact H1|reflexivity]).
        congruence.
    + split; [discriminate|]. intros [H1 H2].
      destruct (run_lks ch (post_lks rp)) as [ch1|e1] eqn:E2; cbn [res_bind] in H1; [|discriminate].
      destruct (accept_posting rp) as [p|e2] eqn:E3; [|discriminate].
      assert (H : chart_posting ch rp = Ok (ch1, p)) by (apply chart_posting_iff; split; assumption).
      congruence.
Qed.

Lemma goc_tags_lks : forall ts ch, goc_tags ch ts = run_lks ch (map LkTag ts).
Proof.
  induction ts as [|t ts IH]; intros ch; cbn [goc_tags map run_lks do_lk]; [reflexivity|].
  destruct (goc_tag ch t) as [ch1|e]; cbn [res_bind]; [apply IH|reflexivity].
Qed.

Definition tags_nodup_b (ct : craw_txn) : bool :=
  Nat.eqb (length (distinct_strs (ct_tags ct))) (length (ct_tags ct)).

(* transaction commodity of the first posting: the commodity of the implicit last posting *)
Definition first_tc (rt : raw_txn) : list N :=
  match rt_posts rt with
  | rp :: _ => match accept_posting rp with Ok p => p_txn_comm p | Err _ => [] end
  | [] => []
  end.

Definition last_lks (rt : raw_txn) : list lk :=
  match rt_last rt with Some a => [LkComm (Some (first_tc rt)); LkAcct a] | None => [] end.

Definition txn_lks (ct : craw_txn) : list lk :=
  map LkTag (ct_tags ct) ++ flat_map post_lks (rt_posts (ct_raw ct)) ++ last_lks (ct_raw ct).

Lemma first_tc_ok rt rp l ps :
  rt_posts rt = rp :: l -> mapM accept_posting (rp :: l) = Ok ps ->
  match ps with p :: _ => p_txn_comm p | [] => [] end = first_tc rt.
Proof.
  intros Ep H. unfold first_tc. rewrite Ep. cbn [mapM] in H.
  destruct (accept_posting rp) as [p|e]; [|discriminate].
  destruct (mapM accept_posting l) as [ps2|e]; [|discriminate].
  inversion H. reflexivity.
Qed.

Lemma accept_txn_charts_iff ch ct ch' ps :
  accept_txn_charts ch ct = Ok (ch', ps) <->
  run_lks ch (txn_lks ct) = Ok ch' /\ tags_nodup_b ct = true /\ accept_txn (ct_raw ct) = Ok ps.
Proof.
  unfold accept_txn_charts, handle_tags, accept_txn, txn_lks, tags_nodup_b, last_lks.
  rewrite goc_tags_lks, !run_lks_app.
  destruct (run_lks ch (map LkTag (ct_tags ct))) as [c0|e]; cbn [res_bind];
    [|split; [discriminate|intros [H _]; discriminate]].
  destruct (Nat.eqb (length (distinct_strs (ct_tags ct))) (length (ct_tags ct))); cbn [res_bind];
    [|split; [discriminate|intros (_ & H & _); discriminate]].
  destruct (rt_posts (ct_raw ct)) as [|rp l] eqn:Ep;
    [split; [discriminate|intros (_ & _ & H); discriminate]|].
  rewrite run_lks_app.
  destruct (chart_postings c0 (rp :: l)) as [[c1 ps0]|e] eqn:E1; cbn [res_bind].
  - apply chart_postings_iff in E1. destruct E1 as [E1 E2]. rewrite E1, E2. cbn [res_bind].
    pose proof (first_tc_ok _ _ _ _ Ep E2) as Ef.
    destruct (rt_last (ct_raw ct)) as [a|]; cbn [res_bind]; [|cbn [run_lks]].
    + rewrite goc_account_lks, Ef.
      destruct (run_lks c1 [LkComm (Some (first_tc (ct_raw ct))); LkAcct a]) as [c2|e]; cbn [res_bind];
        [|split; [discriminate|intros [H _]; discriminate]].
      destruct (mk_posting a (first_tc (ct_raw ct)) (dneg (txn_sum ps0)) (dneg (txn_sum ps0)) false
                           (first_tc (ct_raw ct))) as [lp|e]; cbn [res_bind];
        [|split; [discriminate|intros (_ & _ & H); discriminate]].
      destruct (Nat.ltb 1 (length (distinct_strs (map p_txn_comm (ps0 ++ [lp])))));
        [split; [discriminate|intros (_ & _ & H); discriminate]|].
      destruct (is_zero (txn_sum (ps0 ++ [lp])));
        [|split; [discriminate|intros (_ & _ & H); discriminate]].
      split; [intros H; inversion H; repeat split; reflexivity
             |intros (H1 & _ & H2); inversion H1; inversion H2; reflexivity].
    + destruct (Nat.ltb 1 (length (distinct_strs (map p_txn_comm ps0))));
        [split; [discriminate|intros (_ & _ & H); discriminate]|].
      destruct (is_zero (txn_sum ps0));
        [|split; [discriminate|intros (_ & _ & H); discriminate]].
      split; [intros H; inversion H; repeat split; reflexivity
             |intros (H1 & _ & H2); inversion H1; inversion H2; reflexivity].
  - split; [discriminate|]. intros (H1 & _ & H2).
    destruct (run_lks c0 (flat_map post_lks (rp :: l))) as [c1|e1] eqn:E2; cbn [res_bind] in H1; [|discriminate].
    destruct (mapM accept_posting (rp :: l)) as [ps0|e2] eqn:E3; cbn [res_bind] in H2; [|discriminate].
    assert (H : chart_postings c0 (rp :: l) = Ok (c1, ps0)) by (apply chart_postings_iff; split; assumption).
    congruence.
Qed.

Definition journal_lks (j : list craw_txn) : list lk := flat_map txn_lks j.

Lemma accept_journal_charts_iff : forall j ch ch' ts,
  accept_journal_charts ch j = Ok (ch', ts) <->
  run_lks ch (journal_lks j) = Ok ch' /\ forallb tags_nodup_b j = true
  /\ accept_journal (map ct_raw j) = Ok ts.
Proof.
  unfold accept_journal, journal_lks.
  induction j as [|ct j IH]; intros ch ch' ts; cbn [accept_journal_charts flat_map forallb map mapM run_lks].
  - split; [intros H; inversion H; repeat split; reflexivity
           |intros (H1 & _ & H2); inversion H1; inversion H2; reflexivity].
  - rewrite run_lks_app.
    destruct (accept_txn_charts ch ct) as [[c1 ps]|e] eqn:E1; cbn [res_bind].
    + apply accept_txn_charts_iff in E1. destruct E1 as (E1 & E2 & E3). rewrite E1, E2, E3. cbn [res_bind andb].
      destruct (accept_journal_charts c1 j) as [[c2 l]|e] eqn:E4; cbn [res_bind].
      * apply IH in E4. destruct E4 as (E4 & E5 & E6). rewrite E4, E5, E6.
        split; [intros H; inversion H; repeat split; reflexivity
               |intros (H1 & _ & H2); inversion H1; inversion H2; reflexivity].
      * split; [discriminate|]. intros (H1 & H2 & H3).
        destruct (mapM accept_txn (map ct_raw j)) as [l|e2] eqn:E5; [|discriminate].
        assert (H : accept_journal_charts c1 j = Ok (ch', l)) by (apply IH; repeat split; assumption).
        congruence.
    + split; [discriminate|]. intros (H1 & H2 & H3).
      destruct (run_lks ch (txn_lks ct)) as [c1|e1] eqn:E2; cbn [res_bind] in H1; [|discriminate].
      apply andb_true_iff in H2. destruct H2 as [H2 _].
      destruct (accept_txn (ct_raw ct)) as [ps|e2] eqn:E3; [|discriminate].
      assert (H : accept_txn_charts ch ct = Ok (c1, ps)) by (apply accept_txn_charts_iff; repeat split; assumption).
      congruence.
Qed.

(* Settings::try_from *)
Definition config_lks (cf : config) : list lk := map (fun c => LkComm (Some c)) (config_comms cf).

Definition equity_ok (cf : config) : bool :=
  negb (cf_strict cf && cf_equity_export cf && negb (mem_acct (cf_equity_account cf) (cf_accounts cf))).
Definition rc_ok (cf : config) : bool :=
  negb (negb (match cf_overlap_comm cf, cf_report_comm cf with None, None => false | _, _ => true end)
        && cf_price_on cf).

Lemma price_lookups_lks : forall l ch,
  price_lookups ch l = run_lks ch (map (fun c => LkComm (Some c)) (flat_map (fun be => [fst be; snd be]) l)).
Proof.
  induction l as [|[b e] l IH]; intros ch; cbn [price_lookups flat_map map app run_lks do_lk fst snd]; [reflexivity|].
  destruct (goc ch (Some b)) as [c1|x]; cbn [res_bind]; [|reflexivity].
  destruct (goc c1 (Some e)) as [c2|x]; cbn [res_bind]; [apply IH|reflexivity].
Qed.

Lemma settings_from_iff cf ch :
  settings_from cf = Ok ch <->
  equity_ok cf = true /\ rc_ok cf = true /\ run_lks (init_charts cf) (config_lks cf) = Ok ch.
Proof.
  unfold settings_from, equity_ok, rc_ok, config_lks, config_comms.
  destruct (cf_strict cf && cf_equity_export cf && negb (mem_acct (cf_equity_account cf) (cf_accounts cf)));
    cbn [negb]; [split; [discriminate|intros (H & _); discriminate]|].
  destruct (cf_report_comm cf) as [c|]; destruct (cf_overlap_comm cf) as [c'|];
    cbn [opt_list app map run_lks do_lk res_bind negb andb].
  - destruct (goc (init_charts cf) (Some c)) as [c1|e]; cbn [res_bind]; [|split; [discriminate|intros (_ & _ & H); discriminate]].
    destruct (goc c1 (Some c')) as [c2|e]; cbn [res_bind]; [|split; [discriminate|intros (_ & _ & H); discriminate]].
    destruct (cf_price_on cf); cbn [map run_lks]; [rewrite price_lookups_lks|]; tauto.
  - destruct (goc (init_charts cf) (Some c)) as [c1|e]; cbn [res_bind]; [|split; [discriminate|intros (_ & _ & H); discriminate]].
    destruct (cf_price_on cf); cbn [map run_lks]; [rewrite price_lookups_lks|]; tauto.
  - destruct (goc (init_charts cf) (Some c')) as [c1|e]; cbn [res_bind]; [|split; [discriminate|intros (_ & _ & H); discriminate]].
    destruct (cf_price_on cf); cbn [map run_lks]; [rewrite price_lookups_lks|]; tauto.
  - destruct (cf_price_on cf); cbn [map run_lks negb].
    + split; [discriminate|intros (_ & H & _); discriminate].
    + tauto.
Qed.

Lemma load_iff cf j ch ts :
  load cf j = Ok (ch, ts) <->
  equity_ok cf = true /\ rc_ok cf = true
  /\ run_lks (init_charts cf) (config_lks cf ++ journal_lks j) = Ok ch
  /\ forallb tags_nodup_b j = true /\ accept_journal (map ct_raw j) = Ok ts.
Proof.
  unfold load. rewrite run_lks_app. split.
  - intros H. destruct (settings_from cf) as [c0|e] eqn:E; cbn [res_bind] in H; [|discriminate].
    apply settings_from_iff in E. destruct E as (E1 & E2 & E3).
    apply accept_journal_charts_iff in H. destruct H as (H1 & H2 & H3).
    rewrite E3. cbn [res_bind]. repeat split; assumption.
  - intros (E1 & E2 & E3 & E4 & E5).
    destruct (run_lks (init_charts cf) (config_lks cf)) as [c0|e] eqn:E; cbn [res_bind] in E3; [|discriminate].
    assert (H : settings_from cf = Ok c0) by (apply settings_from_iff; repeat split; assumption).
    rewrite H. cbn [res_bind]. apply accept_journal_charts_iff. repeat split; assumption.
Qed.

(* ------------------------------------------------------------------ *)
(* when does a look-up succeed *)

(* what every mode requires: the empty commodity needs the permission, a tag has a name *)
Definition lk_ok_lax (permit : bool) (k : lk) : Prop :=
  match k with
  | LkComm (Some []) => permit = true
  | LkTag [] => False
  | _ => True
  end.

(* what strict mode requires in addition: the name is declared *)
Definition lk_decl (ch : charts) (k : lk) : Prop :=
  match k with
  | LkComm (Some (x :: n)) => In (x :: n) (c_comms ch)
  | LkComm _ => True
  | LkAcct a => In a (c_defined ch)
  | LkTag t => In t (c_tags ch)
  end.

(* two states that differ at most in the presence of the empty commodity *)
Definition sim (ch ch' : charts) : Prop :=
  c_defined ch = c_defined ch' /\ c_synth ch = c_synth ch'
  /\ c_permit_empty ch = c_permit_empty ch' /\ c_tags ch = c_tags ch' /\ c_strict ch = c_strict ch'
  /\ forall n, n <> [] -> (In n (c_comms ch) <-> In n (c_comms ch')).

Lemma sim_refl ch : sim ch ch.
Proof. unfold sim. split; [reflexivity|]. split; [reflexivity|]. split; [reflexivity|].
  split; [reflexivity|]. split; [reflexivity|]. intros n _. tauto. Qed.

Lemma sim_trans a b c : sim a b -> sim b c -> sim a c.
Proof.
  intros (A1 & A2 & A3 & A4 & A5 & A6) (B1 & B2 & B3 & B4 & B5 & B6).
  unfold sim. split; [congruence|]. split; [congruence|]. split; [congruence|].
  split; [congruence|]. split; [congruence|].
  intros n Hn. rewrite (A6 n Hn). apply B6. exact Hn.
Qed.

Lemma lk_decl_sim ch ch' k : sim ch ch' -> (lk_decl ch k <-> lk_decl ch' k).
Proof.
  intros (A1 & A2 & A3 & A4 & A5 & A6). destruct k as [[[|x n]|]|a|t]; cbn [lk_decl]; try tauto.
  - apply A6. discriminate.
  - rewrite A1. tauto.
  - rewrite A4. tauto.
Qed.

Lemma strict_step ch k : c_strict ch = true ->
  (forall ch', do_lk ch k = Ok ch' -> sim ch ch')
  /\ ((exists ch', do_lk ch k = Ok ch') <-> lk_ok_lax (c_permit_empty ch) k /\ lk_decl ch k).
Proof.
  intros Hs. destruct k as [[[|x n]|]|a|[|x t]]; cbn [do_lk goc goc_tag lk_ok_lax lk_decl]; unfold acct_only.
  - (* empty commodity *)
    destruct (c_permit_empty ch) eqn:Ep.
    + split.
      * intros ch'. destruct (mem_str [] (c_comms ch)); intros H; inversion H; subst; [apply sim_refl|].
        unfold sim, set_comms; cbn. do 5 (split; [reflexivity|]). intros n Hn.
        split; [intros H1; right; exact H1|intros [H1|H1]; [congruence|exact H1]].
      * split; [tauto|]. intros _. destruct (mem_str [] (c_comms ch)); eexists; reflexivity.
    + split; [intros ch' H; discriminate|]. split; [intros [ch' H]; discriminate|intros [H _]; discriminate].
  - (* named commodity *)
    rewrite Hs. destruct (mem_str (x :: n) (c_comms ch)) eqn:Em.
    + split; [intros ch' H; inversion H; apply sim_refl|].
      split; [intros _; split; [exact I|apply mem_str_in; exact Em]|intros _; eexists; reflexivity].
    + split; [intros ch' H; discriminate|].
      split; [intros [ch' H]; discriminate|]. intros [_ H]. apply mem_str_in in H. congruence.
  - split; [intros ch' H; inversion H; apply sim_refl|]. split; [tauto|intros _; eexists; reflexivity].
  - (* account *)
    rewrite Hs. destruct (mem_acct a (c_defined ch)) eqn:Em.
    + split; [intros ch' H; inversion H; apply sim_refl|].
      split; [intros _; split; [exact I|apply mem_acct_in; exact Em]|intros _; eexists; reflexivity].
    + split; [intros ch' H; discriminate|].
      split; [intros [ch' H]; discriminate|]. intros [_ H]. apply mem_acct_in in H. congruence.
  - split; [intros ch' H; discriminate|]. split; [intros [ch' H]; discriminate|tauto].
  - (* tag *)
    rewrite Hs. destruct (mem_str (x :: t) (c_tags ch)) eqn:Em.
    + split; [intros ch' H; inversion H; apply sim_refl|].
      split; [intros _; split; [exact I|apply mem_str_in; exact Em]|intros _; eexists; reflexivity].
    + split; [intros ch' H; discriminate|].
      split; [intros [ch' H]; discriminate|]. intros [_ H]. apply mem_str_in in H. congruence.
Qed.

Lemma strict_run : forall l ch, c_strict ch = true ->
  (forall ch', run_lks ch l = Ok ch' -> sim ch ch')
  /\ ((exists ch', run_lks ch l = Ok ch') <->
      Forall (fun k => lk_ok_lax (c_permit_empty ch) k /\ lk_decl ch k) l).
Proof.
  induction l as [|k l IH]; intros ch Hs; cbn [run_lks].
  - split; [intros ch' H; inversion H; apply sim_refl|]. split; [constructor|intros _; eexists; reflexivity].
  - destruct (strict_step ch k Hs) as [S1 S2].
    destruct (do_lk ch k) as [c1|e] eqn:E; cbn [res_bind].
    + pose proof (S1 c1 eq_refl) as Hsim.
      assert (Hs1 : c_strict c1 = true) by (destruct Hsim as (_ & _ & _ & _ & H & _); congruence).
      assert (Hp : c_permit_empty c1 = c_permit_empty ch) by (destruct Hsim as (_ & _ & H & _); congruence).
      destruct (IH c1 Hs1) as [I1 I2].
      split; [intros ch' H; eapply sim_trans; [exact Hsim|apply I1; exact H]|].
      rewrite I2, Hp. split.
      * intros HF. constructor; [apply S2; eexists; reflexivity|].
        eapply Forall_impl; [|exact HF]. intros k' [A B]. split; [exact A|]. apply (lk_decl_sim ch c1); assumption.
      * intros HF. inversion HF as [|? ? _ HF2]. subst.
        eapply Forall_impl; [|exact HF2]. intros k' [A B]. split; [exact A|]. apply (lk_decl_sim ch c1); assumption.
    + split; [intros ch' H; discriminate|]. split; [intros [ch' H]; discriminate|].
      intros HF. inversion HF as [|? ? Hk _]. subst. apply S2 in Hk. destruct Hk as [ch' Hk]. discriminate.
Qed.

Lemma lax_step ch k : c_strict ch = false ->
  (forall ch', do_lk ch k = Ok ch' -> c_strict ch' = false /\ c_permit_empty ch' = c_permit_empty ch)
  /\ ((exists ch', do_lk ch k = Ok ch') <-> lk_ok_lax (c_permit_empty ch) k).
Proof.
  intros Hs. destruct k as [[[|x n]|]|a|[|x t]]; cbn [do_lk goc goc_tag lk_ok_lax]; unfold acct_only.
  - destruct (c_permit_empty ch) eqn:Ep.
    + split.
      * intros ch'. destruct (mem_str [] (c_comms ch)); intros H; inversion H; subst; cbn; auto.
      * split; [reflexivity|]. intros _. destruct (mem_str [] (c_comms ch)); eexists; reflexivity.
    + split; [intros ch' H; discriminate|]. split; [intros [ch' H]; discriminate|discriminate].
  - rewrite Hs. split.
    + intros ch'. destruct (mem_str (x :: n) (c_comms ch)); intros H; inversion H; subst; cbn; auto.
    + split; [tauto|]. intros _. destruct (mem_str (x :: n) (c_comms ch)); eexists; reflexivity.
  - split; [intros ch' H; inversion H; subst; auto|]. split; [tauto|intros _; eexists; reflexivity].
  - rewrite Hs. split.
    + intros ch'. destruct (mem_acct a (c_defined ch)); intros H; inversion H; subst; cbn; auto.
    + split; [tauto|]. intros _. destruct (mem_acct a (c_defined ch)); eexists; reflexivity.
  - split; [intros ch' H; discriminate|]. split; [intros [ch' H]; discriminate|tauto].
  - rewrite Hs. split.
    + intros ch'. destruct (mem_str (x :: t) (c_tags ch)); intros H; inversion H; subst; cbn; auto.
    + split; [tauto|]. intros _. destruct (mem_str (x :: t) (c_tags ch)); eexists; reflexivity.
Qed.

Lemma lax_run : forall l ch, c_strict ch = false ->
  ((exists ch', run_lks ch l = Ok ch') <-> Forall (lk_ok_lax (c_permit_empty ch)) l).
Proof.
  induction l as [|k l IH]; intros ch Hs; cbn [run_lks].
  - split; [constructor|intros _; eexists; reflexivity].
  - destruct (lax_step ch k Hs) as [S1 S2].
    destruct (do_lk ch k) as [c1|e] eqn:E; cbn [res_bind].
    + destruct (S1 c1 eq_refl) as [Hs1 Hp]. rewrite (IH c1 Hs1), Hp. split.
      * intros HF. constructor; [apply S2; eexists; reflexivity|exact HF].
      * intros HF. inversion HF. assumption.
    + split; [intros [ch' H]; discriminate|].
      intros HF. inversion HF as [|? ? Hk _]. subst. apply S2 in Hk. destruct Hk as [ch' Hk]. discriminate.
Qed.

(* ------------------------------------------------------------------ *)
(* the names looked up are the names the specification speaks about *)

Definition lk_accts (l : list lk) : list acct :=
  flat_map (fun k => match k with LkAcct a => [a] | _ => [] end) l.
Definition lk_comms (l : list lk) : list str :=
  flat_map (fun k => match k with LkComm (Some c) => [c] | _ => [] end) l.
Definition lk_tags (l : list lk) : list str :=
  flat_map (fun k => match k with LkTag t => [t] | _ => [] end) l.

Lemma lk_decl_names ch l :
  Forall (lk_decl ch) l <->
  (forall a, In a (lk_accts l) -> In a (c_defined ch))
  /\ (forall c, In c (lk_comms l) -> c <> [] -> In c (c_comms ch))
  /\ (forall t, In t (lk_tags l) -> In t (c_tags ch)).
Proof.
  rewrite Forall_forall. unfold lk_accts, lk_comms, lk_tags. split.
  - intros H. split; [|split].
    + intros a Ha. apply in_flat_map in Ha. destruct Ha as (k & Hk & Ha).
      destruct k as [o|a'|t]; try contradiction. destruct Ha as [Ha|[]]. subst. exact (H _ Hk).
    + intros c Hc Hn. apply in_flat_map in Hc. destruct Hc as (k & Hk & Hc).
      destruct k as [[c'|]|a'|t]; try contradiction. destruct Hc as [Hc|[]]. subst.
      specialize (H _ Hk). destruct c as [|x n]; [congruence|exact H].
    + intros t Ht. apply in_flat_map in Ht. destruct Ht as (k & Hk & Ht).
      destruct k as [o|a'|t']; try contradiction. destruct Ht as [Ht|[]]. subst. exact (H _ Hk).
  - intros (H1 & H2 & H3) k Hk. destruct k as [[[|x n]|]|a|t]; cbn [lk_decl]; try exact I.
    + apply H2; [|discriminate]. apply in_flat_map. eexists. split; [exact Hk|left; reflexivity].
    + apply H1. apply in_flat_map. eexists. split; [exact Hk|left; reflexivity].
    + apply H3. apply in_flat_map. eexists. split; [exact Hk|left; reflexivity].
Qed.

Lemma flat_map_flat_map {A B C} (f : A -> list B) (g : B -> list C) l :
  flat_map g (flat_map f l) = flat_map (fun x => flat_map g (f x)) l.
Proof.
  induction l as [|x l IH]; cbn [flat_map]; [reflexivity|]. rewrite flat_map_app, IH. reflexivity.
Qed.

Lemma lk_accts_tags ts : lk_accts (map LkTag ts) = [].
Proof. induction ts as [|t ts IH]; [reflexivity|exact IH]. Qed.
Lemma lk_comms_tags ts : lk_comms (map LkTag ts) = [].
Proof. induction ts as [|t ts IH]; [reflexivity|exact IH]. Qed.
Lemma lk_tags_tags ts : lk_tags (map LkTag ts) = ts.
Proof. induction ts as [|t ts IH]; [reflexivity|]. cbn. f_equal. exact IH. Qed.

Lemma lk_accts_post rp : lk_accts (post_lks rp) = [rp_acc rp].
Proof. unfold post_lks, value_lks. destruct (rp_unit rp); reflexivity. Qed.
Lemma lk_tags_post rp : lk_tags (post_lks rp) = [].
Proof. unfold post_lks, value_lks. destruct (rp_unit rp); reflexivity. Qed.
Lemma lk_comms_post rp c : c <> [] -> (In c (lk_comms (post_lks rp)) <-> In c (post_comms rp)).
Proof.
  intros Hn. unfold post_lks, value_lks, post_comms, post_pc.
  destruct (rp_unit rp) as [u|]; [|cbn; intuition congruence].
  destruct (u_closing u) as [[[ty v] c']|]; cbn; intuition congruence.
Qed.

Lemma accept_posting_tc rp p : accept_posting rp = Ok p ->
  p_txn_comm p = match rp_unit rp with
                 | None => []
                 | Some u => match u_closing u with Some (_, _, c) => c | None => u_comm u end
                 end.
Proof.
  unfold accept_posting. intros H.
  destruct (value_position (rp_amount rp) (rp_unit rp)) as [[[[pc tc] ta] tot]|e] eqn:Ev; cbn [res_bind] in H; [|discriminate].
  apply value_position_tc in Ev. unfold mk_posting in H.
  destruct (is_zero (rp_amount rp)); [discriminate|]. inversion H. cbn. exact Ev.
Qed.

Lemma first_tc_in rt : first_tc rt <> [] -> In (first_tc rt) (flat_map post_comms (rt_posts rt)).
Proof.
  unfold first_tc. destruct (rt_posts rt) as [|rp l]; [congruence|].
  destruct (accept_posting rp) as [p|e] eqn:E; [|congruence].
  apply accept_posting_tc in E. rewrite E. intros Hn. cbn [flat_map]. apply in_or_app. left.
  unfold post_comms. destruct (rp_unit rp) as [u|]; [|congruence].
  destruct (u_closing u) as [[[ty v] c]|]; cbn; auto.
Qed.

Lemma lk_accts_posts l : lk_accts (flat_map post_lks l) = map rp_acc l.
Proof.
  unfold lk_accts. rewrite flat_map_flat_map. induction l as [|rp l IH]; [reflexivity|].
  cbn [flat_map map]. rewrite IH. fold (lk_accts (post_lks rp)). rewrite lk_accts_post. reflexivity.
Qed.
Lemma lk_tags_posts l : lk_tags (flat_map post_lks l) = [].
Proof.
  unfold lk_tags. rewrite flat_map_flat_map. induction l as [|rp l IH]; [reflexivity|].
  cbn [flat_map]. rewrite IH. fold (lk_tags (post_lks rp)). rewrite lk_tags_post. reflexivity.
Qed.
Lemma lk_comms_posts l c : c <> [] ->
  (In c (lk_comms (flat_map post_lks l)) <-> In c (flat_map post_comms l)).
Proof.
  intros Hn. unfold lk_comms. rewrite flat_map_flat_map. rewrite !in_flat_map.
  split; intros (rp & Hrp & H); exists rp; (split; [exact Hrp|]);
    apply (lk_comms_post rp c Hn); exact H.
Qed.

Lemma lk_accts_txn ct : lk_accts (txn_lks ct) = txn_accounts ct.
Proof.
  unfold txn_lks, txn_accounts, lk_accts. rewrite !flat_map_app.
  fold (lk_accts (map LkTag (ct_tags ct))). rewrite lk_accts_tags.
  fold (lk_accts (flat_map post_lks (rt_posts (ct_raw ct)))). rewrite lk_accts_posts.
  unfold last_lks. destruct (rt_last (ct_raw ct)); reflexivity.
Qed.
Lemma lk_tags_txn ct : lk_tags (txn_lks ct) = ct_tags ct.
Proof.
  unfold txn_lks, lk_tags. rewrite !flat_map_app.
  fold (lk_tags (map LkTag (ct_tags ct))). rewrite lk_tags_tags.
  fold (lk_tags (flat_map post_lks (rt_posts (ct_raw ct)))). rewrite lk_tags_posts.
  unfold last_lks. destruct (rt_last (ct_raw ct)); cbn; rewrite app_nil_r; reflexivity.
Qed.
Lemma lk_comms_txn ct c : c <> [] ->
  (In c (lk_comms (txn_lks ct)) <-> In c (flat_map post_comms (rt_posts (ct_raw ct)))).
Proof.
  intros Hn. unfold txn_lks, lk_comms. rewrite !flat_map_app.
  fold (lk_comms (map LkTag (ct_tags ct))). rewrite lk_comms_tags. cbn [app].
  fold (lk_comms (flat_map post_lks (rt_posts (ct_raw ct)))).
  rewrite in_app_iff, (lk_comms_posts _ c Hn). split; [|intros H; left; exact H].
  intros [H|H]; [exact H|]. unfold last_lks in H.
  destruct (rt_last (ct_raw ct)); cbn in H; [|contradiction].
  destruct H as [H|[]]. subst c. apply first_tc_in. exact Hn.
Qed.

Lemma lk_accts_journal j : lk_accts (journal_lks j) = journal_accounts j.
Proof.
  unfold journal_lks, journal_accounts, lk_accts. rewrite flat_map_flat_map.
  induction j as [|ct j IH]; [reflexivity|]. cbn [flat_map]. rewrite IH.
  fold (lk_accts (txn_lks ct)). rewrite lk_accts_txn. reflexivity.
Qed.
Lemma lk_tags_journal j : lk_tags (journal_lks j) = journal_tags j.
Proof.
  unfold journal_lks, journal_tags, lk_tags. rewrite flat_map_flat_map.
  induction j as [|ct j IH]; [reflexivity|]. cbn [flat_map]. rewrite IH.
  fold (lk_tags (txn_lks ct)). rewrite lk_tags_txn. reflexivity.
Qed.
Lemma lk_comms_journal j c : c <> [] -> (In c (lk_comms (journal_lks j)) <-> In c (journal_comms j)).
Proof.
  intros Hn. unfold journal_lks, journal_comms, lk_comms. rewrite flat_map_flat_map, !in_flat_map.
  split; intros (ct & Hct & H); exists ct; (split; [exact Hct|]);
    apply (lk_comms_txn ct c Hn); exact H.
Qed.

Lemma lk_accts_config cf : lk_accts (config_lks cf) = [].
Proof. unfold config_lks. induction (config_comms cf) as [|c l IH]; [reflexivity|exact IH]. Qed.
Lemma lk_tags_config cf : lk_tags (config_lks cf) = [].
Proof. unfold config_lks. induction (config_comms cf) as [|c l IH]; [reflexivity|exact IH]. Qed.
Lemma lk_comms_config cf : lk_comms (config_lks cf) = config_comms cf.
Proof.
  unfold config_lks. induction (config_comms cf) as [|c l IH]; [reflexivity|]. cbn. f_equal. exact IH.
Qed.

Definition all_lks (cf : config) (j : list craw_txn) : list lk := config_lks cf ++ journal_lks j.

Lemma declared_iff cf j :
  declared cf j <->
  Forall (lk_decl (init_charts cf)) (all_lks cf j)
  /\ (cf_equity_export cf = true -> In (cf_equity_account cf) (cf_accounts cf)).
Proof.
  unfold declared, all_lks. rewrite lk_decl_names. unfold lk_accts, lk_comms, lk_tags.
  rewrite !flat_map_app.
  fold (lk_accts (config_lks cf)) (lk_accts (journal_lks j)) (lk_comms (config_lks cf))
       (lk_comms (journal_lks j)) (lk_tags (config_lks cf)) (lk_tags (journal_lks j)).
  rewrite lk_accts_config, lk_tags_config, lk_comms_config, lk_accts_journal, lk_tags_journal.
  cbn [app init_charts c_defined c_comms c_tags].
  split.
  - intros (H1 & H2 & H3 & H4). split; [split; [exact H1|split; [|exact H3]]|exact H4].
    intros c Hc Hn. apply H2; [|exact Hn]. apply in_app_iff. apply in_app_iff in Hc.
    destruct Hc as [Hc|Hc]; [left; exact Hc|right; apply lk_comms_journal; assumption].
  - intros ((H1 & H2 & H3) & H4). split; [exact H1|split; [|split; [exact H3|exact H4]]].
    intros c Hc Hn. apply H2; [|exact Hn]. apply in_app_iff. apply in_app_iff in Hc.
    destruct Hc as [Hc|Hc]; [left; exact Hc|right; apply lk_comms_journal; assumption].
Qed.

Lemma declared_b_spec cf j : declared_b cf j = true <-> declared cf j.
Proof.
  unfold declared_b, declared. rewrite !andb_true_iff, !forallb_forall. split.
  - intros (((H1 & H2) & H3) & H4). split; [|split; [|split]].
    + intros a Ha. apply mem_acct_in, H1, Ha.
    + intros c Hc Hn. specialize (H2 c Hc). destruct c; [congruence|apply mem_str_in; exact H2].
    + intros t Ht. apply mem_str_in, H3, Ht.
    + intros He. rewrite He in H4. cbn in H4. apply mem_acct_in. exact H4.
  - intros (H1 & H2 & H3 & H4). split; [split; [split|]|].
    + intros a Ha. apply mem_acct_in, H1, Ha.
    + intros c Hc. destruct c as [|x n]; [reflexivity|]. apply mem_str_in, H2; [exact Hc|discriminate].
    + intros t Ht. apply mem_str_in, H3, Ht.
    + destruct (cf_equity_export cf); [|reflexivity]. cbn. apply mem_acct_in, H4. reflexivity.
Qed.

(* ------------------------------------------------------------------ *)
(* C12_strict_iff *)

Lemma config_lks_no_chart cf : config_lks (no_chart cf) = config_lks cf.
Proof. reflexivity. Qed.

Lemma equity_ok_strict cf : cf_strict cf = true ->
  (equity_ok cf = true <-> (cf_equity_export cf = true -> In (cf_equity_account cf) (cf_accounts cf))).
Proof.
  intros Hs. unfold equity_ok. rewrite Hs. cbn [andb].
  destruct (cf_equity_export cf); cbn [andb negb].
  - rewrite negb_involutive, mem_acct_in. split; [intros H _; exact H|intros H; apply H; reflexivity].
  - split; [intros _ H; discriminate|reflexivity].
Qed.

Lemma strict_iff cf j ts : cf_strict cf = true ->
  ((exists ch, load cf j = Ok (ch, ts)) <->
   (exists ch, load (no_chart cf) j = Ok (ch, ts)) /\ declared cf j).
Proof.
  intros Hs.
  assert (Hs0 : c_strict (init_charts cf) = true) by exact Hs.
  assert (Hl0 : c_strict (init_charts (no_chart cf)) = false) by reflexivity.
  destruct (strict_run (all_lks cf j) (init_charts cf) Hs0) as [_ SR].
  pose proof (lax_run (all_lks cf j) (init_charts (no_chart cf)) Hl0) as LR.
  change (c_permit_empty (init_charts (no_chart cf))) with (cf_permit_empty cf) in LR.
  change (c_permit_empty (init_charts cf)) with (cf_permit_empty cf) in SR.
  split.
  - intros [ch H]. apply load_iff in H. destruct H as (E1 & E2 & E3 & E4 & E5).
    fold (all_lks cf j) in E3.
    assert (HF : Forall (fun k => lk_ok_lax (cf_permit_empty cf) k /\ lk_decl (init_charts cf) k) (all_lks cf j))
      by (apply SR; exists ch; exact E3).
    split.
    + assert (HL : Forall (lk_ok_lax (cf_permit_empty cf)) (all_lks cf j))
        by (eapply Forall_impl; [|exact HF]; intros k [A _]; exact A).
      apply LR in HL. destruct HL as [ch' HL]. exists ch'. apply load_iff.
      split; [reflexivity|]. split; [exact E2|]. split; [exact HL|]. split; assumption.
    + apply declared_iff. split; [|apply equity_ok_strict; assumption].
      eapply Forall_impl; [|exact HF]. intros k [_ B]. exact B.
  - intros [[ch' H] HD]. apply load_iff in H. destruct H as (_ & E2 & E3 & E4 & E5).
    apply declared_iff in HD. destruct HD as [HD1 HD2].
    assert (HL : Forall (lk_ok_lax (cf_permit_empty cf)) (all_lks cf j))
      by (apply LR; exists ch'; exact E3).
    assert (HF : Forall (fun k => lk_ok_lax (cf_permit_empty cf) k /\ lk_decl (init_charts cf) k) (all_lks cf j)).
    { apply Forall_forall. intros k Hk. rewrite Forall_forall in HL, HD1. split; [apply HL|apply HD1]; exact Hk. }
    apply SR in HF. destruct HF as [ch HF]. exists ch. apply load_iff.
    split; [apply equity_ok_strict; assumption|]. split; [exact E2|]. split; [exact HF|]. split; assumption.
Qed.

(* ------------------------------------------------------------------ *)
(* invariants of the look-ups (both modes): sets only grow, synthetic parents are fixed,
   declared + synthetic accounts stay closed under parents, looked-up names are present *)

Definition known_closed (ch : charts) : Prop := pclosed (c_defined ch ++ c_synth ch).

Lemma pclosed_from_rel D D' S : pclosed (D ++ S) -> incl D D' -> relclosed S D' -> pclosed (D' ++ S).
Proof.
  intros HC HI HR b Hb Hl. apply in_or_app. apply in_app_or in Hb. destruct Hb as [Hb|Hb].
  - exact (HR b Hb Hl).
  - assert (H : In (parent b) (D ++ S)) by (apply HC; [apply in_or_app; right; exact Hb|exact Hl]).
    apply in_app_or in H. destruct H as [H|H]; [left; apply HI; exact H|right; exact H].
Qed.

Lemma step_inv ch k ch' : do_lk ch k = Ok ch' ->
  incl (c_defined ch) (c_defined ch') /\ c_synth ch' = c_synth ch /\ incl (c_comms ch) (c_comms ch')
  /\ (known_closed ch -> known_closed ch')
  /\ match k with
     | LkAcct a => In a (c_defined ch')
     | LkComm (Some c) => In c (c_comms ch')
     | _ => True
     end.
Proof.
  destruct k as [[[|x n]|]|a|[|x t]]; cbn [do_lk goc goc_tag]; unfold acct_only.
  - destruct (c_permit_empty ch); [|discriminate].
    destruct (mem_str [] (c_comms ch)) eqn:Em; intros H; inversion H; subst; cbn.
    + repeat split; try apply incl_refl; auto. apply mem_str_in. exact Em.
    + repeat split; try apply incl_refl; auto. apply incl_tl, incl_refl.
  - destruct (mem_str (x :: n) (c_comms ch)) eqn:Em.
    + intros H; inversion H; subst. repeat split; try apply incl_refl; auto. apply mem_str_in. exact Em.
    + destruct (c_strict ch); [discriminate|]. intros H; inversion H; subst; cbn.
      repeat split; try apply incl_refl; auto. apply incl_tl, incl_refl.
  - intros H; inversion H; subst. repeat split; try apply incl_refl; auto.
  - unfold known_closed. destruct (mem_acct a (c_defined ch)) eqn:Em.
    + apply mem_acct_in in Em. destruct (c_strict ch).
      * intros H; inversion H; subst. repeat split; try apply incl_refl; auto.
      * intros H; inversion H; subst; cbn.
        pose proof (build_tree_incl (length a) (c_defined ch) [] a) as HI.
        repeat split; try apply incl_refl; auto.
        intros HC. eapply pclosed_from_rel; [exact HC|exact HI|].
        apply (build_tree_closed (length a) (c_defined ch) [] (c_synth ch) a); [intros b []|apply le_n|].
        intros b Hb _ Hl. apply in_app_or. apply HC; [apply in_or_app; left; exact Hb|exact Hl].
    + destruct (c_strict ch); [discriminate|]. intros H; inversion H; subst; cbn.
      set (d2 := build_tree (length a) (a :: c_defined ch) [] a).
      pose proof (build_tree_incl (length a) (a :: c_defined ch) [] a) as HI1. fold d2 in HI1.
      pose proof (build_tree_incl (length a) d2 [] a) as HI2.
      repeat split; try apply incl_refl; auto.
      * intros b Hb. apply HI2, HI1. right. exact Hb.
      * intros HC. eapply pclosed_from_rel; [exact HC|intros b Hb; apply HI2, HI1; right; exact Hb|].
        destruct (build_tree_closed (length a) (a :: c_defined ch) [] (c_synth ch) a) as (C1 & _ & _);
          [intros b []|apply le_n| |].
        { intros b [Hb|Hb] Hne Hl; [congruence|].
          assert (Hp : In (parent b) (c_defined ch ++ c_synth ch))
            by (apply HC; [apply in_or_app; left; exact Hb|exact Hl]).
          apply in_app_or in Hp. destruct Hp as [Hp|Hp]; [left; right; exact Hp|right; exact Hp]. }
        fold d2 in C1.
        apply (build_tree_closed (length a) d2 [] (c_synth ch) a); [intros b []|apply le_n|].
        intros b Hb _ Hl. apply C1; assumption.
      * apply HI2, HI1. left. reflexivity.
  - discriminate.
  - destruct (mem_str (x :: t) (c_tags ch)).
    + intros H; inversion H; subst. repeat split; try apply incl_refl; auto.
    + destruct (c_strict ch); [discriminate|]. intros H; inversion H; subst; cbn.
      repeat split; try apply incl_refl; auto.
Qed.

Lemma run_inv : forall l ch ch', run_lks ch l = Ok ch' ->
  incl (c_defined ch) (c_defined ch') /\ c_synth ch' = c_synth ch /\ incl (c_comms ch) (c_comms ch')
  /\ (known_closed ch -> known_closed ch')
  /\ (forall a, In a (lk_accts l) -> In a (c_defined ch'))
  /\ (forall c, In c (lk_comms l) -> In c (c_comms ch')).
Proof.
  induction l as [|k l IH]; intros ch ch' H; cbn [run_lks] in H.
  - inversion H; subst. repeat split; try apply incl_refl; auto; intros x [].
  - destruct (do_lk ch k) as [c1|e] eqn:E; cbn [res_bind] in H; [|discriminate].
    apply step_inv in E. destruct E as (A1 & A2 & A3 & A4 & A5).
    apply IH in H. destruct H as (B1 & B2 & B3 & B4 & B5 & B6).
    split; [eapply incl_tran; eassumption|]. split; [congruence|].
    split; [eapply incl_tran; eassumption|]. split; [auto|]. split.
    + intros a Ha. unfold lk_accts in Ha. cbn [flat_map] in Ha. apply in_app_or in Ha.
      destruct Ha as [Ha|Ha]; [|apply B5; exact Ha].
      destruct k as [o|a'|t]; try contradiction. destruct Ha as [Ha|[]]. subst. apply B1. exact A5.
    + intros c Hc. unfold lk_comms in Hc. cbn [flat_map] in Hc. apply in_app_or in Hc.
      destruct Hc as [Hc|Hc]; [|apply B6; exact Hc].
      destruct k as [[c'|]|a'|t]; try contradiction. destruct Hc as [Hc|[]]. subst. apply B3. exact A5.
Qed.

Lemma init_closed cf : known_closed (init_charts cf).
Proof. unfold known_closed, init_charts; cbn. apply synth_pclosed. Qed.

(* ------------------------------------------------------------------ *)
(* the accepted postings carry the written account and commodity *)

Lemma mapM_in {A B} (f : A -> res B) : forall l l' y,
  mapM f l = Ok l' -> In y l' -> exists x, In x l /\ f x = Ok y.
Proof.
  induction l as [|x l IH]; intros l' y H Hy; cbn [mapM] in H.
  - inversion H; subst. destruct Hy.
  - destruct (f x) as [y0|e] eqn:E; [|discriminate].
    destruct (mapM f l) as [ys|e]; [|discriminate]. inversion H; subst.
    destruct Hy as [Hy|Hy].
    + subst. exists x. split; [left; reflexivity|exact E].
    + destruct (IH ys y eq_refl Hy) as (x' & Hx & Hf). exists x'. split; [right; exact Hx|exact Hf].
Qed.

Lemma accept_posting_names rp p : accept_posting rp = Ok p -> p_acc p = rp_acc rp /\ p_comm p = post_pc rp.
Proof.
  unfold accept_posting. intros H.
  destruct (value_position (rp_amount rp) (rp_unit rp)) as [[[[pc tc] ta] tot]|e] eqn:Ev; cbn [res_bind] in H; [|discriminate].
  apply value_position_pc in Ev. unfold mk_posting in H.
  destruct (is_zero (rp_amount rp)); [discriminate|]. inversion H. cbn. split; [reflexivity|exact Ev].
Qed.

Lemma accept_txn_names ct ps p : accept_txn (ct_raw ct) = Ok ps -> In p ps ->
  In (p_acc p) (txn_accounts ct) /\ In (p_comm p) (lk_comms (txn_lks ct)).
Proof.
  unfold accept_txn, txn_accounts, txn_lks, lk_comms. rewrite !flat_map_app.
  fold (lk_comms (map LkTag (ct_tags ct))). rewrite lk_comms_tags. cbn [app].
  intros H Hp. destruct (rt_posts (ct_raw ct)) as [|rp l] eqn:Ep; [discriminate|].
  destruct (mapM accept_posting (rp :: l)) as [ps0|e] eqn:Em; cbn [res_bind] in H; [|discriminate].
  assert (Hold : forall q, In q ps0 ->
            In (p_acc q) (map rp_acc (rp :: l))
            /\ In (p_comm q) (flat_map (fun k => match k with LkComm (Some c) => [c] | _ => [] end)
                                       (flat_map post_lks (rp :: l)))).
  { intros q Hq. destruct (mapM_in _ _ _ _ Em Hq) as (rq & Hrq & Hacc).
    apply accept_posting_names in Hacc. destruct Hacc as [A1 A2]. split.
    - rewrite A1. apply in_map. exact Hrq.
    - rewrite flat_map_flat_map. apply in_flat_map. exists rq. split; [exact Hrq|].
      rewrite A2. unfold post_lks. rewrite flat_map_app. apply in_or_app. right. left. reflexivity. }
  pose proof (first_tc_ok _ _ _ _ Ep Em) as Ef.
  unfold last_lks. destruct (rt_last (ct_raw ct)) as [a|]; cbn [res_bind] in H.
  - rewrite Ef in H. unfold mk_posting in H.
    destruct (is_zero (dneg (txn_sum ps0))); cbn [res_bind] in H; [discriminate|].
    match type of H with context [ps0 ++ [?x]] => set (lp := x) in * end.
    destruct (Nat.ltb 1 (length (distinct_strs (map p_txn_comm (ps0 ++ [lp]))))); [discriminate|].
    destruct (is_zero (txn_sum (ps0 ++ [lp]))); [|discriminate]. inversion H; subst ps.
    apply in_app_or in Hp. destruct Hp as [Hp|[Hp|[]]].
    + destruct (Hold p Hp) as [A1 A2]. split; apply in_or_app; left; assumption.
    + subst p. unfold lp. cbn [p_acc p_comm]. split; apply in_or_app; right; left; reflexivity.
  - destruct (Nat.ltb 1 (length (distinct_strs (map p_txn_comm ps0)))); [discriminate|].
    destruct (is_zero (txn_sum ps0)); [|discriminate]. inversion H; subst ps.
    destruct (Hold p Hp) as [A1 A2]. split; apply in_or_app; left; assumption.
Qed.

Lemma accept_journal_names : forall j ts p,
  accept_journal (map ct_raw j) = Ok ts -> In p (concat ts) ->
  In (p_acc p) (journal_accounts j) /\ In (p_comm p) (lk_comms (journal_lks j)).
Proof.
  unfold accept_journal, journal_accounts, journal_lks.
  induction j as [|ct j IH]; intros ts p H Hp; cbn [map mapM] in H.
  - inversion H; subst. destruct Hp.
  - destruct (accept_txn (ct_raw ct)) as [ps|e] eqn:E; [|discriminate].
    destruct (mapM accept_txn (map ct_raw j)) as [l|e] eqn:E2; [|discriminate]. inversion H; subst.
    cbn [concat flat_map] in *. unfold lk_comms. rewrite flat_map_app.
    apply in_app_or in Hp. destruct Hp as [Hp|Hp].
    + destruct (accept_txn_names ct ps p E Hp) as [A1 A2]. split; apply in_or_app; left; assumption.
    + destruct (IH l p eq_refl Hp) as [A1 A2]. split; apply in_or_app; right; assumption.
Qed.

(* ------------------------------------------------------------------ *)
(* C12_charts_closed *)

Lemma charts_closed cf j ch ts : load cf j = Ok (ch, ts) ->
  forall p, In p (concat ts) ->
    In (p_acc p) (c_defined ch) /\ In (p_comm p) (c_comms ch)
    /\ forall a, is_ancestor a (p_acc p) -> In a (c_defined ch ++ c_synth ch).
Proof.
  intros H p Hp. apply load_iff in H. destruct H as (_ & _ & E3 & _ & E5).
  apply run_inv in E3. destruct E3 as (_ & _ & _ & B4 & B5 & B6).
  destruct (accept_journal_names j ts p E5 Hp) as [A1 A2].
  assert (Hd : In (p_acc p) (c_defined ch)).
  { apply B5. unfold lk_accts. rewrite flat_map_app. apply in_or_app. right.
    fold (lk_accts (journal_lks j)). rewrite lk_accts_journal. exact A1. }
  split; [exact Hd|]. split.
  - apply B6. unfold lk_comms. rewrite flat_map_app. apply in_or_app. right. exact A2.
  - intros a Ha. eapply pclosed_ancestor; [apply B4, init_closed| |exact Ha].
    apply in_or_app. left. exact Hd.
Qed.

Lemma acct_known_in ch a : acct_known ch a = true <-> In a (c_defined ch ++ c_synth ch).
Proof. unfold acct_known. rewrite orb_true_iff, !mem_acct_in, in_app_iff. tauto. Qed.

Lemma charts_closed_b cf j ch ts : load cf j = Ok (ch, ts) ->
  forall p, In p (concat ts) ->
    get_txn_account ch (p_acc p) (p_comm p) = true
    /\ forall a, is_ancestor a (p_acc p) -> get_txn_account ch a (p_comm p) = true.
Proof.
  intros H p Hp. destruct (charts_closed cf j ch ts H p Hp) as (A1 & A2 & A3).
  unfold get_txn_account, get_commodity. apply mem_str_in in A2. rewrite A2. cbn [andb]. split.
  - apply acct_known_in. apply in_or_app. left. exact A1.
  - intros a Ha. apply acct_known_in. apply A3. exact Ha.
Qed.

(* ------------------------------------------------------------------ *)
(* the balance consults `known` only at non-empty prefixes of posted accounts *)

Lemma parent_prefix (a : acct) n : length a <> 1%nat -> (1 <= n)%nat ->
  exists m, (1 <= m)%nat /\ firstn n (parent a) = firstn m a.
Proof.
  intros Hl Hn. rewrite c12_parent_firstn, firstn_firstn.
  destruct (Nat.eq_dec (Nat.min n (length a - 1)) 0) as [E|E].
  - assert (Ha : a = []) by (destruct a as [|x [|y a']]; cbn [length] in *; [reflexivity|congruence|lia]).
    subst a. exists 1%nat. split; [lia|]. rewrite !firstn_nil. reflexivity.
  - exists (Nat.min n (length a - 1)). split; [lia|reflexivity].
Qed.

Lemma bubble_ext (k1 k2 : acct -> bool) sums : forall fuel (me : ksum),
  (forall n, (1 <= n)%nat -> k1 (firstn n (fst (fst me))) = k2 (firstn n (fst (fst me)))) ->
  bubble k1 sums fuel me = bubble k2 sums fuel me.
Proof.
  induction fuel as [|f IH]; intros me H; cbn [bubble]; [reflexivity|].
  destruct (Nat.eqb (length (fst (fst me))) 1) eqn:El; [reflexivity|]. apply Nat.eqb_neq in El.
  assert (Hpar : forall n, (1 <= n)%nat ->
            k1 (firstn n (parent (fst (fst me)))) = k2 (firstn n (parent (fst (fst me))))).
  { intros n Hn. destruct (parent_prefix _ n El Hn) as (m & Hm & E). rewrite E. apply H. exact Hm. }
  destruct (find (fun e => is_parent_of (fst e) (fst me)) sums) as [pe|] eqn:Ef.
  - f_equal. apply IH. apply find_some in Ef. destruct Ef as [_ Ef]. unfold is_parent_of in Ef.
    apply andb_true_iff in Ef. destruct Ef as [Ef _]. apply c12_acct_eqb_eq in Ef. rewrite Ef. exact Hpar.
  - assert (Hk : k1 (parent (fst (fst me))) = k2 (parent (fst (fst me)))).
    { specialize (Hpar (length (parent (fst (fst me))) + 1)%nat).
      rewrite firstn_all2 in Hpar by lia. apply Hpar. lia. }
    rewrite Hk. destruct (k2 (parent (fst (fst me)))); [|reflexivity].
    f_equal. apply IH. cbn [fst]. exact Hpar.
Qed.

Lemma bubble_all_ext (k1 k2 : acct -> bool) sums : forall todo,
  (forall e, In e todo -> forall n, (1 <= n)%nat -> k1 (firstn n (fst (fst e))) = k2 (firstn n (fst (fst e)))) ->
  bubble_all k1 sums todo = bubble_all k2 sums todo.
Proof.
  induction todo as [|e todo IH]; intros H; cbn [bubble_all]; [reflexivity|].
  rewrite (bubble_ext k1 k2 sums _ e) by (apply H; left; reflexivity).
  rewrite IH by (intros e' He'; apply H; right; exact He'). reflexivity.
Qed.

Lemma chunk_acc_keys : forall (l : list ksum) cur acc e,
  In e (chunk_acc cur acc l) -> fst e = cur \/ In (fst e) (map fst l).
Proof.
  induction l as [|[k v] l IH]; intros cur acc e H; cbn [chunk_acc] in H.
  - destruct H as [H|[]]. subst. left. reflexivity.
  - destruct (key_eqb k cur).
    + apply IH in H. destruct H as [H|H]; [left; exact H|right; right; exact H].
    + destruct H as [H|H]; [subst; left; reflexivity|].
      apply IH in H. destruct H as [H|H]; [right; left; symmetry; exact H|right; right; exact H].
Qed.

Lemma account_sums_keys ps e : In e (account_sums ps) -> In (fst (fst e)) (map bp_acc ps).
Proof.
  unfold account_sums, chunk_sums. intros H.
  set (srt := sort_by (fun a b : ksum => key_leb (fst a) (fst b)) (map (fun p => (bp_key p, bp_amt p)) ps)) in *.
  assert (Hk : In (fst e) (map fst srt)).
  { destruct srt as [|[k v] l]; [destruct H|]. apply chunk_acc_keys in H.
    destruct H as [H|H]; [left; symmetry; exact H|right; exact H]. }
  apply in_map_iff in Hk. destruct Hk as (x & Hx & Hin). unfold srt in Hin.
  apply sort_by_in in Hin. apply in_map_iff in Hin. destruct Hin as (p & Hp & Hpin).
  apply in_map_iff. exists p. split; [|exact Hpin]. rewrite <- Hx, <- Hp. reflexivity.
Qed.

Lemma balance_ext (k1 k2 : acct -> bool) ord ps :
  (forall a, In a (map bp_acc ps) -> forall n, (1 <= n)%nat -> k1 (firstn n a) = k2 (firstn n a)) ->
  balance k1 ord ps = balance k2 ord ps.
Proof.
  intros H. unfold balance.
  rewrite (bubble_all_ext k1 k2 (account_sums ps) (account_sums ps)); [reflexivity|].
  intros e He. apply H. apply account_sums_keys. exact He.
Qed.

(* accepted journal: the balance never meets an unresolvable account *)
Lemma balance_known_all cf j ch ts ord bps :
  load cf j = Ok (ch, ts) -> on_posted ts bps ->
  balance (acct_known ch) ord bps = balance (fun _ => true) ord bps.
Proof.
  intros H Hon. apply balance_ext. intros a Ha n Hn.
  apply in_map_iff in Ha. destruct Ha as (b & Hb & Hbin). subst a.
  specialize (Hon b Hbin). unfold posted in Hon. apply in_map_iff in Hon.
  destruct Hon as (p & Hp & Hpin). rewrite <- Hp.
  destruct (charts_closed cf j ch ts H p Hpin) as (A1 & _ & A3).
  apply acct_known_in. destruct (Nat.lt_ge_cases n (length (p_acc p))) as [Hlt|Hge].
  - apply A3. exists n. split; [lia|reflexivity].
  - rewrite firstn_all2 by lia. apply in_or_app. left. exact A1.
Qed.

(* ------------------------------------------------------------------ *)
(* C12_lax_independent, C12_modes_agree *)

Lemma lax_accept_independent cf j ts : cf_strict cf = false ->
  ((exists ch, load cf j = Ok (ch, ts)) <-> (exists ch, load (no_chart cf) j = Ok (ch, ts))).
Proof.
  intros Hs.
  assert (Hl1 : c_strict (init_charts cf) = false) by exact Hs.
  assert (Hl0 : c_strict (init_charts (no_chart cf)) = false) by reflexivity.
  pose proof (lax_run (all_lks cf j) (init_charts cf) Hl1) as L1.
  pose proof (lax_run (all_lks cf j) (init_charts (no_chart cf)) Hl0) as L0.
  change (c_permit_empty (init_charts (no_chart cf))) with (cf_permit_empty cf) in L0.
  change (c_permit_empty (init_charts cf)) with (cf_permit_empty cf) in L1.
  assert (He : equity_ok cf = true) by (unfold equity_ok; rewrite Hs; reflexivity).
  split; intros [ch H]; apply load_iff in H; destruct H as (_ & E2 & E3 & E4 & E5).
  - assert (HL : exists ch', run_lks (init_charts (no_chart cf)) (all_lks cf j) = Ok ch')
      by (apply L0, L1; exists ch; exact E3).
    destruct HL as [ch' HL]. exists ch'. apply load_iff.
    split; [reflexivity|]. split; [exact E2|]. split; [exact HL|]. split; assumption.
  - assert (HL : exists ch', run_lks (init_charts cf) (all_lks cf j) = Ok ch')
      by (apply L1, L0; exists ch; exact E3).
    destruct HL as [ch' HL]. exists ch'. apply load_iff.
    split; [exact He|]. split; [exact E2|]. split; [exact HL|]. split; assumption.
Qed.

Lemma lax_outputs_independent cf j ch ch' ts ts' ord bps : cf_strict cf = false ->
  load cf j = Ok (ch, ts) -> load (no_chart cf) j = Ok (ch', ts') ->
  ts = ts' /\ (on_posted ts bps -> balance (acct_known ch) ord bps = balance (acct_known ch') ord bps).
Proof.
  intros Hs H1 H2.
  assert (E : ts = ts').
  { apply load_iff in H1. apply load_iff in H2.
    destruct H1 as (_ & _ & _ & _ & A). destruct H2 as (_ & _ & _ & _ & B).
    change (map ct_raw j) with (map ct_raw j) in B. congruence. }
  split; [exact E|]. subst ts'. intros Hon.
  rewrite (balance_known_all cf j ch ts ord bps H1 Hon).
  rewrite (balance_known_all (no_chart cf) j ch' ts ord bps H2 Hon). reflexivity.
Qed.

Lemma modes_agree cf j ch1 ch2 ts1 ts2 ord bps :
  load (with_strict true cf) j = Ok (ch1, ts1) -> load (with_strict false cf) j = Ok (ch2, ts2) ->
  ts1 = ts2 /\ (on_posted ts1 bps -> balance (acct_known ch1) ord bps = balance (acct_known ch2) ord bps).
Proof.
  intros H1 H2.
  assert (E : ts1 = ts2).
  { apply load_iff in H1. apply load_iff in H2.
    destruct H1 as (_ & _ & _ & _ & A). destruct H2 as (_ & _ & _ & _ & B). congruence. }
  split; [exact E|]. subst ts2. intros Hon.
  rewrite (balance_known_all _ j ch1 ts1 ord bps H1 Hon).
  rewrite (balance_known_all _ j ch2 ts1 ord bps H2 Hon). reflexivity.
Qed.

(* ------------------------------------------------------------------ *)
(* C12_parent_not_postable *)

Lemma parent_not_postable cf a d ch :
  cf_strict cf = true -> In d (cf_accounts cf) -> is_ancestor a d -> ~ In a (cf_accounts cf) ->
  settings_from cf = Ok ch ->
  (forall c, get_commodity ch c = true -> get_txn_account ch a c = true)
  /\ (forall c, exists e, goc_account ch a c = Err e)
  /\ (forall j ch' ts, In a (journal_accounts j) -> load cf j <> Ok (ch', ts)).
Proof.
  intros Hs Hd Ha Hn Hset.
  apply settings_from_iff in Hset. destruct Hset as (_ & _ & Hrun).
  assert (Hs0 : c_strict (init_charts cf) = true) by exact Hs.
  destruct (strict_run (config_lks cf) (init_charts cf) Hs0) as [SR _].
  specialize (SR ch Hrun). destruct SR as (S1 & S2 & _ & _ & S5 & _).
  cbn [init_charts c_defined c_synth c_strict] in S1, S2, S5.
  assert (Hsyn : In a (c_synth ch)).
  { rewrite <- S2. apply synth_spec. split; [exists d; split; assumption|exact Hn]. }
  split; [|split].
  - intros c Hc. unfold get_txn_account. rewrite Hc. cbn [andb]. apply acct_known_in.
    apply in_or_app. right. exact Hsyn.
  - intros c. unfold goc_account.
    destruct (goc ch (Some c)) as [c1|e] eqn:Eg; cbn [res_bind]; [|eexists; reflexivity].
    assert (Hs1 : c_strict ch = true) by congruence.
    destruct (strict_step ch (LkComm (Some c)) Hs1) as [Sim _]. specialize (Sim c1 Eg).
    destruct Sim as (T1 & _ & _ & _ & T5 & _).
    assert (Em : mem_acct a (c_defined c1) = false) by (apply mem_acct_false; rewrite <- T1, <- S1; exact Hn).
    rewrite Em. rewrite <- T5, Hs1. eexists; reflexivity.
  - intros j ch' ts Hj Hload.
    assert (HD : declared cf j).
    { apply (strict_iff cf j ts Hs). exists ch'. exact Hload. }
    destruct HD as (HD & _). apply Hn, HD, Hj.
Qed.

(* ------------------------------------------------------------------ *)
(* the oracle *)

Lemma oracle_sound cf j o : obs_ok_b cf j o = true -> obs_spec cf j o.
Proof.
  unfold obs_ok_b, obs_spec, run_ok_b. rewrite !andb_true_iff.
  intros (((((H1 & H2) & H3) & H4) & H5) & H6). split; [|split; [|split]].
  - destruct (o_ts (o_s o)), (o_ts (o_n o)); try exact I; try discriminate.
    + apply andb_true_iff in H1. destruct H1 as [A B]. split; [apply declared_b_spec; exact A|exact B].
    + intros HD. apply declared_b_spec in HD. rewrite HD in H1. discriminate.
  - destruct (o_ts (o_l o)), (o_ts (o_n o)); try exact I; try discriminate.
    apply andb_true_iff in H2. exact H2.
  - destruct (o_ts (o_s o)), (o_ts (o_l o)); try exact I.
    apply andb_true_iff in H3. exact H3.
  - intros r [Hr|[Hr|[Hr|[]]]] Hne; subst r.
    + destruct (o_ts (o_s o)); [exact H4|congruence].
    + destruct (o_ts (o_l o)); [exact H5|congruence].
    + destruct (o_ts (o_n o)); [exact H6|congruence].
Qed.

(* ------------------------------------------------------------------ *)
(* non-vacuity and regression witnesses (evaluated) *)

Definition ex_acc (l : list N) : list (list N) := map (fun x => [x]) l.
Definition ex_EUR : list N := [69; 85; 82]%N.
Definition ex_USD : list N := [85; 83; 68]%N.
Definition ex_t1 : list N := [116; 49]%N.

(* strict; chart a:b:c and e (a:b and a undeclared); commodities EUR USD; empty commodity
   permitted; tag t1; equity export to e; report commodity EUR; prices USD -> EUR *)
Definition ex_cf : config :=
  mkConfig true [ex_acc [97; 98; 99]%N; ex_acc [101]%N] [ex_EUR; ex_USD] true [ex_t1]
           true (ex_acc [101]%N) (Some ex_EUR) None true [(ex_USD, ex_EUR)].

Definition ex_j : list craw_txn :=
  [ mkCrawTxn [ex_t1]
      (mkRawTxn [mkRawPost (ex_acc [97; 98; 99]%N) (mkDec 10 0)
                   (Some (mkUnit ex_USD (Some (mkDec 1 0, [88]%N)) (Some (UnitPrice, mkDec 2 0, ex_EUR))))]
                (Some (ex_acc [101]%N)));
    mkCrawTxn []
      (mkRawTxn [mkRawPost (ex_acc [97; 98; 99]%N) (mkDec 1 0) None;
                 mkRawPost (ex_acc [101]%N) (mkDec (-1) 0) None] None) ].

Definition ex_j_parent : list craw_txn :=
  [ mkCrawTxn [] (mkRawTxn [mkRawPost (ex_acc [97; 98]%N) (mkDec 1 0) None;
                            mkRawPost (ex_acc [101]%N) (mkDec (-1) 0) None] None) ].

Definition is_ok {A} (r : res A) : bool := match r with Ok _ => true | Err _ => false end.

Lemma charts_example :
  cf_strict ex_cf = true /\ declared_b ex_cf ex_j = true
  /\ option_map (fun x => (c_synth (fst x), map (fun ps => map (fun p => (p_comm p, dm (p_txn_amount p))) ps) (snd x)))
                (match load ex_cf ex_j with Ok x => Some x | Err _ => None end)
     = Some ([ex_acc [97]%N; ex_acc [97; 98]%N],
             [[(ex_USD, 20%Z); (ex_EUR, (-20)%Z)]; [([], 1%Z); ([], (-1)%Z)]])
  /\ is_ok (load (no_chart ex_cf) ex_j) = true
  /\ is_ok (load ex_cf ex_j_parent) = false
  /\ is_ok (load (with_strict false ex_cf) ex_j_parent) = true.
Proof. vm_compute. repeat split; reflexivity. Qed.

(* regression witnesses of finding F9 (repaired in /repo 6389815): strict off, the chart
   declares an account whose parent is undeclared, a descendant is posted *)
Definition f9_cf (accounts : list (list (list N))) : config :=
  mkConfig false accounts [] true [] false (ex_acc [69]%N) None None false [].
Definition f9_j : list craw_txn :=
  [ mkCrawTxn [] (mkRawTxn [mkRawPost (ex_acc [97; 98; 99; 100]%N) (mkDec 1 0) None;
                            mkRawPost (ex_acc [101]%N) (mkDec (-1) 0) None] None) ].
Definition balance_ok (cf : config) (j : list craw_txn) : bool :=
  match load cf j with
  | Ok (ch, ts) =>
      match balance (acct_known ch) (fun l => l)
                    (map (fun p => mkBpost (p_acc p) (p_comm p) (p_amount p)) (concat ts)) with
      | Some _ => true | None => false end
  | Err _ => false
  end.

Lemma f9_regression :
  balance_ok (f9_cf [ex_acc [97; 98; 99]%N]) f9_j = true
  /\ balance_ok (f9_cf [ex_acc [97; 98; 99; 100]%N; ex_acc [97; 98; 99]%N; ex_acc [101]%N]) f9_j = true
  /\ balance_ok (with_strict true (f9_cf [ex_acc [97; 98; 99; 100]%N; ex_acc [97; 98; 99]%N; ex_acc [101]%N])) f9_j = true.
Proof. vm_compute. repeat split; reflexivity. Qed.
