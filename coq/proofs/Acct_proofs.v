(* Acct_proofs.v — reusable facts about TkModel.Acct: equality tests, the key
   order, injectivity of the account string on well-formed accounts,
   prefixes and parents. *)
From Coq Require Import Permutation Sorted.
From TkModel Require Import Base Acct Balance.
From TkSpec Require Import Balance_spec.
From TkProofs Require Import Base_proofs.

(* ------------------------------------------------------------------ *)
(* equality tests *)

Lemma acct_eqb_eq (a b : acct) : acct_eqb a b = true <-> a = b.
Proof. unfold acct_eqb. apply list_eqb_eq. apply str_eqb_eq. Qed.

Lemma acct_eqb_refl (a : acct) : acct_eqb a a = true.
Proof. apply acct_eqb_eq. reflexivity. Qed.

Lemma key_eqb_eq (k1 k2 : key) : key_eqb k1 k2 = true <-> k1 = k2.
Proof.
  unfold key_eqb. rewrite andb_true_iff, acct_eqb_eq, str_eqb_eq.
  destruct k1 as [a1 c1], k2 as [a2 c2]. cbn [fst snd]. split.
  - intros [H1 H2]. subst. reflexivity.
  - intros H. inversion H. split; reflexivity.
Qed.

Lemma key_eqb_refl (k : key) : key_eqb k k = true.
Proof. apply key_eqb_eq. reflexivity. Qed.

Lemma key_eqb_sym (k1 k2 : key) : key_eqb k1 k2 = key_eqb k2 k1.
Proof.
  destruct (key_eqb k1 k2) eqn:E1, (key_eqb k2 k1) eqn:E2; try reflexivity.
  - apply key_eqb_eq in E1. subst. rewrite key_eqb_refl in E2. discriminate.
  - apply key_eqb_eq in E2. subst. rewrite key_eqb_refl in E1. discriminate.
Qed.

Lemma key_eq_dec (k1 k2 : key) : {k1 = k2} + {k1 <> k2}.
Proof.
  destruct (key_eqb k1 k2) eqn:E; [left; apply key_eqb_eq; exact E|].
  right. intros H. apply key_eqb_eq in H. congruence.
Qed.

(* ------------------------------------------------------------------ *)
(* the account string is injective on well-formed accounts *)

Definition colon_free (a : acct) : Prop := Forall (fun c => ~ In colon c) a.

Lemma acct_wf_colon_free a : acct_wf a -> colon_free a.
Proof.
  intros [_ H]. unfold colon_free. eapply Forall_impl; [|exact H]. intros c [_ Hc]. exact Hc.
Qed.

Lemma app_sep_inj (x y s t : list N) (c : N) :
  ~ In c x -> ~ In c y -> x ++ c :: s = y ++ c :: t -> x = y /\ s = t.
Proof.
  revert y; induction x as [|a x IH]; intros [|b y] Hx Hy E; cbn [app] in E.
  - inversion E. split; reflexivity.
  - inversion E. subst. exfalso. apply Hy. left. reflexivity.
  - inversion E. subst. exfalso. apply Hx. left. reflexivity.
  - inversion E. subst.
    destruct (IH y) as [E1 E2]; [intros H; apply Hx; right; exact H|intros H; apply Hy; right; exact H|assumption|].
    subst. split; reflexivity.
Qed.

Lemma join_colon_cons2 x y l : join_colon (x :: y :: l) = x ++ colon :: join_colon (y :: l).
Proof. reflexivity. Qed.

Lemma join_colon_inj (a b : acct) :
  a <> [] -> b <> [] -> colon_free a -> colon_free b -> join_colon a = join_colon b -> a = b.
Proof.
  revert b; induction a as [|x a IH]; intros b Ha Hb Fa Fb E; [congruence|].
  destruct b as [|y b]; [congruence|].
  inversion Fa as [|? ? Fx Fa']; subst. inversion Fb as [|? ? Fy Fb']; subst.
  destruct a as [|x' a], b as [|y' b].
  - cbn [join_colon] in E. subst. reflexivity.
  - rewrite join_colon_cons2 in E. cbn [join_colon] in E. exfalso. apply Fx. rewrite E.
    apply in_or_app. right. left. reflexivity.
  - rewrite join_colon_cons2 in E. cbn [join_colon] in E. exfalso. apply Fy. rewrite <- E.
    apply in_or_app. right. left. reflexivity.
  - rewrite !join_colon_cons2 in E. apply app_sep_inj in E; [|exact Fx|exact Fy].
    destruct E as [E1 E2]. subst y. f_equal.
    apply IH; [discriminate|discriminate|exact Fa'|exact Fb'|exact E2].
Qed.

Lemma acct_str_inj a b : acct_wf a -> acct_wf b -> acct_str a = acct_str b -> a = b.
Proof.
  intros Ha Hb. unfold acct_str.
  apply join_colon_inj; [apply Ha|apply Hb|apply acct_wf_colon_free; exact Ha|apply acct_wf_colon_free; exact Hb].
Qed.

(* ------------------------------------------------------------------ *)
(* the key order *)

Lemma key_cmp_ord : cmp_ord key_cmp.
Proof.
  unfold key_cmp.
  apply (cmp_ord_lex (fun k1 k2 : key => str_cmp (snd k1) (snd k2))
                     (fun k1 k2 : key => str_cmp (acct_str (fst k1)) (acct_str (fst k2)))).
  - apply (cmp_ord_preimage (fun k : key => snd k)). apply str_cmp_ord.
  - apply (cmp_ord_preimage (fun k : key => acct_str (fst k))). apply str_cmp_ord.
Qed.

Lemma key_cmp_refl k : key_cmp k k = Eq.
Proof. apply (co_refl _ key_cmp_ord). Qed.

Lemma key_cmp_opp k1 k2 : key_cmp k1 k2 = CompOpp (key_cmp k2 k1).
Proof. apply (co_opp _ key_cmp_ord). Qed.

Lemma key_cmp_lt_trans k1 k2 k3 : key_cmp k1 k2 = Lt -> key_cmp k2 k3 = Lt -> key_cmp k1 k3 = Lt.
Proof. apply (co_lt_trans _ key_cmp_ord). Qed.

Definition key_wf (k : key) : Prop := acct_wf (fst k).

Lemma key_cmp_eq k1 k2 : key_wf k1 -> key_wf k2 -> (key_cmp k1 k2 = Eq <-> k1 = k2).
Proof.
  intros W1 W2. split; [|intros H; subst; apply key_cmp_refl].
  unfold key_cmp, cmp_then. destruct (str_cmp (snd k1) (snd k2)) eqn:E1; try discriminate.
  intros E2. apply str_cmp_eq in E1. apply str_cmp_eq in E2.
  apply (acct_str_inj _ _ W1 W2) in E2. destruct k1, k2. cbn [fst snd] in *. subst. reflexivity.
Qed.

Lemma key_cmp_lt_neq k1 k2 : key_cmp k1 k2 = Lt -> k1 <> k2.
Proof. intros H E. subst. rewrite key_cmp_refl in H. discriminate. Qed.

Lemma key_cmp_lt_asym k1 k2 : key_cmp k1 k2 = Lt -> key_cmp k2 k1 = Lt -> False.
Proof. intros H1 H2. rewrite key_cmp_opp, H2 in H1. discriminate. Qed.

Lemma key_cmp_snd k1 k2 : key_cmp k1 k2 <> Gt -> str_cmp (snd k1) (snd k2) <> Gt.
Proof.
  unfold key_cmp, cmp_then. destruct (str_cmp (snd k1) (snd k2)); congruence.
Qed.

Lemma key_leb_total k1 k2 : key_leb k1 k2 = false -> key_leb k2 k1 = true.
Proof. apply (co_leb_total _ key_cmp_ord). Qed.

Lemma key_leb_trans k1 k2 k3 : key_leb k1 k2 = true -> key_leb k2 k3 = true -> key_leb k1 k3 = true.
Proof. apply (co_leb_trans _ key_cmp_ord). Qed.

Lemma key_leb_true k1 k2 : key_leb k1 k2 = true <-> key_cmp k1 k2 <> Gt.
Proof. apply cmp_leb_true. Qed.

Lemma key_le_antisym k1 k2 : key_wf k1 -> key_wf k2 ->
  key_cmp k1 k2 <> Gt -> key_cmp k2 k1 <> Gt -> k1 = k2.
Proof.
  intros W1 W2 H1 H2. apply (key_cmp_eq k1 k2 W1 W2). rewrite key_cmp_opp in H2.
  destruct (key_cmp k1 k2); cbn in *; congruence.
Qed.

(* sorting by key (of anything carrying a key) *)
Lemma sort_by_key_sorted {A} (key : A -> (list (list N) * list N)) (l : list A) :
  StronglySorted (fun a b => key_cmp (key a) (key b) <> Gt)
                 (sort_by (fun a b => key_leb (key a) (key b)) l).
Proof.
  eapply StronglySorted_impl; [|apply sort_by_sorted].
  - intros a b _ _ H. apply key_leb_true. exact H.
  - intros a b. apply key_leb_total.
  - intros a b c. apply key_leb_trans.
Qed.

(* a weakly sorted list of distinct well-formed keys is strictly sorted *)
Lemma key_sorted_strict (l : list (list (list N) * list N)) :
  Forall key_wf l -> NoDup l ->
  StronglySorted (fun a b => key_cmp a b <> Gt) l ->
  StronglySorted (fun a b => key_cmp a b = Lt) l.
Proof.
  intros Hw Hn Hs. induction Hs as [|x l Hs IH Hf]; constructor.
  - apply IH; [inversion Hw; assumption|inversion Hn; assumption].
  - inversion Hw as [|? ? Wx Wl]; subst. inversion Hn as [|? ? Hni _]; subst.
    rewrite Forall_forall in *. intros z Hz. specialize (Hf z Hz).
    destruct (key_cmp x z) eqn:E; [|reflexivity|congruence].
    apply (key_cmp_eq x z Wx (Wl z Hz)) in E. subst. contradiction.
Qed.

(* ------------------------------------------------------------------ *)
(* prefixes and parents *)

Lemma parent_firstn (a : acct) : parent a = firstn (length a - 1) a.
Proof. apply removelast_firstn_len. Qed.

Lemma parent_length (a : acct) : length (parent a) = (length a - 1)%nat.
Proof. rewrite parent_firstn, firstn_length. lia. Qed.

Lemma is_prefix_spec a b : is_prefix a b = true <-> firstn (length a) b = a.
Proof. unfold is_prefix. apply acct_eqb_eq. Qed.

Lemma is_prefix_len a b : is_prefix a b = true -> (length a <= length b)%nat.
Proof. rewrite is_prefix_spec. intros H. rewrite <- H at 1. rewrite firstn_length. lia. Qed.

Lemma is_prefix_refl a : is_prefix a a = true.
Proof. apply is_prefix_spec. apply firstn_all. Qed.

Lemma is_prefix_firstn n (a : acct) : is_prefix (firstn n a) a = true.
Proof.
  apply is_prefix_spec. rewrite firstn_length.
  destruct (Nat.le_ge_cases n (length a)) as [H|H].
  - rewrite Nat.min_l by exact H. reflexivity.
  - rewrite Nat.min_r by exact H. rewrite firstn_all. symmetry. apply firstn_all2. exact H.
Qed.

Lemma is_prefix_trans a b c : is_prefix a b = true -> is_prefix b c = true -> is_prefix a c = true.
Proof.
  intros H1 H2. pose proof (is_prefix_len _ _ H1) as L1.
  apply is_prefix_spec in H1. apply is_prefix_spec in H2. apply is_prefix_spec.
  rewrite <- H1 at 2. rewrite <- H2. rewrite firstn_firstn_le by exact L1. reflexivity.
Qed.

Lemma is_prefix_antisym a b : is_prefix a b = true -> is_prefix b a = true -> a = b.
Proof.
  intros H1 H2. pose proof (is_prefix_len _ _ H1). pose proof (is_prefix_len _ _ H2).
  apply is_prefix_spec in H1. rewrite <- H1. replace (length a) with (length b) by lia.
  apply firstn_all.
Qed.

Lemma is_prefix_parent (a : acct) : is_prefix (parent a) a = true.
Proof. rewrite parent_firstn. apply is_prefix_firstn. Qed.

Lemma firstn_wf n (a : acct) : acct_wf a -> (0 < n)%nat -> acct_wf (firstn n a).
Proof.
  intros [Hne Hf] Hn. split.
  - destruct a as [|x a]; [congruence|]. destruct n; [lia|]. cbn [firstn]. discriminate.
  - apply incl_Forall with (l1 := a); [|exact Hf]. intros c Hc. eapply in_firstn; exact Hc.
Qed.

Lemma acct_wf_length a : acct_wf a -> (0 < length a)%nat.
Proof. intros [H _]. destruct a; [congruence|cbn [length]; lia]. Qed.

Lemma parent_wf (a : acct) : acct_wf a -> (2 <= length a)%nat -> acct_wf (parent a).
Proof. intros H L. rewrite parent_firstn. apply firstn_wf; [exact H|lia]. Qed.

Lemma parent_firstn_S n (a : acct) : (S n <= length a)%nat -> parent (firstn (S n) a) = firstn n a.
Proof.
  intros H. rewrite parent_firstn, firstn_length, Nat.min_l by exact H.
  rewrite firstn_firstn_le by lia. f_equal. lia.
Qed.

(* keys: parent/child and "below" *)
Definition kbelow (k k' : key) : bool := is_prefix (fst k) (fst k') && str_eqb (snd k) (snd k').

Lemma below_kbelow k p : below k p = kbelow k (bp_key p).
Proof. reflexivity. Qed.

Lemma kbelow_spec k k' : kbelow k k' = true <-> firstn (length (fst k)) (fst k') = fst k /\ snd k = snd k'.
Proof. unfold kbelow. rewrite andb_true_iff, is_prefix_spec, str_eqb_eq. reflexivity. Qed.

Lemma kbelow_refl k : kbelow k k = true.
Proof. unfold kbelow. rewrite is_prefix_refl, str_eqb_refl. reflexivity. Qed.

Lemma kbelow_len k k' : kbelow k k' = true -> (length (fst k) <= length (fst k'))%nat.
Proof. unfold kbelow. rewrite andb_true_iff. intros [H _]. apply is_prefix_len. exact H. Qed.

Lemma kbelow_trans a b c : kbelow a b = true -> kbelow b c = true -> kbelow a c = true.
Proof.
  unfold kbelow. rewrite !andb_true_iff, !str_eqb_eq. intros [H1 E1] [H2 E2].
  split; [apply (is_prefix_trans _ _ _ H1 H2)|congruence].
Qed.

Lemma kbelow_firstn n (k : key) : kbelow (firstn n (fst k), snd k) k = true.
Proof. unfold kbelow. cbn [fst snd]. rewrite is_prefix_firstn, str_eqb_refl. reflexivity. Qed.

Lemma is_parent_of_spec p c : is_parent_of p c = true <-> fst p = parent (fst c) /\ snd p = snd c.
Proof. unfold is_parent_of. rewrite andb_true_iff, acct_eqb_eq, str_eqb_eq. reflexivity. Qed.

Lemma child_len (me c : key) : is_parent_of me c = true -> fst c <> [] ->
  length (fst c) = S (length (fst me)).
Proof.
  rewrite is_parent_of_spec. intros [H _] Hne. rewrite H, parent_length.
  destruct (fst c); [congruence|cbn [length]; lia].
Qed.

Lemma child_prefix (me c : key) : is_parent_of me c = true -> fst c <> [] ->
  firstn (length (fst me)) (fst c) = fst me.
Proof.
  intros H Hne. pose proof (child_len _ _ H Hne) as L. apply is_parent_of_spec in H.
  destruct H as [H _]. rewrite parent_firstn in H. rewrite H at 2. f_equal. lia.
Qed.

Lemma child_kbelow (me c : key) : is_parent_of me c = true -> fst c <> [] -> kbelow me c = true.
Proof.
  intros H Hne. apply kbelow_spec. split; [apply child_prefix; assumption|].
  apply is_parent_of_spec in H. tauto.
Qed.

(* the unique child of [me] on the way down to [r] *)
Lemma step_child (me r : key) : kbelow me r = true -> r <> me ->
  let c0 : key := (firstn (S (length (fst me))) (fst r), snd r) in
  is_parent_of me c0 = true /\ kbelow c0 r = true /\ (0 < S (length (fst me)) <= length (fst r))%nat.
Proof.
  intros Hp Hne c0. pose proof (kbelow_len _ _ Hp) as Hl. apply kbelow_spec in Hp.
  destruct Hp as [Hp Hc].
  assert (length (fst me) < length (fst r))%nat as Hlt.
  { destruct (Nat.eq_dec (length (fst me)) (length (fst r))) as [E|E]; [|lia].
    exfalso. apply Hne. rewrite E, firstn_all in Hp. destruct me, r. cbn [fst snd] in *. congruence. }
  split; [|split; [|lia]].
  - apply is_parent_of_spec. unfold c0. cbn [fst snd]. split; [|exact Hc].
    rewrite parent_firstn_S by lia. symmetry. exact Hp.
  - apply kbelow_firstn.
Qed.

Lemma child_on_path_unique (me r c : key) :
  is_parent_of me c = true -> fst c <> [] -> kbelow c r = true ->
  c = (firstn (S (length (fst me))) (fst r), snd r) /\ kbelow me r = true /\ r <> me.
Proof.
  intros Hc Hne Hp. pose proof (child_len _ _ Hc Hne) as L. pose proof (kbelow_len _ _ Hp) as Hl.
  pose proof (kbelow_trans _ _ _ (child_kbelow _ _ Hc Hne) Hp) as Hmr.
  apply kbelow_spec in Hp. destruct Hp as [Hp Hcm]. split; [|split; [exact Hmr|]].
  - rewrite <- L, Hp, <- Hcm. destruct c; reflexivity.
  - intros E. subst r. lia.
Qed.

(* the specification's ancestor list *)
Lemma prefixes_from_in n (a b : acct) :
  In b (prefixes_from n a) <-> exists i, (0 < i <= n)%nat /\ b = firstn i a.
Proof.
  induction n as [|n IH]; cbn [prefixes_from].
  - split; [intros []|intros (i & Hi & _); lia].
  - rewrite in_app_iff, IH. cbn [In]. split.
    + intros [(i & Hi & E)|[E|[]]]; [exists i; split; [lia|exact E]|exists (S n); split; [lia|congruence]].
    + intros (i & Hi & E). destruct (Nat.eq_dec i (S n)) as [Ei|Ei].
      * right. left. subst. reflexivity.
      * left. exists i. split; [lia|exact E].
Qed.

Lemma ancestors_and_self_in (a b : acct) :
  In b (ancestors_and_self a) <-> exists i, (0 < i <= length a)%nat /\ b = firstn i a.
Proof. apply prefixes_from_in. Qed.

Lemma spec_keys_in ps (k : key) :
  In k (spec_keys ps) <->
  exists p i, In p ps /\ (0 < i <= length (bp_acc p))%nat /\ k = (firstn i (bp_acc p), bp_comm p).
Proof.
  unfold spec_keys. rewrite in_flat_map. split.
  - intros (p & Hp & Hk). apply in_map_iff in Hk. destruct Hk as (b & E & Hb).
    apply ancestors_and_self_in in Hb. destruct Hb as (i & Hi & Eb).
    exists p, i. split; [exact Hp|]. split; [exact Hi|]. subst. reflexivity.
  - intros (p & i & Hp & Hi & E). exists p. split; [exact Hp|]. apply in_map_iff.
    exists (firstn i (bp_acc p)). split; [symmetry; exact E|].
    apply ancestors_and_self_in. exists i. split; [exact Hi|reflexivity].
Qed.
