(* Tstamp_civil_proofs.v — the civil calendar arithmetic of jiff (Neri-Schneider) against the
   textbook day count: closed form, monotonicity, inverse (one 400-year cycle swept by
   vm_compute and lifted by periodicity). *)
From TkModel Require Import Base Dec Acct Txn Tstamp.
From TkSpec Require Import Tstamp_spec.
Local Open Scope Z_scope.

Ltac Zify.zify_post_hook ::= Z.to_euclidean_division_equations.

Lemma spec_leap_is_leap y : spec_leap y = ts_is_leap y.
Proof.
  unfold spec_leap, ts_is_leap.
  destruct (y mod 4 =? 0) eqn:E4, (y mod 100 =? 0) eqn:E100, (y mod 400 =? 0) eqn:E400; cbn; try reflexivity;
    rewrite ?Z.eqb_eq, ?Z.eqb_neq in *; lia.
Qed.

Lemma month_cases m : 1 <= m <= 12 ->
  m = 1 \/ m = 2 \/ m = 3 \/ m = 4 \/ m = 5 \/ m = 6 \/ m = 7 \/ m = 8 \/ m = 9 \/ m = 10 \/ m = 11 \/ m = 12.
Proof. lia. Qed.

Lemma spec_leap_cases y :
  (spec_leap y = true /\ (y mod 4 = 0 /\ (y mod 100 <> 0 \/ y mod 400 = 0))) \/
  (spec_leap y = false /\ (y mod 4 <> 0 \/ (y mod 100 = 0 /\ y mod 400 <> 0))).
Proof.
  unfold spec_leap.
  destruct (y mod 4 =? 0) eqn:E4, (y mod 100 =? 0) eqn:E100, (y mod 400 =? 0) eqn:E400; cbn;
    rewrite ?Z.eqb_eq, ?Z.eqb_neq in *; lia.
Qed.

Ltac calc_consts :=
  repeat match goal with
  | |- context [cum_days (Zpos ?p)] =>
      let v := eval vm_compute in (cum_days (Zpos p)) in change (cum_days (Zpos p)) with v
  | |- context [Zpos ?p <=? Zpos ?q] =>
      let v := eval vm_compute in (Zpos p <=? Zpos q) in change (Zpos p <=? Zpos q) with v
  | |- context [Zpos ?p <? Zpos ?q] =>
      let v := eval vm_compute in (Zpos p <? Zpos q) in change (Zpos p <? Zpos q) with v
  end; cbv iota beta; cbn [andb orb negb].

(* the Neri-Schneider day number is the textbook day count *)
Lemma epoch_day_spec y m d : 1 <= m <= 12 -> ts_epoch_day y m d = spec_days y m d.
Proof.
  intros Hm. unfold ts_epoch_day, spec_days, leaps_before.
  destruct (spec_leap_cases y) as [[L H]|[L H]]; rewrite L;
  destruct (month_cases m Hm) as [E|[E|[E|[E|[E|[E|[E|[E|[E|[E|[E|E]]]]]]]]]]]; subst m;
  calc_consts; lia.
Qed.

(* ------------------------------------------------------------------ monotonicity *)
Ltac calc_nth :=
  repeat match goal with
  | H : context [nth ?a ?b ?c] |- _ =>
      let v := eval vm_compute in (nth a b c) in change (nth a b c) with v in H
  | |- context [nth ?a ?b ?c] =>
      let v := eval vm_compute in (nth a b c) in change (nth a b c) with v
  end.

Lemma valid_unfold y m d : spec_date_valid y m d = true -> 1 <= m <= 12 /\ 1 <= d <= month_len y m.
Proof. unfold spec_date_valid. rewrite !andb_true_iff, !Z.leb_le. tauto. Qed.

Lemma month_len_bounds y m : 1 <= m <= 12 -> 28 <= month_len y m <= 31.
Proof.
  intros Hm. unfold month_len.
  destruct (spec_leap y);
  destruct (month_cases m Hm) as [E|[E|[E|[E|[E|[E|[E|[E|[E|[E|[E|E]]]]]]]]]]]; subst m; calc_nth; lia.
Qed.

(* within one year *)
Lemma same_year_mono y m1 d1 m2 d2 :
  spec_date_valid y m1 d1 = true -> spec_date_valid y m2 d2 = true ->
  m1 < m2 \/ (m1 = m2 /\ d1 < d2) -> spec_days y m1 d1 < spec_days y m2 d2.
Proof.
  intros V1 V2 H. apply valid_unfold in V1, V2. destruct V1 as [Hm1 Hd1], V2 as [Hm2 Hd2].
  unfold spec_days, month_len, cum_days in *.
  destruct (spec_leap y);
  destruct (month_cases m1 Hm1) as [E|[E|[E|[E|[E|[E|[E|[E|[E|[E|[E|E]]]]]]]]]]]; subst m1;
  destruct (month_cases m2 Hm2) as [E|[E|[E|[E|[E|[E|[E|[E|[E|[E|[E|E]]]]]]]]]]]; subst m2;
  try lia; calc_nth; calc_consts; lia.
Qed.

Definition year_start (y : Z) : Z := spec_days y 1 1.

Lemma year_start_step y : year_start (y + 1) = year_start y + 365 + (if spec_leap y then 1 else 0).
Proof.
  unfold year_start, spec_days, leaps_before. calc_consts.
  destruct (spec_leap_cases y) as [[L H]|[L H]]; rewrite L;
  destruct (spec_leap (y + 1)); cbn [andb]; lia.
Qed.

Lemma year_start_mono y1 y2 : y1 < y2 ->
  year_start y1 + 365 + (if spec_leap y1 then 1 else 0) <= year_start y2.
Proof.
  intros H. replace y2 with (y1 + 1 + (y2 - y1 - 1)) by lia.
  assert (0 <= y2 - y1 - 1) as Hk by lia. revert Hk. generalize (y2 - y1 - 1). clear H y2.
  apply natlike_ind.
  - rewrite Z.add_0_r, year_start_step. lia.
  - intros k Hk IH. replace (y1 + 1 + Z.succ k) with ((y1 + 1 + k) + 1) by lia.
    rewrite year_start_step. destruct (spec_leap (y1 + 1 + k)); lia.
Qed.

Lemma doy_bounds y m d : spec_date_valid y m d = true ->
  year_start y <= spec_days y m d < year_start y + 365 + (if spec_leap y then 1 else 0).
Proof.
  intros V. apply valid_unfold in V. destruct V as [Hm Hd].
  unfold year_start, spec_days, month_len, cum_days in *.
  destruct (spec_leap y);
  destruct (month_cases m Hm) as [E|[E|[E|[E|[E|[E|[E|[E|[E|[E|[E|E]]]]]]]]]]]; subst m;
  calc_nth; calc_consts; lia.
Qed.

(* the day count is strictly monotone in the date *)
Lemma spec_days_mono y1 m1 d1 y2 m2 d2 :
  spec_date_valid y1 m1 d1 = true -> spec_date_valid y2 m2 d2 = true ->
  date_lt (y1, m1, d1) (y2, m2, d2) -> spec_days y1 m1 d1 < spec_days y2 m2 d2.
Proof.
  intros V1 V2 [H|[E H]].
  - pose proof (doy_bounds _ _ _ V1). pose proof (doy_bounds _ _ _ V2).
    pose proof (year_start_mono _ _ H). lia.
  - subst y2. apply same_year_mono; assumption.
Qed.

Lemma spec_days_inj y1 m1 d1 y2 m2 d2 :
  spec_date_valid y1 m1 d1 = true -> spec_date_valid y2 m2 d2 = true ->
  spec_days y1 m1 d1 = spec_days y2 m2 d2 -> (y1, m1, d1) = (y2, m2, d2).
Proof.
  intros V1 V2 E.
  destruct (Z.lt_trichotomy y1 y2) as [H|[H|H]].
  - pose proof (spec_days_mono _ _ _ _ _ _ V1 V2 (or_introl H)). lia.
  - subst y2. destruct (Z.lt_trichotomy m1 m2) as [Hm|[Hm|Hm]].
    + pose proof (same_year_mono _ _ _ _ _ V1 V2 (or_introl Hm)). lia.
    + subst m2. destruct (Z.lt_trichotomy d1 d2) as [Hd|[Hd|Hd]].
      * pose proof (same_year_mono _ _ _ _ _ V1 V2 (or_intror (conj eq_refl Hd))). lia.
      * subst. reflexivity.
      * pose proof (same_year_mono _ _ _ _ _ V2 V1 (or_intror (conj eq_refl Hd))). lia.
    + pose proof (same_year_mono _ _ _ _ _ V2 V1 (or_introl Hm)). lia.
  - pose proof (spec_days_mono _ _ _ _ _ _ V2 V1 (or_introl H)). lia.
Qed.

(* ------------------------------------------------------------------ the inverse *)
Lemma spec_leap_period y k : spec_leap (y + 400 * k) = spec_leap y.
Proof.
  unfold spec_leap.
  replace ((y + 400 * k) mod 4) with (y mod 4) by lia.
  replace ((y + 400 * k) mod 100) with (y mod 100) by lia.
  replace ((y + 400 * k) mod 400) with (y mod 400) by lia. reflexivity.
Qed.

Lemma spec_days_period y m d k : spec_days (y + 400 * k) m d = spec_days y m d + 146097 * k.
Proof. unfold spec_days, leaps_before. rewrite spec_leap_period. lia. Qed.

Lemma spec_valid_period y m d k : spec_date_valid (y + 400 * k) m d = spec_date_valid y m d.
Proof. unfold spec_date_valid, month_len. rewrite spec_leap_period. reflexivity. Qed.

Definition add_cycles (k : Z) (t : Z * Z * Z) : Z * Z * Z := let '(y, m, d) := t in (y + 400 * k, m, d).

Lemma date_of_day_period n k : ts_date_of_day (n + 146097 * k) = add_cycles k (ts_date_of_day n).
Proof.
  unfold ts_date_of_day, add_cycles. cbv zeta.
  replace (4 * (n + 146097 * k + 12699422) + 3) with (4 * (n + 12699422) + 3 + (4 * k) * 146097) by lia.
  rewrite Z.div_add, Z.mod_add by lia.
  f_equal. f_equal. lia.
Qed.

Definition cycle_ok (n : Z) : bool :=
  let '(y, m, d) := ts_date_of_day n in (ts_epoch_day y m d =? n) && spec_date_valid y m d.

(* one full 400-year cycle: the 146097 days from 1970-01-01, counted in Z *)
Fixpoint sweep_from (fuel : nat) (n : Z) : bool :=
  match fuel with
  | O => true
  | S f => cycle_ok n && sweep_from f (n + 1)
  end.

Lemma sweep_from_all fuel : forall n, sweep_from fuel n = true ->
  forall i, n <= i < n + Z.of_nat fuel -> cycle_ok i = true.
Proof.
  induction fuel as [|f IH]; intros n H i Hi; [lia|].
  cbn [sweep_from] in H. apply andb_true_iff in H. destruct H as [H1 H2].
  destruct (Z.eq_dec i n) as [->|Hne]; [exact H1|].
  apply (IH (n + 1) H2). lia.
Qed.

Lemma cycle_sweep : sweep_from (Z.to_nat 146097) 0 = true.
Proof. vm_cast_no_check (eq_refl true). Qed.

Lemma cycle_ok_all n : 0 <= n < 146097 -> cycle_ok n = true.
Proof.
  intros H. apply (sweep_from_all _ _ cycle_sweep). rewrite Z2Nat.id; lia.
Qed.

Lemma date_of_day_ok_cycle r k : 0 <= r < 146097 ->
  let '(y, m, d) := ts_date_of_day (r + 146097 * k) in
  ts_epoch_day y m d = r + 146097 * k /\ spec_date_valid y m d = true.
Proof.
  intros Hr. rewrite date_of_day_period.
  pose proof (cycle_ok_all _ Hr) as C. unfold cycle_ok in C.
  destruct (ts_date_of_day r) as [[y m] d]. cbn [add_cycles].
  apply andb_true_iff in C. destruct C as [C1 C2]. apply Z.eqb_eq in C1.
  rewrite spec_valid_period. split; [|exact C2].
  pose proof (valid_unfold _ _ _ C2) as [Hm _].
  rewrite epoch_day_spec, spec_days_period, <- epoch_day_spec by assumption.
  rewrite C1. reflexivity.
Qed.

Lemma date_of_day_ok n :
  let '(y, m, d) := ts_date_of_day n in ts_epoch_day y m d = n /\ spec_date_valid y m d = true.
Proof.
  assert (0 <= n mod 146097 < 146097) as Hr by (apply Z.mod_pos_bound; lia).
  pose proof (date_of_day_ok_cycle _ (n / 146097) Hr) as H.
  replace (n mod 146097 + 146097 * (n / 146097)) with n in H by (pose proof (Z.div_mod n 146097); lia).
  exact H.
Qed.

(* date -> day number -> date is the identity on valid dates (all years) *)
Lemma civil_roundtrip y m d : spec_date_valid y m d = true ->
  ts_date_of_day (ts_epoch_day y m d) = (y, m, d).
Proof.
  intros V. pose proof (date_of_day_ok (ts_epoch_day y m d)) as H.
  destruct (ts_date_of_day (ts_epoch_day y m d)) as [[y' m'] d']. destruct H as [H V'].
  pose proof (valid_unfold _ _ _ V) as [Hm _]. pose proof (valid_unfold _ _ _ V') as [Hm' _].
  rewrite !epoch_day_spec in H by assumption.
  apply spec_days_inj; assumption.
Qed.

Lemma epoch_day_mono y1 m1 d1 y2 m2 d2 :
  spec_date_valid y1 m1 d1 = true -> spec_date_valid y2 m2 d2 = true ->
  date_lt (y1, m1, d1) (y2, m2, d2) -> ts_epoch_day y1 m1 d1 < ts_epoch_day y2 m2 d2.
Proof.
  intros V1 V2 H. pose proof (valid_unfold _ _ _ V1) as [Hm1 _]. pose proof (valid_unfold _ _ _ V2) as [Hm2 _].
  rewrite !epoch_day_spec by assumption. apply spec_days_mono; assumption.
Qed.

(* the library's validity test is the calendar's *)
Lemma date_ok_valid y m d : ts_date_ok y m d = true <-> (-9999 <= y <= 9999 /\ spec_date_valid y m d = true).
Proof.
  unfold ts_date_ok, spec_date_valid, ts_days_in_month, month_len. rewrite <- spec_leap_is_leap.
  rewrite !andb_true_iff, !Z.leb_le.
  split.
  - intros [[[[[H1 H2] H3] H4] H5] H6]. split; [lia|]. split; [split; [split|]|]; try assumption.
    assert (1 <= m <= 12) as Hm by lia.
    destruct (spec_leap y);
    destruct (month_cases m Hm) as [E|[E|[E|[E|[E|[E|[E|[E|[E|[E|[E|E]]]]]]]]]]]; subst m; calc_nth;
    vm_compute in H6; exact H6 || (revert H6; vm_compute; tauto).
  - intros [Hy [[[H3 H4] H5] H6]]. repeat split; try lia; try assumption.
    assert (1 <= m <= 12) as Hm by lia.
    destruct (spec_leap y);
    destruct (month_cases m Hm) as [E|[E|[E|[E|[E|[E|[E|[E|[E|[E|[E|E]]]]]]]]]]]; subst m; calc_nth;
    revert H6; calc_nth; vm_compute; tauto.
Qed.
