(* PriceText_proofs.v — T03: the price-file grammar model.
   1. printed entries (any layout the grammar allows) are read back: entry, whole file
   2. what the grammar does NOT allow: indentation of the first entry, files without entry
   3. the fuel of the model always suffices
   4. composition with Price.load_db and the theorems of C07 *)
From Coq Require Import Permutation.
From TkModel Require Import Base Dec Acct Txn Accept Journal Price PriceText.
From TkSpec Require Import Journal_spec Price_spec PriceText_spec.
From TkProofs Require Import Journal_base_proofs Journal_time_proofs Journal_line_proofs Journal_inv_proofs
                             Journal_tsinv_proofs Price_proofs.
Local Open Scope Z_scope.

(* ------------------------------------------------------------------ characters *)
Lemma sp_not_id_char c : is_sp c = true -> id_char c = false.
Proof.
  intro H. destruct (id_char c) eqn:E; [|reflexivity]. rewrite (id_char_not_sp c E) in H. discriminate.
Qed.
Lemma sp_is_msp c : is_sp c = true -> is_msp c = true.
Proof. intro H. unfold is_msp. rewrite H. reflexivity. Qed.
Lemma sp_cases c : is_sp c = true -> c = 32%N \/ c = 9%N.
Proof.
  unfold is_sp. intro H. apply orb_true_iff in H as [H|H]; apply N.eqb_eq in H; auto.
Qed.
Lemma msp_cases c : is_msp c = true -> c = 32%N \/ c = 9%N \/ c = 13%N \/ c = 10%N.
Proof.
  unfold is_msp. intro H. apply orb_true_iff in H as [H|H].
  - apply orb_true_iff in H as [H|H].
    + destruct (sp_cases c H); auto.
    + apply N.eqb_eq in H. auto.
  - apply N.eqb_eq in H. auto.
Qed.
Lemma msp_not_P c : is_msp c = true -> (c =? 80)%N = false.
Proof. intro H. destruct (msp_cases c H) as [ -> | [ -> | [ -> | -> ] ] ]; reflexivity. Qed.
Lemma sp_num_stop c r : is_sp c = true -> num_stop (c :: r) = true.
Proof. intro H. destruct (sp_cases c H) as [->| ->]; reflexivity. Qed.

(* ------------------------------------------------------------------ small parsers on printed pieces *)
Lemma drop_while_app p a r : forallb p a = true -> stopb p r = true -> drop_while p (a ++ r) = r.
Proof.
  induction a as [|c a IH]; cbn [app forallb]; intros Ha Hr.
  - apply drop_while_stop. exact Hr.
  - apply andb_true_iff in Ha as [Hc Ha]. cbn [drop_while]. rewrite Hc. apply IH; assumption.
Qed.

Lemma blanks1_inv s : blanks1 s = true -> forallb is_sp s = true /\ exists c s', s = c :: s' /\ is_sp c = true.
Proof.
  unfold blanks1, blanks. intro H. apply andb_true_iff in H as [H1 H2]. split; [exact H1|].
  destruct s as [|c s']; [discriminate|]. cbn [forallb] in H1. apply andb_true_iff in H1 as [Hc _].
  exists c, s'. split; [reflexivity|exact Hc].
Qed.

Lemma take_sp1_app sp c r : blanks1 sp = true -> is_sp c = false -> take_sp1 (sp ++ c :: r) = Some (c :: r).
Proof.
  intros Hs Hc. destruct (blanks1_inv sp Hs) as (Hall & x & sp' & -> & Hx).
  unfold take_sp1. rewrite (span_app is_sp (x :: sp') (c :: r) Hall); [reflexivity|].
  cbn [stopb]. rewrite Hc. reflexivity.
Qed.

Lemma take_eol_print b r : take_eol (print_eol b ++ r) = Some r.
Proof. destruct b; reflexivity. Qed.

Lemma print_eol_head b r : exists c r', print_eol b ++ r = c :: r' /\ is_eolc c = true /\ is_sp c = false.
Proof. destruct b; eexists _, _; (split; [reflexivity|split; reflexivity]). Qed.

Lemma take_blank_line_print b r : blank_line_ok b = true -> take_blank_line (print_blank_line b ++ r) = Some r.
Proof.
  destruct b as [ws crlf]. unfold blank_line_ok, print_blank_line, take_blank_line, blanks. cbn [fst snd]. intro H.
  rewrite <- app_assoc. destruct (print_eol_head crlf r) as (c & r' & E & _ & Hc).
  rewrite (drop_while_app is_sp ws _ H); [apply take_eol_print|].
  rewrite E. cbn [stopb]. rewrite Hc. reflexivity.
Qed.

Lemma print_comment_chars oc : match oc with Some c => no_eol c | None => true end = true ->
  forallb (fun c => negb (is_eolc c)) (print_comment oc) = true.
Proof.
  assert (H0 : forall l, no_eol l = true -> forallb (fun c => negb (is_eolc c)) l = true).
  { intros l H. unfold no_eol in H. revert H. apply forallb_impl. intros x Hx. unfold is_eolc.
    rewrite orb_comm. exact Hx. }
  destruct oc as [[|x c]|]; cbn [print_comment]; intro H; [reflexivity| |reflexivity].
  cbn [forallb]. change (negb (is_eolc 59)) with true. change (negb (is_eolc 32)) with true.
  apply (H0 (x :: c) H).
Qed.

Lemma take_comment_print oc : exists oc', take_comment (print_comment oc) = Some oc'.
Proof. destruct oc as [[|x c]|]; cbn; eexists; reflexivity. Qed.

(* space0 opt(comment) line_ending on the printed tail of an entry line *)
Lemma take_entry_tail_print trail oc crlf rest :
  blanks trail = true -> match oc with Some c => no_eol c | None => true end = true ->
  exists oc', take_entry_tail (trail ++ print_comment oc ++ print_eol crlf ++ rest) = Some (oc', rest).
Proof.
  intros Ht Hc. unfold take_entry_tail.
  destruct (print_eol_head crlf rest) as (e & r' & E & He & Hes).
  assert (Hstop : stopb is_sp (print_comment oc ++ print_eol crlf ++ rest) = true).
  { destruct oc as [[|x c]|]; cbn [print_comment app stopb]; try reflexivity.
    rewrite E. cbn [stopb]. rewrite Hes. reflexivity. }
  rewrite (drop_while_app is_sp trail _ Ht Hstop).
  rewrite (span_app (fun c => negb (is_eolc c)) (print_comment oc) (print_eol crlf ++ rest) (print_comment_chars oc Hc)).
  2:{ rewrite E. cbn [stopb]. rewrite He. reflexivity. }
  destruct (take_comment_print oc) as [oc' Eo]. rewrite Eo, take_eol_print. exists oc'. reflexivity.
Qed.

(* ------------------------------------------------------------------ commodity look-ups *)
Lemma mem_str_cons m n k : mem_str m (n :: k) = str_eqb m n || mem_str m k.
Proof. reflexivity. Qed.

(* the names the file starts with stay known *)
Definition extends (cfg : pdcfg) (known : list (list N)) : Prop :=
  forall m, mem_str m (pd_comms cfg) = true -> mem_str m known = true.

Lemma comm_lookup_ok cfg known n : extends cfg known -> comm_ok n = true -> name_known cfg n = true ->
  exists k', comm_lookup cfg known n = Some k' /\ extends cfg k'.
Proof.
  intros Hx Hn Hk. unfold comm_lookup. destruct (mem_str n known) eqn:Em; [exists known; split; [reflexivity|exact Hx]|].
  unfold name_known in Hk. destruct (pd_strict cfg); cbn [negb orb] in Hk.
  - rewrite (Hx n Hk) in Em. discriminate.
  - destruct (comm_ok_inv n Hn) as [_ Hs]. rewrite Hs. exists (n :: known). split; [reflexivity|].
    intros m Hm. rewrite mem_str_cons, (Hx m Hm). apply orb_true_r.
Qed.

(* ------------------------------------------------------------------ one entry *)
Lemma ident_head_not_sp s : ident_ok s = true -> exists c r, s = c :: r /\ is_sp c = false.
Proof.
  intro H. destruct (ident_ok_inv s H) as (c & r & -> & Hc & _). exists c, r. split; [reflexivity|].
  apply id_char_not_sp, id_start_char, Hc.
Qed.

Lemma stop_id_sp_head s X : blanks1 s = true -> stopb id_char (s ++ X) = true.
Proof.
  intro H. destruct (blanks1_inv s H) as (_ & c & s' & -> & Hc). cbn [app stopb]. rewrite (sp_not_id_char c Hc). reflexivity.
Qed.

Theorem parse_entry_print cfg known ly e rest :
  layout_ok ly = true -> pentry_wf_at (ly_off ly) e = true -> entry_known cfg e = true ->
  extends cfg known -> stopb is_msp rest = true ->
  exists k', parse_price_entry cfg known (print_entry_with ly e ++ rest) = Some (e, k', rest) /\ extends cfg k'.
Proof.
  intros Hly Hwf Hkn Hx Hrest.
  destruct ly as [off s1 s2 s3 s4 trail oc crlf gap]. destruct e as [ts base rate eq].
  unfold layout_ok in Hly. cbn [ly_off ly_s1 ly_s2 ly_s3 ly_s4 ly_trail ly_comment ly_crlf ly_gap] in Hly, Hwf.
  apply andb_true_iff in Hly as [Hly Hgap]. apply andb_true_iff in Hly as [Hly Hoc].
  apply andb_true_iff in Hly as [Hly Htr]. apply andb_true_iff in Hly as [Hly B4].
  apply andb_true_iff in Hly as [Hly B3]. apply andb_true_iff in Hly as [B1 B2].
  unfold pentry_wf_at in Hwf. cbn [pe_ts pe_base pe_rate pe_eq] in Hwf.
  apply andb_true_iff in Hwf as [Hwf Heq]. apply andb_true_iff in Hwf as [Hwf Hfit].
  apply andb_true_iff in Hwf as [Hts Hbase].
  unfold entry_known in Hkn. cbn [pe_base pe_eq] in Hkn. apply andb_true_iff in Hkn as [Kb Ke].
  destruct (comm_ok_inv base Hbase) as [Ib _]. destruct (comm_ok_inv eq Heq) as [Ie _].
  unfold print_entry_with. cbn [ly_off ly_s1 ly_s2 ly_s3 ly_s4 ly_trail ly_comment ly_crlf ly_gap pe_ts pe_base pe_rate pe_eq].
  unfold parse_price_entry.
  (* 'P' *)
  cbn [app take_char]. change (80 =? 80)%N with true. cbv iota.
  (* sp1, time stamp *)
  repeat rewrite <- app_assoc.
  destruct (print_ts_head ts off) as (c0 & r0 & E0 & D0).
  assert (S0 : is_sp c0 = false).
  { unfold is_digit, in_rng in D0. apply andb_true_iff in D0 as [Da Db]. apply N.leb_le in Da, Db.
    unfold is_sp. destruct (N.eqb_spec c0 32); [lia|]. destruct (N.eqb_spec c0 9); [lia|]. reflexivity. }
  rewrite E0. cbn [app]. rewrite (take_sp1_app s1 c0 _ B1 S0).
  change (c0 :: r0 ++ ?X) with ((c0 :: r0) ++ X). rewrite <- E0.
  rewrite (ts_roundtrip (pd_ts cfg) ts off _ Hts).
  (* sp1, base *)
  destruct (ident_head_not_sp base Ib) as (cb & rb & Eb & Sb).
  rewrite Eb. cbn [app]. rewrite (take_sp1_app s2 cb _ B2 Sb).
  change (cb :: rb ++ ?X) with ((cb :: rb) ++ X). rewrite <- Eb.
  rewrite (take_ident_app base _ Ib (stop_id_sp_head s3 _ B3)).
  (* sp1, rate *)
  destruct (print_dec_head rate) as (cd & rd & Ed & Dd).
  rewrite Ed. cbn [app]. rewrite (take_sp1_app s3 cd _ B3 (dec_char_not_sp cd Dd)).
  change (cd :: rd ++ ?X) with ((cd :: rd) ++ X). rewrite <- Ed.
  rewrite (dec_roundtrip rate _ Hfit).
  2:{ destruct (blanks1_inv s4 B4) as (_ & c4 & s4' & -> & H4). cbn [app]. apply sp_num_stop, H4. }
  (* sp1, eq *)
  destruct (ident_head_not_sp eq Ie) as (ce & re & Ee & Se).
  rewrite Ee. cbn [app]. rewrite (take_sp1_app s4 ce _ B4 Se).
  change (ce :: re ++ ?X) with ((ce :: re) ++ X). rewrite <- Ee.
  rewrite (take_ident_app eq _ Ie).
  2:{ destruct trail as [|ct trail'].
      - cbn [app]. destruct oc as [[|x c]|]; cbn [print_comment app stopb]; try reflexivity.
        destruct crlf; reflexivity.
      - cbn [app stopb]. unfold blanks in Htr. cbn [forallb] in Htr. apply andb_true_iff in Htr as [Hct _].
        rewrite (sp_not_id_char ct Hct). reflexivity. }
  (* tail, multispace0 *)
  destruct (take_entry_tail_print trail oc crlf (gap ++ rest) Htr Hoc) as [oc' Et]. rewrite Et.
  rewrite (drop_while_app is_msp gap rest Hgap Hrest).
  (* look-ups *)
  destruct (comm_lookup_ok cfg known base Hx Hbase Kb) as (k1 & L1 & X1). rewrite L1.
  destruct (comm_lookup_ok cfg k1 eq X1 Heq Ke) as (k2 & L2 & X2). rewrite L2.
  exists k2. split; [reflexivity|exact X2].
Qed.

(* ------------------------------------------------------------------ the whole file *)
Definition print_le (le : layout * pentry) : list N := print_entry_with (fst le) (snd le).
Definition entries_text (les : list (layout * pentry)) : list N := concat (map print_le les).

Lemma entries_text_head les : entries_text les = [] \/ exists r, entries_text les = 80%N :: r.
Proof. destruct les as [|le les]; [left; reflexivity|right]. eexists. reflexivity. Qed.

Lemma entries_text_stop les : stopb is_msp (entries_text les) = true.
Proof. destruct (entries_text_head les) as [->|[r ->]]; reflexivity. Qed.

Lemma parse_entries_print cfg : forall les known fuel,
  les <> [] -> forallb laid_ok les = true -> forallb (entry_known cfg) (map snd les) = true ->
  extends cfg known -> (length les <= fuel)%nat ->
  parse_entries fuel cfg known (entries_text les) = Ok (map snd les).
Proof.
  induction les as [|[ly e] les IH]; intros known fuel Hne Hok Hkn Hx Hf; [congruence|].
  destruct fuel as [|f]; [cbn [length] in Hf; lia|].
  cbn [forallb map snd] in Hok, Hkn. apply andb_true_iff in Hok as [Hle Hok]. apply andb_true_iff in Hkn as [Hk1 Hkn].
  unfold laid_ok in Hle. cbn [fst snd] in Hle. apply andb_true_iff in Hle as [Hly Hwf].
  unfold entries_text. cbn [map concat]. fold (entries_text les). unfold print_le at 1. cbn [fst snd].
  cbn [parse_entries].
  destruct (parse_entry_print cfg known ly e (entries_text les) Hly Hwf Hk1 Hx (entries_text_stop les)) as (k' & E & X').
  rewrite E. destruct les as [|le2 les'].
  - reflexivity.
  - assert (Hr : exists c r, entries_text (le2 :: les') = c :: r) by (eexists _, _; reflexivity).
    destruct Hr as (c & r & Er). rewrite Er. rewrite <- Er.
    rewrite (IH k' f); [reflexivity|discriminate|exact Hok|exact Hkn|exact X'|cbn [length] in *; lia].
Qed.

Definition blanks_text (pre : list (list N * bool)) : list N := concat (map print_blank_line pre).

Lemma take_blank_line_P r : take_blank_line (80%N :: r) = None.
Proof. reflexivity. Qed.

Lemma skip_blank_lines_print : forall pre fuel X,
  forallb blank_line_ok pre = true -> (length pre <= fuel)%nat -> take_blank_line X = None ->
  skip_blank_lines fuel (blanks_text pre ++ X) = X.
Proof.
  induction pre as [|b pre IH]; intros fuel X Hok Hf HX.
  - cbn [blanks_text map concat app]. destruct fuel; cbn [skip_blank_lines]; [reflexivity|]. rewrite HX. reflexivity.
  - destruct fuel as [|f]; [cbn [length] in Hf; lia|].
    cbn [forallb] in Hok. apply andb_true_iff in Hok as [Hb Hok].
    unfold blanks_text. cbn [map concat]. fold (blanks_text pre). rewrite <- app_assoc.
    cbn [skip_blank_lines]. rewrite (take_blank_line_print b _ Hb).
    apply IH; [exact Hok|cbn [length] in Hf; lia|exact HX].
Qed.

Lemma length_concat_ge {A} (f : A -> list N) (l : list A) :
  (forall x, (1 <= length (f x))%nat) -> (length l <= length (concat (map f l)))%nat.
Proof.
  intro H. induction l as [|x l IH]; [cbn; lia|]. cbn [map concat length]. rewrite app_length. specialize (H x). lia.
Qed.

Lemma print_blank_line_len b : (1 <= length (print_blank_line b))%nat.
Proof. destruct b as [ws [|]]; unfold print_blank_line; cbn [fst snd print_eol]; rewrite app_length; cbn [length]; lia. Qed.
Lemma print_le_len le : (1 <= length (print_le le))%nat.
Proof. unfold print_le, print_entry_with. cbn [length]. lia. Qed.

(* every layout the grammar allows is read back as the entries, in file order *)
Theorem pricedb_layout_roundtrip cfg pre les :
  les <> [] -> forallb blank_line_ok pre = true -> forallb laid_ok les = true ->
  forallb (entry_known cfg) (map snd les) = true ->
  parse_pricedb cfg (print_pricedb_with pre les) = Ok (map snd les).
Proof.
  intros Hne Hpre Hok Hkn. unfold parse_pricedb, parse_pricedb_fuel, print_pricedb_with.
  fold (blanks_text pre). change (concat (map (fun le => print_entry_with (fst le) (snd le)) les)) with (entries_text les).
  set (s := blanks_text pre ++ entries_text les).
  assert (L1 : (length pre <= length s)%nat).
  { subst s. rewrite app_length. pose proof (length_concat_ge print_blank_line pre print_blank_line_len). unfold blanks_text. lia. }
  assert (L2 : (length les <= length s)%nat).
  { subst s. rewrite app_length. pose proof (length_concat_ge print_le les print_le_len). unfold entries_text. lia. }
  subst s. rewrite skip_blank_lines_print; [|exact Hpre|lia|].
  - apply parse_entries_print; [exact Hne|exact Hok|exact Hkn|intros m Hm; exact Hm|lia].
  - destruct les as [|le les']; [congruence|]. reflexivity.
Qed.

(* the canonical printer is the layout printer with the canonical layout *)
Lemma print_entry_canonical e : print_entry e = print_entry_with canonical_layout e.
Proof.
  unfold print_entry, print_entry_with, canonical_layout.
  cbn [ly_off ly_s1 ly_s2 ly_s3 ly_s4 ly_trail ly_comment ly_crlf ly_gap print_comment print_eol app].
  reflexivity.
Qed.
Lemma print_pricedb_canonical es : print_pricedb es = print_pricedb_with [] (map (fun e => (canonical_layout, e)) es).
Proof.
  unfold print_pricedb, print_pricedb_with. cbn [map concat app]. rewrite map_map. cbn [fst snd].
  f_equal; try (apply map_ext; exact print_entry_canonical).
Qed.

Theorem pricedb_roundtrip cfg es :
  es <> [] -> forallb pentry_wf es = true -> forallb (entry_known cfg) es = true ->
  parse_pricedb cfg (print_pricedb es) = Ok es.
Proof.
  intros Hne Hwf Hkn. rewrite print_pricedb_canonical.
  rewrite pricedb_layout_roundtrip.
  - rewrite map_map. cbn [snd]. rewrite map_id. reflexivity.
  - destruct es; [congruence|discriminate].
  - reflexivity.
  - rewrite forallb_forall in *. intros le Hin. apply in_map_iff in Hin as (e & <- & Hin).
    unfold laid_ok. cbn [fst snd]. change (layout_ok canonical_layout) with true. cbn [andb]. exact (Hwf e Hin).
  - rewrite map_map. cbn [snd]. rewrite map_id. exact Hkn.
Qed.

(* blank lines before, between and after the entries, indentation of every entry but the first, lone CRs
   after a line: the same result as the canonical text of the same entries *)
Definition gap_layout (g : list N) : layout := mkLayout 0 [32%N] [32%N] [32%N] [32%N] [] None false g.

Theorem pricedb_blank_lines cfg pre (ges : list (list N * pentry)) :
  ges <> [] -> forallb blank_line_ok pre = true ->
  forallb (fun ge => forallb is_msp (fst ge)) ges = true ->
  forallb pentry_wf (map snd ges) = true -> forallb (entry_known cfg) (map snd ges) = true ->
  parse_pricedb cfg (print_pricedb_with pre (map (fun ge => (gap_layout (fst ge), snd ge)) ges))
  = parse_pricedb cfg (print_pricedb (map snd ges)).
Proof.
  intros Hne Hpre Hg Hwf Hkn.
  rewrite pricedb_roundtrip; [|destruct ges; [congruence|discriminate]|exact Hwf|exact Hkn].
  rewrite pricedb_layout_roundtrip.
  - rewrite map_map. reflexivity.
  - destruct ges; [congruence|discriminate].
  - exact Hpre.
  - rewrite forallb_forall in *. intros le Hin. apply in_map_iff in Hin as ([g e] & <- & Hin).
    unfold laid_ok. cbn [fst snd]. apply andb_true_iff. split.
    + unfold layout_ok, gap_layout. cbn. exact (Hg _ Hin).
    + apply Hwf. apply in_map_iff. exists (g, e). split; [reflexivity|exact Hin].
  - rewrite map_map. exact Hkn.
Qed.

(* ------------------------------------------------------------------ what the grammar does not allow *)
Lemma parse_entries_not_P f cfg known s :
  match s with c :: _ => (c =? 80)%N = false | [] => True end ->
  parse_entries (S f) cfg known s = Err E_price_syntax.
Proof.
  intro H. cbn [parse_entries]. unfold parse_price_entry. destruct s as [|c r]; [reflexivity|].
  cbn [take_char]. rewrite H. reflexivity.
Qed.

(* blanks before the 'P' of the FIRST entry (at the start or after leading blank lines): rejected *)
Theorem first_entry_indented cfg pre ws rest :
  forallb blank_line_ok pre = true -> blanks1 ws = true ->
  parse_pricedb cfg (blanks_text pre ++ ws ++ 80%N :: rest) = Err E_price_syntax.
Proof.
  intros Hpre Hws. unfold parse_pricedb, parse_pricedb_fuel.
  set (s := blanks_text pre ++ ws ++ 80%N :: rest).
  assert (L1 : (length pre <= length s)%nat).
  { subst s. rewrite app_length. pose proof (length_concat_ge print_blank_line pre print_blank_line_len). unfold blanks_text. lia. }
  destruct (blanks1_inv ws Hws) as (Hall & c & ws' & Ew & Hc).
  subst s. rewrite skip_blank_lines_print; [|exact Hpre|lia|].
  - apply parse_entries_not_P. rewrite Ew. cbn [app]. apply msp_not_P, sp_is_msp, Hc.
  - unfold take_blank_line. rewrite (drop_while_app is_sp ws (80%N :: rest) Hall eq_refl). reflexivity.
Qed.

Lemma suffix_len r s : suffix r s -> (length r <= length s)%nat.
Proof. intros [p ->]. rewrite app_length. lia. Qed.

Lemma take_eol_suffix s r : take_eol s = Some r -> suffix r s /\ (length r < length s)%nat.
Proof.
  unfold take_eol. destruct s as [|c s']; [discriminate|]. destruct (c =? 10)%N.
  - intro H. injection H as <-. split; [apply suffix_cons|cbn [length]; lia].
  - destruct (c =? 13)%N; [|discriminate]. destruct s' as [|d s'']; [discriminate|]. destruct (d =? 10)%N; [|discriminate].
    intro H. injection H as <-. split; [exists [c; d]; reflexivity|cbn [length]; lia].
Qed.

Lemma take_blank_line_suffix s r : take_blank_line s = Some r -> suffix r s /\ (length r < length s)%nat.
Proof.
  unfold take_blank_line. intro H. destruct (take_eol_suffix _ _ H) as [S L].
  pose proof (drop_while_suffix is_sp s) as S2. split; [eapply suffix_trans; eassumption|].
  apply suffix_len in S2. lia.
Qed.

Lemma skip_blank_lines_suffix : forall fuel s, suffix (skip_blank_lines fuel s) s.
Proof.
  induction fuel as [|f IH]; intro s; cbn [skip_blank_lines]; [apply suffix_refl|].
  destruct (take_blank_line s) as [r|] eqn:E; [|apply suffix_refl].
  destruct (take_blank_line_suffix _ _ E) as [S _]. eapply suffix_trans; [apply IH|exact S].
Qed.

Lemma suffix_forallb (p : N -> bool) r s : suffix r s -> forallb p s = true -> forallb p r = true.
Proof. intros [q ->] H. rewrite forallb_app in H. apply andb_true_iff in H as [_ H]. exact H. Qed.

(* a text without any 'P' (the empty file, blank lines only, any other text) is rejected *)
Theorem no_entry_rejected cfg s :
  forallb (fun c => negb (c =? 80)%N) s = true -> parse_pricedb cfg s = Err E_price_syntax.
Proof.
  intro H. unfold parse_pricedb, parse_pricedb_fuel.
  pose proof (suffix_forallb _ _ _ (skip_blank_lines_suffix (S (length s)) s) H) as H2.
  apply parse_entries_not_P. destruct (skip_blank_lines _ s) as [|c r]; [exact I|].
  cbn [forallb] in H2. apply andb_true_iff in H2 as [Hc _]. apply negb_true_iff in Hc. exact Hc.
Qed.

Corollary blank_only_rejected cfg s : forallb is_msp s = true -> parse_pricedb cfg s = Err E_price_syntax.
Proof.
  intro H. apply no_entry_rejected. revert H. apply forallb_impl. intros c Hc. rewrite (msp_not_P c Hc). reflexivity.
Qed.

(* ------------------------------------------------------------------ the fuel suffices *)
(* the rest after a time stamp is a suffix of the text — for every configuration
   (Journal_tsinv_proofs.parse_ts_spec proves it together with the range facts, under cfg_ok) *)
Lemma parse_zone_suffix cfg s off r : parse_zone cfg s = Some (off, r) -> suffix r s.
Proof.
  unfold parse_zone. destruct s as [|c s'].
  - intro H. injection H as <- <-. apply suffix_refl.
  - destruct (c =? 90)%N.
    + intro H. injection H as <- <-. apply suffix_cons.
    + destruct ((c =? 43)%N || (c =? 45)%N).
      * destruct (take_digits 2 s') as [[oh r1]|] eqn:E1; [|discriminate].
        destruct (take_char 58 r1) as [r2|] eqn:E2; [|discriminate].
        destruct (take_digits 2 r2) as [[om r3]|] eqn:E3; [|discriminate].
        destruct (Z.abs _ <=? max_off); [|discriminate].
        intro H. injection H as <- <-.
        destruct (take_digits_spec _ _ _ _ E1) as (S1 & _). destruct (take_digits_spec _ _ _ _ E3) as (S3 & _).
        eapply suffix_trans; [exact S3|]. eapply suffix_trans; [exact (take_char_suffix _ _ _ E2)|].
        eapply suffix_trans; [exact S1|apply suffix_cons].
      * intro H. injection H as <- <-. apply suffix_refl.
Qed.

Lemma parse_ts_suffix cfg s inst off r : parse_ts cfg s = Some (inst, off, r) -> suffix r s.
Proof.
  unfold parse_ts.
  destruct (take_digits 4 s) as [[y s1]|] eqn:E1; [|discriminate].
  destruct (take_char 45 s1) as [s2|] eqn:E2; [|discriminate].
  destruct (take_digits 2 s2) as [[mo s3]|] eqn:E3; [|discriminate].
  destruct (take_char 45 s3) as [s4|] eqn:E4; [|discriminate].
  destruct (take_digits 2 s4) as [[d s5]|] eqn:E5; [|discriminate].
  destruct (valid_date y mo d); [|discriminate]. cbn [negb].
  assert (S5 : suffix s5 s).
  { destruct (take_digits_spec _ _ _ _ E1) as (A1 & _). destruct (take_digits_spec _ _ _ _ E3) as (A3 & _).
    destruct (take_digits_spec _ _ _ _ E5) as (A5 & _).
    eapply suffix_trans; [exact A5|]. eapply suffix_trans; [exact (take_char_suffix _ _ _ E4)|].
    eapply suffix_trans; [exact A3|]. eapply suffix_trans; [exact (take_char_suffix _ _ _ E2)|exact A1]. }
  destruct (take_char 84 s5) as [s6|] eqn:E6.
  - destruct (take_digits 2 s6) as [[h s7]|] eqn:E7; [|discriminate].
    destruct (take_char 58 s7) as [s8|] eqn:E8; [|discriminate].
    destruct (take_digits 2 s8) as [[mi s9]|] eqn:E9; [|discriminate].
    destruct (take_char 58 s9) as [s10|] eqn:E10; [|discriminate].
    destruct (take_digits 2 s10) as [[se s11]|] eqn:E11; [|discriminate].
    destruct ((h <=? 23) && (mi <=? 59) && (se <=? 59)); [|discriminate]. cbn [negb].
    destruct (parse_frac s11) as [[ns s12]|] eqn:E12; [|discriminate].
    destruct (parse_zone cfg s12) as [[off0 s13]|] eqn:E13; [|discriminate].
    destruct (mk_instant y mo d (h * 3600 + mi * 60 + se) ns off0) as [i|]; [|discriminate].
    intro H. injection H as <- <- <-.
    destruct (take_digits_spec _ _ _ _ E7) as (A7 & _). destruct (take_digits_spec _ _ _ _ E9) as (A9 & _).
    destruct (take_digits_spec _ _ _ _ E11) as (A11 & _).
    destruct (parse_frac_spec _ _ _ E12) as (_ & A12). pose proof (parse_zone_suffix _ _ _ _ E13) as A13.
    eapply suffix_trans; [exact A13|]. eapply suffix_trans; [exact A12|]. eapply suffix_trans; [exact A11|].
    eapply suffix_trans; [exact (take_char_suffix _ _ _ E10)|]. eapply suffix_trans; [exact A9|].
    eapply suffix_trans; [exact (take_char_suffix _ _ _ E8)|]. eapply suffix_trans; [exact A7|].
    eapply suffix_trans; [exact (take_char_suffix _ _ _ E6)|exact S5].
  - destruct (mk_instant y mo d _ _ _) as [i|]; [|discriminate].
    intro H. injection H as <- <- <-. exact S5.
Qed.

Lemma take_sp1_suffix s r : take_sp1 s = Some r -> suffix r s.
Proof.
  unfold take_sp1. destruct (span is_sp s) as [sp r'] eqn:E. destruct (is_nil sp); [discriminate|].
  intro H. injection H as <-. exact (span_suffix _ _ _ _ E).
Qed.

Lemma take_entry_tail_suffix s oc r : take_entry_tail s = Some (oc, r) -> suffix r s.
Proof.
  unfold take_entry_tail. destruct (span _ (drop_while is_sp s)) as [l r0] eqn:E.
  destruct (take_comment l) as [oc0|]; [|discriminate]. destruct (take_eol r0) as [r1|] eqn:E1; [|discriminate].
  intro H. injection H as <- <-. destruct (take_eol_suffix _ _ E1) as [S1 _].
  eapply suffix_trans; [exact S1|]. eapply suffix_trans; [exact (span_suffix _ _ _ _ E)|apply drop_while_suffix].
Qed.

(* an entry consumes at least its 'P' *)
Lemma parse_price_entry_len cfg known s e k r :
  parse_price_entry cfg known s = Some (e, k, r) -> (length r < length s)%nat.
Proof.
  unfold parse_price_entry.
  destruct (take_char 80 s) as [s1|] eqn:E1; [|discriminate].
  destruct (take_sp1 s1) as [s2|] eqn:E2; [|discriminate].
  destruct (parse_ts (pd_ts cfg) s2) as [[[inst off] s3]|] eqn:E3; [|discriminate].
  destruct (take_sp1 s3) as [s4|] eqn:E4; [|discriminate].
  destruct (take_ident s4) as [[base s5]|] eqn:E5; [|discriminate].
  destruct (take_sp1 s5) as [s6|] eqn:E6; [|discriminate].
  destruct (take_number s6) as [[rate s7]|] eqn:E7; [|discriminate].
  destruct (take_sp1 s7) as [s8|] eqn:E8; [|discriminate].
  destruct (take_ident s8) as [[eq s9]|] eqn:E9; [|discriminate].
  destruct (take_entry_tail s9) as [[oc r1]|] eqn:E10; [|discriminate].
  destruct (comm_lookup cfg known base) as [k1|]; [|discriminate].
  destruct (comm_lookup cfg k1 eq) as [k2|]; [|discriminate].
  intro H. injection H as <- <- <-.
  rewrite (take_char_spec _ _ _ E1). cbn [length].
  pose proof (suffix_len _ _ (take_sp1_suffix _ _ E2)).
  pose proof (suffix_len _ _ (parse_ts_suffix _ _ _ _ _ E3)).
  pose proof (suffix_len _ _ (take_sp1_suffix _ _ E4)).
  pose proof (suffix_len _ _ (proj2 (take_ident_spec _ _ _ E5))).
  pose proof (suffix_len _ _ (take_sp1_suffix _ _ E6)).
  pose proof (suffix_len _ _ (proj2 (take_number_spec _ _ _ E7))).
  pose proof (suffix_len _ _ (take_sp1_suffix _ _ E8)).
  pose proof (suffix_len _ _ (proj2 (take_ident_spec _ _ _ E9))).
  pose proof (suffix_len _ _ (take_entry_tail_suffix _ _ _ E10)).
  pose proof (suffix_len _ _ (drop_while_suffix is_msp r1)).
  lia.
Qed.

Lemma skip_blank_lines_stable : forall f1 f2 s, (length s <= f1)%nat -> (length s <= f2)%nat ->
  skip_blank_lines f1 s = skip_blank_lines f2 s.
Proof.
  induction f1 as [|f1 IH]; intros f2 s H1 H2.
  - destruct s; [|cbn [length] in H1; lia]. destruct f2; reflexivity.
  - destruct f2 as [|f2].
    + destruct s; [|cbn [length] in H2; lia]. reflexivity.
    + cbn [skip_blank_lines]. destruct (take_blank_line s) as [r|] eqn:E; [|reflexivity].
      destruct (take_blank_line_suffix _ _ E) as [_ L]. apply IH; lia.
Qed.

Lemma parse_entries_stable cfg : forall f1 f2 known s, (length s < f1)%nat -> (length s < f2)%nat ->
  parse_entries f1 cfg known s = parse_entries f2 cfg known s.
Proof.
  induction f1 as [|f1 IH]; intros f2 known s H1 H2; [lia|].
  destruct f2 as [|f2]; [lia|]. cbn [parse_entries].
  destruct (parse_price_entry cfg known s) as [[[e k] r]|] eqn:E; [|reflexivity].
  pose proof (parse_price_entry_len _ _ _ _ _ _ E) as L.
  destruct r as [|c r']; [reflexivity|]. rewrite (IH f2 k (c :: r')); [reflexivity|lia|lia].
Qed.

Lemma parse_entries_no_fuel_error cfg : forall f known s, (length s < f)%nat ->
  parse_entries f cfg known s <> Err E_price_fuel.
Proof.
  induction f as [|f IH]; intros known s H; [lia|]. cbn [parse_entries].
  destruct (parse_price_entry cfg known s) as [[[e k] r]|] eqn:E; [|discriminate].
  pose proof (parse_price_entry_len _ _ _ _ _ _ E) as L.
  destruct r as [|c r']; [discriminate|].
  specialize (IH k (c :: r') ltac:(lia)).
  destruct (parse_entries f cfg k (c :: r')) as [l|code]; cbn [res_map]; [discriminate|].
  intro H0. apply IH. exact H0.
Qed.

Lemma parse_entries_outcome cfg : forall f known s, (length s < f)%nat ->
  (exists es, parse_entries f cfg known s = Ok es /\ es <> []) \/ parse_entries f cfg known s = Err E_price_syntax.
Proof.
  induction f as [|f IH]; intros known s H; [lia|]. cbn [parse_entries].
  destruct (parse_price_entry cfg known s) as [[[e k] r]|] eqn:E; [|right; reflexivity].
  pose proof (parse_price_entry_len _ _ _ _ _ _ E) as L.
  destruct r as [|c r']; [left; exists [e]; split; [reflexivity|discriminate]|].
  destruct (IH k (c :: r') ltac:(lia)) as [(es & -> & _)| ->]; cbn [res_map].
  - left. exists (e :: es). split; [reflexivity|discriminate].
  - right. reflexivity.
Qed.

(* parse_pricedb ends in a non-empty entry list or in the syntax error (never in the fuel error),
   and more fuel changes nothing *)
Theorem parse_pricedb_total cfg s :
  ((exists es, parse_pricedb cfg s = Ok es /\ es <> []) \/ parse_pricedb cfg s = Err E_price_syntax)
  /\ forall fuel, (length s < fuel)%nat -> parse_pricedb_fuel fuel cfg s = parse_pricedb cfg s.
Proof.
  unfold parse_pricedb, parse_pricedb_fuel. split.
  - apply parse_entries_outcome.
    pose proof (suffix_len _ _ (skip_blank_lines_suffix (S (length s)) s)). lia.
  - intros fuel Hf. rewrite (skip_blank_lines_stable fuel (S (length s)) s) by lia.
    apply parse_entries_stable; pose proof (suffix_len _ _ (skip_blank_lines_suffix (S (length s)) s)); lia.
Qed.

(* ------------------------------------------------------------------ composition with Price.load_db / C07 *)
Theorem load_pricedb_spec cfg s f lk txns tgt target t p :
  parse_pricedb cfg s = Ok f ->
  load_pricedb cfg s = Ok (load_db f)
  /\ text_convert_one cfg lk txns tgt s t p = Ok (convert_one lk txns tgt f t p)
  /\ text_price_run cfg lk target s txns = Ok (price_run lk target f txns).
Proof.
  intro H. unfold text_convert_one, text_price_run, load_pricedb. rewrite H. cbn [res_map]. repeat split.
Qed.

(* C07_rate over the file TEXT: the rate applied is the rate of the latest applicable LINE *)
Theorem text_rate cfg s f lk txns tgt t p e :
  parse_pricedb cfg s = Ok f -> distinct_keys f ->
  p_comm p <> [] -> p_comm p <> tgt -> In (p_comm p) (posting_comms txns) ->
  RateAt lk f tgt (p_comm p) t e ->
  text_convert_one cfg lk txns tgt s t p = Ok (converted lk tgt p e).
Proof.
  intros H Hd Hc Ht Hu HR. destruct (load_pricedb_spec cfg s f lk txns tgt None t p H) as (_ & -> & _).
  rewrite (convert_rate lk txns tgt f t p e Hd Hc Ht Hu HR). reflexivity.
Qed.

(* ... for a text in any layout: its lines ARE the entries *)
Theorem text_rate_printed cfg pre les lk txns tgt t p e :
  les <> [] -> forallb blank_line_ok pre = true -> forallb laid_ok les = true ->
  forallb (entry_known cfg) (map snd les) = true -> distinct_keys (map snd les) ->
  p_comm p <> [] -> p_comm p <> tgt -> In (p_comm p) (posting_comms txns) ->
  RateAt lk (map snd les) tgt (p_comm p) t e ->
  text_convert_one cfg lk txns tgt (print_pricedb_with pre les) t p = Ok (converted lk tgt p e).
Proof.
  intros Hne Hpre Hok Hkn. apply text_rate. apply pricedb_layout_roundtrip; assumption.
Qed.

Lemma forallb_perm {A} (p : A -> bool) l l' : Permutation l l' -> forallb p l = true -> forallb p l' = true.
Proof.
  intros HP H. rewrite forallb_forall in *. intros x Hx. apply H. apply (Permutation_in x (Permutation_sym HP) Hx).
Qed.

(* C07_file_order over the file TEXT: the lines of a canonical file in any order *)
Theorem text_line_order cfg lk target es ls txns :
  es <> [] -> forallb pentry_wf es = true -> forallb (entry_known cfg) es = true -> distinct_keys es ->
  Permutation ls (map print_entry es) ->
  load_pricedb cfg (concat ls) = load_pricedb cfg (print_pricedb es)
  /\ text_price_run cfg lk target (concat ls) txns = text_price_run cfg lk target (print_pricedb es) txns
  /\ exists db, load_pricedb cfg (concat ls) = Ok db.
Proof.
  intros Hne Hwf Hkn Hd HP.
  destruct (Permutation_map_inv _ _ HP) as (es' & -> & HP').
  assert (Hne' : es' <> []).
  { intro E. subst es'. apply Permutation_sym, Permutation_nil in HP'. exact (Hne HP'). }
  pose proof (pricedb_roundtrip cfg es Hne Hwf Hkn) as R1.
  pose proof (pricedb_roundtrip cfg es' Hne' (forallb_perm _ _ _ HP' Hwf) (forallb_perm _ _ _ HP' Hkn)) as R2.
  fold (print_pricedb es').
  destruct (price_run_file_order lk target es es' txns HP' Hd) as (E1 & E2 & _).
  unfold text_price_run, load_pricedb. rewrite R1, R2. cbn [res_map]. rewrite E1. repeat split.
  exists (load_db es'). reflexivity.
Qed.

(* ------------------------------------------------------------------ what an accepted file says about its entries *)
(* names in commodities.names are acceptable to Commodity::from (Commodities::from builds the chart with it)
   and, in strict mode, are the names of the chart *)
Definition known_ok (cfg : pdcfg) (known : list (list N)) : Prop :=
  forall m, mem_str m known = true -> comm_sem_ok m = true /\ name_known cfg m = true.

Lemma comm_lookup_inv cfg known n k' : known_ok cfg known -> comm_lookup cfg known n = Some k' ->
  known_ok cfg k' /\ comm_sem_ok n = true /\ name_known cfg n = true.
Proof.
  intros HK. unfold comm_lookup. destruct (mem_str n known) eqn:Em.
  - intro H. injection H as <-. split; [exact HK|exact (HK n Em)].
  - destruct (pd_strict cfg) eqn:Es; [discriminate|]. destruct (comm_sem_ok n) eqn:Ec; [|discriminate].
    intro H. injection H as <-.
    assert (Hn : name_known cfg n = true) by (unfold name_known; rewrite Es; reflexivity).
    split; [|split; [reflexivity|exact Hn]].
    intros m Hm. rewrite mem_str_cons in Hm. apply orb_true_iff in Hm as [Hm|Hm]; [|exact (HK m Hm)].
    apply str_eqb_true in Hm. subst m. split; assumption.
Qed.

Definition entry_fields_ok (cfg : pdcfg) (e : pentry) : Prop :=
  comm_ok (pe_base e) = true /\ comm_ok (pe_eq e) = true /\ fits (pe_rate e) = true /\ entry_known cfg e = true
  /\ exists off, ts_ok (pe_ts e) off = true.

Lemma parse_price_entry_inv cfg known s e k r : cfg_ok (pd_ts cfg) = true -> known_ok cfg known ->
  parse_price_entry cfg known s = Some (e, k, r) -> known_ok cfg k /\ entry_fields_ok cfg e.
Proof.
  intros Hcfg HK. unfold parse_price_entry.
  destruct (take_char 80 s) as [s1|]; [|discriminate].
  destruct (take_sp1 s1) as [s2|]; [|discriminate].
  destruct (parse_ts (pd_ts cfg) s2) as [[[inst off] s3]|] eqn:E3; [|discriminate].
  destruct (take_sp1 s3) as [s4|]; [|discriminate].
  destruct (take_ident s4) as [[base s5]|] eqn:E5; [|discriminate].
  destruct (take_sp1 s5) as [s6|]; [|discriminate].
  destruct (take_number s6) as [[rate s7]|] eqn:E7; [|discriminate].
  destruct (take_sp1 s7) as [s8|]; [|discriminate].
  destruct (take_ident s8) as [[eq s9]|] eqn:E9; [|discriminate].
  destruct (take_entry_tail s9) as [[oc r1]|]; [|discriminate].
  destruct (comm_lookup cfg known base) as [k1|] eqn:L1; [|discriminate].
  destruct (comm_lookup cfg k1 eq) as [k2|] eqn:L2; [|discriminate].
  intro H. injection H as <- <- <-.
  destruct (comm_lookup_inv _ _ _ _ HK L1) as (K1 & Sb & Nb).
  destruct (comm_lookup_inv _ _ _ _ K1 L2) as (K2 & Se & Ne).
  split; [exact K2|]. unfold entry_fields_ok, entry_known, comm_ok. cbn [pe_ts pe_base pe_rate pe_eq].
  rewrite (proj1 (take_ident_spec _ _ _ E5)), (proj1 (take_ident_spec _ _ _ E9)), Sb, Se, Nb, Ne,
          (proj1 (take_number_spec _ _ _ E7)).
  repeat split. exists off. exact (proj1 (parse_ts_spec _ _ _ _ _ Hcfg E3)).
Qed.

Lemma parse_entries_inv cfg : cfg_ok (pd_ts cfg) = true -> forall f known s es, known_ok cfg known ->
  parse_entries f cfg known s = Ok es -> Forall (entry_fields_ok cfg) es.
Proof.
  intro Hcfg. induction f as [|f IH]; intros known s es HK; cbn [parse_entries]; [discriminate|].
  destruct (parse_price_entry cfg known s) as [[[e k] r]|] eqn:E; [|discriminate].
  destruct (parse_price_entry_inv _ _ _ _ _ _ Hcfg HK E) as [K' He].
  destruct r as [|c r'].
  - intro H. injection H as <-. constructor; [exact He|constructor].
  - destruct (parse_entries f cfg k (c :: r')) as [l|code] eqn:E2; cbn [res_map]; [|discriminate].
    intro H. injection H as <-. constructor; [exact He|exact (IH _ _ _ K' E2)].
Qed.

Lemma known_ok_init cfg : forallb comm_sem_ok (pd_comms cfg) = true -> known_ok cfg (pd_comms cfg).
Proof.
  intros H m Hm. unfold name_known. rewrite Hm, orb_true_r. split; [|reflexivity].
  unfold mem_str in Hm. apply existsb_exists in Hm as (x & Hin & Hx). apply str_eqb_true in Hx. subst x.
  rewrite forallb_forall in H. exact (H m Hin).
Qed.

(* every entry of an accepted file: both commodities are acceptable identifiers (known ones in strict mode),
   the rate is a rust_decimal, the instant is printable at the offset it was written with *)
Theorem accepted_entries cfg s es :
  cfg_ok (pd_ts cfg) = true -> forallb comm_sem_ok (pd_comms cfg) = true ->
  parse_pricedb cfg s = Ok es -> es <> [] /\ Forall (entry_fields_ok cfg) es.
Proof.
  intros Hcfg Hc H. split.
  - destruct (proj1 (parse_pricedb_total cfg s)) as [(es' & E & Hne)|E]; rewrite E in H; [|discriminate].
    injection H as <-. exact Hne.
  - unfold parse_pricedb, parse_pricedb_fuel in H. exact (parse_entries_inv cfg Hcfg _ _ _ _ (known_ok_init cfg Hc) H).
Qed.

(* the canonical text of what was read from an accepted file is accepted again, as the same entries
   (whenever every instant is printable at +00:00, i.e. its UTC year has four digits) *)
Theorem accepted_canonical cfg s es :
  cfg_ok (pd_ts cfg) = true -> forallb comm_sem_ok (pd_comms cfg) = true ->
  parse_pricedb cfg s = Ok es -> forallb (fun e => ts_ok (pe_ts e) 0) es = true ->
  parse_pricedb cfg (print_pricedb es) = Ok es.
Proof.
  intros Hcfg Hc H Hts. destruct (accepted_entries cfg s es Hcfg Hc H) as [Hne HF].
  rewrite Forall_forall in HF. rewrite forallb_forall in Hts.
  apply pricedb_roundtrip; [exact Hne| |]; apply forallb_forall; intros e Hin;
    destruct (HF e Hin) as (Hb & He & Hf & Hk & _).
  - unfold pentry_wf, pentry_wf_at. rewrite (Hts e Hin), Hb, He, Hf. reflexivity.
  - exact Hk.
Qed.

(* ------------------------------------------------------------------ non-vacuity *)
Definition ex_cfg : pdcfg := mkPdCfg (mkCfg 7200 (12 * 3600 * NS)) true [[69; 85; 82]; [88; 65; 85]; [85; 83; 68]]%N.
(* " \t\r\n\nP 2024-01-09 XAU 2659.64 USD; note\r\n\n   P\t2024-01-09T10:00:00.5Z  USD -0.50\tEUR\n\r" *)
Definition ex_text : list N :=
  [32; 9; 13; 10; 10;
   80; 32; 50; 48; 50; 52; 45; 48; 49; 45; 48; 57; 32; 88; 65; 85; 32; 50; 54; 53; 57; 46; 54; 52; 32; 85; 83; 68; 59; 32; 110; 111; 116; 101; 13; 10;
   10; 32; 32; 32;
   80; 9; 50; 48; 50; 52; 45; 48; 49; 45; 48; 57; 84; 49; 48; 58; 48; 48; 58; 48; 48; 46; 53; 90; 32; 32; 85; 83; 68; 32; 45; 48; 46; 53; 48; 9; 69; 85; 82; 10;
   13]%N.
Definition ex_entries : list pentry :=
  [mkPE 1704794400000000000 [88; 65; 85]%N (mkDec 265964 2) [85; 83; 68]%N;
   mkPE 1704794400500000000 [85; 83; 68]%N (mkDec (-50) 2) [69; 85; 82]%N].

Lemma pricedb_example :
  parse_pricedb ex_cfg ex_text = Ok ex_entries
  /\ forallb pentry_wf ex_entries = true /\ forallb (entry_known ex_cfg) ex_entries = true
  /\ parse_pricedb ex_cfg (print_pricedb ex_entries) = Ok ex_entries
  /\ parse_pricedb ex_cfg (32%N :: print_pricedb ex_entries) = Err E_price_syntax
  /\ parse_pricedb ex_cfg (10%N :: 32%N :: print_pricedb ex_entries) = Err E_price_syntax
  /\ parse_pricedb (mkPdCfg (pd_ts ex_cfg) true [[69; 85; 82]; [88; 65; 85]]%N) ex_text = Err E_price_syntax
  /\ parse_pricedb ex_cfg [32; 10; 10]%N = Err E_price_syntax.
Proof. vm_compute. repeat split. Qed.
