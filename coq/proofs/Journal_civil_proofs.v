(* Journal_civil_proofs.v — C06: proleptic Gregorian day numbers: every day number has a valid
   civil date that maps back to it.  One 400-year cycle is checked by evaluation (vm_compute over
   146097 days), lifted to all of Z by periodicity lemmas. *)
From TkModel Require Import Base Dec Acct Txn Accept Journal.
Local Open Scope Z_scope.

(* ------------------------------------------------------------------ one 400-year cycle, swept *)
Definition md_ok (y m d : Z) : bool :=
  (1 <=? m) && (m <=? 12) && (1 <=? d) && (d <=? days_in_month y m).
Definition civil_check (z : Z) : bool :=
  let '(y, m, d) := civil_from_days z in md_ok y m d && (days_from_civil y m d =? z).

Fixpoint sweep (n : nat) (z : Z) : bool :=
  match n with O => true | S n' => if civil_check z then sweep n' (z + 1) else false end.

Lemma sweep_sound n : forall z, sweep n z = true -> forall i, 0 <= i < Z.of_nat n -> civil_check (z + i) = true.
Proof.
  induction n as [|n IH]; intros z H i Hi; [lia|].
  cbn [sweep] in H. destruct (civil_check z) eqn:E; [|discriminate].
  destruct (Z.eq_dec i 0) as [->|Hn]; [rewrite Z.add_0_r; exact E|].
  replace (z + i) with (z + 1 + (i - 1)) by ring. apply IH; [exact H|lia].
Qed.

Lemma cycle_swept : sweep (N.to_nat 146097) (-719468) = true.
Proof. vm_compute. reflexivity. Qed.

(* periodicity *)
Lemma civil_from_days_shift z k :
  civil_from_days (z + 146097 * k) = let '(y, m, d) := civil_from_days z in (y + 400 * k, m, d).
Proof.
  unfold civil_from_days.
  replace (z + 146097 * k + 719468) with (z + 719468 + k * 146097) by ring.
  rewrite Z.div_add by lia.
  set (z' := z + 719468). set (era := z' / 146097).
  replace (z' + k * 146097 - (era + k) * 146097) with (z' - era * 146097) by ring.
  set (doe := z' - era * 146097).
  set (yoe := (doe - doe / 1460 + doe / 36524 - doe / 146096) / 365).
  set (doy := doe - (365 * yoe + yoe / 4 - yoe / 100)).
  set (mp := (5 * doy + 2) / 153).
  destruct (_ <=? 2); f_equal; f_equal; ring.
Qed.

Lemma days_from_civil_shift y m d k :
  days_from_civil (y + 400 * k) m d = days_from_civil y m d + 146097 * k.
Proof.
  unfold days_from_civil.
  set (y0 := if m <=? 2 then y - 1 else y).
  replace (if m <=? 2 then y + 400 * k - 1 else y + 400 * k) with (y0 + k * 400)
    by (subst y0; destruct (m <=? 2); ring).
  rewrite Z.div_add by lia.
  replace (y0 + k * 400 - (y0 / 400 + k) * 400) with (y0 - y0 / 400 * 400) by ring.
  ring.
Qed.

Lemma is_leap_shift y k : is_leap (y + 400 * k) = is_leap y.
Proof.
  unfold is_leap.
  replace (y + 400 * k) with (y + (100 * k) * 4) at 1 by ring. rewrite Z_mod_plus_full.
  replace (y + 400 * k) with (y + (4 * k) * 100) at 1 by ring. rewrite Z_mod_plus_full.
  replace (y + 400 * k) with (y + k * 400) by ring. rewrite Z_mod_plus_full. reflexivity.
Qed.

Lemma md_ok_shift y m d k : md_ok (y + 400 * k) m d = md_ok y m d.
Proof. unfold md_ok, days_in_month. rewrite is_leap_shift. reflexivity. Qed.

(* every day number has a valid civil date that maps back to it *)
Theorem civil_of_days z :
  let '(y, m, d) := civil_from_days z in md_ok y m d = true /\ days_from_civil y m d = z.
Proof.
  set (k := (z + 719468) / 146097).
  set (z0 := z - 146097 * k).
  assert (Hz : z = z0 + 146097 * k) by (subst z0; ring).
  assert (Hr : 0 <= z0 + 719468 < 146097).
  { subst z0 k. pose proof (Z.div_mod (z + 719468) 146097 ltac:(lia)).
    pose proof (Z.mod_pos_bound (z + 719468) 146097 ltac:(lia)). lia. }
  pose proof (sweep_sound _ _ cycle_swept (z0 + 719468)) as Hc.
  rewrite N_nat_Z in Hc. specialize (Hc ltac:(change (Z.of_N 146097) with 146097; lia)).
  replace (-719468 + (z0 + 719468)) with z0 in Hc by ring.
  unfold civil_check in Hc.
  rewrite Hz, civil_from_days_shift.
  destruct (civil_from_days z0) as [[y m] d].
  apply andb_true_iff in Hc as [Hmd Hd]. apply Z.eqb_eq in Hd.
  rewrite md_ok_shift, days_from_civil_shift, Hd. split; [exact Hmd|reflexivity].
Qed.

