(* Order_proofs.v — canonical order of transactions (TxnHeader::cmp, TxnData::from). *)
From Coq Require Import Permutation Sorted.
From TkModel Require Import Base Dec Acct Txn.
From TkProofs Require Import Base_proofs.

Lemma Zcompare_ord : cmp_ord Z.compare.
Proof.
  constructor.
  - intros a b. apply Z.compare_antisym.
  - intros a b c H1 H2. rewrite Z.compare_lt_iff in *. lia.
  - intros a b c H. apply Z.compare_eq_iff in H. subst. reflexivity.
Qed.

Lemma header_cmp_ord : cmp_ord header_cmp.
Proof.
  unfold header_cmp.
  apply (cmp_ord_lex (fun a b => Z.compare (h_inst a) (h_inst b))).
  { apply (cmp_ord_preimage h_inst). exact Zcompare_ord. }
  apply (cmp_ord_lex (fun a b => str_cmp (opt_str (h_code a)) (opt_str (h_code b)))).
  { apply (cmp_ord_preimage (fun h => opt_str (h_code h))). exact str_cmp_ord. }
  apply (cmp_ord_lex (fun a b => str_cmp (opt_str (h_desc a)) (opt_str (h_desc b)))).
  { apply (cmp_ord_preimage (fun h => opt_str (h_desc h))). exact str_cmp_ord. }
  apply (cmp_ord_preimage (fun h => opt_str (h_uuid h))). exact str_cmp_ord.
Qed.

Definition txn_cmp (a b : txn) : comparison := header_cmp (t_hdr a) (t_hdr b).
Lemma txn_cmp_ord : cmp_ord txn_cmp.
Proof. apply (cmp_ord_preimage t_hdr). exact header_cmp_ord. Qed.

Definition txn_le (a b : txn) : Prop := txn_leb a b = true.
Definition txn_lt (a b : txn) : Prop := txn_cmp a b = Lt.

Lemma txn_leb_total a b : txn_leb a b = false -> txn_leb b a = true.
Proof.
  unfold txn_leb. fold (txn_cmp a b). fold (txn_cmp b a). intros H.
  rewrite (co_opp _ txn_cmp_ord b a). destruct (txn_cmp a b); cbn in *; congruence.
Qed.

Lemma txn_leb_trans a b c : txn_leb a b = true -> txn_leb b c = true -> txn_leb a c = true.
Proof. unfold txn_leb. fold (txn_cmp a b) (txn_cmp b c) (txn_cmp a c). apply (co_leb_trans _ txn_cmp_ord). Qed.

(* the transaction set is sorted and is a permutation of what was loaded *)
Lemma sort_txns_sorted l : StronglySorted txn_le (sort_txns l).
Proof. unfold sort_txns. apply sort_by_sorted; [exact txn_leb_total|exact txn_leb_trans]. Qed.

Lemma sort_txns_perm l : Permutation (sort_txns l) l.
Proof. apply sort_by_perm. Qed.

(* pairwise distinguishable by (instant, code, description, uuid) *)
Definition distinct_hdrs (l : list txn) : Prop :=
  NoDup l /\ forall a b, In a l -> In b l -> header_cmp (t_hdr a) (t_hdr b) = Eq -> a = b.

Lemma distinct_hdrs_perm l l' : Permutation l l' -> distinct_hdrs l -> distinct_hdrs l'.
Proof.
  intros Hp [Hnd Hinj]. split.
  - apply (Permutation_NoDup Hp Hnd).
  - intros a b Ha Hb. apply Hinj; apply (Permutation_in _ (Permutation_sym Hp)); assumption.
Qed.

Lemma sorted_le_lt l : distinct_hdrs l -> StronglySorted txn_le l -> StronglySorted txn_lt l.
Proof.
  intros [Hnd Hinj] Hs. induction Hs as [|x l Hs IH Hf]; [constructor|].
  inversion Hnd as [|? ? Hni Hnd']; subst. constructor.
  - apply IH; [exact Hnd'|]. intros a b Ha Hb. apply Hinj; right; assumption.
  - rewrite Forall_forall in *. intros y Hy. specialize (Hf y Hy).
    unfold txn_le, txn_leb in Hf. unfold txn_lt, txn_cmp.
    destruct (header_cmp (t_hdr x) (t_hdr y)) eqn:E; [|reflexivity|discriminate].
    exfalso. apply Hni. rewrite (Hinj x y (or_introl eq_refl) (or_intror Hy) E). exact Hy.
Qed.

Lemma txn_lt_asym a b : txn_lt a b -> txn_lt b a -> False.
Proof.
  unfold txn_lt. intros H1 H2. rewrite (co_opp _ txn_cmp_ord) in H2. rewrite H1 in H2. discriminate.
Qed.

Theorem sort_txns_perm_eq l l' : Permutation l l' -> distinct_hdrs l -> sort_txns l = sort_txns l'.
Proof.
  intros Hp Hd.
  apply (sorted_perm_unique txn_lt txn_lt_asym).
  - apply sorted_le_lt; [|apply sort_txns_sorted].
    apply (distinct_hdrs_perm l); [apply Permutation_sym, sort_txns_perm|exact Hd].
  - apply sorted_le_lt; [|apply sort_txns_sorted].
    apply (distinct_hdrs_perm l); [|exact Hd].
    transitivity l'; [exact Hp|apply Permutation_sym, sort_txns_perm].
  - transitivity l; [apply sort_txns_perm|]. transitivity l'; [exact Hp|apply Permutation_sym, sort_txns_perm].
Qed.

Lemma concat_perm {A} (ls ls' : list (list A)) : Permutation ls ls' -> Permutation (concat ls) (concat ls').
Proof.
  induction 1 as [|x l l' _ IH|x y l|l l' l'' _ IH1 _ IH2]; cbn [concat].
  - reflexivity.
  - apply Permutation_app_head. exact IH.
  - rewrite !app_assoc. apply Permutation_app_tail. apply Permutation_app_comm.
  - transitivity (concat l'); assumption.
Qed.

(* any distribution of the transactions over files, in any file order *)
Theorem sort_txns_shards files files' :
  Permutation (concat files) (concat files') -> distinct_hdrs (concat files) ->
  sort_txns (concat files) = sort_txns (concat files').
Proof. apply sort_txns_perm_eq. Qed.

Theorem sort_txns_file_order files files' :
  Permutation files files' -> distinct_hdrs (concat files) ->
  sort_txns (concat files) = sort_txns (concat files').
Proof. intros Hp. apply sort_txns_perm_eq. apply concat_perm. exact Hp. Qed.

(* with ties the order may differ but only among indistinguishable headers: the
   sequence of headers is the same up to header_cmp = Eq at each position *)
Lemma sort_txns_idem l : sort_txns (sort_txns l) = sort_txns l.
Proof. unfold sort_txns. apply sort_by_id. apply (sort_txns_sorted l). Qed.
