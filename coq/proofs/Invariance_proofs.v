(* Invariance_proofs.v — the specification figures depend only on the multiset of postings. *)
From Coq Require Import Permutation.
From TkModel Require Import Base Dec Acct Balance.
From TkSpec Require Import Balance_spec.
From TkProofs Require Import Base_proofs.
Local Open Scope Z_scope.

Lemma zsum_filter_perm {A} (p : A -> bool) (f : A -> Z) l l' :
  Permutation l l' -> zsum (map f (filter p l)) = zsum (map f (filter p l')).
Proof. intros H. rewrite !zsum_map_filter. apply zsum_map_perm. exact H. Qed.

Lemma spec_own_perm ps ps' k : Permutation ps ps' -> spec_own ps k = spec_own ps' k.
Proof. intros H. unfold spec_own. apply zsum_filter_perm. exact H. Qed.

Lemma spec_tree_perm ps ps' k : Permutation ps ps' -> spec_tree ps k = spec_tree ps' k.
Proof. intros H. unfold spec_tree. apply zsum_filter_perm. exact H. Qed.

Lemma spec_keys_perm ps ps' : Permutation ps ps' ->
  forall k, In k (spec_keys ps) <-> In k (spec_keys ps').
Proof.
  intros H k. unfold spec_keys. rewrite !in_flat_map.
  split; intros [p [Hp Hk]]; exists p; split; try exact Hk.
  - apply (Permutation_in _ H Hp).
  - apply (Permutation_in _ (Permutation_sym H) Hp).
Qed.

Lemma spec_delta_perm rows rows' c : Permutation rows rows' -> spec_delta rows c = spec_delta rows' c.
Proof. intros H. unfold spec_delta. apply zsum_filter_perm. exact H. Qed.
