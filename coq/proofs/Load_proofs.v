From TkModel Require Import Base Dec Txn Load.
Local Open Scope N_scope.

Lemma mapM_ok_all {A B} (f : A -> res B) l ys :
  mapM f l = Ok ys -> Forall2 (fun x y => f x = Ok y) l ys.
Proof.
  revert ys. induction l as [|x l IH]; intros ys H; cbn [mapM] in H.
  - inversion H. constructor.
  - destruct (f x) eqn:Ex; [|discriminate]. destruct (mapM f l) eqn:El; [|discriminate].
    inversion H; subst. constructor; [exact Ex|apply IH; reflexivity].
Qed.

Lemma mapM_err_any {A B} (f : A -> res B) l x c :
  In x l -> f x = Err c -> exists c', mapM f l = Err c'.
Proof.
  induction l as [|y l IH]; intros Hin Hx; [destruct Hin|]. cbn [mapM].
  destruct Hin as [->|Hin].
  - rewrite Hx. eexists; reflexivity.
  - destruct (f y); [|eexists; reflexivity].
    destruct (IH Hin Hx) as [c' Hc]. rewrite Hc. eexists; reflexivity.
Qed.

Lemma mapM_all_ok {A B} (f : A -> res B) l :
  (forall x, In x l -> exists y, f x = Ok y) -> exists ys, mapM f l = Ok ys.
Proof.
  induction l as [|x l IH]; intros H; cbn [mapM]; [eexists; reflexivity|].
  destruct (H x (or_introl eq_refl)) as [y Hy]. rewrite Hy.
  destruct IH as [ys Hys]; [intros z Hz; apply H; right; exact Hz|]. rewrite Hys. eexists; reflexivity.
Qed.

Section LoadFacts.
  Context {file : Type} (parse : file -> res (list txn)).

  (* a transaction set exists only if every file was accepted, and then it holds exactly
     the transactions of all files *)
  Lemma load_ok_all files ts : load_files parse files = Ok ts ->
    exists ls, Forall2 (fun f l => parse f = Ok l) files ls /\ ts = sort_txns (concat ls).
  Proof.
    unfold load_files, res_map. destruct (mapM parse files) eqn:E; [|discriminate].
    intros H. inversion H; subst. exists a. split; [apply mapM_ok_all; exact E|reflexivity].
  Qed.

  (* an error in any file: no transaction set at all *)
  Lemma load_err_any files f c : In f files -> parse f = Err c ->
    exists c', load_files parse files = Err c'.
  Proof.
    intros Hin Hf. unfold load_files, res_map.
    destruct (mapM_err_any parse files f c Hin Hf) as [c' Hc]. rewrite Hc. eexists; reflexivity.
  Qed.

  Lemma load_total files : (forall f, In f files -> exists l, parse f = Ok l) ->
    exists ts, load_files parse files = Ok ts.
  Proof.
    intros H. unfold load_files, res_map. destruct (mapM_all_ok parse files H) as [ys Hy].
    rewrite Hy. eexists; reflexivity.
  Qed.
End LoadFacts.

(* the fraction scaling of the time-stamp parser stays below one second (and within i32) *)
Lemma frac_ns_bound digits len : 1 <= len <= 9 -> digits < 10 ^ len ->
  frac_ns digits len < 10 ^ 9 /\ frac_ns digits len < 2 ^ 31.
Proof.
  intros Hl Hd. unfold frac_ns.
  assert (10 ^ 9 = 10 ^ len * 10 ^ (9 - len)) as E.
  { rewrite <- N.pow_add_r. f_equal. lia. }
  assert (0 < 10 ^ (9 - len)) as Hp by (apply N.neq_0_lt_0, N.pow_nonzero; discriminate).
  assert (digits * 10 ^ (9 - len) < 10 ^ 9) as H.
  { rewrite E. apply N.mul_lt_mono_pos_r; assumption. }
  split; [exact H|]. eapply N.lt_trans; [exact H|]. reflexivity.
Qed.

Lemma checked_ops_exact a b :
  (forall r, dadd_checked a b = Some r -> r = dadd a b /\ fits r = true)
  /\ (forall r, dmul_checked a b = Some r -> r = dmul a b /\ fits r = true).
Proof.
  unfold dadd_checked, dmul_checked. split; intros r H.
  - destruct (fits (dadd a b)) eqn:E; [|discriminate]. inversion H; subst. split; [reflexivity|exact E].
  - destruct (fits (dmul a b)) eqn:E; [|discriminate]. inversion H; subst. split; [reflexivity|exact E].
Qed.
